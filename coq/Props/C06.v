(* Props/C06.v -- "BibTeX-engine output depends only on the cited entries and the style".
   Statements only; proofs in Proofs/Engines.v and Proofs/EnginesSort.v.  The model is
   Model/Engines.v (entry points, .aux files, READ) over Model/Bst.v (the interpreter) and
   Model/Citations.v (citation resolution). *)
From Pybtex Require Import Base.Prelude Base.PyChar Base.PyStr Model.BibtexStr Model.Wrap Model.Bst Model.Citations Model.Engines
  Proofs.EnginesSort Proofs.Engines Proofs.EnginesExec Proofs.EnginesMeta Proofs.EnginesOrder Proofs.EnginesProbe Proofs.EnginesAux Proofs.EnginesItems Proofs.EnginesCli Proofs.EnginesTable.
From Pybtex Require Model.Aux.
From Coq Require Import Permutation Sorted.

(* Driving the engine through an .aux file = the equivalent explicit call, byte for byte: whenever the
   .aux file parses (stating database names `data`, citations, and a style), make_bibliography(aux,
   style, bib_format) writes into <aux without extension>.bbl exactly the string that
   format_from_files([d + suffix of the format in force], the style in force, the .aux citations,
   bib_format) returns, and fails exactly as that call fails.  The style in force is the requested one
   if there is one, else the .aux file's; the format in force is the requested one, else BibTeX. *)
Theorem aux_equals_explicit : forall fmt_name cw fuel fs aux style bf m ad sty data,
  aux_parse_file aux_depth fs aux = Ok ad -> ax_data ad = Some data ->
  (match style with Some s => Some s | None => ax_style ad end) = Some sty ->
  let fmt := match bf with Some f => f | None => 0 end in
  match format_from_files fmt_name cw fuel fs (map (fun n => BName (n ++ suffix_of fmt)) data) sty
                          (Some (ax_cites ad)) bf m None false with
  | Ok o => exists bbl, o = mkOut fs (Some bbl) (o_reports o) /\
            make_bibliography fmt_name cw fuel fs aux style bf m =
            Ok (mkOut (fs_write fs (splitext_root aux ++ s_bbl) bbl) None (ax_reports ad + o_reports o))
  | PyErr c l => make_bibliography fmt_name cw fuel fs aux style bf m = PyErr c l
  | Crash => make_bibliography fmt_name cw fuel fs aux style bf m = Crash
  | OutOfFuel => make_bibliography fmt_name cw fuel fs aux style bf m = OutOfFuel
  end.
Proof. exact make_bibliography_explicit. Qed.
Print Assumptions aux_equals_explicit.

(* The .aux reader of Model/Engines.v and the validated model of pybtex/auxfile.py (Model/Aux.v, property C20)
   are the same reader: on corresponding file systems (an FAux file = its clean lines, each followed by a line end;
   `fs_rel`) they return the same style, database names, citations, canonical-key table and number of reports
   (`agree`), and the simplified one fails only when the real one raises.  OutOfFuel = the simplified reader
   declines (nesting deeper than its bound, or a file that is no .aux file is \@input). *)
Theorem aux_reader_simulation : forall fs afs, fs_rel fs afs -> forall d f,
  match aux_parse_file d fs f with
  | Ok ad => exists a, Aux.parse_aux (S d) afs Aux.Capture f = Aux.Ret a /\ agree ad a
  | PyErr _ _ => exists e s, Aux.parse_aux (S d) afs Aux.Capture f = Aux.Raise e s
  | OutOfFuel => True
  | Crash => False
  end.
Proof. exact reader_sim. Qed.
Print Assumptions aux_reader_simulation.
Theorem aux_reader_bridge : forall fs afs, fs_rel fs afs -> forall d f ad,
  aux_parse_file d fs f <> OutOfFuel ->
  (aux_parse_file d fs f = Ok ad <-> exists a, Aux.parse_aux (S d) afs Aux.Capture f = Aux.Ret a /\ agree ad a).
Proof. exact reader_bridge. Qed.
Print Assumptions aux_reader_bridge.

(* aux_equals_explicit about the REAL reader: what C20's theorems (citations_spec, style_is_first,
   data_is_first_split, reported_errors_spec ...) say about `a` is what make_bibliography hands on. *)
Theorem aux_equals_explicit_real_reader : forall fmt_name cw fuel fs afs aux style bf m a sty data,
  fs_rel fs afs -> aux_parse_file aux_depth fs aux <> OutOfFuel ->
  Aux.parse_aux (S aux_depth) afs Aux.Capture aux = Aux.Ret a ->
  Aux.a_data a = Some data ->
  (match style with Some s => Some s | None => Aux.a_style a end) = Some sty ->
  let fmt := match bf with Some f => f | None => 0 end in
  match format_from_files fmt_name cw fuel fs (map (fun n => BName (n ++ suffix_of fmt)) data) sty
                          (Some (Aux.a_cits a)) bf m None false with
  | Ok o => exists bbl, o = mkOut fs (Some bbl) (o_reports o) /\
            make_bibliography fmt_name cw fuel fs aux style bf m =
            Ok (mkOut (fs_write fs (splitext_root aux ++ s_bbl) bbl) None (length (Aux.a_errs a) + o_reports o))
  | PyErr c l => make_bibliography fmt_name cw fuel fs aux style bf m = PyErr c l
  | Crash => make_bibliography fmt_name cw fuel fs aux style bf m = Crash
  | OutOfFuel => make_bibliography fmt_name cw fuel fs aux style bf m = OutOfFuel
  end.
Proof. exact make_bibliography_real_reader. Qed.
Print Assumptions aux_equals_explicit_real_reader.

(* The command line `pybtex OPTIONS FILE` (options -s/--style, -f, --min-crossrefs, --terse, each possibly several
   times: the last occurrence counts) is make_bibliography on FILE -- with '.aux' appended exactly when
   posixpath.splitext does not already give that extension -- with the style, format and min_crossrefs the options
   spell (default min_crossrefs 2) ... *)
Theorem command_line_is_make_bibliography : forall fmt_name cw fuel fs opts filename,
  command_line_argv fmt_name cw fuel fs opts filename =
  make_bibliography fmt_name cw fuel fs (cli_aux_name filename) (cli_style opts) (cli_format opts)
                    (match cli_min_crossrefs opts with Some m => m | None => 2%Z end).
Proof. exact command_line_argv_is. Qed.
Print Assumptions command_line_is_make_bibliography.
Theorem cli_aux_name_appends_unless_aux : forall f,
  f = splitext_root f ++ splitext_ext f /\
  (splitext_ext f = s_aux -> cli_aux_name f = f) /\ (splitext_ext f <> s_aux -> cli_aux_name f = f ++ s_aux).
Proof. exact cli_aux_name_full_spec. Qed.
Print Assumptions cli_aux_name_appends_unless_aux.
Theorem cli_last_option_counts : forall opts rest,
  (forall s, cli_style rest = None -> cli_style (opts ++ OptStyle s :: rest) = Some s) /\
  (forall f, cli_format rest = None -> cli_format (opts ++ OptFormat f :: rest) = Some f) /\
  (forall m, cli_min_crossrefs rest = None -> cli_min_crossrefs (opts ++ OptMinCrossrefs m :: rest) = Some m) /\
  ((forall s, ~ In (OptStyle s) opts) -> cli_style opts = None).
Proof. exact cli_last_option_lemma. Qed.
Print Assumptions cli_last_option_counts.
(* ... hence the explicit engine call; in particular with `-s S` as the last style option the style handed to
   format_from_files is S itself, whatever characters it contains (the clause the seeded defect C06n broke:
   'house.sorted' must not become 'house') *)
Theorem command_line_style_handed_on_unchanged : forall fmt_name cw fuel fs opts rest s filename ad data,
  cli_style rest = None ->
  let o := opts ++ OptStyle s :: rest in
  let aux := cli_aux_name filename in
  let m := match cli_min_crossrefs o with Some m => m | None => 2%Z end in
  aux_parse_file aux_depth fs aux = Ok ad -> ax_data ad = Some data ->
  let fmt := match cli_format o with Some f => f | None => 0 end in
  match format_from_files fmt_name cw fuel fs (map (fun n => BName (n ++ suffix_of fmt)) data) s
                          (Some (ax_cites ad)) (cli_format o) m None false with
  | Ok r => exists bbl, r = mkOut fs (Some bbl) (o_reports r) /\
            command_line_argv fmt_name cw fuel fs o filename =
            Ok (mkOut (fs_write fs (splitext_root aux ++ s_bbl) bbl) None (ax_reports ad + o_reports r))
  | PyErr c l => command_line_argv fmt_name cw fuel fs o filename = PyErr c l
  | Crash => command_line_argv fmt_name cw fuel fs o filename = Crash
  | OutOfFuel => command_line_argv fmt_name cw fuel fs o filename = OutOfFuel
  end.
Proof. exact command_line_style_unchanged. Qed.
Print Assumptions command_line_style_handed_on_unchanged.

(* What an .aux file (without \@input) says: its citations are the comma-separated pieces of its
   \citation lines, in order; its style / database names those of the FIRST \bibstyle / \bibdata line. *)
Theorem aux_file_states : forall depth fs name lines ad,
  fs_get fs name = Some (FAux lines) -> forallb no_input lines = true ->
  aux_parse_file depth fs name = Ok ad ->
  ax_cites ad = flat_map line_cites lines /\
  ax_style ad = first_some line_style lines /\ ax_data ad = first_some line_data lines.
Proof. exact aux_file_says. Qed.
Print Assumptions aux_file_states.

(* An explicitly requested style overrides what the .aux file says: two .aux files that agree on
   everything but the style they name give the same result under an explicit style. *)
Theorem override_wins : forall fmt_name cw fuel fs aux1 aux2 s bf m ad1 ad2,
  aux_parse_file aux_depth fs aux1 = Ok ad1 -> aux_parse_file aux_depth fs aux2 = Ok ad2 ->
  ax_data ad1 = ax_data ad2 -> ax_cites ad1 = ax_cites ad2 -> ax_reports ad1 = ax_reports ad2 ->
  splitext_root aux1 = splitext_root aux2 ->
  make_bibliography fmt_name cw fuel fs aux1 (Some s) bf m = make_bibliography fmt_name cw fuel fs aux2 (Some s) bf m.
Proof. exact make_bibliography_override. Qed.
Print Assumptions override_wins.

(* The interpreter receives the database only through what READ finds: two sets of bibliography files
   that look the same to READ (same citations afterwards, same entries with the same visible fields,
   same number of reports) give the same run, whatever the style program. *)
Theorem run_frame : forall fmt_name cw fuel fs1 fs2 srcs1 srcs2 prog cites fmt m,
  same_view m (parse_files fs1 fmt srcs1) (parse_files fs2 fmt srcs2) ->
  engine_run fmt_name cw fuel fs1 prog cites srcs1 fmt m = engine_run fmt_name cw fuel fs2 prog cites srcs2 fmt m.
Proof. exact engine_run_same_view. Qed.
Print Assumptions run_frame.

(* Adding or removing an uncited entry changes nothing READ finds: an entry whose key is (up to case)
   neither cited nor the cross-reference of any entry of the file, in a reading without '*', can be
   inserted at / deleted from any position of the database.  (The side condition is about keys, so
   it also covers collisions of the added key with entries already there.) *)
Theorem uncited_irrelevant : forall db1 e db2 cites m,
  never_wanted (db1 ++ db2) cites (b_key e) ->
  engine_read (db1 ++ e :: db2) cites m = engine_read (db1 ++ db2) cites m.
Proof. exact engine_read_uncited. Qed.
Print Assumptions uncited_irrelevant.

(* sharper: an entry that is not wanted at the moment the one-pass reader reaches it leaves no trace *)
Theorem unwanted_irrelevant : forall db1 e db2 cites m,
  want_entry (read_db (Some cites) (map proj db1)) (b_key e) = false ->
  engine_read (db1 ++ e :: db2) cites m = engine_read (db1 ++ db2) cites m.
Proof. exact engine_read_skip. Qed.
Print Assumptions unwanted_irrelevant.

(* ... and so the output of the entry point does not change: same returned string, same reports *)
Theorem uncited_irrelevant_output : forall fmt_name cw fuel fs f db1 e db2 sty cites bf m,
  never_wanted (db1 ++ db2) cites (b_key e) ->
  format_from_string fmt_name cw fuel fs (f, db1 ++ e :: db2) sty (Some cites) bf m =
  format_from_string fmt_name cw fuel fs (f, db1 ++ db2) sty (Some cites) bf m.
Proof. exact format_from_string_uncited. Qed.
Print Assumptions uncited_irrelevant_output.

(* Re-ordering the database file changes nothing READ finds, when no key is repeated (up to case),
   '*' is neither cited nor cross-referenced, and both orders obey BibTeX's ordering rule: an entry
   that is reached through a cross-reference and is not itself cited stands after the (reached)
   entries referring to it.  `reach` is the order-independent closure "cited, or cross-referenced
   by a reached entry". *)
Theorem file_order_irrelevant : forall db db' cites m,
  Permutation db db' -> NoDup (map lkey db) -> nostar cites db ->
  children_first cites db -> children_first cites db' ->
  engine_read db cites m = engine_read db' cites m.
Proof. exact engine_read_reorder. Qed.
Print Assumptions file_order_irrelevant.

(* ... hence the entry point returns the same outcome for both orders *)
Theorem file_order_irrelevant_output : forall fmt_name cw fuel fs f db db' sty cites bf m,
  Permutation db db' -> NoDup (map lkey db) -> nostar cites db ->
  children_first cites db -> children_first cites db' ->
  format_from_string fmt_name cw fuel fs (f, db) sty (Some cites) bf m =
  format_from_string fmt_name cw fuel fs (f, db') sty (Some cites) bf m.
Proof. exact format_from_string_reorder. Qed.
Print Assumptions file_order_irrelevant_output.

(* the ordering rule cannot be dropped (finding F13, shared with C05): with the cross-referenced,
   uncited entry FIRST, the one-pass reader has not been asked for it yet and drops it *)
Theorem file_order_refuted : exists db db' cites m,
  Permutation db db' /\ NoDup (map lkey db) /\ nostar cites db /\ children_first cites db /\
  r_cites (engine_read db cites m) <> r_cites (engine_read db' cites m).
Proof. exact file_order_counterexample. Qed.
Print Assumptions file_order_refuted.

(* what the one-pass reader keeps, independently of the order: exactly the entries whose key is
   cited or cross-referenced (transitively) from a cited entry *)
Theorem reader_keeps_reachable : forall cites db e,
  nostar cites db -> NoDup (map lkey db) -> children_first cites db ->
  (In e (scan cites db []) <-> In e db /\ reach cites db (b_key e)).
Proof. exact scan_char. Qed.
Print Assumptions reader_keeps_reachable.
Theorem reader_is_scan : forall cites db, NoDup (map lkey db) ->
  stored_entries db cites = map (fun e => (ckey cites (b_key e), e)) (scan cites db []) /\
  bd_reports (read_db (Some cites) (map proj db)) = [].
Proof. exact reader_is_scan_lemma. Qed.
Print Assumptions reader_is_scan.

(* executing style code -- any function, any built-in, while$ included -- never changes the citation
   list, the database READ found, or what a later READ will find *)
Theorem exec_preserves_citations : forall fmt_name cw fuel st p st',
  exec fmt_name cw fuel st p = Ok st' ->
  st_cites st' = st_cites st /\ st_db st' = st_db st /\ st_reads st' = st_reads st.
Proof. exact exec_pres. Qed.
Print Assumptions exec_preserves_citations.
(* ... and of the commands only READ replaces the citation list and only SORT permutes it *)
Theorem commands_preserve_citations : forall fmt_name cw fuel st c st',
  is_read_cmd c = false -> run_command fmt_name cw fuel st c = Ok st' ->
  Permutation (st_cites st') (st_cites st) /\ st_db st' = st_db st /\ st_reads st' = st_reads st.
Proof. exact run_command_cites. Qed.
Print Assumptions commands_preserve_citations.

(* ITERATE {f} executes f exactly once per citation the engine holds, in order, each time with the
   current entry set to that citation's entry; REVERSE {f} does the same over the reversed list. *)
Theorem iterate_visits_each_once : forall fmt_name cw fuel st f o st',
  vlookup f (st_vars st) = Some o ->
  run_command fmt_name cw fuel st (Cmd nm_iterate [[IId f]]) = Ok st' ->
  exists sts, length sts = length (st_cites st) /\
    (forall i k, nth_error (st_cites st) i = Some k ->
       exists s1 s2, nth_error (st :: sts) i = Some s1 /\ nth_error sts i = Some s2 /\
                     visit fmt_name cw fuel f s1 k = Ok s2) /\
    last sts st = st'.
Proof. exact iterate_command_chain. Qed.
Print Assumptions iterate_visits_each_once.

Theorem reverse_visits_each_once : forall fmt_name cw fuel st f o st',
  vlookup f (st_vars st) = Some o ->
  run_command fmt_name cw fuel st (Cmd nm_reverse [[IId f]]) = Ok st' ->
  exists sts, length sts = length (st_cites st) /\
    (forall i k, nth_error (rev (st_cites st)) i = Some k ->
       exists s1 s2, nth_error (st :: sts) i = Some s1 /\ nth_error sts i = Some s2 /\
                     visit fmt_name cw fuel f s1 k = Ok s2) /\
    last sts st = st'.
Proof. exact reverse_command_chain. Qed.
Print Assumptions reverse_visits_each_once.

(* The engine-level fact behind "one item per resolved citation" for ANY style: let the interpreter, at an
   ITERATE {f} command, still hold the style's code (`has_code vars`: write$ / cite$ are the built-ins, every
   function of the table `vars` is bound as there) and let f be good for the type of every entry the engine holds
   (`good_call`: f is a function that `emits`, or f is call.type$ and the type's function -- default.type for an
   unknown type -- emits; a body `emits` if at its top level it executes `"\bibitem..." write$` and later
   `cite$ write$`, or starts by calling a function that does).  If the command succeeds, the text written
   (white space aside: wrapping only moves white space) grows by one segment per held citation, in order, each
   containing the \bibitem literal followed by that citation's key.  `emits` / `good_call` are syntactic; the
   harness evaluates them on the ASTs of the shipped styles (plain, unsrt, alpha, unsrt_mixed, apacite satisfy
   them for every generated entry type; jurabib and IEEEtran build the item differently and stay oracle-only). *)
Theorem items_per_citation : forall fmt_name cw vars fuel st f o d st',
  vlookup f (st_vars st) = Some o -> has_code vars st -> st_db st = Some d ->
  (forall k, In k (st_cites st) -> exists e, alookup str_eqb k (r_entries d) = Some e /\ good_call vars f (e_type e)) ->
  run_command fmt_name cw fuel st (Cmd nm_iterate [[IId f]]) = Ok st' ->
  exists segs, outx st' = outx st ++ concat segs /\ Forall2 item_segment (st_cites st) segs.
Proof. exact iterate_items. Qed.
Print Assumptions items_per_citation.
(* no style code -- any function, built-in, while$ -- rebinds a function or built-in, creates a variable, changes
   the current entry or the database, or takes back text already written *)
Theorem style_code_is_stable : forall fmt_name cw fuel st p st',
  exec fmt_name cw fuel st p = Ok st' -> keeps st st'.
Proof. exact exec_keeps. Qed.
Print Assumptions style_code_is_stable.

(* The program-to-variable-table link for items_per_citation: a FUNCTION command of the style program is what the
   variable table holds under that name after any later commands (every declaring command goes through add_variable,
   a bound name cannot be re-declared), and from the start of a run write$ / cite$ stay the built-ins -- so at the
   final ITERATE the hypotheses `has_code` / `good_call` of items_per_citation can be read off the program text. *)
Theorem function_stays_in_table : forall fmt_name cw fuel pre nm body post st0 st,
  run fmt_name cw fuel st0 (pre ++ Cmd nm_function [[IId nm]; body] :: post) = Ok st ->
  alookup str_eqb (lower nm) (st_vars st) = Some (OFun body).
Proof. exact function_in_table. Qed.
Print Assumptions function_stays_in_table.
Theorem interpreter_has_its_code : forall fmt_name cw fuel cs cites reads st,
  run fmt_name cw fuel (initial_state cites reads) cs = Ok st -> has_code (st_vars st) st.
Proof. exact table_has_code. Qed.
Print Assumptions interpreter_has_its_code.

(* End to end for one concrete non-sorting style,
     ENTRY {title} {} {}  FUNCTION {f} { cite$ write$ newline$ }  READ  ITERATE {f} :
   whatever the bibliography files and the citation list, the run succeeds and the output consists of
   exactly one item (the wrapped key and a line end) per citation READ resolves, in that order. *)
Theorem probe_style_one_item_per_citation : forall fmt_name cw fuel fs cites srcs fmt m db,
  5 <= fuel -> parse_files fs fmt srcs = Ok db ->
  exists st, engine_run fmt_name cw fuel fs probe_style cites srcs fmt m = Ok st /\
    output_of st = concat (map (fun k => item_text k ++ [c_nl]) (r_cites (engine_read db cites m))).
Proof. exact probe_style_output. Qed.
Print Assumptions probe_style_one_item_per_citation.

(* ... and for one concrete SORTING style,
     ENTRY {title} {} {}  FUNCTION {f} { cite$ write$ newline$ }  FUNCTION {presort} { title 'sort.key$ := }
     READ  ITERATE {presort}  SORT  ITERATE {f} :
   one item per resolved citation, in the order `stable_sort` gives by title (a missing title counts as
   empty) -- by sort_stable_permutation below: a permutation of the resolved citations, in non-decreasing
   key order, citations with equal keys in citation order. *)
Theorem sorted_style_items_in_key_order : forall fmt_name cw fuel fs cites srcs fmt m db,
  5 <= fuel -> parse_files fs fmt srcs = Ok db ->
  let rr := engine_read db cites m in
  exists st, engine_run fmt_name cw fuel fs sorted_style cites srcs fmt m = Ok st /\
    output_of st = concat (map (fun k => item_text k ++ [c_nl])
                               (map snd (stable_sort (map (fun k => (sort_key_of rr k, k)) (r_cites rr))))).
Proof. exact sorted_style_output. Qed.
Print Assumptions sorted_style_items_in_key_order.
Theorem stable_sort_spec : forall ks,
  Permutation (stable_sort ks) ks /\ StronglySorted key_le (stable_sort ks) /\
  (forall k, filter (has_key k) (stable_sort ks) = filter (has_key k) ks).
Proof. exact stable_sort_facts. Qed.
Print Assumptions stable_sort_spec.

(* SORT: the citation list becomes a permutation of itself, in sort.key$ order (Python's string
   order = lexicographic on code points), citations with equal keys keeping their relative order. *)
Theorem sort_stable_permutation : forall fmt_name cw fuel st st',
  run_command fmt_name cw fuel st (Cmd nm_sort []) = Ok st' ->
  exists ks, sort_keys st (st_cites st) = Ok ks /\ map snd ks = st_cites st /\
    st' = set_cites st (map snd (stable_sort ks)) /\
    Permutation (stable_sort ks) ks /\ StronglySorted key_le (stable_sort ks) /\
    (forall k, filter (has_key k) (stable_sort ks) = filter (has_key k) ks).
Proof. exact command_sort_spec. Qed.
Print Assumptions sort_stable_permutation.

(* ---- non-vacuity *)
Definition S_ (s : string) : str := s2l s.
Definition ex_style : list command :=
  [Cmd (S_ "ENTRY") [[IId (S_ "title")]; []; []];
   Cmd (S_ "FUNCTION") [[IId (S_ "f")]; [IId (S_ "cite$"); IId (S_ "write$"); IId (S_ "newline$")]];
   Cmd (S_ "READ") []; Cmd (S_ "ITERATE") [[IId (S_ "f")]]].
Definition ex_style2 : list command :=
  [Cmd (S_ "ENTRY") [[IId (S_ "title")]; []; []];
   Cmd (S_ "FUNCTION") [[IId (S_ "f")]; [IId (S_ "title"); IId (S_ "write$"); IId (S_ "newline$")]];
   Cmd (S_ "READ") []; Cmd (S_ "REVERSE") [[IId (S_ "f")]]].
Definition ex_db : list bentry :=
  [mkB (S_ "a") (S_ "book") [(S_ "title", S_ "Ta")]; mkB (S_ "u") (S_ "misc") [(S_ "title", S_ "Tu")];
   mkB (S_ "b") (S_ "book") [(S_ "title", S_ "Tb")]].
Definition ex_fs : fsys :=
  [(S_ "doc.aux", FAux [S_ "\relax"; S_ "\citation{b,a}"; S_ "\bibstyle{s}"; S_ "\bibdata{db}"]);
   (S_ "s.bst", FBst ex_style); (S_ "t.bst", FBst ex_style2); (S_ "db.bib", FBib 0 ex_db);
   (S_ "db.yaml", FBib 1 [mkB (S_ "b") (S_ "misc") [(S_ "title", S_ "Yb")]])].
Definition nofmt (_ _ : str) : res str := OutOfFuel.
Definition nocw (_ : char) : Z := 0%Z.

Example aux_example :
  (exists ad, aux_parse_file aux_depth ex_fs (S_ "doc.aux") = Ok ad /\ ax_data ad = Some [S_ "db"] /\
              ax_style ad = Some (S_ "s") /\ ax_cites ad = [S_ "b"; S_ "a"]) /\
  option_map (fun o => written_text o) (match make_bibliography nofmt nocw 100 ex_fs (S_ "doc.aux") None None 2 with Ok o => Some o | _ => None end)
    = Some [(S_ "doc.bbl", S_ "b
a
")] /\
  option_map (fun o => written_text o) (match make_bibliography nofmt nocw 100 ex_fs (S_ "doc.aux") (Some (S_ "t")) (Some 1) 2 with Ok o => Some o | _ => None end)
    = Some [(S_ "doc.bbl", S_ "Yb
")].
Proof. vm_compute. split; [eexists; repeat split|split; reflexivity]. Qed.

Example real_reader_example :
  option_map (fun a => (Aux.a_cits a, Aux.a_style a, Aux.a_data a, length (Aux.a_errs a)))
    (match Aux.parse_aux (S aux_depth) (afs_of ex_fs) Aux.Capture (S_ "doc.aux") with Aux.Ret a => Some a | _ => None end)
  = Some ([S_ "b"; S_ "a"], Some (S_ "s"), Some [S_ "db"], 0) /\
  is_ok (aux_parse_file aux_depth ex_fs (S_ "doc.aux")) = true.
Proof. vm_compute. auto. Qed.

(* plain.bst's shape: article = { output.bibitem ... }, output.bibitem = { newline$ "\bibitem{" write$ cite$ write$ "}" write$ ... } *)
Definition ex_item_vars : list (str * obj) :=
  (S_ "article", OFun [IId (S_ "output.bibitem"); IStr (S_ "x"); IId (S_ "write$")]) ::
  (S_ "output.bibitem", OFun [IId (S_ "newline$"); IStr (S_ "\bibitem{"); IId (S_ "write$"); IId (S_ "cite$"); IId (S_ "write$"); IStr (S_ "}"); IId (S_ "write$")]) ::
  initial_vars.
Example items_example :
  good_call ex_item_vars (S_ "call.type$") (S_ "article") /\ builtins_ok ex_item_vars.
Proof.
  split; [|split; reflexivity]. right. split; [reflexivity|]. left. eexists. split; [reflexivity|].
  right. exists (S_ "output.bibitem"). eexists. eexists. split; [reflexivity|]. split; [reflexivity|].
  left. exists [IId (S_ "newline$")], (S_ "\bibitem{"), [], [IStr (S_ "}"); IId (S_ "write$")]. split; reflexivity.
Qed.

(* a dotted style name on the command line: house.sorted.bst (reversed titles) is used, not house.bst (keys);
   'doc' gets '.aux', 'my.doc.aux' keeps its name *)
Definition ex_cli_fs : fsys :=
  (S_ "house.sorted.bst", FBst ex_style2) :: (S_ "house.bst", FBst ex_style) ::
  (S_ "my.doc.aux", FAux [S_ "\citation{a}"; S_ "\bibstyle{house}"; S_ "\bibdata{db}"]) :: ex_fs.
Example command_line_dotted_style_example :
  option_map written_text (match command_line_argv nofmt nocw 100 ex_cli_fs [OptStyle (S_ "house"); OptTerse; OptStyle (S_ "house.sorted")] (S_ "doc") with Ok o => Some o | _ => None end)
    = Some [(S_ "doc.bbl", S_ "Ta
Tb
")] /\
  option_map written_text (match command_line_argv nofmt nocw 100 ex_cli_fs [OptMinCrossrefs 1] (S_ "my.doc.aux") with Ok o => Some o | _ => None end)
    = Some [(S_ "my.doc.bbl", S_ "a
")] /\
  cli_aux_name (S_ "doc") = S_ "doc.aux" /\ cli_aux_name (S_ "my.doc") = S_ "my.doc.aux" /\ cli_aux_name (S_ "my.doc.aux") = S_ "my.doc.aux".
Proof. vm_compute. repeat split. Qed.

Example uncited_example :
  never_wanted [nth 0 ex_db (mkB [] [] []); nth 2 ex_db (mkB [] [] [])] [S_ "b"; S_ "a"] (S_ "u") /\
  r_cites (engine_read ex_db [S_ "b"; S_ "a"] 2) = [S_ "b"; S_ "a"].
Proof. vm_compute. auto. Qed.

Definition ex_child : bentry := mkB (S_ "c") (S_ "inbook") [(S_ "title", S_ "Tc"); (S_ "crossref", S_ "P")].
Definition ex_parent : bentry := mkB (S_ "p") (S_ "book") [(S_ "title", S_ "Tp"); (S_ "year", S_ "1999")].
Definition ex_other : bentry := mkB (S_ "o") (S_ "misc") [].
(* hypotheses of file_order_irrelevant are met by a non-trivial pair of orders; the parent is pulled in (min_crossrefs 1)
   and the child inherits its year *)
Example file_order_example :
  children_first_b [S_ "c"; S_ "o"] [ex_child; ex_other; ex_parent] = true /\
  children_first_b [S_ "c"; S_ "o"] [ex_other; ex_child; ex_parent] = true /\
  nostar [S_ "c"; S_ "o"] [ex_child; ex_other; ex_parent] /\
  r_cites (engine_read [ex_child; ex_other; ex_parent] [S_ "c"; S_ "o"] 1) = [S_ "c"; S_ "o"; S_ "p"] /\
  option_map (fun e => alookup str_eqb (S_ "year") (e_fields e))
    (alookup str_eqb (S_ "c") (r_entries (engine_read [ex_other; ex_child; ex_parent] [S_ "c"; S_ "o"] 1))) = Some (Some (S_ "1999")).
Proof. vm_compute. auto. Qed.

Example end_to_end_example :
  option_map output_of (match engine_run nofmt nocw 9 ex_fs sorted_style [S_ "b"; S_ "u"; S_ "a"; S_ "zz"] [BName (S_ "db.bib")] 0 2 with Ok st => Some st | _ => None end)
    = Some (S_ "a
b
u
") /\
  option_map output_of (match engine_run nofmt nocw 9 ex_fs probe_style [S_ "b"; S_ "u"; S_ "a"; S_ "zz"] [BName (S_ "db.bib")] 0 2 with Ok st => Some st | _ => None end)
    = Some (S_ "b
u
a
").
Proof. vm_compute. auto. Qed.

Example sort_example :
  stable_sort [(S_ "b", S_ "x"); (S_ "a", S_ "y"); (S_ "b", S_ "z"); (S_ "", S_ "w")]
  = [(S_ "", S_ "w"); (S_ "a", S_ "y"); (S_ "b", S_ "x"); (S_ "b", S_ "z")].
Proof. vm_compute. reflexivity. Qed.
