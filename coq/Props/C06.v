(* Props/C06.v -- placeholder while the tie is being built *)
From Pybtex Require Import Base.Prelude Base.PyChar Base.PyStr Model.Bst Model.Engines Proofs.Engines.

Theorem splitext_nodot : forall p, last_index 46%N p 0 None = None -> splitext_root p = p.
Proof. exact splitext_root_nodot. Qed.
Print Assumptions splitext_nodot.
