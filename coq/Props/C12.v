(* Props/C12.v -- brace- and special-character-aware string primitives obey their algebra.
   Only statements (each closed by `exact <lemma>`), their assumptions, and Examples
   showing the hypotheses are met by non-trivial values.  Model: Model/BibtexStr.v
   (pybtex/bibtex/utils.py); notions the property refers to: Spec/BibtexStrSpec.v. *)
From Pybtex Require Import Base.Prelude Base.PyChar Base.PyStr Model.BibtexStr Spec.BibtexStrSpec
  Proofs.BibtexStr Proofs.BibtexStrCase Proofs.BibtexStrSplit Proofs.BibtexStrAlg Proofs.BibtexStrNames
  Model.Bst Proofs.BibtexStrBst.

(* ---- scanning into (token, brace level) pairs ---- *)

(* lossless on balanced input: the token texts concatenate to the string *)
Theorem scan_lossless : forall s ts, balanced s -> scan s = Ok ts -> concat (map fst ts) = s.
Proof. exact scan_lossless_lemma. Qed.
Print Assumptions scan_lossless.

(* on ANY input the scan is lossless up to one closing brace, appended exactly when the string
   ends inside a special character that is never closed (Spec: ends_in_special) *)
Theorem scan_lossless_all : forall s ts, scan s = Ok ts ->
  concat (map fst ts) = s ++ (if ends_in_special s then [c_rbrace] else []).
Proof. exact scan_lossless_all_lemma. Qed.
Print Assumptions scan_lossless_all.

(* the level of every token is the brace depth of the string right after that token
   (a running count that, on balanced input, never goes negative: it is a nat) *)
Theorem scan_levels : forall s ts1 t l ts2, balanced s -> scan s = Ok (ts1 ++ (t, l) :: ts2) ->
  depth_from 0 (concat (map fst ts1) ++ t) = Some l.
Proof. exact scan_levels_lemma. Qed.
Print Assumptions scan_levels.

(* scanning never raises a foreign exception: it returns tokens, or the BibTeX error
   "too many nested braces" -- the latter exactly when some brace opens a level above 100 *)
Theorem scan_total : forall s,
  (too_deep 100 0 s = true /\ scan s = PyErr E_BIBTEX (-1)) \/
  (too_deep 100 0 s = false /\ exists ts, scan s = Ok ts).
Proof. exact scan_total_lemma. Qed.
Print Assumptions scan_total.

(* hence no primitive ever raises a foreign exception: all succeed, or (nesting above 100) all
   report the BibTeX error -- except that a prefix of n <= 0 characters is empty without scanning *)
Theorem primitives_total : forall s,
  (too_deep 100 0 s = false /\
   (exists n, bibtex_len s = Ok n) /\ (forall k, exists p, bibtex_prefix s k = Ok p) /\
   (exists p, bibtex_purify s = Ok p) /\ (forall m, exists o, change_case s m = Ok o)) \/
  (too_deep 100 0 s = true /\
   bibtex_len s = PyErr E_BIBTEX (-1) /\
   (forall k, (0 < k)%Z -> bibtex_prefix s k = PyErr E_BIBTEX (-1)) /\
   bibtex_purify s = PyErr E_BIBTEX (-1) /\ (forall m, change_case s m = PyErr E_BIBTEX (-1))).
Proof. exact primitives_total_lemma. Qed.
Print Assumptions primitives_total.

(* ---- text length ---- *)

(* bibtex_len counts the non-brace tokens of the scan: a special character is one token *)
Theorem len_counts : forall s ts, scan s = Ok ts ->
  bibtex_len s = Ok (length (filter (fun t => negb (tok_is_brace (fst t))) ts)).
Proof. exact len_counts_lemma. Qed.
Print Assumptions len_counts.

(* ... and that number is BibTeX's text length (Spec): every character outside special
   characters counts once unless it is a brace, a special character counts once *)
Theorem len_spec : forall s n, bibtex_len s = Ok n -> n = text_len s.
Proof. exact len_spec_lemma. Qed.
Print Assumptions len_spec.

(* what that Spec means, compositionally: the empty string has length 0; a non-brace character
   counts one; a stray closing brace nothing; a special character {\...} (inner braces balanced)
   counts ONE whatever it contains; an ordinary group {...} counts its non-brace characters *)
Theorem text_len_laws :
  text_len [] = 0 /\
  (forall c s, is_brace c = false -> text_len (c :: s) = S (text_len s)) /\
  (forall s, text_len (c_rbrace :: s) = text_len s) /\
  (forall inner s, balanced inner ->
     text_len (c_lbrace :: c_bslash :: inner ++ c_rbrace :: s) = S (text_len s)) /\
  (forall g s, balanced g -> bs_head g = false ->
     text_len (c_lbrace :: g ++ c_rbrace :: s) = count_nonbrace g + text_len s).
Proof. exact text_len_laws_lemma. Qed.
Print Assumptions text_len_laws.

(* ---- text prefix ---- *)

(* the text prefix of n has text length min(n, length) -- for every string and every integer *)
Theorem prefix_len : forall s n p m, bibtex_prefix s n = Ok p -> bibtex_len s = Ok m ->
  bibtex_len p = Ok (Z.to_nat (Z.min n (Z.of_nat m))).
Proof. exact prefix_len_lemma. Qed.
Print Assumptions prefix_len.

(* nothing for n <= 0 (not even a nesting error) *)
Theorem prefix_nonpositive : forall s n, (n <= 0)%Z -> bibtex_prefix s n = Ok [].
Proof. exact prefix_nonpos_lemma. Qed.
Print Assumptions prefix_nonpositive.

(* for EVERY string: it is a prefix of the string followed by exactly as many closing braces as
   that prefix leaves open (depth clamped at 0 for stray closing braces, as BibTeX does) ... *)
Theorem prefix_shape : forall s n out, bibtex_prefix s n = Ok out ->
  exists p k, out = p ++ repeat c_rbrace k /\ is_prefix p s /\ k = cdepth_from 0 p.
Proof. exact prefix_shape_exact_lemma. Qed.
Print Assumptions prefix_shape.

(* ... so it closes the braces it opened: the result ends at depth 0 *)
Theorem prefix_closes : forall s n out, bibtex_prefix s n = Ok out -> cdepth_from 0 out = 0.
Proof. exact prefix_closes_lemma. Qed.
Print Assumptions prefix_closes.

(* for balanced strings, with the depth as the running count of the Spec: *)
Theorem prefix_shape_balanced : forall s n out, balanced s -> bibtex_prefix s n = Ok out ->
  exists p k, out = p ++ repeat c_rbrace k /\ is_prefix p s /\ depth_from 0 p = Some k.
Proof. exact prefix_shape_lemma. Qed.
Print Assumptions prefix_shape_balanced.

Theorem prefix_closes_balanced : forall s n out, balanced s -> bibtex_prefix s n = Ok out -> balanced out.
Proof. exact prefix_balanced_lemma. Qed.
Print Assumptions prefix_closes_balanced.

(* ---- substring ---- *)

(* bibtex_substring is BibTeX's substring$ (Spec: 1-based, end-relative for a negative
   start, clamped, empty for len <= 0 / start = 0 / |start| > |s|) -- all strings, all of Z *)
Theorem substring_spec : forall s start len, bibtex_substring s start len = substring_spec s start len.
Proof. exact substring_spec_lemma. Qed.
Print Assumptions substring_spec.

Theorem substring_zero : forall s l, bibtex_substring s 0 l = [].
Proof. exact substring_start_zero. Qed.
Print Assumptions substring_zero.

(* the same without the Spec: a positive start is plain 1-based selection clamped at the end,
   a negative start is the mirror image (counted from the end, selecting towards the beginning) *)
Theorem substring_positive : forall s start len, (1 <= start)%Z ->
  bibtex_substring s start len = firstn (Z.to_nat len) (skipn (Z.to_nat (start - 1)) s).
Proof. exact substring_positive_lemma. Qed.
Print Assumptions substring_positive.

Theorem substring_mirror : forall s k l, (0 < k)%Z ->
  bibtex_substring s (- k) l = rev (bibtex_substring (rev s) k l).
Proof. exact substring_mirror_lemma. Qed.
Print Assumptions substring_mirror.

Theorem substring_contiguous : forall s start len, exists a b, s = a ++ bibtex_substring s start len ++ b.
Proof. exact substring_contiguous_lemma. Qed.
Print Assumptions substring_contiguous.

Theorem substring_length_le : forall s start len, length (bibtex_substring s start len) <= length s.
Proof. exact substring_length_le_lemma. Qed.
Print Assumptions substring_length_le.

(* ---- purify ---- *)

Theorem purify_alphabet : forall s p, bibtex_purify s = Ok p ->
  Forall (fun c => is_alnum c || N.eqb c c_space = true) p.
Proof. exact purify_alphabet_lemma. Qed.
Print Assumptions purify_alphabet.

Theorem purify_idem : forall s p, bibtex_purify s = Ok p -> bibtex_purify p = Ok p.
Proof. exact purify_idem_lemma. Qed.
Print Assumptions purify_idem.

(* ---- case change (mode 0 = 'l', 1 = 'u', other = 't') ---- *)
(* The laws hold for every string that does not end inside a never-closed special character
   (for those the scanner emits a closing brace that is not in the input, see
   change_case_unbalanced_example and change_case_upto_case_all); balanced strings are such. *)
Theorem balanced_not_in_special : forall s, balanced s -> ends_in_special s = false.
Proof. exact balanced_not_in_special_lemma. Qed.
Print Assumptions balanced_not_in_special.

(* letters are preserved up to case, everything else exactly *)
Theorem change_case_upto_case : forall s mode out, ends_in_special s = false -> change_case s mode = Ok out ->
  lower out = lower s.
Proof. exact change_case_upto_case_gen. Qed.
Print Assumptions change_case_upto_case.

(* ... and on any input, up to that one closing brace *)
Theorem change_case_upto_case_all : forall s mode out, change_case s mode = Ok out ->
  lower out = lower (s ++ (if ends_in_special s then [c_rbrace] else [])).
Proof. exact change_case_upto_case_all_lemma. Qed.
Print Assumptions change_case_upto_case_all.

Theorem change_case_length : forall s mode out, ends_in_special s = false -> change_case s mode = Ok out ->
  length out = length s.
Proof. exact change_case_length_gen. Qed.
Print Assumptions change_case_length.

(* the exact length for EVERY string: the one closing brace the scanner adds *)
Theorem change_case_length_all : forall s mode out, change_case s mode = Ok out ->
  length out = length s + (if ends_in_special s then 1 else 0).
Proof. exact change_case_length_all_lemma. Qed.
Print Assumptions change_case_length_all.

Theorem change_case_idem : forall s mode out, ends_in_special s = false -> change_case s mode = Ok out ->
  change_case out mode = Ok out.
Proof. exact change_case_idem_gen. Qed.
Print Assumptions change_case_idem.

(* the hypothesis of change_case_idem cannot be dropped: FULL STATEMENT (every string) refuted *)
Theorem change_case_idem_refuted :
  exists s mode out, ends_in_special s = true /\ change_case s mode = Ok out /\ change_case out mode <> Ok out.
Proof. exact change_case_idem_refuted_lemma. Qed.
Print Assumptions change_case_idem_refuted.

(* the result is the concatenation of per-token images; a token inside braces (level > 0)
   that is not a special character is unchanged; of a special character (level 1, starts
   with a backslash) only the space-separated words that are not commands are converted *)
Theorem change_case_braces : forall s mode out, change_case s mode = Ok out ->
  exists ts outs, scan s = Ok ts /\ out = concat outs /\
    Forall2 (fun (t : tok) (o : str) =>
      (0 < snd t -> is_special_tok (fst t) (snd t) = false -> o = fst t) /\
      (is_special_tok (fst t) (snd t) = true ->
         exists st, o = join [c_space] (map (fun w => if bs_head w then w else convert mode st w)
                                            (split_on [c_space] (fst t))))) ts outs.
Proof. exact change_case_braces_lemma. Qed.
Print Assumptions change_case_braces.

(* ---- top-level splitting (any separator matcher m; strip=False, filter_empty=False) ---- *)

(* drops only separators: the pieces, each followed by the text of a separator match,
   re-assemble the string -- for every string, balanced or not *)
Theorem split_reassemble : forall m s pieces, split_tex_string_gen m s false false = Ok pieces ->
  (s = [] /\ pieces = []) \/
  exists pairs lastp,
    pieces = map fst pairs ++ [lastp] /\
    s = flat_map (fun ps => fst ps ++ snd ps) pairs ++ lastp /\
    Forall (matched m) (map snd pairs).
Proof. exact split_reassemble_lemma. Qed.
Print Assumptions split_reassemble.

(* never splits inside braces, EVERY string: each piece but the last returns to (clamped) brace
   depth 0 and no separator contains an opening brace, so every separator lies at depth 0 (the
   last piece can be left open only by a group that is never closed) *)
Theorem split_never_in_braces : forall m s pieces, split_tex_string_gen m s false false = Ok pieces ->
  (s = [] /\ pieces = []) \/
  exists pairs lastp,
    pieces = map fst pairs ++ [lastp] /\
    s = flat_map (fun ps => fst ps ++ snd ps) pairs ++ lastp /\
    Forall (fun p => cdepth_from 0 p = 0) (map fst pairs) /\
    Forall (Forall (fun c => is_lbrace c = false)) (map snd pairs) /\
    Forall (matched m) (map snd pairs).
Proof. exact split_top_level_all_lemma. Qed.
Print Assumptions split_never_in_braces.

(* on a balanced string every piece is balanced and no separator contains any brace *)
Theorem split_never_in_braces_balanced : forall m s pieces, balanced s ->
  split_tex_string_gen m s false false = Ok pieces ->
  (s = [] /\ pieces = []) \/
  exists pairs lastp,
    pieces = map fst pairs ++ [lastp] /\
    s = flat_map (fun ps => fst ps ++ snd ps) pairs ++ lastp /\
    Forall balanced pieces /\ Forall (Forall (fun c => is_brace c = false)) (map snd pairs).
Proof. exact split_top_level_lemma. Qed.
Print Assumptions split_never_in_braces_balanced.

(* when every group is closed (stray closing braces allowed) the last piece is at depth 0 too *)
Theorem split_never_in_braces_clamped : forall m s pieces, cdepth_from 0 s = 0 ->
  split_tex_string_gen m s false false = Ok pieces ->
  (s = [] /\ pieces = []) \/
  exists pairs lastp,
    pieces = map fst pairs ++ [lastp] /\
    s = flat_map (fun ps => fst ps ++ snd ps) pairs ++ lastp /\
    Forall (fun p => cdepth_from 0 p = 0) pieces /\
    Forall (Forall (fun c => is_lbrace c = false)) (map snd pairs).
Proof. exact split_top_level_c_lemma. Qed.
Print Assumptions split_never_in_braces_clamped.

(* split_tex_string never raises and the model's fuel suffices *)
Theorem split_total : forall m s st fe, exists pieces, split_tex_string_gen m s st fe = Ok pieces.
Proof. exact split_total_lemma. Qed.
Print Assumptions split_total.

(* strip / filter_empty are post-processing of the raw pieces: strip per piece, then drop empty ones *)
Theorem split_strip_filter : forall m s st fe pieces, split_tex_string_gen m s st fe = Ok pieces ->
  exists raw, split_tex_string_gen m s false false = Ok raw /\
    pieces = (if fe then filter (fun p => negb (match p with [] => true | _ => false end)) else (fun l => l))
               (if st then map strip raw else raw).
Proof. exact split_strip_filter_lemma. Qed.
Print Assumptions split_strip_filter.

(* ... and strip removes only surrounding whitespace *)
Theorem strip_only_whitespace : forall s, exists a b, s = a ++ strip s ++ b /\
  Forall (fun c => is_space c = true) a /\ Forall (fun c => is_space c = true) b.
Proof. exact strip_spec. Qed.
Print Assumptions strip_only_whitespace.

(* what the four separators of pybtex match: "," / "-" / " and " in any case /
   a non-empty run of whitespace, ties and backslashes (of "\ ") *)
Theorem split_separators :
  (forall sep, matched sep_comma sep -> sep = [c_comma]) /\
  (forall sep, matched sep_hyphen sep -> sep = [c_hyphen]) /\
  (forall sep, matched sep_and sep -> exists b c d, sep = [c_space; b; c; d; c_space] /\
      to_lower b = 97%N /\ to_lower c = 110%N /\ to_lower d = 100%N) /\
  (forall sep, matched sep_space sep -> sep <> [] /\ Forall (fun c => spacelike c = true) sep).
Proof. exact (conj matched_comma (conj matched_hyphen (conj matched_and matched_space))). Qed.
Print Assumptions split_separators.

(* ---- the algebra: a balanced string in front does not interfere ---- *)

Theorem scan_app : forall a b ra rb, balanced a -> scan a = Ok ra -> scan b = Ok rb ->
  scan (a ++ b) = Ok (ra ++ rb).
Proof. exact scan_app_lemma. Qed.
Print Assumptions scan_app.

Theorem len_additive : forall a b n m, balanced a -> bibtex_len a = Ok n -> bibtex_len b = Ok m ->
  bibtex_len (a ++ b) = Ok (n + m).
Proof. exact len_additive_lemma. Qed.
Print Assumptions len_additive.

Theorem purify_additive : forall a b p q, balanced a -> bibtex_purify a = Ok p -> bibtex_purify b = Ok q ->
  bibtex_purify (a ++ b) = Ok (p ++ q).
Proof. exact purify_additive_lemma. Qed.
Print Assumptions purify_additive.

(* for every width table cw (the table is data: charwidths.get(c, 0)) *)
Theorem width_additive : forall cw a b x y, balanced a -> bibtex_width cw a = Ok x -> bibtex_width cw b = Ok y ->
  bibtex_width cw (a ++ b) = Ok (x + y)%Z.
Proof. exact width_additive_lemma. Qed.
Print Assumptions width_additive.

(* ---- first letter ---- *)

(* on a balanced string bibtex_first_letter looks at exactly the "characters" text.length$ counts
   (the non-brace tokens of the scan), and returns the first that is a letter or a special character *)
Theorem first_letter_spec : forall s ts, balanced s -> scan s = Ok ts ->
  bibtex_first_letter s = Ok (first_letter_of (map fst (filter (fun t => negb (tok_is_brace (fst t))) ts))).
Proof. exact first_letter_spec_lemma. Qed.
Print Assumptions first_letter_spec.

(* ... and on EVERY string (stray closing braces are skipped, an unclosed special character counts) *)
Theorem first_letter_spec_all : forall s ts, scan s = Ok ts ->
  bibtex_first_letter s = Ok (first_letter_of (map fst (filter (fun t => negb (tok_is_brace (fst t))) ts))).
Proof. exact first_letter_spec_all_lemma. Qed.
Print Assumptions first_letter_spec_all.

(* the result is empty, one letter, or a whole special character in its braces *)
Theorem first_letter_shape : forall s r, bibtex_first_letter s = Ok r ->
  r = [] \/ (exists c, r = [c] /\ is_alpha c = true) \/
  (exists t, r = c_lbrace :: t ++ [c_rbrace] /\ bs_head t = true /\ 2 <= length t).
Proof. exact first_letter_shape_lemma. Qed.
Print Assumptions first_letter_shape.

(* ---- abbreviation, name lists, _find_closing_brace, width of a special character (every string) ---- *)

(* bibtex_abbreviate: the word is its raw pieces joined by hyphens, every splitting hyphen at
   (clamped) brace depth 0; each piece, stripped, contributes its first letter (first_letter_spec_all);
   the non-empty letters are joined by the delimiter (default ".-") *)
Theorem abbreviate_spec : forall w d out, bibtex_abbreviate w d = Ok out ->
  exists raw letters,
    ((w = [] /\ raw = []) \/
     (w = join [c_hyphen] raw /\ raw <> [] /\ Forall (fun p => cdepth_from 0 p = 0) (removelast raw))) /\
    Forall2 (fun p l => bibtex_first_letter (strip p) = Ok l) raw letters /\
    out = join (match d with None => [46%N; c_hyphen] | Some d => d end)
               (filter (fun l => negb (match l with [] => true | _ => false end)) letters).
Proof. exact abbreviate_spec_lemma. Qed.
Print Assumptions abbreviate_spec.

(* split_name_list: the names are the stripped pieces of the string cut at " and " in any case,
   and only at brace depth 0 *)
Theorem split_name_list_spec : forall s names, split_name_list s = Ok names ->
  exists raw, names = map strip raw /\
    ((s = [] /\ raw = []) \/
     exists pairs lastp,
       raw = map fst pairs ++ [lastp] /\
       s = flat_map (fun ps => fst ps ++ snd ps) pairs ++ lastp /\
       Forall (fun p => cdepth_from 0 p = 0) (map fst pairs) /\
       Forall (fun sep => exists b c d, sep = [c_space; b; c; d; c_space] /\
                 to_lower b = 97%N /\ to_lower c = 110%N /\ to_lower d = 100%N) (map snd pairs)).
Proof. exact split_name_list_spec_lemma. Qed.
Print Assumptions split_name_list_spec.

(* _find_closing_brace: the returned prefix is the SHORTEST prefix that closes the group opened
   before the string (every proper prefix of it is still inside the group); if no prefix closes
   it, the whole string *)
Theorem find_closing_brace_spec : forall s u r, find_closing_brace s = (u, r) ->
  s = u ++ r /\
  ((depth_from 1 u = Some 0 /\
    forall p x, u = p ++ x -> x <> [] -> exists k, depth_from 1 p = Some (S k)) \/
   (u = s /\ r = [] /\ forall p x, s = p ++ x -> exists k, depth_from 1 p = Some (S k))).
Proof. exact find_closing_brace_spec_lemma. Qed.
Print Assumptions find_closing_brace_spec.

(* a special character is measured as its two braces, plus the non-brace characters after the
   backslash and the command letter, minus 1000 (any width table); with width_additive this
   extends to every balanced text around it *)
Theorem width_special : forall cw inner w, balanced inner ->
  bibtex_width cw (c_lbrace :: c_bslash :: inner ++ [c_rbrace]) = Ok w ->
  w = (cw c_lbrace
       + (fold_left (fun a c => if is_brace c then a else a + cw c) (skipn 1 inner) 0 - 1000)
       + cw c_rbrace)%Z.
Proof. exact width_special_lemma. Qed.
Print Assumptions width_special.

(* the repaired behaviour (finding C03-F3, fix 7dc0a71): in an ORDINARY level-1 group -- one whose
   first character is not a backslash -- every character counts at its own width, a backslash in
   the middle included (it is not taken for a special character) *)
Theorem width_ordinary_group_backslash : forall cw x inner, N.eqb x c_bslash = false ->
  Forall (fun c => is_brace c = false) (x :: inner) ->
  bibtex_width cw (c_lbrace :: x :: inner ++ [c_rbrace]) =
  Ok (cw c_lbrace + fold_left (fun a c => a + cw c) (x :: inner) 0 + cw c_rbrace)%Z.
Proof. exact width_ordinary_group_lemma. Qed.
Print Assumptions width_ordinary_group_backslash.

(* ---- the BST builtins: each wrapper is the utils function on the popped operands ---- *)
Theorem bst_wrappers :
  (forall s start len, bst_substring s start len = Ok (bibtex_substring s start len)) /\
  (forall s l, bst_text_prefix s l = bibtex_prefix s l) /\
  (forall s, bst_text_length s = bibtex_len s) /\
  (forall s, bst_purify s = bibtex_purify s) /\
  (forall cw s, bst_width cw s = bibtex_width cw s) /\
  (forall s, bst_num_names s = do l <- split_name_list s; Ok (length l)) /\
  (forall s mode, bst_change_case s mode =
     match mode with
     | [] => PyErr E_BIBTEX (-1)
     | c :: _ =>
       if N.eqb (to_lower c) 108 then change_case s 0
       else if N.eqb (to_lower c) 117 then change_case s 1
       else if N.eqb (to_lower c) 116 then change_case s 2
       else PyErr E_BIBTEX (-1)
     end).
Proof.
  exact (conj bst_substring_spec (conj bst_text_prefix_spec (conj bst_text_length_spec (conj bst_purify_spec
        (conj bst_width_spec (conj bst_num_names_spec bst_change_case_spec)))))).
Qed.
Print Assumptions bst_wrappers.

(* ... and each is what C03's interpreter model executes for that builtin, operands in the code's
   pop order (top of stack first): `s start len substring$`, `s n text.prefix$`, `s mode change.case$` *)
Theorem bst_substring_step : forall fmt cw rec wh st len start s r, st_stack st = VInt len :: VInt start :: VStr s :: r ->
  builtin_step fmt cw rec wh B_substring st = bind (bst_substring s start len) (fun v => Ok (set_stack st (VStr v :: r))).
Proof. exact step_substring. Qed.
Print Assumptions bst_substring_step.

Theorem bst_text_prefix_step : forall fmt cw rec wh st n s r, st_stack st = VInt n :: VStr s :: r ->
  builtin_step fmt cw rec wh B_text_prefix st = bind (bst_text_prefix s n) (fun v => Ok (set_stack st (VStr v :: r))).
Proof. exact step_text_prefix. Qed.
Print Assumptions bst_text_prefix_step.

Theorem bst_text_length_step : forall fmt cw rec wh st s r, st_stack st = VStr s :: r ->
  builtin_step fmt cw rec wh B_text_length st = bind (bst_text_length s) (fun n => Ok (set_stack st (VInt (Z.of_nat n) :: r))).
Proof. exact step_text_length. Qed.
Print Assumptions bst_text_length_step.

Theorem bst_purify_step : forall fmt cw rec wh st s r, st_stack st = VStr s :: r ->
  builtin_step fmt cw rec wh B_purify st = bind (bst_purify s) (fun v => Ok (set_stack st (VStr v :: r))).
Proof. exact step_purify. Qed.
Print Assumptions bst_purify_step.

Theorem bst_width_step : forall fmt cw rec wh st s r, st_stack st = VStr s :: r ->
  builtin_step fmt cw rec wh B_width st = bind (bst_width cw s) (fun w => Ok (set_stack st (VInt w :: r))).
Proof. exact step_width. Qed.
Print Assumptions bst_width_step.

Theorem bst_num_names_step : forall fmt cw rec wh st s r, st_stack st = VStr s :: r ->
  builtin_step fmt cw rec wh B_num_names st = bind (bst_num_names s) (fun n => Ok (set_stack st (VInt (Z.of_nat n) :: r))).
Proof. exact step_num_names. Qed.
Print Assumptions bst_num_names_step.

Theorem bst_change_case_step : forall fmt cw rec wh st c m s r, st_stack st = VStr (c :: m) :: VStr s :: r ->
  builtin_step fmt cw rec wh B_change_case st = bind (bst_change_case s (c :: m)) (fun v => Ok (set_stack st (VStr v :: r))).
Proof. exact step_change_case. Qed.
Print Assumptions bst_change_case_step.

(* ---- non-vacuity ---- *)
Example scan_example :
  balanced (s2l "a{b{\c}}{\'e}f") /\
  scan (s2l "a{b{\c}}{\'e}f") =
    Ok [(s2l "a", 0); (s2l "{", 1); (s2l "b", 1); (s2l "{", 2); (s2l "\", 2); (s2l "c", 2); (s2l "}", 1); (s2l "}", 0);
        (s2l "{", 1); (s2l "\'e", 1); (s2l "}", 0); (s2l "f", 0)].
Proof. vm_compute. auto. Qed.
Example scan_unbalanced_example :   (* why "on balanced input": the closing brace is not in the input *)
  scan (s2l "{\a") = Ok [(s2l "{", 1); (s2l "\a", 1); (s2l "}", 0)].
Proof. vm_compute. reflexivity. Qed.
Example scan_too_deep_example :
  too_deep 100 0 (repeat c_lbrace 101) = true /\ too_deep 100 0 (repeat c_lbrace 100) = false.
Proof. vm_compute. auto. Qed.
Example len_example : bibtex_len (s2l "de la Vall{\'e}e {P}oussin") = Ok 20 /\ bibtex_len (s2l "{\abc") = Ok 1.
Proof. vm_compute. auto. Qed.
Example prefix_example :
  bibtex_prefix (s2l "ab{\cd}e") 3 = Ok (s2l "ab{\cd}") /\ bibtex_prefix (s2l "a{b{cd}}") 3 = Ok (s2l "a{b{c}}")
  /\ balanced (s2l "a{b{cd}}") /\ bibtex_prefix (s2l "abc") 0 = Ok [] /\ bibtex_prefix [] 1 = Ok [].
Proof. vm_compute. auto 6. Qed.
Example substring_example :
  bibtex_substring (s2l "abcdef") (-2) 3 = s2l "cde" /\ bibtex_substring (s2l "abc") (-1) 5 = s2l "abc"
  /\ bibtex_substring (s2l "abc") (-10) 1 = [] /\ bibtex_substring (s2l "abcdef") 2 1000 = s2l "bcdef".
Proof. vm_compute. auto. Qed.
Example purify_example :
  bibtex_purify (s2l "{\noopsort{1973a}}A-b~c, {\'E}!") = Ok (s2l "1973aA b c E").
Proof. vm_compute. reflexivity. Qed.
Example change_case_example :
  balanced (s2l "And {\Now: {BOOO}!!!}") /\ ends_in_special (s2l "a}b{\c}") = false /\
  change_case (s2l "And {\Now: {BOOO}!!!}") 0 = Ok (s2l "and {\Now: {booo}!!!}") /\
  change_case (s2l "And Now: BOOO!!!") 2 = Ok (s2l "And now: Booo!!!") /\
  change_case (s2l "The {\TeX book \noop}") 1 = Ok (s2l "THE {\TeX BOOK \noop}").
Proof. vm_compute. auto 6. Qed.
Example change_case_unbalanced_example : change_case (s2l "{\") 0 = Ok (s2l "{\}").
Proof. vm_compute. reflexivity. Qed.
Example split_example :
  balanced (s2l "a {b c} d and {e and f} AND g") /\
  split_tex_string_gen sep_and (s2l "a {b c} d and {e and f} AND g") false false =
    Ok [s2l "a {b c} d"; s2l "{e and f}"; s2l "g"] /\
  split_tex_string_gen sep_space (s2l "a {b c}~d\ e\~f") false true = Ok [s2l "a"; s2l "{b c}"; s2l "d"; s2l "e\~f"].
Proof. vm_compute. auto. Qed.
Example algebra_example :
  balanced (s2l "a{\'e}") /\ bibtex_len (s2l "a{\'e}") = Ok 2 /\ bibtex_len (s2l "{x}y") = Ok 2 /\
  bibtex_len (s2l "a{\'e}{x}y") = Ok 4 /\
  bibtex_first_letter (s2l "12{\TeX} markup") = Ok (s2l "{\TeX}") /\ bibtex_first_letter (s2l "{1}{b}c") = Ok (s2l "b").
Proof. vm_compute. auto 8. Qed.
(* why the case-change laws exclude strings ending inside a never-closed special character:
   there change_case is not even idempotent (each pass appends the scanner's closing brace) *)
Example change_case_not_idem_example :
  ends_in_special (s2l "{\{") = true /\
  change_case (s2l "{\{") 0 = Ok (s2l "{\{}") /\ change_case (s2l "{\{}") 0 = Ok (s2l "{\{}}").
Proof. vm_compute. auto. Qed.
(* the inputs of the two repaired defects (C12-P1 76966c9, C12-S1 bae0311), pinned *)
Example fixed_findings_example :
  bibtex_prefix (s2l "{\{") 1 = Ok (s2l "{\{}}") /\
  split_tex_string_gen sep_space (s2l "{a{b}c d") false true = Ok [s2l "{a{b}c d"] /\
  split_tex_string_gen sep_hyphen (s2l "{{-") false false = Ok [s2l "{{-"].
Proof. vm_compute. auto. Qed.
Example round3_example :
  bibtex_abbreviate (s2l "Jean-{Pierre-Paul}--{\'E}mile") None = Ok (s2l "J.-P.-{\'E}") /\
  split_name_list (s2l "A {and} B AND {C and D} and E") = Ok [s2l "A {and} B"; s2l "{C and D}"; s2l "E"] /\
  find_closing_brace (s2l "a{b}c}d") = (s2l "a{b}c}", s2l "d") /\ find_closing_brace (s2l "a{b}c") = (s2l "a{b}c", []) /\
  bst_change_case (s2l "Ab") (s2l "Upper") = Ok (s2l "AB") /\ bst_change_case (s2l "Ab") (s2l "x") = PyErr E_BIBTEX (-1).
Proof. vm_compute. auto 8. Qed.
(* C03-F3 pinned: {a\b} with the real widths of { a \ b } (500 500 500 556 500) is 2556 *)
Example width_backslash_example :
  let cw := fun c => if N.eqb c 98 then 556%Z else 500%Z in
  bibtex_width cw (s2l "{a\b}") = Ok 2556%Z /\ bibtex_width cw (s2l "{\ab}") = Ok (500 + (556 - 1000) + 500)%Z.
Proof. vm_compute. auto. Qed.
