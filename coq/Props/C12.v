(* Props/C12.v -- brace- and special-character-aware string primitives obey their algebra. *)
From Pybtex Require Import Base.Prelude Base.PyChar Base.PyStr Model.BibtexStr Proofs.BibtexStr.

Theorem substring_zero : forall s l, bibtex_substring s 0 l = [].
Proof. exact substring_start_zero. Qed.
Print Assumptions substring_zero.
