(* Props/C12.v -- brace- and special-character-aware string primitives obey their algebra.
   Only statements (each closed by `exact <lemma>`), their assumptions, and Examples
   showing the hypotheses are met by non-trivial values.  Model: Model/BibtexStr.v
   (pybtex/bibtex/utils.py); notions the property refers to: Spec/BibtexStrSpec.v. *)
From Pybtex Require Import Base.Prelude Base.PyChar Base.PyStr Model.BibtexStr Spec.BibtexStrSpec
  Proofs.BibtexStr.

(* ---- scanning into (token, brace level) pairs ---- *)

(* lossless on balanced input: the token texts concatenate to the string *)
Theorem scan_lossless : forall s ts, balanced s -> scan s = Ok ts -> concat (map fst ts) = s.
Proof. exact scan_lossless_lemma. Qed.
Print Assumptions scan_lossless.

(* the level of every token is the brace depth of the string right after that token
   (a running count that, on balanced input, never goes negative: it is a nat) *)
Theorem scan_levels : forall s ts1 t l ts2, balanced s -> scan s = Ok (ts1 ++ (t, l) :: ts2) ->
  depth_from 0 (concat (map fst ts1) ++ t) = Some l.
Proof. exact scan_levels_lemma. Qed.
Print Assumptions scan_levels.

(* scanning never raises a foreign exception: it returns tokens, or the BibTeX error
   "too many nested braces" -- the latter exactly when some brace opens a level above 100 *)
Theorem scan_total : forall s,
  (too_deep 100 0 s = true /\ scan s = PyErr E_BIBTEX (-1)) \/
  (too_deep 100 0 s = false /\ exists ts, scan s = Ok ts).
Proof. exact scan_total_lemma. Qed.
Print Assumptions scan_total.

(* ---- text length ---- *)

(* bibtex_len counts the non-brace tokens of the scan: a special character is one token *)
Theorem len_counts : forall s ts, scan s = Ok ts ->
  bibtex_len s = Ok (length (filter (fun t => negb (tok_is_brace (fst t))) ts)).
Proof. exact len_counts_lemma. Qed.
Print Assumptions len_counts.

(* ... and that number is BibTeX's text length (Spec): every character outside special
   characters counts once unless it is a brace, a special character counts once *)
Theorem len_spec : forall s n, bibtex_len s = Ok n -> n = text_len s.
Proof. exact len_spec_lemma. Qed.
Print Assumptions len_spec.

(* ---- text prefix ---- *)

(* the text prefix of n has text length min(n, length) -- for every string and every integer *)
Theorem prefix_len : forall s n p m, bibtex_prefix s n = Ok p -> bibtex_len s = Ok m ->
  bibtex_len p = Ok (Z.to_nat (Z.min n (Z.of_nat m))).
Proof. exact prefix_len_lemma. Qed.
Print Assumptions prefix_len.

(* nothing for n <= 0 (not even a nesting error) *)
Theorem prefix_nonpositive : forall s n, (n <= 0)%Z -> bibtex_prefix s n = Ok [].
Proof. exact prefix_nonpos_lemma. Qed.
Print Assumptions prefix_nonpositive.

(* it is a prefix of the string followed by exactly as many closing braces as that prefix
   leaves open.  FULL STATEMENT (all strings, k = cdepth_from 0 p) is refuted below; proved
   for balanced strings *)
Theorem prefix_shape_partial : forall s n out, balanced s -> bibtex_prefix s n = Ok out ->
  exists p k, out = p ++ repeat c_rbrace k /\ is_prefix p s /\ depth_from 0 p = Some k.
Proof. exact prefix_shape_lemma. Qed.
Print Assumptions prefix_shape_partial.

(* hence the prefix of a balanced string is balanced: it closes the braces it opened *)
Theorem prefix_closes_partial : forall s n out, balanced s -> bibtex_prefix s n = Ok out -> balanced out.
Proof. exact prefix_balanced_lemma. Qed.
Print Assumptions prefix_closes_partial.

(* finding C12-P1: on the unbalanced string "{\{" the prefix "{\{}" leaves a brace open *)
Theorem prefix_closes_refuted : exists s n out, bibtex_prefix s n = Ok out /\ cdepth_from 0 out <> 0.
Proof. exact prefix_closes_refuted_lemma. Qed.
Print Assumptions prefix_closes_refuted.

(* ---- substring ---- *)

(* bibtex_substring is BibTeX's substring$ (Spec: 1-based, end-relative for a negative
   start, clamped, empty for len <= 0 / start = 0 / |start| > |s|) -- all strings, all of Z *)
Theorem substring_spec : forall s start len, bibtex_substring s start len = substring_spec s start len.
Proof. exact substring_spec_lemma. Qed.
Print Assumptions substring_spec.

Theorem substring_zero : forall s l, bibtex_substring s 0 l = [].
Proof. exact substring_start_zero. Qed.
Print Assumptions substring_zero.

Theorem substring_contiguous : forall s start len, exists a b, s = a ++ bibtex_substring s start len ++ b.
Proof. exact substring_contiguous_lemma. Qed.
Print Assumptions substring_contiguous.

Theorem substring_length_le : forall s start len, length (bibtex_substring s start len) <= length s.
Proof. exact substring_length_le_lemma. Qed.
Print Assumptions substring_length_le.

(* ---- purify ---- *)

Theorem purify_alphabet : forall s p, bibtex_purify s = Ok p ->
  Forall (fun c => is_alnum c || N.eqb c c_space = true) p.
Proof. exact purify_alphabet_lemma. Qed.
Print Assumptions purify_alphabet.

Theorem purify_idem : forall s p, bibtex_purify s = Ok p -> bibtex_purify p = Ok p.
Proof. exact purify_idem_lemma. Qed.
Print Assumptions purify_idem.

(* ---- non-vacuity ---- *)
Example scan_example :
  balanced (s2l "a{b{\c}}{\'e}f") /\
  scan (s2l "a{b{\c}}{\'e}f") =
    Ok [(s2l "a", 0); (s2l "{", 1); (s2l "b", 1); (s2l "{", 2); (s2l "\", 2); (s2l "c", 2); (s2l "}", 1); (s2l "}", 0);
        (s2l "{", 1); (s2l "\'e", 1); (s2l "}", 0); (s2l "f", 0)].
Proof. vm_compute. auto. Qed.
Example scan_unbalanced_example :   (* why "on balanced input": the closing brace is not in the input *)
  scan (s2l "{\a") = Ok [(s2l "{", 1); (s2l "\a", 1); (s2l "}", 0)].
Proof. vm_compute. reflexivity. Qed.
Example scan_too_deep_example :
  too_deep 100 0 (repeat c_lbrace 101) = true /\ too_deep 100 0 (repeat c_lbrace 100) = false.
Proof. vm_compute. auto. Qed.
Example len_example : bibtex_len (s2l "de la Vall{\'e}e {P}oussin") = Ok 20 /\ bibtex_len (s2l "{\abc") = Ok 1.
Proof. vm_compute. auto. Qed.
Example prefix_example :
  bibtex_prefix (s2l "ab{\cd}e") 3 = Ok (s2l "ab{\cd}") /\ bibtex_prefix (s2l "a{b{cd}}") 3 = Ok (s2l "a{b{c}}")
  /\ balanced (s2l "a{b{cd}}") /\ bibtex_prefix (s2l "abc") 0 = Ok [] /\ bibtex_prefix [] 1 = Ok [].
Proof. vm_compute. auto 6. Qed.
Example substring_example :
  bibtex_substring (s2l "abcdef") (-2) 3 = s2l "cde" /\ bibtex_substring (s2l "abc") (-1) 5 = s2l "abc"
  /\ bibtex_substring (s2l "abc") (-10) 1 = [] /\ bibtex_substring (s2l "abcdef") 2 1000 = s2l "bcdef".
Proof. vm_compute. auto. Qed.
Example purify_example :
  bibtex_purify (s2l "{\noopsort{1973a}}A-b~c, {\'E}!") = Ok (s2l "1973aA b c E").
Proof. vm_compute. reflexivity. Qed.
