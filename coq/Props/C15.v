(* Props/C15.v -- ".bst source parsing recovers exactly the program that was written".
   Only statements, each closed by `exact <lemma>`, its assumptions printed, and Examples showing
   that hypotheses are met by non-trivial values.
   Model: Model/BstParser.v (pybtex/bibtex/bst.py, pybtex/scanner.py); printer and the classes of
   programs / layouts the statements speak about: Spec/BstPrint.v. *)
From Pybtex Require Import Base.Prelude Base.PyChar Base.PyStr Model.BstParser Spec.BstPrint
  Proofs.BstComment Proofs.BstLex Proofs.BstRoundtrip Proofs.BstErrors Proofs.BstArity Proofs.BstSource Proofs.BstTotal Proofs.BstLast Proofs.BstSound Proofs.BstStream Proofs.BstFile Proofs.BstShort Proofs.BstAccepted.

(* %-comments: strip_comment keeps exactly the part of the line before the first percent sign that
   has an even number of double quotes before it (a percent sign inside a string literal is not a
   comment); if there is no such percent sign the line is kept whole *)
Theorem strip_comment_spec : forall l,
  exists n, strip_comment l = firstn n l /\
    (n = length l \/ (nth_error l n = Some c_percent /\ outside_string (firstn n l) = true)) /\
    forall i, (i < n)%nat -> nth_error l i = Some c_percent -> outside_string (firstn i l) = false.
Proof. exact Proofs.BstComment.strip_comment_spec. Qed.
Print Assumptions strip_comment_spec.

Example strip_comment_example :
  strip_comment (s2l """100% compatibility"" is a myth% or not?") = s2l """100% compatibility"" is a myth".
Proof. vm_compute. reflexivity. Qed.

(* integer, string, quoted-name and plain-name tokens: the scanner reads the printed form of each
   literal back as one token of the right kind, after any whitespace and before anything that does
   not extend it, and the literal constructor gives back the literal *)
Theorem token_roundtrip : forall t, is_atom t = true -> wf_tokb t = true ->
  exists lt, flat_tok t = [lt] /\
    forall g r ln, forallb is_space g = true -> boundary_ok lt r ->
      required group_pats false (g ++ ltok_text lt ++ r) ln
        = Ok ((pat_of lt, ltok_text lt), (r, (ln + nl_count g + nl_count (ltok_text lt))%Z)) /\
      literal (pat_of lt) (ltok_text lt) = Ok t.
Proof. exact Proofs.BstRoundtrip.token_roundtrip. Qed.
Print Assumptions token_roundtrip.

Example token_examples :
  forallb (fun t => is_atom t && wf_tokb t)
    [TInt (-5); TInt 0; TInt 12345678901234567890; TStr (s2l "100% {sure} #1"); TStr [];
     TQuote (s2l "x"); TQuote []; TId (s2l ":="); TId (s2l "a.b$"); TId (s2l "-5"); TId (s2l "it's")] = true.
Proof. vm_compute. reflexivity. Qed.

(* printing any well-formed program (all ten commands in any case, all token kinds, function bodies
   nested to any depth) with ANY whitespace layout and parsing the text back is the identity *)
Theorem bst_text_roundtrip : forall p gs,
  wf_programb p = true -> layout_okb None gs (flat_program p) = true ->
  parse_text (print_bst gs p) = Ok p.
Proof. exact Proofs.BstRoundtrip.text_roundtrip. Qed.
Print Assumptions bst_text_roundtrip.

(* ... hence the result does not depend on the layout *)
Theorem layout_independent : forall p gs1 gs2, wf_programb p = true ->
  layout_okb None gs1 (flat_program p) = true -> layout_okb None gs2 (flat_program p) = true ->
  parse_text (print_bst gs1 p) = parse_text (print_bst gs2 p).
Proof. exact Proofs.BstRoundtrip.layout_independent. Qed.
Print Assumptions layout_independent.

Definition example_program : program :=
  [ (s2l "Entry", [[TId (s2l "author"); TId (s2l "title")]; []; [TId (s2l "label")]]);
    (s2l "FUNCTION", [[TId (s2l "f")];
                      [TStr (s2l "a%b"); TInt (-7); TQuote (s2l "x"); TId (s2l ":=");
                       TFun [TFun []; TId (s2l "skip$"); TFun [TStr (s2l "{")]]; TId (s2l "if$")]]);
    (s2l "read", []); (s2l "ITERATE", [[TId (s2l "f")]]) ].
Definition example_layout : list str :=
  [ []; []; s2l " "; [10; 9]%N; []; [13; 10]%N; []; []; []; [160]%N; []; [32]%N; []; []; [10]%N; [32]%N; []; [12]%N; s2l "  " ].
Example roundtrip_example :
  wf_programb example_program = true /\
  layout_okb None example_layout (flat_program example_program) = true /\
  layout_okb None [] (flat_program example_program) = true /\
  parse_text (print_bst example_layout example_program) = Ok example_program.
Proof. vm_compute. auto. Qed.

(* the full statement, through list(parse_string(src)): printing any well-formed program with ANY
   source layout -- gaps made of whitespace, %-comments (any text, including quotes, braces and
   command names, up to a line end) and line ends LF / CRLF / CR / VT / FF / FS / GS / RS / NEL / LS / PS --
   and parsing it back is the identity.  (src_programb: names contain no percent sign, string
   literals no line end; a bare CR is not directly followed by an LF item, which would make it a CRLF.) *)
Theorem bst_roundtrip : forall p gs,
  wf_programb p = true -> src_programb p = true -> slayout_okb None gs (flat_program p) = true ->
  parse_string (print_bst (map sgap_text gs) p) = Ok p.
Proof. exact Proofs.BstSource.bst_roundtrip. Qed.
Print Assumptions bst_roundtrip.

Definition example_slayout : list sgap :=
  [ [GCom (s2l " header ""quoted"" { ENTRY") (BrChar 10)]; []; [GWs 32]; [GBrk BrCRLF; GWs 9]; [];
    [GCom (s2l "}") BrCRLF; GBrk (BrChar 10)]; []; []; []; [GWs 160]; []; [GWs 32]; []; [];
    [GBrk (BrChar 12)]; [GWs 32; GCom [] (BrChar 8232)]; []; [GBrk BrCR; GCom (s2l "x") BrCR; GWs 32; GBrk (BrChar 10)]; [GWs 32; GBrk BrCR] ]%N.
Example source_roundtrip_example :
  wf_programb example_program = true /\ src_programb example_program = true /\
  slayout_okb None example_slayout (flat_program example_program) = true /\
  parse_string (print_bst (map sgap_text example_slayout) example_program) = Ok example_program.
Proof. vm_compute. auto. Qed.

(* command names are looked up case-insensitively (ASCII) *)
Theorem command_names_caseless : forall name,
  arity (lower name) = arity name /\ arity (upper name) = arity name.
Proof. exact Proofs.BstArity.arity_caseless. Qed.
Print Assumptions command_names_caseless.

Example arity_table :
  map (fun n => arity n) [s2l "entry"; s2l "Execute"; s2l "FUNCTION"; s2l "integers"; s2l "iTeRaTe"; s2l "macro";
                          s2l "read"; s2l "reverse"; s2l "SORT"; s2l "strings"; s2l "string"]
  = [Some 3; Some 1; Some 2; Some 1; Some 1; Some 2; Some 0; Some 1; Some 0; Some 1; None]%nat.
Proof. vm_compute. reflexivity. Qed.

(* malformed source, unknown command: rejected with TokenRequired on the line of the name *)
Theorem unknown_command_rejected : forall g name r,
  forallb is_space g = true -> wf_nameb name = true -> stops is_name_char r -> arity name = None ->
  parse_text (g ++ name ++ r) = PyErr cls_token_required (1 + nl_count g)%Z.
Proof. exact Proofs.BstRoundtrip.unknown_command_rejected. Qed.
Print Assumptions unknown_command_rejected.

Example unknown_command_example :
  parse_string (s2l "
  FUNCTIONS {f} {}") = PyErr cls_token_required 2.
Proof. vm_compute. reflexivity. Qed.

(* every syntax error names the line of the offending position, for EVERY source: if
   list(parse_string(src)) raises (class 1 PrematureEOF, class 2 TokenRequired) with line l, then l
   is an existing line of the source and the text handed to the scanner (line k of it is the
   comment-stripped line k of the source) splits into pre ++ post with exactly l-1 line feeds in
   pre, where post is empty (premature end), or post starts with the first character of a token
   that is not a name / not an opening brace where one is required, or pre ends with a name that is
   not a command.  (After fix 6970deb the line feeds inside a string literal that runs over a line
   end are counted, so no hypothesis about string literals is needed any more -- finding F29.) *)
Theorem error_names_line : forall src c l,
  parse_string src = PyErr c l ->
  (1 <= l <= Z.of_nat (Nat.max 1 (length (splitlines src))))%Z /\
  exists pre post, text_of_string src = pre ++ post /\ l = (1 + lf pre)%Z /\ error_site c pre post.
Proof. exact Proofs.BstErrors.error_names_line. Qed.
Print Assumptions error_names_line.

Example error_line_examples :
  parse_string (s2l "ENTRY {a}
  {b} % "" {
  { #x }") = PyErr cls_token_required 3 /\
  parse_string (s2l "FUNCTION {f} { ""s""

  ") = PyErr cls_premature 3.
Proof. vm_compute. auto. Qed.

(* F29 (repaired by 6970deb), regression: the line feed inside the string literal is counted *)
Example multiline_string_regression :
  parse_string (s2l "EXECUTE {""a
b"" c}
#") = PyErr cls_token_required 3.
Proof. vm_compute. reflexivity. Qed.

(* F21 (repaired in /repo by fix 135237f; the model follows the repaired code): every accepted
   command bears one of the ten names and has exactly as many groups as its arity *)
Theorem arity_respected : forall src p, parse_string src = Ok p -> Forall arity_exact p.
Proof. exact Proofs.BstArity.arity_respected. Qed.
Print Assumptions arity_respected.

(* malformed source, short argument list: a command (name with arity n) followed by fewer than n
   well-formed groups and then by anything that is not an opening brace is rejected, with
   TokenRequired naming the line of the token that stands where the next group should open, or with
   PrematureEOF naming the last line if the text ends there.  (no_cr: as in every text parse_string
   builds.) *)
Theorem malformed_rejected_short_arguments : forall name groups rest gs n,
  wf_nameb name = true -> arity name = Some n -> (length groups < n)%nat ->
  forallb (forallb wf_tokb) groups = true -> short_rest_ok rest ->
  layout_okb None gs (LName name :: flat_map flat_group groups ++ rest) = true ->
  no_cr (weave gs (LName name :: flat_map flat_group groups ++ rest)) = true ->
  exists pre post,
    weave gs (LName name :: flat_map flat_group groups ++ rest) = pre ++ post /\
    parse_text (weave gs (LName name :: flat_map flat_group groups ++ rest)) = PyErr (short_cls rest) (1 + lf pre)%Z /\
    match rest with [] => post = [] | t :: _ => exists post', post = ltok_text t ++ post' end.
Proof. exact Proofs.BstShort.short_arguments_rejected. Qed.
Print Assumptions malformed_rejected_short_arguments.

Example short_arguments_examples :
  parse_string (s2l "FUNCTION {a}
READ") = PyErr cls_token_required 2 /\
  parse_string (s2l "READ ENTRY {a}{b}") = PyErr cls_premature 1 /\
  parse_string (s2l "ENTRY {a}{b} READ") = PyErr cls_token_required 1 /\
  short_rest_ok [LName (s2l "READ")] /\ arity (s2l "FUNCTION") = Some 2%nat.
Proof. vm_compute. repeat split; try reflexivity; discriminate. Qed.

(* the fuel the model gives itself always suffices: for every source the result is Ok, a pybtex
   syntax error, or Crash -- never OutOfFuel (so the statements above about Ok / PyErr results
   do not silently exclude anything) *)
Theorem parse_string_fuel : forall src, parse_string src <> OutOfFuel.
Proof. exact Proofs.BstTotal.parse_string_fuel. Qed.
Print Assumptions parse_string_fuel.

(* "malformed source is rejected", in general: whatever list(parse_string(src)) accepts is a
   WELL-FORMED program (wf_programb: the class bst_roundtrip is about -- ten command names, exactly
   arity-many groups, ...) and the source IS a layout of it -- the comment-stripped text consists of exactly the lexical tokens of
   that program, in order (so braces are balanced and every token is a name, a string, an integer
   or a brace), each spelt in an allowed way (Proofs/BstSound.spells: names and strings verbatim,
   integers as #-?digits with that value), separated by whitespace only, followed by whitespace.
   Hence any source that is not of this form (unbalanced braces, stray or broken tokens, unknown
   commands) is not accepted; with arity_respected every command of it is complete. *)
Theorem accepted_is_printed : forall src p, parse_string src = Ok p ->
  wf_programb p = true /\
  exists g, layout_of (flat_program p) (text_of_string src) g /\ forallb is_space g = true.
Proof. exact Proofs.BstAccepted.accepted_is_wf_and_printed. Qed.
Print Assumptions accepted_is_printed.

Example accepted_example :
  parse_string (s2l "function{f}{#-007 'x} % c
   Read ") = Ok [(s2l "function", [[TId (s2l "f")]; [TInt (-7); TQuote (s2l "x")]]); (s2l "Read", [])].
Proof. vm_compute. reflexivity. Qed.

(* the three entry points agree: on every printed source whose comments are closed by LF or CRLF,
   list(parse_string(src)), list(parse_stream(<the lines of a text stream over src>)) -- lines end
   after LF and keep it, as io.StringIO and open files give them; each is rstrip()ped, then comment-
   stripped -- and list(parse_file(<a file containing src>)) -- universal newlines -- all return the
   program.  (A stream splits at LF only, so a comment closed by a bare CR, VT, FF ... would run on
   to the next LF there; parse_file alone also allows comments closed by a bare CR: file_roundtrip.) *)
Theorem entry_points_agree : forall p gs,
  wf_programb p = true -> src_programb p = true -> slayout_okb None gs (flat_program p) = true ->
  stream_gaps_okb gs = true ->
  let src := print_bst (map sgap_text gs) p in
  parse_string src = Ok p /\ parse_stream (lines_keepends src) = Ok p /\ parse_file src = Ok p.
Proof. exact Proofs.BstFile.entry_points_agree3. Qed.
Print Assumptions entry_points_agree.

Theorem file_roundtrip : forall p gs,
  wf_programb p = true -> src_programb p = true -> slayout_okb None gs (flat_program p) = true ->
  file_gaps_okb gs = true ->
  parse_file (print_bst (map sgap_text gs) p) = Ok p.
Proof. exact Proofs.BstFile.file_roundtrip. Qed.
Print Assumptions file_roundtrip.

Definition example_stream_layout : list sgap :=
  [ [GCom (s2l " header ""quoted"" { ENTRY") (BrChar 10)]; []; [GWs 32]; [GBrk BrCRLF; GWs 9]; [];
    [GCom (s2l "}") BrCRLF; GBrk (BrChar 10)]; []; []; []; [GWs 160]; []; [GWs 32; GWs 32; GBrk (BrChar 10)]; []; [];
    [GBrk (BrChar 12)]; [GWs 32; GCom [] (BrChar 10)]; []; [GBrk BrCR; GWs 32; GBrk (BrChar 10)]; [GWs 32; GBrk BrCR] ]%N.
Definition example_file_layout : list sgap :=
  [ [GCom (s2l " header") BrCR]; []; [GWs 32]; [GBrk BrCRLF; GWs 9]; [];
    [GCom (s2l "}") BrCRLF; GBrk (BrChar 10)]; []; []; []; [GWs 160]; []; [GWs 32; GBrk BrCR]; []; [];
    [GBrk (BrChar 12)]; [GWs 32; GCom [] (BrChar 10)]; []; [GCom (s2l "c") BrCR; GWs 32; GBrk (BrChar 10)]; [GBrk BrCR] ]%N.
Example entry_points_example :
  slayout_okb None example_stream_layout (flat_program example_program) = true /\
  stream_gaps_okb example_stream_layout = true /\
  slayout_okb None example_file_layout (flat_program example_program) = true /\ file_gaps_okb example_file_layout = true /\
  parse_stream (lines_keepends (print_bst (map sgap_text example_stream_layout) example_program)) = Ok example_program /\
  parse_file (print_bst (map sgap_text example_file_layout) example_program) = Ok example_program.
Proof. vm_compute. repeat split; reflexivity. Qed.
