(* Props/C15.v -- ".bst source parsing recovers exactly the program that was written".
   Only statements, each closed by `exact <lemma>`, its assumptions printed, and Examples showing
   that hypotheses are met by non-trivial values. *)
From Pybtex Require Import Base.Prelude Base.PyChar Base.PyStr Model.BstParser Spec.BstPrint
  Proofs.BstComment.

(* %-comments: strip_comment keeps exactly the part of the line before the first percent sign that
   has an even number of double quotes before it (a percent sign inside a string literal is not a
   comment); if there is no such percent sign the line is kept whole *)
Theorem strip_comment_spec : forall l,
  exists n, strip_comment l = firstn n l /\
    (n = length l \/ (nth_error l n = Some c_percent /\ outside_string (firstn n l) = true)) /\
    forall i, (i < n)%nat -> nth_error l i = Some c_percent -> outside_string (firstn i l) = false.
Proof. exact Proofs.BstComment.strip_comment_spec. Qed.
Print Assumptions strip_comment_spec.

Example strip_comment_example :
  strip_comment (s2l """100% compatibility"" is a myth% or not?") = s2l """100% compatibility"" is a myth".
Proof. vm_compute. reflexivity. Qed.
