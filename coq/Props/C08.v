(* Props/C08.v -- "rich text behaves like a string of (character, markup) pairs".
   Only statements, each closed by `exact <lemma>`, its assumptions printed, and Examples. *)
From Pybtex Require Import Base.Prelude Base.PyChar Base.PyStr Model.RtTypes Model.RichText Proofs.RichText.

(* len(text) is the number of (character, markup) pairs of the rendering *)
Theorem len_flat : forall t, rlen t = length (flat t).
Proof. intro t. symmetry. exact (flat_length t). Qed.
Print Assumptions len_flat.
