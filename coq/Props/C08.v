(* Props/C08.v -- "rich text behaves like a string of (character, markup) pairs".
   Only statements, each closed by `exact <lemma>`, its assumptions printed, and Examples.
   `flat t` is what the tracing back end renders: the sequence of (atom, markup stack) pairs.
   `erase` forgets the `external` flag of hyperlinks (which the code loses: finding F10, see the
   `_refuted` statements) and reads the deprecated tag name "emph" as "em". *)
From Pybtex Require Import Base.Prelude Base.PyChar Base.PyStr Model.RtTypes Model.RichText
  Spec.Flat Spec.FlatOps Proofs.RichText Proofs.RichSlice Proofs.RichOps Proofs.RichEq.

(* len(text) is the number of (character, markup) pairs of the rendering *)
Theorem len_flat : forall t, rlen t = length (flat t).
Proof. intro t. symmetry. exact (flat_length t). Qed.
Print Assumptions len_flat.

(* str(text) is the characters of the rendering (a symbol prints as <name>) *)
Theorem str_flat : forall t, rstr t = flat_str (flat t).
Proof. exact str_flat_lem. Qed.
Print Assumptions str_flat.

(* construction from nested parts: whatever the grouping/nesting/emptiness of the parts, the
   constructor succeeds and renders as the concatenation of the parts inside its markup *)
Theorem ctor_flat_partial : forall k raw, exists v, mkc k raw = Ok v /\
  erase (flat v) = erase (pushk k (concat (map flat raw))).
Proof. exact ctor_flat_e. Qed.
Print Assumptions ctor_flat_partial.

(* ... but not exactly: merging two adjacent external links drops `external` (F10) *)
Theorem ctor_flat_refuted : exists k raw v, mkc k raw = Ok v /\
  flat v <> pushk k (concat (map flat raw)).
Proof. exact ctor_flat_exact_refuted. Qed.
Print Assumptions ctor_flat_refuted.

(* upper() / lower(): every unprotected character is converted in place, protected text and
   symbols are untouched, markup stays where it was *)
Theorem case_flat_partial : forall up t, exists v, case_c up t = Ok v /\
  erase (flat v) = erase (map (conv_pair up) (flat t)).
Proof. exact case_flat_e. Qed.
Print Assumptions case_flat_partial.

Theorem case_flat_refuted : exists up t v, case_c up t = Ok v /\
  flat v <> map (conv_pair up) (flat t).
Proof. exact case_flat_exact_refuted. Qed.
Print Assumptions case_flat_refuted.

(* a + b *)
Theorem add_flat_partial : forall a b, exists v, add a b = Ok v /\
  erase (flat v) = erase (flat a ++ flat b).
Proof. exact add_flat_e. Qed.
Print Assumptions add_flat_partial.

(* t.append(x): the appended text inherits the top-level markup of the receiver *)
Theorem append_flat_partial : forall t x, exists v, append t x = Ok v /\
  erase (flat v) = erase (flat t ++ push_top t (flat x)).
Proof. exact append_flat_e. Qed.
Print Assumptions append_flat_partial.

(* sep.join(items) *)
Theorem join_flat_partial : forall sep ps, exists v, rjoin sep ps = Ok v /\
  erase (flat v) = erase (join_flat (flat sep) (map flat ps)).
Proof. exact join_flat_e. Qed.
Print Assumptions join_flat_partial.

(* text[i:j] for all optional bounds, negative, reversed, beyond the ends: exactly the Python
   slice of the pair sequence (the stop-before-start case was defect F8, now fixed) *)
Theorem slice_flat_partial : forall t i j, exists v, getitem_c t (KSlice i j) = Ok v /\
  erase (flat v) = pyslice (erase (flat t)) i j.
Proof. exact slice_flat_e. Qed.
Print Assumptions slice_flat_partial.

(* text[i] inside the bounds is the one pair s[i] ... *)
Theorem index_flat_partial : forall t i p, pyindex (erase (flat t)) i = Some p ->
  exists v, getitem_c t (KInt i) = Ok v /\ erase (flat v) = [p].
Proof. exact index_flat_e. Qed.
Print Assumptions index_flat_partial.

(* ... outside the bounds String and Symbol raise (IndexError) like str ... *)
Theorem index_leaf_out_of_range : forall t i, is_multipart t = false -> pyindex (flat t) i = None ->
  getitem_c t (KInt i) = Crash.
Proof. exact index_leaf_crash. Qed.
Print Assumptions index_leaf_out_of_range.

(* ... but Text/Tag/HRef/Protected return a text instead of raising (F23) *)
Theorem index_out_of_range_raises_refuted : exists t i, pyindex (flat t) i = None /\ getitem_c t (KInt i) <> Crash.
Proof. exact index_out_of_range_refuted. Qed.
Print Assumptions index_out_of_range_raises_refuted.

(* capfirst(): the first pair is upper-cased unless protected; capitalize(): and the rest lowered *)
Theorem capfirst_flat_partial : forall t, exists v, capfirst t = Ok v /\
  erase (flat v) = capfirst_flat (erase (flat t)).
Proof. exact capfirst_flat_e. Qed.
Print Assumptions capfirst_flat_partial.

Theorem capitalize_flat_partial : forall t, exists v, capitalize t = Ok v /\
  erase (flat v) = capitalize_flat (erase (flat t)).
Proof. exact capitalize_flat_e. Qed.
Print Assumptions capitalize_flat_partial.

(* histories: every expression built from the constructors, upper, lower, capitalize, capfirst,
   slices, +, append and join applied on top of one another in any way (`spec e` is defined)
   evaluates without error, and its value carries the top-level markup and renders as the pair
   sequence that the same operations give on plain sequences (`spec`, Spec/FlatOps.v) *)
Theorem ops_compose_partial : forall e r, spec e = Some r ->
  exists v, eval_c e = Ok v /\ top_e v = fst r /\ erase (flat v) = snd r.
Proof. exact ops_compose_e. Qed.
Print Assumptions ops_compose_partial.

(* equality: texts that compare equal render the same (up to erase), == is reflexive ... *)
Theorem eq_sound : forall a b, rt_eqb a b = true -> erase (flat a) = erase (flat b).
Proof. exact eq_sound_lem. Qed.
Print Assumptions eq_sound.

Theorem eq_refl_all : forall a, rt_eqb a a = true.
Proof. exact rt_eqb_refl. Qed.
Print Assumptions eq_refl_all.

(* ... but == does not see HRef.external (F10) *)
Theorem eq_flat_refuted : exists a b, rt_eqb a b = true /\ flat a <> flat b.
Proof. exact eq_exact_refuted. Qed.
Print Assumptions eq_flat_refuted.

(* grouping while building: an empty part, and wrapping some of the parts into a nested Text,
   change nothing in the object that is built -- hence neither == nor the rendering *)
Theorem regroup_drop_empty : forall fuel k a e b, nonempty e = false ->
  mk fuel k (a ++ e :: b) = mk fuel k (a ++ b).
Proof. exact mk_drop_empty. Qed.
Print Assumptions regroup_drop_empty.

Theorem regroup_unpack_text : forall fuel k a ps b,
  Forall (fun p => nonempty p = true) ps -> Forall (fun p => typeinfo p <> TIText) ps ->
  mk fuel k (a ++ RText ps :: b) = mk fuel k (a ++ ps ++ b).
Proof. exact mk_unpack_text. Qed.
Print Assumptions regroup_unpack_text.

(* non-vacuity / sanity: concrete values *)
Example ctor_example :
  mkc KText [RStr (s2l "Multi"); RTag (s2l "em") [RStr (s2l "part")]; RText [RTag (s2l "em") [RStr (s2l " "); RStr (s2l "text!")]]]
  = Ok (RText [RStr (s2l "Multi"); RTag (s2l "em") [RStr (s2l "part text!")]]).
Proof. vm_compute. reflexivity. Qed.
Example upper_example :
  case_c true (RText [RStr (s2l "a"); RProt [RStr (s2l "b")]; RTag (s2l "em") [RStr (s2l "c")]])
  = Ok (RText [RStr (s2l "A"); RProt [RStr (s2l "b")]; RTag (s2l "em") [RStr (s2l "C")]]).
Proof. vm_compute. reflexivity. Qed.
Example append_example :
  append (RTag (s2l "em") [RStr (s2l "x")]) (RStr (s2l "!")) = Ok (RTag (s2l "em") [RStr (s2l "x!")]).
Proof. vm_compute. reflexivity. Qed.
Example slice_example :
  getitem_c (RText [RStr (s2l "Longcat is "); RTag (s2l "em") [RStr (s2l "looooooong!")]]) (KSlice None (Some 15%Z))
  = Ok (RText [RStr (s2l "Longcat is "); RTag (s2l "em") [RStr (s2l "looo")]]).
Proof. vm_compute. reflexivity. Qed.
Example slice_reversed_example :
  getitem_c (RText [RStr (s2l "abcdefgh")]) (KSlice (Some 3%Z) (Some 1%Z)) = Ok (RText []).
Proof. vm_compute. reflexivity. Qed.
Example index_example :
  pyindex (erase (flat (RText [RStr (s2l "ab"); RTag (s2l "em") [RStr (s2l "c")]]))) (-1) = Some (ACh 99%N, [MTag (s2l "em")])
  /\ getitem_c (RText [RStr (s2l "ab"); RTag (s2l "em") [RStr (s2l "c")]]) (KInt (-1)) = Ok (RText [RTag (s2l "em") [RStr (s2l "c")]]).
Proof. vm_compute. split; reflexivity. Qed.
(* Text(Tag('em', 'long Cat'), 'x').capitalize()[1:].append('!') is in the domain of `spec` *)
Example ops_example :
  spec (EAppend (ESlice (ECapitalize (EText [ETag (s2l "em") [EStr (s2l "lo Cat")]; EStr (s2l "x")])) (Some 1%Z) None) (EStr (s2l "!")))
  = Some (None, [(ACh 111%N, [MTag (s2l "em")]); (ACh 32%N, [MTag (s2l "em")]); (ACh 99%N, [MTag (s2l "em")]);
                 (ACh 97%N, [MTag (s2l "em")]); (ACh 116%N, [MTag (s2l "em")]); (ACh 120%N, []); (ACh 33%N, [])]).
Proof. vm_compute. reflexivity. Qed.
(* the hypotheses of regroup_unpack_text hold of the parts of every constructed Text *)
Example regroup_example :
  mkc KText [RStr (s2l "a"); RText [RTag (s2l "em") [RStr (s2l "b")]; RStr (s2l "c")]]
  = mkc KText [RStr (s2l "a"); RTag (s2l "em") [RStr (s2l "b")]; RStr (s2l "c")]
  /\ Forall (fun p => nonempty p = true) [RTag (s2l "em") [RStr (s2l "b")]; RStr (s2l "c")].
Proof. vm_compute. split; [reflexivity|repeat constructor]. Qed.
