(* Props/C08.v -- "rich text behaves like a string of (character, markup) pairs".
   Only statements, each closed by `exact <lemma>`, its assumptions printed, and Examples.
   `flat t` is what the tracing back end renders: the sequence of (atom, markup stack) pairs.
   `erase` forgets the `external` flag of hyperlinks (which the code loses: finding F10, see the
   `_refuted` statements) and reads the deprecated tag name "emph" as "em". *)
From Pybtex Require Import Base.Prelude Base.PyChar Base.PyStr Model.RtTypes Model.RichText
  Spec.Flat Spec.FlatOps Proofs.RichText.

(* len(text) is the number of (character, markup) pairs of the rendering *)
Theorem len_flat : forall t, rlen t = length (flat t).
Proof. intro t. symmetry. exact (flat_length t). Qed.
Print Assumptions len_flat.

(* str(text) is the characters of the rendering (a symbol prints as <name>) *)
Theorem str_flat : forall t, rstr t = flat_str (flat t).
Proof. exact str_flat_lem. Qed.
Print Assumptions str_flat.

(* construction from nested parts: whatever the grouping/nesting/emptiness of the parts, the
   constructor succeeds and renders as the concatenation of the parts inside its markup *)
Theorem ctor_flat_partial : forall k raw, exists v, mkc k raw = Ok v /\
  erase (flat v) = erase (pushk k (concat (map flat raw))).
Proof. exact ctor_flat_e. Qed.
Print Assumptions ctor_flat_partial.

(* ... but not exactly: merging two adjacent external links drops `external` (F10) *)
Theorem ctor_flat_refuted : exists k raw v, mkc k raw = Ok v /\
  flat v <> pushk k (concat (map flat raw)).
Proof. exact ctor_flat_exact_refuted. Qed.
Print Assumptions ctor_flat_refuted.

(* upper() / lower(): every unprotected character is converted in place, protected text and
   symbols are untouched, markup stays where it was *)
Theorem case_flat_partial : forall up t, exists v, case_c up t = Ok v /\
  erase (flat v) = erase (map (conv_pair up) (flat t)).
Proof. exact case_flat_e. Qed.
Print Assumptions case_flat_partial.

Theorem case_flat_refuted : exists up t v, case_c up t = Ok v /\
  flat v <> map (conv_pair up) (flat t).
Proof. exact case_flat_exact_refuted. Qed.
Print Assumptions case_flat_refuted.

(* a + b *)
Theorem add_flat_partial : forall a b, exists v, add a b = Ok v /\
  erase (flat v) = erase (flat a ++ flat b).
Proof. exact add_flat_e. Qed.
Print Assumptions add_flat_partial.

(* t.append(x): the appended text inherits the top-level markup of the receiver *)
Theorem append_flat_partial : forall t x, exists v, append t x = Ok v /\
  erase (flat v) = erase (flat t ++ push_top t (flat x)).
Proof. exact append_flat_e. Qed.
Print Assumptions append_flat_partial.

(* sep.join(items) *)
Theorem join_flat_partial : forall sep ps, exists v, rjoin sep ps = Ok v /\
  erase (flat v) = erase (join_flat (flat sep) (map flat ps)).
Proof. exact join_flat_e. Qed.
Print Assumptions join_flat_partial.

(* non-vacuity / sanity: concrete values *)
Example ctor_example :
  mkc KText [RStr (s2l "Multi"); RTag (s2l "em") [RStr (s2l "part")]; RText [RTag (s2l "em") [RStr (s2l " "); RStr (s2l "text!")]]]
  = Ok (RText [RStr (s2l "Multi"); RTag (s2l "em") [RStr (s2l "part text!")]]).
Proof. vm_compute. reflexivity. Qed.
Example upper_example :
  case_c true (RText [RStr (s2l "a"); RProt [RStr (s2l "b")]; RTag (s2l "em") [RStr (s2l "c")]])
  = Ok (RText [RStr (s2l "A"); RProt [RStr (s2l "b")]; RTag (s2l "em") [RStr (s2l "C")]]).
Proof. vm_compute. reflexivity. Qed.
Example append_example :
  append (RTag (s2l "em") [RStr (s2l "x")]) (RStr (s2l "!")) = Ok (RTag (s2l "em") [RStr (s2l "x!")]).
Proof. vm_compute. reflexivity. Qed.
