(* Props/C08.v -- "rich text behaves like a string of (character, markup) pairs".
   Only statements, each closed by `exact <lemma>`, its assumptions printed, and Examples.
   `flat t` is what the tracing back end renders: the sequence of (atom, markup stack) pairs,
   markup = MTag name | MHRef url external | MProt.
   `wf t` (Spec/FlatOps.v): no Tag inside t carries the deprecated name "emph" -- the constructor
   renames it to "em", so every text the API can build is well-formed (`ctor_flat`, `ops_compose`
   return well-formed values from any parts).  The exact theorems are stated for well-formed
   texts; the `_any` versions hold for arbitrary trees up to `erase`, which does nothing but read
   the tag name "emph" as "em" (the `external` flag of hyperlinks is NOT erased any more:
   defect F10 is fixed by 8ee055e). *)
From Pybtex Require Import Base.Prelude Base.PyChar Base.PyStr Model.RtTypes Model.RichText Model.Backends
  Spec.Flat Spec.FlatOps Proofs.RichText Proofs.RichSlice Proofs.RichOps Proofs.RichEq Proofs.RichWf Proofs.RichObs Proofs.RichSplit Proofs.RichInj Proofs.RichNormal Proofs.RichHist Proofs.RichHist2 Proofs.RichRender Proofs.RichChain Proofs.RichTextTwo.

(* len(text) is the number of (character, markup) pairs of the rendering *)
Theorem len_flat : forall t, rlen t = length (flat t).
Proof. intro t. symmetry. exact (flat_length t). Qed.
Print Assumptions len_flat.

(* str(text) is the characters of the rendering (a symbol prints as <name>) *)
Theorem str_flat : forall t, rstr t = flat_str (flat t).
Proof. exact str_flat_lem. Qed.
Print Assumptions str_flat.

(* on well-formed texts erase is the identity *)
Theorem erase_wf : forall t, wf t -> erase (flat t) = flat t.
Proof. exact wf_flat. Qed.
Print Assumptions erase_wf.

(* construction from nested parts: whatever the grouping/nesting/emptiness of the parts, the
   constructor terminates and renders exactly as the concatenation of the parts inside its markup *)
Theorem ctor_flat : forall k raw, Forall wf raw -> exists v, mkc k raw = Ok v /\ wf v /\
  flat v = pushk_e k (concat (map flat raw)).
Proof. exact ctor_flat_x. Qed.
Print Assumptions ctor_flat.

Theorem ctor_flat_any : forall k raw, exists v, mkc k raw = Ok v /\
  erase (flat v) = erase (pushk k (concat (map flat raw))).
Proof. exact ctor_flat_e. Qed.
Print Assumptions ctor_flat_any.

(* upper() / lower(): every unprotected character is converted in place, protected text and
   symbols are untouched, every markup stack (external flags included) stays where it was *)
Theorem case_flat : forall up t, wf t -> exists v, case_c up t = Ok v /\ wf v /\
  flat v = map (conv_pair up) (flat t).
Proof. exact case_flat_x. Qed.
Print Assumptions case_flat.

Theorem case_flat_any : forall up t, exists v, case_c up t = Ok v /\
  erase (flat v) = erase (map (conv_pair up) (flat t)).
Proof. exact case_flat_e. Qed.
Print Assumptions case_flat_any.

(* a + b *)
Theorem add_flat : forall a b, wf a -> wf b -> exists v, add a b = Ok v /\ wf v /\ flat v = flat a ++ flat b.
Proof. exact add_flat_x. Qed.
Print Assumptions add_flat.

(* t.append(x): the appended text inherits the top-level markup of the receiver *)
Theorem append_flat : forall t x, wf t -> wf x -> exists v, append t x = Ok v /\ wf v /\
  flat v = flat t ++ push_top t (flat x).
Proof. exact append_flat_x. Qed.
Print Assumptions append_flat.

(* sep.join(items) *)
Theorem join_flat_thm : forall sep ps, wf sep -> Forall wf ps -> exists v, rjoin sep ps = Ok v /\ wf v /\
  flat v = join_flat (flat sep) (map flat ps).
Proof. exact join_flat_x. Qed.
Print Assumptions join_flat_thm.

(* text[i:j] for all optional bounds, negative, reversed, beyond the ends: exactly the Python
   slice of the pair sequence (the stop-before-start case was defect F8, fixed) *)
Theorem slice_flat : forall t i j, wf t -> exists v, getitem_c t (KSlice i j) = Ok v /\ wf v /\
  flat v = pyslice (flat t) i j.
Proof. exact slice_flat_x. Qed.
Print Assumptions slice_flat.

Theorem slice_flat_any : forall t i j, exists v, getitem_c t (KSlice i j) = Ok v /\
  erase (flat v) = pyslice (erase (flat t)) i j.
Proof. exact slice_flat_e. Qed.
Print Assumptions slice_flat_any.

(* text[i] inside the bounds is the one pair s[i] ... *)
Theorem index_flat : forall t i p, wf t -> pyindex (flat t) i = Some p ->
  exists v, getitem_c t (KInt i) = Ok v /\ wf v /\ flat v = [p].
Proof. exact index_flat_x. Qed.
Print Assumptions index_flat.

(* ... outside the bounds String and Symbol raise (IndexError) like str ... *)
Theorem index_leaf_out_of_range : forall t i, is_multipart t = false -> pyindex (flat t) i = None ->
  getitem_c t (KInt i) = Crash.
Proof. exact index_leaf_crash. Qed.
Print Assumptions index_leaf_out_of_range.

(* ... but Text/Tag/HRef/Protected return a text instead of raising (F23) *)
Theorem index_out_of_range_raises_refuted : exists t i, pyindex (flat t) i = None /\ getitem_c t (KInt i) <> Crash.
Proof. exact index_out_of_range_refuted. Qed.
Print Assumptions index_out_of_range_raises_refuted.

(* capfirst(): the first pair is upper-cased unless protected; capitalize(): and the rest lowered *)
Theorem capfirst_flat_thm : forall t, wf t -> exists v, capfirst t = Ok v /\ wf v /\
  flat v = capfirst_flat (flat t).
Proof. exact capfirst_flat_x. Qed.
Print Assumptions capfirst_flat_thm.

Theorem capitalize_flat_thm : forall t, wf t -> exists v, capitalize t = Ok v /\ wf v /\
  flat v = capitalize_flat (flat t).
Proof. exact capitalize_flat_x. Qed.
Print Assumptions capitalize_flat_thm.

(* markup stays attached to the characters it was attached to: for every operation the sequence
   of markup stacks (tags, hyperlinks with their external flag, protection) of the result is the
   string operation applied to the sequence of stacks of the operands *)
Theorem markup_preserved_by_every_op : forall t, wf t ->
  (forall up v, case_c up t = Ok v -> stacks (flat v) = stacks (flat t)) /\
  (forall v, capfirst t = Ok v -> stacks (flat v) = stacks (flat t)) /\
  (forall v, capitalize t = Ok v -> stacks (flat v) = stacks (flat t)) /\
  (forall i j v, getitem_c t (KSlice i j) = Ok v -> stacks (flat v) = pyslice (stacks (flat t)) i j) /\
  (forall x v, wf x -> add t x = Ok v -> stacks (flat v) = stacks (flat t) ++ stacks (flat x)) /\
  (forall x v, wf x -> append t x = Ok v ->
     stacks (flat v) = stacks (flat t) ++ stacks (push_top t (flat x))) /\
  (forall k v, mkc k [t] = Ok v -> stacks (flat v) = stacks (pushk_e k (flat t))).
Proof. exact markup_preserved. Qed.
Print Assumptions markup_preserved_by_every_op.

(* histories: every expression built from the constructors, upper, lower, capitalize, capfirst,
   slices, int indices inside the bounds, +, append, join and add_period applied on top of one
   another in any way (`spec e` is defined) evaluates without error to a text in normal form
   whose top-level markup and rendering are exactly what the same operations give on plain pair
   sequences (`spec`, Spec/FlatOps.v); len, str of the result are those of the sequence.
   Partial only in what `spec` leaves out: an int index outside the bounds (str raises, multipart
   texts do not: F23), split (cut positions at part boundaries: F17s; its content laws are the
   split_* theorems, which hold for every value) and abbreviate (not in the property text). *)
Theorem ops_compose_total : forall e r, spec e = Some r ->
  exists v, eval_c e = Ok v /\ good v /\ top_markup v = fst r /\ flat v = snd r.
Proof. exact ops_compose_x. Qed.
Print Assumptions ops_compose_total.

Theorem ops_compose_observers : forall e r, spec e = Some r -> exists v, eval_c e = Ok v /\
  rlen v = length (snd r) /\ rstr v = flat_str (snd r) /\ risalpha v = isalpha_flat (snd r).
Proof. exact observe_compose_all. Qed.
Print Assumptions ops_compose_observers.

(* histories with split as a step: `hsem e r` (Spec/FlatOps.v) is the relational semantics of an
   expression on plain pair sequences -- every clause is the string operation on the sequence; the
   two stated exceptions are explicit clauses: an int index outside the bounds (F23: result
   unspecified) and split, whose pieces are specified by their laws (`split_law`: they re-assemble
   to the text / to the text minus its unprotected whitespace, a Protected is one piece; each piece
   keeps the top-level markup) but not by the cut positions at part boundaries (F17s).  Every
   successful evaluation of a covered expression (everything except abbreviate and split on a
   string separator) is related by hsem to a text in normal form with exactly that top-level
   markup and pair sequence; len / str / isalpha are those of the sequence. *)
Theorem ops_compose : forall e v, covered e = true -> eval_c e = Ok v ->
  exists r, hsem e r /\ good v /\ top_markup v = fst r /\ flat v = snd r.
Proof. exact history_sound. Qed.
Print Assumptions ops_compose.

Theorem ops_compose_all_observers : forall e v, covered e = true -> eval_c e = Ok v -> exists r, hsem e r /\
  rlen v = length (snd r) /\ rstr v = flat_str (snd r) /\ risalpha v = isalpha_flat (snd r).
Proof. exact history_observers. Qed.
Print Assumptions ops_compose_all_observers.

(* the split step on its own: for a text in normal form, split() / split(delimiter_re) give texts in
   normal form with the same top-level markup that satisfy split_law *)
Theorem split_step : forall a r sep keep ps, good a /\ top_markup a = fst r /\ flat a = snd r ->
  (sep = SepNone \/ sep = SepDelim) -> split_c a sep keep = Ok ps ->
  split_law sep r (map flat ps) /\ Forall (fun p => good p /\ top_markup p = fst r) ps.
Proof. exact step_split_clean. Qed.
Print Assumptions split_step.

(* split_ws_spec on the domain where it is exact by construction -- a String, and a text whose only
   part is one String (no part boundary, hence no F17s): the pieces are exactly Python's
   s.split() (Base/PyStr.split_ws: runs of the 29 whitespace code points of Base/PyChar.is_space
   separate, no empty pieces), each rebuilt with the markup of the text.  Partial: the general
   statement for texts whose whitespace runs lie inside single parts is not proved. *)
Theorem split_ws_spec_string : forall s, split_c (RStr s) SepNone None = Ok (map RStr (split_ws s)).
Proof. exact string_split_ws_lem. Qed.
Print Assumptions split_ws_spec_string.

(* ... and for a one-String text under any nesting of Tag / HRef, with or without a Text on top
   (`chain_s`, Spec/FlatOps.v): every word is rebuilt inside the same nest of markup (`rechain`).
   Still `_partial`: multi-part texts whose whitespace runs lie inside single parts are not covered. *)
Theorem split_ws_spec_partial : forall t s, chain_s t s ->
  split_c t SepNone None = Ok (map (rechain t) (split_ws s)).
Proof. exact chain_split_ws_lem. Qed.
Print Assumptions split_ws_spec_partial.

(* a multi-part case: a String followed by a Tag around a String, where the seam is not adjacent to a
   separator match (the regex piece before the seam and the one after it are non-empty: the F17s-free
   condition).  The pieces of split() are exactly the regex pieces of the two strings with the empty
   ones dropped, the two pieces around the seam glued into one text that keeps both markups. *)
Theorem split_ws_spec_two_parts : forall m s1 s2,
  last (re_split_ws s1 [] false) [] <> [] -> hd [] (re_split_ws s2 [] false) <> [] ->
  split_c (RText [RStr s1; RTag m [RStr s2]]) SepNone None =
  Ok (map (fun w => RText [RStr w]) (filter nonnil (removelast (re_split_ws s1 [] false)))
      ++ [RText [RStr (last (re_split_ws s1 [] false) []); RTag (check_name m) [RStr (hd [] (re_split_ws s2 [] false))]]]
      ++ map (fun w => RText [RTag (check_name m) [RStr w]]) (filter nonnil (tl (re_split_ws s2 [] false)))).
Proof. exact two_part_split_ws_lem. Qed.
Print Assumptions split_ws_spec_two_parts.

(* split(delimiter_re) on the same texts: exactly re.split(r'([\s\-])', s), delimiters and empty
   strings included, each piece inside the same nest *)
Theorem split_delim_spec_onestring : forall t s, chain_s t s ->
  split_c t SepDelim None = Ok (map (rechain t) (re_split_delim s [])).
Proof. exact chain_split_delim_lem. Qed.
Print Assumptions split_delim_spec_onestring.

(* add_period on any text in normal form (any nesting of Tag / HRef / Protected): a period is
   appended, at the markup level of the text itself, iff the text is non-empty and its last pair is
   not one of . ? ! *)
Theorem add_period_flat_thm : forall t p, good t -> exists v, add_period t p = Ok v /\ good v /\
  top_markup v = top_markup t /\ flat v = add_period_flat (top_markup t) (flat t) p.
Proof. exact add_period_flat_lem. Qed.
Print Assumptions add_period_flat_thm.

(* isalpha on a constructed text is str.isalpha on its characters *)
Theorem isalpha_flat_thm : forall t, good t -> risalpha t = isalpha_flat (flat t).
Proof. exact isalpha_flat_lem. Qed.
Print Assumptions isalpha_flat_thm.

(* every operation maps texts in normal form to texts in normal form (so every theorem stated
   for `good` / `wf` texts applies along any history) *)
Theorem good_preserved_by_every_op : forall t, good t ->
  (forall up v, case_c up t = Ok v -> good v) /\
  (forall k v, getitem_c t k = Ok v -> good v) /\
  (forall x v, good x -> add t x = Ok v -> good v) /\
  (forall x v, good x -> append t x = Ok v -> good v) /\
  (forall xs v, Forall good xs -> rjoin t xs = Ok v -> good v) /\
  (forall v, capfirst t = Ok v -> good v) /\
  (forall v, capitalize t = Ok v -> good v) /\
  (forall p v, add_period t p = Ok v -> good v).
Proof. exact good_preserved. Qed.
Print Assumptions good_preserved_by_every_op.

(* `needle in text`: exact when the needle lies inside one String part (that is precisely when
   it is found), never a false positive, and -- documented limitation, finding F17 -- not found
   when the characters span a part boundary *)
Theorem contains_flat_partial : forall t p,
  rcontains t p = true <-> (p = [] /\ is_multipart t = true) \/ (exists s, In s (leaves t) /\ occurs p s).
Proof. exact contains_exact_lem. Qed.
Print Assumptions contains_flat_partial.

Theorem contains_sound : forall t p, rcontains t p = true -> occurs (map ACh p) (atoms (flat t)).
Proof. exact contains_sound_lem. Qed.
Print Assumptions contains_sound.

Theorem contains_flat_refuted : exists t p, occurs (map ACh p) (atoms (flat t)) /\ rcontains t p = false.
Proof. exact contains_complete_refuted. Qed.
Print Assumptions contains_flat_refuted.

(* startswith / endswith (one string or a tuple): only the first / last String leaf is asked *)
Theorem startswith_flat_partial : forall t ps,
  rstartswith t ps = match first_leaf t with Some s => existsb (startswith s) ps | None => false end.
Proof. exact startswith_exact_lem. Qed.
Print Assumptions startswith_flat_partial.

Theorem startswith_sound : forall t ps, rstartswith t ps = true ->
  exists p, In p ps /\ prefix_of (map ACh p) (atoms (flat t)).
Proof. exact startswith_sound_lem. Qed.
Print Assumptions startswith_sound.

Theorem startswith_flat_refuted : exists t p, prefix_of (map ACh p) (atoms (flat t)) /\ rstartswith t [p] = false.
Proof. exact startswith_complete_refuted. Qed.
Print Assumptions startswith_flat_refuted.

Theorem endswith_flat_partial : forall t ps,
  rendswith t ps = match last_leaf t with Some s => existsb (fun p => startswith (rev s) (rev p)) ps | None => false end.
Proof. exact endswith_exact_lem. Qed.
Print Assumptions endswith_flat_partial.

Theorem endswith_sound : forall t ps, rendswith t ps = true ->
  exists p, In p ps /\ suffix_of (map ACh p) (atoms (flat t)).
Proof. exact endswith_sound_lem. Qed.
Print Assumptions endswith_sound.

Theorem endswith_flat_refuted : exists t p, suffix_of (map ACh p) (atoms (flat t)) /\ rendswith t [p] = false.
Proof. exact endswith_complete_refuted. Qed.
Print Assumptions endswith_flat_refuted.

(* the full statements on the one-part domain: for one String under any nesting of Text / Tag /
   HRef / Protected (`chain`), `in`, startswith and endswith are exactly the str operations on the
   characters of the rendering *)
Theorem contains_flat_onestring : forall t s p, FlatOps.chain t s ->
  (rcontains t p = true <-> occurs (map ACh p) (atoms (flat t))).
Proof. exact contains_chain_lem. Qed.
Print Assumptions contains_flat_onestring.

Theorem startswith_flat_onestring : forall t s ps, FlatOps.chain t s ->
  (rstartswith t ps = true <-> exists p, In p ps /\ prefix_of (map ACh p) (atoms (flat t))).
Proof. exact startswith_chain_lem. Qed.
Print Assumptions startswith_flat_onestring.

Theorem endswith_flat_onestring : forall t s ps, FlatOps.chain t s ->
  (rendswith t ps = true <-> exists p, In p ps /\ suffix_of (map ACh p) (atoms (flat t))).
Proof. exact endswith_chain_lem. Qed.
Print Assumptions endswith_flat_onestring.

(* split: the pieces re-assemble -- for the delimiter regex (whose delimiters are pieces) they
   concatenate to the text; for split() nothing but unprotected whitespace disappears (order,
   markup, protected whitespace kept), for every keep_empty_parts value; Protected is never split;
   every piece keeps the top-level markup.  Partial: where exactly the cuts fall is not claimed --
   at part boundaries it deviates from str.split (finding F17s, refuted statement below); string
   separators are left to the correspondence + oracle. *)
Theorem split_flat_partial_delim : forall t keep ps, split_c t SepDelim keep = Ok ps ->
  concat (map (fun p => erase (flat p)) ps) = erase (flat t).
Proof. exact split_delim_content. Qed.
Print Assumptions split_flat_partial_delim.

Theorem split_flat_partial_ws : forall t keep ps, split_c t SepNone keep = Ok ps ->
  concat (map (fun p => erase (flat p)) ps) = drop_ws (erase (flat t)).
Proof. exact split_ws_content. Qed.
Print Assumptions split_flat_partial_ws.

Theorem split_never_inside_protected : forall ps sep keep, split_c (RProt ps) sep keep = Ok [RProt ps].
Proof. exact split_protected. Qed.
Print Assumptions split_never_inside_protected.

Theorem split_pieces_keep_markup : forall t sep keep ps, is_multipart t = true -> split_c t sep keep = Ok ps ->
  Forall (fun p => top_e p = top_e t) ps.
Proof. exact split_pieces_top. Qed.
Print Assumptions split_pieces_keep_markup.

(* the pieces of split are again texts in normal form: histories continue on them, and every
   theorem stated for good texts applies to each piece *)
Theorem split_pieces_good : forall t sep keep ps, good t -> split_c t sep keep = Ok ps -> Forall good ps.
Proof. exact split_good. Qed.
Print Assumptions split_pieces_good.

Theorem split_no_empty_piece_refuted : exists t ps, split_c t SepNone None = Ok ps /\ exists p, In p ps /\ rlen p = 0.
Proof. exact split_no_empty_refuted. Qed.
Print Assumptions split_no_empty_piece_refuted.

(* equality: texts that compare equal render the same, == is reflexive *)
Theorem eq_sound : forall a b, rt_eqb a b = true -> erase (flat a) = erase (flat b).
Proof. exact eq_sound_lem. Qed.
Print Assumptions eq_sound.

Theorem eq_refl_all : forall a, rt_eqb a a = true.
Proof. exact rt_eqb_refl. Qed.
Print Assumptions eq_refl_all.

(* mk_normal: whatever texts in normal form are given as parts, in whatever grouping or nesting,
   the value the smart constructor returns is in normal form (no empty part, no nested Text, no two
   neighbours with the same type information, strings merged) and well-formed *)
Theorem mk_normal : forall k raw v, Forall good raw -> mkc k raw = Ok v -> good v.
Proof. exact mkc_good. Qed.
Print Assumptions mk_normal.

(* "how parts were grouped or nested while building a text affects neither equality nor
   rendering": two part lists with the same concatenated rendering build the same object, which
   therefore compares equal and renders identically through every back end of Model/Backends.v *)
Theorem grouping_irrelevant : forall k raw1 raw2 v1 v2, Forall good raw1 -> Forall good raw2 ->
  concat (map flat raw1) = concat (map flat raw2) ->
  mkc k raw1 = Ok v1 -> mkc k raw2 = Ok v2 -> v1 = v2.
Proof. exact grouping_irrelevant_lem. Qed.
Print Assumptions grouping_irrelevant.

Theorem eq_complete : forall k raw1 raw2 v1 v2, Forall good raw1 -> Forall good raw2 ->
  concat (map flat raw1) = concat (map flat raw2) ->
  mkc k raw1 = Ok v1 -> mkc k raw2 = Ok v2 -> rt_eqb v1 v2 = true.
Proof. intros. rewrite (grouping_irrelevant_lem k raw1 raw2 v1 v2); auto. apply rt_eqb_refl. Qed.
Print Assumptions eq_complete.

(* render_flat: through html / latex / markdown / plain text (any codec, any tables) the rendering
   of a constructed text depends only on its class and its pair sequence; equal texts render
   equally; regrouped constructions render equally *)
Theorem render_flat : forall enc T b t1 t2, good t1 -> good t2 -> typeinfo t1 = typeinfo t2 ->
  flat t1 = flat t2 -> render enc T b t1 = render enc T b t2.
Proof. exact render_flat_lem. Qed.
Print Assumptions render_flat.

Theorem equal_texts_render_equally : forall enc T b t1 t2, rt_eqb t1 t2 = true ->
  render enc T b t1 = render enc T b t2.
Proof. exact equal_render_lem. Qed.
Print Assumptions equal_texts_render_equally.

Theorem grouping_render : forall enc T b k raw1 raw2 v1 v2, Forall good raw1 -> Forall good raw2 ->
  concat (map flat raw1) = concat (map flat raw2) ->
  mkc k raw1 = Ok v1 -> mkc k raw2 = Ok v2 -> render enc T b v1 = render enc T b v2.
Proof. exact grouping_render_lem. Qed.
Print Assumptions grouping_render.

(* converse (flat_injective): two texts in the normal form the constructor produces (`normal`,
   Spec/FlatOps.v: parts non-empty, never a Text, normal, neighbours of different type
   information) of the same class with the same rendering are the same text, hence == .
   With mk_normal this applies to every constructed value (eq_complete above). *)
Theorem flat_injective : forall a b, normal a = true -> normal b = true -> typeinfo a = typeinfo b ->
  flat a = flat b -> a = b.
Proof. exact flat_injective_lem. Qed.
Print Assumptions flat_injective.

Theorem eq_complete_normal : forall a b, normal a = true -> normal b = true -> typeinfo a = typeinfo b ->
  flat a = flat b -> rt_eqb a b = true.
Proof. intros a b Na Nb T E. rewrite (flat_injective_lem a b Na Nb T E). exact (rt_eqb_refl b). Qed.
Print Assumptions eq_complete_normal.

(* grouping while building: an empty part, and wrapping some of the parts into a nested Text,
   change nothing in the object that is built -- hence neither == nor the rendering *)
Theorem regroup_drop_empty : forall fuel k a e b, nonempty e = false ->
  mk fuel k (a ++ e :: b) = mk fuel k (a ++ b).
Proof. exact mk_drop_empty. Qed.
Print Assumptions regroup_drop_empty.

Theorem regroup_unpack_text : forall fuel k a ps b,
  Forall (fun p => nonempty p = true) ps -> Forall (fun p => typeinfo p <> TIText) ps ->
  mk fuel k (a ++ RText ps :: b) = mk fuel k (a ++ ps ++ b).
Proof. exact mk_unpack_text. Qed.
Print Assumptions regroup_unpack_text.

(* non-vacuity / sanity: concrete values *)
Example ctor_example :
  mkc KText [RStr (s2l "Multi"); RTag (s2l "em") [RStr (s2l "part")]; RText [RTag (s2l "em") [RStr (s2l " "); RStr (s2l "text!")]]]
  = Ok (RText [RStr (s2l "Multi"); RTag (s2l "em") [RStr (s2l "part text!")]])
  /\ Forall wf [RStr (s2l "Multi"); RTag (s2l "em") [RStr (s2l "part")]; RText [RTag (s2l "em") [RStr (s2l " "); RStr (s2l "text!")]]].
Proof. vm_compute. split; [reflexivity|repeat constructor]. Qed.
(* external links stay external and do not merge with ordinary ones *)
Example external_example :
  mkc KText [RHRef (s2l "u") true [RStr (s2l "a")]; RHRef (s2l "u") true [RStr (s2l "b")]; RHRef (s2l "u") false [RStr (s2l "c")]]
  = Ok (RText [RHRef (s2l "u") true [RStr (s2l "ab")]; RHRef (s2l "u") false [RStr (s2l "c")]])
  /\ case_c true (RHRef (s2l "u") true [RStr (s2l "x")]) = Ok (RHRef (s2l "u") true [RStr (s2l "X")]).
Proof. vm_compute. split; reflexivity. Qed.
Example upper_example :
  case_c true (RText [RStr (s2l "a"); RProt [RStr (s2l "b")]; RTag (s2l "em") [RStr (s2l "c")]])
  = Ok (RText [RStr (s2l "A"); RProt [RStr (s2l "b")]; RTag (s2l "em") [RStr (s2l "C")]]).
Proof. vm_compute. reflexivity. Qed.
Example append_example :
  append (RTag (s2l "em") [RStr (s2l "x")]) (RStr (s2l "!")) = Ok (RTag (s2l "em") [RStr (s2l "x!")]).
Proof. vm_compute. reflexivity. Qed.
Example slice_example :
  getitem_c (RText [RStr (s2l "Longcat is "); RTag (s2l "em") [RStr (s2l "looooooong!")]]) (KSlice None (Some 15%Z))
  = Ok (RText [RStr (s2l "Longcat is "); RTag (s2l "em") [RStr (s2l "looo")]]).
Proof. vm_compute. reflexivity. Qed.
Example slice_reversed_example :
  getitem_c (RText [RStr (s2l "abcdefgh")]) (KSlice (Some 3%Z) (Some 1%Z)) = Ok (RText []).
Proof. vm_compute. reflexivity. Qed.
Example index_example :
  pyindex (flat (RText [RStr (s2l "ab"); RTag (s2l "em") [RStr (s2l "c")]])) (-1) = Some (ACh 99%N, [MTag (s2l "em")])
  /\ getitem_c (RText [RStr (s2l "ab"); RTag (s2l "em") [RStr (s2l "c")]]) (KInt (-1)) = Ok (RText [RTag (s2l "em") [RStr (s2l "c")]]).
Proof. vm_compute. split; reflexivity. Qed.
Example ops_example :
  spec (EAppend (ESlice (ECapitalize (EText [ETag (s2l "em") [EStr (s2l "lo Cat")]; EStr (s2l "x")])) (Some 1%Z) None) (EStr (s2l "!")))
  = Some (None, [(ACh 111%N, [MTag (s2l "em")]); (ACh 32%N, [MTag (s2l "em")]); (ACh 99%N, [MTag (s2l "em")]);
                 (ACh 97%N, [MTag (s2l "em")]); (ACh 116%N, [MTag (s2l "em")]); (ACh 120%N, []); (ACh 33%N, [])]).
Proof. vm_compute. reflexivity. Qed.
Example regroup_example :
  mkc KText [RStr (s2l "a"); RText [RTag (s2l "em") [RStr (s2l "b")]; RStr (s2l "c")]]
  = mkc KText [RStr (s2l "a"); RTag (s2l "em") [RStr (s2l "b")]; RStr (s2l "c")]
  /\ Forall (fun p => nonempty p = true) [RTag (s2l "em") [RStr (s2l "b")]; RStr (s2l "c")].
Proof. vm_compute. split; [reflexivity|repeat constructor]. Qed.
Example contains_example :
  rcontains (RText [RStr (s2l "Long cat!")]) (s2l "g c") = true /\ In (s2l "Long cat!") (leaves (RText [RStr (s2l "Long cat!")])).
Proof. vm_compute. split; [reflexivity|now left]. Qed.
Example split_example :
  split_c (RText [RStr (s2l "a + "); RProt [RStr (s2l "b c")]]) SepNone None
  = Ok [RText [RStr (s2l "a")]; RText [RStr (s2l "+")]; RText [RProt [RStr (s2l "b c")]]].
Proof. vm_compute. reflexivity. Qed.
(* differently grouped constructions give the same normal value *)
Example normal_example :
  mkc KText [RTag (s2l "em") [RStr (s2l "a")]; RText [RTag (s2l "em") [RStr (s2l "b"); RStr (s2l "")]; RStr (s2l "c")]; RStr (s2l "d")]
  = Ok (RText [RTag (s2l "em") [RStr (s2l "ab")]; RStr (s2l "cd")])
  /\ normal (RText [RTag (s2l "em") [RStr (s2l "ab")]; RStr (s2l "cd")]) = true.
Proof. vm_compute. split; reflexivity. Qed.
Example history_example :
  spec (EAddPeriod (EIndex (EText [EStr (s2l "ab"); ETag (s2l "em") [EStr (s2l "c")]]) (-1)) (s2l "."))
  = Some (None, [(ACh 99%N, [MTag (s2l "em")]); (ACh 46%N, [])]).
Proof. vm_compute. reflexivity. Qed.
Example grouping_example :
  Forall good [RTag (s2l "em") [RStr (s2l "a")]; RText [RTag (s2l "em") [RStr (s2l "b")]; RStr (s2l "c")]]
  /\ Forall good [RTag (s2l "em") [RStr (s2l "ab")]; RStr (s2l "c")].
Proof. split; repeat constructor. Qed.
Example chain_example :
  chain_s (RText [RTag (s2l "em") [RHRef (s2l "u") true [RStr (s2l "a b")]]]) (s2l "a b")
  /\ FlatOps.chain (RProt [RTag (s2l "em") [RStr (s2l "a b")]]) (s2l "a b")
  /\ split_c (RText [RTag (s2l "em") [RHRef (s2l "u") true [RStr (s2l "a b")]]]) SepNone None
     = Ok [RText [RTag (s2l "em") [RHRef (s2l "u") true [RStr (s2l "a")]]]; RText [RTag (s2l "em") [RHRef (s2l "u") true [RStr (s2l "b")]]]].
Proof. split; [apply cs_text; repeat constructor|split; [repeat constructor|vm_compute; reflexivity]]. Qed.
Example split_spec_example :
  split_c (RTag (s2l "em") [RStr (s2l " a  b c ")]) SepNone None
  = Ok [RTag (s2l "em") [RStr (s2l "a")]; RTag (s2l "em") [RStr (s2l "b")]; RTag (s2l "em") [RStr (s2l "c")]].
Proof. vm_compute. reflexivity. Qed.
Example history_split_example :
  covered (EAddPeriod (ESplitNth (EText [EStr (s2l "a b"); ETag (s2l "em") [EStr (s2l "c d")]]) SepNone None 1) (s2l ".")) = true
  /\ eval_c (EAddPeriod (ESplitNth (EText [EStr (s2l "a b"); ETag (s2l "em") [EStr (s2l "c d")]]) SepNone None 1) (s2l "."))
     = Ok (RText [RStr (s2l "b"); RTag (s2l "em") [RStr (s2l "c")]; RStr (s2l ".")]).
Proof. vm_compute. split; reflexivity. Qed.
(* Text('a b', Tag('em', 'c d')).split(): the seam b|c is not at a separator; 'b' and 'c' are glued *)
Example two_parts_example :
  last (re_split_ws (s2l "a b") [] false) [] <> [] /\ hd [] (re_split_ws (s2l "c d") [] false) <> []
  /\ split_c (RText [RStr (s2l "a b"); RTag (s2l "em") [RStr (s2l "c d")]]) SepNone None
     = Ok [RText [RStr (s2l "a")]; RText [RStr (s2l "b"); RTag (s2l "em") [RStr (s2l "c")]]; RText [RTag (s2l "em") [RStr (s2l "d")]]].
Proof. split; [vm_compute; discriminate|split; [vm_compute; discriminate|vm_compute; reflexivity]]. Qed.
