(* Props/C04.v -- personal names are split into first / von / last / jr parts as BibTeX does.
   Only statements, each closed by `exact <lemma>`, its assumptions printed, and Examples showing
   the hypotheses are met by non-trivial values.
   person_of_string s = Person(s); person_init = Person(s, first, middle, prelast, last, lineage);
   split_tex_comma / split_tex_space = split_tex_string(x, ',') / split_tex_string(x)   (Model/BibtexStr.v);
   is_von_name = the local function of Person._parse_string;  jr_part, first_part, token_case,
   spec_is_von: Spec/Names.v. *)
From Pybtex Require Import Base.Prelude Base.PyChar Base.PyStr Model.BibtexStr Model.Names Spec.Names
  Proofs.NamesSplit Proofs.Names Proofs.NamesCase.

(* parsing never raises a foreign exception and never diverges, for EVERY string and every
   explicit part argument (the only error left is BibTeXError 'too many nested braces') *)
Theorem parse_name_total : forall s first middle prelast last_ lineage,
  person_init s first middle prelast last_ lineage <> Crash /\
  person_init s first middle prelast last_ lineage <> OutOfFuel.
Proof. exact parse_name_total_pf. Qed.
Print Assumptions parse_name_total.

(* no token is lost, duplicated or reordered: with [parts] the comma parts of the stripped string,
   - no comma:  first ++ middle ++ von ++ last is exactly the token list of the string, jr is empty;
   - commas:    von ++ last = tokens of part 1, jr = tokens of part 2 (if there are three parts),
                first ++ middle = tokens of the last part (of parts 3.. re-joined when there are more),
                and "too many commas" is reported iff there are more than three parts *)
Theorem tokens_preserved : forall s parts p rep,
  split_tex_comma (strip s) = Ok parts -> person_of_string s = Ok (p, rep) ->
  (length parts <= 1 ->
     exists ts, split_tex_space (strip s) = Ok ts /\
       ts = p_first p ++ p_middle p ++ p_prelast p ++ p_last p /\ p_lineage p = [] /\ rep = false) /\
  (2 <= length parts ->
     exists ta tj tf, split_tex_space (nth 0 parts []) = Ok ta /\ split_tex_space (jr_part parts) = Ok tj /\
       split_tex_space (first_part parts) = Ok tf /\
       ta = p_prelast p ++ p_last p /\ tj = p_lineage p /\ tf = p_first p ++ p_middle p /\
       rep = Nat.ltb 3 (length parts)).
Proof. exact tokens_preserved_pf. Qed.
Print Assumptions tokens_preserved.

(* First von Last: no token before the von part is a von token; the von part, if any, starts and
   ends with a von token; no token of the last name except possibly its final one is a von token
   (so the von part is the longest run delimited by von tokens that leaves a last name); without
   a von part the last name is a single token; first is the first token of first ++ middle *)
Theorem von_is_longest_run : forall s x p rep,
  split_tex_comma (strip s) = Ok [x] -> person_of_string s = Ok (p, rep) ->
  Forall (fun t => is_von_name t = Ok false) (p_first p ++ p_middle p) /\
  Forall (fun t => is_von_name t = Ok false) (removelast (p_last p)) /\
  (p_prelast p = [] \/
   (is_von_name (hd [] (p_prelast p)) = Ok true /\ is_von_name (last (p_prelast p) []) = Ok true)) /\
  (p_prelast p = [] -> length (p_last p) <= 1) /\
  p_first p = firstn 1 (p_first p ++ p_middle p).
Proof. exact von_is_longest_run_pf. Qed.
Print Assumptions von_is_longest_run.

(* von Last, First / von Last, Jr, First: the von part is the prefix of part 1 that ends with its
   last von token that is not the last token *)
Theorem von_is_longest_run_comma : forall s parts p rep,
  split_tex_comma (strip s) = Ok parts -> 2 <= length parts -> person_of_string s = Ok (p, rep) ->
  Forall (fun t => is_von_name t = Ok false) (removelast (p_last p)) /\
  (p_prelast p = [] \/ is_von_name (last (p_prelast p) []) = Ok true) /\
  p_first p = firstn 1 (p_first p ++ p_middle p).
Proof. exact von_is_longest_run_comma_pf. Qed.
Print Assumptions von_is_longest_run_comma.

(* a last name is always left: if the von-Last part of the name has a token, last is not empty *)
Theorem last_nonempty : forall s parts p rep ts,
  split_tex_comma (strip s) = Ok parts -> person_of_string s = Ok (p, rep) ->
  split_tex_space (if Nat.leb (length parts) 1 then strip s else nth 0 parts []) = Ok ts ->
  ts <> [] -> p_last p <> [].
Proof. exact last_nonempty_pf. Qed.
Print Assumptions last_nonempty.

(* non-vacuity *)
Example ex_form0 :
  split_tex_comma (strip (s2l "Jean de la Fontaine du Bois Joli")) = Ok [s2l "Jean de la Fontaine du Bois Joli"] /\
  person_of_string (s2l "Jean de la Fontaine du Bois Joli") =
    Ok (mkPerson [s2l "Jean"] [] [s2l "de"; s2l "la"; s2l "Fontaine"; s2l "du"] [s2l "Bois"; s2l "Joli"] [], false).
Proof. vm_compute. auto. Qed.
Example ex_form2 :
  split_tex_comma (strip (s2l "de la Fontaine, Jr., Jean {\'E}. ")) = Ok [s2l "de la Fontaine"; s2l "Jr."; s2l "Jean {\'E}."] /\
  person_of_string (s2l "de la Fontaine, Jr., Jean {\'E}. ") =
    Ok (mkPerson [s2l "Jean"] [s2l "{\'E}."] [s2l "de"; s2l "la"] [s2l "Fontaine"] [s2l "Jr."], false).
Proof. vm_compute. auto. Qed.
Example ex_too_many :
  person_of_string (s2l "a, b, c, d") = Ok (mkPerson [s2l "c"] [s2l "d"] [] [s2l "a"] [s2l "b"], true).
Proof. vm_compute. auto. Qed.
Example ex_no_tokens : person_of_string (s2l "~") = Ok (empty_person, false).
Proof. vm_compute. auto. Qed.

(* each token's case is decided by its first brace-level-0 letter or special character
   (Spec/Names.v token_case) -- REFUTED for the code as it is: a backslash at brace level 1 that does
   not open a special character decides "not von" at once (finding FC04a) ... *)
Theorem token_case_rule_refuted : exists tok, is_von_name tok = Ok false /\ spec_is_von tok = true.
Proof. exact token_case_rule_refuted_pf. Qed.
Print Assumptions token_case_rule_refuted.

(* ... and true for every token without such a backslash before the deciding character.
   Full statement (false, see above):  forall tok b, is_von_name tok = Ok b -> b = spec_is_von tok *)
Theorem token_case_rule_partial : forall tok b, no_stray_backslash tok 0 = true ->
  is_von_name tok = Ok b -> b = spec_is_von tok.
Proof. exact token_case_rule_partial_pf. Qed.
Print Assumptions token_case_rule_partial.

Example ex_case_special_lower : no_stray_backslash (s2l "{\'e}X") 0 = true /\ is_von_name (s2l "{\'e}X") = Ok true.
Proof. vm_compute. auto. Qed.
Example ex_case_special_upper : no_stray_backslash (s2l "{\'E}x") 0 = true /\ is_von_name (s2l "{\'E}x") = Ok false.
Proof. vm_compute. auto. Qed.
Example ex_case_braced_then_lower : no_stray_backslash (s2l "{A}b") 0 = true /\ is_von_name (s2l "{A}b") = Ok true.
Proof. vm_compute. auto. Qed.
Example ex_case_refuted : no_stray_backslash (s2l "{a\b}c") 0 = false.
Proof. vm_compute. auto. Qed.
