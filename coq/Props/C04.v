(* Props/C04.v -- personal names are split into first / von / last / jr parts as BibTeX does.
   Only statements, each closed by `exact <lemma>`, its assumptions printed, and Examples showing
   the hypotheses are met by non-trivial values.
   person_of_string s = Person(s); person_init = Person(s, first, middle, prelast, last, lineage);
   split_tex_comma / split_tex_space = split_tex_string(x, ',') / split_tex_string(x)   (Model/BibtexStr.v);
   is_von_name = the local function of Person._parse_string;  jr_part, first_part, token_case,
   spec_is_von: Spec/Names.v. *)
From Pybtex Require Import Base.Prelude Base.PyChar Base.PyStr Model.BibtexStr Model.Names Spec.Names
  Proofs.NamesSplit Proofs.Names Proofs.NamesCase Proofs.NamesAtomic Proofs.NamesOk Proofs.NamesUnique Proofs.NamesLevel0 Proofs.NamesTok Proofs.NamesComma.

(* parsing never raises a foreign exception and never diverges, for EVERY string and every
   explicit part argument (the only error left is BibTeXError 'too many nested braces') *)
Theorem parse_name_total : forall s first middle prelast last_ lineage,
  person_init s first middle prelast last_ lineage <> Crash /\
  person_init s first middle prelast last_ lineage <> OutOfFuel.
Proof. exact parse_name_total_pf. Qed.
Print Assumptions parse_name_total.

(* parsing SUCCEEDS for every string with at most 100 opening braces (the recursion guard
   max_level = 100 of BibTeXString cannot fire) ... *)
Theorem parse_name_ok : forall s, length (filter is_lbrace s) <= 100 ->
  exists p rep, person_of_string s = Ok (p, rep).
Proof. exact parse_name_ok_pf. Qed.
Print Assumptions parse_name_ok.

(* ... and beyond that the guard can fire: Person() raises BibTeXError (a pybtex error), e.g. for
   "x {{{...101...{ y" -- so "parsing succeeds for every string" holds only up to that depth *)
Theorem parse_name_guard : exists s line, person_of_string s = PyErr E_BIBTEX line.
Proof. exact parse_name_guard_pf. Qed.
Print Assumptions parse_name_guard.

(* no token is lost, duplicated or reordered: with [parts] the comma parts of the stripped string,
   - no comma:  first ++ middle ++ von ++ last is exactly the token list of the string, jr is empty;
   - commas:    von ++ last = tokens of part 1, jr = tokens of part 2 (if there are three parts),
                first ++ middle = tokens of the last part (of parts 3.. re-joined when there are more),
                and "too many commas" is reported iff there are more than three parts *)
Theorem tokens_preserved : forall s parts p rep,
  split_tex_comma (strip s) = Ok parts -> person_of_string s = Ok (p, rep) ->
  (length parts <= 1 ->
     exists ts, split_tex_space (strip s) = Ok ts /\
       ts = p_first p ++ p_middle p ++ p_prelast p ++ p_last p /\ p_lineage p = [] /\ rep = false) /\
  (2 <= length parts ->
     exists ta tj tf, split_tex_space (nth 0 parts []) = Ok ta /\ split_tex_space (jr_part parts) = Ok tj /\
       split_tex_space (first_part parts) = Ok tf /\
       ta = p_prelast p ++ p_last p /\ tj = p_lineage p /\ tf = p_first p ++ p_middle p /\
       rep = Nat.ltb 3 (length parts)).
Proof. exact tokens_preserved_pf. Qed.
Print Assumptions tokens_preserved.

(* First von Last: no token before the von part is a von token; the von part, if any, starts and
   ends with a von token; no token of the last name except possibly its final one is a von token
   (so the von part is the longest run delimited by von tokens that leaves a last name); without
   a von part the last name is a single token; first is the first token of first ++ middle *)
Theorem von_is_longest_run : forall s x p rep,
  split_tex_comma (strip s) = Ok [x] -> person_of_string s = Ok (p, rep) ->
  Forall (fun t => is_von_name t = Ok false) (p_first p ++ p_middle p) /\
  Forall (fun t => is_von_name t = Ok false) (removelast (p_last p)) /\
  (p_prelast p = [] \/
   (is_von_name (hd [] (p_prelast p)) = Ok true /\ is_von_name (last (p_prelast p) []) = Ok true)) /\
  (p_prelast p = [] -> length (p_last p) <= 1) /\
  p_first p = firstn 1 (p_first p ++ p_middle p).
Proof. exact von_is_longest_run_pf. Qed.
Print Assumptions von_is_longest_run.

(* ... and that description determines the split: ANY cut  fm ++ von ++ lst  of the token list with
   these properties is the one Person() computes -- the von part is THE longest run delimited by von
   tokens that still leaves a last name *)
Theorem von_split_unique : forall s x p rep ts fm von lst,
  split_tex_comma (strip s) = Ok [x] -> person_of_string s = Ok (p, rep) -> split_tex_space (strip s) = Ok ts ->
  ts = fm ++ von ++ lst ->
  Forall (fun t => is_von_name t = Ok false) fm ->
  (von = [] \/ ((exists y v', von = y :: v' /\ is_von_name y = Ok true) /\
               (exists v' y, von = v' ++ [y] /\ is_von_name y = Ok true))) ->
  Forall (fun t => is_von_name t = Ok false) (removelast lst) ->
  (ts <> [] -> lst <> []) -> (von = [] -> length lst <= 1) ->
  fm = p_first p ++ p_middle p /\ von = p_prelast p /\ lst = p_last p.
Proof. exact von_split_unique_pf. Qed.
Print Assumptions von_split_unique.

(* von Last, First / von Last, Jr, First: the von part is the prefix of part 1 that ends with its
   last von token that is not the last token *)
Theorem von_is_longest_run_comma : forall s parts p rep,
  split_tex_comma (strip s) = Ok parts -> 2 <= length parts -> person_of_string s = Ok (p, rep) ->
  Forall (fun t => is_von_name t = Ok false) (removelast (p_last p)) /\
  (p_prelast p = [] \/ is_von_name (last (p_prelast p) []) = Ok true) /\
  p_first p = firstn 1 (p_first p ++ p_middle p).
Proof. exact von_is_longest_run_comma_pf. Qed.
Print Assumptions von_is_longest_run_comma.

(* a last name is always left: if the von-Last part of the name has a token, last is not empty *)
Theorem last_nonempty : forall s parts p rep ts,
  split_tex_comma (strip s) = Ok parts -> person_of_string s = Ok (p, rep) ->
  split_tex_space (if Nat.leb (length parts) 1 then strip s else nth 0 parts []) = Ok ts ->
  ts <> [] -> p_last p <> [].
Proof. exact last_nonempty_pf. Qed.
Print Assumptions last_nonempty.

(* nothing but separators is dropped, at the level of characters: removing whitespace, ties,
   commas and backslashes (Spec/Names.v content) from the parts, taken in the order of the name
   form, gives the same as removing them from the name -- no character lost, duplicated or reordered *)
Theorem chars_preserved : forall s parts p rep,
  split_tex_comma (strip s) = Ok parts -> person_of_string s = Ok (p, rep) ->
  (length parts <= 1 -> content (concat (p_first p ++ p_middle p ++ p_prelast p ++ p_last p)) = content s) /\
  (2 <= length parts ->
     content (concat ((p_prelast p ++ p_last p) ++ p_lineage p ++ (p_first p ++ p_middle p))) = content s).
Proof. exact chars_preserved_pf. Qed.
Print Assumptions chars_preserved.

(* braced groups are never split: if every opened brace of the string is closed again (Spec/Names.v
   closed), the same holds of every token and of every comma part split_tex_string produces ... *)
Theorem braced_groups_atomic : forall s, closed s ->
  (forall ts, split_tex_space s = Ok ts -> Forall closed ts) /\
  (forall parts, split_tex_comma s = Ok parts -> Forall closed parts).
Proof. exact braced_groups_atomic_pf. Qed.
Print Assumptions braced_groups_atomic.

(* every brace-level-0 whitespace character splits: a token of a closed string contains no whitespace
   at brace level 0 (Spec/Names.v l0ok) *)
Theorem level0_whitespace_splits : forall s ts, closed s -> split_tex_space s = Ok ts ->
  Forall (fun t => closed t /\ l0ok t 0 = true) ts.
Proof. exact level0_whitespace_splits_pf. Qed.
Print Assumptions level0_whitespace_splits.

(* split_tex_string(s) IS the tokenizer of the property text (Spec/Names.v spec_tokens: one pass with the
   brace level; at level 0 a whitespace character, an unescaped tie and the backslash of a control
   space end the token and are dropped; nothing else splits) for every string whose braces are all closed *)
Theorem tokenizer_spec : forall s, closed s -> split_tex_space s = Ok (spec_tokens s).
Proof. exact tokenizer_spec_pf. Qed.
Print Assumptions tokenizer_spec.

(* ... and for EVERY string up to the strip() the code applies to each token: a token that ends inside a
   never-closed group keeps its inner whitespace in the specification, the code strips it at the end *)
Theorem tokenizer_spec_all : forall s, split_tex_space s = Ok (map strip (spec_tokens s)).
Proof. exact tokenizer_spec_all_pf. Qed.
Print Assumptions tokenizer_spec_all.

(* split_tex_string(s, ',') IS the list of the pieces of s between its brace-level-0 commas (Spec/Names.v
   spec_comma_pieces: every level-0 comma ends a piece, also an empty one, and nothing else does), each
   stripped -- for every non-empty string (the empty string has no parts at all) *)
Theorem comma_split_spec : forall s, s <> [] -> split_tex_comma s = Ok (map strip (spec_comma_pieces s)).
Proof. exact comma_split_spec_pf. Qed.
Print Assumptions comma_split_spec.

(* the NAME FORM is decided by the number n of brace-level-0 commas of the stripped string (empty parts count):
   0: First von Last;  1: von Last, First;  2: von Last, Jr, First;  more: reported, parts 3.. re-joined.
   [toks x] = the specification's tokens of x, stripped (= split_tex_string(x), tokenizer_spec_all) *)
Theorem name_form_by_commas : forall s p rep, strip s <> [] -> person_of_string s = Ok (p, rep) ->
  let ps := map strip (spec_comma_pieces (strip s)) in
  let n := level0_commas (strip s) in
  let toks := fun x => map strip (spec_tokens x) in
  (n = 0 -> toks (strip s) = p_first p ++ p_middle p ++ p_prelast p ++ p_last p /\ p_lineage p = [] /\ rep = false) /\
  (n = 1 -> toks (nth 0 ps []) = p_prelast p ++ p_last p /\ toks (nth 1 ps []) = p_first p ++ p_middle p /\
            p_lineage p = [] /\ rep = false) /\
  (n = 2 -> toks (nth 0 ps []) = p_prelast p ++ p_last p /\ toks (nth 1 ps []) = p_lineage p /\
            toks (nth 2 ps []) = p_first p ++ p_middle p /\ rep = false) /\
  (3 <= n -> toks (nth 0 ps []) = p_prelast p ++ p_last p /\ toks (nth 1 ps []) = p_lineage p /\
             toks (join [c_space] (skipn 2 ps)) = p_first p ++ p_middle p /\ rep = true).
Proof. exact name_form_by_commas_pf. Qed.
Print Assumptions name_form_by_commas.

(* hence the name parts are the specification's tokens, form by form *)
Theorem person_tokens_spec : forall s parts p rep, closed s ->
  split_tex_comma (strip s) = Ok parts -> person_of_string s = Ok (p, rep) ->
  (length parts <= 1 -> p_first p ++ p_middle p ++ p_prelast p ++ p_last p = spec_tokens (strip s)) /\
  (2 <= length parts ->
     p_prelast p ++ p_last p = spec_tokens (nth 0 parts []) /\ p_lineage p = spec_tokens (jr_part parts) /\
     p_first p ++ p_middle p = spec_tokens (first_part parts)).
Proof. exact person_tokens_spec_pf. Qed.
Print Assumptions person_tokens_spec.

(* ... and of every name part of the parsed person *)
Theorem person_tokens_closed : forall s p rep, closed s -> person_of_string s = Ok (p, rep) ->
  Forall closed (p_first p ++ p_middle p ++ p_prelast p ++ p_last p ++ p_lineage p).
Proof. exact person_tokens_closed_pf. Qed.
Print Assumptions person_tokens_closed.

(* non-vacuity *)
Example ex_form0 :
  split_tex_comma (strip (s2l "Jean de la Fontaine du Bois Joli")) = Ok [s2l "Jean de la Fontaine du Bois Joli"] /\
  person_of_string (s2l "Jean de la Fontaine du Bois Joli") =
    Ok (mkPerson [s2l "Jean"] [] [s2l "de"; s2l "la"; s2l "Fontaine"; s2l "du"] [s2l "Bois"; s2l "Joli"] [], false).
Proof. vm_compute. auto. Qed.
Example ex_form2 :
  split_tex_comma (strip (s2l "de la Fontaine, Jr., Jean {\'E}. ")) = Ok [s2l "de la Fontaine"; s2l "Jr."; s2l "Jean {\'E}."] /\
  person_of_string (s2l "de la Fontaine, Jr., Jean {\'E}. ") =
    Ok (mkPerson [s2l "Jean"] [s2l "{\'E}."] [s2l "de"; s2l "la"] [s2l "Fontaine"] [s2l "Jr."], false).
Proof. vm_compute. auto. Qed.
Example ex_too_many :
  person_of_string (s2l "a, b, c, d") = Ok (mkPerson [s2l "c"] [s2l "d"] [] [s2l "a"] [s2l "b"], true).
Proof. vm_compute. auto. Qed.
Example ex_no_tokens : person_of_string (s2l "~") = Ok (empty_person, false).
Proof. vm_compute. auto. Qed.

(* each token's case is decided by its first brace-level-0 letter or special character
   (Spec/Names.v token_case / spec_is_von), for every token *)
Theorem token_case_rule : forall tok b, is_von_name tok = Ok b -> b = spec_is_von tok.
Proof. exact token_case_rule_pf. Qed.
Print Assumptions token_case_rule.

(* letters and their case are the table-driven classes of Model/NamesUni.v (= Python's str.isalpha /
   isupper / islower on the covered blocks): a token whose first letter is a CASELESS letter (Hebrew,
   Arabic, CJK, Devanagari ...) is not a von token *)
Theorem caseless_first_letter_not_von : forall c t b, uni_class c = 1%N -> is_von_name (c :: t) = Ok b -> b = false.
Proof. exact caseless_first_letter_not_von_pf. Qed.
Print Assumptions caseless_first_letter_not_von.

Example ex_case_hebrew : uni_class 1489%N = 1%N /\ is_von_name [1489%N; 1503%N] = Ok false.          (* bet, final nun: "ben" *)
Proof. vm_compute. auto. Qed.
Example ex_case_greek_cyrillic : is_von_name [966%N; 959%N; 957%N] = Ok true /\ is_von_name [934%N; 959%N; 957%N] = Ok false
  /\ is_von_name [1092%N; 1086%N; 1085%N] = Ok true /\ is_von_name [1060%N; 1086%N; 1085%N] = Ok false /\ is_von_name [233%N; 120%N] = Ok true /\ is_von_name [201%N; 120%N] = Ok false.
Proof. vm_compute. repeat split; reflexivity. Qed.
Example ex_case_special_lower : is_von_name (s2l "{\'e}X") = Ok true.
Proof. vm_compute. auto. Qed.
Example ex_case_special_upper : is_von_name (s2l "{\'E}x") = Ok false.
Proof. vm_compute. auto. Qed.
Example ex_case_braced_then_lower : is_von_name (s2l "{A}b") = Ok true.
Proof. vm_compute. auto. Qed.
Example ex_case_former_FC04a : is_von_name (s2l "{a\b}c") = Ok true /\ spec_is_von (s2l "{a\b}c") = true.
Proof. vm_compute. auto. Qed.
Example ex_atomic : closed (s2l "{von der} Last, {Jr, {Sr}}, A {B C}") /\
  person_of_string (s2l "{von der} Last, {Jr, {Sr}}, A {B C}") =
    Ok (mkPerson [s2l "A"] [s2l "{B C}"] [] [s2l "{von der}"; s2l "Last"] [s2l "{Jr, {Sr}}"], false).
Proof. vm_compute. auto. Qed.
Example ex_level0 : closed (s2l "a {b c}d  e") /\ split_tex_space (s2l "a {b c}d  e") = Ok [s2l "a"; s2l "{b c}d"; s2l "e"]
  /\ l0ok (s2l "{b c}d") 0 = true /\ l0ok (s2l "b c") 0 = false.
Proof. vm_compute. auto. Qed.
Example ex_tokenizer : closed (s2l "a~b\ c  {d e}f\~g ~ h") /\
  spec_tokens (s2l "a~b\ c  {d e}f\~g ~ h") = [s2l "a"; s2l "b"; s2l "c"; s2l "{d e}f\~g"; s2l "h"].
Proof. vm_compute. auto. Qed.
(* a never-closed group swallows the rest of the string (after the fix bae0311); only strip() then differs *)
Example ex_tokenizer_unclosed : split_tex_space (s2l "x {a{b c ") = Ok [s2l "x"; s2l "{a{b c"] /\ spec_tokens (s2l "x {a{b c ") = [s2l "x"; s2l "{a{b c "].
Proof. vm_compute. auto. Qed.
(* empty parts count: "Smith," has one level-0 comma, so it is "von Last, First" with an empty First part *)
Example ex_comma_forms : spec_comma_pieces (s2l "Smith,") = [s2l "Smith"; []] /\ level0_commas (s2l "Smith,") = 1 /\
  person_of_string (s2l "Smith,") = Ok (mkPerson [] [] [] [s2l "Smith"] [], false) /\
  person_of_string (s2l ", John") = Ok (mkPerson [s2l "John"] [] [] [] [], false) /\
  spec_comma_pieces (s2l "a {b, c}, d") = [s2l "a {b, c}"; s2l " d"].
Proof. vm_compute. repeat split; reflexivity. Qed.
