(* Props/C04.v -- personal names are split into first / von / last / jr parts as BibTeX does. *)
From Pybtex Require Import Base.Prelude Base.PyChar Base.PyStr Model.BibtexStr Model.Names Proofs.Names.

Theorem empty_name : person_of_string [] = Ok (empty_person, false).
Proof. exact person_of_empty. Qed.
Print Assumptions empty_name.
