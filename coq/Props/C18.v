(* Props/C18.v -- statements only *)
From Pybtex Require Import Base.Prelude Base.PyChar Base.PyStr Model.BibtexStr Model.Names Model.Global Proofs.Global.

Theorem capture_restores : forall e, e_captured (capture_exit e) = None.
Proof. exact capture_exit_none. Qed.
Print Assumptions capture_restores.
