(* Props/C18.v -- "no state leaks between runs; results deterministic; inputs never modified".
   Only statements, each closed by `exact <lemma>`, its assumptions printed, and Examples showing
   the hypotheses are met by non-trivial values.  The model is Model/Global.v. *)
From Pybtex Require Import Base.Prelude Base.PyChar Base.PyStr Model.BibtexStr Model.Names Model.Global Proofs.Global.

(* ---- the bounded FIFO cache (pybtex.utils.memoize), for every capacity > 0 ---- *)

(* whatever function is wrapped (it may raise, report, touch other state): the cache keeps its shape
   -- keys(memory) = history, no duplicates, at most `cap` entries -- and a call is either a hit
   returning the stored value with no state change, or exactly one call of the function; the wrapper
   raises nothing of its own (`del memory[history.popleft()]` always finds its key) *)
Theorem memo_inv : forall (K V S : Type) (keqb : K -> K -> bool), (forall a b, keqb a b = true <-> a = b) ->
  forall cap (f : K -> S -> S * res V) k m s, 0 < cap -> memo_ok cap m ->
  let r := memo_call keqb cap f k (m, s) in
  memo_ok cap (fst (fst r)) /\
  ((exists v, m_lookup keqb k (memory m) = Some v /\ r = ((m, s), Ok v)) \/
   (m_lookup keqb k (memory m) = None /\ snd r = snd (f k s) /\ snd (fst r) = fst (f k s))).
Proof. intros K V S keqb Hk cap f k m s. exact (memo_call_inv keqb Hk cap f k m s). Qed.
Print Assumptions memo_inv.

(* a function whose result depends on its arguments only is memoised transparently: every run of
   calls -- any length, any number of distinct keys, in particular more than the cache holds --
   returns exactly what the function returns *)
Theorem memo_transparent : forall (K V S : Type) (keqb : K -> K -> bool), (forall a b, keqb a b = true <-> a = b) ->
  forall (g : K -> res V) cap (f : K -> S -> S * res V) ks s0,
  0 < cap -> (forall k s, snd (f k s) = g k) ->
  snd (memo_run keqb cap f ks (memo0, s0)) = map g ks /\
  memo_ok cap (fst (fst (memo_run keqb cap f ks (memo0, s0)))).
Proof. intros K V S keqb Hk g cap f ks s0. exact (memo_transparent_lemma keqb Hk g cap f ks s0). Qed.
Print Assumptions memo_transparent.

(* ---- the predefined month macros ---- *)

(* no history of calls -- readers, LowLevelParser with or without a macros argument, format.name$,
   BST runs, mode switches, failed runs, writers / Python engine / other readers (opaque) -- alters
   month_names: readers and the bare LowLevelParser copy the table, nothing else touches it *)
Theorem month_names_invariant : forall cap fmt cos,
  h_get (g_heap (final cap fmt G0 cos)) 0 = mkCell false month_names.
Proof. exact month_names_invariant_lemma. Qed.
Print Assumptions month_names_invariant.

(* ---- readers ---- *)

(* what a fresh reader returns (entries, preamble, macro table, reports) depends on the process
   state only through month_names and the reporting cells: macros, preambles and entries of other
   readers -- alive or gone -- and the name caches are invisible to it *)
Theorem readers_isolated : forall cap fmt g g' c macros files,
  h_get (g_heap g) 0 = h_get (g_heap g') 0 -> g_err g = g_err g' ->
  snd (step cap fmt g (c, OParse macros files)) = snd (step cap fmt g' (c, OParse macros files)).
Proof. exact parse_isolated_lemma. Qed.
Print Assumptions readers_isolated.

(* ... and after any history it is what the initial state gives under the same reporting cells *)
Theorem parse_history_independent : forall cap fmt cos c macros files,
  let g := final cap fmt G0 cos in
  snd (step cap fmt g (c, OParse macros files)) = snd (step cap fmt (with_err G0 (g_err g)) (c, OParse macros files)).
Proof. exact parse_history_independent_lemma. Qed.
Print Assumptions parse_history_independent.

(* in the default (strict) reporting mode nothing is left over at all: after any history that does
   not switch strict mode off (failed runs, capture() blocks, bare LowLevelParser use ... included) the three
   errors-module cells are exactly as in a fresh process *)
Theorem strict_mode_cells_untouched : forall cap fmt cos,
  Forall (fun co => keeps_strict (snd co)) cos -> g_err (final cap fmt G0 cos) = errs0.
Proof. exact run_errs0. Qed.
Print Assumptions strict_mode_cells_untouched.

(* ... hence a fresh reader returns exactly what it returns in a fresh process *)
Theorem parse_history_independent_strict : forall cap fmt cos c macros files,
  Forall (fun co => keeps_strict (snd co)) cos ->
  snd (step cap fmt (final cap fmt G0 cos) (c, OParse macros files)) = snd (step cap fmt G0 (c, OParse macros files)).
Proof. exact parse_history_independent_strict_lemma. Qed.
Print Assumptions parse_history_independent_strict.

(* ... and so does a LowLevelParser built without a macros argument (it works on a private copy) *)
Theorem lowlevel_history_independent_strict : forall cap fmt cos c file,
  Forall (fun co => keeps_strict (snd co)) cos ->
  snd (step cap fmt (final cap fmt G0 cos) (c, OLowLevel None file)) = snd (step cap fmt G0 (c, OLowLevel None file)).
Proof. exact lowlevel_history_independent_strict_lemma. Qed.
Print Assumptions lowlevel_history_independent_strict.

(* in every mode: after any history every capture() block has been left -- also by the exceptions of
   failed runs -- and normal reporting is in force *)
Theorem capture_never_leaks : forall cap fmt cos, e_captured (g_err (final cap fmt G0 cos)) = None.
Proof. intros cap fmt cos. exact (run_captured_none cap fmt cos G0 eq_refl). Qed.
Print Assumptions capture_never_leaks.

(* the keyless-entry counter (unnamed-N) is reader state that is reset at every parse: what an earlier
   parse of the same reader left in it is invisible; a fresh reader (OParse) has its own by construction,
   so parse_history_independent covers keyless readers *)
Theorem unnamed_counter_reset_per_parse : forall cell rd n file e,
  feed cell (with_counter rd n) file e = feed cell rd file e.
Proof. exact unnamed_counter_reset_lemma. Qed.
Print Assumptions unnamed_counter_reset_per_parse.

(* the files of ONE reader accumulate: parse_files (fs1 ++ fs2) is parse_files fs2 continued from
   the macro table, database and reporting state that fs1 left (and stops where fs1 raised) *)
Theorem reader_accumulates : forall fs1 fs2 cell rd e,
  feed_files cell rd (fs1 ++ fs2) e =
  let '((c1, rd1, e1), u) := feed_files cell rd fs1 e in
  match u with Ok _ => feed_files c1 rd1 fs2 e1 | PyErr c l => ((c1, rd1, e1), PyErr c l) | Crash => ((c1, rd1, e1), Crash) | OutOfFuel => ((c1, rd1, e1), OutOfFuel) end.
Proof. exact feed_files_app. Qed.
Print Assumptions reader_accumulates.

(* ---- format.name$ through the two caches ---- *)

(* FULL STATEMENT (refuted, finding F19): for every fmt, history and call, the outcome of a
   format.name$ call equals its outcome in the initial state *)
Theorem history_independence_reports_refuted :
  exists cap fmt cos c o, 0 < cap /\
    o_captured (snd (step cap fmt (final cap fmt G0 cos) (c, o))) <> o_captured (snd (step cap fmt G0 (c, o))).
Proof. exact reports_refuted_lemma. Qed.
Print Assumptions history_independence_reports_refuted.

Theorem history_independence_value_refuted :
  exists cap fmt cos c o, 0 < cap /\
    o_val (snd (step cap fmt (final cap fmt G0 cos) (c, o))) <> o_val (snd (step cap fmt G0 (c, o))).
Proof. exact value_refuted_lemma. Qed.
Print Assumptions history_independence_value_refuted.

(* when name formatting reports nothing (no name with more than two commas), the complete outcome
   of a format.name$ call -- value or exception, warnings, captured problems -- after ANY history
   (including bare LowLevelParser use, more distinct calls than the caches hold, failed runs, mode switches)
   is its outcome in a fresh process, for every cache capacity *)
Theorem format_name_history_independent_partial : forall cap fmt cos c names n format,
  0 < cap -> quiet fmt ->
  snd (step cap fmt (final cap fmt G0 cos) (c, OFormatName names n format)) =
  snd (step cap fmt G0 (c, OFormatName names n format)).
Proof. exact format_name_history_independent_lemma. Qed.
Print Assumptions format_name_history_independent_partial.

(* the same for all the format.name$ calls of a whole BibTeX-engine run (stops at the first exception) *)
Theorem bst_run_history_independent_partial : forall cap fmt cos c calls,
  0 < cap -> quiet fmt ->
  snd (step cap fmt (final cap fmt G0 cos) (c, OBstRun calls)) = snd (step cap fmt G0 (c, OBstRun calls)).
Proof. exact bst_run_history_independent_lemma. Qed.
Print Assumptions bst_run_history_independent_partial.

(* with NO assumption on the name formatter: inside errors.capture() the VALUE of a format.name$
   call after any history is its value in a fresh process -- F19 is about the reports (and about
   strict mode, where the report is the exception) only *)
Theorem format_name_value_independent_in_capture : forall cap fmt cos names n format, 0 < cap ->
  o_val (snd (step cap fmt (final cap fmt G0 cos) (true, OFormatName names n format))) =
  o_val (snd (step cap fmt G0 (true, OFormatName names n format))).
Proof. exact format_name_value_in_capture_lemma. Qed.
Print Assumptions format_name_value_independent_in_capture.

(* and, for every name formatter, both caches of every reachable state are well formed (eviction
   never raises there) and hold only values the un-memoised functions return *)
Theorem caches_well_formed : forall cap fmt cos, 0 < cap -> caches_ok cap fmt (final cap fmt G0 cos).
Proof. intros cap fmt cos Hc. exact (run_caches_ok cap fmt cos Hc G0 (caches_ok_G0 cap fmt)). Qed.
Print Assumptions caches_well_formed.

(* the model's account of the real engines (fn 3 of the correspondence): an opaque call -- Python engine, BibTeX
   engine run as a whole, writers, YAML/BibTeXML readers -- returns and leaves every cell of G untouched; so what it
   returns can only be a function of its own arguments (that the real calls behave so is TESTED: byte-identical
   output and identical reports on repetition, in-process and against a fresh interpreter) *)
Theorem opaque_call_touches_nothing : forall cap fmt g id, exec cap fmt g (OOpaque id) = (g, Ok VUnit).
Proof. exact opaque_touches_nothing_lemma. Qed.
Print Assumptions opaque_call_touches_nothing.

(* leaving errors.capture() restores normal reporting *)
Theorem capture_restores : forall e, e_captured (capture_exit e) = None.
Proof. exact capture_exit_none. Qed.
Print Assumptions capture_restores.

(* ---- non-vacuity ---- *)
Definition dflt : ropts := mkOpts None false None.
Definition keyless : ropts := mkOpts None true None.
Definition ex_m : str := Eval vm_compute in s2l "m".
Definition ex_file1 : list command := [CString ex_m [VLit [86%N]]].
Definition x_jan : str := Eval vm_compute in s2l "jan".
Definition ex_jan : list command := [CString x_jan [VLit [88%N]]].
Definition ex_file2 : list command := [CEntry [97%N] [107%N] [([110%N], [VMacro ex_m])]].

(* a history that really writes macro tables, caches and reporting cells, and uses a bare LowLevelParser
   on an @string that redefines a month *)
Example busy_history_example :
  let cos := [(false, ONewReader dflt); (true, OFeed 0 ex_file1); (false, OLowLevel (Some 0) ex_file1); (false, OLowLevel None ex_jan);
              (true, OFormatName [97%N] 1%Z []); (false, OSetStrict false); (false, OParse dflt [ex_file2])] in
  o_val (snd (step 2 no_fmt G0 (false, OLowLevel None ex_jan))) = Ok (VItems [IString x_jan [[88%N]]]) /\
  length (g_heap (final 2 no_fmt G0 cos)) = 2 /\ e_code (g_err (final 2 no_fmt G0 cos)) = 2%Z.
Proof. vm_compute. repeat split; repeat constructor. Qed.

(* accumulation within a reader, isolation between readers: the second file sees the macro of the
   first (value "V"); a second reader parsing the second file alone does not (it fails: strict mode) *)
Example accumulate_isolate_example :
  (exists d, o_val (snd (step 2 no_fmt G0 (false, OParse dflt [ex_file1; ex_file2]))) = Ok (VData d) /\
             exists en, fst (fst d) = [([107%N], en)] /\ en_fields en = [([110%N], [86%N])]) /\
  o_val (snd (step 2 no_fmt (final 2 no_fmt G0 [(false, OParse dflt [ex_file1])]) (false, OParse dflt [ex_file2]))) = PyErr E_UNDEF (-1)%Z.
Proof. vm_compute. split; [eexists; split; [reflexivity|eexists; split; reflexivity]|reflexivity]. Qed.

(* the capture-mode value theorem on the F19 witness: same value, different reports *)
Example f19_value_same_reports_differ :
  let after := snd (step 1024 noisy_fmt (final 1024 noisy_fmt G0 [(true, probe_name)]) (true, probe_name)) in
  let fresh := snd (step 1024 noisy_fmt G0 (true, probe_name)) in
  o_val after = o_val fresh /\ o_val fresh = Ok (VStr [97%N]) /\ o_captured after = Some [] /\ o_captured fresh = Some [(E_NAME, [97%N])].
Proof. vm_compute. auto. Qed.

(* a history meeting keeps_strict that contains a failed run, a failed run inside
   capture(), cache traffic and a live reader; the probe after it is a failing parse *)
Example strict_history_example :
  let cos := [(false, OParse dflt [ex_file2]); (true, OParse dflt [ex_file2; ex_file1]); (false, ONewReader dflt);
              (true, OFeed 0 ex_file1); (false, OLowLevel None ex_jan); (false, OOpaque 3); (false, OFormatName [97%N] 3%Z []); (false, OSetStrict true)] in
  Forall (fun co => keeps_strict (snd co)) cos /\
  o_val (snd (step 2 no_fmt G0 (false, OParse dflt [ex_file2]))) = PyErr E_UNDEF (-1)%Z /\
  o_captured (snd (step 2 no_fmt G0 (true, OParse dflt [ex_file2; ex_file1]))) = Some [(E_UNDEF, ex_m)].
Proof. vm_compute. repeat split; repeat constructor. Qed.

(* keyless readers: after two keyless parses (one of them failing after its first entry) an independent
   keyless reader still names its entries unnamed-1, unnamed-2; the second file of ONE reader restarts
   at unnamed-1 and is reported as a repeated entry *)
Definition ex_kl : list command := [CEntry [97%N] [] [([110%N], [VLit [120%N]])]; CEntry [98%N] [] []].
Definition ex_kl_bad : list command := [CEntry [97%N] [] []; CEntry [98%N] [] [([110%N], [VMacro ex_m])]].
Example keyless_example :
  let probe := (false, OParse keyless [ex_kl]) in
  (exists d, o_val (snd (step 2 no_fmt (final 2 no_fmt G0 [probe; (false, OParse keyless [ex_kl_bad]); (true, OParse keyless [ex_kl; ex_kl])]) probe)) = Ok (VData d) /\
             map fst (fst (fst d)) = [s_unnamed ++ [49%N]; s_unnamed ++ [50%N]]) /\
  o_val (snd (step 2 no_fmt G0 (false, OParse keyless [ex_kl_bad]))) = PyErr E_UNDEF (-1)%Z /\
  o_captured (snd (step 2 no_fmt G0 (true, OParse keyless [ex_kl; ex_kl]))) = Some [(E_REPEATED, s_unnamed ++ [49%N]); (E_REPEATED, s_unnamed ++ [50%N])].
Proof. vm_compute. split; [eexists; split; reflexivity|split; reflexivity]. Qed.

Example quiet_example : quiet no_fmt /\ ~ quiet noisy_fmt.
Proof. split; [intros n f; reflexivity | intro H; specialize (H [] []); discriminate]. Qed.

(* more distinct keys than the cache holds: capacity 2, five distinct keys, repeated *)
Example beyond_capacity_example :
  snd (memo_run N.eqb 2 (fun k (s : nat) => (S s, Ok (k * k)%N)) [1;2;3;4;5;1;2;3;4;5]%N (memo0, 0)) =
  map (fun k => Ok (k * k)%N) [1;2;3;4;5;1;2;3;4;5]%N /\
  snd (fst (memo_run N.eqb 2 (fun k (s : nat) => (S s, Ok (k * k)%N)) [1;2;3;4;5;1;2;3;4;5]%N (memo0, 0))) = 10.
Proof. vm_compute. auto. Qed.
