From Pybtex Require Import Base.Prelude Base.PyChar Base.PyStr Model.Aux Proofs.Aux.

Theorem placeholder : forall fs m f, parse_aux 0 fs m f = NoFuel.
Proof. exact parse_aux_no_crash_placeholder. Qed.
Print Assumptions placeholder.
