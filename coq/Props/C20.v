(* Props/C20.v -- ".aux files are read faithfully: citations, style, data, nested inputs".
   Only statements, each closed by `exact <lemma>`, its assumptions printed, and Examples
   showing the hypotheses are met by non-trivial values.

   Vocabulary (Spec/Aux.v): `doc_visits fuel fs top` is the document flattened -- \@input files
   read in place -- into its \citation / \bibstyle / \bibdata lines, each with its file, line
   number and text; `doc_status` says whether flattening reached the end (Complete), an input
   that cannot be opened (Missing), or the nesting bound (Deep).  `parse_aux fuel fs m top` is
   the model of pybtex.auxfile.parse_file(top) with errors.report_error in mode m. *)
From Pybtex Require Import Base.Prelude Base.PyChar Base.PyStr Model.Aux Spec.Aux Proofs.Aux Proofs.AuxLex.

(* the citations are exactly the keys of the \citation lines, in reading order, comma lists
   expanded, repeats kept, every other line ignored, inputs read in place *)
Theorem citations_spec : forall fuel fs m top a,
  parse_aux fuel fs m top = Ret a -> a_cits a = citation_keys (doc_visits fuel fs top).
Proof. exact citations_spec_l. Qed.
Print Assumptions citations_spec.

(* a document is read to the end only if all its inputs could be read *)
Theorem read_is_complete : forall fuel fs m top a,
  parse_aux fuel fs m top = Ret a -> doc_status fuel fs top = Complete.
Proof. exact complete_when_read_l. Qed.
Print Assumptions read_is_complete.

(* the style is that of the first \bibstyle line *)
Theorem style_is_first : forall fuel fs m top a,
  parse_aux fuel fs m top = Ret a ->
  exists v, find (is_cmd CBibstyle) (doc_visits fuel fs top) = Some v /\ a_style a = Some (v_val v).
Proof. exact style_is_first_l. Qed.
Print Assumptions style_is_first.

(* the data is the comma-separated list of the first \bibdata line *)
Theorem data_is_first_split : forall fuel fs m top a,
  parse_aux fuel fs m top = Ret a ->
  exists v, find (is_cmd CBibdata) (doc_visits fuel fs top) = Some v /\
            a_data a = Some (split_on [c_comma] (v_val v)).
Proof. exact data_is_first_split_l. Qed.
Print Assumptions data_is_first_split.

(* when reporting does not raise (capture / non-strict), the errors reported are exactly
   `reports`, in order, each carrying the file, line number and line text of the line that
   caused it -- also when the document then ends in a fatal error *)
Theorem reported_errors_spec : forall fuel fs m top,
  m <> Strict ->
  match parse_aux fuel fs m top with
  | Ret a | Raise _ a => a_errs a = reports false false [] (doc_visits fuel fs top)
  | _ => True
  end.
Proof. exact errors_spec_l. Qed.
Print Assumptions reported_errors_spec.

(* by kind: every \bibstyle after the first and every \bibdata after the first yields exactly
   one error located at that command (second_command_reported; the locations come from the
   flattened document, so they are right after returning from a nested file, too); a key is
   reported, with both spellings and the location of the later one, exactly when the most recent
   earlier citation of the same key (compared lower-cased) spells it differently
   (case_mismatch_reported); nothing else is reported *)
Theorem errors_by_kind : forall fuel fs m top,
  m <> Strict ->
  match parse_aux fuel fs m top with
  | Ret a | Raise _ a =>
    let vs := doc_visits fuel fs top in
    filter is_kind_style (a_errs a) = map (err_at EStyle) (tl (filter (is_cmd CBibstyle) vs)) /\
    filter is_kind_data (a_errs a) = map (err_at EData) (tl (filter (is_cmd CBibdata) vs)) /\
    filter is_kind_mismatch (a_errs a) = mismatches [] (occurrences vs) /\
    forallb (fun e => is_kind_mismatch e || is_kind_style e || is_kind_data e) (a_errs a) = true
  | _ => True
  end.
Proof. exact errors_by_kind_l. Qed.
Print Assumptions errors_by_kind.

(* the parser's context object is the caller's again after a nested file has been read *)
Theorem context_restored : forall fuel fs m name st c st',
  a_ctx st = Some c -> parse_file fuel fs m name false st = Ret st' -> a_ctx st' = Some c.
Proof. exact context_restored_l. Qed.
Print Assumptions context_restored.

(* a document without \bibdata, or without \bibstyle, is a pybtex error in every mode; unless an
   earlier report was raised (strict mode) it is the fatal error located at the top file *)
Theorem missing_is_fatal : forall fuel fs m top,
  doc_status fuel fs top = Complete ->
  find (is_cmd CBibdata) (doc_visits fuel fs top) = None \/
  find (is_cmd CBibstyle) (doc_visits fuel fs top) = None ->
  exists e a, parse_aux fuel fs m top = Raise e a /\
    (m <> Strict ->
     (find (is_cmd CBibdata) (doc_visits fuel fs top) = None -> e = fatal ENoData top) /\
     (find (is_cmd CBibdata) (doc_visits fuel fs top) <> None -> e = fatal ENoStyle top)).
Proof. exact missing_is_fatal_l. Qed.
Print Assumptions missing_is_fatal.

(* strict mode raises exactly the first error the other modes would report ... *)
Theorem strict_raises_first : forall fuel fs top e rest,
  reports false false [] (doc_visits fuel fs top) = e :: rest ->
  exists a, parse_aux fuel fs Strict top = Raise e a.
Proof. exact strict_raises_first_l. Qed.
Print Assumptions strict_raises_first.

(* ... and reads like them when there is nothing to report *)
Theorem strict_agrees : forall fuel fs m top,
  reports false false [] (doc_visits fuel fs top) = [] ->
  same_reading (parse_aux fuel fs Strict top) (parse_aux fuel fs m top).
Proof. exact strict_agrees_r. Qed.
Print Assumptions strict_agrees.

(* non-strict mode (reports printed as warnings) reads exactly like capture mode (reports collected) *)
Theorem lenient_is_capture : forall fuel fs top,
  parse_aux fuel fs Lenient top = parse_aux fuel fs Capture top.
Proof. exact lenient_is_capture_l. Qed.
Print Assumptions lenient_is_capture.

(* error_location_stable: an error, once reported, is never touched again -- reading on only
   appends to the list of reported errors (each error holds its own copy of the context, so its
   file and line are those of the moment it was reported, whenever it is rendered) *)
Theorem error_location_stable : forall fs m fuel name top st,
  match parse_file fuel fs m name top st with
  | Ret st' | Raise _ st' => exists new, a_errs st' = a_errs st ++ new
  | _ => True
  end.
Proof. exact grows_parse_file. Qed.
Print Assumptions error_location_stable.

(* reading never ends in a foreign exception (the model's Crash): only a result, a pybtex
   error, or -- for inputs nested beyond the bound -- exhaustion *)
Theorem never_crashes : forall fuel fs m top, parse_aux fuel fs m top <> CrashO.
Proof. exact never_crashes_l. Qed.
Print Assumptions never_crashes.

(* which lines are command lines: command_re.match(line) succeeds exactly on a backslash, one
   of the four command names, an opening brace, a value without line feed, and a closing brace
   that is the last one before the end of the line; everything after it is ignored *)
Theorem match_command_spec : forall line c v,
  match_command line = Some (c, v) <->
  exists rest, line = c_bslash :: cmd_text c ++ c_lbrace :: v ++ c_rbrace :: rest /\
               ~ In c_nl v /\ ~ In c_rbrace (upto_nl rest).
Proof. exact match_command_spec_l. Qed.
Print Assumptions match_command_spec.

(* the lines of a file, glued back, are its content with \r\n and \r read as \n; every line is
   non-empty, free of \r, has no \n except as its last character, and ends in \n unless it is the last *)
Theorem lines_of_concat : forall s, concat (lines_of s) = translate_nl s false.
Proof. exact lines_of_concat_l. Qed.
Print Assumptions lines_of_concat.
Theorem lines_of_shape : forall s pre l post,
  lines_of s = pre ++ l :: post ->
  l <> [] /\ ~ In 13%N l /\ ~ In 10%N (removelast l) /\ (post <> [] -> exists b, l = b ++ [10%N]).
Proof. exact lines_of_shape_l. Qed.
Print Assumptions lines_of_shape.

(* nesting fuel beyond what the document needs changes nothing *)
Theorem fuel_irrelevant : forall fuel fs m top,
  doc_status fuel fs top <> Deep ->
  forall k, doc_visits (k + fuel) fs top = doc_visits fuel fs top /\
            doc_status (k + fuel) fs top = doc_status fuel fs top /\
            same_reading (parse_aux (k + fuel) fs m top) (parse_aux fuel fs m top).
Proof. exact fuel_irrelevant_l. Qed.
Print Assumptions fuel_irrelevant.

(* the flattened document consists of real lines: every visit names an existing file and the
   number of a line in it that is a \citation / \bibstyle / \bibdata line with that value *)
Theorem visits_stand : forall fuel fs top v, In v (doc_visits fuel fs top) -> stands_in fs v.
Proof. exact visits_stand_top. Qed.
Print Assumptions visits_stand.

(* hence every reported error names the file and the line of a command line of the document *)
Theorem reported_errors_located : forall fuel fs m top,
  m <> Strict ->
  match parse_aux fuel fs m top with
  | Ret a | Raise _ a =>
    forall e, In e (a_errs a) ->
    exists v, In v (doc_visits fuel fs top) /\ e_ctx e = Some (ctx_of v) /\ stands_in fs v
  | _ => True
  end.
Proof. exact reported_errors_located_l. Qed.
Print Assumptions reported_errors_located.

(* Engine.make_bibliography hands on what was read: the \bibdata names with the format's suffix,
   the \bibstyle unless a style is given, the citations *)
Theorem make_bibliography_spec : forall fuel fs top a style_arg suffix,
  parse_aux fuel fs Strict top = Ret a ->
  exists vd vs b,
    find (is_cmd CBibdata) (doc_visits fuel fs top) = Some vd /\
    find (is_cmd CBibstyle) (doc_visits fuel fs top) = Some vs /\
    make_bibliography_args style_arg suffix a = Ret b /\
    b_files b = map (fun f => f ++ suffix) (split_on [c_comma] (v_val vd)) /\
    b_style b = Some (match style_arg with Some s => s | None => v_val vs end) /\
    b_citations b = citation_keys (doc_visits fuel fs top).
Proof. exact make_bibliography_spec_l. Qed.
Print Assumptions make_bibliography_spec.

(* when no file (transitively) inputs itself -- some rank decreases along \@input -- fuel above the
   rank of the top file is never exhausted, so with fuel_irrelevant the reading is that of the document *)
Theorem enough_fuel : forall fs (rank : str -> nat),
  (forall name content l g, fs name = Some content -> In l (lines_of content) ->
                            match_command l = Some (CInput, g) -> rank g < rank name) ->
  forall fuel top, rank top < fuel -> doc_status fuel fs top <> Deep.
Proof. exact enough_fuel_l. Qed.
Print Assumptions enough_fuel.

(* how the flattening treats the lines of a file (numbered from 1): an \@input line is replaced,
   in place, by the flattening of the named file (and nothing after it is read if that file cannot
   be read completely); a line command_re does not recognise contributes nothing; a \citation /
   \bibstyle / \bibdata line contributes one visit carrying its file and line number *)
Theorem inputs_read_in_place : forall f fs name content pre l post g,
  fs name = Some content -> lines_of content = pre ++ l :: post ->
  match_command l = Some (CInput, g) ->
  expand (S f) fs name =
  seq_doc (expand_lines (expand f fs) name pre 1)
    (seq_doc (expand f fs g) (expand_lines (expand f fs) name post (S (length pre + 1)))).
Proof. exact inputs_read_in_place_l. Qed.
Print Assumptions inputs_read_in_place.
Theorem other_lines_ignored : forall f fs name content pre l post,
  fs name = Some content -> lines_of content = pre ++ l :: post ->
  match_command l = None ->
  expand (S f) fs name =
  seq_doc (expand_lines (expand f fs) name pre 1) (expand_lines (expand f fs) name post (S (length pre + 1))).
Proof. exact other_lines_ignored_l. Qed.
Print Assumptions other_lines_ignored.
Theorem command_line_visited : forall f fs name content pre l post c v,
  fs name = Some content -> lines_of content = pre ++ l :: post ->
  match_command l = Some (c, v) -> c <> CInput ->
  expand (S f) fs name =
  seq_doc (expand_lines (expand f fs) name pre 1)
    (seq_doc ([mkvisit name (length pre + 1) (strip l) c v], Complete)
             (expand_lines (expand f fs) name post (S (length pre + 1)))).
Proof. exact command_line_visited_l. Qed.
Print Assumptions command_line_visited.

(* ---- non-vacuity: a document with a nested file, a second \bibstyle and \bibdata after the
   return from it, and a key cited in two spellings across the file boundary *)
Example ex_read :
  exists a, parse_aux 5 ex_fs Capture (s2l "a.aux") = Ret a /\
    a_cits a = [s2l "k"; s2l "K"; s2l "k"; s2l "*"] /\
    a_style a = Some (s2l "s") /\ a_data a = Some [s2l "x"; s2l "y"] /\
    a_errs a = [ mkerr (EMismatch (s2l "K") (s2l "k")) (at_ "a.aux" 2 "\citation{k,K}");
                 mkerr (EMismatch (s2l "k") (s2l "K")) (at_ "b.aux" 3 "\citation{k}");
                 mkerr EStyle (at_ "a.aux" 4 "\bibstyle{t}");
                 mkerr EData (at_ "a.aux" 5 "\bibdata{d,e}") ] /\
    doc_status 5 ex_fs (s2l "a.aux") = Complete /\
    length (doc_visits 5 ex_fs (s2l "a.aux")) = 7.
Proof. eexists. vm_compute. repeat split. Qed.

Example ex_strict :
  exists a, parse_aux 5 ex_fs Strict (s2l "a.aux")
            = Raise (mkerr (EMismatch (s2l "K") (s2l "k")) (at_ "a.aux" 2 "\citation{k,K}")) a.
Proof. eexists. vm_compute. reflexivity. Qed.

Example ex_fatal :
  let fs := fs_of [(s2l "t.aux", concat [ln "\citation{a}"; ln "\bibstyle{s}"])] in
  doc_status 3 fs (s2l "t.aux") = Complete /\
  find (is_cmd CBibdata) (doc_visits 3 fs (s2l "t.aux")) = None /\
  exists a, parse_aux 3 fs Lenient (s2l "t.aux") = Raise (fatal ENoData (s2l "t.aux")) a.
Proof. vm_compute. repeat split. eexists. reflexivity. Qed.

Example ex_nothing_to_report :
  let fs := fs_of [(s2l "t.aux", concat [ln "\citation{a}"; ln "\bibstyle{s}"; ln "\bibdata{d}"; ln "\citation{a}"])] in
  reports false false [] (doc_visits 3 fs (s2l "t.aux")) = [] /\
  exists a, parse_aux 3 fs Strict (s2l "t.aux") = Ret a /\ a_cits a = [s2l "a"; s2l "a"].
Proof. vm_compute. split; [reflexivity|]. eexists. split; reflexivity. Qed.

Example ex_match :
  match_command (s2l "\citation{a}b}c{" ++ [c_nl]) = Some (CCitation, s2l "a}b") /\
  match_command (s2l " \citation{a}") = None /\ match_command (s2l "\@input{x.aux}") = Some (CInput, s2l "x.aux").
Proof. vm_compute. auto. Qed.
Example ex_lines :
  lines_of (s2l "a" ++ [13; 10] ++ s2l "b" ++ [13] ++ [10] ++ s2l "c")%N = [s2l "a" ++ [10]; s2l "b" ++ [10]; s2l "c"]%N.
Proof. vm_compute. reflexivity. Qed.

Example ex_enough_fuel :
  let rank := fun n : str => if str_eqb n (s2l "a.aux") then 1 else 0 in
  rank (s2l "a.aux") < 5 /\ doc_status 5 ex_fs (s2l "a.aux") = Complete /\
  doc_status 1 ex_fs (s2l "a.aux") = Deep /\
  doc_status 9 (fs_of [(s2l "a.aux", ln "\@input{a.aux}")]) (s2l "a.aux") = Deep.
Proof. vm_compute. repeat split; lia. Qed.
