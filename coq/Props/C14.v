(* Props/C14.v -- "Cross-referenced fields are inherited, own fields win, lookup always terminates".
   Only statements, each closed by `exact <lemma>`, its assumptions printed, and Examples. *)
From Pybtex Require Import Base.Prelude Base.PyChar Base.PyStr Model.Crossref Proofs.Crossref.

(* a field the entry defines itself always wins: whatever the graph, the visited set, bib_data *)
Theorem own_field_wins : forall n bd e f vis v,
  ci_get (e_fields e) f = Some v -> find_field (S n) bd e f vis = Ok (Some v).
Proof. exact own_field_wins_l. Qed.
Print Assumptions own_field_wins.
