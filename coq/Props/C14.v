(* Props/C14.v -- "Cross-referenced fields are inherited, own fields win, lookup always terminates".
   Only statements, each closed by `exact <lemma>`, its assumptions printed, and Examples.
   Model: Model/Crossref.v (Entry._find_field & co., interpreter Field/Crossref, template field(),
   format_bibliography); Spec/Crossref.v (defines / parent / ancestor / chain_find / ids_wf). *)
From Pybtex Require Import Base.Prelude Base.PyChar Base.PyStr Model.Crossref Spec.Crossref Proofs.Crossref.

(* Lookup terminates for EVERY cross-reference graph -- self loops, cycles, dangling targets,
   aliased objects, a start entry outside the database, with or without bib_data: the call
   entry._find_field(name, bib_data) returns a value or "missing" (Ok None = KeyError), never
   a foreign exception (RecursionError) and never runs out of the model's fuel. *)
Theorem find_terminates : forall bd e f, exists v, entry_find_field bd e f = Ok v.
Proof. exact find_terminates_l. Qed.
Print Assumptions find_terminates.

(* a field the entry defines itself always wins: whatever the graph, bib_data, the visited set *)
Theorem own_field_wins : forall n bd e f vis v,
  ci_get (e_fields e) f = Some v -> find_field (S n) bd e f vis = Ok (Some v).
Proof. exact own_field_wins_l. Qed.
Print Assumptions own_field_wins.

(* person roles are visible as " and "-joined fields (when no field of that name exists) *)
Theorem person_role_as_field : forall n bd e f vis ps,
  ci_get (e_fields e) f = None -> ci_get (e_persons e) f = Some ps ->
  find_field (S n) bd e f vis = Ok (Some (join (s2l " and ") ps)).
Proof. exact person_role_as_field_l. Qed.
Print Assumptions person_role_as_field.

(* the lookup IS the chain semantics: following crossref for any number M > |db| of hops and
   taking the first entry that defines f (field or role) -- in particular the result does
   not depend on M, i.e. it speaks about the whole finite or cyclic chain *)
Theorem find_field_spec : forall d e f M, ids_wf d e -> length d + 1 <= M ->
  entry_find_field (Some d) e f = Ok (chain_find M d e f).
Proof. exact find_field_spec_l. Qed.
Print Assumptions find_field_spec.

(* inherited from the nearest definition: if the k-th entry along the chain defines f and
   none before it does, the lookup yields that entry's value (k = 0: the entry itself) *)
Theorem inherits_nearest : forall d e f k a v, ids_wf d e ->
  ancestor d k e = Some a -> defines a f = Some v ->
  (forall j x, j < k -> ancestor d j e = Some x -> defines x f = None) ->
  entry_find_field (Some d) e f = Ok (Some v).
Proof. exact inherits_nearest_l. Qed.
Print Assumptions inherits_nearest.

(* a field absent along the whole (finite, dangling or cyclic) chain counts as missing *)
Theorem missing_along_chain : forall d e f, ids_wf d e ->
  (forall k x, ancestor d k e = Some x -> defines x f = None) ->
  entry_find_field (Some d) e f = Ok None.
Proof. exact missing_along_chain_l. Qed.
Print Assumptions missing_along_chain.

(* a dangling reference: the field is missing (no crash), and add_extra_citations -- called by
   both engines -- reports a bad cross-reference naming the citation (as spelled at its first
   occurrence in the citation list) and the missing target *)
Theorem dangling_is_missing_and_reported : forall d cits minx k e cr f,
  In k cits -> str_eqb k (s2l "*") = false ->
  ci_get d k = Some e -> ci_get (e_fields e) (s2l "crossref") = Some cr -> ci_get d cr = None ->
  defines e f = None ->
  entry_find_field (Some d) e f = Ok None /\
  exists k', lower k' = lower k /\ In (BadCrossref k' cr) (snd (add_extra_citations d cits minx)).
Proof. exact dangling_is_missing_and_reported_l. Qed.
Print Assumptions dangling_is_missing_and_reported.

(* ... and in strict mode both engines stop with a pybtex error, not a foreign exception *)
Theorem dangling_strict : forall d cits minx fs k e cr,
  In k cits -> str_eqb k (s2l "*") = false ->
  ci_get d k = Some e -> ci_get (e_fields e) (s2l "crossref") = Some cr -> ci_get d cr = None ->
  (exists c l, strictly (bst_run d cits minx fs) = PyErr c l) /\
  (exists c l, strictly (format_bibliography d cits minx fs) = PyErr c l).
Proof. exact dangling_strict_l. Qed.
Print Assumptions dangling_strict.

(* both engines see the same value: the BST field variable (Field.value) and the template
   node field() inside format_bibliography's context, for every entry and field name
   (the BST variable named crossref is the special Crossref variable, hence excluded) *)
Theorem engines_agree_field : forall d e f, str_eqb f (s2l "crossref") = false ->
  bst_var d e f = py_var (Some d) e f.
Proof. exact engines_agree_field_l. Qed.
Print Assumptions engines_agree_field.

(* whole runs: same reports, same entries in the same order, same observation of every field *)
Theorem engines_agree : forall d cits minx fs, no_crossref_var fs = true ->
  exists reports ob op,
    bst_run d cits minx fs = Ok (reports, ob) /\
    format_bibliography d cits minx fs = Ok (reports, op) /\
    map snd ob = map snd op /\
    Forall2 (fun b p => exists e, ci_get d (fst b) = Some e /\ fst p = e_key e) ob op.
Proof. exact engines_agree_l. Qed.
Print Assumptions engines_agree.

(* the BST variable crossref: the canonical key of the entry the crossref field resolves to;
   missing (never a crash) when there is no crossref field or the target is dangling *)
Theorem crossref_variable : forall d e,
  crossref_value d e = Ok (match parent d e with Some p => BStr (e_key p) | None => BMissing (s2l "crossref") end).
Proof. exact crossref_value_spec_l. Qed.
Print Assumptions crossref_variable.

(* Reading the file FILTERED by the citation list (what both engines do: wanted_entries=citations,
   add_entry pulling the crossref target of every entry it accepts into the wanted set) keeps the
   whole chain of every wanted entry, for every chain length: the lookup in the filtered database
   equals the lookup in the whole file -- provided keys are distinct and parents follow their
   children in the file (finding F13 of C05/C06 is about the other order; see children_first_needed) *)
Theorem filtered_chain_inherits : forall cits file, keys_distinct file -> children_first file ->
  forall k e f, want_entry (Some cits) k = true -> ci_get file k = Some e ->
  exists k', ci_get (read_filtered (Some cits) file) k = Some (rekey k' e) /\
             entry_find_field (Some (read_filtered (Some cits) file)) (rekey k' e) f = entry_find_field (Some file) e f.
Proof. exact filtered_chain_inherits_l. Qed.
Print Assumptions filtered_chain_inherits.

(* and the two engines, each reading the file filtered by the citations, still agree *)
Theorem filtered_engines_agree : forall file cits minx fs, no_crossref_var fs = true ->
  exists reports ob op,
    bst_run_file file cits minx fs = Ok (reports, ob) /\
    format_bibliography_file file cits minx fs = Ok (reports, op) /\
    map snd ob = map snd op.
Proof. exact filtered_engines_agree_l. Qed.
Print Assumptions filtered_engines_agree.

(* FINDING FC14a: "seen with the parent's value by both formatting engines" is FALSE for person
   roles printed through the template node names(role), which is what the stock Python styles use
   for authors and editors: the BST field and template field() see the inherited role, names() does not *)
Theorem names_inherit_refuted :
  exists d e role v, bst_var d e role = Ok (Some v) /\ py_var (Some d) e role = Ok (Some v) /\
                     names_var e role = Ok None.
Proof. exact names_inherit_refuted_l. Qed.
Print Assumptions names_inherit_refuted.

(* the strongest true variant: names() agrees with the field view for a role the entry has itself *)
Theorem names_own_partial : forall bd e role ps,
  ci_get (e_fields e) role = None -> ci_get (e_persons e) role = Some ps ->
  names_var e role = py_var bd e role.
Proof. exact names_own_partial_l. Qed.
Print Assumptions names_own_partial.

(* Histories on live objects (look-ups interleaved with edits of fields, crossrefs, replaced entries,
   a new BibliographyData around the same objects): the answer to a look-up is the look-up in the graph
   AS IT IS NOW, and that graph is determined by the edits alone -- two histories with the same edits
   give the same answer whatever was looked up before (no memory, no cache).  Trivial in the model;
   tied to the code by the mutation_history stream, where a stale answer is a disagreement. *)
Theorem lookup_depends_only_on_current_graph : forall d ops ops' k f,
  filter (fun op => negb (is_lookup op)) ops = filter (fun op => negb (is_lookup op)) ops' ->
  last (run_history d (ops ++ [HLookup k f])) None
    = lookup_now (graph_after d (filter (fun op => negb (is_lookup op)) ops)) k f /\
  last (run_history d (ops ++ [HLookup k f])) None = last (run_history d (ops' ++ [HLookup k f])) None.
Proof. exact lookup_depends_only_on_current_graph_l. Qed.
Print Assumptions lookup_depends_only_on_current_graph.

(* Several sources (format_from_files([f1, f2]), format_from_strings, \bibdata{a,b}, Parser.parse_files): one
   reader accumulates the entries AND the wanted set across its sources, so reading the sources in order is
   reading their concatenation -- in particular a cited child in an earlier source makes its parent in a later
   source wanted *)
Theorem multi_source_is_concatenation : forall wanted sources,
  read_sources_state wanted sources = read_state wanted (concat sources).
Proof. exact multi_source_is_concatenation_l. Qed.
Print Assumptions multi_source_is_concatenation.

(* hence the whole chain is kept and inherited values are seen, with children before parents ACROSS sources *)
Theorem multi_source_chain_inherits : forall cits sources,
  keys_distinct (concat sources) -> children_first (concat sources) ->
  forall k e f, want_entry (Some cits) k = true -> ci_get (concat sources) k = Some e ->
  exists k', ci_get (read_sources (Some cits) sources) k = Some (rekey k' e) /\
             entry_find_field (Some (read_sources (Some cits) sources)) (rekey k' e) f
             = entry_find_field (Some (concat sources)) e f.
Proof. exact multi_source_chain_inherits_l. Qed.
Print Assumptions multi_source_chain_inherits.

(* sensitivity (why the two fix: commits matter): without the visited test the lookup of any
   field on  @misc{a, crossref = {a}}  exhausts every fuel (Python: RecursionError, F4) ... *)
Theorem visited_test_needed : forall fuel,
  find_field_unguarded fuel loop_db loop_entry (s2l "t") = OutOfFuel.
Proof. exact unguarded_diverges_l. Qed.
Print Assumptions visited_test_needed.

(* ... and a format_bibliography that does not pass bib_data on (F5) makes the engines disagree
   on a child inheriting its only field from the parent (a concrete instance, hence an Example) *)
Example bib_data_needed :
  map snd (match bst_run f5_db [s2l "c"] 2 [s2l "t"] with Ok (_, o) => o | _ => [] end) = [[Some (s2l "T")]] /\
  map snd (match format_bibliography_nobd f5_db [s2l "c"] 2 [s2l "t"] with Ok (_, o) => o | _ => [] end) = [[None]] /\
  map snd (match format_bibliography f5_db [s2l "c"] 2 [s2l "t"] with Ok (_, o) => o | _ => [] end) = [[Some (s2l "T")]].
Proof. exact nobd_disagrees_l. Qed.

(* ---- non-vacuity and sanity -------------------------------------------------------------- *)
Example constants : s_crossref = s2l "crossref" /\ s_and = s2l " and " /\ s_star = s2l "*".
Proof. vm_compute. auto. Qed.

Definition ex_child := mkEntry 0 (s2l "child") [(s2l "crossref", s2l "MID")] [].
Definition ex_mid := mkEntry 1 (s2l "mid") [(s2l "crossref", s2l "top"); (s2l "year", s2l "1999")] [].
Definition ex_top := mkEntry 2 (s2l "top") [(s2l "title", s2l "T"); (s2l "year", s2l "2000"); (s2l "crossref", s2l "child")]
                             [(s2l "editor", [s2l "Knuth, D"; s2l "Lamport, L"])].
Definition ex_db : db := [(s2l "child", ex_child); (s2l "mid", ex_mid); (s2l "top", ex_top)].
(* a 3-cycle child -> mid -> top -> child: inherited over two hops, nearest wins, role as field, missing *)
Example ex_cycle :
  entry_find_field (Some ex_db) ex_child (s2l "title") = Ok (Some (s2l "T")) /\
  entry_find_field (Some ex_db) ex_child (s2l "year") = Ok (Some (s2l "1999")) /\
  entry_find_field (Some ex_db) ex_child (s2l "EDITOR") = Ok (Some (s2l "Knuth, D and Lamport, L")) /\
  entry_find_field (Some ex_db) ex_child (s2l "note") = Ok None /\
  entry_find_field None ex_child (s2l "title") = Ok None.
Proof. vm_compute. repeat split. Qed.
Example ex_hyps_inherits :
  ancestor ex_db 2 ex_child = Some ex_top /\ defines ex_top (s2l "title") = Some (s2l "T") /\
  defines ex_child (s2l "title") = None /\ defines ex_mid (s2l "title") = None.
Proof. vm_compute. repeat split. Qed.
Example ex_ids_wf : ids_wf ex_db ex_child.
Proof.
  intros x y Hx Hy. cbn in Hx, Hy.
  repeat (destruct Hx as [<-|Hx]); try contradiction; repeat (destruct Hy as [<-|Hy]); try contradiction;
    cbn; intros H; try reflexivity; discriminate H.
Qed.
(* a self loop and a dangling reference *)
Definition ex_self := mkEntry 0 (s2l "a") [(s2l "crossref", s2l "A")] [].
Definition ex_dang := mkEntry 1 (s2l "b") [(s2l "crossref", s2l "nosuch")] [].
Example ex_self_loop : entry_find_field (Some [(s2l "a", ex_self)]) ex_self (s2l "title") = Ok None.
Proof. vm_compute. reflexivity. Qed.
Example ex_dangling :
  add_extra_citations [(s2l "a", ex_self); (s2l "b", ex_dang)] [s2l "B"] 2 = ([s2l "B"], [BadCrossref (s2l "B") (s2l "nosuch")]) /\
  strictly (bst_run [(s2l "a", ex_self); (s2l "b", ex_dang)] [s2l "B"] 2 [s2l "title"]) = PyErr cls_BibliographyDataError (-1).
Proof. vm_compute. split; reflexivity. Qed.
Example ex_engines :
  bst_run ex_db [s2l "CHILD"] 1 [s2l "title"; s2l "note"] =
    Ok ([], [(s2l "CHILD", [Some (s2l "T"); None]); (s2l "mid", [Some (s2l "T"); None])]) /\
  format_bibliography ex_db [s2l "CHILD"] 1 [s2l "title"; s2l "note"] =
    Ok ([], [(s2l "child", [Some (s2l "T"); None]); (s2l "mid", [Some (s2l "T"); None])]).
Proof. vm_compute. split; reflexivity. Qed.
(* without object identity the chain theorems would be false: two different objects claiming
   the same identity cut the chain short (so ids_wf is needed, and is what Python guarantees) *)
Example ex_ids_needed :
  let a := mkEntry 0 (s2l "a") [(s2l "crossref", s2l "b")] [] in
  let b := mkEntry 0 (s2l "b") [(s2l "crossref", s2l "c")] [] in
  let c := mkEntry 2 (s2l "c") [(s2l "title", s2l "T")] [] in
  let d := [(s2l "a", a); (s2l "b", b); (s2l "c", c)] in
  entry_find_field (Some d) a (s2l "title") = Ok None /\ chain_find 5 d a (s2l "title") = Some (s2l "T").
Proof. vm_compute. split; reflexivity. Qed.

(* filtered reading: the hypotheses are met by a real chain, citing the child alone keeps all three ... *)
Example filtered_example :
  keys_distinct fl_good /\ children_first fl_good /\
  map fst (read_filtered (Some [s2l "C"]) fl_good) = [s2l "C"; s2l "m"; s2l "t"] /\
  entry_find_field (Some (read_filtered (Some [s2l "C"]) fl_good)) (rekey (s2l "C") fl_child) (s2l "x") = Ok (Some (s2l "X")).
Proof. split; [apply fl_good_ok|]. split; [apply fl_good_ok|]. vm_compute. split; reflexivity. Qed.
(* ... and the order hypothesis is needed: with the parents first the same citation list loses them (F13) *)
Example children_first_needed :
  map fst (read_filtered (Some [s2l "c"]) fl_bad) = [s2l "c"] /\
  entry_find_field (Some (read_filtered (Some [s2l "c"]) fl_bad)) fl_child (s2l "x") = Ok None /\
  entry_find_field (Some fl_bad) fl_child (s2l "x") = Ok (Some (s2l "X")).
Proof. vm_compute. repeat split. Qed.
Example names_own_example :
  names_var fc14a_parent (s2l "a") = Ok (Some (s2l "A")) /\ py_var None fc14a_parent (s2l "a") = Ok (Some (s2l "A")).
Proof. vm_compute. split; reflexivity. Qed.

(* a history: inherited value seen, parent edited -> new value, child gets its own -> own wins, own deleted and
   crossref removed -> missing *)
Example history_example :
  run_history fl_good [HLookup (s2l "c") (s2l "x"); HSetField (s2l "T") (s2l "x") (s2l "Y"); HLookup (s2l "c") (s2l "x");
                       HSetField (s2l "c") (s2l "X") (s2l "own"); HLookup (s2l "c") (s2l "x"); HDelField (s2l "c") (s2l "x");
                       HDelField (s2l "m") (s2l "crossref"); HLookup (s2l "c") (s2l "x")]
  = [Some (Ok (Some (s2l "X"))); Some (Ok (Some (s2l "Y"))); Some (Ok (Some (s2l "own"))); Some (Ok None)].
Proof. vm_compute. reflexivity. Qed.

(* two sources: the cited child in the first, its uncited parent and grandparent in the second *)
Example multi_source_example :
  map fst (read_sources (Some [s2l "c"]) [[(s2l "c", fl_child)]; [(s2l "m", fl_mid); (s2l "t", fl_top)]]) = [s2l "c"; s2l "m"; s2l "t"] /\
  concat [[(s2l "c", fl_child)]; [(s2l "m", fl_mid); (s2l "t", fl_top)]] = fl_good.
Proof. vm_compute. split; reflexivity. Qed.
