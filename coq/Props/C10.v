(* Props/C10.v -- the .bib reader is total: located pybtex errors only, confined to the bad entry *)
From Pybtex Require Import Base.Prelude Base.PyChar Base.PyStr Model.BibtexStr Model.Names Model.Scanner Model.BibParser Proofs.BibParser.

Theorem capture_handler_total : forall e s, exists s', handle_error Capture e s = Ret tt s'.
Proof. exact capture_never_raises_handle. Qed.
Print Assumptions capture_handler_total.
