(* Props/C10.v -- "the .bib reader is total: located pybtex errors only, confined to the bad
   entry".  Only statements; proofs are in Proofs/Scanner.v and Proofs/BibParser.v.
   [parse_bib m text] is the model of Parser().parse_string(text) in mode m
   (Model/BibParser.v); its outcomes are Ret (database, final parser state), Exc (a syntax
   error travelling up -- never escapes), Fatal (FErr ..) (a pybtex error left the reader),
   Fatal FCrash (a foreign Python exception), Fatal FFuel (the model ran out of fuel). *)
From Pybtex Require Import Base.Prelude Base.PyChar Base.PyStr Model.BibtexStr Model.Names
  Model.Scanner Model.BibParser Model.BibParserOpt Proofs.Scanner Proofs.BibParser Proofs.BibStrict Proofs.BibStrictFirst Proofs.BibValues Proofs.BibEntry Proofs.BibFile Proofs.BibParserOpt Proofs.BibStrictOpt Proofs.BibStable Proofs.BibSuffix.

(* TOTALITY: for every text whatsoever and every reporting mode, reading terminates within
   the model's fuel (|text|+1 per loop), raises no foreign exception (IndexError in
   get_error_context, Crash in Person, ...) and lets no raw syntax error escape: the only
   outcomes are a database or a pybtex error. *)
Theorem parse_bib_total : forall m text,
  parse_bib m text <> Fatal FCrash /\ parse_bib m text <> Fatal FFuel /\ (forall e s, parse_bib m text <> Exc e s).
Proof. exact parse_bib_total_all. Qed.
Print Assumptions parse_bib_total.

(* the same for the low-level parser alone, list(LowLevelParser(text)) *)
Theorem lowlevel_total : forall m text,
  lowlevel m text <> Fatal FCrash /\ lowlevel m text <> Fatal FFuel /\ (forall e s, lowlevel m text <> Exc e s).
Proof. exact Proofs.BibParser.lowlevel_total. Qed.
Print Assumptions lowlevel_total.

(* the guard that rules out unbounded recursion: an opening brace met at nesting level 100
   is answered by the syntax error 'too many nested braces', whatever follows *)
Theorem nesting_guard : forall f q acc s v sc',
  skip_to (fun c => is_lbrace c || is_rbrace c || (q && Nat.eqb 100 0 && N.eqb c c_quote)) (p_sc s) = Some (v, c_lbrace, sc') ->
  pstring (S f) q 100 acc s = Exc (mk_err E_NESTED (set_sc s sc')) (set_sc s sc').
Proof. exact Proofs.BibParser.nesting_guard. Qed.
Print Assumptions nesting_guard.

(* LOCATED ERRORS: every syntax error reported while reading (classes 1..5: premature end
   of file, token required, too many nested braces, unbalanced braces, undefined macro)
   carries exactly the line of the text position where the scanner stood (1 + the line
   breaks before it, CR LF counted once), and that position lies inside the offending
   command: after its '@' and within the text.  Errors about the data (duplicate field,
   repeated key, bad name) carry no line. *)
Theorem errors_located : forall m text d s, parse_bib m text = Ret d s ->
  forall e, In e (p_errs s) ->
    if N.leb (e_cls e) 5
    then e_line e = (1 + newlines (firstn (e_pos e) text))%Z
         /\ e_start e < e_pos e <= length text /\ nth_error text (e_start e) = Some 64%N
    else e_line e = (-1)%Z.
Proof. exact parse_bib_located_all. Qed.
Print Assumptions errors_located.

(* MODES: downgrading errors to warnings gives exactly the reading that capturing them
   gives -- same database, same errors in the same order (printing a warning, including the
   error context of a 'token required' error, cannot fail) *)
Theorem capture_equals_nonstrict : forall text, parse_bib NonStrict text = parse_bib Capture text.
Proof. exact parse_bib_ns_all. Qed.
Print Assumptions capture_equals_nonstrict.

(* STRICT MODE raises exactly the FIRST problem: for every text, with (d, s) the database and
   final state of capture mode (which always exist unless a pybtex error is raised directly),
   (1) if capture mode reports nothing, strict mode returns the very same database and state;
   (2) if strict mode raises a pybtex error (class c, line l), that error is the first one
       capture mode records;
   (3) if strict mode returns, capture mode returns the same and reports nothing; and whenever
       capture mode reports something, strict mode raises a pybtex error. *)
Theorem strict_raises_first : forall text,
  (forall d s, parse_bib Capture text = Ret d s -> p_errs s = [] -> parse_bib Strict text = Ret d s) /\
  (forall c l d s, parse_bib Strict text = Fatal (FErr c l) -> parse_bib Capture text = Ret d s ->
     exists e rest, p_errs s = e :: rest /\ e_cls e = c /\ e_line e = l) /\
  (forall d s, parse_bib Strict text = Ret d s -> parse_bib Capture text = Ret d s /\ p_errs s = []) /\
  (forall d s, parse_bib Capture text = Ret d s -> p_errs s <> [] -> exists c l, parse_bib Strict text = Fatal (FErr c l)).
Proof.
  intros text. split; [exact (strict_no_error text)|]. split; [exact (strict_raises_first_lemma text)|].
  split; [exact (strict_success text)|exact (strict_raises text)].
Qed.
Print Assumptions strict_raises_first.

(* CONFINEMENT, command level (the character-level statement is left to the correspondence
   run and the oracle: see notes/C10.md).
   (1) entries and preamble items are only ever appended to the database: nothing that
       comes later in the text, malformed or not, alters what was read before it *)
Theorem prefix_confinement_partial : forall m fuel d s d' s', bib_loop process fuel m d s = Ret d' s' ->
  (exists l, db_entries d' = db_entries d ++ l) /\ (exists l, db_preamble d' = db_preamble d ++ l).
Proof. exact bib_loop_append. Qed.
Print Assumptions prefix_confinement_partial.

(* (2) what is read after a command depends only on where the scanner stands, the macro
       table, the database and the errors so far: the attributes a (possibly malformed)
       command left in the parser object (current key / fields / field name / value,
       command_start) do not influence the commands after it *)
Theorem suffix_confinement_partial : forall D (proc : mode -> cmd -> D -> pst -> out D) m fuel d s k fs fn v cs,
  Proofs.BibParser.view (bib_loop proc fuel m d (mkP (p_sc s) (p_macros s) (p_errs s) k fs fn v cs)) = Proofs.BibParser.view (bib_loop proc fuel m d s).
Proof. exact @bib_loop_forgets. Qed.
Print Assumptions suffix_confinement_partial.

(* PREFIX CONFINEMENT, character level, purely syntactic hypotheses: whatever text y follows a
   well-formed file (entries, @string, @preamble, @comment, junk without '@') that ends in at
   least one junk character (a line end, say) -- another entry, a malformed one, a truncated
   one, noise -- the entries, the preamble and the reported problems read from that file are
   exactly what it denotes and remain a prefix of the result: a malformed entry never alters
   the entries read before it. *)
Theorem prefix_confinement : forall items tail v e y d2 s2,
  wf_file month_macros items -> no_at tail -> tail <> [] -> denote_items2 month_macros items ([], []) = Some (v, e) ->
  parse_bib Capture (file_text2 items tail ++ y) = Ret d2 s2 ->
  (exists l, map entry_view (db_entries d2) = fst v ++ l) /\ (exists l, map snd (db_preamble d2) = snd v ++ l) /\
  (exists l, p_errs s2 = map data_err e ++ l).
Proof. exact prefix_confinement_lemma. Qed.
Print Assumptions prefix_confinement.

(* CONFINEMENT, character level, suffix direction, for well-formed suffixes: whatever was read
   before -- any text, malformed or not: any database d, any errors reported so far, any macro
   table, any attributes left in the parser object -- once the reader stands between commands
   in front of a sequence of well-formed items (entries, @string, @preamble, @comment, junk
   without '@'), it reads them exactly as they denote under the macro table of that moment and
   adds exactly their problems: the entries AFTER a malformed entry are not altered by it.
   PARTIAL: the hypothesis is that the reader has resynchronised in front of those items; that a
   corrupted command whose braces / quotes / parentheses balance and that does not end in a NAME
   character or '@' is never read past its own end (so that the hypothesis holds) is NOT proved
   -- it is what the corruption oracle tests (F25 is the case that ends in '@'). *)
Theorem suffix_confinement_wellformed_partial : forall items fuel d st tail v' e,
  length items < fuel -> wf_file (p_macros st) items -> no_at tail ->
  sc_rest (p_sc st) = file_text2 items tail ->
  denote_items2 (p_macros st) items (Proofs.BibFile.view d) = Some (v', e) ->
  exists d' st', bib_loop process fuel Capture d st = Ret d' st' /\ Proofs.BibFile.view d' = v' /\ p_errs st' = p_errs st ++ map data_err e.
Proof. exact file_loop3. Qed.
Print Assumptions suffix_confinement_wellformed_partial.

(* COMPOSITIONALITY, character level.  "The reading of p never touches the end of p"
   ([untouched]: when it stops, unread text remains -- e.g. the blank or line end that
   separates p from what follows -- and no 'premature end of file' was reported) is exactly
   "p is never read past its own end".  Under that hypothesis, for EVERY text y, reading
   p ++ y proceeds exactly as reading p and then goes on, on y, from the database and parser
   state p left: nothing in y can alter what was read from p (prefix confinement for every
   text), and p influences the reading of y only through that state (suffix confinement). *)
Theorem compositionality : forall p y d s, parse_bib Capture p = Ret d s -> untouched s ->
  exists n, 0 < n /\ parse_bib Capture (p ++ y) = bib_loop process n Capture d (app s y).
Proof. exact Proofs.BibSuffix.compositionality. Qed.
Print Assumptions compositionality.

(* SUFFIX CONFINEMENT, character level: let p = x ++ bad ++ w be any text -- bad a corrupted
   command, w the separator in front of what follows -- that is never read past its own end.
   Then for every sequence of well-formed items after it (entries, @string, @preamble,
   @comment, junk without '@') reading p followed by those items yields the database of p
   extended by exactly what the items denote under the macro table p leaves, and the problems
   of p followed by exactly theirs: the malformed command does not alter the entries after it.
   What is NOT proved: the syntactic criterion (own braces / quotes / parentheses balance, not
   ending in a NAME character or '@') implies the hypothesis; it does not without a separator
   ('@a(k)@b{..}': the key pattern reads ')@b{..'), and for the harness's single-token
   corruption classes it is established per instance by evaluation (Examples below) and by the
   oracle, not by a general theorem. *)
Theorem suffix_confinement : forall p d s items tail v' e,
  parse_bib Capture p = Ret d s -> untouched s ->
  wf_file (p_macros s) items -> no_at tail ->
  denote_items2 (p_macros s) items (Proofs.BibFile.view d) = Some (v', e) ->
  exists d' s', parse_bib Capture (p ++ file_text2 items tail) = Ret d' s'
                /\ Proofs.BibFile.view d' = v' /\ p_errs s' = p_errs s ++ map data_err e.
Proof. exact suffix_confinement_lemma. Qed.
Print Assumptions suffix_confinement.

(* SUFFIX CONFINEMENT for four syntactic CLASSES of damaged commands (hypotheses are checkable
   predicates on the text; no hypothesis about the run).  In both, the damaged command follows
   a well-formed file and junk, is followed by arbitrary text r without '@', and then by any
   well-formed items: those items are read exactly as they denote under the macro table in
   force, and exactly one 'token required' problem is reported for the damaged command.
   (1) DAMAGED HEAD: '@' ws X r with X neither whitespace, nor a name-start character, nor '@'
       (entry type deleted or replaced by a number / delimiter / '=' / ',' / '#' / a double quote).
   (2) DAMAGED CLOSE: a complete entry head and field list (any layout, optional trailing
       comma) after which, where ',' or the closing delimiter is expected, comes a character
       cx that is neither (closing delimiter deleted or replaced, ',' replaced, a stray
       delimiter / '=' after a value ...; cx is not whitespace, '#', ',', a name character or
       '@'); the damaged entry itself contributes what its complete fields denote.
   (3) BROKEN FIELD: a complete entry head, zero or more complete fields each followed by ',',
       then a field name NOT followed by '=' ('=' deleted or replaced, a stray token), or a field
       name and '=' NOT followed by a value (value deleted, its opening delimiter replaced by
       something that cannot start a value); the offending character is not whitespace, not a
       name character and not '@'; the damaged entry contributes its complete fields.
   (4) NO OPENER: '@' ws type ws X r with X neither whitespace nor '(' nor '{' nor '@', and
       separated from the type by whitespace or not a name character (opening delimiter deleted
       or replaced, type written twice, ...).
   F25 ('@' followed by whitespace and the next '@') is outside all classes: X = '@'.
   Still only oracle-checked: damage that leaves the scanner inside a string or a name / key
   token (deleted or duplicated delimiters that stay balanced, a deleted ',' before a field
   name, truncation inside a value), and any damage followed directly (no whitespace) by '@'. *)
Theorem suffix_confinement_damaged_head : forall items junk ws X r v e items2 tail2 v2 e2,
  wf_file month_macros items -> no_at junk -> no_at r -> forallb is_space ws = true ->
  is_space X = false -> is_name_start X = false -> N.eqb X c_at = false ->
  denote_items2 month_macros items ([], []) = Some (v, e) ->
  wf_file (final_macros month_macros items) items2 -> no_at tail2 ->
  denote_items2 (final_macros month_macros items) items2 v = Some (v2, e2) ->
  exists d' s' te, parse_bib Capture (file_text2 items (junk ++ c_at :: ws ++ X :: r) ++ file_text2 items2 tail2) = Ret d' s'
    /\ Proofs.BibFile.view d' = v2 /\ p_errs s' = map data_err e ++ [te] ++ map data_err e2 /\ e_cls te = E_TOKEN.
Proof. exact suffix_confinement_damaged_head_lemma. Qed.
Print Assumptions suffix_confinement_damaged_head.

Theorem suffix_confinement_damaged_close :
  forall items junk brace cx ws0 typ ws1 ws2 key wsk fs trailing wsend r v e v1 e1 items2 tail2 v2 e2,
  wf_file month_macros items -> no_at junk -> no_at r -> N.eqb cx c_at = false ->
  forallb is_space ws0 = true -> forallb is_space ws1 = true -> forallb is_space ws2 = true ->
  forallb is_space wsk = true -> forallb is_space wsend = true ->
  is_entry_type typ = true -> is_key brace key = true -> Forall (wf_sfield (final_macros month_macros items)) fs ->
  closer_char cx -> cx <> cl_char brace ->
  denote_items2 month_macros items ([], []) = Some (v, e) ->
  denote_cmd2 (CEntry typ (Some key) (map (field_result (final_macros month_macros items)) fs)) v = Some (v1, e1) ->
  wf_file (final_macros month_macros items) items2 -> no_at tail2 ->
  denote_items2 (final_macros month_macros items) items2 v1 = Some (v2, e2) ->
  exists d' s' te,
    parse_bib Capture (file_text2 items (junk ++ c_at :: entry_text_x brace cx ws0 typ ws1 ws2 key wsk fs trailing wsend r)
                       ++ file_text2 items2 tail2) = Ret d' s'
    /\ Proofs.BibFile.view d' = v2 /\ p_errs s' = map data_err e ++ [te] ++ map data_err e1 ++ map data_err e2 /\ e_cls te = E_TOKEN.
Proof. exact suffix_confinement_damaged_close_lemma. Qed.
Print Assumptions suffix_confinement_damaged_close.

Theorem suffix_confinement_no_opener : forall items junk ws0 typ ws1 X r v e items2 tail2 v2 e2,
  wf_file month_macros items -> no_at junk -> no_at r -> N.eqb X c_at = false ->
  forallb is_space ws0 = true -> forallb is_space ws1 = true -> is_name typ = true ->
  is_space X = false -> X <> 40%N -> X <> c_lbrace -> (ws1 <> [] \/ is_name_char X = false) ->
  denote_items2 month_macros items ([], []) = Some (v, e) ->
  wf_file (final_macros month_macros items) items2 -> no_at tail2 ->
  denote_items2 (final_macros month_macros items) items2 v = Some (v2, e2) ->
  exists d' s' te, parse_bib Capture (file_text2 items (junk ++ c_at :: ws0 ++ typ ++ ws1 ++ X :: r) ++ file_text2 items2 tail2) = Ret d' s'
    /\ Proofs.BibFile.view d' = v2 /\ p_errs s' = map data_err e ++ [te] ++ map data_err e2 /\ e_cls te = E_TOKEN.
Proof. exact suffix_confinement_no_opener_lemma. Qed.
Print Assumptions suffix_confinement_no_opener.

Theorem suffix_confinement_broken_field :
  forall items junk brace ws0 typ ws1 ws2 key wsk fs bk r v e v1 e1 items2 tail2 v2 e2,
  wf_file month_macros items -> no_at junk -> no_at r -> N.eqb (broken_char bk) c_at = false ->
  forallb is_space ws0 = true -> forallb is_space ws1 = true -> forallb is_space ws2 = true -> forallb is_space wsk = true ->
  is_entry_type typ = true -> is_key brace key = true -> Forall (wf_sfield (final_macros month_macros items)) fs ->
  wf_broken bk ->
  denote_items2 month_macros items ([], []) = Some (v, e) ->
  denote_cmd2 (CEntry typ (Some key) (map (field_result (final_macros month_macros items)) fs)) v = Some (v1, e1) ->
  wf_file (final_macros month_macros items) items2 -> no_at tail2 ->
  denote_items2 (final_macros month_macros items) items2 v1 = Some (v2, e2) ->
  exists d' s' te,
    parse_bib Capture (file_text2 items (junk ++ c_at :: ws0 ++ typ ++ ws1 ++ op_char brace :: ws2 ++ key ++ wsk ++ c_comma :: fields_pre fs (broken_text bk r))
                       ++ file_text2 items2 tail2) = Ret d' s'
    /\ Proofs.BibFile.view d' = v2 /\ p_errs s' = map data_err e ++ [te] ++ map data_err e1 ++ map data_err e2 /\ e_cls te = E_TOKEN.
Proof. exact suffix_confinement_broken_field_lemma. Qed.
Print Assumptions suffix_confinement_broken_field.

(* ---- the same for the reader WITH OPTIONS (Model/BibParserOpt.v):
   Parser(wanted_entries=..., keyless_entries=..., macros=..., person_fields=...) -- for EVERY
   option set o: totality (no foreign exception -- e.g. no AttributeError from want_entry on a
   missing key --, no hang, no escaping raw syntax error), located syntax errors, and
   non-strict = capture *)
Theorem parse_bib_total_options : forall o m text,
  parse_bib_o o m text <> Fatal FCrash /\ parse_bib_o o m text <> Fatal FFuel /\ (forall e s, parse_bib_o o m text <> Exc e s).
Proof. exact parse_bib_o_total. Qed.
Print Assumptions parse_bib_total_options.

Theorem errors_located_options : forall o m text d s, parse_bib_o o m text = Ret d s ->
  forall e, In e (p_errs s) ->
    if N.leb (e_cls e) 5
    then e_line e = (1 + newlines (firstn (e_pos e) text))%Z
         /\ e_start e < e_pos e <= length text /\ nth_error text (e_start e) = Some 64%N
    else e_line e = (-1)%Z.
Proof. exact parse_bib_o_located. Qed.
Print Assumptions errors_located_options.

Theorem capture_equals_nonstrict_options : forall o text, parse_bib_o o NonStrict text = parse_bib_o o Capture text.
Proof. exact parse_bib_o_ns. Qed.
Print Assumptions capture_equals_nonstrict_options.

Theorem strict_raises_first_options : forall o text,
  (forall d s, parse_bib_o o Capture text = Ret d s -> p_errs s = [] -> parse_bib_o o Strict text = Ret d s) /\
  (forall c l d s, parse_bib_o o Strict text = Fatal (FErr c l) -> parse_bib_o o Capture text = Ret d s ->
     exists e rest, p_errs s = e :: rest /\ e_cls e = c /\ e_line e = l) /\
  (forall d s, parse_bib_o o Strict text = Ret d s -> parse_bib_o o Capture text = Ret d s /\ p_errs s = []) /\
  (forall d s, parse_bib_o o Capture text = Ret d s -> p_errs s <> [] -> exists c l, parse_bib_o o Strict text = Fatal (FErr c l)).
Proof. exact strict_first_o. Qed.
Print Assumptions strict_raises_first_options.

(* non-vacuity *)
Definition ex_text : str := s2l "@a{k, t = {x} # y}
@b{k2, t = ""u} @c{k3,".
Example ex_reads_with_errors :
  match parse_bib Capture ex_text with
  | Ret d s => (length (db_entries d), map (fun e => (e_cls e, e_line e)) (p_errs s))
  | _ => (0, [])
  end = (3, [(5%N, 1%Z); (4%N, 2%Z); (1%N, 2%Z)]).
Proof. vm_compute. reflexivity. Qed.
Example ex_strict_raises : parse_bib Strict ex_text = Fatal (FErr 5 1).
Proof. vm_compute. reflexivity. Qed.
(* the hypotheses of suffix_confinement_damaged_close are met by a non-trivial input:
   '@book{k1, t = {One}}' NL '@misc{k2, note = (quoted n) )' + ' rest of the line' + NL '@book{k3, t = jan}' *)
Definition ex_f1 : sfield := ([], s2l "t", s2l " ", [ (s2l " ", SDelim false (s2l "One"), []) ]).
Definition ex_f2 : sfield := (s2l " ", s2l "note", s2l " ", [ (s2l " ", SDelim true (s2l "n"), s2l " ") ]).
Definition ex_f3 : sfield := ([], s2l "t", s2l " ", [ (s2l " ", SMacro (s2l "jan"), []) ]).
Definition ex_before : list (str * sitem) := [ ([], IEntry true [] (s2l "book") [] [] (s2l "k1") [] true [ex_f1] false []) ].
Definition ex_after : list (str * sitem) := [ (s2l "
", IEntry true [] (s2l "book") [] [] (s2l "k3") [] true [ex_f3] false []) ].
Example ex_damaged_close :
  file_text2 ex_before (s2l "
" ++ c_at :: entry_text_x true 41%N [] (s2l "misc") [] [] (s2l "k2") [] [ex_f2] false [] (s2l " rest of the line"))
    ++ file_text2 ex_after (s2l "
")
  = s2l "@book{k1,t = {One}}
@misc{k2, note = ""n"" ) rest of the line
@book{k3,t = jan}
" /\ closer_char 41%N /\ 41%N <> cl_char true /\ wf_file month_macros ex_before /\ wf_file month_macros ex_after
  /\ Forall (wf_sfield month_macros) [ex_f2].
Proof.
  split; [vm_compute; reflexivity|]. split; [repeat split; try reflexivity; discriminate|]. split; [discriminate|].
  unfold ex_before, ex_after, no_at, sp. cbn [wf_file wf_item].
  repeat split; try reflexivity; try discriminate; try (intros x Hx; cbn in Hx; repeat (destruct Hx as [<-|Hx]; [reflexivity|]); contradiction);
    try (repeat constructor; try reflexivity; try discriminate; cbn; congruence); try (intros H; discriminate H); auto.
Qed.

Example ex_broken_field :
  file_text2 ex_before (s2l "
" ++ c_at :: s2l "misc" ++ op_char true :: s2l "k2" ++ c_comma :: fields_pre [ex_f2] (broken_text (BNoEq (s2l " ") (s2l "year") (s2l " ") 123%N) (s2l "1999}}")))
  = s2l "@book{k1,t = {One}}
@misc{k2, note = ""n"" , year {1999}}" /\ wf_broken (BNoEq (s2l " ") (s2l "year") (s2l " ") 123%N)
  /\ wf_broken (BNoVal [] (s2l "year") (s2l " ") (s2l " ") 44%N).
Proof. split; [vm_compute; reflexivity|]. split; repeat split; try reflexivity; discriminate. Qed.

Definition ex_untouched (t : string) : bool :=
  match parse_bib Capture (s2l t) with Ret _ s => untouchedb s | _ => false end.
(* single-token corruptions of '@book{k2, title = {The x}, year = 1999}' followed by a blank:
   delete '=', duplicate ',', replace '=' by '#', truncate after the first field (balanced) *)
Example ex_corruptions_untouched :
  ex_untouched "@book{k1, t = {One}}
@book{k2, title {The x}, year = 1999} "%string = true /\
  ex_untouched "@book{k2, title = {The x}, , year = 1999} "%string = true /\
  ex_untouched "@book{k2, title # {The x}, year = 1999} "%string = true /\
  ex_untouched "@book{k2, title = {The x}, year} "%string = true /\
  ex_untouched "@book{k2 k2, title = {The x}}	"%string = true.
Proof. vm_compute. repeat split. Qed.
(* ... whereas F25's shape, an unbalanced entry and a parenthesised key glued to ')' ARE read
   past their end *)
Example ex_touched :
  ex_untouched "@book{k1} @ "%string = false /\ ex_untouched "@book{k2, title = {The x "%string = false /\
  ex_untouched "@a(k)"%string = false.
Proof. vm_compute. repeat split. Qed.
Example ex_options :
  match parse_bib_o (mkOpts (Some [s2l "K2"]) true [] [s2l "Title"]) Capture (s2l "@string{a = und}@a{t = 1, title = {X and Y}}@b{k2}") with
  | Ret d s => (map (fun e => (en_key e, length (en_persons e))) (db_entries (d_db d)), map (fun e => e_cls e) (p_errs s))
  | _ => ([], [])
  end = ([], [5%N; 2%N]).
Proof. vm_compute. reflexivity. Qed.
Example ex_nesting :
  match parse_bib Capture (s2l "@a{k, t = " ++ repeat c_lbrace 102) with
  | Ret d s => map (fun e => e_cls e) (p_errs s) | _ => [] end = [3%N].
Proof. vm_compute. reflexivity. Qed.
