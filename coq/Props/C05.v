(* Props/C05.v -- citation resolution.  Statements only. *)
From Pybtex Require Import Base.Prelude Base.PyChar Base.PyStr Model.Citations Proofs.Citations.

Theorem resolve_partition : forall E cites m,
  fst (add_extra E cites m) = expand E cites ++ crossrefs E (expand E cites) m.
Proof. exact add_extra_partition. Qed.
Print Assumptions resolve_partition.
