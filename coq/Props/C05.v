(* Props/C05.v -- "Citation resolution: cited, wildcard and cross-referenced entries, in order".
   Statements only; proofs in Proofs/Citations*.v; the vocabulary of the statements (dedup_ci,
   threshold_hits, missing_of, dangling_of, parents_follow_children ...) is Spec/Citations.v. *)
From Pybtex Require Import Base.Prelude Base.PyChar Base.PyStr Model.Citations Spec.Citations
  Proofs.CitationsBase Proofs.Citations.

(* _expand_wildcard_citations: the explicitly cited keys in first-citation order, '*' standing for
   every database entry in database order, de-duplicated up to letter case (first spelling kept) *)
Theorem expand_spec : forall E cites,
  expand E cites = dedup_ci (flat_map (fun c => if str_eqb c star then ed_keys E else [c]) cites).
Proof. exact expand_is_explicit_spec. Qed.
Print Assumptions expand_spec.

(* _get_crossreferenced_citations, position by position: citation c brings in the entry its
   cross-reference resolves to exactly when that entry is not cited (up to case) and c is the citation
   at which the number of citations referring to it reaches max(min_crossrefs, 1) -- so the additions
   come in the order the threshold is reached *)
Theorem crossrefs_spec : forall E cs m,
  crossrefs E cs m = threshold_hits E (Z.to_nat (Z.max m 1)) cs [] cs.
Proof. exact crossrefs_is_spec. Qed.
Print Assumptions crossrefs_spec.

(* every added entry is in the database, is not cited, and is referred to by a citation *)
Theorem crossrefs_sound : forall E cs m k, In k (crossrefs E cs m) ->
  ed_mem k E = true /\ existsb (keyb k) cs = false /\ exists c, In c cs /\ parent_of E c = Some k.
Proof. exact crossrefs_sound_lemma. Qed.
Print Assumptions crossrefs_sound.

(* add_extra_citations = the explicit citations followed by the additions computed from them *)
Theorem resolve_partition : forall E cites m,
  fst (add_extra E cites m) = expand E cites ++ crossrefs E (expand E cites) m.
Proof. exact add_extra_partition. Qed.
Print Assumptions resolve_partition.

(* no entry is selected twice, whatever the letter case *)
Theorem resolve_nodup_ci : forall E cites m, nodup_cib (fst (add_extra E cites m)) = true.
Proof. exact add_extra_nodup. Qed.
Print Assumptions resolve_nodup_ci.

(* Interpreter.command_read (E = what the filtered reading stored): the final citations are the selected
   keys that are in E, in order; every explicitly cited key absent from E gets exactly one 'missing
   database entry' report (in order) and is not kept; every dangling cross-reference of a cited entry
   gets exactly one 'bad cross-reference' report *)
Theorem missing_and_dangling_reported : forall db cites m final rs,
  command_read_raw db cites m = (final, rs) ->
  let E := bd_entries (read_db (Some cites) db) in
  let ex := explicit_spec E cites in
  final = filter (fun c => ed_mem c E) (ex ++ Spec.Citations.crossrefs_spec E ex m) /\
  missing_reports rs = missing_of E ex /\
  badxref_reports rs = dangling_of E ex /\
  (forall k, In k final -> ed_mem k E = true) /\
  (forall c, In c ex -> ed_mem c E = false -> In c (missing_reports rs) /\ ~ In c final).
Proof. exact command_read_reports. Qed.
Print Assumptions missing_and_dangling_reported.

(* the same for BaseStyle.format_bibliography (keys emitted under the spelling they are stored under) *)
Theorem format_bibliography_reported : forall E cites m final rs,
  format_bibliography_raw E (Some cites) m = (final, rs) ->
  let ex := explicit_spec E cites in
  final = map (stored_key E) (filter (fun c => ed_mem c E) (ex ++ Spec.Citations.crossrefs_spec E ex m)) /\
  missing_reports rs = missing_of E ex /\
  badxref_reports rs = dangling_of E ex.
Proof. exact format_bibliography_reports. Qed.
Print Assumptions format_bibliography_reported.

(* filtered reading stores an entry whose key is cited under a spelling of the citation list; with
   consistently spelled citations that is THE spelling of the citation list *)
Theorem citation_spelling_wins : forall db cites k cr,
  In (k, cr) (bd_entries (read_db (Some cites) db)) ->
  (existsb (keyb k) cites = true -> In k cites) /\
  (consistent cites -> forall c, In c cites -> keyb c k = true -> k = c).
Proof. exact citation_spelling_lemma. Qed.
Print Assumptions citation_spelling_wins.

(* ---- non-vacuity / sanity: the doctests of the anchored functions and a threshold example *)
Definition K (s : string) : key := s2l s.
Definition db4 : edict := [(K "uno", None); (K "dos", None); (K "tres", None); (K "cuatro", None)].
Example expand_example :
  expand db4 [K "dos"; K "*"] = [K "dos"; K "uno"; K "tres"; K "cuatro"] /\
  expand db4 [K "*"; K "DOS"] = [K "uno"; K "dos"; K "tres"; K "cuatro"].
Proof. vm_compute. auto. Qed.
Definition db5 : edict := [(K "c1", Some (K "P")); (K "c2", Some (K "p")); (K "p", None); (K "c3", Some (K "q"))].
Example crossrefs_example :
  crossrefs db5 [K "C1"; K "c2"; K "c3"] 2 = [K "p"] /\ crossrefs db5 [K "C1"; K "c2"; K "c3"] 1 = [K "p"] /\
  crossrefs db5 [K "c1"; K "c2"; K "P"] 1 = [] /\
  add_extra db5 [K "*"; K "x"] 3 = ([K "c1"; K "c2"; K "p"; K "c3"; K "x"], [RBadXref (K "c3") (K "q")]).
Proof. vm_compute. auto 6. Qed.
Example command_read_example :
  command_read_raw [(K "p", None); (K "C1", Some (K "P")); (K "c2", Some (K "zz"))] [K "c1"; K "nope"; K "c2"; K "P"] 1
  = ([K "c1"; K "c2"; K "P"], [RBadXref (K "c2") (K "zz"); RMissing (K "nope")]) /\
  bd_entries (read_db (Some [K "c1"; K "P"]) [(K "p", None); (K "C1", Some (K "P"))]) = [(K "P", None); (K "c1", Some (K "P"))].
Proof. vm_compute. auto. Qed.
