(* Props/C05.v -- "Citation resolution: cited, wildcard and cross-referenced entries, in order".
   Statements only; proofs in Proofs/Citations*.v; the vocabulary of the statements (dedup_ci,
   threshold_hits, missing_of, dangling_of, parents_follow_children ...) is Spec/Citations.v. *)
From Pybtex Require Import Base.Prelude Base.PyChar Base.PyStr Model.Citations Spec.Citations
  Proofs.CitationsBase Proofs.Citations Proofs.CitationsFiltered Proofs.CitationsMore Proofs.CitationsReports Proofs.CitationsFile Proofs.CitationsReach.

Definition K (s : string) : key := s2l s.

(* _expand_wildcard_citations: the explicitly cited keys in first-citation order, '*' standing for
   every database entry in database order, de-duplicated up to letter case (first spelling kept) *)
Theorem expand_spec : forall E cites,
  expand E cites = dedup_ci (flat_map (fun c => if str_eqb c star then ed_keys E else [c]) cites).
Proof. exact expand_is_explicit_spec. Qed.
Print Assumptions expand_spec.

(* _get_crossreferenced_citations, position by position: citation c brings in the entry its
   cross-reference resolves to exactly when that entry is not cited (up to case) and c is the citation
   at which the number of citations referring to it reaches max(min_crossrefs, 1) -- so the additions
   come in the order the threshold is reached *)
Theorem crossrefs_spec : forall E cs m,
  crossrefs E cs m = threshold_hits E (Z.to_nat (Z.max m 1)) cs [] cs.
Proof. exact crossrefs_is_spec. Qed.
Print Assumptions crossrefs_spec.

(* every added entry is in the database, is not cited, and is referred to by a citation *)
Theorem crossrefs_sound : forall E cs m k, In k (crossrefs E cs m) ->
  ed_mem k E = true /\ existsb (keyb k) cs = false /\ exists c, In c cs /\ parent_of E c = Some k.
Proof. exact crossrefs_sound_lemma. Qed.
Print Assumptions crossrefs_sound.

(* ... and exactly those: the additions are precisely the stored keys of the entries that are not cited
   (up to case) and that at least max(min_crossrefs, 1) of the citations cross-reference *)
Theorem crossrefs_exact : forall E cs m k,
  In k (crossrefs E cs m) <->
  (exists cr, ed_get k E = Some (k, cr)) /\ existsb (keyb k) cs = false /\ Z.to_nat (Z.max m 1) <= refs E k cs.
Proof. exact crossrefs_exact_lemma. Qed.
Print Assumptions crossrefs_exact.

(* add_extra_citations = the explicit citations followed by the additions computed from them *)
Theorem resolve_partition : forall E cites m,
  fst (add_extra E cites m) = expand E cites ++ crossrefs E (expand E cites) m.
Proof. exact add_extra_partition. Qed.
Print Assumptions resolve_partition.

(* no entry is selected twice, whatever the letter case *)
Theorem resolve_nodup_ci : forall E cites m, nodup_cib (fst (add_extra E cites m)) = true.
Proof. exact add_extra_nodup. Qed.
Print Assumptions resolve_nodup_ci.

(* Interpreter.command_read (E = what the filtered reading stored): the final citations are the selected
   keys that are in E, in order; every explicitly cited key absent from E gets exactly one 'missing
   database entry' report (in order) and is not kept; every dangling cross-reference of a cited entry
   gets exactly one 'bad cross-reference' report *)
Theorem missing_and_dangling_reported : forall db cites m final rs,
  command_read_raw db cites m = (final, rs) ->
  let E := bd_entries (read_db (Some cites) db) in
  let ex := explicit_spec E cites in
  final = filter (fun c => ed_mem c E) (ex ++ Spec.Citations.crossrefs_spec E ex m) /\
  missing_reports rs = missing_of E ex /\
  badxref_reports rs = dangling_of E ex /\
  (forall k, In k final -> ed_mem k E = true) /\
  (forall c, In c ex -> ed_mem c E = false -> In c (missing_reports rs) /\ ~ In c final).
Proof. exact command_read_reports. Qed.
Print Assumptions missing_and_dangling_reported.

(* the same in terms of the FILE: a reported missing key is cited, is in no entry of the file and is not
   kept; and every cited key (other than '*') that no entry of the file has is reported *)
Theorem missing_iff_absent_from_file : forall db cites m,
  let rs := snd (command_read_raw db cites m) in
  (forall c, In c (missing_reports rs) ->
     existsb (keyb c) cites = true /\ existsb (keyb c) (map fst db) = false /\ ~ In c (fst (command_read_raw db cites m))) /\
  (forall c, In c cites -> c <> star -> existsb (keyb c) (map fst db) = false ->
     exists c', keyb c c' = true /\ In c' (missing_reports rs)).
Proof. exact missing_file_lemma. Qed.
Print Assumptions missing_iff_absent_from_file.

(* what the readings store, in terms of the file: reading everything stores a key iff the file has it;
   reading filtered by the citations stores every cited key the file has -- namely the FIRST entry of
   that key in the file (crossref included) under a spelling equal to the file's up to case *)
Theorem reading_keeps_cited : forall db,
  (forall q, ed_mem q (bd_entries (read_db None db)) = existsb (keyb q) (map fst db)) /\
  (forall cites q, existsb (keyb q) cites = true ->
     ed_mem q (bd_entries (read_db (Some cites) db)) = existsb (keyb q) (map fst db)) /\
  (forall cites q e, existsb (keyb q) cites = true -> find (fun e => keyb q (fst e)) db = Some e ->
     exists k', ed_get q (bd_entries (read_db (Some cites) db)) = Some (k', snd e) /\ keyb k' (fst e) = true).
Proof. exact reading_lemma. Qed.
Print Assumptions reading_keeps_cited.

(* error modes: in strict mode command_read raises exactly when something is reported; under capture never *)
Theorem strict_mode : forall db cites m,
  (command_read db cites m true = PyErr 0 (-1) <-> snd (command_read_raw db cites m) <> []) /\
  (snd (command_read_raw db cites m) = [] -> command_read db cites m true = Ok (fst (command_read_raw db cites m), [])) /\
  command_read db cites m false = Ok (command_read_raw db cites m).
Proof. exact strict_mode_lemma. Qed.
Print Assumptions strict_mode.

(* the same for BaseStyle.format_bibliography (keys emitted under the spelling they are stored under) *)
Theorem format_bibliography_reported : forall E cites m final rs,
  format_bibliography_raw E (Some cites) m = (final, rs) ->
  let ex := explicit_spec E cites in
  final = map (stored_key E) (filter (fun c => ed_mem c E) (ex ++ Spec.Citations.crossrefs_spec E ex m)) /\
  missing_reports rs = missing_of E ex /\
  badxref_reports rs = dangling_of E ex.
Proof. exact format_bibliography_reports. Qed.
Print Assumptions format_bibliography_reported.

(* filtered reading stores an entry whose key is cited under a spelling of the citation list; with
   consistently spelled citations that is THE spelling of the citation list *)
Theorem citation_spelling_wins : forall db cites k cr,
  In (k, cr) (bd_entries (read_db (Some cites) db)) ->
  (existsb (keyb k) cites = true -> In k cites) /\
  (consistent cites -> forall c, In c cites -> keyb c k = true -> k = c).
Proof. exact citation_spelling_lemma. Qed.
Print Assumptions citation_spelling_wins.

(* the keys the BibTeX engine emits (the final self.citations): a key that is cited is emitted under the
   spelling of the citation list (consistently spelled citations, as the property's quantifier says) *)
Theorem emitted_spelling : forall db cites m k c,
  consistent cites -> In k (fst (command_read_raw db cites m)) -> In c cites -> keyb c k = true -> k = c.
Proof. exact emitted_spelling_lemma. Qed.
Print Assumptions emitted_spelling.

(* ... and so does the Python engine (it emits entry.key) *)
Theorem py_emitted_spelling : forall db cites m k c,
  consistent cites -> In k (fst (py_engine_raw db cites m)) -> In c cites -> keyb c k = true -> k = c.
Proof. exact py_emitted_spelling_lemma. Qed.
Print Assumptions py_emitted_spelling.

(* both engines' front ends select the same entries in the same order (up to letter case) *)
Theorem engines_agree : forall db cites m,
  map lower (fst (py_engine_raw db cites m)) = map lower (fst (command_read_raw db cites m)).
Proof. exact engines_agree_lemma. Qed.
Print Assumptions engines_agree.

(* F13 (known finding): reading filtered by the citations is NOT always the same as reading the
   whole file and selecting -- a parent placed before its only cited child is skipped (it is not yet
   wanted when the parser meets it), is then not added, and a 'bad cross-reference' is reported although
   the target exists.  Witness: file [P; C -> P], \citation{C}, min_crossrefs 1. *)
Theorem filtered_parent_first_refuted : exists db cites m,
  map lower (fst (command_read_raw db cites m)) <> map lower (fst (select_unfiltered db cites m)).
Proof. exact filtered_refuted. Qed.
Print Assumptions filtered_parent_first_refuted.
Example f13_example :
  map lower (fst (command_read_raw f13_db [s2l "C"] 1)) <> map lower (fst (select_unfiltered f13_db [s2l "C"] 1)) /\
  snd (command_read_raw f13_db [s2l "C"] 1) = [RBadXref (s2l "C") (s2l "P")] /\
  snd (select_unfiltered f13_db [s2l "C"] 1) = [].
Proof. exact f13_witness. Qed.

(* ... and it IS the same (same entries, same order, up to the letter case of keys) for every database,
   citation list and min_crossrefs that obey BibTeX's documented ordering rule: a cross-referenced entry
   that is not itself cited comes after every cited entry referring to it.  No other hypothesis: repeated
   keys, dangling / mixed-case / self / chained references, '*' anywhere, unknown keys are all covered. *)
Theorem filtered_equals_unfiltered : forall db cites m, parents_follow_children db cites ->
  map lower (fst (command_read_raw db cites m)) = map lower (fst (select_unfiltered db cites m)).
Proof. exact filtered_unfiltered. Qed.
Print Assumptions filtered_equals_unfiltered.
(* under the same rule the filtered reading also REPORTS exactly what the whole reading reports: the same
   missing keys and the same dangling cross-references, in the same order (up to letter case) -- so the
   spurious 'bad cross-reference' of F13 cannot occur *)
Theorem filtered_reports_equal : forall db cites m, parents_follow_children db cites ->
  map lower (missing_reports (snd (command_read_raw db cites m))) =
  map lower (missing_reports (snd (select_unfiltered db cites m))) /\
  map lowpair (badxref_reports (snd (command_read_raw db cites m))) =
  map lowpair (badxref_reports (snd (select_unfiltered db cites m))).
Proof. exact filtered_reports. Qed.
Print Assumptions filtered_reports_equal.
(* and what the whole reading reports as a bad cross-reference is dangling in the FILE: the first entry of
   that key has this crossref and no entry of the file has the target key *)
Theorem whole_dangling_is_dangling_in_file : forall db cites m c p,
  In (c, p) (badxref_reports (snd (select_unfiltered db cites m))) ->
  (exists e, find (fun e => keyb c (fst e)) db = Some e /\ snd e = Some p) /\
  existsb (keyb p) (map fst db) = false.
Proof. exact whole_dangling_file_lemma. Qed.
Print Assumptions whole_dangling_is_dangling_in_file.
(* filtered_equals_unfiltered speaks of the EMITTED keys only (one level of cross-references).  What the
   filtered reading leaves in bib_data.entries matters too (fields are inherited along crossref CHAINS):
   every key reachable from the citations through chains of cross-references (of first entries) is kept iff
   the file has it, and what is kept is the first entry of that key -- provided each (uncited) target comes
   after the reachable entry naming it (the ordering rule along the whole chain) *)
Theorem reader_keeps_reachable : forall db cites, ancestors_follow_descendants db cites ->
  forall q, reach db cites q ->
  ed_mem q (bd_entries (read_db (Some cites) db)) = existsb (keyb q) (map fst db) /\
  (forall e, first_entry q db = Some e ->
     exists k', ed_get q (bd_entries (read_db (Some cites) db)) = Some (k', snd e) /\ keyb k' (fst e) = true).
Proof. exact reader_keeps_reachable_lemma. Qed.
Print Assumptions reader_keeps_reachable.

(* hence the entries whose fields a reachable entry sees (Entry._find_field's walk along crossref) are the
   same, up to letter case, in the filtered and in the whole reading -- for every walk length *)
Theorem filtered_chain_equals_unfiltered : forall db cites, ancestors_follow_descendants db cites ->
  forall n q, reach db cites q ->
  map lower (chain (bd_entries (read_db (Some cites) db)) n q) = map lower (chain (bd_entries (read_db None db)) n q).
Proof. exact filtered_chain_lemma. Qed.
Print Assumptions filtered_chain_equals_unfiltered.
Example chain_afd_example :
  ancestors_follow_descendants chain_db [s2l "c"] /\
  ed_keys (bd_entries (read_db (Some [s2l "c"]) chain_db)) = [s2l "c"; s2l "p"; s2l "g"] /\
  chain (bd_entries (read_db (Some [s2l "c"]) chain_db)) 4 (s2l "c") = [s2l "c"; s2l "p"; s2l "g"] /\
  ed_keys (bd_entries (read_db (Some [s2l "c"]) (rev chain_db))) = [s2l "c"].
Proof. split; [exact chain_db_afd|exact chain_example]. Qed.

(* the hypothesis is met by a non-trivial database (child before parent, threshold 2, mixed case) and is
   exactly what the F13 witness violates *)
Example pfc_example :
  let db := [(K "c1", Some (K "P")); (K "C2", Some (K "p")); (K "p", None); (K "x", None)] in
  (forall i c p j, nth_error db i = Some (c, Some p) -> first_index c db = Some i -> cited_by [K "C1"; K "c2"] c = true ->
     first_index p db = Some j -> cited_by [K "C1"; K "c2"] p = true \/ i < j) /\
  fst (command_read_raw db [K "C1"; K "c2"] 2) = [K "C1"; K "c2"; K "p"] /\
  fst (select_unfiltered db [K "C1"; K "c2"] 2) = [K "C1"; K "c2"; K "p"].
Proof.
  cbv zeta. split; [|vm_compute; auto].
  intros i c p j Hn. destruct i as [|[|[|[|i]]]]; cbn in Hn; try discriminate.
  - injection Hn as <- <-. vm_compute. intros _ _ [= <-]. right. lia.
  - injection Hn as <- <-. vm_compute. intros _ _ [= <-]. right. lia.
  - destruct i; discriminate.
Qed.
Example f13_not_pfc : ~ parents_follow_children f13_db [s2l "C"].
Proof.
  intros H. specialize (H 1 (s2l "C") (s2l "P") 0 eq_refl eq_refl eq_refl eq_refl).
  destruct H as [H|H]; [vm_compute in H; discriminate|lia].
Qed.

(* ---- non-vacuity / sanity: the doctests of the anchored functions and a threshold example *)
Definition db4 : edict := [(K "uno", None); (K "dos", None); (K "tres", None); (K "cuatro", None)].
Example expand_example :
  expand db4 [K "dos"; K "*"] = [K "dos"; K "uno"; K "tres"; K "cuatro"] /\
  expand db4 [K "*"; K "DOS"] = [K "uno"; K "dos"; K "tres"; K "cuatro"].
Proof. vm_compute. auto. Qed.
Definition db5 : edict := [(K "c1", Some (K "P")); (K "c2", Some (K "p")); (K "p", None); (K "c3", Some (K "q"))].
Example crossrefs_example :
  crossrefs db5 [K "C1"; K "c2"; K "c3"] 2 = [K "p"] /\ crossrefs db5 [K "C1"; K "c2"; K "c3"] 1 = [K "p"] /\
  crossrefs db5 [K "c1"; K "c2"; K "P"] 1 = [] /\
  add_extra db5 [K "*"; K "x"] 3 = ([K "c1"; K "c2"; K "p"; K "c3"; K "x"], [RBadXref (K "c3") (K "q")]).
Proof. vm_compute. auto 6. Qed.
Example consistent_example : consistent [K "c1"; K "P"; K "c1"; K "*"] /\ ~ consistent [K "c1"; K "C1"].
Proof.
  split.
  - intros a b Ha Hb. cbn in Ha, Hb.
    repeat (destruct Ha as [<-|Ha]; [repeat (destruct Hb as [<-|Hb]; [vm_compute; try reflexivity; discriminate|]); contradiction|]); contradiction.
  - intros H. specialize (H (K "c1") (K "C1")). cbn in H. discriminate H; auto.
Qed.
Example command_read_example :
  command_read_raw [(K "p", None); (K "C1", Some (K "P")); (K "c2", Some (K "zz"))] [K "c1"; K "nope"; K "c2"; K "P"] 1
  = ([K "c1"; K "c2"; K "P"], [RBadXref (K "c2") (K "zz"); RMissing (K "nope")]) /\
  bd_entries (read_db (Some [K "c1"; K "P"]) [(K "p", None); (K "C1", Some (K "P"))]) = [(K "P", None); (K "c1", Some (K "P"))].
Proof. vm_compute. auto. Qed.
