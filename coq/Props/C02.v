(* Props/C02.v -- write/read round trip and cross-format conversion preserve the database.
   Only statements. *)
From Pybtex Require Import Base.Prelude Base.PyChar Base.PyStr Model.BibtexStr Model.Names Model.Scanner Model.BibParser Model.Writers Proofs.Writers.

(* F18 (set aside by the property text): each of # % & _ ~ in a field value is re-escaped by the BibTeX
   writer (latexcodec), so the value read back differs *)
Theorem five_chars_refuted :
  Forall (fun c => exists rd, write_read latex_enc FBib (one_field_db [97; c; 98]%N) = Ok rd /\ rd <> one_field_db [97; c; 98]%N)
         [35; 37; 38; 95; 126]%N.
Proof. exact five_chars_refuted_pf. Qed.
Print Assumptions five_chars_refuted.
