(* Props/C02.v -- write/read round trip and cross-format conversion preserve the database.
   Only statements, each closed by `exact <lemma>`, its assumptions printed, and Examples showing the
   hypotheses are met by non-trivial values.
   Model/Writers.v:  wdb (keys in order, original entry type, fields in order, persons per role, preamble list);
   to_tree_yaml / from_tree_yaml = yaml Writer._to_dict / Parser.parse_stream+process_entry on the tree PyYAML
   dumps / loads;  to_tree_xml / from_tree_xml = bibtexml Writer._write / Parser.parse_tree+process_entry+
   process_person on the element tree;  lower_db = BibliographyData.lower();  reparse_person p =
   Person(first=' '.join(p.first_names), ...);  write_read enc f = parse_string(data.to_string(f), f).
   Proofs/WritersDict.v: wf_db (keys, field names, roles unique up to case; every role has a person -- what the API
   builds), map_ids.  Proofs/WritersTree.v: parts_ok p := reparse_person p = Ok p, yaml_ok, xml_ok. *)
From Pybtex Require Import Base.Prelude Base.PyChar Base.PyStr Model.BibtexStr Model.Names Model.Scanner Model.BibParser Model.Writers
  Proofs.Writers Proofs.WritersDict Proofs.WritersTree Proofs.WritersQuote Proofs.WritersPerson Proofs.WritersChain.

(* ---- identifier lower-casing changes nothing but the letter case of keys, entry types, field names, roles *)
Theorem lower_only_case : forall d, wf_db d -> lower_db d = Ok (map_ids lower d).
Proof. exact lower_only_case_pf. Qed.
Print Assumptions lower_only_case.

Theorem lower_idempotent : forall d, wf_db d -> exists d', lower_db d = Ok d' /\ lower_db d' = Ok d'.
Proof. exact lower_idempotent_pf. Qed.
Print Assumptions lower_idempotent.

(* ---- YAML glue: reading the tree the writer builds gives the database back (the preamble as one text).
   yaml_ok: no field is called author / editor / type (up to case); roles are author / editor (up to case);
   every person survives being spelled as the texts of its parts (parts_ok; see person_parts_roundtrip below) *)
Theorem yaml_glue_roundtrip : forall d, wf_db d -> yaml_ok d -> from_tree_yaml (to_tree_yaml d) = Ok (norm_preamble d).
Proof. exact yaml_glue_roundtrip_pf. Qed.
Print Assumptions yaml_glue_roundtrip.

(* FC02b (finding): the hypothesis "no field called type" is needed -- such a field replaces the entry type *)
Theorem yaml_type_field_refuted :
  exists rd, write_read latex_enc FYaml (field_db k_type [84]%N) = Ok rd /\
             we_otype (hd (mkWE [] [] [] []) (wd_entries rd)) = [84]%N /\ we_fields (hd (mkWE [] [] [] []) (wd_entries rd)) = [].
Proof. exact yaml_type_field_refuted_pf. Qed.
Print Assumptions yaml_type_field_refuted.

(* ---- BibTeXML glue: same, the preamble is not carried.  xml_ok: roles are exactly "author" / "editor",
   no field has one of these two names, persons are parts_ok *)
Theorem xml_glue_roundtrip : forall d, wf_db d -> xml_ok d -> from_tree_xml (to_tree_xml d) = Ok (drop_preamble d).
Proof. exact xml_glue_roundtrip_pf. Qed.
Print Assumptions xml_glue_roundtrip.

(* FC02a (finding): with the role spelled Author (as the .bib reader keeps it) the persons are lost.
   Full statement (false): xml_glue_roundtrip with roles author / editor up to case, as for YAML *)
Theorem xml_role_case_refuted :
  exists rd, write_read latex_enc FXml (role_db [65; 117; 116; 104; 111; 114]%N) = Ok rd /\
             we_persons (hd (mkWE [] [] [] []) (wd_entries rd)) = [] /\ rd <> role_db [65; 117; 116; 104; 111; 114]%N.
Proof. exact xml_role_case_refuted_pf. Qed.
Print Assumptions xml_role_case_refuted.

(* F18 (set aside by the property text): each of # % & _ ~ in a field value is re-escaped by the BibTeX
   writer (latexcodec), so the value read back differs *)
Theorem five_chars_refuted :
  Forall (fun c => exists rd, write_read latex_enc FBib (one_field_db [97; c; 98]%N) = Ok rd /\ rd <> one_field_db [97; c; 98]%N)
         [35; 37; 38; 95; 126]%N.
Proof. exact five_chars_refuted_pf. Qed.
Print Assumptions five_chars_refuted.

(* ---- non-vacuity: a two-entry database with mixed-case identifiers, braces, quotes, a von / jr person *)
Definition ex_person : person := mkPerson [s2l "Jean"] [] [s2l "de"; s2l "la"] [s2l "Fontaine"] [s2l "Jr."].
Definition ex_db : wdb :=
  mkWDb [mkWE (s2l "Key1") (s2l "Book") [(s2l "Title", s2l "A {B} ""c"""); (s2l "YEAR", s2l "1984")] [(s2l "Author", [ex_person; knuth])];
         mkWE (s2l "k2") (s2l "misc") [(s2l "note", s2l "x")] []] [s2l "pre"; s2l "amble"].
Definition ex_db_lc : wdb :=
  mkWDb [mkWE (s2l "Key1") (s2l "Book") [(s2l "Title", s2l "A {B} ""c""")] [(s2l "author", [ex_person; knuth])]] [].
Example ex_wf : wf_db ex_db /\ yaml_ok ex_db /\ wf_db ex_db_lc /\ xml_ok ex_db_lc.
Proof.
  repeat split; repeat constructor; cbn; try (intros [H|H]; try discriminate H; try contradiction); try tauto; try discriminate.
Qed.
Example ex_lower : lower_db ex_db = Ok (map_ids lower ex_db) /\ map_ids lower ex_db <> ex_db.
Proof. split; [vm_compute; reflexivity|intro H; discriminate H]. Qed.
Example ex_yaml : from_tree_yaml (to_tree_yaml ex_db) = Ok (norm_preamble ex_db) /\ wd_preamble (norm_preamble ex_db) = [s2l "preamble"].
Proof. vm_compute. auto. Qed.
Example ex_xml : from_tree_xml (to_tree_xml ex_db_lc) = Ok (drop_preamble ex_db_lc).
Proof. vm_compute. auto. Qed.

(* ---- Writer.quote against the .bib reader: for a brace-balanced value (nesting <= 100; Proofs/WritersQuote.v
   [balanced]) whatever quote returns -- "v" or {v} -- is read back by parse_value_part as exactly v, consuming
   exactly the quoted text, reporting no error and leaving the rest of the parser state (macros, errors,
   current_* attributes: [frame]) untouched.  [m] is the error mode, [tail] what follows in the file. *)
Theorem quote_roundtrip : forall m v q s tail,
  balanced v -> quote v = Ok q -> sc_rest (p_sc s) = q ++ tail ->
  exists s', parse_value_part m s = Ret v s' /\ sc_rest (p_sc s') = tail /\ frame s' = frame s.
Proof. exact quote_roundtrip_pf. Qed.
Print Assumptions quote_roundtrip.

(* ---- persons: joining the tokens of each part with one space (get_part_as_text) and re-splitting
   (Person(first=..., ...)) is the identity.  Proved for tokens of plain characters (non-empty, no whitespace,
   none of ~ \ { }); full statement of DESIGN.md (brace-balanced tokens without brace-level-0 BibTeX space that
   do not end in a backslash) not proved yet: partial. *)
Theorem person_parts_roundtrip_partial : forall p, plain_person p -> reparse_person p = Ok p.
Proof. exact person_parts_plain_pf. Qed.
Print Assumptions person_parts_roundtrip_partial.

(* ... and the restriction on backslashes is needed: tokens  a\  b  come back as  a  b *)
Theorem person_parts_backslash_refuted :
  Forall (fun t => t <> [] /\ forallb (fun c => negb (is_space c || (c =? c_tilde) || is_lbrace c || is_rbrace c))%N t = true)
         (p_first backslash_person ++ p_last backslash_person) /\
  reparse_person backslash_person = Ok (mkPerson [[97]; [98]] [] [] [[67]] [])%N /\
  reparse_person backslash_person <> Ok backslash_person.
Proof. exact person_parts_backslash_refuted_pf. Qed.
Print Assumptions person_parts_backslash_refuted.

Example ex_quote_braced : balanced (s2l "A {B} ""c""") /\ quote (s2l "A {B} ""c""") = Ok (s2l "{A {B} ""c""}").
Proof. vm_compute. auto. Qed.
Example ex_quote_quoted : balanced (s2l "A {B{C}} \""{o}") /\ quote (s2l "A {B{C}} \""{o}") = Ok (s2l "{A {B{C}} \""{o}}")
  /\ balanced (s2l "x {y}") /\ quote (s2l "x {y}") = Ok (s2l """x {y}""").
Proof. vm_compute. auto. Qed.
Example ex_plain_person : plain_person ex_person /\ plain_person knuth.
Proof. split; repeat constructor; discriminate. Qed.

(* ---- conversion chains through the tree formats (to_file; convert(); ...; parse_file): for every chain of
   YAML / BibTeXML steps of any length, with or without identifier lower-casing, and every database of the common
   domain (tree_ok = wf_db, yaml_ok, xml_ok), the chain ends with the data it started from: [expect] applies,
   step by step, only "the preamble becomes one text" (YAML) / "the preamble is not carried" (BibTeXML) and,
   when preserve_case is off, ASCII-lower on identifiers ...
   Partial: chains containing a BibTeX step are not covered (bibtex_roundtrip is not proved). *)
Theorem chain_roundtrip_trees_partial : forall enc fs pc d, Forall (fun f => f <> FBib) fs -> tree_ok d ->
  chain enc fs pc d = Ok (expect fs pc d).
Proof. exact chain_roundtrip_trees_pf. Qed.
Print Assumptions chain_roundtrip_trees_partial.

(* ... so the entries come back untouched with preserve_case ... *)
Theorem chain_entries_preserved : forall fs d, wd_entries (expect fs true d) = wd_entries d.
Proof. exact expect_entries_preserve. Qed.
Print Assumptions chain_entries_preserved.

(* ... and changed in nothing but the letter case of their identifiers without it *)
Theorem chain_entries_lowered : forall f g r d, wd_entries (expect (f :: g :: r) false d) = wd_entries (map_ids lower d).
Proof. exact expect_entries_lower. Qed.
Print Assumptions chain_entries_lowered.

Example ex_chain : tree_ok ex_db_lc /\
  chain latex_enc [FYaml; FXml; FYaml] false ex_db_lc = Ok (expect [FYaml; FXml; FYaml] false ex_db_lc) /\
  wd_entries (expect [FYaml; FXml; FYaml] false ex_db_lc) <> wd_entries ex_db_lc.
Proof.
  split; [|split; [vm_compute; reflexivity|intro H; discriminate H]].
  repeat split; repeat constructor; cbn; try (intros [H|H]; try discriminate H; try contradiction); try tauto; try discriminate.
Qed.

(* ---- ... and Writer.quote never raises on a balanced value (check_braces accepts it), so that for every
   brace-balanced v there is a quoted text which the reader maps back to v in every parser state *)
Theorem quote_read_roundtrip : forall v, balanced v ->
  exists q, quote v = Ok q /\
    forall m s tail, sc_rest (p_sc s) = q ++ tail ->
      exists s', parse_value_part m s = Ret v s' /\ sc_rest (p_sc s') = tail /\ frame s' = frame s.
Proof. exact quote_read_pf. Qed.
Print Assumptions quote_read_roundtrip.
