(* Props/C02.v -- write/read round trip and cross-format conversion preserve the database.
   Only statements, each closed by `exact <lemma>`, its assumptions printed, and Examples showing the
   hypotheses are met by non-trivial values.
   Model/Writers.v:  wdb (keys in order, original entry type, fields in order, persons per role, preamble list);
   to_tree_yaml / from_tree_yaml = yaml Writer._to_dict / Parser.parse_stream+process_entry on the tree PyYAML
   dumps / loads;  to_tree_xml / from_tree_xml = bibtexml Writer._write / Parser.parse_tree+process_entry+
   process_person on the element tree;  lower_db = BibliographyData.lower();  reparse_person p =
   Person(first=' '.join(p.first_names), ...);  write_read enc f = parse_string(data.to_string(f), f).
   Proofs/WritersDict.v: wf_db (keys, field names, roles unique up to case; every role has a person -- what the API
   builds), map_ids.  Proofs/WritersTree.v: parts_ok p := reparse_person p = Ok p, yaml_ok, xml_ok. *)
From Pybtex Require Import Base.Prelude Base.PyChar Base.PyStr Model.BibtexStr Model.Names Model.Scanner Model.BibParser Model.Writers
  Proofs.Writers Proofs.WritersDict Proofs.WritersTree Proofs.WritersQuote Proofs.WritersPerson Proofs.WritersChain Proofs.WritersField Proofs.WritersName Proofs.WritersBib Proofs.WritersNameList Proofs.WritersBibP Proofs.WritersTokens Proofs.WritersName0 Proofs.WritersBool Proofs.WritersNameG.

(* ---- identifier lower-casing changes nothing but the letter case of keys, entry types, field names, roles *)
Theorem lower_only_case : forall d, wf_db d -> lower_db d = Ok (map_ids lower d).
Proof. exact lower_only_case_pf. Qed.
Print Assumptions lower_only_case.

Theorem lower_idempotent : forall d, wf_db d -> exists d', lower_db d = Ok d' /\ lower_db d' = Ok d'.
Proof. exact lower_idempotent_pf. Qed.
Print Assumptions lower_idempotent.

(* ---- YAML glue: reading the tree the writer builds gives the database back (the preamble as one text).
   yaml_ok: no field is called author / editor / type (up to case); roles are author / editor (up to case);
   every person survives being spelled as the texts of its parts (parts_ok; see person_parts_roundtrip below) *)
Theorem yaml_glue_roundtrip : forall d, wf_db d -> yaml_ok d -> from_tree_yaml (to_tree_yaml d) = Ok (norm_preamble d).
Proof. exact yaml_glue_roundtrip_pf. Qed.
Print Assumptions yaml_glue_roundtrip.

(* FC02b (finding): the hypothesis "no field called type" is needed -- such a field replaces the entry type *)
Theorem yaml_type_field_refuted :
  exists rd, write_read latex_enc FYaml (field_db k_type [84]%N) = Ok rd /\
             we_otype (hd (mkWE [] [] [] []) (wd_entries rd)) = [84]%N /\ we_fields (hd (mkWE [] [] [] []) (wd_entries rd)) = [].
Proof. exact yaml_type_field_refuted_pf. Qed.
Print Assumptions yaml_type_field_refuted.

(* ---- BibTeXML glue: same, the preamble is not carried.  xml_ok: roles are author / editor UP TO CASE (as for YAML,
   as the .bib reader keeps them), no field has one of these two names (up to case), persons are parts_ok.
   This is the full statement: before the repair afc7628 (finding FC02a, now fixed) the reader tested the role
   case-sensitively and the theorem held for the exact spellings only, with a refutation witness for "Author". *)
Theorem xml_glue_roundtrip : forall d, wf_db d -> xml_ok d -> from_tree_xml (to_tree_xml d) = Ok (drop_preamble d).
Proof. exact xml_glue_roundtrip_pf. Qed.
Print Assumptions xml_glue_roundtrip.

(* the former witness of FC02a now round-trips (regression) *)
Theorem xml_role_case : write_read latex_enc FXml (role_db [65; 117; 116; 104; 111; 114]%N) = Ok (role_db [65; 117; 116; 104; 111; 114]%N).
Proof. exact xml_role_case_fixed_pf. Qed.
Print Assumptions xml_role_case.

(* F18 (set aside by the property text): each of # % & _ ~ in a field value is re-escaped by the BibTeX
   writer (latexcodec), so the value read back differs *)
Theorem five_chars_refuted :
  Forall (fun c => exists rd, write_read latex_enc FBib (one_field_db [97; c; 98]%N) = Ok rd /\ rd <> one_field_db [97; c; 98]%N)
         [35; 37; 38; 95; 126]%N.
Proof. exact five_chars_refuted_pf. Qed.
Print Assumptions five_chars_refuted.

(* ---- non-vacuity: a two-entry database with mixed-case identifiers, braces, quotes, a von / jr person *)
Definition ex_person : person := mkPerson [s2l "Jean"] [] [s2l "de"; s2l "la"] [s2l "Fontaine"] [s2l "Jr."].
Definition ex_db : wdb :=
  mkWDb [mkWE (s2l "Key1") (s2l "Book") [(s2l "Title", s2l "A {B} ""c"""); (s2l "YEAR", s2l "1984")] [(s2l "Author", [ex_person; knuth])];
         mkWE (s2l "k2") (s2l "misc") [(s2l "note", s2l "x")] []] [s2l "pre"; s2l "amble"].
Definition ex_db_lc : wdb :=
  mkWDb [mkWE (s2l "Key1") (s2l "Book") [(s2l "Title", s2l "A {B} ""c""")] [(s2l "author", [ex_person; knuth])]] [].
Example ex_wf : wf_db ex_db /\ yaml_ok ex_db /\ wf_db ex_db_lc /\ xml_ok ex_db_lc.
Proof.
  repeat split; repeat constructor; cbn; try (intros [H|H]; try discriminate H; try contradiction); try tauto; try discriminate.
Qed.
Example ex_lower : lower_db ex_db = Ok (map_ids lower ex_db) /\ map_ids lower ex_db <> ex_db.
Proof. split; [vm_compute; reflexivity|intro H; discriminate H]. Qed.
Example ex_yaml : from_tree_yaml (to_tree_yaml ex_db) = Ok (norm_preamble ex_db) /\ wd_preamble (norm_preamble ex_db) = [s2l "preamble"].
Proof. vm_compute. auto. Qed.
Example ex_xml : from_tree_xml (to_tree_xml ex_db_lc) = Ok (drop_preamble ex_db_lc) /\ from_tree_xml (to_tree_xml ex_db) = Ok (drop_preamble ex_db).
Proof. vm_compute. auto. Qed.
Example ex_xml_ok_mixed_case : xml_ok ex_db.
Proof. repeat constructor; cbn; try (intros [H|H]; try discriminate H; try contradiction); try tauto; try discriminate. Qed.

(* ---- Writer.quote against the .bib reader: for a brace-balanced value (nesting <= 100; Proofs/WritersQuote.v
   [balanced]) whatever quote returns -- "v" or {v} -- is read back by parse_value_part as exactly v, consuming
   exactly the quoted text, reporting no error and leaving the rest of the parser state (macros, errors,
   current_* attributes: [frame]) untouched.  [m] is the error mode, [tail] what follows in the file. *)
Theorem quote_roundtrip : forall m v q s tail,
  balanced v -> quote v = Ok q -> sc_rest (p_sc s) = q ++ tail ->
  exists s', parse_value_part m s = Ret v s' /\ sc_rest (p_sc s') = tail /\ frame s' = frame s.
Proof. exact quote_roundtrip_pf. Qed.
Print Assumptions quote_roundtrip.

(* ---- persons: joining the tokens of each part with one space (get_part_as_text) and re-splitting
   (Person(first=..., ...)) is the identity.  Proved for tokens of plain characters (non-empty, no whitespace,
   none of ~ \ { }); full statement of DESIGN.md (brace-balanced tokens without brace-level-0 BibTeX space that
   do not end in a backslash) not proved yet: partial. *)
Theorem person_parts_roundtrip_partial : forall p, plain_person p -> reparse_person p = Ok p.
Proof. exact person_parts_plain_pf. Qed.
Print Assumptions person_parts_roundtrip_partial.

(* ... and the restriction on backslashes is needed: tokens  a\  b  come back as  a  b *)
Theorem person_parts_backslash_refuted :
  Forall (fun t => t <> [] /\ forallb (fun c => negb (is_space c || (c =? c_tilde) || is_lbrace c || is_rbrace c))%N t = true)
         (p_first backslash_person ++ p_last backslash_person) /\
  reparse_person backslash_person = Ok (mkPerson [[97]; [98]] [] [] [[67]] [])%N /\
  reparse_person backslash_person <> Ok backslash_person.
Proof. exact person_parts_backslash_refuted_pf. Qed.
Print Assumptions person_parts_backslash_refuted.

Example ex_quote_braced : balanced (s2l "A {B} ""c""") /\ quote (s2l "A {B} ""c""") = Ok (s2l "{A {B} ""c""}").
Proof. vm_compute. auto. Qed.
Example ex_quote_quoted : balanced (s2l "A {B{C}} \""{o}") /\ quote (s2l "A {B{C}} \""{o}") = Ok (s2l "{A {B{C}} \""{o}}")
  /\ balanced (s2l "x {y}") /\ quote (s2l "x {y}") = Ok (s2l """x {y}""").
Proof. vm_compute. auto. Qed.
Example ex_plain_person : plain_person ex_person /\ plain_person knuth.
Proof. split; repeat constructor; discriminate. Qed.

(* ---- conversion chains through the tree formats (to_file; convert(); ...; parse_file): for every chain of
   YAML / BibTeXML steps of any length, with or without identifier lower-casing, and every database of the common
   domain (tree_ok = wf_db, yaml_ok, xml_ok), the chain ends with the data it started from: [expect] applies,
   step by step, only "the preamble becomes one text" (YAML) / "the preamble is not carried" (BibTeXML) and,
   when preserve_case is off, ASCII-lower on identifiers ...
   Partial: chains containing a BibTeX step are not covered (bibtex_roundtrip is not proved). *)
Theorem chain_roundtrip_trees_partial : forall enc fs pc d, Forall (fun f => f <> FBib) fs -> tree_ok d ->
  chain enc fs pc d = Ok (expect fs pc d).
Proof. exact chain_roundtrip_trees_pf. Qed.
Print Assumptions chain_roundtrip_trees_partial.

(* ... so the entries come back untouched with preserve_case ... *)
Theorem chain_entries_preserved : forall fs d, wd_entries (expect fs true d) = wd_entries d.
Proof. exact expect_entries_preserve. Qed.
Print Assumptions chain_entries_preserved.

(* ... and changed in nothing but the letter case of their identifiers without it *)
Theorem chain_entries_lowered : forall f g r d, wd_entries (expect (f :: g :: r) false d) = wd_entries (map_ids lower d).
Proof. exact expect_entries_lower. Qed.
Print Assumptions chain_entries_lowered.

Example ex_chain : tree_ok ex_db_lc /\
  chain latex_enc [FYaml; FXml; FYaml] false ex_db_lc = Ok (expect [FYaml; FXml; FYaml] false ex_db_lc) /\
  wd_entries (expect [FYaml; FXml; FYaml] false ex_db_lc) <> wd_entries ex_db_lc.
Proof.
  split; [|split; [vm_compute; reflexivity|intro H; discriminate H]].
  repeat split; repeat constructor; cbn; try (intros [H|H]; try discriminate H; try contradiction); try tauto; try discriminate.
Qed.

(* ---- ... and Writer.quote never raises on a balanced value (check_braces accepts it), so that for every
   brace-balanced v there is a quoted text which the reader maps back to v in every parser state *)
Theorem quote_read_roundtrip : forall v, balanced v ->
  exists q, quote v = Ok q /\
    forall m s tail, sc_rest (p_sc s) = q ++ tail ->
      exists s', parse_value_part m s = Ret v s' /\ sc_rest (p_sc s') = tail /\ frame s' = frame s.
Proof. exact quote_read_pf. Qed.
Print Assumptions quote_read_roundtrip.

(* ---- the tree round trips with the serialisation library in between.  [ydump]/[yload] stand for PyYAML's dump
   (with the writer's options) and load (with the reader's loader), [xdump]/[xload] for XMLGenerator and ElementTree;
   nothing is assumed of them except, as an explicit hypothesis, that the one tree the writer builds for this database
   comes back unchanged.  That hypothesis is what the correspondence run samples on every case (function 6 / 8 compare
   the tree loaded from the real to_string output with to_tree_yaml / to_tree_xml), including scalar shapes a library
   may re-type ('007', 'true', '1e3', '~', ...). *)
Theorem yaml_roundtrip : forall (text : Type) (ydump : tree -> text) (yload : text -> res tree) d,
  wf_db d -> yaml_ok d -> yload (ydump (to_tree_yaml d)) = Ok (to_tree_yaml d) ->
  read_yaml text yload (write_yaml text ydump d) = Ok (norm_preamble d).
Proof. exact yaml_roundtrip_pf. Qed.
Print Assumptions yaml_roundtrip.

Theorem xml_roundtrip : forall (text : Type) (xdump : xml -> text) (xload : text -> res xml) d,
  wf_db d -> xml_ok d -> xload (xdump (to_tree_xml d)) = Ok (to_tree_xml d) ->
  read_xml text xload (write_xml text xdump d) = Ok (drop_preamble d).
Proof. exact xml_roundtrip_pf. Qed.
Print Assumptions xml_roundtrip.

(* the hypothesis is not decoration: a library that re-types a scalar -- the tree of the database with value v' comes
   back for the database with value v -- makes the reader return that other database; the glue cannot repair it *)
Theorem yaml_scalar_retyped : forall (text : Type) (ydump : tree -> text) (yload : text -> res tree) name v v',
  yaml_ok (field_db name v') ->
  yload (ydump (to_tree_yaml (field_db name v))) = Ok (to_tree_yaml (field_db name v')) -> v <> v' ->
  read_yaml text yload (write_yaml text ydump (field_db name v)) = Ok (field_db name v') /\ field_db name v' <> field_db name v.
Proof. exact yaml_scalar_retyped_pf. Qed.
Print Assumptions yaml_scalar_retyped.

(* ---- a field as the BibTeX writer writes it is read back by the reader's parse_field: for an identifier the NAME
   pattern matches, a brace-balanced value left alone by the LaTeX encoder (enc v = v: no # % & _ ~ with latexcodec),
   the text  newline, 4 spaces, name, " = ", quoted value  (what follows the separating comma), followed by any
   whitespace and anything that is neither whitespace nor '#', sets current_field_name = name and
   current_value = [v], leaves the scanner at that following character and touches nothing else; no error in any mode *)
Theorem field_roundtrip : forall enc m name v txt ws c t s,
  is_ident name -> balanced v -> enc v = v -> write_field enc name v = Ok txt ->
  forallb is_space ws = true -> is_space c = false -> c <> c_hash ->
  sc_rest (p_sc s) = tl txt ++ ws ++ c :: t ->
  exists s', parse_field m s = Ret tt s' /\ sc_rest (p_sc s') = c :: t /\
             p_fname s' = Some name /\ p_value s' = [v] /\
             p_fields s' = p_fields s /\ p_errs s' = p_errs s /\ p_macros s' = p_macros s /\ p_key s' = p_key s /\ p_cstart s' = p_cstart s.
Proof. exact field_roundtrip_pf. Qed.
Print Assumptions field_roundtrip.

Example ex_field : is_ident (s2l "Title") /\ balanced (s2l "A {B} ""c""") /\ latex_enc (s2l "A {B} ""c""") = s2l "A {B} ""c""" /\
  exists txt, write_field latex_enc (s2l "Title") (s2l "A {B} ""c""") = Ok txt /\ hd 0%N txt = c_comma.
Proof. repeat split; try (vm_compute; reflexivity). eexists; split; vm_compute; reflexivity. Qed.

(* ---- names through the BibTeX writer and the name parser: for every person that is [expressible]
   (Proofs/WritersName.v: tokens of plain characters without commas, exactly one first-name token -- BibTeX files
   every further given name under middle --, a last name, the von part empty or ending with a von token, no
   last-name token but the final one a von token; is_von_name is the parser's own test) the text
   Writer._format_name produces ("von Last, First Middle" / "von Last, Jr, First Middle") is parsed by Person(text)
   into exactly the same five parts, and nothing is reported.
   Partial: persons without a first name (written "von Last", the First-von-Last form) and braced tokens / special
   characters are not covered by the theorem (correspondence + oracle). *)
Theorem bibtex_name_roundtrip_partial : forall p, expressible p -> person_of_string (format_name p) = Ok (p, false).
Proof. exact bibtex_name_roundtrip_pf. Qed.
Print Assumptions bibtex_name_roundtrip_partial.

Example ex_expressible : expressible ex_person /\ expressible knuth /\
  format_name ex_person = s2l "de la Fontaine, Jr., Jean" /\ format_name knuth = s2l "Knuth, Donald E.".
Proof.
  unfold expressible. repeat match goal with |- _ /\ _ => split end;
    first [ reflexivity | discriminate | solve [eexists; reflexivity] | solve [right; reflexivity] | solve [left; reflexivity]
          | solve [repeat constructor; discriminate] | solve [repeat constructor] ].
Qed.

(* ---- FILE LEVEL: the BibTeX writer's output read back by the BibTeX reader (strict mode, as parse_string runs).
   [bib_ok enc d] (Proofs/WritersBib.v): d is API-buildable (wf_db); entry types are names other than
   comment/string/preamble, keys have no whitespace , }, field names are NAMEs other than author/editor; NO PERSONS;
   every field value is brace-balanced, whitespace-normalised (normalize_whitespace v = v) and left alone by the LaTeX
   encoder (enc v = v: with latexcodec, no # % & _ ~ -- F18); the preamble text, if any, likewise.
   The proof shows that write_stream emits exactly a rendering the reader theorems of the C01/C10 builder quantify
   over (Proofs/BibFile.v item_text / item_reads: '@' type '{' key, then per field  ',' newline 4 spaces name ' = '
   quoted value, newline '}' newline, an empty line between entries, '@preamble{' quoted text '}' first) and runs the
   reader's loop over it in strict mode with no error reported.
   Partial: persons (author / editor) are outside this theorem -- bibtex_name_roundtrip_partial covers one name, the
   ' and '-joined list and its passage through process_entry are left to correspondence + oracle; so are values that
   are not whitespace-normalised (the reader normalises them: not a round trip) and the five characters. *)
Theorem bibtex_roundtrip_partial : forall enc d, bib_ok enc d -> write_read enc FBib d = Ok (norm_preamble d).
Proof. exact bibtex_roundtrip_pf. Qed.
Print Assumptions bibtex_roundtrip_partial.

(* ---- chains of ANY formats (BibTeX, BibTeXML, YAML; any length), with or without identifier lower-casing, on the
   common domain all_ok = tree_ok /\ bib_ok: the chain ends with [expect fs pc d], whose entries are those of d
   (chain_entries_preserved) resp. those of d with ASCII-lower on keys, types, field names (chain_entries_lowered) --
   otherwise only the preamble is joined into one text / not carried by BibTeXML.  (Lower-casing keeps the domain:
   a lower-cased NAME is a NAME, a lower-cased key a key.)  Partial only through the domain: no persons, enc v = v. *)
Theorem chain_roundtrip_partial : forall enc fs pc d, all_ok enc d -> chain enc fs pc d = Ok (expect fs pc d).
Proof. exact chain_roundtrip_pc_pf. Qed.
Print Assumptions chain_roundtrip_partial.

Definition ex_db_bib : wdb :=
  mkWDb [mkWE (s2l "Key1") (s2l "Book") [(s2l "Title", s2l "A {B} ""c"""); (s2l "YEAR", s2l "1984")] [];
         mkWE (s2l "k2") (s2l "misc") [] []] [s2l "\def\x{y} "; s2l "z"].
Example ex_bib_ok : all_ok latex_enc ex_db_bib /\
  write_bibtex latex_enc ex_db_bib <> Ok [] /\
  chain latex_enc [FBib; FYaml; FBib; FXml] true ex_db_bib = Ok (drop_preamble ex_db_bib) /\
  chain latex_enc [FYaml; FBib; FBib] false ex_db_bib = Ok (norm_preamble (map_ids lower ex_db_bib)).
Proof.
  split; [|split; [intro H; vm_compute in H; discriminate H|split; vm_compute; reflexivity]].
  unfold all_ok, tree_ok, bib_ok, wf_db, yaml_ok, xml_ok.
  repeat match goal with |- _ /\ _ => split end;
    try solve [repeat constructor; cbn; try (intros [H|H]; try discriminate H; try contradiction); try tauto; try discriminate];
    try solve [repeat constructor; repeat split; reflexivity];
    try solve [right; repeat split; vm_compute; reflexivity].
Qed.

(* ---- FILE LEVEL WITH PERSONS: [bibp_ok enc d] (Proofs/WritersBibP.v) is bib_ok with persons allowed: every role
   (author / editor in any letter case, a NAME) has at least one person; every person is [name_okx]
   (Proofs/WritersNameList.v: its formatted text is a list of words none of which is "and", and the name parser reads it
   back), of which [name_ok] and the no-first-name form are instances (name_ok_instance, name_nofirst_instance below);
   [name_ok] = [expressible] (plain comma-free tokens, exactly one first-name token, a last name, von part empty or ending with a von token, no
   last-name token but the final one a von token) and no token is the word "and" in any letter case; the
   " and "-joined text of the formatted names is brace-balanced, whitespace-normalised and left alone by the encoder.
   The writer writes a role as one more field; the reader cuts it with split_name_list (re.split on ' and ', proved
   to hit exactly the separators) and parses each name (bibtex_name_roundtrip_partial), through process_entry, in
   strict mode, nothing reported.
   Partial: persons without a first name / braced tokens / special characters, non-normalised values, F18. *)
Theorem bibtex_roundtrip_persons_partial : forall enc d, bibp_ok enc d -> write_read enc FBib d = Ok (norm_preamble d).
Proof. exact bibtex_roundtrip_persons_pf. Qed.
Print Assumptions bibtex_roundtrip_persons_partial.

(* the token conditions are needed: a middle name "and" splits the person in two; a comma inside a token adds a part *)
Theorem name_and_refuted : exists rd, write_read latex_enc FBib (person_db and_person) = Ok rd /\ rd <> person_db and_person.
Proof. exact name_and_refuted_pf. Qed.
Print Assumptions name_and_refuted.
Theorem name_comma_refuted : exists rd, write_read latex_enc FBib (person_db comma_person) = Ok rd /\ rd <> person_db comma_person.
Proof. exact name_comma_refuted_pf. Qed.
Print Assumptions name_comma_refuted.

(* ---- chains of any formats (any length) over the domain with persons (tree_ok /\ bibp_ok), with or without
   identifier lower-casing (lower-casing keeps this domain too: roles stay roles, NAMEs stay NAMEs). *)
Theorem chain_roundtrip_persons_partial : forall enc fs pc d, allp_ok enc d -> chain enc fs pc d = Ok (expect fs pc d).
Proof. exact chain_roundtrip_persons_pc_pf. Qed.
Print Assumptions chain_roundtrip_persons_partial.

(* the two syntactic instances of the name domain of the file-level theorem *)
Theorem name_ok_instance : forall p, name_ok p -> name_okx p.
Proof. exact name_ok_x. Qed.
Print Assumptions name_ok_instance.
Theorem name_nofirst_instance : forall p, expressible0 p -> Forall noand_tok (p_prelast p ++ p_last p) -> name_okx p.
Proof. exact name_ok0_x. Qed.
Print Assumptions name_nofirst_instance.

Example ex_bibp_ok : bibp_ok latex_enc ex_db /\ wd_entries ex_db <> [] /\
  write_read latex_enc FBib ex_db = Ok (norm_preamble ex_db) /\ we_persons (hd (mkWE [] [] [] []) (wd_entries ex_db)) <> [].
Proof.
  split; [|split; [discriminate|split; [vm_compute; reflexivity|discriminate]]].
  unfold bibp_ok, bibp_ok_entry, wf_entry, role_ok, wok_field, bib_ok_field, role_fields.
  repeat match goal with
         | |- _ /\ _ => split
         | |- Forall _ _ => constructor
         | |- NoDup _ => constructor
         | |- name_okx _ => apply name_ok_x; unfold name_ok, expressible
         end;
    try solve [vm_compute; reflexivity]; try discriminate; try solve [eexists; reflexivity];
    try solve [right; vm_compute; reflexivity]; try solve [left; reflexivity];
    try solve [right; repeat split; vm_compute; reflexivity];
    try solve [cbn; intros H; repeat (destruct H as [H|H]; [discriminate H|]); exact H];
    try solve [intros []]; try solve [split; [discriminate|vm_compute; reflexivity]].
Qed.

(* ---- person_parts_roundtrip, the statement of DESIGN.md: joining the tokens of each part with one space and
   re-splitting (Person(first=' '.join(first_names), ...)) is the identity for every person whose tokens are
   [good_tok'] (Proofs/WritersTokens.v): non-empty, every opened brace closed, no leading / trailing whitespace, and no
   character that separates at brace level 0 -- whitespace, an unescaped tie, a backslash before a space, where the
   character after the token is taken to be the joining space (so a token may not END in a backslash:
   person_parts_backslash_refuted).  Braced groups, special characters, ties inside braces and escaped ties are all
   allowed.  Rests on the C04 builder's tokenizer_spec_all (split_tex_string = map strip . spec_tokens). With it the
   YAML / BibTeXML glue theorems (hypothesis parts_ok) cover such persons. *)
Theorem person_parts_roundtrip : forall p, good_person p -> reparse_person p = Ok p.
Proof. exact person_parts_roundtrip_pf. Qed.
Print Assumptions person_parts_roundtrip.

Example ex_good_person : good_person braced_person /\ p_first braced_person = [s2l "{\""O}z"] /\
  p_middle braced_person = [s2l "{A B}"; s2l "a\~b"] /\ p_last braced_person = [s2l "{B and N}"].
Proof. split; [exact braced_person_good|repeat split]. Qed.

(* ---- names WITHOUT a first name through the BibTeX writer and the name parser: Writer._format_name writes
   "von Last" (no comma), which Person(string) reads in the First-von-Last form.  [expressible0]
   (Proofs/WritersName0.v): no first / middle / lineage part, plain comma-free tokens, and either a single last-name
   token with no von part ("Knuth"), or a von part that begins and ends with a von token and a last name none of whose
   tokens but the final one is a von token ("van der Waals Jansen").  (A person with several last-name tokens, no von
   part and no first name has no such spelling: the first token would be read as the first name.)
   Still partial: braced tokens / special characters in names at BibTeX level, lineage without a first name
   (no BibTeX spelling without a trailing comma). *)
Theorem bibtex_name_roundtrip_nofirst_partial : forall p, expressible0 p -> person_of_string (format_name p) = Ok (p, false).
Proof. exact bibtex_name_roundtrip0_pf. Qed.
Print Assumptions bibtex_name_roundtrip_nofirst_partial.

Example ex_expressible0 :
  expressible0 (mkPerson [] [] [] [s2l "Knuth"] []) /\
  expressible0 (mkPerson [] [] [s2l "van"; s2l "der"] [s2l "Waals"; s2l "Jansen"] []) /\
  format_name (mkPerson [] [] [s2l "van"; s2l "der"] [s2l "Waals"; s2l "Jansen"] []) = s2l "van der Waals Jansen".
Proof.
  assert (T : forall t, t <> [] -> forallb nplain t = true -> nplain_tok t) by (intros t A B; split; assumption).
  split; [|split; [|reflexivity]]; unfold expressible0; cbn [p_first p_middle p_lineage p_prelast p_last].
  - repeat split; try constructor; try constructor; try (apply T; [discriminate|vm_compute; reflexivity]).
    + reflexivity.
    + exists (s2l "Knuth"), false. split; [reflexivity|vm_compute; reflexivity].
  - split; [reflexivity|]. split; [reflexivity|]. split; [reflexivity|].
    split; [repeat (constructor; [apply T; [discriminate|vm_compute; reflexivity]|]); constructor|].
    split; [repeat (constructor; [apply T; [discriminate|vm_compute; reflexivity]|]); constructor|].
    right. split; [vm_compute; reflexivity|]. split; [vm_compute; reflexivity|]. split; [discriminate|]. split; [discriminate|].
    cbn [removelast]. constructor; [vm_compute; reflexivity|constructor].
Qed.

(* plain-token names (both forms) also satisfy the hypothesis parts_ok of the YAML / BibTeXML glue theorems, so for such
   persons the common chain domain allp_ok reduces to conditions on identifiers and values *)
Theorem expressible_parts_ok : forall p, expressible p -> parts_ok p.
Proof. exact Proofs.WritersName0.expressible_parts_ok. Qed.
Print Assumptions expressible_parts_ok.
Theorem expressible0_parts_ok : forall p, expressible0 p -> parts_ok p.
Proof. exact Proofs.WritersName0.expressible0_parts_ok. Qed.
Print Assumptions expressible0_parts_ok.

(* non-vacuity of the widened file-level domain: authors without a first name, a chain with lower-casing *)
Definition ex_db_nofirst : wdb :=
  mkWDb [mkWE (s2l "Key1") (s2l "Book") [(s2l "Title", s2l "T")]
              [(s2l "Author", [mkPerson [] [] [s2l "van"; s2l "der"] [s2l "Waals"; s2l "Jansen"] []; mkPerson [] [] [] [s2l "Knuth"] []; ex_person])]] [].
Example ex_nofirst_roundtrip :
  write_read latex_enc FBib ex_db_nofirst = Ok ex_db_nofirst /\
  chain latex_enc [FBib; FYaml; FBib; FXml] false ex_db_nofirst = Ok (map_ids lower ex_db_nofirst).
Proof. split; vm_compute; reflexivity. Qed.

(* ---- a BOOLEAN, computable well-formedness predicate for the file-level round trip with latexcodec's encoder
   (Proofs/WritersBool.v [bibp_okb]: unique keys / field names / roles up to case; entry types, keys, field names the
   reader's patterns accept; every field value, every joined name list and the preamble text brace-balanced,
   fixed by normalize_whitespace and fixed by the encoder -- all three by evaluation; every person in one of the two
   proved name shapes with no token "and") and its soundness: whenever the predicate EVALUATES to true the round trip
   is the identity.  [allp_okb] adds "no field called type" and gives every chain of formats. *)
Theorem bibtex_roundtrip_checked : forall d, bibp_okb d = true -> write_read latex_enc FBib d = Ok (norm_preamble d).
Proof. exact bibtex_roundtrip_bool_pf. Qed.
Print Assumptions bibtex_roundtrip_checked.

Theorem chain_roundtrip_checked : forall fs pc d, allp_okb d = true -> chain latex_enc fs pc d = Ok (expect fs pc d).
Proof. exact chain_roundtrip_bool_pf. Qed.
Print Assumptions chain_roundtrip_checked.

(* the predicate is satisfiable by non-trivial databases, and rejects the known counter-examples *)
Example ex_checked : bibp_okb ex_db = true /\ allp_okb ex_db_nofirst = true /\ allp_okb ex_db_bib = true /\
  bibp_okb (one_field_db (s2l "100%")) = false /\ bibp_okb (person_db and_person) = false /\
  bibp_okb (person_db comma_person) = false /\ bibp_okb (one_field_db (s2l "a  b")) = false /\ allp_okb (field_db k_type (s2l "T")) = false.
Proof. repeat split; vm_compute; reflexivity. Qed.

(* ---- bibtex_name_roundtrip for GENERAL tokens (comma forms): [expressibleG] (Proofs/WritersNameG.v) is [expressible]
   with tokens that are any non-empty string with every brace closed, no leading / trailing whitespace, no separator
   at brace level 0 (whitespace, unescaped tie, backslash before a space; cf. person_parts_roundtrip) and no comma at
   brace level 0 ([gtok]; computable form [gtokb]): braced groups ("{Barnes and Noble, Inc.}"), special characters
   ({\"O}zt{\"u}rk), commas and "and" inside braces are all allowed.  Through the C04 builder's comma_split_spec and
   tokenizer_spec_all.  Still partial: exactly one first-name token (the no-first-name form is proved for plain tokens
   only: bibtex_name_roundtrip_nofirst_partial); at FILE level names must be lists of words (no spaces inside tokens),
   so braced tokens with spaces are not covered by bibtex_roundtrip_persons_partial. *)
Theorem bibtex_name_roundtrip_general_partial : forall p, expressibleG p -> person_of_string (format_name p) = Ok (p, false).
Proof. exact bibtex_name_roundtripG_pf. Qed.
Print Assumptions bibtex_name_roundtrip_general_partial.

Example ex_expressibleG : expressibleG braced_name /\
  format_name braced_name = s2l "de {\'e}a {\""O}zt{\""u}rk {Barnes and Noble, Inc.}, Jr., A. {B C}".
Proof. split; [exact braced_name_ok|vm_compute; reflexivity]. Qed.

(* ---- ... and the no-first-name form ("von Last") with general tokens: [expressible0G] = [expressible0] with [gtok]
   tokens.  Together with bibtex_name_roundtrip_general_partial: every person that has a BibTeX spelling without a
   trailing comma, except those with a lineage part and no first name (no such spelling), round-trips through
   _format_name / Person(string) whenever its tokens are gtok and the von / non-von pattern is the stated one. *)
Theorem bibtex_name_roundtrip_nofirst_general_partial : forall p, expressible0G p -> person_of_string (format_name p) = Ok (p, false).
Proof. exact bibtex_name_roundtrip0G_pf. Qed.
Print Assumptions bibtex_name_roundtrip_nofirst_general_partial.

Example ex_expressible0G : expressible0G (mkPerson [] [] [] [s2l "{Barnes and Noble, Inc.}"] []) /\
  person_of_string (s2l "{Barnes and Noble, Inc.}") = Ok (mkPerson [] [] [] [s2l "{Barnes and Noble, Inc.}"] [], false).
Proof.
  split; [|vm_compute; reflexivity]. unfold expressible0G. cbn [p_first p_middle p_lineage p_prelast p_last].
  repeat split; try constructor; try constructor; try (apply gtokb_ok; vm_compute; reflexivity).
  - reflexivity.
  - eexists; eexists; split; [reflexivity|vm_compute; reflexivity].
Qed.
