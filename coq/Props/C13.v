(* Props/C13.v -- "Case-insensitive ordered containers behave like their reference model".
   Only statements, each closed by `exact <lemma>`, its assumptions printed, and Examples.
   The theorems are about the model Model/CIDict.v of pybtex/utils.py:80-379 for an ABSTRACT key type K
   with a boolean equality `keqb` that decides equality and a case-lowering `lower`; where the proof
   needs it, `lower` is assumed idempotent.  The reference map is Spec/CIMap.v, the relating
   vocabulary (abs, lockstep, reachable, cls_ok) Spec/CIRel.v.  `str_instance_eq_ok` / `str_instance_lower_idem` show that the
   extracted instance (Python str with the ASCII case mapping) meets both hypotheses. *)
From Pybtex Require Import Base.Prelude Base.PyChar Base.PyStr Model.CIDict Model.CIDictStr
  Model.CIMulti Spec.CIMap Spec.CIRel Spec.CIMultiSpec Proofs.CIDict Proofs.CIDictFindings Proofs.CISet Proofs.CIMulti.
Require Import Permutation.

(* the hypotheses of the theorems below hold for the instance that is extracted and compared with pybtex *)
Theorem str_instance_eq_ok : forall a b : str, reflect (a = b) (str_eqb a b).
Proof. exact str_keqb_spec. Qed.
Print Assumptions str_instance_eq_ok.
Theorem str_instance_lower_idem : forall s : str, lower (lower s) = lower s.
Proof. exact str_lower_idem. Qed.
Print Assumptions str_instance_lower_idem.

(* INVARIANT.  In every state reachable through the public protocol -- any of the three mapping
   classes, any constructor arguments, any sequence of the 11 operations, the defective ones included --
   _dict and _keys have the same keys in the same order, without repetition, and every remembered
   spelling lower-cases to its key. *)
Theorem lockstep_inv : forall (K V : Type) (keqb : K -> K -> bool) (lower : K -> K),
  (forall a b : K, reflect (a = b) (keqb a b)) ->
  forall c : cid K V, reachable K V keqb lower c -> lockstep K V lower c.
Proof. exact Proofs.CIDict.lockstep_inv. Qed.
Print Assumptions lockstep_inv.

(* REFINEMENT, the history quantifier.  For CaseInsensitiveDict and OrderedCaseInsensitiveDict, every
   constructor argument, every sequence of operations (setitem getitem delitem contains get pop popitem
   setdefault update clear lower) and every list of probe keys: the results of all operations and the
   observations after each of them (iteration, items, len, repr data, `p in c`, c[p]) are those of the
   reference map started from the insertion, in order, of the constructor's pairs. *)
Theorem run_refines : forall (K V : Type) (keqb : K -> K -> bool) (lower : K -> K),
  (forall a b : K, reflect (a = b) (keqb a b)) ->
  (forall k : K, lower (lower k) = lower k) ->
  forall (cl : cls) (pairs : list (K * V)) (probes : list K) (ops : list (op K V)),
  cl <> ClsDefault ->
  run K V keqb lower probes (ci_init K V keqb lower cl pairs) ops =
  spec_run K V keqb lower None probes (sm_update K V keqb lower [] pairs) ops.
Proof. exact Proofs.CIDict.run_refines. Qed.
Print Assumptions run_refines.

(* The constructor is the sequence of insertions of its pairs, for every list of pairs
   (was refuted before fix ff4cc51: finding C13-F3). *)
Theorem init_refines : forall (K V : Type) (keqb : K -> K -> bool) (lower : K -> K),
  (forall a b : K, reflect (a = b) (keqb a b)) ->
  forall (cl : cls) (pairs : list (K * V)),
  abs K V (ci_init K V keqb lower cl pairs) = sm_update K V keqb lower [] pairs.
Proof. exact Proofs.CIDict.init_refines. Qed.
Print Assumptions init_refines.

(* The defaulting variant (CaseInsensitiveDefaultDict with a factory returning d0): EVERY history -- lower(), pop
   with and without default, get, setdefault, update, clear ... -- refines the reference map "with default d0"
   (c[k] and get(k, d) of an absent key yield d0 and do not insert; everything else as the plain map): all
   results and all observations, by induction over the operation list.
   (Was refuted before the fix commits 53376a7 and 849b0be: findings C13-F1, C13-F2, C13-F4.) *)
Theorem default_run_refines : forall (K V : Type) (keqb : K -> K -> bool) (lower : K -> K),
  (forall a b : K, reflect (a = b) (keqb a b)) ->
  (forall k : K, lower (lower k) = lower k) ->
  forall (d0 : V) (probes : list K) (ops : list (op K V)),
  run K V keqb lower probes (default_init K V (FacVal d0)) ops =
  spec_run K V keqb lower (Some d0) probes [] ops.
Proof. exact Proofs.CIDict.default_run_refines. Qed.
Print Assumptions default_run_refines.

(* every reachable container (any class, any history) has a consistent class / default pairing: the
   hypothesis `cls_ok c dflt` of the corollaries below is satisfiable in every reachable state *)
Theorem reachable_cls_ok : forall (K V : Type) (keqb : K -> K -> bool) (lower : K -> K),
  (forall a b : K, reflect (a = b) (keqb a b)) ->
  (forall k : K, lower (lower k) = lower k) ->
  forall c : cid K V, reachable K V keqb lower c -> exists dflt, cls_ok K V c dflt.
Proof. exact Proofs.CIDict.reachable_cls_ok. Qed.
Print Assumptions reachable_cls_ok.

(* ---- the property's words, as corollaries about reachable states ---- *)

(* lookups ignore case *)
Theorem lookup_ignores_case : forall (K V : Type) (keqb : K -> K -> bool) (lower : K -> K)
  (c : cid K V) (k1 k2 : K), lower k1 = lower k2 ->
  ci_getitem K V keqb lower c k1 = ci_getitem K V keqb lower c k2 /\
  ci_contains K V keqb lower c k1 = ci_contains K V keqb lower c k2.
Proof. exact Proofs.CIDict.lookup_ignores_case. Qed.
Print Assumptions lookup_ignores_case.

(* length, containment, iteration, items and repr always agree with each other: items() and the repr
   data are the same list, its keys are the iteration, len is its length, no two iterated spellings
   are case variants of each other, `k in c` holds exactly for the case variants of iterated spellings,
   and looking up an iterated spelling gives its value *)
Theorem len_iter_contains_repr_agree : forall (K V : Type) (keqb : K -> K -> bool) (lower : K -> K),
  (forall a b : K, reflect (a = b) (keqb a b)) ->
  forall (c : cid K V) (dflt : option V), reachable K V keqb lower c -> cls_ok K V c dflt ->
  exists its : list (K * V),
    ci_items K V keqb lower c = EOk its /\ ci_repr_data K V keqb lower c = EOk its /\
    map fst its = ci_iter K V c /\ ci_len K V c = length (ci_iter K V c) /\
    NoDup (map lower (ci_iter K V c)) /\
    (forall k : K, ci_contains K V keqb lower c k = true <-> (exists sp : K, In sp (ci_iter K V c) /\ lower sp = lower k)) /\
    (forall (sp : K) (v : V), In (sp, v) its -> ci_getitem K V keqb lower c sp = EOk v).
Proof. exact len_iter_contains_repr_agree_r. Qed.
Print Assumptions len_iter_contains_repr_agree.

(* iteration follows first insertion, overwriting keeps the position and remembers the new spelling:
   writing an existing key (in any case) replaces its spelling in place; writing a new key appends it;
   the written value is read back and no other key's lookup changes *)
Theorem overwrite_keeps_position_updates_spelling : forall (K V : Type) (keqb : K -> K -> bool) (lower : K -> K),
  (forall a b : K, reflect (a = b) (keqb a b)) ->
  forall (c : cid K V) (k : K) (v : V) (dflt : option V), reachable K V keqb lower c -> cls_ok K V c dflt ->
  let c' := ci_setitem K V keqb lower c k v in
  (ci_contains K V keqb lower c k = true ->
     ci_iter K V c' = map (fun sp : K => if keqb (lower k) (lower sp) then k else sp) (ci_iter K V c)) /\
  (ci_contains K V keqb lower c k = false -> ci_iter K V c' = ci_iter K V c ++ [k]) /\
  ci_getitem K V keqb lower c' k = EOk v /\
  (forall k' : K, lower k' <> lower k -> ci_getitem K V keqb lower c' k' = ci_getitem K V keqb lower c k').
Proof. exact overwrite_keeps_position_r. Qed.
Print Assumptions overwrite_keeps_position_updates_spelling.

(* deletion removes exactly that key: it succeeds for a present key (in any case), the key is gone,
   the iteration is the old one without the case variants of k, every other key is untouched *)
Theorem delete_exactly_that_key : forall (K V : Type) (keqb : K -> K -> bool) (lower : K -> K),
  (forall a b : K, reflect (a = b) (keqb a b)) ->
  forall (c : cid K V) (k : K) (dflt : option V), reachable K V keqb lower c -> cls_ok K V c dflt ->
  ci_contains K V keqb lower c k = true ->
  exists c' : cid K V,
    ci_delitem K V keqb lower c k = (c', EOk tt) /\ ci_contains K V keqb lower c' k = false /\
    ci_iter K V c' = filter (fun sp : K => negb (keqb (lower k) (lower sp))) (ci_iter K V c) /\
    (forall k' : K, lower k' <> lower k ->
       ci_getitem K V keqb lower c' k' = ci_getitem K V keqb lower c k' /\
       ci_contains K V keqb lower c' k' = ci_contains K V keqb lower c k').
Proof. exact delete_exactly_that_key_r. Qed.
Print Assumptions delete_exactly_that_key.

(* case-lowering (all three classes): same order, same values, same length, same lookups;
   only the spellings are lower-cased *)
Theorem lower_lowers_keys_only : forall (K V : Type) (keqb : K -> K -> bool) (lower : K -> K),
  (forall a b : K, reflect (a = b) (keqb a b)) ->
  (forall k : K, lower (lower k) = lower k) ->
  forall (c : cid K V) (dflt : option V), reachable K V keqb lower c -> cls_ok K V c dflt ->
  exists (c' : cid K V) (its : list (K * V)),
    step K V keqb lower c OLower = (c', EOk RNone) /\ ci_items K V keqb lower c = EOk its /\
    ci_items K V keqb lower c' = EOk (map (fun p => (lower (fst p), snd p)) its) /\
    ci_len K V c' = ci_len K V c /\
    (forall k : K, ci_getitem K V keqb lower c' k = ci_getitem K V keqb lower c k /\
                   ci_contains K V keqb lower c' k = ci_contains K V keqb lower c k).
Proof. exact lower_lowers_keys_only_r. Qed.
Print Assumptions lower_lowers_keys_only.

(* the defaulting variant yields its default for an absent key and leaves the state unchanged *)
Theorem default_no_insert : forall (K V : Type) (keqb : K -> K -> bool) (lower : K -> K),
  (forall a b : K, reflect (a = b) (keqb a b)) ->
  forall (c : cid K V) (k : K) (d0 : V),
  reachable K V keqb lower c -> cls_ok K V c (Some d0) -> ci_contains K V keqb lower c k = false ->
  step K V keqb lower c (OGet k) = (c, EOk (RVal d0)).
Proof. exact default_no_insert_r. Qed.
Print Assumptions default_no_insert.
(* ... and so does its get(k, d): it yields the factory's default (not d) and does not insert
   ("yields its default for absent keys without inserting them") *)
Theorem default_get_no_insert : forall (K V : Type) (keqb : K -> K -> bool) (lower : K -> K),
  (forall a b : K, reflect (a = b) (keqb a b)) ->
  forall (c : cid K V) (k : K) (d : option V) (d0 : V),
  reachable K V keqb lower c -> cls_ok K V c (Some d0) -> ci_contains K V keqb lower c k = false ->
  step K V keqb lower c (OGetD k d) = (c, EOk (RVal d0)).
Proof. exact default_get_no_insert_r. Qed.
Print Assumptions default_get_no_insert.
(* ... while setdefault(k, x) of an absent key inserts x and returns it, in all three classes *)
Theorem setdefault_absent_inserts : forall (K V : Type) (keqb : K -> K -> bool) (lower : K -> K),
  (forall a b : K, reflect (a = b) (keqb a b)) ->
  (forall k : K, lower (lower k) = lower k) ->
  forall (c : cid K V) (k : K) (x : V) (dflt : option V),
  reachable K V keqb lower c -> cls_ok K V c dflt -> ci_contains K V keqb lower c k = false ->
  step K V keqb lower c (OSetdefault k x) = (ci_setitem K V keqb lower c k x, EOk (RVal x)).
Proof. exact setdefault_absent_inserts_r. Qed.
Print Assumptions setdefault_absent_inserts.

(* the default yielded for an absent key is a FRESH one (default_factory() is called on every miss): mutating it
   in place (OMutate k f: v = c[k]; v.append(..)) leaves the container unchanged, and every later miss yields the
   pristine default d0 again *)
Theorem default_is_fresh : forall (K V : Type) (keqb : K -> K -> bool) (lower : K -> K),
  (forall a b : K, reflect (a = b) (keqb a b)) ->
  forall (c : cid K V) (k : K) (f : V -> option V) (d0 v' : V),
  reachable K V keqb lower c -> cls_ok K V c (Some d0) -> ci_contains K V keqb lower c k = false -> f d0 = Some v' ->
  step K V keqb lower c (OMutate k f) = (c, EOk RNone) /\
  (forall k' : K, ci_contains K V keqb lower c k' = false -> ci_getitem K V keqb lower c k' = EOk d0).
Proof. exact default_is_fresh_r. Qed.
Print Assumptions default_is_fresh.
(* mutating a stored value in place touches neither keys nor spellings nor order *)
Theorem mutate_keeps_keys : forall (K V : Type) (keqb : K -> K -> bool) (lower : K -> K)
  (c : cid K V) (k : K) (f : V -> option V),
  c_keys K V (fst (step K V keqb lower c (OMutate k f))) = c_keys K V c /\
  ci_iter K V (fst (step K V keqb lower c (OMutate k f))) = ci_iter K V c.
Proof. exact Proofs.CIDict.mutate_keeps_keys. Qed.
Print Assumptions mutate_keeps_keys.

(* ---- CaseInsensitiveSet ---- *)

(* invariant: in every reachable set, _set is the key set of _keys, without repetition, and every
   remembered spelling lower-cases to its key *)
Theorem set_lockstep_inv : forall (K : Type) (keqb : K -> K -> bool) (lower : K -> K),
  (forall a b : K, reflect (a = b) (keqb a b)) ->
  (forall k : K, lower (lower k) = lower k) ->
  forall s : cis K, set_reachable K keqb lower s -> set_inv K lower s.
Proof. exact set_reachable_inv. Qed.
Print Assumptions set_lockstep_inv.

(* refinement of every history (add discard remove contains get_canonical_key lower clear |= -= pop) from
   every constructor argument: the results are those of the reference map "lower-cased key -> last written
   spelling", the final _keys is the reference map's final state, and the model history is impossible
   (a pop choice that is not a member) exactly when the reference one is *)
Theorem set_refines : forall (K : Type) (keqb : K -> K -> bool) (lower : K -> K) (ksort : list K -> list K),
  (forall a b : K, reflect (a = b) (keqb a b)) ->
  (forall k : K, lower (lower k) = lower k) ->
  forall (l probes : list K) (ops : list (sop K)),
  match sspec_run K keqb lower (fold_left (ss_add K keqb lower) l []) ops with
  | Some (xs, mf) =>
    exists rs sf, srun K keqb lower ksort probes (cs_init K keqb lower l) ops = Some rs /\ map fst rs = xs /\
                  srun_state K keqb lower (cs_init K keqb lower l) ops = Some sf /\ s_keys K sf = mf
  | None => srun K keqb lower ksort probes (cs_init K keqb lower l) ops = None
  end.
Proof. exact Proofs.CISet.set_refines. Qed.
Print Assumptions set_refines.

(* length, containment, iteration and the remembered spellings of a reachable set agree: len = number of
   keys; iteration = the keys (as a set), pairwise distinct, = the lower-cased remembered spellings;
   `k in s` iff get_canonical_key(k) succeeds, and then it returns a case variant of k; both ignore case *)
Theorem set_len_iter_contains_agree : forall (K : Type) (keqb : K -> K -> bool) (lower : K -> K),
  (forall a b : K, reflect (a = b) (keqb a b)) ->
  (forall k : K, lower (lower k) = lower k) ->
  forall s : cis K, set_reachable K keqb lower s ->
  cs_len K s = length (s_keys K s) /\ Permutation (cs_iter K s) (map fst (s_keys K s)) /\ NoDup (cs_iter K s) /\
  Permutation (map lower (map snd (s_keys K s))) (cs_iter K s) /\
  (forall k, cs_contains K keqb lower s k = ss_has K keqb lower (s_keys K s) k) /\
  (forall k, cs_canonical K keqb lower s k = match ss_find K keqb (lower k) (s_keys K s) with Some sp => EOk sp | None => EExn KeyError end) /\
  (forall k, cs_contains K keqb lower s k = true <-> exists sp, cs_canonical K keqb lower s k = EOk sp /\ lower sp = lower k) /\
  (forall k1 k2, lower k1 = lower k2 -> cs_contains K keqb lower s k1 = cs_contains K keqb lower s k2 /\
                                        cs_canonical K keqb lower s k1 = cs_canonical K keqb lower s k2).
Proof. exact set_observe_agree_r. Qed.
Print Assumptions set_len_iter_contains_agree.

(* ---- SEVERAL LIVE CONTAINERS (Model/CIMulti.v): every operation names its target; lower(), construction from
   an existing container or its items(), update(other) derive a container from another one ---- *)

(* independence: an operation changes at most the container it names (an appending operation: only the new
   slot); every other live container is the same value afterwards, a fortiori its abstraction.  Trivial in
   the functional model -- the point is that the correspondence run now checks it against the code, where two
   containers could share a mutable _dict. *)
Theorem containers_independent : forall (K V : Type) (keqb : K -> K -> bool) (lower : K -> K)
  (st : list (cid K V)) (m : mop K V) (j : nat), j <> mtarget K V (length st) m ->
  nth_error (fst (mstep K V keqb lower st m)) j = nth_error st j /\
  option_map (abs K V) (nth_error (fst (mstep K V keqb lower st m)) j) = option_map (abs K V) (nth_error st j).
Proof. exact containers_independent_full. Qed.
Print Assumptions containers_independent.

(* run_refines lifted pointwise: every history over any number of live containers of the three classes (created
   from pairs, as defaulting containers, by lower(), from another container or its items; operated on through
   any of the 11 operations and update(other)) -- all results and, after every step, the observations of ALL
   live containers are those of one independent reference map per container *)
Theorem multi_run_refines : forall (K V : Type) (keqb : K -> K -> bool) (lower : K -> K),
  (forall a b : K, reflect (a = b) (keqb a b)) ->
  (forall k : K, lower (lower k) = lower k) ->
  forall (probes : list K) (ops : list (mop K V)), forallb (mop_wf K V) ops = true ->
  mrun K V keqb lower probes [] ops = mspec_run K V keqb lower probes [] ops.
Proof. exact Proofs.CIMulti.multi_run_refines. Qed.
Print Assumptions multi_run_refines.

(* the same for sets *)
Theorem sets_independent : forall (K : Type) (keqb : K -> K -> bool) (lower : K -> K)
  (st : list (cis K)) (m : smop K) (st' : list (cis K)) (r : eres (sret K)) (j : nat),
  smstep K keqb lower st m = Some (st', r) -> j <> smtarget K (length st) m -> nth_error st' j = nth_error st j.
Proof. exact Proofs.CIMulti.sets_independent. Qed.
Print Assumptions sets_independent.
Theorem multiset_run_refines : forall (K : Type) (keqb : K -> K -> bool) (lower : K -> K) (ksort : list K -> list K),
  (forall a b : K, reflect (a = b) (keqb a b)) ->
  (forall k : K, lower (lower k) = lower k) ->
  forall (probes : list K) (ops : list (smop K)),
  match smspec_run K keqb lower [] ops with
  | Some (xs, spf) =>
    exists rs stf, smrun K keqb lower ksort probes [] ops = Some rs /\ map fst rs = xs /\
                   smrun_state K keqb lower [] ops = Some stf /\ smrel K lower stf spf
  | None => smrun K keqb lower ksort probes [] ops = None
  end.
Proof. exact multiset_run_refines_empty. Qed.
Print Assumptions multiset_run_refines.

(* ---- non-vacuity ---- *)
Example ex_set :
  let s0 := cs_init str str_eqb lower [s2l "Aaa"; s2l "Bbb"] in
  let ops := [SAdd (s2l "AAA"); SRemove (s2l "bbb"); SIor [s2l "c"; s2l "C"]; SPop (s2l "aaa")] in
  option_map (fun s => (s_set str s, s_keys str s)) (srun_state str str_eqb lower s0 ops) = Some ([s2l "c"], [(s2l "c", s2l "C")]) /\
  option_map fst (sspec_run str str_eqb lower (s_keys str s0) ops) = Some [EOk SRNone; EOk SRNone; EOk SRNone; EOk (SRKey (s2l "aaa"))].
Proof. vm_compute. auto. Qed.

(* a reachable ordered container after delete-then-reinsert in another case and an overwrite after lower() *)
Definition ex_ops : list (op str Z) :=
  [ODel (s2l "DOS"); OSet (s2l "dos") 5%Z; OLower; OSet (s2l "UNO") 7%Z; OSetdefault (s2l "Tres") 3%Z].
Definition ex_c : scid := run_state str Z str_eqb lower (ci_init str Z str_eqb lower ClsOrdered [(s2l "Uno", 1%Z); (s2l "Dos", 2%Z)]) ex_ops.
Example ex_reachable : reachable str Z str_eqb lower ex_c /\ cls_ok str Z ex_c None.
Proof. split; [apply reachable_run; constructor; discriminate | reflexivity]. Qed.
Example ex_state :
  ci_items str Z str_eqb lower ex_c = EOk [(s2l "UNO", 7%Z); (s2l "dos", 5%Z); (s2l "Tres", 3%Z)] /\
  ci_contains str Z str_eqb lower ex_c (s2l "tRES") = true /\ ci_contains str Z str_eqb lower ex_c (s2l "x") = false.
Proof. vm_compute. auto. Qed.
(* a reachable defaulting container and an absent key *)
Definition ex_dops : list (op str Z) := [OGet (s2l "a"); OSet (s2l "a") 1%Z; OGet (s2l "A"); OSet (s2l "B") 10%Z; OPop (s2l "A") None; OGetD (s2l "zz") (Some 4%Z); OPop (s2l "zz") (Some 1%Z); OLower; OSetdefault (s2l "b") 2%Z; OSetdefault (s2l "q") 3%Z; ODel (s2l "Q")].
Example ex_default :
  let c := run_state str Z str_eqb lower (default_init str Z (FacVal 0%Z)) ex_dops in
  cls_ok str Z c (Some 0%Z) /\ ci_contains str Z str_eqb lower c (s2l "a") = false /\
  ci_items str Z str_eqb lower c = EOk [(s2l "b", 10%Z)].
Proof. vm_compute. auto. Qed.
(* the inputs of the repaired findings C13-F1 .. C13-F4 now behave like the reference map *)
Example ex_f1_regression :
  let c := run_state str Z str_eqb lower (s_init ClsDefault 0 []) [OSet (s2l "A") 1%Z; OLower] in
  ci_items str Z str_eqb lower c = EOk [(s2l "a", 1%Z)] /\ ci_getitem str Z str_eqb lower c (s2l "b") = EOk 0%Z.
Proof. exact f1_regression. Qed.
Example ex_f2_regression :
  s_step (s_init ClsDefault 0 []) (OPop (s2l "x") (Some 9%Z)) = (s_init ClsDefault 0 [], EOk (RVal 9%Z)).
Proof. exact f2_regression. Qed.
Example ex_f4_regression :
  let c := s_init ClsDefault 0 [] in
  s_step c (OSetdefault (s2l "k") 5%Z) = (ci_setitem str Z str_eqb lower c (s2l "k") 5%Z, EOk (RVal 5%Z)) /\
  spec_step str Z str_eqb lower (Some 0%Z) (abs str Z c) (OSetdefault (s2l "k") 5%Z) =
    ([(s2l "k", (s2l "k", 5%Z))], EOk (RVal 5%Z)).
Proof. exact f4_regression. Qed.
Example ex_f3_regression :
  abs str Z (ci_init str Z str_eqb lower ClsPlain [(s2l "a", 1%Z); (s2l "A", 2%Z); (s2l "a", 3%Z)]) = [(s2l "a", (s2l "a", 3%Z))].
Proof. exact f3_regression. Qed.

(* two live containers: the lowered copy and the original evolve independently *)
Definition ex_mops : list (mop str Z) :=
  [MNew ClsOrdered [(s2l "Ab", 1%Z); (s2l "c", 2%Z)]; MLower 0; MOp 1 (OSet (s2l "AB") 3%Z); MOp 0 (ODel (s2l "C"));
   MCopy 0 ClsPlain; MNewDefault 0%Z; MUpdateFrom 3 1].
Example ex_multi :
  forallb (mop_wf str Z) ex_mops = true /\
  map (fun o => o_items str Z o) (snd (last (mrun str Z str_eqb lower [] [] ex_mops) (EOk RNone, []))) =
    [EOk [(s2l "Ab", 1%Z)]; EOk [(s2l "AB", 3%Z); (s2l "c", 2%Z)]; EOk [(s2l "Ab", 1%Z)]; EOk [(s2l "AB", 3%Z); (s2l "c", 2%Z)]].
Proof. vm_compute. auto. Qed.

(* a list factory: the default is mutated, a stored list is mutated, the next miss is pristine *)
Example ex_mutate :
  let ops := [OMutate (s2l "a") (mut_append 1); OGet (s2l "b"); OSet (s2l "A") seq_base; OMutate (s2l "a") (mut_append 7);
              OMutate (s2l "A") (mut_append 3); OGet (s2l "zz")] in
  let c := run_state str Z str_eqb lower (default_init str Z (FacVal seq_base)) ops in
  map fst (run str Z str_eqb lower [] (default_init str Z (FacVal seq_base)) ops) =
    [EOk RNone; EOk (RVal seq_base); EOk RNone; EOk RNone; EOk RNone; EOk (RVal seq_base)] /\
  ci_items str Z str_eqb lower c = EOk [(s2l "A", (seq_base - 73)%Z)].
Proof. vm_compute. auto. Qed.
