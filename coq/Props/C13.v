(* Props/C13.v -- "Case-insensitive ordered containers behave like their reference model".
   Only statements, each closed by `exact <lemma>`, its assumptions printed, and Examples. *)
From Pybtex Require Import Base.Prelude Base.PyChar Base.PyStr Model.CIDict Model.CIDictStr Proofs.CIDictFindings.

Theorem default_lower_refuted :
  exists (c : scid) ops, c = s_init ClsDefault 0 [] /\
    ops = [OSet (s2l "A") 1%Z; OLower] /\
    let c' := run_state str Z str_eqb lower c ops in
    ci_len str Z c' = 0 /\ ci_len str Z (run_state str Z str_eqb lower c [OSet (s2l "A") 1%Z]) = 1 /\
    ci_getitem str Z str_eqb lower c' (s2l "b") = EExn TypeError.
Proof. exact default_lower_loses_entries. Qed.
Print Assumptions default_lower_refuted.
