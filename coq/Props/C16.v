(* Props/C16.v -- "every problem is a renderable pybtex error, the same in all reporting modes".
   Only statements, each closed by `exact <lemma>`, its assumptions printed, and Examples showing
   that the hypotheses are met by non-trivial values.  Model: Model/Errors.v. *)
From Pybtex Require Import Base.Prelude Base.PyChar Base.PyStr Model.Errors Proofs.Errors.
From Pybtex Require Model.Scanner Model.BibParser Model.Aux Spec.Aux Model.BstParser Proofs.ErrorsBst Proofs.ErrorsReaders.

(* capture mode: the block's list is exactly the sequence of reported problems, the block ends
   as its body does (return / fatal pybtex error / foreign exception), and afterwards
   captured_errors is None while strict, error_code and stderr are untouched *)
Theorem capture_collects : forall g c,
  with_capture g c
  = (mkG (g_strict g) (g_code g) None (g_heap g ++ [reports c]) (g_out g), ending c, reports c).
Proof. exact Proofs.Errors.capture_collects. Qed.
Print Assumptions capture_collects.

(* non-strict mode: processing continues to the end of the body, each problem is printed as one
   warning (its rendering and a newline) in order, and error_code -- the exit status -- is 2 as
   soon as there is one problem.  Hypothesis: the problems render (see format_error_total_partial) *)
Theorem nonstrict_prints_all : forall c g ss,
  g_cap g = None -> g_strict g = false ->
  Forall2 (fun e s => format_error e k_warning = Ok s) (reports c) ss ->
  run_comp g c
  = (mkG false (match reports c with [] => g_code g | _ => 2%Z end) None (g_heap g) (g_out g ++ warn_text ss),
     ending c).
Proof. exact Proofs.Errors.run_comp_nonstrict. Qed.
Print Assumptions nonstrict_prints_all.

(* strict mode: the first problem is raised and nothing else changes *)
Theorem strict_raises_first : forall c g,
  g_cap g = None -> g_strict g = true ->
  run_comp g c = (g, match reports c with e :: _ => Raised e | [] => ending c end).
Proof. exact Proofs.Errors.run_comp_strict. Qed.
Print Assumptions strict_raises_first.

(* the set and order of reported problems does not depend on the mode *)
Theorem mode_independence : forall c g ss,
  g_cap g = None ->
  Forall2 (fun e s => format_error e k_warning = Ok s) (reports c) ss ->
  let ps := reports c in
  (let '(g1, o1, l1) := with_capture g c in
   l1 = ps /\ o1 = ending c /\ g_cap g1 = None /\ g_strict g1 = g_strict g /\ g_code g1 = g_code g /\ g_out g1 = g_out g) /\
  (let '(g2, o2) := run_comp (set_strict g false) c in
   g_out g2 = g_out g ++ warn_text ss /\ o2 = ending c /\ (ps <> [] -> g_code g2 = 2%Z) /\ (ps = [] -> g_code g2 = g_code g)) /\
  (let '(g3, o3) := run_comp (set_strict g true) c in
   g3 = set_strict g true /\ o3 = match ps with e :: _ => Raised e | [] => ending c end).
Proof. exact Proofs.Errors.mode_independence. Qed.
Print Assumptions mode_independence.

(* leaving capture mode always restores normal reporting: whatever the body did (reports, nested
   blocks, strict raises, exceptions), after a block is left -- normally, by an exception caught
   just outside it, or by one that leaves every block -- captured_errors is None and the strict
   flag is the one last set.  (This is also what makes an inner block switch an enclosing one
   off, F20: see nested_capture_example.) *)
Theorem capture_restores : forall g d body closing,
  inv g d -> In closing [OExit; OAbort1; OAbortAll] ->
  let '(g', _, _) := run_hist g d (body ++ [closing]) in
  g_cap g' = None /\ g_strict g' = last_strict (g_strict g) body.
Proof. exact Proofs.Errors.capture_restores. Qed.
Print Assumptions capture_restores.

(* every history of set_strict_mode / enter / exit / abort / report that has left all its blocks
   ends in normal reporting: not capturing, strict flag as last set, error_code unchanged or 2,
   and the next problem is raised (strict) or printed (non-strict) *)
Theorem capture_sequence : forall ops g e,
  g_cap g = None ->
  let '(g', d', _) := run_hist g O ops in
  d' = O ->
  g_cap g' = None /\ g_strict g' = last_strict (g_strict g) ops /\
  (g_code g' = g_code g \/ g_code g' = 2%Z) /\
  snd (report_error g' e) =
    (if g_strict g' then RRaised
     else match format_error e k_warning with Ok _ => RPrinted | _ => RCrash end).
Proof. exact Proofs.Errors.capture_sequence. Qed.
Print Assumptions capture_sequence.

(* Full statement (DESIGN.md): forall e p, exists s, format_error e p = Ok s /\ ...
   It is refuted by the faithful model: an error object whose file name is neither None nor text
   (what pybtex/bibtex/builtins.py:214 constructs for int.to.chr$) makes get_filename raise. F27 *)
Theorem format_error_total_refuted : exists e p, format_error e p = Crash.
Proof. exact Proofs.Errors.format_error_bad_filename. Qed.
Print Assumptions format_error_total_refuted.

(* Every well-formed error (file name None or text; a TokenRequired whose line number points into
   the scanned text / whose command start lies before the error position) renders to text: a
   sequence of lines each carrying the file name if there is one, the last being
   prefix + str(error), which contains the message *)
Theorem format_error_total_partial : forall e p,
  wf_err e ->
  exists s lines,
    format_error e p = Ok s /\
    s = join [10%N] (map (fname_prefix e) (lines ++ [p ++ err_str e])) /\
    infix (p ++ err_str e) s /\ infix (e_msg e) s.
Proof. exact Proofs.Errors.format_error_total. Qed.
Print Assumptions format_error_total_partial.

(* the command line: non-strict; the exit status is error_code (2 as soon as a problem was
   reported), 1 after a fatal pybtex error, which is printed as ERROR after the warnings *)
Theorem cmdline_exit_status : forall c g ss,
  g_cap g = None ->
  Forall2 (fun e s => format_error e k_warning = Ok s) (reports c) ss ->
  (forall f, ending c = Raised f -> exists s, format_error f k_error = Ok s) ->
  let '(g', st) := cmdline_call g false c in
  g_strict g' = false /\
  match ending c with
  | Returned => st = Ok (match reports c with [] => g_code g | _ => 2%Z end)
                /\ g_out g' = g_out g ++ warn_text ss
  | Raised f => st = Ok 1%Z /\ exists s, format_error f k_error = Ok s
                /\ g_out g' = g_out g ++ warn_text ss ++ s ++ [10%N]
  | Crashed => st = Crash
  end.
Proof. exact Proofs.Errors.cmdline_exit_status. Qed.
Print Assumptions cmdline_exit_status.

(* --strict: the first problem ends the run with status 1 and is printed as an error *)
Theorem cmdline_strict_option : forall c g,
  g_cap g = None ->
  (forall e, hd_error (reports c) = Some e \/ (reports c = [] /\ ending c = Raised e) ->
             exists s, format_error e k_error = Ok s) ->
  let '(g', st) := cmdline_call g true c in
  match reports c, ending c with
  | e :: _, _ | [], Raised e =>
      st = Ok 1%Z /\ exists s, format_error e k_error = Ok s /\ g_out g' = g_out g ++ s ++ [10%N]
  | [], Returned => st = Ok (g_code g) /\ g_out g' = g_out g
  | [], Crashed => st = Crash
  end.
Proof. exact Proofs.Errors.cmdline_strict_option. Qed.
Print Assumptions cmdline_strict_option.

(* growth: the errors Scanner.required raises (PrematureEOF, TokenRequired) on ANY text are
   well-formed and therefore render -- in particular lines[error_lineno0] never raises IndexError:
   the line number the scanner counts (\n, \r, \r\n in the skipped whitespace) always points into
   text.splitlines(True), although splitlines also breaks at \v \f \x1c-\x1e \x85 U+2028 U+2029 *)
Theorem scanner_errors_render : forall text lit fn id e p,
  fn <> FnBad -> scanner_required text lit fn id = inr e ->
  exists s, format_error e p = Ok s /\ infix (p ++ err_str e) s /\ infix (e_msg e) s.
Proof. exact Proofs.Errors.scanner_errors_render. Qed.
Print Assumptions scanner_errors_render.

(* growth: a LowLevelParser error whose command start lies before the error position, both
   inside the text, is well-formed *)
Theorem bib_ctx_wellformed : forall (text : str) (start pos : Z),
  (0 <= start < pos)%Z -> (pos <= Z.of_nat (length text))%Z -> wf_ctx (CBib text (Some start) pos).
Proof. exact Proofs.Errors.bib_ctx_wellformed. Qed.
Print Assumptions bib_ctx_wellformed.

(* F20 stated for the model as it is (not claimed by the property text, recorded): after an inner
   `with capture()` block -- whatever the state before, also inside an enclosing block -- a problem
   is never collected; it goes to normal reporting *)
Theorem inner_capture_switches_outer_off : forall g c e,
  let '(g1, _, _) := with_capture g c in
  forall i, snd (report_error g1 e) <> RAppended i.
Proof. exact Proofs.Errors.inner_capture_switches_outer_off. Qed.
Print Assumptions inner_capture_switches_outer_off.

(* growth: format_error_total for every error class of the model.  `constructed` lists what the
   constructors of the classes build (PybtexError and its plain subclasses, PybtexSyntaxError /
   UndefinedMacro / UnbalancedBraceError / PrematureEOF, TokenRequired over a Scanner and over a
   LowLevelParser, AuxDataError) together with what their raise sites guarantee (scan_state_ok,
   bib_state_ok; a file name that is None or text).  Every such error renders. *)
Theorem format_error_total_by_class : forall e p,
  constructed e ->
  exists s lines,
    format_error e p = Ok s /\
    s = join [10%N] (map (fname_prefix e) (lines ++ [p ++ err_str e])) /\
    infix (p ++ err_str e) s /\ infix (e_msg e) s.
Proof. exact Proofs.Errors.format_error_total_by_class. Qed.
Print Assumptions format_error_total_by_class.

(* ... and the only PybtexError(message, filename) records excluded are F27's: a file name that is
   neither None nor text is not well-formed *)
Theorem only_bad_filename_excluded : forall id msg, ~ wf_err (new_pybtex_error id msg FnBad).
Proof. exact Proofs.Errors.not_constructed_plain. Qed.
Print Assumptions only_bad_filename_excluded.

(* whatever Scanner.required raises, on any text, is one of the constructed errors (its state
   satisfies scan_state_ok) *)
Theorem scanner_required_constructed : forall text lit (f : pfname) id e,
  scanner_required text lit (fname_of f) id = inr e -> constructed e.
Proof. exact Proofs.Errors.scanner_required_constructed. Qed.
Print Assumptions scanner_required_constructed.

(* The shape format_error_total relies on: messages are built by CONCATENATION, never by formatting
   over user text.  str(error) is a class prefix (a function of the class, error_type and line
   number only) followed by the message verbatim -- for every message, whatever braces, percent
   signs, backslashes or line breaks it contains *)
Theorem err_str_concat : forall e, err_str e = kind_prefix (e_kind e) ++ e_msg e.
Proof. exact Proofs.Errors.err_str_concat. Qed.
Print Assumptions err_str_concat.

(* ... so two errors of the same kind differ in str() exactly by their messages *)
Theorem err_str_message_inert : forall id id' m m' fn fn' k c c',
  exists pre, err_str (mkErr id m fn k c) = pre ++ m /\ err_str (mkErr id' m' fn' k c') = pre ++ m'.
Proof. exact Proofs.Errors.err_str_message_inert. Qed.
Print Assumptions err_str_message_inert.

(* ... and the rendering of a well-formed error contains prefix + class prefix + message verbatim *)
Theorem format_error_message_verbatim : forall e p,
  wf_err e -> exists s, format_error e p = Ok s /\ infix (p ++ kind_prefix (e_kind e) ++ e_msg e) s.
Proof. exact Proofs.Errors.format_error_message_verbatim. Qed.
Print Assumptions format_error_message_verbatim.

(* ================================================================================== *)
(* PROOF GROWTH: the channel connected to the validated reader models of C10 (.bib), C20 (.aux)
   and C15 (.bst), which are used as they are.  Message texts / descriptions are not part of
   those models: [msg], [desc] are arbitrary. *)

(* the exit status with and without --strict in one statement (error_code 0 at the start, problems
   renderable, no foreign exception): 0 iff nothing was reported and nothing raised; with --strict
   the first problem gives 1; without it reported problems give 2; a fatal pybtex error gives 1 *)
Theorem cmdline_status_all : forall so c g ss,
  g_cap g = None -> g_code g = 0%Z ->
  Forall2 (fun e s => format_error e k_warning = Ok s) (reports c) ss ->
  (forall e, In e (reports c) \/ ending c = Raised e -> exists s, format_error e k_error = Ok s) ->
  ending c <> Crashed ->
  let st := snd (cmdline_call g so c) in
  (st = Ok 0%Z <-> reports c = [] /\ ending c = Returned) /\
  (so = true -> reports c <> [] -> st = Ok 1%Z) /\
  (so = false -> reports c <> [] -> ending c = Returned -> st = Ok 2%Z) /\
  (forall f, ending c = Raised f -> st = Ok 1%Z).
Proof. exact Proofs.Errors.cmdline_status_all. Qed.
Print Assumptions cmdline_status_all.

(* mode independence needs no renderability hypothesis when the problems are constructed errors *)
Theorem modes_agree_constructed : forall c g,
  g_cap g = None -> Forall constructed (reports c) ->
  exists ss, Forall2 (fun e s => format_error e k_warning = Ok s) (reports c) ss /\ modes_agree g c ss.
Proof. exact Proofs.ErrorsReaders.modes_agree_constructed. Qed.
Print Assumptions modes_agree_constructed.

(* .bib (1): every problem the .bib reader model reports, in any mode, on any text, is a constructed
   error -- the state a TokenRequired carries satisfies bib_state_ok (via C10 errors_located) -- so
   format_error_total_by_class applies to every .bib problem without a checked premise *)
Theorem bib_errors_constructed : forall m text d s fn msg e,
  BibParser.parse_bib m text = BibParser.Ret d s -> In e (BibParser.p_errs s) ->
  constructed (ErrorsReaders.Bib.to_err text fn msg e).
Proof. exact Proofs.ErrorsReaders.Bib.errors_constructed. Qed.
Print Assumptions bib_errors_constructed.

(* .bib (2): the reader IS a computation of the channel model.  With (d, s) what capture mode
   returns and c = "report the problems of s in order, then return": non-strict reading returns
   the same database and problems, strict reading returns the same when there is none and raises
   exactly the first otherwise (C10), and c run under the channel model behaves the same way in
   the three modes (modes_agree: collected / printed as warnings + error_code 2 / first raised) *)
Theorem bib_reader_mode_independence : forall text d s fn msg g,
  g_cap g = None -> BibParser.parse_bib BibParser.Capture text = BibParser.Ret d s ->
  let ps := map (ErrorsReaders.Bib.to_err text fn msg) (BibParser.p_errs s) in
  let c := comp_of ps Done in
  reports c = ps /\ ending c = Returned /\
  BibParser.parse_bib BibParser.NonStrict text = BibParser.Ret d s /\
  (BibParser.p_errs s = [] -> BibParser.parse_bib BibParser.Strict text = BibParser.Ret d s) /\
  (forall e rest, BibParser.p_errs s = e :: rest ->
     BibParser.parse_bib BibParser.Strict text
     = BibParser.Fatal (BibParser.FErr (BibParser.e_cls e) (BibParser.e_line e))) /\
  exists ss, Forall2 (fun e s => format_error e k_warning = Ok s) ps ss /\ modes_agree g c ss.
Proof. exact Proofs.ErrorsReaders.Bib.reader_modes. Qed.
Print Assumptions bib_reader_mode_independence.

(* .aux (1): every .aux problem, reported or fatal, is a constructed error *)
Theorem aux_errors_constructed : forall msg e, constructed (ErrorsReaders.AuxR.to_err msg e).
Proof. exact Proofs.ErrorsReaders.AuxR.err_constructed. Qed.
Print Assumptions aux_errors_constructed.

(* .aux (2): the reader IS a computation: with r the outcome of capture mode and c = "report the
   problems of r in order, then return / raise the fatal error of r": non-strict reading is the
   same reading, strict reading raises the first problem or reads the same if there is none (C20),
   and c behaves accordingly under the channel model *)
Theorem aux_reader_mode_independence : forall fuel fs top msg g,
  g_cap g = None ->
  let r := Aux.parse_aux fuel fs Aux.Capture top in
  let ps := map (ErrorsReaders.AuxR.to_err msg) (ErrorsReaders.AuxR.errs_of r) in
  let c := comp_of ps (ErrorsReaders.AuxR.last_of r msg) in
  reports c = ps /\
  Aux.parse_aux fuel fs Aux.Lenient top = r /\
  (forall e rest, ErrorsReaders.AuxR.errs_of r = e :: rest -> r <> Aux.CrashO -> r <> Aux.NoFuel ->
     exists a, Aux.parse_aux fuel fs Aux.Strict top = Aux.Raise e a) /\
  (ErrorsReaders.AuxR.errs_of r = [] -> r <> Aux.CrashO -> r <> Aux.NoFuel ->
     Spec.Aux.same_reading (Aux.parse_aux fuel fs Aux.Strict top) r) /\
  exists ss, Forall2 (fun e s => format_error e k_warning = Ok s) ps ss /\ modes_agree g c ss.
Proof. exact Proofs.ErrorsReaders.AuxR.reader_modes. Qed.
Print Assumptions aux_reader_mode_independence.

(* .bst (1): the line number of every TokenRequired the .bst parser model raises, on ANY text,
   names a line of text.splitlines(True) -- no hypothesis on the text: string literals that run over
   line ends included (since fix 6970deb / F29 get_token counts the line breaks inside a token; the
   invariant follows that model: no token ends in CR, so the counts add up) ... *)
Theorem bst_token_required_line : forall text l,
  BstParser.parse_text text = PyErr BstParser.cls_token_required l ->
  (1 <= l <= Z.of_nat (length (splitlines true text)))%Z.
Proof. exact Proofs.ErrorsBst.bst_token_required_line. Qed.
Print Assumptions bst_token_required_line.

(* ... so every error the .bst parser raises is a constructed error and renders *)
Theorem bst_errors_constructed : forall text fn desc pos c l,
  BstParser.parse_text text = PyErr c l -> constructed (ErrorsReaders.BstR.to_err text fn desc pos c l).
Proof. exact Proofs.ErrorsReaders.BstR.error_constructed. Qed.
Print Assumptions bst_errors_constructed.

(* scanners WITHOUT line numbers (NameFormatParser: lineno = None): the errors they raise are
   constructed errors (constructors C_syntax_nl / C_token_nl, covered by format_error_total_by_class);
   whatever Scanner.required raises on such a scanner is one of them *)
Theorem lineless_required_constructed : forall text lit fn id e,
  lineless_required text lit fn id = inr e -> constructed e.
Proof. exact Proofs.Errors.lineless_required_constructed. Qed.
Print Assumptions lineless_required_constructed.

(* ... and a line-less TokenRequired renders as exactly one line, without source context and without
   ' in line n': [file name: ] prefix 'syntax error: ' description ' expected' *)
Theorem lineless_token_required_renders : forall id desc text fn pos p,
  format_error (new_token_required_nl id desc text fn pos) p
  = Ok (fname_prefix (new_token_required_nl id desc text fn pos)
          (p ++ k_syntax_error ++ k_colon_sp ++ desc ++ k_expected)).
Proof. exact Proofs.Errors.lineless_token_required_renders. Qed.
Print Assumptions lineless_token_required_renders.

(* ---- non-vacuity ---- *)
Definition ex_aux : err :=
  mkErr 1 (s2l "illegal, another \bibstyle command") (FnStr (s2l "x.aux")) (SAux (Some 3%Z)) (CAux (Some (s2l "\bibstyle{b}"))).
Definition ex_tok : err :=
  mkErr 2 (s2l "'=' expected") (FnStr (s2l "f.bib")) (SSyntax (s2l "syntax error") (Some 2%Z))
        (CScan (s2l "@a{k," ++ [10%N] ++ s2l " t {x}}") (Some 2%Z) 9%Z).
Definition ex_comp : comp := Report ex_aux (Report ex_tok (Fatal (mkErr 3 (s2l "found no \bibdata command") FnNone (SAux None) (CAux None)))).

Example wellformed_examples : wf_err ex_aux /\ wf_err ex_tok.
Proof. split; (split; [discriminate | vm_compute; try exact I; split; discriminate]). Qed.

Example render_example :
  format_error ex_tok (s2l "ERROR: ")
  = Ok (s2l "f.bib:  t {x}}" ++ [10%N] ++ s2l "f.bib:   ^^^" ++ [10%N] ++ s2l "f.bib: ERROR: syntax error in line 2: '=' expected").
Proof. vm_compute. reflexivity. Qed.

Example renderable_example :
  exists ss, Forall2 (fun e s => format_error e k_warning = Ok s) (reports ex_comp) ss /\ length ss = 2%nat.
Proof. eexists. split; [repeat constructor; vm_compute; reflexivity | reflexivity]. Qed.

(* F20, recorded: an inner block switches the enclosing capture off -- the problem reported after
   it is raised (strict) instead of being collected by the outer block, whose list stays empty *)
Example nested_capture_example :
  run_hist init_G O [OEnter; OEnter; OExit; OReport ex_aux; OExit]
  = (mkG true 0%Z None [[]; []] [], O, [EvYield 0; EvYield 1; EvRaised 1%N]).
Proof. vm_compute. reflexivity. Qed.

Example capture_restores_example : inv init_G O /\
  fst (fst (run_hist init_G O ([OStrict false; OEnter; OReport ex_aux; OEnter; OReport ex_tok] ++ [OAbort1])))
  = mkG false 0%Z None [[ex_aux]; [ex_tok]] [].
Proof. split; [intros _; reflexivity | vm_compute; reflexivity]. Qed.

Example cmdline_example :
  snd (cmdline_call init_G false ex_comp) = Ok 1%Z /\
  snd (cmdline_call init_G false (Report ex_aux Done)) = Ok 2%Z /\
  snd (cmdline_call init_G false Done) = Ok 0%Z.
Proof. vm_compute. auto. Qed.

Example scanner_example :
  exists e, scanner_required ([12%N; 13%N; 10%N; 133%N] ++ s2l " y") (s2l "x") (FnStr (s2l "f.bst")) 7 = inr e
  /\ e_ctx e = CScan ([12%N; 13%N; 10%N; 133%N] ++ s2l " y") (Some 2%Z) 5%Z
  /\ format_error e (s2l "ERROR: ") = Ok ([102; 46; 98; 115; 116; 58; 32; 10; 102; 46; 98; 115; 116; 58; 32]%N ++ s2l "   ^^^" ++ [10%N] ++ s2l "f.bst: ERROR: syntax error in line 2: 'x' expected").
Proof. eexists. split; [vm_compute; reflexivity|]. split; vm_compute; reflexivity. Qed.

Example constructed_examples :
  constructed (new_token_required 1 (s2l "'='") (mkScanner (s2l "@a{k," ++ [10%N] ++ s2l " t {x}}") (PBytes [99; 97; 102; 233; 46; 98; 105; 98]%N) 2 9))
  /\ constructed (new_token_required_bib 2 (s2l "'='") (mkScanner (s2l "@a{k, t {x}}") PNone 1 8) (Some 0%Z))
  /\ constructed (new_aux_error 3 (s2l "found no \bibdata command") (mkAuxctx (PStr (s2l "x.aux")) None None)).
Proof.
  split; [|split].
  - apply C_token. exists (s2l "@a{k," ++ [10%N] ++ s2l " t "), 123%N, (s2l "x}}"). vm_compute. repeat split; discriminate.
  - apply C_token_bib. exists 0%Z. vm_compute. repeat split; discriminate.
  - apply C_aux.
Qed.

(* a bytes path that is not valid UTF-8 (b'caf\xe9.bib'): the undecodable byte becomes U+FFFD and
   the error renders *)
Example bytes_filename_example :
  format_error (new_syntax_error 1 (s2l "syntax error") (s2l "m") (mkScanner [] (PBytes [99; 97; 102; 233; 46; 98; 105; 98]%N) 1 0)) (s2l "ERROR: ")
  = Ok (s2l "caf" ++ [65533%N] ++ s2l ".bib: ERROR: syntax error in line 1: m")
  /\ utf8_replace [226; 130; 172; 226; 130; 65; 240; 159; 152; 128; 237; 160; 128; 192; 175]%N
     = [8364; 65533; 65; 128512; 65533; 65533; 65533; 65533; 65533]%N.
Proof. split; vm_compute; reflexivity. Qed.

(* a message full of format directives is inert *)
Example hostile_message_example :
  format_error (new_aux_error 1 (s2l "case mismatch error between cite keys Baz{0} and baz{0}{x}%s%(a)s\")
                  (mkAuxctx (PStr (s2l "a{0}.aux")) (Some 2%Z) (Some (s2l "\citation{baz{0}{x}%s%(a)s\}")))) (s2l "WARNING: ")
  = Ok (s2l "a{0}.aux: \citation{baz{0}{x}%s%(a)s\}" ++ [10%N] ++
        s2l "a{0}.aux: " ++ repeat 94%N 28 ++ [10%N] ++
        s2l "a{0}.aux: WARNING: in line 2: case mismatch error between cite keys Baz{0} and baz{0}{x}%s%(a)s\").
Proof. vm_compute. reflexivity. Qed.

(* the readers produce problems: the instances above are not vacuous *)
Example bib_reader_example :
  match BibParser.parse_bib BibParser.Capture (s2l "@a{k, t = }
@b{k2, u = v}") with
  | BibParser.Ret d s => map (fun e => (BibParser.e_cls e, BibParser.e_line e, BibParser.e_start e, BibParser.e_pos e)) (BibParser.p_errs s)
  | _ => []
  end = [(2%N, 1%Z, 0%nat, 10%nat); (5%N, 2%Z, 12%nat, 24%nat)].
Proof. vm_compute. reflexivity. Qed.
Example bst_multiline_string_example :
  BstParser.parse_text (s2l "EXECUTE {""a
b"" c}
#") = PyErr BstParser.cls_token_required 3
  /\ length (splitlines true (s2l "EXECUTE {""a
b"" c}
#")) = 3%nat.
Proof. vm_compute. auto. Qed.
Example bst_reader_example :
  BstParser.parse_text (s2l "ENTRY {a}
  {b} ?") = PyErr BstParser.cls_token_required 2.
Proof. vm_compute. reflexivity. Qed.

Example lineless_example :
  exists e, lineless_required (s2l "_}{ll}") (s2l "}") PNone 1 = inr e
  /\ format_error e (s2l "ERROR: ") = Ok (s2l "ERROR: syntax error: '}' expected").
Proof. eexists. split; vm_compute; reflexivity. Qed.
