(* Props/C16.v -- "every problem is a renderable pybtex error, the same in all reporting modes".
   Only statements. *)
From Pybtex Require Import Base.Prelude Base.PyChar Base.PyStr Model.Errors Proofs.Errors.

Theorem cap_exit_restores : forall g,
  g_cap (cap_exit g) = None /\ g_strict (cap_exit g) = g_strict g /\ g_code (cap_exit g) = g_code g
  /\ g_out (cap_exit g) = g_out g /\ g_heap (cap_exit g) = g_heap g.
Proof. exact Proofs.Errors.cap_exit_restores. Qed.
Print Assumptions cap_exit_restores.
