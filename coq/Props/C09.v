(* Props/C09.v -- "back ends render text content faithfully and never let it act as markup".
   Only statements, each closed by `exact <lemma>`, its assumptions printed, and Examples. *)
From Pybtex Require Import Base.Prelude Base.PyChar Base.PyStr Model.RtTypes Model.Backends Proofs.Backends.

(* plain text: the output is the text with symbols replaced by the back end's plain equivalents
   (a foreign exception exactly when a symbol has none) -- for every tree, table and encoder *)
Theorem plain_render : forall enc T t, render enc T BPlain t = plain_with_symbols T t.
Proof. exact plain_render_holds. Qed.
Print Assumptions plain_render.
