(* Props/C09.v -- "back ends render text content faithfully and never let it act as markup".
   Only statements, each closed by `exact <lemma>`, its assumptions printed, and Examples
   showing that the hypotheses are met by non-trivial values. *)
From Pybtex Require Import Base.Prelude Base.PyChar Base.PyStr Model.RtTypes Model.Backends
  Proofs.Backends Proofs.BackendsMd Proofs.BackendsHtml Proofs.BackendsLatex Proofs.BackendsDepth Proofs.BackendsTotal Proofs.BackendsHtmlWf Proofs.BackendsMdTree Proofs.BackendsDoc Proofs.BackendsCodec Proofs.BackendsEx.
Local Open Scope N_scope.

(* ---- plain text: the output is the text with symbols replaced by the back end's plain
   equivalents (a foreign exception exactly when a symbol has none) -- every tree, table, encoder *)
Theorem plain_render : forall enc T t, render enc T BPlain t = plain_with_symbols T t.
Proof. exact plain_render_holds. Qed.
Print Assumptions plain_render.

(* ---- Markdown: the sequential str.replace loop over SPECIAL_CHARS equals ONE simultaneous pass
   that puts a backslash before exactly the characters of the table -- because the backslash
   comes first and no character is listed twice (md_table_shape, checked for the live table on
   every run together with "the table is the Markdown syntax document's set") *)
Theorem md_escape_spec : forall enc T s, md_table_shape (t_special T) = true ->
  format_str enc T BMarkdown s =
  flat_map (fun c => if mem c (t_special T) then [c_bslash; c] else [c]) (xml_escape s).
Proof. exact format_str_md_spec. Qed.
Print Assumptions md_escape_spec.

Theorem md_escape_exact : forall enc T s,
  md_table_shape (t_special T) = true -> same_set (t_special T) markdown_escapable = true ->
  format_str enc T BMarkdown s = md_escape markdown_escapable (xml_escape s).
Proof. exact format_str_md_exact. Qed.
Print Assumptions md_escape_exact.

(* every escapable character of the text is escaped (a Markdown reader meets no bare escapable
   character: md_unescape is not None), and un-escaping gives back the (XML-escaped) text *)
Theorem md_unescape_inverse : forall enc T s, md_table_shape (t_special T) = true ->
  md_unescape (t_special T) (format_str enc T BMarkdown s) = Some (xml_escape s).
Proof. exact md_unescape_inverse_holds. Qed.
Print Assumptions md_unescape_inverse.

(* a whole tree: a Markdown reader (backslash escapes and the three XML entities decoded; inline HTML,
   ](url) and unescaped delimiter characters treated as markup) sees exactly the characters of the
   text, symbols as the back end's equivalents -- no character of the text acts as markup.
   md_names_ok: tag names / URLs without angle brackets, URLs without ")". *)
Theorem md_chardata_tree : forall enc T, md_tables_ok T = true ->
  forall t out, md_names_ok t = true -> render enc T BMarkdown t = Ok out -> md_chardata out = Some (mplain T t).
Proof. exact md_chardata_holds. Qed.
Print Assumptions md_chardata_tree.

(* ---- HTML: reading the output as HTML (tags stripped, entities decoded) gives exactly the
   characters of the text, symbols as their entities; in particular no character of the text
   opens a tag or an entity.  names_ok: tag names and URLs contain no angle bracket. *)
Theorem html_chardata : forall enc T, html_symbols_ok T = true ->
  forall t out, names_ok t = true -> render enc T BHtml t = Ok out -> chardata out = Some (hplain T t).
Proof. exact html_chardata_holds. Qed.
Print Assumptions html_chardata.

(* the HTML output is well-formed: every element opened is closed, innermost first, with the same
   name; character data contains no bare < > or &; entities are terminated; attribute values are
   quoted and contain no < or &.  wf_names: tag names are alphanumeric names, URLs are ordinary
   (no double quote, no <, no &: the code inserts URLs unescaped). *)
Theorem html_wellformed : forall enc T, html_symbols_wf T = true ->
  forall t out, wf_names t = true -> render enc T BHtml t = Ok out -> wellformed out.
Proof. exact html_wellformed_holds. Qed.
Print Assumptions html_wellformed.

(* ... and that restriction on URLs is exactly what is needed (it is the property's own: "links with
   ordinary URLs"): each of the three characters, alone as a URL, breaks well-formedness *)
Theorem html_url_refuted : forall enc T c, In c [c_quote; c_lt; c_amp] ->
  exists out, render enc T BHtml (RHRef [c] false [RStr [120]]) = Ok out /\ ~ wellformed out.
Proof. exact html_url_refuted_holds. Qed.
Print Assumptions html_url_refuted.

(* ---- LaTeX: if the encoder keeps the brace skeleton of every string (latexcodec: measured and
   checked per run), every string and URL of the tree is brace-balanced and the tables are sane,
   the output is brace-balanced *)
Theorem latex_balanced : forall enc T, (forall s, skeleton (enc s) = skeleton s) -> latex_tables_ok T = true ->
  forall t out, lt_ok t = true -> render enc T BLatex t = Ok out -> balanced out.
Proof. exact latex_balanced_holds. Qed.
Print Assumptions latex_balanced.

(* the modelled latexcodec encoder (per-character table + control-word state machine) keeps the
   brace skeleton whenever each table entry does *)
Theorem enc_keeps_braces : forall tab, enc_table_ok tab = true -> forall s, skeleton (enc_tab tab s) = skeleton s.
Proof. exact enc_tab_keeps_braces. Qed.
Print Assumptions enc_keeps_braces.

(* the braces emitted for a tag enclose exactly the rendering of its children *)
Theorem latex_tag_encloses : forall enc T n ps out,
  render enc T BLatex (RTag n ps) = Ok out ->
  exists body, render_parts enc T BLatex ps = Ok body /\
    (body = [] /\ out = [] \/
     body <> [] /\ exists cmd, out = cmd ++ [c_lbrace] ++ body ++ [c_rbrace] /\
       (cmd = [] /\ (lookup n (t_tags T) = None \/ lookup n (t_tags T) = Some None) \/
        exists tag, lookup n (t_tags T) = Some (Some tag) /\ cmd = c_bslash :: tag)).
Proof. exact latex_tag_shape. Qed.
Print Assumptions latex_tag_encloses.

Theorem latex_protected_encloses : forall enc T ps out,
  render enc T BLatex (RProt ps) = Ok out ->
  exists body, render_parts enc T BLatex ps = Ok body /\ out = [c_lbrace] ++ body ++ [c_rbrace].
Proof. exact latex_prot_shape. Qed.
Print Assumptions latex_protected_encloses.

(* a link: \href[opts]{url}{children}, or \url{url} when the children render to enc(url) *)
Theorem latex_href_encloses : forall enc T u e ps out,
  render enc T BLatex (RHRef u e ps) = Ok out ->
  exists body, render_parts enc T BLatex ps = Ok body /\
    (body = [] /\ out = [] \/
     body <> [] /\
       (body = enc u /\ out = (lit "\url") ++ [c_lbrace] ++ u ++ [c_rbrace] \/
        body <> enc u /\
        out = (lit "\href") ++ (if e then (lit "[pdfnewwindow]") else []) ++
              ([c_lbrace] ++ u ++ [c_rbrace]) ++ ([c_lbrace] ++ body ++ [c_rbrace]))).
Proof. exact latex_href_shape. Qed.
Print Assumptions latex_href_encloses.

(* the emitted pair of braces match each other: inside a balanced body the group is still open
   at every position, and the emitted closing brace closes it *)
Theorem latex_group_matches : forall body, balanced body ->
  (forall p q, body = p ++ q -> exists k, bal 0 ([c_lbrace] ++ p) = Some (S k)) /\
  bal 0 ([c_lbrace] ++ body ++ [c_rbrace]) = Some 0%nat.
Proof. exact group_matches. Qed.
Print Assumptions latex_group_matches.

(* ---- empty tagged or linked fragments render as nothing, in all four back ends ---- *)
Theorem empty_fragments_vanish : forall enc T b n u e ps,
  render_parts enc T b ps = Ok [] ->
  render enc T b (RTag n ps) = Ok [] /\ render enc T b (RHRef u e ps) = Ok [].
Proof. exact empty_fragments_vanish_holds. Qed.
Print Assumptions empty_fragments_vanish.

(* ---- every character of a LaTeX field value keeps its brace-protection depth when the value is
   parsed into rich text (LaTeXParser + the smart constructor: adjacent groups merge, empty groups
   vanish) and rendered back to LaTeX; codec = identity on the value (DESIGN: enc = dec = id).
   depth_profile lists the non-brace characters with their brace depth. *)
Theorem latex_depth_roundtrip : forall T v, balanced v ->
  exists t out, parse_latex v = Ok t /\ render (fun s => s) T BLatex t = Ok out /\
                depth_profile out = depth_profile v.
Proof. exact latex_depth_roundtrip_full. Qed.
Print Assumptions latex_depth_roundtrip.

(* every brace-balanced value is accepted (the model's fuel always suffices) *)
Theorem from_latex_total : forall v, balanced v -> exists t, parse_latex v = Ok t.
Proof. exact parse_latex_total. Qed.
Print Assumptions from_latex_total.

(* the parsed tree itself carries the depths: brace-free strings under nested Protected *)
Theorem from_latex_carries_depths : forall v t, parse_latex v = Ok t -> sp t = true /\ tp 0 t = depth_profile v.
Proof. exact parse_latex_spec. Qed.
Print Assumptions from_latex_carries_depths.

(* the same round trip under hypotheses about the codec instead of the identity codec: on a value
   alphabet `alpha` the encoder is a homomorphism and is undone by the decoder, and the decoder leaves
   the braces that follow encoded text in place (so neither moves a character across a brace).  Then Text.from_latex(v).render(latex) decodes to
   the plain linearisation of the tree, and every character of the decoded value keeps its depth.
   The hypotheses are sampled against latexcodec on every run (extra check codec_hypotheses_sweep). *)
Theorem latex_depth_roundtrip_codec : forall (enc dec : str -> str) (alpha : char -> bool) T,
  enc [] = [] ->
  (forall a b, forallb alpha a = true -> forallb alpha b = true -> enc (a ++ b) = enc a ++ enc b) ->
  (forall s, forallb alpha s = true -> dec (enc s) = s) ->
  (forall a b r, forallb alpha a = true -> is_brace b = true -> dec (enc a ++ b :: r) = dec (enc a) ++ b :: dec r) ->
  forall v, balanced (dec v) -> (forall c, In c (dec v) -> alpha c = true \/ is_brace c = true) ->
  exists t out, from_latex dec v = Ok t /\ render enc T BLatex t = Ok out /\
    dec out = lin (fun s => s) t /\ depth_profile (dec out) = depth_profile (dec v).
Proof. exact latex_depth_roundtrip_codec_holds. Qed.
Print Assumptions latex_depth_roundtrip_codec.

(* ---- whole documents (BaseBackend.write_to_stream) ----
   every back end: the document is the prologue, then one write_entry per entry, in order, around
   the rendering of that entry's text, then the epilogue *)
Theorem document_structure : forall enc T b php encoding preamble es out,
  write_to_stream enc T b php encoding preamble es = Ok out ->
  exists p texts, write_prologue b encoding preamble es = Ok p /\ rendered enc T b es texts /\
    out = p ++ entries_text b php es texts ++ write_epilogue b.
Proof. exact write_to_stream_spec. Qed.
Print Assumptions document_structure.

(* Markdown and plain text: nothing but the entries, in order *)
Theorem md_plain_document : forall enc T b php encoding preamble es out, b = BMarkdown \/ b = BPlain ->
  write_to_stream enc T b php encoding preamble es = Ok out ->
  exists texts, rendered enc T b es texts /\ out = entries_text b php es texts.
Proof. exact md_plain_document_holds. Qed.
Print Assumptions md_plain_document.

(* LaTeX: [preamble] \begin{thebibliography}{L} (\bibitem[label]{key} text)* \end{thebibliography},
   one \bibitem per entry in order; L is the label of an entry of maximal width, empty for no entry *)
Theorem latex_document : forall enc T php encoding preamble es out,
  write_to_stream enc T BLatex php encoding preamble es = Ok out ->
  exists ll texts, is_longest es ll /\ rendered enc T BLatex es texts /\
    out = (if is_empty preamble then [] else preamble ++ [c_nl]) ++
          (lit "\begin{thebibliography}{") ++ ll ++ [c_rbrace] ++
          concat (map (fun p => latex_entry (e_key (fst p)) (e_label (fst p)) (snd p)) (combine es texts)) ++
          [c_nl; c_nl] ++ (lit "\end{thebibliography}") ++ [c_nl].
Proof. exact latex_document_holds. Qed.
Print Assumptions latex_document.

Theorem latex_document_balanced : forall enc T php encoding preamble es out,
  (forall s, skeleton (enc s) = skeleton s) -> latex_tables_ok T = true ->
  balanced preamble -> forallb entry_balanced es = true ->
  write_to_stream enc T BLatex php encoding preamble es = Ok out -> balanced out.
Proof. exact latex_document_balanced_holds. Qed.
Print Assumptions latex_document_balanced.

(* every list of entries whose texts render is written -- the empty bibliography included (the longest
   label of no entries is the empty string: /repo fix 14eda69) *)
Theorem latex_document_total : forall enc T php encoding preamble es texts,
  rendered enc T BLatex es texts -> exists out, write_to_stream enc T BLatex php encoding preamble es = Ok out.
Proof. exact latex_total. Qed.
Print Assumptions latex_document_total.

(* HTML: the document is the fixed prologue (DOCTYPE, <html>, the <head> block, <body>, <dl>), the
   entries, </dl></body></html>; the entries part is well-formed, so is the document's element
   skeleton around it, and a reader sees per entry: label, line end, text, line end *)
Theorem html_document : forall enc T php encoding preamble es out,
  html_symbols_ok T = true -> html_symbols_wf T = true -> forallb html_entry_ok es = true ->
  write_to_stream enc T BHtml php encoding preamble es = Ok out ->
  exists body, out = html_prologue encoding ++ body ++ write_epilogue BHtml /\
    wellformed body /\ wellformed (html_skeleton body) /\ chardata body = Some (html_entries_atoms T es).
Proof. exact html_document_holds. Qed.
Print Assumptions html_document.

(* one back-end object used several times (documents, renderings, format_str, write_entry in any
   order): the k-th document it writes is the document it would write alone -- prologue + entries +
   epilogue of THAT document, nothing of earlier ones *)
Theorem history_independent : forall enc T b php encoding st ops k pre es,
  nth_error ops k = Some (OpDoc pre es) ->
  nth_error (run_history enc T b php encoding st ops) k = Some (write_to_stream enc T b php encoding pre es).
Proof. exact history_document_alone. Qed.
Print Assumptions history_independent.

(* ---- non-vacuity ---- *)

Example md_table_example : md_table_shape markdown_escapable = true /\ same_set markdown_escapable markdown_escapable = true /\
  format_str (enc_tab ex_enc) ex_latex BMarkdown (lit "a*b\c<") = lit "a\*b\\c&lt;".
Proof. vm_compute. auto. Qed.
Example html_example : html_symbols_ok ex_html = true /\ html_symbols_wf ex_html = true /\ names_ok ex_tree = true /\ wf_names ex_tree = true /\
  render (enc_tab ex_enc) ex_html BHtml ex_tree =
    Ok (lit "a&lt;b &amp; {c}~<em>x_<span class=""bibtex-protected"">Y</span></em>&nbsp;<a href=""http://x.org/a_b"" target=""_blank"">z</a>").
Proof. vm_compute. auto. Qed.
Example latex_example : enc_table_ok ex_enc = true /\ latex_tables_ok ex_latex = true /\ lt_ok ex_tree = true /\
  render (enc_tab ex_enc) ex_latex BLatex ex_tree =
    Ok (lit "a<b \& {c}\textasciitilde\emph{x\_{Y}}~\href[pdfnewwindow]{http://x.org/a_b}{z}").
Proof. vm_compute. auto. Qed.
Example latex_url_example :
  render (enc_tab ex_enc) ex_latex BLatex (RHRef (lit "http://x.org/a_b") false [RStr (lit "http://x.org/a_b")]) = Ok (lit "\url{http://x.org/a_b}").
Proof. vm_compute. auto. Qed.
Example empty_fragment_example :
  render_parts (enc_tab ex_enc) ex_latex BLatex [RStr []; RTag (lit "em") [RText []]] = Ok [].
Proof. vm_compute. auto. Qed.
Example plain_example :
  render (enc_tab ex_enc) (mkTables [(lit "nbsp", lit " ")] [] []) BPlain ex_tree = Ok (lit "a<b & {c}~x_Y z").
Proof. vm_compute. auto. Qed.
Example depth_roundtrip_example : balanced (lit "a{b}{c}{}{{}}d{e{f}}{{g}h}") /\
  parse_latex (lit "a{b}{c}{}{{}}d{e{f}}{{g}h}") =
    Ok (RText [RStr (lit "a"); RProt [RStr (lit "bc")]; RStr (lit "d");
               RProt [RStr (lit "e"); RProt [RStr (lit "fg")]; RStr (lit "h")]]) /\
  (do t <- parse_latex (lit "a{b}{c}{}{{}}d{e{f}}{{g}h}"); render (fun s => s) ex_latex BLatex t) = Ok (lit "a{bc}d{e{fg}h}").
Proof. vm_compute. auto. Qed.
Example html_not_wellformed_example : wellformed_b (lit "<em>a</b>") = false /\ wellformed_b (lit "a < b") = false /\
  wellformed_b (lit "<a href=""u"">x &amp; y</a>") = true.
Proof. vm_compute. auto. Qed.
Example md_tree_example : md_tables_ok ex_md = true /\ md_names_ok ex_tree = true /\
  render (enc_tab ex_enc) ex_md BMarkdown ex_tree =
    Ok (lit "a&lt;b &amp; \{c\}~*x\_Y* <a href=""http://x.org/a_b"" target=""_blank"">z</a>") /\
  md_chardata (lit "a&lt;b &amp; \{c\}~*x\_Y* <a href=""http://x.org/a_b"" target=""_blank"">z</a>") =
    Some (mplain ex_md ex_tree) /\
  md_chardata (lit "a*b") = Some [HC 97; HC 98] /\ md_chardata (lit "a\qb") = None.
Proof. vm_compute. auto 10. Qed.
Example document_example :
  let es := [mkEntry (lit "k1") (lit "A1") 10 (RTag (lit "em") [RStr (lit "x&y")]);
             mkEntry (lit "k2") (lit "Bb2") 20 (RStr (lit "z"))] in
  forallb entry_balanced es = true /\ forallb html_entry_ok es = true /\
  write_to_stream (enc_tab ex_enc) ex_latex BLatex false (lit "UTF-8") [] es =
    Ok ((lit "\begin{thebibliography}{Bb2}") ++ [c_nl; c_nl] ++ (lit "\bibitem[A1]{k1}") ++ [c_nl] ++ (lit "\emph{x\&y}") ++
        [c_nl; c_nl] ++ (lit "\bibitem[Bb2]{k2}") ++ [c_nl] ++ (lit "z") ++ [c_nl; c_nl] ++ (lit "\end{thebibliography}") ++ [c_nl]) /\
  (do out <- write_to_stream (enc_tab ex_enc) ex_html BHtml false (lit "UTF-8") [] es;
   Ok (skipn (length (html_prologue (lit "UTF-8"))) out)) =
    Ok ((lit "<dt>A1</dt>") ++ [c_nl] ++ (lit "<dd><em>x&amp;y</em></dd>") ++ [c_nl] ++
        (lit "<dt>Bb2</dt>") ++ [c_nl] ++ (lit "<dd>z</dd>") ++ [c_nl] ++ (lit "</dl></body></html>") ++ [c_nl]).
Proof. vm_compute. auto. Qed.
Example codec_hypotheses_satisfiable :
  let id := fun s : str => s in let alpha := fun c => negb (is_brace c) in
  (forall s, skeleton (id s) = skeleton s) /\ id [] = [] /\
  (forall a b, forallb alpha a = true -> forallb alpha b = true -> id (a ++ b) = id a ++ id b) /\
  (forall s, forallb alpha s = true -> id (id s) = s) /\
  (forall a b r, forallb alpha a = true -> is_brace b = true -> id (id a ++ b :: r) = id (id a) ++ b :: id r) /\
  (forall c, alpha c = true -> is_brace c = false).
Proof. exact codec_hyps_identity. Qed.
Example empty_bibliography_example :
  write_to_stream (enc_tab ex_enc) ex_latex BLatex false (lit "UTF-8") [] [] =
    Ok ((lit "\begin{thebibliography}{}") ++ [c_nl; c_nl] ++ (lit "\end{thebibliography}") ++ [c_nl]).
Proof. vm_compute. auto. Qed.
