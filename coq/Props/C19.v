(* Props/C19.v -- ".bbl line wrapping preserves content and respects the width".
   Only statements, each closed by `exact <lemma>`, its assumptions printed, and an
   Example showing the hypotheses are met by a non-trivial value. *)
From Pybtex Require Import Base.Prelude Base.PyChar Base.PyStr Model.Wrap Proofs.Wrap.

(* wrapping terminates for every string, width and indent (the model's fuel |s|+1 suffices) *)
Theorem wrap_total : forall s w ind, exists out, wrap s w ind = Ok out.
Proof. exact Proofs.Wrap.wrap_total. Qed.
Print Assumptions wrap_total.

(* no non-whitespace character is lost, duplicated, altered or reordered *)
Theorem wrap_content : forall s w ind ls, forallb is_space ind = true ->
  wrap_lines s w ind = Some ls -> nonspace (concat ls) = nonspace s.
Proof. exact wrap_lines_content. Qed.
Print Assumptions wrap_content.

(* breaks happen only at whitespace, each break consumes exactly one whitespace
   character and inserts exactly the indent; gluing the lines back reproduces the text
   (up to trailing whitespace removed per line, and one trailing whitespace character
   of the whole text when the indent is empty) *)
Theorem wrap_reassemble : forall s w ind ls, wrap_lines s w ind = Some ls ->
  exists raw seps tail,
    ls = map rstrip raw /\
    length seps = pred (length raw) /\ forallb is_space (seps ++ tail) = true /\
    rejoin (length ind) raw seps ++ tail = s /\ length tail <= 1 /\ (ind <> [] -> tail = []) /\
    Forall (fun l => firstn (length ind) l = ind) (tl raw).
Proof. exact wrap_lines_reassemble. Qed.
Print Assumptions wrap_reassemble.

(* no line that has a legal break point (whitespace after the indent, at or before
   the width) exceeds the width *)
Theorem wrap_width : forall s w ind ls, wrap_lines s w ind = Some ls ->
  forall l, In l ls -> w < length l ->
  forall p c, nth_error l p = Some c -> is_space c = true -> length ind < p -> p <= w -> False.
Proof. exact wrap_lines_width. Qed.
Print Assumptions wrap_width.

(* strong form: a line longer than the width contains no whitespace after the indent at
   all -- wherever a line could have been broken, it was *)
Theorem wrap_width_strong : forall s w ind ls, wrap_lines s w ind = Some ls ->
  forall l, In l ls -> w < length l ->
  forall p c, nth_error l p = Some c -> is_space c = true -> length ind < p -> False.
Proof. exact wrap_lines_width_strong. Qed.
Print Assumptions wrap_width_strong.

(* trailing whitespace is removed from every line *)
Theorem wrap_no_trailing_ws : forall s w ind ls, wrap_lines s w ind = Some ls ->
  Forall (fun l => l = [] \/ is_space (last l 0%N) = false) ls.
Proof. exact wrap_lines_no_trailing_ws. Qed.
Print Assumptions wrap_no_trailing_ws.

(* newline$ emits exactly wrap(buffer) and a line end, and clears the buffer *)
Theorem newline_spec : forall buffer lines w, wrap (concat buffer) 79 (s2l "  ") = Ok w ->
  newline buffer lines = Ok ([], lines ++ [w; [c_nl]]).
Proof. exact newline_wraps. Qed.
Print Assumptions newline_spec.

(* non-vacuity: a text that is really broken, at width 10 *)
Example wrap_example :
  wrap_lines (s2l "01234 6789 12345") 9 (s2l "  ") = Some [s2l "01234"; s2l "  6789"; s2l "  12345"]
  /\ forallb is_space (s2l "  ") = true.
Proof. vm_compute. auto. Qed.
Example wrap_long_word_example :
  wrap_lines (s2l "aa bb c") 3 (s2l "  ") = Some [s2l "aa bb"; s2l "  c"].
Proof. vm_compute. auto. Qed.
