(* Props/C19.v -- ".bbl line wrapping preserves content and respects the width".
   Only statements, each closed by `exact <lemma>`, its assumptions printed, and an
   Example showing the hypotheses are met by a non-trivial value. *)
From Pybtex Require Import Base.Prelude Base.PyChar Base.PyStr Model.Wrap Proofs.Wrap.

(* wrapping terminates for every string, width and indent (the model's fuel |s|+1 suffices) *)
Theorem wrap_total : forall s w ind, exists out, wrap s w ind = Ok out.
Proof. exact Proofs.Wrap.wrap_total. Qed.
Print Assumptions wrap_total.

(* no non-whitespace character is lost, duplicated, altered or reordered *)
Theorem wrap_content : forall s w ind ls, forallb is_space ind = true ->
  wrap_lines s w ind = Some ls -> nonspace (concat ls) = nonspace s.
Proof. exact wrap_lines_content. Qed.
Print Assumptions wrap_content.

(* breaks happen only at whitespace, each break consumes exactly one whitespace
   character and inserts exactly the indent; gluing the lines back reproduces the text
   (up to trailing whitespace removed per line, and one trailing whitespace character
   of the whole text when the indent is empty) *)
Theorem wrap_reassemble : forall s w ind ls, wrap_lines s w ind = Some ls ->
  exists raw seps tail,
    ls = map rstrip raw /\
    length seps = pred (length raw) /\ forallb is_space (seps ++ tail) = true /\
    rejoin (length ind) raw seps ++ tail = s /\ length tail <= 1 /\ (ind <> [] -> tail = []) /\
    Forall (fun l => firstn (length ind) l = ind) (tl raw).
Proof. exact wrap_lines_reassemble. Qed.
Print Assumptions wrap_reassemble.

(* no line that has a legal break point (whitespace after the indent, at or before
   the width) exceeds the width *)
Theorem wrap_width : forall s w ind ls, wrap_lines s w ind = Some ls ->
  forall l, In l ls -> w < length l ->
  forall p c, nth_error l p = Some c -> is_space c = true -> length ind < p -> p <= w -> False.
Proof. exact wrap_lines_width. Qed.
Print Assumptions wrap_width.

(* strong form: a line longer than the width contains no whitespace after the indent at
   all -- wherever a line could have been broken, it was *)
Theorem wrap_width_strong : forall s w ind ls, wrap_lines s w ind = Some ls ->
  forall l, In l ls -> w < length l ->
  forall p c, nth_error l p = Some c -> is_space c = true -> length ind < p -> False.
Proof. exact wrap_lines_width_strong. Qed.
Print Assumptions wrap_width_strong.

(* trailing whitespace is removed from every line *)
Theorem wrap_no_trailing_ws : forall s w ind ls, wrap_lines s w ind = Some ls ->
  Forall (fun l => l = [] \/ is_space (last l 0%N) = false) ls.
Proof. exact wrap_lines_no_trailing_ws. Qed.
Print Assumptions wrap_no_trailing_ws.

(* only long texts are broken: a text that fits into the width comes back as one line, only right-stripped *)
Theorem wrap_fits_unbroken : forall (s : str) w (ind : str), length s <= w ->
  wrap_lines s w ind = Some (match s with [] => [] | _ => [rstrip s] end).
Proof. exact wrap_lines_fits. Qed.
Print Assumptions wrap_fits_unbroken.

Theorem wrap_broken_only_if_long : forall (s : str) w (ind : str) ls,
  wrap_lines s w ind = Some ls -> 1 < length ls -> w < length s.
Proof. exact wrap_lines_broken_only_if_long. Qed.
Print Assumptions wrap_broken_only_if_long.

(* every break is forced (unfolding principle of the loop): whenever the output has a second line, the first
   one ends at a break position b such that the pending text is longer than the width and every whitespace
   character after b lies beyond the width -- the line could not have been made longer -- and the remaining
   lines are the lines of indent ++ (text after the break character), so the same holds for each later line *)
Theorem wrap_break_forced : forall f (s : str) w (ind : str) l l2 rest,
  iter_lines (S f) s w ind = Some (l :: l2 :: rest) ->
  exists b, l = firstn b s /\ w < length s /\
    iter_lines f (ind ++ skipn (S b) s) w ind = Some (l2 :: rest) /\
    (forall q c, nth_error s q = Some c -> is_space c = true -> b < q -> w < q).
Proof. exact iter_lines_break_forced. Qed.
Print Assumptions wrap_break_forced.

(* newline$ emits exactly wrap(buffer) and a line end, and clears the buffer *)
Theorem newline_spec : forall buffer lines w, wrap (concat buffer) 79 (s2l "  ") = Ok w ->
  newline buffer lines = Ok ([], lines ++ [w; [c_nl]]).
Proof. exact newline_wraps. Qed.
Print Assumptions newline_spec.

(* a run of write$ / newline$ operations is total: every sequence yields an output text *)
Theorem output_run_total : forall ops buffer lines, exists out, run_output ops buffer lines = Ok out.
Proof. exact run_output_total. Qed.
Print Assumptions output_run_total.

(* write$ alone emits nothing: text stays in the buffer until a newline$ (what is still buffered
   when the program ends is not part of the output) *)
Theorem output_writes_are_buffered : forall ss buffer lines,
  run_output (map inl ss) buffer lines = Ok (concat lines).
Proof. exact run_output_writes_only. Qed.
Print Assumptions output_writes_are_buffered.

(* each newline$ emits exactly wrap(everything written since the previous newline$, concatenated in
   order), then a line end, and starts again with an empty buffer -- for every number of write$s *)
Theorem output_line_is_wrapped : forall ss u r buffer lines w,
  wrap (concat (buffer ++ ss)) 79 (s2l "  ") = Ok w ->
  run_output (map inl ss ++ inr u :: r) buffer lines = run_output r [] (lines ++ [w; [c_nl]]).
Proof. exact run_output_line. Qed.
Print Assumptions output_line_is_wrapped.

(* output already emitted is never changed by later operations *)
Theorem output_is_append_only : forall ops buffer lines out,
  run_output ops buffer lines = Ok out -> exists t, out = concat lines ++ t.
Proof. exact run_output_prefix. Qed.
Print Assumptions output_is_append_only.

(* non-vacuity: a text that is really broken, at width 10 *)
Example wrap_example :
  wrap_lines (s2l "01234 6789 12345") 9 (s2l "  ") = Some [s2l "01234"; s2l "  6789"; s2l "  12345"]
  /\ forallb is_space (s2l "  ") = true.
Proof. vm_compute. auto. Qed.
Example wrap_fits_example :
  wrap_lines (s2l "ab c  ") 9 (s2l "  ") = Some [s2l "ab c"] /\ length (s2l "ab c  ") <= 9.
Proof. vm_compute. split; [reflexivity|repeat constructor]. Qed.
Example wrap_long_word_example :
  wrap_lines (s2l "aa bb c") 3 (s2l "  ") = Some [s2l "aa bb"; s2l "  c"].
Proof. vm_compute. auto. Qed.
Example output_run_example :
  run_output [inl (s2l "ab"); inl (s2l " c "); inr tt; inl (s2l "d")] [] [] = Ok (s2l "ab c" ++ [c_nl]).
Proof. vm_compute. reflexivity. Qed.
