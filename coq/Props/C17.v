(* Props/C17.v -- entry points agree; run-time plug-ins; open() failures. Statements only. *)
From Pybtex Require Import Base.Prelude Base.PyChar Base.PyStr Model.Plugins Proofs.Plugins.

Theorem no_silent_replace : forall r inst df g n k,
  already_registered r inst g n = true ->
  register_plugin r inst df g n k false = (Ok false, r)
  \/ (exists e, register_plugin r inst df g n k false = (e, r) /\ is_ok e = false).
Proof. exact Proofs.Plugins.no_silent_replace. Qed.
Print Assumptions no_silent_replace.
