(* Props/C17.v -- "String/bytes/stream/file entry points agree; I/O faults become pybtex
   errors; run-time plug-ins are found like installed ones and replaced only when forced".
   Only statements, each closed by `exact <lemma>`, its assumptions printed, and Examples
   showing that the hypotheses are met by non-trivial values. *)
From Pybtex Require Import Base.Prelude Base.PyChar Base.PyStr
  Model.Plugins Model.IO Model.EntryPoints Model.YamlWriter Model.RealPlugins
  Proofs.Plugins Proofs.IO Proofs.EntryPoints Proofs.YamlWriter Proofs.Utf8 Proofs.Utf16 Proofs.RealPlugins.

(* ===== the plug-in registry (pybtex/plugin/__init__.py), for every state of
   _RUNTIME_PLUGINS, every table of installed entry points and every _DEFAULT_PLUGINS ===== *)

(* a class registered under a name is found by that name *)
Theorem register_then_find_name : forall r inst df g n k force r' fl d,
  register_plugin r inst df g n k force = (Ok true, r') ->
  dget df g = Some d -> n <> [] -> k_is_none k = false ->
  find_plugin r' inst df g (NStr n) fl = Ok k.
Proof. exact Proofs.Plugins.register_then_find_name. Qed.
Print Assumptions register_then_find_name.

(* ... under an alias, by the alias -- unless a plug-in of that *name* exists, which takes
   precedence exactly as it does over an installed alias *)
Theorem register_then_find_alias : forall r inst df g n k force r' fl d,
  register_plugin r inst df (g ++ s_aliases) n k force = (Ok true, r') ->
  dget df g = Some d -> n <> [] -> k_is_none k = false ->
  lookup1 r inst g n = None ->
  find_plugin r' inst df g (NStr n) fl = Ok k.
Proof. exact Proofs.Plugins.register_then_find_alias. Qed.
Print Assumptions register_then_find_alias.

(* ... under a suffix, by every file name that os.path.splitext gives that suffix *)
Theorem register_then_find_suffix : forall r inst df g sfx k force r' name fl d,
  register_plugin r inst df (g ++ s_suffixes) sfx k force = (Ok true, r') ->
  dget df g = Some d -> k_is_none k = false ->
  (name = NNone \/ name = NStr []) -> fl <> [] -> snd (splitext fl) = sfx ->
  find_plugin r' inst df g name (Some fl) = Ok k.
Proof. exact Proofs.Plugins.register_then_find_suffix. Qed.
Print Assumptions register_then_find_suffix.

(* an un-forced registration of a pair that is installed or already registered changes
   nothing and does not answer True; with a known group and a well-formed name it answers False *)
Theorem no_silent_replace : forall r inst df g n k,
  already_registered r inst g n = true ->
  snd (register_plugin r inst df g n k false) = r /\
  fst (register_plugin r inst df g n k false) <> Ok true.
Proof. exact Proofs.Plugins.no_silent_replace. Qed.
Print Assumptions no_silent_replace.

Theorem no_silent_replace_false : forall r inst df g n k d,
  already_registered r inst g n = true ->
  dget df (base_group_of g) = Some d ->
  (endswith g s_suffixes = true -> startswith n [c_dot] = true) ->
  register_plugin r inst df g n k false = (Ok false, r).
Proof. exact Proofs.Plugins.no_silent_replace_false. Qed.
Print Assumptions no_silent_replace_false.

(* for ALL histories of API calls (register / find / enumerate, any arguments, failing or
   not): what a (group, name) pair resolves to -- run-time or installed -- is still the same
   afterwards unless the history contains a forced registration of exactly that pair *)
Theorem replaced_only_when_forced : forall inst df cs r g n k,
  lookup1 r inst g n = Some k ->
  Forall (fun c => ~ forces g n c) cs ->
  lookup1 (snd (run inst df r cs)) inst g n = Some k.
Proof. exact Proofs.Plugins.replaced_only_when_forced. Qed.
Print Assumptions replaced_only_when_forced.

(* the same seen through find_plugin *)
Theorem find_by_name_stable : forall inst df cs r g c n k d fl,
  dget df g = Some d -> lookup1 r inst g (c :: n) = Some k ->
  Forall (fun x => ~ forces g (c :: n) x) cs ->
  find_plugin r inst df g (NStr (c :: n)) fl = Ok k /\
  find_plugin (snd (run inst df r cs)) inst df g (NStr (c :: n)) fl = Ok k.
Proof. exact Proofs.Plugins.find_by_name_stable. Qed.
Print Assumptions find_by_name_stable.

(* a NAME wins over an ALIAS whichever side (installed table / run-time registry) holds either:
   a name that its own group resolves is found as that class whatever the alias groups contain,
   and registering an alias of the same spelling -- forced or not -- cannot replace it *)
Theorem name_shadows_alias : forall r inst df g c n k d fl,
  dget df g = Some d -> lookup1 r inst g (c :: n) = Some k ->
  find_plugin r inst df g (NStr (c :: n)) fl = Ok k.
Proof. exact Proofs.Plugins.name_shadows_alias. Qed.
Print Assumptions name_shadows_alias.

Theorem alias_registration_cannot_replace_name : forall inst df r g c n k d fl k' force,
  dget df g = Some d -> lookup1 r inst g (c :: n) = Some k ->
  find_plugin (snd (register_plugin r inst df (g ++ s_aliases) (c :: n) k' force)) inst df g (NStr (c :: n)) fl = Ok k.
Proof. exact Proofs.Plugins.alias_registration_cannot_replace_name. Qed.
Print Assumptions alias_registration_cannot_replace_name.

(* find_plugin answers a class or raises a pybtex error -- never a foreign exception -- for every
   state, table and argument, names starting with a period included *)
Theorem find_plugin_no_foreign_exception : forall r inst df g name fl,
  find_plugin r inst df g name fl <> Crash /\ find_plugin r inst df g name fl <> OutOfFuel.
Proof. exact Proofs.Plugins.find_plugin_no_foreign_exception. Qed.
Print Assumptions find_plugin_no_foreign_exception.

Theorem find_by_suffix_stable : forall inst df cs r g fl k d,
  dget df g = Some d -> fl <> [] ->
  lookup1 r inst (g ++ s_suffixes) (snd (splitext fl)) = Some k ->
  Forall (fun x => ~ forces (g ++ s_suffixes) (snd (splitext fl)) x) cs ->
  find_plugin r inst df g NNone (Some fl) = Ok k /\
  find_plugin (snd (run inst df r cs)) inst df g NNone (Some fl) = Ok k.
Proof. exact Proofs.Plugins.find_by_suffix_stable. Qed.
Print Assumptions find_by_suffix_stable.

(* register_then_find for all later histories: once registered, a name stays found -- as the
   registered class -- until a replacement of exactly that name is forced *)
Theorem registered_stays_found : forall inst df cs r g c n k force r' d fl,
  register_plugin r inst df g (c :: n) k force = (Ok true, r') ->
  dget df g = Some d -> k_is_none k = false ->
  Forall (fun x => ~ forces g (c :: n) x) cs ->
  find_plugin (snd (run inst df r' cs)) inst df g (NStr (c :: n)) fl = Ok k.
Proof. exact Proofs.Plugins.registered_stays_found. Qed.
Print Assumptions registered_stays_found.

(* run-time plug-ins are found exactly like installed ones: after any history of calls from
   the empty registry, every query (name, alias, suffix, default, any group) is answered as
   if the run-time registrations were entry points listed in front of the installed ones *)
Theorem runtime_like_installed : forall inst df cs g name fl,
  Forall registers_class cs ->
  let r := snd (run inst df [] cs) in
  find_plugin r inst df g name fl = find_plugin [] (flatten r ++ inst) df g name fl.
Proof. exact Proofs.Plugins.runtime_like_installed_all. Qed.
Print Assumptions runtime_like_installed.

(* ===== open() failures (pybtex/io.py), for every script of opener outcomes ===== *)

(* writing: first attempt succeeds / fails without TEXMFOUTPUT / fails and the fallback
   TEXMFOUTPUT/<file> succeeds / both fail (the error is the FIRST one and names the ORIGINAL file) *)
Theorem open_write_matrix : forall rest filename mode enc isfile kp, is_write mode = true ->
  (forall h tex, open_ (opener_st (OHandle h :: rest)) (TName filename) mode enc tex isfile kp
     = (OpenOk h, {| script := rest; log := [((filename, mode), enc)] |})) /\
  (forall e, open_ (opener_st (OEnvErr e :: rest)) (TName filename) mode enc None isfile kp
     = (OpenErr (open_error_message filename e), {| script := rest; log := [((filename, mode), enc)] |})) /\
  (forall e h d, open_ (opener_st (OEnvErr e :: OHandle h :: rest)) (TName filename) mode enc (Some d) isfile kp
     = (OpenOk h, {| script := rest; log := [((filename, mode), enc); ((path_join d filename, mode), enc)] |})) /\
  (forall e e2 d, open_ (opener_st (OEnvErr e :: OEnvErr e2 :: rest)) (TName filename) mode enc (Some d) isfile kp
     = (OpenErr (open_error_message filename e),
        {| script := rest; log := [((filename, mode), enc); ((path_join d filename, mode), enc)] |})).
Proof. exact Proofs.IO.open_write_matrix_all. Qed.
Print Assumptions open_write_matrix.

(* reading: one attempt, at the file itself when it exists, else where kpsewhich found it (or
   the file itself when kpsewhich found nothing); failure = pybtex error naming the original file;
   a kpsewhich that cannot be started = pybtex error, nothing opened *)
Theorem open_read_matrix : forall rest filename mode enc tex isfile kp, is_write mode = false ->
  (forall p h, read_path filename isfile kp = Some p ->
     open_ (opener_st (OHandle h :: rest)) (TName filename) mode enc tex isfile kp
     = (OpenOk h, {| script := rest; log := [((p, mode), enc)] |})) /\
  (forall p e, read_path filename isfile kp = Some p ->
     open_ (opener_st (OEnvErr e :: rest)) (TName filename) mode enc tex isfile kp
     = (OpenErr (open_error_message filename e), {| script := rest; log := [((p, mode), enc)] |})) /\
  (forall e sc, open_ (opener_st sc) (TName filename) mode enc tex false (PExecFail e)
     = (OpenErr (open_error_message filename e), opener_st sc)).
Proof. exact Proofs.IO.open_read_matrix_all. Qed.
Print Assumptions open_read_matrix.

(* the named file exists: it is the one file opened -- kpsewhich is NOT consulted, whatever it
   would find -- and failing to open it (EACCES, EISDIR ...) is a pybtex error naming it *)
Theorem open_existing_file : forall rest filename mode enc tex kp,
  is_write mode = false ->
  (forall h, open_ (opener_st (OHandle h :: rest)) (TName filename) mode enc tex true kp
     = (OpenOk h, {| script := rest; log := [((filename, mode), enc)] |})) /\
  (forall e, open_ (opener_st (OEnvErr e :: rest)) (TName filename) mode enc tex true kp
     = (OpenErr (open_error_message filename e), {| script := rest; log := [((filename, mode), enc)] |})).
Proof. exact Proofs.IO.open_existing_file. Qed.
Print Assumptions open_existing_file.

(* the read side for EVERY outcome: whatever isfile says, whatever kpsewhich does (not startable,
   any exit status, any output), whatever the open() attempt yields short of a foreign exception:
   either exactly the handle that open() returned, or a pybtex error naming the file asked for;
   at most one file is opened *)
Theorem open_read_total : forall o rest filename mode enc tex isfile kp,
  is_write mode = false -> o <> OOther ->
  let '(r, st) := open_ (opener_st (o :: rest)) (TName filename) mode enc tex isfile kp in
  ((exists h, r = OpenOk h /\ o = OHandle h) \/ (exists msg, r = OpenErr msg /\ infix filename msg = true))
  /\ (length (log st) <= 1)%nat.
Proof. exact Proofs.IO.open_read_total. Qed.
Print Assumptions open_read_total.

(* every pybtex error of _open names the file it was asked to open *)
Theorem open_error_names_file : forall st filename mode enc tex isfile kp msg st',
  open_ st (TName filename) mode enc tex isfile kp = (OpenErr msg, st') ->
  infix filename msg = true.
Proof. exact Proofs.IO.open_error_names_file. Qed.
Print Assumptions open_error_names_file.

(* whatever OSErrors open() raises (first attempt, fallback, both), _open never lets a
   foreign exception through *)
Theorem open_no_foreign_exception : forall sc t mode enc tex isfile kp,
  Forall env_only sc -> 2 <= length sc ->
  fst (open_ (opener_st sc) t mode enc tex isfile kp) <> OpenCrash.
Proof. exact Proofs.IO.open_no_foreign_exception. Qed.
Print Assumptions open_no_foreign_exception.

(* ===== entry points (BaseParser / BaseWriter / pybtex.database), for every plug-in
   (parse_stream / write_stream / unicode_io), codec, text and parser state ===== *)

(* parsing the encoded bytes, a stream of the plug-in's kind, or a named file containing the
   bytes equals parsing the string (a text file is read with universal newlines) *)
Theorem entry_points_agree : forall db ps cd u s b data,
  enc cd s = Some b -> dec cd b = Some s -> fdec cd b = FText s ->
  parse_bytes db ps cd u b data = parse_string db ps cd u s data /\
  parse_file db ps cd u (FStream (own_stream u s b)) data = parse_string db ps cd u s data /\
  parse_file db ps cd u (FOpened b) data
    = parse_string db ps cd u (if u then universal_newlines s else s) data.
Proof. exact Proofs.EntryPoints.entry_points_agree. Qed.
Print Assumptions entry_points_agree.

Theorem entry_points_agree_file : forall db ps cd u s b data,
  enc cd s = Some b -> dec cd b = Some s -> fdec cd b = FText s -> (u = true -> ~ In 13%N s) ->
  parse_file db ps cd u (FOpened b) data = parse_string db ps cd u s data.
Proof. exact Proofs.EntryPoints.entry_points_agree_file. Qed.
Print Assumptions entry_points_agree_file.

(* the codec hypotheses are theorems for the default encoding: UTF-8 decodes (as bytes and as a
   text file) what it encoded, for every text *)
Theorem utf8_roundtrip : forall s b,
  enc codec_utf8 s = Some b -> dec codec_utf8 b = Some s /\ fdec codec_utf8 b = FText s.
Proof. exact Proofs.Utf8.utf8_roundtrip. Qed.
Print Assumptions utf8_roundtrip.

(* ... so with the default encoding the entry points agree unconditionally on every text that
   can be encoded at all *)
Theorem utf8_entry_points_agree : forall db ps u s b data,
  enc codec_utf8 s = Some b ->
  parse_bytes db ps codec_utf8 u b data = parse_string db ps codec_utf8 u s data /\
  parse_file db ps codec_utf8 u (FStream (own_stream u s b)) data = parse_string db ps codec_utf8 u s data /\
  parse_file db ps codec_utf8 u (FOpened b) data
    = parse_string db ps codec_utf8 u (if u then universal_newlines s else s) data.
Proof. exact Proofs.Utf8.utf8_entry_points_agree. Qed.
Print Assumptions utf8_entry_points_agree.

(* the same for 'utf-16' (byte-order mark and surrogate pairs included) and hence for all four
   codecs the extracted runner knows (codec_of: utf-8, latin-1, utf-16, ascii) *)
Theorem utf16_roundtrip : forall s b,
  enc codec_utf16 s = Some b -> dec codec_utf16 b = Some s /\ fdec codec_utf16 b = FText s.
Proof. exact Proofs.Utf16.utf16_roundtrip. Qed.
Print Assumptions utf16_roundtrip.

Theorem modelled_entry_points_agree : forall n db ps u s b data,
  enc (codec_of n) s = Some b ->
  parse_bytes db ps (codec_of n) u b data = parse_string db ps (codec_of n) u s data /\
  parse_file db ps (codec_of n) u (FStream (own_stream u s b)) data = parse_string db ps (codec_of n) u s data /\
  parse_file db ps (codec_of n) u (FOpened b) data
    = parse_string db ps (codec_of n) u (if u then universal_newlines s else s) data.
Proof. exact Proofs.Utf16.modelled_entry_points_agree. Qed.
Print Assumptions modelled_entry_points_agree.

(* to_bytes is the to_string document encoded *)
Theorem to_bytes_is_encoded_to_string : forall wd ws cd u d t,
  (u = false -> forall b t', dec cd b = Some t' -> enc cd t' = Some b) ->
  to_string wd ws cd u d = Ok t ->
  to_bytes wd ws cd u d = match enc cd t with Some b => Ok b | None => Crash end.
Proof. exact Proofs.EntryPoints.to_bytes_is_encoded_to_string. Qed.
Print Assumptions to_bytes_is_encoded_to_string.

(* the YAML writer overrides to_string / to_bytes: "to_bytes is the to_string document encoded"
   in the encoding the writer was created with is REFUTED (finding FC17a): it never consults
   self.encoding.  Witness: Latin-1, the text U+00E9. *)
Theorem yaml_to_bytes_refuted :
  exists (dump_text dump_utf8 : str -> res str) cd d,
    dump_consistent dump_text dump_utf8 /\
    (exists b, enc cd d = Some b) /\
    yaml_to_bytes str dump_utf8 d <> encode_with cd (yaml_to_string str dump_text d).
Proof. exact Proofs.YamlWriter.yaml_to_bytes_refuted. Qed.
Print Assumptions yaml_to_bytes_refuted.

(* strongest true variant: it is the to_string document encoded in UTF-8, and write_file
   writes exactly those bytes *)
Theorem yaml_to_bytes_partial : forall wd (dump_text dump_utf8 : wd -> res str) d,
  dump_consistent dump_text dump_utf8 ->
  yaml_to_bytes wd dump_utf8 d = encode_with codec_utf8 (yaml_to_string wd dump_text d).
Proof. exact Proofs.YamlWriter.yaml_to_bytes_partial. Qed.
Print Assumptions yaml_to_bytes_partial.

Theorem yaml_write_file_writes_to_bytes : forall wd (dump_utf8 : wd -> res str) cd d,
  yaml_write_file wd dump_utf8 cd d WOpened
  = (do b <- yaml_to_bytes wd dump_utf8 d; Ok (None, Some (SBytes b))).
Proof. exact Proofs.YamlWriter.yaml_write_file_writes_to_bytes. Qed.
Print Assumptions yaml_write_file_writes_to_bytes.

(* writing to a file writes exactly those bytes -- REFUTED as stated (finding FC17b): a writer
   that never calls write() leaves the file empty while to_bytes of the empty document is the
   byte-order mark of the encoding *)
(* full statement:  forall wd ws cd u d,
     write_file wd ws cd u d WOpened = (do b <- to_bytes wd ws cd u d; Ok (None, Some (SBytes b))) *)
Theorem write_file_writes_to_bytes_refuted :
  exists (ws : bool -> unit -> res (list str)) cd u d,
    write_file unit ws cd u d WOpened <> (do b <- to_bytes unit ws cd u d; Ok (None, Some (SBytes b))).
Proof. exact Proofs.EntryPoints.write_file_writes_to_bytes_refuted. Qed.
Print Assumptions write_file_writes_to_bytes_refuted.

(* strongest true variant: it holds whenever the writer writes at least one chunk, or the
   encoding of the empty text is empty (utf-8, latin-1, ascii ...), or the writer is binary *)
Theorem write_file_writes_to_bytes_partial : forall wd ws cd u d,
  (u = true -> ws true d = Ok [] -> enc cd [] = Some []) ->
  write_file wd ws cd u d WOpened = (do b <- to_bytes wd ws cd u d; Ok (None, Some (SBytes b))).
Proof. exact Proofs.EntryPoints.write_file_writes_to_bytes_partial. Qed.
Print Assumptions write_file_writes_to_bytes_partial.

(* ... and for an encoding without byte-order mark the FULL statement holds -- in particular
   for the modelled utf-8, latin-1 and ascii: a named file receives exactly the to_bytes bytes,
   for every plug-in and every data, also when the writer writes nothing *)
Theorem write_file_writes_to_bytes_bomless : forall wd ws cd u d,
  enc cd [] = Some [] ->
  write_file wd ws cd u d WOpened = (do b <- to_bytes wd ws cd u d; Ok (None, Some (SBytes b))).
Proof. exact Proofs.EntryPoints.write_file_writes_to_bytes_bomless. Qed.
Print Assumptions write_file_writes_to_bytes_bomless.

Theorem write_file_writes_to_bytes_modelled : forall wd ws n u d,
  n <> 3%N ->
  write_file wd ws (codec_of n) u d WOpened = (do b <- to_bytes wd ws (codec_of n) u d; Ok (None, Some (SBytes b))).
Proof. exact Proofs.EntryPoints.write_file_writes_to_bytes_modelled. Qed.
Print Assumptions write_file_writes_to_bytes_modelled.

(* every installed suffix names a format: on a table accepted by installed_table_ok (evaluated
   on the regenerated table of the running environment on every check run), the class chosen
   from a file suffix is the class of some format name *)
Theorem installed_suffix_has_name : forall inst df g sfx k0,
  installed_table_ok inst df = true -> In ((g, sfx), k0) inst -> endswith g s_suffixes = true ->
  exists n k, find_plugin [] inst df (strip_suffix g s_suffixes) NNone (Some (97%N :: sfx)) = Ok k
           /\ find_plugin [] inst df (strip_suffix g s_suffixes) (NStr n) None = Ok k.
Proof. exact Proofs.Plugins.installed_suffix_has_name. Qed.
Print Assumptions installed_suffix_has_name.

(* choosing the format from the file suffix equals naming it, whenever the registry maps
   the suffix and the name to the same class (register_then_find_name / _suffix give that for
   run-time plug-ins; for the installed table it is checked on every run) *)
Theorem suffix_equals_name : forall db plugins r inst df cd empty fname n,
  (find_plugin r inst df g_input NNone (Some fname) = find_plugin r inst df g_input (NStr n) (Some fname) ->
   forall f, db_parse_file db plugins r inst df cd empty f (Some fname) NNone
           = db_parse_file db plugins r inst df cd empty f (Some fname) (NStr n)) /\
  (find_plugin r inst df g_output NNone (Some fname) = find_plugin r inst df g_output (NStr n) (Some fname) ->
   forall d dst, db_to_file db plugins r inst df cd d dst (Some fname) NNone
               = db_to_file db plugins r inst df cd d dst (Some fname) (NStr n)).
Proof. exact Proofs.EntryPoints.suffix_equals_name_all. Qed.
Print Assumptions suffix_equals_name.

(* the module-level readers and writers inherit the agreement *)
Theorem db_entry_points_agree : forall db plugins r inst df cd empty s b fmt,
  enc cd s = Some b -> dec cd b = Some s -> fdec cd b = FText s -> ~ In 13%N s ->
  db_parse_bytes db plugins r inst df cd empty b fmt = db_parse_string db plugins r inst df cd empty s fmt /\
  (forall fname, find_plugin r inst df g_input fmt fname = find_plugin r inst df g_input fmt None ->
     db_parse_file db plugins r inst df cd empty (FOpened b) fname fmt
     = db_parse_string db plugins r inst df cd empty s fmt).
Proof. exact Proofs.EntryPoints.db_entry_points_agree. Qed.
Print Assumptions db_entry_points_agree.

(* ===== the same, stated per shipped plug-in (Model/RealPlugins.v: stream kind and overridden
   methods of the bibtex / yaml / bibtexml readers and writers; their bodies are arbitrary) ===== *)

(* BibTeX reader (text plug-in; parse_string overridden; parse_stream = parse_string o read) *)
Theorem bibtex_entry_points_agree : forall db body cd s b d,
  enc cd s = Some b -> dec cd b = Some s -> fdec cd b = FText s ->
  bibtex_parse_bytes db body cd b d = bibtex_parse_string db body s d /\
  bibtex_parse_file db body cd (FStream (SText s)) d = bibtex_parse_string db body s d /\
  bibtex_parse_file db body cd (FOpened b) d = bibtex_parse_string db body (universal_newlines s) d.
Proof. exact Proofs.RealPlugins.bibtex_entry_points_agree. Qed.
Print Assumptions bibtex_entry_points_agree.

Theorem bibtex_utf8_entry_points_agree : forall db body s b d,
  enc codec_utf8 s = Some b ->
  bibtex_parse_bytes db body codec_utf8 b d = bibtex_parse_string db body s d /\
  bibtex_parse_file db body codec_utf8 (FStream (SText s)) d = bibtex_parse_string db body s d /\
  bibtex_parse_file db body codec_utf8 (FOpened b) d = bibtex_parse_string db body (universal_newlines s) d.
Proof. exact Proofs.RealPlugins.bibtex_utf8_entry_points_agree. Qed.
Print Assumptions bibtex_utf8_entry_points_agree.

(* YAML reader (bytes plug-in): the same bytes reach yaml.load through every entry point *)
Theorem yaml_reader_entry_points_agree : forall db body cd s b d,
  enc cd s = Some b ->
  yaml_parse_bytes db body cd b d = yaml_parse_string db body cd s d /\
  yaml_parse_file db body cd (FStream (SBytes b)) d = yaml_parse_string db body cd s d /\
  yaml_parse_file db body cd (FOpened b) d = yaml_parse_string db body cd s d.
Proof. exact Proofs.RealPlugins.yaml_reader_entry_points_agree. Qed.
Print Assumptions yaml_reader_entry_points_agree.

(* BibTeXML reader (parse_bytes / parse_string / parse_stream overridden), given that
   ElementTree parses a binary stream as it parses its content *)
Theorem bibtexml_entry_points_agree : forall db tree et_fromstring et_parse parse_tree cd s b d,
  (forall x, et_parse (SBytes x) = et_fromstring x) ->
  enc cd s = Some b ->
  xml_parse_string db tree et_fromstring parse_tree cd s d = xml_parse_bytes db tree et_fromstring parse_tree b d /\
  xml_parse_file db tree et_parse parse_tree cd (FStream (SBytes b)) d = xml_parse_bytes db tree et_fromstring parse_tree b d /\
  xml_parse_file db tree et_parse parse_tree cd (FOpened b) d = xml_parse_bytes db tree et_fromstring parse_tree b d.
Proof. exact Proofs.RealPlugins.bibtexml_entry_points_agree. Qed.
Print Assumptions bibtexml_entry_points_agree.

(* BibTeX writer (text plug-in) *)
Theorem bibtex_to_bytes_is_encoded_to_string : forall wd chunks cd d t,
  bibtex_to_string wd chunks cd d = Ok t ->
  bibtex_to_bytes wd chunks cd d = match enc cd t with Some b => Ok b | None => Crash end.
Proof. exact Proofs.RealPlugins.bibtex_to_bytes_is_encoded_to_string. Qed.
Print Assumptions bibtex_to_bytes_is_encoded_to_string.

(* BibTeXML writer: for a document every character of which the encoding can represent,
   to_string is the document (stripped), to_bytes is the XML declaration (naming self.encoding)
   followed by the document, encoded, and a named file receives exactly those bytes *)
Theorem bibtexml_to_bytes : forall wd body cd encname d t b x,
  body d = Ok t ->
  charref_replace cd (xml_decl encname ++ t) = xml_decl encname ++ t ->
  enc cd (xml_decl encname ++ t) = Some b ->
  enc codec_utf8 t = Some x ->
  xml_to_string wd body d = Ok (strip t) /\
  xml_to_bytes wd body cd encname d = Ok b /\
  xml_write_file wd body cd encname d WOpened = Ok (None, Some (SBytes b)).
Proof. exact Proofs.RealPlugins.bibtexml_to_bytes. Qed.
Print Assumptions bibtexml_to_bytes.

(* ===== non-vacuity ===== *)
Definition ex_g : str := g_input.
Definition ex_df : dflts := [(g_input, s2l "bibtex")].
Definition ex_inst : eps := [((g_input, s2l "bibtex"), 100%N); ((g_input ++ s_suffixes, s2l ".bib"), 100%N)].

(* an alias registered at run time is found (the F11 scenario), a second un-forced
   registration is refused, a forced one replaces *)
Example registry_example :
  let '(outs, r) := run ex_inst ex_df []
    [CReg (ex_g ++ s_aliases) (s2l "al") 1%N false; CFind ex_g (NStr (s2l "al")) None;
     CReg (ex_g ++ s_aliases) (s2l "al") 2%N false; CFind ex_g (NStr (s2l "al")) None;
     CReg (ex_g ++ s_aliases) (s2l "al") 3%N true; CFind ex_g (NStr (s2l "al")) None;
     CReg (ex_g ++ s_suffixes) (s2l ".x") 4%N false; CFind ex_g NNone (Some (s2l "dir.y/file.x"));
     CReg ex_g (s2l "bibtex") 5%N false; CFind ex_g NNone (Some (s2l "a.bib"))] in
  outs = [Ok (VBool true); Ok (VClass 1%N); Ok (VBool false); Ok (VClass 1%N); Ok (VBool true); Ok (VClass 3%N);
          Ok (VBool true); Ok (VClass 4%N); Ok (VBool false); Ok (VClass 100%N)]
  /\ wf r /\ lookup1 r ex_inst (ex_g ++ s_aliases) (s2l "al") = Some 3%N.
Proof. vm_compute. repeat split; repeat constructor. Qed.

(* the hypotheses of register_then_find_alias / replaced_only_when_forced are satisfiable *)
(* the C17i scenario: an un-forced run-time alias "bibtex" is accepted (True) but the installed
   name "bibtex" (class 100) is still what find_plugin answers, also after forcing the alias *)
Example name_shadows_alias_example :
  fst (run ex_inst ex_df []
    [CReg (ex_g ++ s_aliases) (s2l "bibtex") 7%N false; CFind ex_g (NStr (s2l "bibtex")) None;
     CReg (ex_g ++ s_aliases) (s2l "bibtex") 8%N true; CFind ex_g (NStr (s2l "bibtex")) None; CFind ex_g NNone None])
  = [Ok (VBool true); Ok (VClass 100%N); Ok (VBool true); Ok (VClass 100%N); Ok (VClass 100%N)]
  /\ lookup1 [] ex_inst ex_g (s2l "bibtex") = Some 100%N.
Proof. vm_compute. split; reflexivity. Qed.

Example alias_hypotheses :
  register_plugin [] ex_inst ex_df (ex_g ++ s_aliases) (s2l "al") 1%N false
    = (Ok true, [(ex_g ++ s_aliases, [(s2l "al", 1%N)])])
  /\ lookup1 [] ex_inst ex_g (s2l "al") = None /\ dget ex_df ex_g = Some (s2l "bibtex")
  /\ already_registered [] ex_inst ex_g (s2l "bibtex") = true
  /\ ~ forces ex_g (s2l "bibtex") (CReg ex_g (s2l "bibtex") 7%N false).
Proof. vm_compute. repeat split; auto. Qed.

(* the fallback really happens, and the error of a double failure names the original file *)
Example open_example :
  open_ (opener_st [OEnvErr (Some (s2l "Permission denied")); OHandle 2%N]) (TName (s2l "out/x.bbl")) (s2l "w") None
        (Some (s2l "texmf")) false (PExecFail None)
  = (OpenOk 2%N, {| script := []; log := [((s2l "out/x.bbl", s2l "w"), None); ((s2l "texmf/out/x.bbl", s2l "w"), None)] |})
  /\ fst (open_ (opener_st [OEnvErr (Some (s2l "Permission denied")); OEnvErr None]) (TName (s2l "x.bbl")) (s2l "w") None
        (Some (s2l "texmf")) false (PExecFail None))
     = OpenErr (s2l "unable to open x.bbl. Permission denied")
  /\ is_write (s2l "wb") = true /\ is_write (s2l "rb") = false
  /\ read_path (s2l "x.bib") false (PExit 0 (s2l "/texmf/x.bib
")) = Some (s2l "/texmf/x.bib").
Proof. vm_compute. repeat split. Qed.

(* the codec hypotheses hold of real codecs on non-ASCII text; a recording plug-in sees the
   same text through all entry points *)
Example write_partial_hypothesis :
  enc codec_utf8 [] = Some [] /\ enc codec_latin1 [] = Some [] /\ enc codec_utf16 [] = Some [255; 254]%N
  /\ installed_table_ok ex_inst ex_df = true.
Proof. vm_compute. repeat split. Qed.

Example codec_example :
  enc codec_utf8 [233; 8364; 128512]%N = Some [195; 169; 226; 130; 172; 240; 159; 152; 128]%N
  /\ dec codec_utf8 [195; 169; 226; 130; 172; 240; 159; 152; 128]%N = Some [233; 8364; 128512]%N
  /\ fdec codec_utf8 [195; 169; 226; 130; 172; 240; 159; 152; 128]%N = FText [233; 8364; 128512]%N
  /\ enc codec_latin1 [233]%N = Some [233]%N /\ dec codec_latin1 [233]%N = Some [233]%N
  /\ enc codec_utf16 [233; 128512]%N = Some [255; 254; 233; 0; 61; 216; 0; 222]%N
  /\ fdec codec_utf16 [255; 254; 233; 0; 61; 216; 0; 222]%N = FText [233; 128512]%N
  /\ fdec codec_utf16 [233; 0]%N = FOtherError /\ dec codec_utf16 [233; 0]%N = Some [233]%N
  /\ parse_bytes (list stream) (fun s d => Ok (d ++ [s])) codec_utf8 true [195; 169]%N [] = Ok [SText [233%N]]
  /\ parse_file (list stream) (fun s d => Ok (d ++ [s])) codec_utf8 true (FOpened [97; 13; 10; 98]%N) []
     = Ok [SText [97; 10; 98]%N].
Proof. vm_compute. repeat split. Qed.

(* the hypotheses of bibtexml_to_bytes hold of a Latin-1 document; an unencodable character is
   replaced by a character reference (so the hypothesis is not vacuous either way) *)
Example bibtexml_example :
  let t := [60; 97; 62; 233; 10]%N in
  charref_replace codec_latin1 (xml_decl (s2l "latin-1") ++ t) = xml_decl (s2l "latin-1") ++ t
  /\ (exists b, enc codec_latin1 (xml_decl (s2l "latin-1") ++ t) = Some b)
  /\ (exists x, enc codec_utf8 t = Some x)
  /\ charref_replace codec_latin1 [8364]%N = s2l "&#8364;"
  /\ xml_to_bytes str (fun d => Ok d) codec_ascii (s2l "ascii") [233]%N
     = Ok (s2l "<?xml version=""1.0"" encoding=""ascii""?>" ++ [10%N] ++ s2l "&#233;").
Proof. vm_compute. repeat split; eexists; reflexivity. Qed.

(* the wave-7 class: an existing file that cannot be opened while kpsewhich would find another --
   a pybtex error naming the file, the other file is not touched *)
Example open_existing_unreadable_example :
  open_ (opener_st [OEnvErr (Some (s2l "Permission denied")); OHandle 2%N]) (TName (s2l "x.bib")) (s2l "r") None None
        true (PExit 0 (s2l "found/located.bib"))
  = (OpenErr (s2l "unable to open x.bib. Permission denied"),
     {| script := [OHandle 2%N]; log := [((s2l "x.bib", s2l "r"), None)] |})
  /\ is_write (s2l "r") = false /\ OEnvErr (Some (s2l "Permission denied")) <> OOther
  /\ enc (codec_of 0) [] = Some [] /\ enc (codec_of 1) [] = Some [] /\ enc (codec_of 2) [] = Some [].
Proof. vm_compute. repeat split; discriminate. Qed.
