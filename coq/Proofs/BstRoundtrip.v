(* Proofs/BstRoundtrip.v -- printing a well-formed program with any whitespace layout and parsing
   the text back (BstParser(text).parse()) gives the program. *)
From Pybtex Require Import Base.Prelude Base.PyChar Base.PyStr Model.BstParser Spec.BstPrint Proofs.BstLex.
Local Open Scope N_scope.

Definition flat_items (l : list tok) : list ltok := flat_map flat_tok l.

Fixpoint tok_size (t : tok) : nat :=
  match t with TFun b => S (list_sum (map tok_size b)) | _ => 1%nat end.
Definition items_size (l : list tok) : nat := list_sum (map tok_size l).

Lemma items_size_cons t l : items_size (t :: l) = (tok_size t + items_size l)%nat.
Proof. reflexivity. Qed.

Lemma wf_nameb_wf s : wf_nameb s = true -> wf_name s.
Proof. destruct s as [|c s]; cbn; [discriminate|]. intros H. split; [discriminate|exact H]. Qed.

(* ---- layout facts *)
Lemma weave_cons gs t ts : weave gs (t :: ts) = gap_hd gs ++ ltok_text t ++ weave (tl gs) ts.
Proof. reflexivity. Qed.

Lemma layout_cons prev gs t ts : layout_okb prev gs (t :: ts) = true ->
  all_space (gap_hd gs) /\ (needs_gap prev t = true -> gap_hd gs <> []) /\ layout_okb (Some t) (tl gs) ts = true.
Proof.
  cbn [layout_okb]. intros H. apply andb_prop in H as [H H3]. apply andb_prop in H as [H1 H2].
  split; [exact H1|]. split; [|exact H3].
  intros Hn Hg. rewrite Hn, Hg in H2. discriminate.
Qed.

Lemma boundary_from_layout t gs ts : layout_okb (Some t) gs ts = true -> boundary_ok t (weave gs ts).
Proof.
  intros H. destruct ts as [|t' ts].
  - cbn in H. cbn [weave]. destruct t; cbn [boundary_ok]; auto.
    + apply stops_space_name. exact H.
    + apply stops_space_digit. exact H.
  - apply layout_cons in H as (Hsp & Hgap & _). rewrite weave_cons.
    destruct (gap_hd gs) as [|c g] eqn:Eg.
    + cbn [app]. destruct t as [s|s|z| |]; cbn [boundary_ok]; auto.
      * destruct t' as [s'|s'|z'| |]; try reflexivity. exfalso. apply Hgap; reflexivity.
      * destruct t' as [s'|s'|z'| |]; try reflexivity. exfalso. apply Hgap; reflexivity.
    + assert (Hc : is_space c = true).
      { unfold all_space in Hsp. cbn in Hsp. apply andb_prop in Hsp as [Hc _]. exact Hc. }
      destruct t; cbn [boundary_ok app stops]; auto.
      * now apply space_not_name_char.
      * now apply space_not_digit.
Qed.

Lemma weave_length gs t ts :
  length (weave gs (t :: ts)) = (length (gap_hd gs) + length (ltok_text t) + length (weave (tl gs) ts))%nat.
Proof. rewrite weave_cons, !app_length. lia. Qed.

(* ---- atoms *)
Lemma atom_cases t : wf_tokb t = true -> (forall b, t <> TFun b) ->
  exists lt, flat_tok t = [lt] /\ wf_ltok lt /\ literal (pat_of lt) (ltok_text lt) = Ok t /\
             (pat_of lt = P_NAME \/ pat_of lt = P_STRING \/ pat_of lt = P_INTEGER).
Proof.
  destruct t as [z|s|s|s|b]; cbn [wf_tokb flat_tok]; intros Hwf Hnf.
  - exists (LInt z). split; [reflexivity|]. assert (digits_ok z) by (apply Z.leb_le; exact Hwf).
    split; [assumption|]. split; [now apply literal_int|auto].
  - exists (LStr s). split; [reflexivity|]. split; [exact Hwf|]. split; [apply literal_string|auto].
  - exists (LName (39 :: s)). split; [reflexivity|]. split; [|split; [apply literal_quote|auto]].
    split; [discriminate|]. cbn [forallb]. now rewrite Hwf.
  - apply andb_prop in Hwf as [H1 H2]. apply negb_true_iff in H2.
    exists (LName s). split; [reflexivity|]. split; [now apply wf_nameb_wf|].
    split; [apply literal_id; [now apply wf_nameb_wf|exact H2]|auto].
  - exfalso. now apply (Hnf b).
Qed.

Lemma ltok_text_nonempty lt : wf_ltok lt -> (0 < length (ltok_text lt))%nat.
Proof. intros H. destruct (ltok_text_head lt H) as (c & r & -> & _). cbn. lia. Qed.

Lemma flat_items_fun b more X :
  flat_items (TFun b :: more) ++ X = LL :: flat_items b ++ LR :: (flat_items more ++ X).
Proof. unfold flat_items. cbn [flat_map flat_tok app]. rewrite <- !app_assoc. reflexivity. Qed.
Lemma flat_items_atom t lt more X : flat_tok t = [lt] ->
  flat_items (t :: more) ++ X = lt :: (flat_items more ++ X).
Proof. intros H. unfold flat_items. cbn [flat_map]. rewrite H. reflexivity. Qed.

(* ---- a group: the tokens of the items, the closing brace, anything *)
Lemma parse_group_items : forall n items, (items_size items <= n)%nat -> forallb wf_tokb items = true ->
  forall gs rest prev fuel ln,
    layout_okb prev gs (flat_items items ++ LR :: rest) = true ->
    (length (weave gs (flat_items items ++ LR :: rest)) < fuel)%nat ->
    exists gs' ln',
      parse_group fuel (weave gs (flat_items items ++ LR :: rest)) ln = Ok (items, (weave gs' rest, ln')) /\
      layout_okb (Some LR) gs' rest = true /\
      (length (weave gs' rest) < length (weave gs (flat_items items ++ LR :: rest)))%nat.
Proof.
  induction n as [|n IH]; intros items Hsize Hwf gs rest prev fuel ln Hlay Hfuel.
  - (* size 0: no items (every token has size >= 1) *)
    destruct items as [|t more].
    2:{ exfalso. rewrite items_size_cons in Hsize. destruct t; cbn [tok_size] in Hsize; lia. }
    cbn [flat_items flat_map app] in *.
    destruct fuel as [|f]; [lia|].
    apply layout_cons in Hlay as (Hsp & _ & Hrest).
    exists (tl gs), (tline ln (gap_hd gs) LR).
    split; [|split; [exact Hrest|rewrite weave_length; cbn; lia]].
    rewrite weave_cons. cbn [parse_group].
    rewrite (required_tok (gap_hd gs) LR _ false ln Hsp I I). reflexivity.
  - destruct items as [|t more].
    { apply (IH [] ltac:(cbn; lia) Hwf gs rest prev fuel ln Hlay Hfuel). }
    cbn [forallb] in Hwf. apply andb_prop in Hwf as [Hwt Hwmore].
    assert (Hszt : (1 <= tok_size t)%nat) by (destruct t; cbn; lia).
    rewrite items_size_cons in Hsize.
    destruct fuel as [|f]; [lia|].
    destruct t as [z|s|s|s|b].
    5:{ (* a nested function literal *)
      rewrite flat_items_fun in *.
      cbn [tok_size] in Hsize. fold (items_size b) in Hsize.
      rewrite weave_length in Hfuel. cbn [ltok_text length] in Hfuel.
      apply layout_cons in Hlay as (Hsp & _ & Hlay1).
      cbn [wf_tokb] in Hwt.
      destruct (IH b ltac:(lia) Hwt (tl gs) (flat_items more ++ LR :: rest) (Some LL) f (tline ln (gap_hd gs) LL) Hlay1 ltac:(lia))
        as (gs1 & ln1 & Hpg1 & Hlay2 & Hlen1).
      destruct (IH more ltac:(lia) Hwmore gs1 rest (Some LR) f ln1 Hlay2 ltac:(lia))
        as (gs2 & ln2 & Hpg2 & Hlay3 & Hlen2).
      exists gs2, ln2. split; [|split; [exact Hlay3|rewrite weave_length; lia]].
      rewrite weave_cons. cbn [parse_group].
      rewrite (required_tok (gap_hd gs) LL _ false ln Hsp I I). cbn [bind pat_of].
      rewrite Hpg1. cbn [bind]. rewrite Hpg2. reflexivity. }
    all: match goal with |- context [flat_items (?t :: _)] =>
      destruct (atom_cases t Hwt ltac:(intros; discriminate)) as (lt & Hflat & Hwlt & Hlit & Hpat) end.
    all: rewrite (flat_items_atom _ lt more _ Hflat) in *;
      pose proof (ltok_text_nonempty lt Hwlt) as Hne;
      rewrite weave_length in Hfuel;
      pose proof Hlay as Hlay0;
      apply layout_cons in Hlay as (Hsp & _ & Hlay1);
      pose proof (boundary_from_layout lt _ _ Hlay1) as Hb;
      destruct (IH more ltac:(cbn [tok_size] in Hsize; lia) Hwmore (tl gs) rest (Some lt) f
                   (tline ln (gap_hd gs) lt) Hlay1 ltac:(lia)) as (gs2 & ln2 & Hpg2 & Hlay3 & Hlen2);
      exists gs2, ln2; (split; [|split; [exact Hlay3|rewrite weave_length; lia]]);
      rewrite weave_cons; cbn [parse_group];
      rewrite (required_tok (gap_hd gs) lt _ false ln Hsp Hwlt Hb); cbn [bind];
      destruct Hpat as [Hp|[Hp|Hp]]; rewrite Hp in *; rewrite Hlit; cbn [bind]; rewrite Hpg2; reflexivity.
Qed.

(* ---- the groups of a command *)
Lemma flat_groups_cons g more X :
  flat_map flat_group (g :: more) ++ X = LL :: flat_items g ++ LR :: (flat_map flat_group more ++ X).
Proof. cbn [flat_map]. unfold flat_group. cbn [app]. rewrite <- !app_assoc. reflexivity. Qed.

Lemma parse_args_groups : forall groups, forallb (forallb wf_tokb) groups = true ->
  forall gs rest prev fuel ln,
    layout_okb prev gs (flat_map flat_group groups ++ rest) = true ->
    (length (weave gs (flat_map flat_group groups ++ rest)) < fuel)%nat ->
    exists gs' prev' ln',
      parse_args fuel (length groups) (weave gs (flat_map flat_group groups ++ rest)) ln
        = Ok (groups, (weave gs' rest, ln')) /\
      layout_okb prev' gs' rest = true /\
      (length (weave gs' rest) <= length (weave gs (flat_map flat_group groups ++ rest)))%nat.
Proof.
  induction groups as [|g more IH]; intros Hwf gs rest prev fuel ln Hlay Hfuel.
  - exists gs, prev, ln. cbn [flat_map app length parse_args] in *. auto.
  - cbn [forallb] in Hwf. apply andb_prop in Hwf as [Hwg Hwmore].
    rewrite flat_groups_cons in *.
    rewrite weave_length in Hfuel. cbn [ltok_text length] in Hfuel.
    apply layout_cons in Hlay as (Hsp & _ & Hlay1).
    destruct (parse_group_items (items_size g) g (le_n _) Hwg (tl gs) (flat_map flat_group more ++ rest)
                (Some LL) fuel (tline ln (gap_hd gs) LL) Hlay1 ltac:(lia))
      as (gs1 & ln1 & Hpg & Hlay2 & Hlen1).
    destruct (IH Hwmore gs1 rest (Some LR) fuel ln1 Hlay2 ltac:(lia)) as (gs2 & prev2 & ln2 & Hpa & Hlay3 & Hlen2).
    exists gs2, prev2, ln2. split; [|split; [exact Hlay3|rewrite weave_length; lia]].
    cbn [length parse_args]. rewrite weave_cons.
    rewrite (required_lbrace (gap_hd gs) _ ln Hsp). cbn [bind].
    rewrite Hpg. cbn [bind]. rewrite Hpa. reflexivity.
Qed.

Lemma wf_command_parts c : wf_commandb c = true ->
  wf_name (fst c) /\ arity (fst c) = Some (length (snd c)) /\ forallb (forallb wf_tokb) (snd c) = true.
Proof.
  unfold wf_commandb. intros H. apply andb_prop in H as [H H3]. apply andb_prop in H as [H1 H2].
  split; [now apply wf_nameb_wf|]. split; [|exact H3].
  destruct (arity (fst c)) as [n|]; [|discriminate]. apply Nat.eqb_eq in H2. now subst.
Qed.

Lemma parse_command_ok c : wf_commandb c = true ->
  forall gs rest prev fuel ln,
    layout_okb prev gs (flat_command c ++ rest) = true ->
    (length (weave gs (flat_command c ++ rest)) < fuel)%nat ->
    exists gs' prev' ln',
      parse_command fuel (weave gs (flat_command c ++ rest)) ln = Ok (c, (weave gs' rest, ln')) /\
      layout_okb prev' gs' rest = true /\
      (length (weave gs' rest) < length (weave gs (flat_command c ++ rest)))%nat.
Proof.
  intros Hwf gs rest prev fuel ln Hlay Hfuel.
  destruct (wf_command_parts c Hwf) as (Hname & Har & Hgroups).
  destruct c as [name groups]. cbn [fst snd] in *.
  unfold flat_command in *. cbn [fst snd app] in *.
  pose proof (ltok_text_nonempty (LName name) Hname) as Hne.
  rewrite weave_length in Hfuel.
  apply layout_cons in Hlay as (Hsp & _ & Hlay1).
  pose proof (boundary_from_layout (LName name) _ _ Hlay1) as Hb. cbn [boundary_ok] in Hb.
  destruct (parse_args_groups groups Hgroups (tl gs) rest (Some (LName name)) fuel
              (tline ln (gap_hd gs) (LName name)) Hlay1 ltac:(lia)) as (gs2 & prev2 & ln2 & Hpa & Hlay3 & Hlen2).
  exists gs2, prev2, ln2. split; [|split; [exact Hlay3|rewrite weave_length; lia]].
  rewrite weave_cons. unfold parse_command. cbn [ltok_text].
  rewrite (required_name (gap_hd gs) name _ ln Hsp Hname Hb). cbn [bind].
  rewrite Har, Hpa. reflexivity.
Qed.

Lemma parse_loop_program : forall p, wf_programb p = true ->
  forall gs prev fuel ln,
    layout_okb prev gs (flat_program p) = true ->
    (length (weave gs (flat_program p)) < fuel)%nat ->
    parse_loop fuel (weave gs (flat_program p)) ln = Ok p.
Proof.
  induction p as [|c more IH]; intros Hwf gs prev fuel ln Hlay Hfuel.
  - cbn [flat_program flat_map weave] in *. destruct fuel as [|f]; [lia|].
    cbn [layout_okb] in Hlay.
    destruct gs as [|g0 gs0]; cbn [parse_loop]; unfold parse_command;
      rewrite (required_eof _ [P_NAME] ln Hlay); reflexivity.
  - cbn [wf_programb forallb] in Hwf. apply andb_prop in Hwf as [Hwc Hwmore].
    unfold flat_program in *. cbn [flat_map] in *.
    destruct fuel as [|f]; [lia|].
    destruct (parse_command_ok c Hwc gs (flat_map flat_command more) prev
                (S (length (weave gs (flat_command c ++ flat_map flat_command more)))) ln Hlay ltac:(lia))
      as (gs2 & prev2 & ln2 & Hpc & Hlay2 & Hlen).
    cbn [parse_loop]. rewrite Hpc.
    rewrite (IH Hwmore gs2 prev2 f ln2 Hlay2 ltac:(lia)). reflexivity.
Qed.

(* BstParser(text).parse() on the printed text *)
Theorem text_roundtrip : forall p gs,
  wf_programb p = true -> layout_okb None gs (flat_program p) = true ->
  parse_text (print_bst gs p) = Ok p.
Proof.
  intros p gs Hwf Hlay. unfold parse_text, print_bst.
  apply (parse_loop_program p Hwf gs None _ 1%Z Hlay). lia.
Qed.

(* ---- single tokens: each literal kind is read back from its printed form, whatever whitespace
        precedes it and whatever follows that does not extend it *)
Definition is_atom (t : tok) : bool := match t with TFun _ => false | _ => true end.
Theorem token_roundtrip : forall t, is_atom t = true -> wf_tokb t = true ->
  exists lt, flat_tok t = [lt] /\
    forall g r ln, forallb is_space g = true -> boundary_ok lt r ->
      required group_pats false (g ++ ltok_text lt ++ r) ln
        = Ok ((pat_of lt, ltok_text lt), (r, (ln + nl_count g + nl_count (ltok_text lt))%Z)) /\
      literal (pat_of lt) (ltok_text lt) = Ok t.
Proof.
  intros t Ha Hwf.
  destruct (atom_cases t Hwf) as (lt & Hflat & Hwlt & Hlit & _).
  { intros b ->. discriminate. }
  exists lt. split; [exact Hflat|]. intros g r ln Hg Hb. split; [|exact Hlit].
  now apply required_tok.
Qed.

(* ---- a name that is not one of the ten commands is rejected on its own line *)
Theorem unknown_command_rejected : forall g name r,
  forallb is_space g = true -> wf_nameb name = true -> stops is_name_char r -> arity name = None ->
  parse_text (g ++ name ++ r) = PyErr cls_token_required (1 + nl_count g)%Z.
Proof.
  intros g name r Hg Hn Hr Har. unfold parse_text. cbn [parse_loop]. unfold parse_command.
  rewrite (required_name g name r 1%Z Hg (wf_nameb_wf _ Hn) Hr). cbn [bind]. rewrite Har.
  unfold tline. cbn [ltok_text]. rewrite (nl_count_name name (proj2 (wf_nameb_wf _ Hn))), Z.add_0_r. reflexivity.
Qed.

Corollary layout_independent : forall p gs1 gs2, wf_programb p = true ->
  layout_okb None gs1 (flat_program p) = true -> layout_okb None gs2 (flat_program p) = true ->
  parse_text (print_bst gs1 p) = parse_text (print_bst gs2 p).
Proof. intros. rewrite !text_roundtrip by assumption. reflexivity. Qed.
