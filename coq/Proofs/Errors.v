(* Proofs/Errors.v -- lemmas about Model/Errors.v (property C16) *)
From Pybtex Require Import Base.Prelude Base.PyChar Base.PyStr Model.Errors.

(* leaving a capture() block -- normally or by an exception -- resets captured_errors and
   touches nothing else *)
Lemma cap_exit_restores g :
  g_cap (cap_exit g) = None /\ g_strict (cap_exit g) = g_strict g /\ g_code (cap_exit g) = g_code g
  /\ g_out (cap_exit g) = g_out g /\ g_heap (cap_exit g) = g_heap g.
Proof. cbn. auto. Qed.
