(* Proofs/Errors.v -- lemmas about Model/Errors.v (property C16) *)
From Pybtex Require Import Base.Prelude Base.PyChar Base.PyStr Model.Errors.

(* ---------------------------------------------------------------------------------- *)
(* capture() *)

(* leaving a capture() block -- normally or by an exception -- resets captured_errors and
   touches nothing else *)
Lemma cap_exit_restores g :
  g_cap (cap_exit g) = None /\ g_strict (cap_exit g) = g_strict g /\ g_code (cap_exit g) = g_code g
  /\ g_out (cap_exit g) = g_out g /\ g_heap (cap_exit g) = g_heap g.
Proof. cbn. auto. Qed.

Lemma append_at_last {X} (h : list (list X)) l e :
  append_at (h ++ [l]) (length h) e = h ++ [l ++ [e]].
Proof. induction h as [|a h IH]; cbn; [reflexivity|]. now rewrite IH. Qed.

Lemma nth_last {X} (h : list (list X)) l : nth (length h) (h ++ [l]) [] = l.
Proof. induction h as [|a h IH]; cbn; auto. Qed.

(* inside a capture block every report is appended to the block's list and nothing else happens *)
Lemma run_comp_captured c : forall s code h l out,
  run_comp (mkG s code (Some (length h)) (h ++ [l]) out) c
  = (mkG s code (Some (length h)) (h ++ [l ++ reports c]) out, ending c).
Proof.
  induction c as [|e k IH|e|]; intros s code h l out; cbn [run_comp reports ending].
  - now rewrite app_nil_r.
  - unfold report_error. cbn [g_cap g_strict g_code g_heap g_out].
    rewrite append_at_last, IH, <- app_assoc. reflexivity.
  - now rewrite app_nil_r.
  - now rewrite app_nil_r.
Qed.

Lemma capture_collects g c :
  with_capture g c
  = (mkG (g_strict g) (g_code g) None (g_heap g ++ [reports c]) (g_out g), ending c, reports c).
Proof.
  unfold with_capture, cap_enter. rewrite run_comp_captured. cbn.
  now rewrite nth_last.
Qed.

(* ---------------------------------------------------------------------------------- *)
(* non-strict and strict runs *)


Lemma run_comp_nonstrict c : forall g ss,
  g_cap g = None -> g_strict g = false ->
  Forall2 (fun e s => format_error e k_warning = Ok s) (reports c) ss ->
  run_comp g c
  = (mkG false (match reports c with [] => g_code g | _ => 2%Z end) None (g_heap g) (g_out g ++ warn_text ss),
     ending c).
Proof.
  induction c as [|e k IH|e|]; intros g ss Hc Hs HF; cbn [run_comp reports ending] in *.
  - inversion HF; subst. unfold warn_text; cbn. rewrite app_nil_r. destruct g; cbn in *; subst; reflexivity.
  - inversion HF as [|e' s' l1 ss' Hfe HF']; subst.
    unfold report_error, print_error. rewrite Hc, Hs, Hfe. cbn [bind].
    cbn [g_strict g_code g_cap g_heap g_out].
    erewrite IH; [| reflexivity | reflexivity | exact HF'].
    cbn [g_strict g_code g_cap g_heap g_out].
    f_equal. f_equal.
    + destruct (reports k); reflexivity.
    + unfold warn_text. cbn [map concat]. now rewrite <- !app_assoc.
  - inversion HF; subst. unfold warn_text; cbn. rewrite app_nil_r. destruct g; cbn in *; subst; reflexivity.
  - inversion HF; subst. unfold warn_text; cbn. rewrite app_nil_r. destruct g; cbn in *; subst; reflexivity.
Qed.

Lemma run_comp_strict c g :
  g_cap g = None -> g_strict g = true ->
  run_comp g c = (g, match reports c with e :: _ => Raised e | [] => ending c end).
Proof.
  intros Hc Hs. destruct c as [|e k|e|]; cbn [run_comp reports ending]; try reflexivity.
  unfold report_error. now rewrite Hc, Hs.
Qed.

(* the three modes see the same problems in the same order *)
Lemma mode_independence c g ss :
  g_cap g = None ->
  Forall2 (fun e s => format_error e k_warning = Ok s) (reports c) ss ->
  let ps := reports c in
  (* capture: collected; the block ends as the body does; normal reporting restored *)
  (let '(g1, o1, l1) := with_capture g c in
   l1 = ps /\ o1 = ending c /\ g_cap g1 = None /\ g_strict g1 = g_strict g /\ g_code g1 = g_code g /\ g_out g1 = g_out g) /\
  (* non-strict: one warning per problem, in order; error_code 2 as soon as there is one *)
  (let '(g2, o2) := run_comp (set_strict g false) c in
   g_out g2 = g_out g ++ warn_text ss /\ o2 = ending c /\ (ps <> [] -> g_code g2 = 2%Z) /\ (ps = [] -> g_code g2 = g_code g)) /\
  (* strict: the first problem is raised, nothing else happens *)
  (let '(g3, o3) := run_comp (set_strict g true) c in
   g3 = set_strict g true /\ o3 = match ps with e :: _ => Raised e | [] => ending c end).
Proof.
  intros Hc HF ps. split; [|split].
  - rewrite capture_collects. cbn. subst ps. repeat split; reflexivity.
  - rewrite (run_comp_nonstrict c (set_strict g false) ss); auto.
    cbn. split; [reflexivity|]. split; [reflexivity|]. split.
    + intros Hne. subst ps. destruct (reports c); congruence.
    + intros He. subst ps. now rewrite He.
  - rewrite run_comp_strict; auto.
Qed.

(* ---------------------------------------------------------------------------------- *)
(* histories *)

Lemma report_error_cap g e : g_cap (fst (report_error g e)) = g_cap g.
Proof.
  unfold report_error. destruct (g_cap g) eqn:Hc; cbn; [reflexivity|].
  destruct (g_strict g); cbn; [exact Hc|].
  unfold print_error. destruct (format_error e k_warning); cbn; exact Hc.
Qed.

Lemma report_error_strict g e : g_strict (fst (report_error g e)) = g_strict g.
Proof.
  unfold report_error. destruct (g_cap g) eqn:Hc; cbn; [reflexivity|].
  destruct (g_strict g) eqn:Hs; cbn; [exact Hs|].
  unfold print_error. destruct (format_error e k_warning); cbn; exact Hs.
Qed.

Lemma report_error_code g e :
  g_code (fst (report_error g e)) = g_code g \/ g_code (fst (report_error g e)) = 2%Z.
Proof.
  unfold report_error. destruct (g_cap g); cbn; [auto|].
  destruct (g_strict g); cbn; [auto|].
  unfold print_error. destruct (format_error e k_warning); cbn; auto.
Qed.


Lemma unwind_all_cap g d : inv g d -> g_cap (unwind_all g d) = None.
Proof. unfold inv. destruct d; cbn; auto. Qed.

Lemma unwind_all_strict g d : g_strict (unwind_all g d) = g_strict g.
Proof. destruct d; reflexivity. Qed.

Lemma unwind_all_code g d : g_code (unwind_all g d) = g_code g.
Proof. destruct d; reflexivity. Qed.

Lemma step_inv g d o :
  inv g d ->
  let '(g', d', _) := step g d o in
  inv g' d' /\ g_strict g' = (match o with OStrict b => b | _ => g_strict g end)
  /\ (g_code g' = g_code g \/ g_code g' = 2%Z)
  /\ (match o with OExit | OAbort1 | OAbortAll => g_cap g' = None | _ => True end).
Proof.
  intros Hi. destruct o as [b| | | | |e]; cbn [step].
  - cbn. repeat split; auto.
  - cbn. repeat split; auto. unfold inv. discriminate.
  - destruct d; cbn; repeat split; auto; try (apply Hi; reflexivity); unfold inv; cbn; auto.
  - destruct d; cbn; repeat split; auto; try (apply Hi; reflexivity); unfold inv; cbn; auto.
  - repeat split; auto using unwind_all_strict.
    + unfold inv. intros _. now apply unwind_all_cap.
    + rewrite unwind_all_code. auto.
    + now apply unwind_all_cap.
  - pose proof (report_error_cap g e) as Hc. pose proof (report_error_strict g e) as Hs.
    pose proof (report_error_code g e) as Hk.
    destruct (report_error g e) as [g' r]. cbn [fst] in *.
    assert (Hi' : inv g' d) by (unfold inv in *; intros Hd; rewrite Hc; auto).
    destruct r; repeat split; auto; try (rewrite unwind_all_strict; auto); try (rewrite unwind_all_code; auto);
      unfold inv; intros _; now apply unwind_all_cap.
Qed.

Lemma run_hist_inv ops : forall g d,
  inv g d ->
  let '(g', d', _) := run_hist g d ops in
  inv g' d' /\ g_strict g' = last_strict (g_strict g) ops /\ (g_code g' = g_code g \/ g_code g' = 2%Z).
Proof.
  induction ops as [|o ops IH]; intros g d Hi; cbn [run_hist last_strict].
  - auto.
  - pose proof (step_inv g d o Hi) as Hs. destruct (step g d o) as [[g1 d1] ev1].
    destruct Hs as (Hi1 & Hs1 & Hc1 & _).
    specialize (IH g1 d1 Hi1). destruct (run_hist g1 d1 ops) as [[g2 d2] ev2].
    destruct IH as (Hi2 & Hs2 & Hc2). split; [exact Hi2|]. split.
    + rewrite Hs2, Hs1. destruct o; reflexivity.
    + destruct Hc2 as [Hc2|Hc2]; [rewrite Hc2; exact Hc1 | auto].
Qed.

Lemma run_hist_app a : forall b g d,
  run_hist g d (a ++ b) =
  let '(g1, d1, e1) := run_hist g d a in
  let '(g2, d2, e2) := run_hist g1 d1 b in (g2, d2, e1 ++ e2).
Proof.
  induction a as [|o a IH]; intros b g d; cbn [run_hist app].
  - destruct (run_hist g d b) as [[g2 d2] e2]. reflexivity.
  - destruct (step g d o) as [[g1 d1] ev1]. rewrite IH.
    destruct (run_hist g1 d1 a) as [[g2 d2] e2].
    destruct (run_hist g2 d2 b) as [[g3 d3] e3]. now rewrite app_assoc.
Qed.

(* whatever happened in the body -- reports, nested blocks, exceptions --, leaving a block
   (normally or by an exception) switches capturing off *)
Lemma capture_restores g d body closing :
  inv g d -> In closing [OExit; OAbort1; OAbortAll] ->
  let '(g', _, _) := run_hist g d (body ++ [closing]) in
  g_cap g' = None /\ g_strict g' = last_strict (g_strict g) body.
Proof.
  intros Hi Hin. rewrite run_hist_app.
  pose proof (run_hist_inv body g d Hi) as Hb. destruct (run_hist g d body) as [[g1 d1] e1].
  destruct Hb as (Hi1 & Hs1 & _).
  cbn [run_hist]. pose proof (step_inv g1 d1 closing Hi1) as Hs.
  destruct (step g1 d1 closing) as [[g2 d2] e2]. destruct Hs as (_ & Hs2 & _ & Hcap).
  cbn in Hin. destruct Hin as [<-|[<-|[<-|[]]]]; (split; [exact Hcap | now rewrite Hs2]).
Qed.

(* after any history that has left all its blocks, reporting is the normal one, with the
   strict flag last set *)
Lemma capture_sequence ops g e :
  g_cap g = None ->
  let '(g', d', _) := run_hist g O ops in
  d' = O ->
  g_cap g' = None /\ g_strict g' = last_strict (g_strict g) ops /\
  (g_code g' = g_code g \/ g_code g' = 2%Z) /\
  snd (report_error g' e) =
    (if g_strict g' then RRaised
     else match format_error e k_warning with Ok _ => RPrinted | _ => RCrash end).
Proof.
  intros Hc. assert (Hi : inv g O) by (intros _; exact Hc).
  pose proof (run_hist_inv ops g O Hi) as H. destruct (run_hist g O ops) as [[g' d'] ev].
  destruct H as (Hi' & Hs & Hk). intros Hd. specialize (Hi' Hd).
  repeat split; auto.
  unfold report_error. rewrite Hi'. destruct (g_strict g'); [reflexivity|].
  unfold print_error. destruct (format_error e k_warning); reflexivity.
Qed.

(* ---------------------------------------------------------------------------------- *)
(* rendering *)

Lemma infix_refl a : infix a a.
Proof. exists [], []. now rewrite app_nil_r. Qed.

Lemma infix_trans a b c : infix a b -> infix b c -> infix a c.
Proof.
  intros (u & v & ->) (u' & v' & ->). exists (u' ++ u), (v ++ v'). now rewrite <- !app_assoc.
Qed.

Lemma infix_app_l a u s : infix a s -> infix a (u ++ s).
Proof. intros (x & y & ->). exists (u ++ x), y. now rewrite <- app_assoc. Qed.

Lemma infix_app_r a s v : infix a s -> infix a (s ++ v).
Proof. intros (x & y & ->). exists x, (y ++ v). now rewrite <- !app_assoc. Qed.

Lemma join_snoc_infix sep l x : infix x (join sep (l ++ [x])).
Proof.
  induction l as [|a l IH]; cbn [app join].
  - apply infix_refl.
  - destruct (l ++ [x]) as [|b r] eqn:E.
    + destruct l; discriminate.
    + apply infix_app_l, infix_app_l. exact IH.
Qed.

Lemma msg_in_str e : infix (e_msg e) (err_str e).
Proof.
  unfold err_str. destruct (e_kind e) as [|etype lineno|lineno].
  - apply infix_refl.
  - rewrite !app_assoc. apply infix_app_l, infix_refl.
  - apply infix_app_l, infix_refl.
Qed.

Lemma splitlines_aux_nonempty keep s : forall acc, acc <> [] -> splitlines_aux keep s acc <> [].
Proof.
  induction s as [|c t IH]; intros acc Ha; cbn [splitlines_aux].
  - destruct acc; [congruence|discriminate].
  - destruct (is_lb c).
    + destruct t as [|d t']; [discriminate|]. destruct ((c =? 13)%N && (d =? 10)%N); discriminate.
    + apply IH. discriminate.
Qed.

Lemma splitlines_nonempty keep s : s <> [] -> splitlines keep s <> [].
Proof.
  unfold splitlines. destruct s as [|c t]; [congruence|]. intros _. cbn [splitlines_aux].
  destruct (is_lb c).
  - destruct t as [|d t']; [discriminate|]. destruct ((c =? 13)%N && (d =? 10)%N); discriminate.
  - apply splitlines_aux_nonempty. discriminate.
Qed.

Lemma py_index_in_range {X} (l : list X) (i : Z) :
  (0 <= i < Z.of_nat (length l))%Z -> exists x, py_index l i = Some x.
Proof.
  intros [H0 H1]. unfold py_index.
  assert (E0 : (i <? 0)%Z = false) by (apply Z.ltb_ge; lia).
  assert (E1 : (Z.of_nat (length l) <=? i)%Z = false) by (apply Z.leb_gt; lia).
  cbv zeta. rewrite E0. rewrite E0, E1. cbn.
  destruct (nth_error l (Z.to_nat i)) as [x|] eqn:E; [eauto|].
  apply nth_error_None in E. lia.
Qed.

(* get_context() of a well-formed error returns *)
Lemma err_context_total e : wf_ctx (e_ctx e) -> exists c, err_context e = Ok c.
Proof.
  unfold err_context. destruct (e_ctx e) as [|text lineno pos|text start pos|line]; cbn [wf_ctx]; intros Hw.
  - eauto.
  - unfold scanner_error_context. destruct lineno as [ln|]; [|cbn; eauto].
    destruct (py_index_in_range (splitlines true text) (ln - 1)%Z) as [x Hx]; [lia|].
    rewrite Hx. cbn. eauto.
  - unfold bib_error_context.
    pose proof (splitlines_nonempty false _ Hw) as Hn.
    destruct (rev (splitlines false (pyslice text start (Some pos)))) eqn:E.
    + exfalso. apply Hn. apply (f_equal (@rev str)) in E. now rewrite rev_involutive in E.
    + cbn. eauto.
  - destruct line as [[|c l]|]; eauto.
Qed.


(* every well-formed error renders; the rendering is a sequence of lines, each carrying the file
   name if there is one, the last being prefix + str(error), which contains the message *)
Lemma format_error_total e p :
  wf_err e ->
  exists s lines,
    format_error e p = Ok s /\
    s = join [10%N] (map (fname_prefix e) (lines ++ [p ++ err_str e])) /\
    infix (p ++ err_str e) s /\ infix (e_msg e) s.
Proof.
  intros [Hf Hc]. destruct (err_context_total e Hc) as [c Hctx].
  unfold format_error. rewrite Hctx. cbn [bind].
  set (lines0 := if truthy c then splitlines false match c with Some c0 => c0 | None => [] end else []).
  assert (Hgen : forall s, s = join [10%N] (map (fname_prefix e) (lines0 ++ [p ++ err_str e])) ->
                 infix (p ++ err_str e) s /\ infix (e_msg e) s).
  { intros s ->. rewrite map_app. cbn [map].
    assert (H1 : infix (p ++ err_str e) (join [10%N] (map (fname_prefix e) lines0 ++ [fname_prefix e (p ++ err_str e)]))).
    { eapply infix_trans; [|apply join_snoc_infix].
      unfold fname_prefix. destruct (fname_text (e_fn e)) as [[|a f]|]; try apply infix_refl.
      apply infix_app_l, infix_app_l, infix_refl. }
    split; [exact H1|].
    eapply infix_trans; [|exact H1]. apply infix_app_l, msg_in_str. }
  assert (Hfn : err_filename e = Ok (fname_text (e_fn e))).
  { unfold err_filename, fname_text. destruct (e_fn e); try reflexivity. congruence. }
  rewrite Hfn. cbn [bind]. unfold fname_prefix in *.
  destruct (fname_text (e_fn e)) as [[|a f]|]; cbn [truthy].
  - eexists _, lines0. split; [reflexivity|]. split.
    + now rewrite map_id.
    + apply Hgen. now rewrite map_id.
  - eexists _, lines0. split; [reflexivity|]. split; [reflexivity|]. now apply Hgen.
  - eexists _, lines0. split; [reflexivity|]. split.
    + now rewrite map_id.
    + apply Hgen. now rewrite map_id.
Qed.

(* F27: an error object whose file name is not text does not render *)
Lemma format_error_bad_filename : exists e p, format_error e p = Crash.
Proof. exists (mkErr 1 (s2l "%i passed to int.to.chr$") FnBad SPlain CNone), k_error. reflexivity. Qed.

(* ---------------------------------------------------------------------------------- *)
(* the command line *)

Lemma cmdline_exit_status c g ss :
  g_cap g = None ->
  Forall2 (fun e s => format_error e k_warning = Ok s) (reports c) ss ->
  (forall f, ending c = Raised f -> exists s, format_error f k_error = Ok s) ->
  let '(g', st) := cmdline_call g false c in
  g_strict g' = false /\
  match ending c with
  | Returned => st = Ok (match reports c with [] => g_code g | _ => 2%Z end)
                /\ g_out g' = g_out g ++ warn_text ss
  | Raised f => st = Ok 1%Z /\ exists s, format_error f k_error = Ok s
                /\ g_out g' = g_out g ++ warn_text ss ++ s ++ [10%N]
  | Crashed => st = Crash
  end.
Proof.
  intros Hc HF Hfat. unfold cmdline_call.
  rewrite (run_comp_nonstrict c (set_strict g false) ss); auto.
  destruct (ending c) as [|f|] eqn:E; cbn.
  - auto.
  - destruct (Hfat f eq_refl) as [s Hs]. unfold print_error. rewrite Hs. cbn.
    split; [reflexivity|]. split; [reflexivity|]. exists s. split; [reflexivity|]. now rewrite <- app_assoc.
  - auto.
Qed.

Lemma cmdline_strict_option c g :
  g_cap g = None ->
  (forall e, hd_error (reports c) = Some e \/ (reports c = [] /\ ending c = Raised e) ->
             exists s, format_error e k_error = Ok s) ->
  let '(g', st) := cmdline_call g true c in
  match reports c, ending c with
  | e :: _, _ | [], Raised e =>
      st = Ok 1%Z /\ exists s, format_error e k_error = Ok s /\ g_out g' = g_out g ++ s ++ [10%N]
  | [], Returned => st = Ok (g_code g) /\ g_out g' = g_out g
  | [], Crashed => st = Crash
  end.
Proof.
  intros Hc Hr. unfold cmdline_call.
  rewrite (run_comp_strict c (set_strict (set_strict g false) true)); auto.
  destruct (reports c) as [|e r] eqn:Er.
  - destruct (ending c) as [|f|] eqn:E; cbn; auto.
    destruct (Hr f (or_intror (conj eq_refl eq_refl))) as [s Hs]. unfold print_error. rewrite Hs. cbn.
    split; [reflexivity|]. exists s. auto.
  - destruct (Hr e (or_introl eq_refl)) as [s Hs]. unfold print_error. rewrite Hs. cbn.
    split; [reflexivity|]. exists s. auto.
Qed.

(* ---------------------------------------------------------------------------------- *)
(* the errors the scanner raises are well-formed: the line number it counted (\n, \r, \r\n)
   always points into text.splitlines(True), although that splits at more characters *)

Ltac b2p := repeat match goal with
  | H : _ || _ = true |- _ => apply orb_true_iff in H; destruct H as [H|H]
  | H : _ && _ = true |- _ => apply andb_true_iff in H; destruct H
  | H : (_ <=? _)%N = true |- _ => apply N.leb_le in H
  | H : (_ =? _)%N = true |- _ => apply N.eqb_eq in H
  | H : _ || _ = false |- _ => apply orb_false_iff in H; destruct H
  | H : _ && _ = false |- _ => apply andb_false_iff in H; destruct H as [H|H]
  | H : (_ <=? _)%N = false |- _ => apply N.leb_gt in H
  | H : (_ =? _)%N = false |- _ => apply N.eqb_neq in H
  end.

(* every line boundary of splitlines is a whitespace character *)
Lemma is_lb_space c : is_lb c = true -> is_space c = true.
Proof.
  intros H. destruct (is_space c) eqn:E; [reflexivity|exfalso].
  unfold is_lb in H. unfold is_space in E. b2p; lia.
Qed.

Lemma nonspace_not_lb c : is_space c = false -> is_lb c = false.
Proof. intros H. destruct (is_lb c) eqn:E; [|reflexivity]. apply is_lb_space in E. congruence. Qed.


Lemma not_lb_neq c : is_lb c = false -> (c =? 10)%N = false /\ (c =? 13)%N = false.
Proof.
  intros H. split; apply N.eqb_neq; intros ->; discriminate H.
Qed.

Lemma count_newlines_cons c t : (count_newlines (c :: t) <= S (count_newlines t))%nat.
Proof.
  cbn [count_newlines]. destruct (c =? 10)%N; [lia|]. destruct (c =? 13)%N; [|lia].
  destruct t as [|d t']; [cbn; lia|]. destruct (d =? 10)%N; lia.
Qed.

Lemma scanner_lineno_in_range n : forall ws, (length ws <= n)%nat ->
  forall acc c0 r, is_lb c0 = false ->
  (count_newlines ws < length (splitlines_aux true (ws ++ c0 :: r) acc))%nat.
Proof.
  induction n as [|n IH]; intros ws Hl acc c0 r Hc0.
  - destruct ws; [|cbn in Hl; lia]. cbn [app count_newlines splitlines_aux]. rewrite Hc0.
    pose proof (splitlines_aux_nonempty true r (c0 :: acc)) as Hn.
    destruct (splitlines_aux true r (c0 :: acc)); [exfalso; apply Hn; [discriminate|reflexivity]|cbn; lia].
  - destruct ws as [|c t].
    + apply (IH []); [cbn; lia|exact Hc0].
    + cbn [length] in Hl. cbn [app splitlines_aux]. destruct (is_lb c) eqn:Elb.
      * destruct t as [|d t'].
        { cbn [app]. destruct (not_lb_neq c0 Hc0) as [E10 _]. rewrite E10, andb_false_r.
          cbn [length]. pose proof (IH [] ltac:(cbn; lia) [] c0 r Hc0) as H0. cbn [app count_newlines] in H0.
          pose proof (count_newlines_cons c []) as Hc. change (count_newlines []) with O in Hc. lia. }
        { cbn [app]. destruct ((c =? 13)%N && (d =? 10)%N) eqn:Ecr.
          - apply andb_true_iff in Ecr as [E13 E10]. apply N.eqb_eq in E13, E10. subst c d.
            cbn [length]. pose proof (IH t' ltac:(cbn in Hl; lia) [] c0 r Hc0) as H0.
            change (count_newlines (13%N :: 10%N :: t')) with (S (count_newlines t')). lia.
          - cbn [length]. pose proof (IH (d :: t') ltac:(cbn in Hl |- *; lia) [] c0 r Hc0) as H0.
            cbn [app] in H0. pose proof (count_newlines_cons c (d :: t')). lia. }
      * destruct (not_lb_neq c Elb) as [E10 E13].
        cbn [count_newlines]. rewrite E10, E13. apply IH; [lia|exact Hc0].
Qed.

Lemma span_space_spec s : forall a b, span_space s = (a, b) ->
  s = a ++ b /\ match b with [] => True | c :: _ => is_space c = false end.
Proof.
  induction s as [|c t IH]; intros a b H; cbn [span_space] in H.
  - inversion H; subst. auto.
  - destruct (is_space c) eqn:E.
    + destruct (span_space t) as [a' b'] eqn:Et. inversion H; subst.
      destruct (IH a' b eq_refl) as [-> Hb]. auto.
    + inversion H; subst. cbn. auto.
Qed.

(* every error raised by Scanner.required is well-formed, hence (format_error_total) renders *)
Lemma scanner_errors_wellformed text lit fn id e :
  fn <> FnBad -> scanner_required text lit fn id = inr e -> wf_err e.
Proof.
  intros Hfn. unfold scanner_required.
  destruct (span_space text) as [ws rest] eqn:Es.
  destruct (span_space_spec text ws rest Es) as [Ht Hr].
  destruct rest as [|c0 r].
  - intros H; inversion H; subst. split; [exact Hfn|exact I].
  - destruct (startswith (c0 :: r) lit); [discriminate|].
    intros H; inversion H; subst e. split; [exact Hfn|]. cbn [e_ctx wf_ctx].
    pose proof (scanner_lineno_in_range (length ws) ws (le_n _) [] c0 r (nonspace_not_lb c0 Hr)) as Hlt.
    unfold splitlines. rewrite Ht. lia.
Qed.

Lemma scanner_errors_render text lit fn id e p :
  fn <> FnBad -> scanner_required text lit fn id = inr e ->
  exists s, format_error e p = Ok s /\ infix (p ++ err_str e) s /\ infix (e_msg e) s.
Proof.
  intros Hfn He. destruct (format_error_total e p (scanner_errors_wellformed _ _ _ _ _ Hfn He)) as (s & l & H1 & _ & H3 & H4).
  eauto.
Qed.

(* a LowLevelParser error whose command start lies before the error position, both inside the
   text, is well-formed (parse_bibliography sets command_start = pos - 1 after the '@') *)
Lemma bib_ctx_wellformed (text : str) (start pos : Z) :
  (0 <= start < pos)%Z -> (pos <= Z.of_nat (length text))%Z -> wf_ctx (CBib text (Some start) pos).
Proof.
  intros [H0 H1] H2. cbn [wf_ctx]. unfold pyslice, clamp_idx.
  assert (E0 : (start <? 0)%Z = false) by (apply Z.ltb_ge; lia).
  assert (E1 : (pos <? 0)%Z = false) by (apply Z.ltb_ge; lia).
  rewrite E0, E1. intros Hnil. apply (f_equal (@length char)) in Hnil.
  rewrite firstn_length, skipn_length in Hnil. cbn [length] in Hnil. lia.
Qed.

(* F20 in general: whatever the state before (also inside an enclosing capture block), after an
   inner `with capture()` block a problem is never collected: it is raised, printed, or its
   rendering crashes *)
Lemma inner_capture_switches_outer_off g c e :
  let '(g1, _, _) := with_capture g c in
  forall i, snd (report_error g1 e) <> RAppended i.
Proof.
  rewrite capture_collects. intros i. unfold report_error. cbn [g_cap g_strict].
  destruct (g_strict g); [discriminate|].
  unfold print_error. destruct (format_error e k_warning); cbn; discriminate.
Qed.

(* ---------------------------------------------------------------------------------- *)
(* every class: what the constructors build is well-formed, hence renders *)

Lemma fname_of_not_bad o : fname_of o <> FnBad.
Proof. destruct o; discriminate. Qed.

Lemma scan_state_wf p : scan_state_ok p -> wf_ctx (CScan (sc_text p) (Some (sc_lineno p)) (sc_pos p)).
Proof.
  intros (pre & c0 & r & Ht & _ & Hc0 & Hl). cbn [wf_ctx]. rewrite Ht.
  pose proof (scanner_lineno_in_range (length pre) pre (le_n _) [] c0 r Hc0) as Hlt.
  unfold splitlines. lia.
Qed.

Lemma constructed_wf e : constructed e -> wf_err e.
Proof.
  intros H. destruct H as [id msg fn Hfn|id etype msg p|id desc p Hok|id desc p Hln|id desc p start Hok|id msg c|id etype msg fn|id desc text fn pos];
    (split; [cbn; auto using fname_of_not_bad|cbn [e_ctx new_pybtex_error new_syntax_error new_token_required new_token_required_bib new_aux_error new_syntax_error_nl new_token_required_nl]]).
  - exact I.
  - exact I.
  - now apply scan_state_wf.
  - exact Hln.
  - destruct Hok as (s & -> & H1 & H2). now apply bib_ctx_wellformed.
  - exact I.
  - exact I.
  - exact I.
Qed.

Lemma format_error_total_by_class e p :
  constructed e ->
  exists s lines,
    format_error e p = Ok s /\
    s = join [10%N] (map (fname_prefix e) (lines ++ [p ++ err_str e])) /\
    infix (p ++ err_str e) s /\ infix (e_msg e) s.
Proof. intros H. apply format_error_total, constructed_wf, H. Qed.

(* the only records excluded are those with a file name that is not text: exactly F27's shape *)
Lemma not_constructed_plain id msg : ~ wf_err (new_pybtex_error id msg FnBad).
Proof. intros [H _]. now apply H. Qed.

(* what Scanner.required raises is one of the constructed errors *)
Lemma scanner_required_constructed text lit (f : pfname) id e :
  scanner_required text lit (fname_of f) id = inr e -> constructed e.
Proof.
  unfold scanner_required.
  destruct (span_space text) as [ws rest] eqn:Es.
  destruct (span_space_spec text ws rest Es) as [Ht Hr].
  destruct rest as [|c0 r].
  - intros H; injection H as <-.
    apply (C_syntax id k_syntax_error k_premature_end_of_file
             (mkScanner text f (Z.of_nat (1 + count_newlines ws)) (Z.of_nat (length ws)))).
  - destruct (startswith (c0 :: r) lit); [discriminate|].
    intros H; injection H as <-.
    set (sc := mkScanner text f (Z.of_nat (1 + count_newlines ws)) (Z.of_nat (length ws))).
    match goal with |- constructed ?x =>
      replace x with (new_token_required id ([39%N] ++ lit ++ [39%N]) sc)
        by (unfold new_token_required, sc; cbn [sc_text sc_filename sc_lineno sc_pos]; f_equal;
            now rewrite <- !app_assoc) end.
    apply C_token. unfold sc.
    exists ws, c0, r. cbn [sc_text sc_pos sc_lineno]. repeat split; auto using nonspace_not_lb; lia.
Qed.

(* ---------------------------------------------------------------------------------- *)
(* messages are concatenated, never formatted over *)

Lemma err_str_concat e : err_str e = kind_prefix (e_kind e) ++ e_msg e.
Proof.
  unfold err_str, kind_prefix. destruct (e_kind e) as [|etype lineno|lineno].
  - reflexivity.
  - now rewrite <- !app_assoc.
  - destruct lineno as [n|]; [|reflexivity]. destruct (n =? 0)%Z; [reflexivity|now rewrite <- !app_assoc].
Qed.

(* changing the message changes str(error) at exactly that place: whatever characters the message
   contains, the rest of the text is the same *)
Lemma err_str_message_inert id id' m m' fn fn' k c c' :
  exists pre, err_str (mkErr id m fn k c) = pre ++ m /\ err_str (mkErr id' m' fn' k c') = pre ++ m'.
Proof. exists (kind_prefix k). split; apply err_str_concat. Qed.

(* the rendering of a well-formed error contains prefix + class prefix + the message, verbatim *)
Lemma format_error_message_verbatim e p :
  wf_err e -> exists s, format_error e p = Ok s /\ infix (p ++ kind_prefix (e_kind e) ++ e_msg e) s.
Proof.
  intros H. destruct (format_error_total e p H) as (s & l & H1 & _ & H3 & _).
  exists s. split; [exact H1|]. now rewrite <- err_str_concat.
Qed.

(* the description of a TokenRequired is concatenated too *)
Lemma token_required_message id desc p : e_msg (new_token_required id desc p) = desc ++ k_expected
  /\ forall start, e_msg (new_token_required_bib id desc p start) = desc ++ k_expected.
Proof. split; reflexivity. Qed.

(* the exit status, with and without --strict, in one statement *)
Lemma cmdline_status_all so c g ss :
  g_cap g = None -> g_code g = 0%Z ->
  Forall2 (fun e s => format_error e k_warning = Ok s) (reports c) ss ->
  (forall e, In e (reports c) \/ ending c = Raised e -> exists s, format_error e k_error = Ok s) ->
  ending c <> Crashed ->
  let st := snd (cmdline_call g so c) in
  (st = Ok 0%Z <-> reports c = [] /\ ending c = Returned) /\
  (so = true -> reports c <> [] -> st = Ok 1%Z) /\
  (so = false -> reports c <> [] -> ending c = Returned -> st = Ok 2%Z) /\
  (forall f, ending c = Raised f -> st = Ok 1%Z).
Proof.
  intros Hc Hz HF Hren Hnc st. subst st. destruct so.
  - pose proof (cmdline_strict_option c g Hc) as H.
    assert (Hpre : forall e, hd_error (reports c) = Some e \/ reports c = [] /\ ending c = Raised e ->
                             exists s, format_error e k_error = Ok s).
    { intros e [He|[_ He]]; apply Hren; [left|now right].
      destruct (reports c) as [|x r]; [discriminate|]. injection He as ->. now left. }
    specialize (H Hpre). destruct (cmdline_call g true c) as [g' st]. cbn [snd].
    destruct (reports c) as [|e r] eqn:Er.
    + destruct (ending c) as [|f|] eqn:Ee.
      * destruct H as [-> _]. rewrite Hz. repeat split; auto; try congruence; discriminate.
      * destruct H as [-> _]. repeat split; try congruence; try discriminate.
        intros [_ H]; discriminate H.
      * congruence.
    + destruct H as [-> _]. repeat split; try congruence; try discriminate.
      intros [H _]; discriminate H.
  - pose proof (cmdline_exit_status c g ss Hc HF) as H.
    assert (Hpre : forall f, ending c = Raised f -> exists s, format_error f k_error = Ok s)
      by (intros f Hf; apply Hren; now right).
    specialize (H Hpre). destruct (cmdline_call g false c) as [g' st]. cbn [snd].
    destruct H as [_ H]. destruct (ending c) as [|f|] eqn:Ee.
    + destruct H as [-> _]. rewrite Hz. destruct (reports c) as [|e r]; repeat split; try congruence; try discriminate.
      intros [H _]; discriminate H.
    + destruct H as [-> _]. repeat split; try congruence; try discriminate.
      intros [_ H]; discriminate H.
    + congruence.
Qed.

(* errors of a line-less scanner (NameFormatParser): whatever Scanner.required raises there is a
   constructed error; it renders without a context line and without ' in line n' *)
Lemma lineless_required_constructed text lit fn id e :
  lineless_required text lit fn id = inr e -> constructed e.
Proof.
  unfold lineless_required. destruct text as [|c t].
  - intros H; injection H as <-. apply C_syntax_nl.
  - destruct (startswith (c :: t) lit); [discriminate|]. intros H; injection H as <-. apply C_token_nl.
Qed.

Lemma lineless_token_required_renders id desc text fn pos p :
  format_error (new_token_required_nl id desc text fn pos) p
  = Ok (fname_prefix (new_token_required_nl id desc text fn pos)
          (p ++ k_syntax_error ++ k_colon_sp ++ desc ++ k_expected)).
Proof.
  unfold format_error, err_context, new_token_required_nl. cbn [e_ctx scanner_error_context bind token_required_context truthy].
  unfold err_filename, fname_prefix, fname_text. cbn [e_fn e_kind e_msg err_str app].
  destruct fn as [|[|a f]|b]; cbn [fname_of bind truthy join map app]; try reflexivity.
  destruct (utf8_replace b) as [|a f]; reflexivity.
Qed.
