(* Proofs/RichHist2.v -- histories with split as a step (relational semantics `hsem`). *)
From Pybtex Require Import Base.Prelude Base.PyChar Base.PyStr Model.RtTypes Model.RichText
  Spec.Flat Spec.FlatOps Proofs.RichText Proofs.RichSlice Proofs.RichOps Proofs.RichWf Proofs.RichObs
  Proofs.RichInj Proofs.RichNormal Proofs.RichHist Proofs.RichSplit.

Definition exact (v : rt) (r : sval) : Prop := good v /\ top_markup v = fst r /\ flat v = snd r.

Lemma top_good v : good v -> top_e v = top_markup v.
Proof. intros [_ W]. now apply wf_top. Qed.

Notation GP := (good_str) (only parsing).

(* ---- one step of each operation, exactly, on texts in normal form ---- *)
Lemma step_case up a v r : exact a r -> case_c up a = Ok v -> exact v (fst r, map (conv_pair up) (snd r)).
Proof.
  intros [G [T F]] H. destruct (case_flat_x up a (proj2 G)) as [v' [H' [W Fv]]]. rewrite H in H'; inversion H'; subst v'.
  assert (Gv : good v) by (apply (case_conv_pres good good_str good_parts_all mkc_good _ _ a v G H)).
  split; [exact Gv|]. cbn [fst snd]. split; [|now rewrite Fv, F].
  now rewrite <- (top_good v Gv), (case_c_top _ _ _ H), (top_good a G).
Qed.

Lemma step_slice a v r i j : exact a r -> getitem_c a (KSlice i j) = Ok v -> exact v (fst r, pyslice (snd r) i j).
Proof.
  intros [G [T F]] H. destruct (slice_flat_x a i j (proj2 G)) as [v' [H' [W Fv]]]. rewrite H in H'; inversion H'; subst v'.
  assert (Gv : good v) by (apply (getitem_pres good good_str good_parts_all mkc_good _ a _ v G H)).
  split; [exact Gv|]. cbn [fst snd]. split; [|now rewrite Fv, F].
  now rewrite <- (top_good v Gv), (slice_top _ _ _ _ H), (top_good a G).
Qed.

Lemma step_index a v r i : exact a r -> getitem_c a (KInt i) = Ok v ->
  good v /\ top_markup v = fst r /\ (forall p, pyindex (snd r) i = Some p -> flat v = [p]).
Proof.
  intros [G [T F]] H.
  assert (Gv : good v) by (apply (getitem_pres good good_str good_parts_all mkc_good _ a _ v G H)).
  split; [exact Gv|]. split.
  - now rewrite <- (top_good v Gv), (index_top _ _ _ H), (top_good a G).
  - intros p Hp. rewrite <- F in Hp. destruct (index_flat_x a i p (proj2 G) Hp) as [v' [H' [_ Fv]]].
    rewrite H in H'; inversion H'; subst v'. exact Fv.
Qed.

Lemma cap_top_e a v : capfirst a = Ok v \/ capitalize a = Ok v -> top_e v = cap_top (top_e a).
Proof.
  intros [H|H]; destruct a; cbn in H |- *; try (inversion H; reflexivity);
    repeat (apply bind_ok in H as [? [_ H]]); unfold add in H; now rewrite (mkc_top _ _ _ H).
Qed.
Lemma cap_top_good a : good a -> cap_top (top_e a) = cap_top (top_markup a).
Proof. intro G. now rewrite (top_good a G). Qed.

Lemma step_capfirst a v r : exact a r -> capfirst a = Ok v -> exact v (cap_top (fst r), capfirst_flat (snd r)).
Proof.
  intros [G [T F]] H. destruct (capfirst_flat_x a (proj2 G)) as [v' [H' [W Fv]]]. rewrite H in H'; inversion H'; subst v'.
  assert (Gv : good v) by (apply (capfirst_pres good good_str good_parts_all mkc_good a v G H)).
  split; [exact Gv|]. cbn [fst snd]. split; [|now rewrite Fv, F].
  now rewrite <- (top_good v Gv), (cap_top_e a v (or_introl H)), (top_good a G), T.
Qed.
Lemma step_capitalize a v r : exact a r -> capitalize a = Ok v -> exact v (cap_top (fst r), capitalize_flat (snd r)).
Proof.
  intros [G [T F]] H. destruct (capitalize_flat_x a (proj2 G)) as [v' [H' [W Fv]]]. rewrite H in H'; inversion H'; subst v'.
  assert (Gv : good v) by (apply (capitalize_pres good good_str good_parts_all mkc_good a v G H)).
  split; [exact Gv|]. cbn [fst snd]. split; [|now rewrite Fv, F].
  now rewrite <- (top_good v Gv), (cap_top_e a v (or_intror H)), (top_good a G), T.
Qed.

Lemma step_add a b v ra rb : exact a ra -> exact b rb -> add a b = Ok v -> exact v (None, snd ra ++ snd rb).
Proof.
  intros [Ga [Ta Fa]] [Gb [Tb Fb]] H. destruct (add_flat_x a b (proj2 Ga) (proj2 Gb)) as [v' [H' [W Fv]]].
  rewrite H in H'; inversion H'; subst v'.
  assert (Gv : good v) by (apply (add_pres good mkc_good a b v Ga Gb H)).
  split; [exact Gv|]. cbn [fst snd]. split; [|now rewrite Fv, Fa, Fb].
  rewrite <- (top_good v Gv). unfold add in H. now rewrite (mkc_top _ _ _ H).
Qed.

Lemma append_top a b v : append a b = Ok v -> top_e v = top_e a.
Proof.
  unfold append. destruct (is_multipart a) eqn:Hm; intro H.
  - now apply (create_similar_top _ _ _ Hm H).
  - unfold add in H. rewrite (mkc_top _ _ _ H). destruct a; cbn in Hm; try discriminate; reflexivity.
Qed.

Lemma push_top_opt a f : push_top a f = push_opt (top_markup a) f.
Proof. reflexivity. Qed.

Lemma step_append a b v ra rb : exact a ra -> exact b rb -> append a b = Ok v ->
  exact v (fst ra, snd ra ++ push_opt (fst ra) (snd rb)).
Proof.
  intros [Ga [Ta Fa]] [Gb [Tb Fb]] H. destruct (append_flat_x a b (proj2 Ga) (proj2 Gb)) as [v' [H' [W Fv]]].
  rewrite H in H'; inversion H'; subst v'.
  assert (Gv : good v) by (apply (append_pres good good_parts_all mkc_good a b v Ga Gb H)).
  split; [exact Gv|]. cbn [fst snd]. split.
  - now rewrite <- (top_good v Gv), (append_top _ _ _ H), (top_good a Ga).
  - now rewrite Fv, push_top_opt, Ta, Fa, Fb.
Qed.

Lemma step_addperiod a v r p : exact a r -> add_period a p = Ok v ->
  exact v (fst r, add_period_flat (fst r) (snd r) p).
Proof.
  intros [G [T F]] H. unfold add_period in H. unfold add_period_flat. cbn [fst snd].
  rewrite (rendswith_term a G) in H.
  assert (E1 : length (snd r) = rlen a) by (rewrite <- F; apply flat_length).
  assert (E2 : terminated_flat (snd r) = terminated_flat (flat a)) by now rewrite F.
  rewrite E1, E2.
  destruct (negb (rlen a =? 0) && negb (terminated_flat (flat a))).
  - assert (E : exact (RStr p) (None, map (fun c => (ACh c, [])) p)) by (split; [apply good_str|split; reflexivity]).
    exact (step_append a (RStr p) v r _ (conj G (conj T F)) E H).
  - inversion H; subst v. split; [exact G|split; [exact T|exact F]].
Qed.

Definition exacts (vs : list rt) (rs : list sval) : Prop := Forall2 exact vs rs.
Lemma exacts_flat vs rs : exacts vs rs -> map flat vs = map snd rs.
Proof. induction 1 as [|v r vs rs [_ [_ F]] _ IH]; cbn; [reflexivity|]. now rewrite F, IH. Qed.
Lemma exacts_good vs rs : exacts vs rs -> Forall good vs.
Proof. induction 1 as [|v r vs rs [G _] _ IH]; constructor; assumption. Qed.

Lemma step_join s vs v rs rl : exact s rs -> exacts vs rl -> rjoin s vs = Ok v ->
  exact v (None, join_flat (snd rs) (map snd rl)).
Proof.
  intros [Gs [Ts Fs]] Hl H. pose proof (exacts_good _ _ Hl) as Gl.
  assert (Wl : Forall wf vs) by (eapply Forall_impl; [|exact Gl]; intros x Hx; exact (proj2 Hx)).
  destruct (join_flat_x s vs (proj2 Gs) Wl) as [v' [H' [W Fv]]]. rewrite H in H'; inversion H'; subst v'.
  assert (Gv : good v) by (apply (rjoin_pres good mkc_good s vs v Gs Gl H)).
  split; [exact Gv|]. cbn [fst snd]. split; [|now rewrite Fv, Fs, (exacts_flat _ _ Hl)].
  rewrite <- (top_good v Gv). unfold rjoin in H. now rewrite (mkc_top _ _ _ H).
Qed.

Lemma step_ctor k vs v rs : exacts vs rs -> mkc k vs = Ok v ->
  exact v (sctor (option_map erase_m (km k)) rs).
Proof.
  intros Hl H. pose proof (exacts_good _ _ Hl) as Gl.
  assert (Wl : Forall wf vs) by (eapply Forall_impl; [|exact Gl]; intros x Hx; exact (proj2 Hx)).
  destruct (ctor_flat_x k vs Wl) as [v' [H' [W Fv]]]. rewrite H in H'; inversion H'; subst v'.
  assert (Gv : good v) by (apply (mkc_good k vs v Gl H)).
  split; [exact Gv|]. cbn [sctor fst snd]. split.
  - now rewrite <- (top_good v Gv), (mkc_top _ _ _ H).
  - rewrite Fv, (exacts_flat _ _ Hl). unfold pushk_e, push_opt. destruct (km k); reflexivity.
Qed.

(* ---- the split step ---- *)
Lemma leaf_split_top a sep keep ps : is_multipart a = false -> split_c a sep keep = Ok ps ->
  Forall (fun p => top_markup p = top_markup a) ps.
Proof.
  intros Hm H. unfold split_c in H. destruct a; cbn in Hm; try discriminate; cbn [split depth] in H.
  - unfold str_split in H. apply bind_ok in H as [pieces [_ H]]. inversion H; subst.
    apply Forall_forall. intros x Hx. apply in_map_iff in Hx as [s' [<- _]]. reflexivity.
  - inversion H; subst. constructor; [reflexivity|constructor].
Qed.

Lemma step_split a r sep keep ps : exact a r -> (sep = SepNone \/ sep = SepDelim) -> split_c a sep keep = Ok ps ->
  split_law sep r (map flat ps) /\ Forall (fun p => exact p (fst r, flat p)) ps.
Proof.
  intros [G [T F]] Hsep H. pose proof (split_good a sep keep ps G H) as Gps.
  assert (Eps : map (fun p => erase (flat p)) ps = map flat ps).
  { apply map_ext_in. intros p Hp. rewrite Forall_forall in Gps. apply wf_flat, (proj2 (Gps p Hp)). }
  split; [split|].
  - destruct Hsep as [-> | ->].
    + pose proof (split_ws_content a keep ps H) as C. rewrite Eps, (wf_flat a (proj2 G)), F in C. exact C.
    + pose proof (split_delim_content a keep ps H) as C. rewrite Eps, (wf_flat a (proj2 G)), F in C. exact C.
  - intro Hp. rewrite <- T in Hp. destruct a; cbn in Hp; try discriminate.
    rewrite split_protected in H. inversion H; subst. cbn [map]. now rewrite F.
  - assert (Tp : Forall (fun p => top_markup p = top_markup a) ps).
    { destruct (is_multipart a) eqn:Hm; [|now apply (leaf_split_top a sep keep)].
      pose proof (split_pieces_top a sep keep ps Hm H) as Tp. rewrite Forall_forall in *. intros p Hp.
      now rewrite <- (top_good p (Gps p Hp)), (Tp p Hp), (top_good a G). }
    rewrite Forall_forall in *. intros p Hp. split; [exact (Gps p Hp)|]. cbn [fst snd]. split; [|reflexivity].
    now rewrite (Tp p Hp).
Qed.

(* ---- the history theorem ---- *)
Lemma mapM_hist n ps : forall vs,
  (forall p v, In p ps -> covered p = true -> eval n p = Ok v -> exists r, hsem p r /\ exact v r) ->
  forallb covered ps = true -> mapM (eval n) ps = Ok vs ->
  exists rs, Forall2 hsem ps rs /\ exacts vs rs.
Proof.
  induction ps as [|p ps IH]; cbn; intros vs Hall C H.
  - inversion H. exists []. split; constructor.
  - apply andb_prop in C as [C1 C2]. apply bind_ok in H as [v [Hv H]]. apply bind_ok in H as [vs' [Hvs H]]. inversion H; subst.
    destruct (Hall p v (or_introl eq_refl) C1 Hv) as [r [Hr Er]].
    destruct (IH vs' (fun q w Hq => Hall q w (or_intror Hq)) C2 Hvs) as [rs [Hrs Ers]].
    exists (r :: rs). split; constructor; assumption.
Qed.

Theorem history_lem n : forall e v, covered e = true -> eval n e = Ok v -> exists r, hsem e r /\ exact v r.
Proof.
  induction n as [|n IH]; intros e v C H; [discriminate|].
  assert (IHl : forall ps vs, forallb covered ps = true -> mapM (eval n) ps = Ok vs ->
            exists rs, Forall2 hsem ps rs /\ exacts vs rs).
  { intros ps vs. apply mapM_hist. intros p w _. apply IH. }
  rewrite eval_S in H. cbv zeta in H. destruct e; cbn [covered] in C; cbv beta iota in H; try discriminate.
  - inversion H; subst. eexists. split; [constructor|]. split; [apply good_str|split; reflexivity].
  - inversion H; subst. eexists. split; [constructor|]. split; [apply good_sym|split; reflexivity].
  - apply bind_ok in H as [vs [Hvs H]]. destruct (IHl ps vs C Hvs) as [rs [Hrs Ers]].
    exists (sctor None rs). split; [now constructor|exact (step_ctor KText vs v rs Ers H)].
  - apply bind_ok in H as [vs [Hvs H]]. destruct (IHl ps vs C Hvs) as [rs [Hrs Ers]].
    exists (sctor (Some (MTag (canon_name n0))) rs). split; [now constructor|exact (step_ctor (KTag n0) vs v rs Ers H)].
  - apply bind_ok in H as [vs [Hvs H]]. destruct (IHl ps vs C Hvs) as [rs [Hrs Ers]].
    exists (sctor (Some (MHRef u ext)) rs). split; [now constructor|exact (step_ctor (KHRef u ext) vs v rs Ers H)].
  - apply bind_ok in H as [vs [Hvs H]]. destruct (IHl ps vs C Hvs) as [rs [Hrs Ers]].
    exists (sctor (Some MProt) rs). split; [now constructor|exact (step_ctor KProt vs v rs Ers H)].
  - apply bind_ok in H as [a [Ha H]]. destruct (IH e a C Ha) as [r [Hr Er]].
    eexists. split; [apply hs_upper, Hr|exact (step_case true a v r Er H)].
  - apply bind_ok in H as [a [Ha H]]. destruct (IH e a C Ha) as [r [Hr Er]].
    eexists. split; [apply hs_lower, Hr|exact (step_case false a v r Er H)].
  - apply bind_ok in H as [a [Ha H]]. destruct (IH e a C Ha) as [r [Hr Er]].
    eexists. split; [apply hs_capitalize, Hr|exact (step_capitalize a v r Er H)].
  - apply bind_ok in H as [a [Ha H]]. destruct (IH e a C Ha) as [r [Hr Er]].
    eexists. split; [apply hs_capfirst, Hr|exact (step_capfirst a v r Er H)].
  - apply bind_ok in H as [a [Ha H]]. destruct (IH e a C Ha) as [r [Hr Er]].
    eexists. split; [apply hs_addperiod, Hr|exact (step_addperiod a v r p Er H)].
  - apply bind_ok in H as [a [Ha H]]. destruct (IH e a C Ha) as [r [Hr Er]].
    eexists. split; [apply hs_slice, Hr|exact (step_slice a v r i j Er H)].
  - apply bind_ok in H as [a [Ha H]]. destruct (IH e a C Ha) as [r [Hr Er]].
    destruct (step_index a v r i Er H) as [Gv [Tv Fv]].
    destruct (pyindex (snd r) i) as [p|] eqn:Pi.
    + exists (fst r, [p]). split; [now apply hs_index|]. split; [exact Gv|split; [exact Tv|now apply Fv]].
    + exists (fst r, flat v). split; [now apply hs_index_f23|]. split; [exact Gv|split; [exact Tv|reflexivity]].
  - apply andb_prop in C as [C1 C2]. apply bind_ok in H as [a [Ha H]]. apply bind_ok in H as [b [Hb H]].
    destruct (IH e1 a C1 Ha) as [ra [Hra Era]]. destruct (IH e2 b C2 Hb) as [rb [Hrb Erb]].
    eexists. split; [exact (hs_add _ _ _ _ Hra Hrb)|exact (step_add a b v ra rb Era Erb H)].
  - apply andb_prop in C as [C1 C2]. apply bind_ok in H as [a [Ha H]]. apply bind_ok in H as [b [Hb H]].
    destruct (IH e1 a C1 Ha) as [ra [Hra Era]]. destruct (IH e2 b C2 Hb) as [rb [Hrb Erb]].
    eexists. split; [exact (hs_append _ _ _ _ Hra Hrb)|exact (step_append a b v ra rb Era Erb H)].
  - apply andb_prop in C as [C1 C2]. apply bind_ok in H as [s [Hs H]]. apply bind_ok in H as [ws [Hws H]].
    destruct (IH e s C1 Hs) as [rs [Hrs Ers]]. destruct (IHl es ws C2 Hws) as [rl [Hrl Erl]].
    eexists. split; [exact (hs_join _ _ _ _ Hrs Hrl)|exact (step_join s ws v rs rl Ers Erl H)].
  - apply andb_prop in C as [C1 C2]. apply bind_ok in H as [a [Ha H]]. apply bind_ok in H as [l [Hl H]].
    destruct (IH e a C1 Ha) as [r [Hr Er]].
    assert (Hsep : sep = SepNone \/ sep = SepDelim) by (destruct sep; try discriminate; auto).
    destruct (step_split a r sep keep l Er Hsep Hl) as [Law Hp].
    destruct (nth_error l k) as [x|] eqn:Nk; [|discriminate]. inversion H; subst x.
    exists (fst r, flat v). split.
    + apply (hs_split _ r sep keep k (map flat l) (flat v) Hr Law). now apply map_nth_error.
    + rewrite Forall_forall in Hp. apply Hp. eapply nth_error_In; eauto.
Qed.

(* histories: every successful evaluation of a covered expression -- constructors, upper, lower,
   capitalize, capfirst, add_period, slices, int indices, +, append, join and split steps applied on
   top of one another -- yields a text in normal form whose top-level markup and pair sequence are
   related to the expression by `hsem`: the string operations on plain sequences, with the two
   stated exceptions (index outside the bounds: F23; cut positions of split: F17s) *)
Theorem history_sound e v : covered e = true -> eval_c e = Ok v ->
  exists r, hsem e r /\ good v /\ top_markup v = fst r /\ flat v = snd r.
Proof. unfold eval_c. apply history_lem. Qed.

Lemma step_split_clean a r sep keep ps : good a /\ top_markup a = fst r /\ flat a = snd r ->
  (sep = SepNone \/ sep = SepDelim) -> split_c a sep keep = Ok ps ->
  split_law sep r (map flat ps) /\ Forall (fun p => good p /\ top_markup p = fst r) ps.
Proof.
  intros E Hs H. destruct (step_split a r sep keep ps E Hs H) as [L Hp]. split; [exact L|].
  eapply Forall_impl; [|exact Hp]. intros p [G [T _]]. split; assumption.
Qed.

(* add_period on any text in normal form, exactly *)
Theorem add_period_flat_lem t p : good t -> exists v, add_period t p = Ok v /\ good v /\
  top_markup v = top_markup t /\ flat v = add_period_flat (top_markup t) (flat t) p.
Proof.
  intro G. assert (E : exact t (top_markup t, flat t)) by (split; [exact G|split; reflexivity]).
  assert (Hex : exists v, add_period t p = Ok v).
  { unfold add_period. destruct (_ && _); [|eauto]. destruct (append_flat_x t (RStr p) (proj2 G) eq_refl) as [v [Hv _]]. eauto. }
  destruct Hex as [v Hv]. exists v. split; [exact Hv|]. exact (step_addperiod t v _ p E Hv).
Qed.
