(* Proofs/EnginesAux.v -- bridge between the simplified .aux reader of Model/Engines.v (files as
   lists of lines, reports counted, nesting depth) and the validated model of pybtex/auxfile.py,
   Model/Aux.v (C20: file contents as text with universal-newline line splitting, contexts, errors
   with locations, modes): on the same files the two readers return the same style, database
   names, citations, canonical-key table and number of reports, fail together and run out of
   nesting together -- so aux_equals_explicit speaks about the real reader. *)
From Pybtex Require Import Base.Prelude Base.PyChar Base.PyStr Model.BibtexStr Model.Wrap Model.Bst Model.Engines.
From Pybtex Require Model.Aux.
From Pybtex Require Import Proofs.Engines.
Local Open Scope N_scope.

(* ---- the file systems correspond: an FAux file holds lines free of line ends and the real
   reader sees them joined, each followed by "\n"; an absent file is absent; about a file of
   another kind nothing is assumed (the simplified reader declines when it is opened) *)
Definition clean_line (l : str) : Prop := Forall (fun c => c <> 10 /\ c <> 13) l.
Definition with_nl (l : str) : str := l ++ [10].
Definition joined (ls : list str) : str := concat (map with_nl ls).
Definition fs_rel (fs : fsys) (afs : str -> option str) : Prop :=
  forall n, match fs_get fs n with
            | Some (FAux ls) => Forall clean_line ls /\ afs n = Some (joined ls)
            | Some _ => True
            | None => afs n = None
            end.

(* ---- (i) the line splitter on "\n"-joined clean lines *)
Lemma lines_aux_clean l : clean_line l -> forall rest acc,
  Aux.lines_aux (l ++ 10 :: rest) acc false = (rev acc ++ with_nl l) :: Aux.lines_aux rest [] false.
Proof.
  induction 1 as [|c l [H10 H13] Hl IH]; intros rest acc; cbn [app Aux.lines_aux].
  - change (10 =? 10) with true. change (10 =? 13) with false. cbn. unfold with_nl. reflexivity.
  - apply N.eqb_neq in H10, H13. rewrite H10, H13. cbn [andb orb]. rewrite IH. cbn [rev]. unfold with_nl.
    rewrite <- !app_assoc. reflexivity.
Qed.
Lemma lines_of_joined ls : Forall clean_line ls -> Aux.lines_of (joined ls) = map with_nl ls.
Proof.
  unfold Aux.lines_of, joined. induction 1 as [|l ls Hl Hls IH]; [reflexivity|].
  cbn [map concat]. unfold with_nl at 1. rewrite <- app_assoc. cbn [app].
  rewrite (lines_aux_clean l Hl). cbn. now rewrite IH.
Qed.

(* ---- (ii) the matcher *)
Definition ren (c : Aux.cmdname) : auxcmd :=
  match c with Aux.CCitation => ACitation | Aux.CBibdata => ABibdata | Aux.CBibstyle => ABibstyle | Aux.CInput => AInput end.

Lemma before_last_is s : Aux.before_last c_rbrace s = upto_last_rbrace s.
Proof. induction s as [|x s IH]; cbn; [reflexivity|]. now rewrite IH. Qed.

Lemma upto_nl_clean x : Forall (fun c => c <> 10 /\ c <> 13) x -> Aux.upto_nl (x ++ [10]) = x.
Proof.
  induction 1 as [|c x [H _] Hx IH]; cbn; [reflexivity|]. apply N.eqb_neq in H. now rewrite H, IH.
Qed.

Lemma startswith_nl pre : Forall (fun c => c <> 10) pre -> forall s,
  startswith (s ++ [10]) pre = startswith s pre.
Proof.
  induction 1 as [|x pre Hx Hp IH]; intros s; [destruct s; reflexivity|].
  destruct s as [|y s]; cbn.
  - apply N.eqb_neq in Hx. now rewrite Hx.
  - now rewrite IH.
Qed.
Lemma startswith_length : forall pre s, startswith s pre = true -> (length pre <= length s)%nat.
Proof.
  induction pre as [|x pre IH]; intros s H; cbn; [lia|]. destruct s as [|y s]; [discriminate|].
  cbn in H. apply andb_prop in H as [_ H]. apply IH in H. cbn. lia.
Qed.
Lemma skipn_app_le {X} (a b : list X) n : (n <= length a)%nat -> skipn n (a ++ b) = skipn n a ++ b.
Proof. revert a. induction n as [|n IH]; intros [|x a] H; cbn in *; try lia; auto. apply IH. lia. Qed.
Lemma Forall_skipn {X} (P : X -> Prop) l n : Forall P l -> Forall P (skipn n l).
Proof. revert l. induction n as [|n IH]; intros [|x l] H; cbn; auto. inversion H; auto. Qed.

Lemma match_alt_bridge c rest : clean_line rest ->
  Aux.match_alt c (rest ++ [10]) =
  (if startswith rest (Aux.cmd_text c ++ [c_lbrace])
   then upto_last_rbrace (skipn (S (length (Aux.cmd_text c))) rest) else None).
Proof.
  intros Hc. unfold Aux.match_alt.
  assert (Hpre : Forall (fun x => x <> 10) (Aux.cmd_text c ++ [c_lbrace])).
  { destruct c; cbn; repeat constructor; discriminate. }
  rewrite (startswith_nl _ Hpre).
  destruct (startswith rest (Aux.cmd_text c ++ [c_lbrace])) eqn:E; [|reflexivity].
  apply startswith_length in E. rewrite app_length in *. cbn [length] in *.
  replace (length (Aux.cmd_text c) + 1)%nat with (S (length (Aux.cmd_text c))) in * by lia.
  rewrite skipn_app_le by exact E. rewrite upto_nl_clean by (apply Forall_skipn; exact Hc).
  apply before_last_is.
Qed.

Lemma match_command_bridge l : clean_line l ->
  match_command l = option_map (fun p => (ren (fst p), snd p)) (Aux.match_command (with_nl l)).
Proof.
  intros Hc. unfold with_nl. destruct l as [|c rest]; [reflexivity|].
  inversion Hc as [|? ? _ Hrest]; subst.
  cbn [app Aux.match_command match_command]. unfold c_bslash.
  destruct (N.eqb c 92); cbn [negb]; [|reflexivity].
  unfold Aux.cmd_alternatives. cbn [Aux.match_alts].
  rewrite !(match_alt_bridge _ rest Hrest). cbn [Aux.cmd_text].
  change Aux.t_citation with s_citation. change Aux.t_bibdata with s_bibdata.
  change Aux.t_bibstyle with s_bibstyle. change Aux.t_input with s_input.
  destruct (startswith rest (s_citation ++ [c_lbrace])).
  { destruct (upto_last_rbrace _); [reflexivity|].
    destruct (startswith rest (s_bibdata ++ [c_lbrace])); [destruct (upto_last_rbrace _); [reflexivity|]|];
    destruct (startswith rest (s_bibstyle ++ [c_lbrace])); try (destruct (upto_last_rbrace _); [reflexivity|]);
    destruct (startswith rest (s_input ++ [c_lbrace])); try (destruct (upto_last_rbrace _)); reflexivity. }
  destruct (startswith rest (s_bibdata ++ [c_lbrace])); [destruct (upto_last_rbrace _); [reflexivity|]|];
  destruct (startswith rest (s_bibstyle ++ [c_lbrace])); try (destruct (upto_last_rbrace _); [reflexivity|]);
  destruct (startswith rest (s_input ++ [c_lbrace])); try (destruct (upto_last_rbrace _)); reflexivity.
Qed.

(* ---- (iii) the handlers *)
Lemma dict_get_is k d : Aux.dict_get k d = alookup str_eqb k d.
Proof. induction d as [|[k' v] d IH]; cbn; [reflexivity|]. now rewrite IH. Qed.
Lemma dict_set_is k v d : Aux.dict_set k v d = aset str_eqb k v d.
Proof. induction d as [|[k' v'] d IH]; cbn; [reflexivity|]. now rewrite IH. Qed.

(* the two states agree (the real reader is inside a file: it has a context) *)
Record agree (ad : auxdata) (a : Aux.aux) : Prop := mkAgree {
  ag_style : Aux.a_style a = ax_style ad;
  ag_data : Aux.a_data a = ax_data ad;
  ag_cits : Aux.a_cits a = ax_cites ad;
  ag_canon : Aux.a_canon a = ax_canon ad;
  ag_errs : length (Aux.a_errs a) = ax_reports ad }.
Definition in_file (a : Aux.aux) : Prop := exists c, Aux.a_ctx a = Some c.

Lemma cite_keys_bridge : forall keys ad a, agree ad a -> in_file a ->
  exists a', Aux.cite_keys Aux.Capture keys a = Aux.Ret a' /\
             agree (fold_left handle_citation_key keys ad) a' /\ Aux.a_ctx a' = Aux.a_ctx a.
Proof.
  induction keys as [|k r IH]; intros ad a Ha [c Hc]; cbn [Aux.cite_keys fold_left].
  - exists a. auto.
  - destruct Ha as [H1 H2 H3 H4 H5].
    rewrite dict_get_is, H4. unfold handle_citation_key at 2.
    destruct (alookup str_eqb (lower k) (ax_canon ad)) as [ex|] eqn:El.
    + destruct (str_eqb k ex) eqn:Ek; cbn [negb Aux.obind].
      * destruct (IH (mkAux (ax_style ad) (ax_data ad) (ax_cites ad ++ [k]) (aset str_eqb (lower k) k (ax_canon ad)) (ax_reports ad + 0))
                     (Aux.add_citation a k)) as (a' & E & Hag & Hctx).
        { constructor; cbn; try congruence. now rewrite dict_set_is, H4. lia. }
        { exists c. exact Hc. }
        exists a'. split; [exact E|]. split; [exact Hag|first [exact Hctx | rewrite Hctx; cbn; first [reflexivity | exact Hc | symmetry; exact Hc]]].
      * unfold Aux.aux_error. rewrite Hc. cbn [Aux.report_error Aux.obind].
        destruct (IH (mkAux (ax_style ad) (ax_data ad) (ax_cites ad ++ [k]) (aset str_eqb (lower k) k (ax_canon ad)) (ax_reports ad + 1))
                     (Aux.add_citation (Aux.add_err a (Aux.mkerr (Aux.EMismatch k ex) (Some c))) k)) as (a' & E & Hag & Hctx).
        { constructor; cbn; try congruence. now rewrite dict_set_is, H4. rewrite app_length. cbn. lia. }
        { exists c. exact Hc. }
        exists a'. split; [exact E|]. split; [exact Hag|first [exact Hctx | rewrite Hctx; cbn; first [reflexivity | exact Hc | symmetry; exact Hc]]].
    + cbn [Aux.obind].
      destruct (IH (mkAux (ax_style ad) (ax_data ad) (ax_cites ad ++ [k]) (aset str_eqb (lower k) k (ax_canon ad)) (ax_reports ad + 0))
                   (Aux.add_citation a k)) as (a' & E & Hag & Hctx).
      { constructor; cbn; try congruence. now rewrite dict_set_is, H4. lia. }
      { exists c. exact Hc. }
      exists a'. split; [exact E|]. split; [exact Hag|first [exact Hctx | rewrite Hctx; cbn; first [reflexivity | exact Hc | symmetry; exact Hc]]].
Qed.

Lemma handle_bibstyle_bridge v ad a : agree ad a -> in_file a ->
  exists a', Aux.handle_bibstyle Aux.Capture v a = Aux.Ret a' /\ agree (handle_bibstyle ad v) a' /\ Aux.a_ctx a' = Aux.a_ctx a.
Proof.
  intros [H1 H2 H3 H4 H5] [c Hc]. unfold Aux.handle_bibstyle, handle_bibstyle. rewrite H1.
  destruct (ax_style ad).
  - unfold Aux.aux_error. rewrite Hc. cbn. eexists. split; [reflexivity|]. split; [|cbn; first [reflexivity|congruence]].
    constructor; cbn; auto. rewrite app_length. cbn. lia.
  - eexists. split; [reflexivity|]. split; [|cbn; first [reflexivity|congruence]]. constructor; cbn; auto.
Qed.
Lemma handle_bibdata_bridge v ad a : agree ad a -> in_file a ->
  exists a', Aux.handle_bibdata Aux.Capture v a = Aux.Ret a' /\ agree (handle_bibdata ad v) a' /\ Aux.a_ctx a' = Aux.a_ctx a.
Proof.
  intros [H1 H2 H3 H4 H5] [c Hc]. unfold Aux.handle_bibdata, handle_bibdata. rewrite H2.
  destruct (ax_data ad).
  - unfold Aux.aux_error. rewrite Hc. cbn. eexists. split; [reflexivity|]. split; [|cbn; first [reflexivity|congruence]].
    constructor; cbn; auto. rewrite app_length. cbn. lia.
  - eexists. split; [reflexivity|]. split; [|cbn; first [reflexivity|congruence]]. constructor; cbn; auto.
Qed.

(* ---- the readers simulate each other *)
Definition sim (r : res auxdata) (o : Aux.outcome Aux.aux) : Prop :=
  match r with
  | Ok ad' => exists a', o = Aux.Ret a' /\ agree ad' a' /\ in_file a'
  | PyErr _ _ => exists e s, o = Aux.Raise e s
  | OutOfFuel => True        (* nesting exhausted, or a file that is no .aux file was opened: the simplified reader declines *)
  | Crash => False
  end.
(* the same for one \@input: the caller's context is back afterwards *)
Definition sim_in (r : res auxdata) (o : Aux.outcome Aux.aux) (a : Aux.aux) : Prop :=
  match r with
  | Ok ad' => exists a', o = Aux.Ret a' /\ agree ad' a' /\ Aux.a_ctx a' = Aux.a_ctx a
  | PyErr _ _ => exists e s, o = Aux.Raise e s
  | OutOfFuel => True
  | Crash => False
  end.

Section Sim.
  Variable fs : fsys.
  Variable afs : str -> option str.
  Hypothesis Hfs : fs_rel fs afs.

  (* what the simplified reader does for \@input{v} at depth d *)
  Definition input_step (d : nat) (v : str) (ad : auxdata) : res auxdata :=
    match d with
    | O => OutOfFuel
    | S d' => match fs_get fs v with
              | Some (FAux ls) => aux_parse_lines d' fs ls ad
              | Some _ => Unmodelled
              | None => PyErr E_IO (-1)
              end
    end.

  Section Depth.
    Variable d : nat.
    Let rec := fun name s => Aux.parse_file d afs Aux.Capture name false s.
    Hypothesis Hin : forall v ad a, agree ad a -> in_file a -> sim_in (input_step d v ad) (rec v a) a.

    Lemma line_sim l lineno ad a : clean_line l -> agree ad a -> in_file a ->
      sim (aux_line_step d fs l ad) (Aux.parse_line rec Aux.Capture (with_nl l) lineno a).
    Proof.
      intros Hl Ha [c0 Hc0]. unfold aux_line_step, Aux.parse_line. rewrite Hc0.
      rewrite (match_command_bridge l Hl).
      set (a1 := Aux.set_ctx a (Some (Aux.mkctx (Aux.c_file c0) (Some lineno) (Some (strip (with_nl l)))))).
      assert (Ha1 : agree ad a1) by (destruct Ha; constructor; auto).
      assert (Hin1 : in_file a1) by (eexists; reflexivity).
      destruct (Aux.match_command (with_nl l)) as [[cmd v]|]; cbn [option_map fst snd].
      2: { cbn. exists a1. auto. }
      destruct cmd; cbn [ren Aux.handle_command].
      - destruct (cite_keys_bridge (split_on s_comma v) ad a1 Ha1 Hin1) as (a2 & E2 & Hag2 & Hctx2).
        unfold Aux.handle_citation. change [c_comma] with s_comma. rewrite E2. unfold sim, handle_citation.
        exists a2. split; [reflexivity|]. split; [exact Hag2|]. destruct Hin1 as [c1 Hc1]. exists c1. congruence.
      - destruct (handle_bibdata_bridge v ad a1 Ha1 Hin1) as (a2 & E2 & Hag2 & Hctx2). rewrite E2. unfold sim.
        exists a2. split; [reflexivity|]. split; [exact Hag2|]. destruct Hin1 as [c1 Hc1]. exists c1. congruence.
      - destruct (handle_bibstyle_bridge v ad a1 Ha1 Hin1) as (a2 & E2 & Hag2 & Hctx2). rewrite E2. unfold sim.
        exists a2. split; [reflexivity|]. split; [exact Hag2|]. destruct Hin1 as [c1 Hc1]. exists c1. congruence.
      - pose proof (Hin v ad a1 Ha1 Hin1) as H. unfold input_step in H.
        destruct d as [|d']; [exact I|].
        destruct (fs_get fs v) as [[ls|p|f es|t]|]; try exact I.
        + destruct (aux_parse_lines d' fs ls ad) as [ad'| | |]; cbn in H |- *; auto.
          destruct H as (a' & E & Hag & Hc). exists a'. split; [exact E|]. split; [exact Hag|].
          eexists. exact Hc.
        + exact H.
    Qed.

    Lemma lines_sim : forall lines lineno ad a, Forall clean_line lines -> agree ad a -> in_file a ->
      sim (aux_parse_lines d fs lines ad) (Aux.parse_lines rec Aux.Capture (map with_nl lines) lineno a).
    Proof.
      induction lines as [|l r IH]; intros lineno ad a Hcl Ha Hi.
      - rewrite aux_parse_lines_nil. cbn. exists a. auto.
      - inversion Hcl as [|? ? Hl Hr]; subst. rewrite aux_parse_lines_cons. cbn [map Aux.parse_lines].
        pose proof (line_sim l lineno ad a Hl Ha Hi) as H.
        destruct (aux_line_step d fs l ad) as [ad1|c e| |]; cbn [bind]; cbn in H; auto.
        + destruct H as (a1 & E1 & Ha1 & Hi1). rewrite E1. cbn [Aux.obind]. apply IH; auto.
        + destruct H as (e' & s & E1). rewrite E1. cbn. eauto.
    Qed.
  End Depth.

  Lemma input_sim : forall d v ad a, agree ad a -> in_file a ->
    sim_in (input_step d v ad) (Aux.parse_file d afs Aux.Capture v false a) a.
  Proof.
    induction d as [|d IH]; intros v ad a Ha [c0 Hc0]; [exact I|].
    cbn [input_step Aux.parse_file]. pose proof (Hfs v) as Hv.
    destruct (fs_get fs v) as [[ls|p|f es|t]|]; try exact I.
    - destruct Hv as [Hcls Hafs]. rewrite Hafs, (lines_of_joined ls Hcls).
      set (a2 := Aux.set_ctx a (Some (Aux.mkctx v None None))).
      assert (Ha2 : agree ad a2) by (destruct Ha; constructor; auto).
      assert (Hin2 : in_file a2) by (eexists; reflexivity).
      pose proof (lines_sim d (IH) ls 1%nat ad a2 Hcls Ha2 Hin2) as H.
      destruct (aux_parse_lines d fs ls ad) as [ad1|c e| |]; cbn in H |- *; auto.
      + destruct H as (a3 & E3 & Hag3 & Hi3). rewrite E3. cbn [Aux.obind]. rewrite Hc0. cbn.
        eexists. split; [reflexivity|]. split; [|reflexivity]. destruct Hag3; constructor; auto.
      + destruct H as (e' & s & E3). rewrite E3. cbn. eauto.
    - rewrite Hv. cbn. eauto.
  Qed.

  (* the whole readers *)
  Theorem reader_sim d f :
    match aux_parse_file d fs f with
    | Ok ad => exists a, Aux.parse_aux (S d) afs Aux.Capture f = Aux.Ret a /\ agree ad a
    | PyErr _ _ => exists e s, Aux.parse_aux (S d) afs Aux.Capture f = Aux.Raise e s
    | OutOfFuel => True
    | Crash => False
    end.
  Proof.
    unfold aux_parse_file, Aux.parse_aux. cbn [Aux.parse_file]. pose proof (Hfs f) as Hf.
    destruct (fs_get fs f) as [[ls|p|g es|t]|]; try exact I.
    - destruct Hf as [Hcls Hafs]. rewrite Hafs, (lines_of_joined ls Hcls). cbn [Aux.a_ctx Aux.aux_init].
      set (a0 := Aux.set_ctx Aux.aux_init (Some (Aux.mkctx f None None))).
      assert (Ha0 : agree aux_init a0) by (constructor; reflexivity).
      assert (Hin0 : in_file a0) by (eexists; reflexivity).
      pose proof (lines_sim d (input_sim d) ls 1%nat aux_init a0 Hcls Ha0 Hin0) as H.
      destruct (aux_parse_lines d fs ls aux_init) as [ad| | |]; cbn [bind]; cbn in H; auto.
      + destruct H as (a1 & E1 & Hag & [c Hc]). rewrite E1. cbn [Aux.obind]. rewrite Hc. cbn [Aux.obind andb].
        destruct Hag as [H1 H2 H3 H4 H5].
        cbn [Aux.a_data Aux.a_style Aux.set_ctx]. rewrite H2, H1.
        destruct (ax_data ad) eqn:Ed; [|eauto]. destruct (ax_style ad) eqn:Es; [|eauto].
        eexists. split; [reflexivity|]. constructor; cbn; congruence.
      + destruct H as (e & s & E1). rewrite E1. cbn. eauto.
    - rewrite Hf. eauto.
  Qed.

  Lemma agree_unique ad ad' a : agree ad a -> agree ad' a -> ad = ad'.
  Proof.
    intros [H1 H2 H3 H4 H5] [K1 K2 K3 K4 K5]. destruct ad, ad'. cbn in *. congruence.
  Qed.

  (* the two directions, when the simplified reader does not decline *)
  Theorem reader_bridge d f ad : aux_parse_file d fs f <> OutOfFuel ->
    (aux_parse_file d fs f = Ok ad <-> exists a, Aux.parse_aux (S d) afs Aux.Capture f = Aux.Ret a /\ agree ad a).
  Proof.
    intros Hn. pose proof (reader_sim d f) as H. split.
    - intros E. now rewrite E in H.
    - intros (a & Ea & Hag). destruct (aux_parse_file d fs f) as [ad'|c l| |]; try contradiction.
      + destruct H as (a' & Ea' & Hag'). rewrite Ea in Ea'. inversion Ea'; subst. f_equal. eapply agree_unique; eauto.
      + destruct H as (e & s & E). congruence.
  Qed.
End Sim.

(* aux_equals_explicit about the real reader *)
Section Explicit.
  Variable fmt_name : str -> str -> res str.
  Variable cw : char -> Z.
  Variable fuel : nat.

  Theorem make_bibliography_real_reader fs afs aux style bf m a sty data :
    fs_rel fs afs -> aux_parse_file aux_depth fs aux <> OutOfFuel ->
    Aux.parse_aux (S aux_depth) afs Aux.Capture aux = Aux.Ret a ->
    Aux.a_data a = Some data ->
    (match style with Some s => Some s | None => Aux.a_style a end) = Some sty ->
    let fmt := match bf with Some f => f | None => 0%nat end in
    match format_from_files fmt_name cw fuel fs (map (fun n => BName (n ++ suffix_of fmt)) data) sty
                            (Some (Aux.a_cits a)) bf m None false with
    | Ok o => exists bbl, o = mkOut fs (Some bbl) (o_reports o) /\
              make_bibliography fmt_name cw fuel fs aux style bf m =
              Ok (mkOut (fs_write fs (splitext_root aux ++ s_bbl) bbl) None (length (Aux.a_errs a) + o_reports o))
    | PyErr c l => make_bibliography fmt_name cw fuel fs aux style bf m = PyErr c l
    | Crash => make_bibliography fmt_name cw fuel fs aux style bf m = Crash
    | OutOfFuel => make_bibliography fmt_name cw fuel fs aux style bf m = OutOfFuel
    end.
  Proof.
    intros Hfs Hn Ha Hd Hs fmt.
    pose proof (reader_sim fs afs Hfs aux_depth aux) as H.
    destruct (aux_parse_file aux_depth fs aux) as [ad|c l| |] eqn:E; try contradiction.
    - destruct H as (a' & Ea' & [H1 H2 H3 H4 H5]). rewrite Ha in Ea'. inversion Ea'; subst a'.
      rewrite H3, H5. rewrite H2 in Hd. rewrite H1 in Hs.
      exact (make_bibliography_explicit fmt_name cw fuel fs aux style bf m ad sty data E Hd Hs).
    - destruct H as (e & s & E'). congruence.
  Qed.
End Explicit.

(* the real reader's view of an abstract file system: the .aux files, as text *)
Definition afs_of (fs : fsys) (n : str) : option str :=
  match fs_get fs n with Some (FAux ls) => Some (joined ls) | _ => None end.
Lemma fs_rel_afs_of fs : (forall n ls, fs_get fs n = Some (FAux ls) -> Forall clean_line ls) -> fs_rel fs (afs_of fs).
Proof.
  intros H n. unfold afs_of. destruct (fs_get fs n) as [[ls|p|f es|t]|] eqn:E; auto.
  split; [eapply H; eauto|reflexivity].
Qed.
