(* Proofs/BackendsLatex.v -- LaTeX output: emitted braces are balanced and enclose the
   rendering of the children (property C09) *)
From Pybtex Require Import Base.Prelude Base.PyChar Base.PyStr Model.RtTypes Model.Backends
  Proofs.Backends.
Local Open Scope N_scope.

Definition is_brace (c : char) : bool := (c =? c_lbrace) || (c =? c_rbrace).
Definition skeleton (s : str) : str := filter is_brace s.

(* bal d s: the brace depth after s when starting at depth d; None = a closing brace without an opening one *)
Fixpoint bal (d : nat) (s : str) : option nat :=
  match s with
  | [] => Some d
  | c :: r =>
    if c =? c_lbrace then bal (S d) r
    else if c =? c_rbrace then match d with O => None | S d' => bal d' r end
    else bal d r
  end.
Definition balanced (s : str) : Prop := bal 0 s = Some 0%nat.
Definition balanced_b (s : str) : bool := match bal 0 s with Some O => true | _ => false end.

Lemma balanced_b_spec s : balanced_b s = true <-> balanced s.
Proof.
  unfold balanced_b, balanced. destruct (bal 0 s) as [[|n]|]; split; congruence.
Qed.

Lemma bal_app a : forall d b, bal d (a ++ b) = match bal d a with Some d' => bal d' b | None => None end.
Proof.
  induction a as [|c a IH]; intros d b; [reflexivity|].
  cbn [app bal]. destruct (c =? c_lbrace); [apply IH|].
  destruct (c =? c_rbrace); [|apply IH]. destruct d; [reflexivity|apply IH].
Qed.

Lemma bal_shift s : forall d d' k, bal d s = Some d' -> bal (d + k) s = Some (d' + k)%nat.
Proof.
  induction s as [|c s IH]; intros d d' k H.
  - cbn in *. injection H as <-. reflexivity.
  - cbn [bal] in *. destruct (c =? c_lbrace); [apply (IH (S d)); exact H|].
    destruct (c =? c_rbrace); [|apply IH; exact H].
    destruct d; [discriminate|]. cbn [Nat.add]. apply IH. exact H.
Qed.

Lemma balanced_at s d : balanced s -> bal d s = Some d.
Proof. intros H. apply (bal_shift s 0 0 d) in H. exact H. Qed.

Lemma bal_skeleton s : forall d, bal d (skeleton s) = bal d s.
Proof.
  induction s as [|c s IH]; intros d; [reflexivity|].
  cbn [skeleton filter bal]. unfold is_brace.
  destruct (c =? c_lbrace) eqn:E1; cbn [orb].
  - cbn [bal]. rewrite E1. apply IH.
  - destruct (c =? c_rbrace) eqn:E2.
    + cbn [bal]. rewrite E1, E2. destruct d; [reflexivity|apply IH].
    + apply IH.
Qed.

Lemma balanced_skeleton a b : skeleton a = skeleton b -> balanced a -> balanced b.
Proof. unfold balanced. intros E H. rewrite <- bal_skeleton, <- E, bal_skeleton. exact H. Qed.

Lemma balanced_nil : balanced [].
Proof. reflexivity. Qed.

Lemma balanced_app a b : balanced a -> balanced b -> balanced (a ++ b).
Proof. unfold balanced. intros Ha Hb. rewrite bal_app, Ha. exact Hb. Qed.

Lemma balanced_group x : balanced x -> balanced ([c_lbrace] ++ x ++ [c_rbrace]).
Proof.
  intros H. unfold balanced. cbn [app bal]. change (c_lbrace =? c_lbrace) with true. cbv iota.
  rewrite bal_app, (balanced_at x 1 H). reflexivity.
Qed.

Definition nobrace (s : str) : bool := forallb (fun c => negb (is_brace c)) s.
Lemma bal_nobrace s : forall d, nobrace s = true -> bal d s = Some d.
Proof.
  induction s as [|c s IH]; intros d H; [reflexivity|].
  cbn [nobrace forallb] in H. apply andb_prop in H as [H1 H2].
  unfold is_brace in H1. apply negb_true_iff in H1. apply orb_false_iff in H1 as [E1 E2].
  cbn [bal]. rewrite E1, E2. apply IH. exact H2.
Qed.
Lemma balanced_nobrace s : nobrace s = true -> balanced s.
Proof. apply bal_nobrace. Qed.

(* ---- the table-driven latexcodec encoder keeps the brace skeleton ---- *)
Definition enc_entry_ok (e : char * (str * bool)) : bool :=
  str_eqb (skeleton (fst (snd e))) (skeleton [fst e]).
Definition enc_table_ok (tab : enc_table) : bool := forallb enc_entry_ok tab.

Lemma enc_lookup_ok tab c : enc_table_ok tab = true -> skeleton (fst (enc_lookup c tab)) = skeleton [c].
Proof.
  induction tab as [|[c' v] r IH]; cbn [enc_lookup enc_table_ok forallb]; intros H; [reflexivity|].
  apply andb_prop in H as [H1 H2]. destruct (N.eqb_spec c c') as [->|Hne].
  - unfold enc_entry_ok in H1. cbn [fst snd] in H1.
    destruct (str_eqb_spec (skeleton (fst v)) (skeleton [c'])); [assumption|discriminate].
  - apply IH. exact H2.
Qed.

Lemma skeleton_app a b : skeleton (a ++ b) = skeleton a ++ skeleton b.
Proof. apply filter_app. Qed.

Lemma enc_go_skeleton tab : enc_table_ok tab = true -> forall s eating, skeleton (enc_go tab eating s) = skeleton s.
Proof.
  intros Hok. induction s as [|c s IH]; intros eating; [reflexivity|].
  cbn [enc_go]. pose proof (enc_lookup_ok tab c Hok) as Hl.
  destruct (enc_lookup c tab) as [bytes cw]. cbn [fst] in Hl.
  rewrite skeleton_app, IH.
  change (skeleton (c :: s)) with (skeleton ([c] ++ s)). rewrite skeleton_app. f_equal.
  destruct eating; [|exact Hl].
  destruct bytes as [|b0 b']; [exact Hl|].
  destruct (N.eqb_spec b0 32) as [->|Hne].
  - exact Hl.
  - assert (E : match b0 with 32 => [c_bslash; c_space] ++ b' | _ => c_space :: b0 :: b' end = c_space :: b0 :: b').
    { destruct b0 as [|p]; [reflexivity|].
      do 6 (destruct p as [p|p|]; try reflexivity). exfalso. apply Hne. reflexivity. }
    rewrite E. exact Hl.
Qed.

Lemma enc_tab_keeps_braces tab : enc_table_ok tab = true -> forall s, skeleton (enc_tab tab s) = skeleton s.
Proof. intros H s. apply enc_go_skeleton. exact H. Qed.

(* ---- balance of the rendering ---- *)
(* every string and URL of the tree is brace-balanced *)
Fixpoint lt_ok (t : rt) : bool :=
  match t with
  | RStr s => balanced_b s
  | RSym _ => true
  | RText ps | RProt ps => forallb lt_ok ps
  | RTag _ ps => forallb lt_ok ps
  | RHRef u _ ps => balanced_b u && forallb lt_ok ps
  end.

(* the back end's tables: symbols are balanced, tag commands contain no brace *)
Definition latex_tables_ok (T : tables) : bool :=
  forallb (fun p => balanced_b (snd p)) (t_symbols T) &&
  forallb (fun p => match snd p with Some tag => nobrace tag | None => true end) (t_tags T).

Lemma lookup_In' {V} n (tab : list (str * V)) v : lookup n tab = Some v -> exists k, In (k, v) tab.
Proof.
  induction tab as [|[k w] r IH]; cbn [lookup]; [discriminate|].
  destruct (str_eqb n k).
  - intros E. injection E as ->. exists k. left. reflexivity.
  - intros E. destruct (IH E) as [k' Hk]. exists k'. right. exact Hk.
Qed.

Section Latex.
Variable enc : str -> str.
Variable T : tables.
Hypothesis enc_keeps_braces : forall s, skeleton (enc s) = skeleton s.
Hypothesis HT : latex_tables_ok T = true.

Lemma latex_tag_balanced n x : balanced x -> balanced (format_tag T BLatex n x).
Proof.
  intros Hx. cbn [format_tag].
  assert (Hg : balanced (if is_empty x then [] else [c_lbrace] ++ x ++ [c_rbrace])).
  { destruct (is_empty x); [apply balanced_nil|apply balanced_group; exact Hx]. }
  destruct (lookup n (t_tags T)) as [[tag|]|] eqn:El; try exact Hg.
  destruct (is_empty x); [apply balanced_nil|].
  apply lookup_In' in El as [k Hk].
  unfold latex_tables_ok in HT. apply andb_prop in HT as [_ Htags].
  rewrite forallb_forall in Htags. specialize (Htags _ Hk). cbn [snd] in Htags.
  apply (balanced_app [c_bslash]); [reflexivity|].
  apply balanced_app; [apply balanced_nobrace; exact Htags|].
  apply balanced_group. exact Hx.
Qed.

Lemma latex_href_balanced u e x : balanced u -> balanced x -> balanced (format_href enc BLatex u x e).
Proof.
  intros Hu Hx. cbn [format_href]. destruct (is_empty x); [apply balanced_nil|].
  destruct (str_eqb x (enc u)).
  - apply (balanced_app (lit "\url")); [reflexivity|]. apply balanced_group. exact Hu.
  - apply (balanced_app (lit "\href")); [reflexivity|].
    apply balanced_app; [destruct e; reflexivity|].
    replace ([c_lbrace] ++ u ++ [c_rbrace; c_lbrace] ++ x ++ [c_rbrace])
      with (([c_lbrace] ++ u ++ [c_rbrace]) ++ ([c_lbrace] ++ x ++ [c_rbrace]))
      by (rewrite <- !app_assoc; reflexivity).
    apply balanced_app; apply balanced_group; assumption.
Qed.

Lemma latex_parts_balanced ps :
  Forall (fun t => forall out, lt_ok t = true -> render enc T BLatex t = Ok out -> balanced out) ps ->
  forall out, forallb lt_ok ps = true -> render_parts enc T BLatex ps = Ok out -> balanced out.
Proof.
  induction 1 as [|p r Hp Hr IH]; intros out Hn Hren.
  - cbn in Hren. injection Hren as <-. apply balanced_nil.
  - cbn [forallb] in Hn. apply andb_prop in Hn as [Hn1 Hn2].
    cbn [render_parts] in Hren.
    destruct (render enc T BLatex p) as [x| | |] eqn:Ex; try discriminate. cbn [bind] in Hren.
    destruct (render_parts enc T BLatex r) as [y| | |] eqn:Ey; try discriminate. cbn [bind] in Hren.
    injection Hren as <-. apply balanced_app; [apply Hp; auto|apply IH; auto].
Qed.

Lemma latex_balanced_holds t : forall out,
  lt_ok t = true -> render enc T BLatex t = Ok out -> balanced out.
Proof.
  induction t using rt_ind'; intros out Hn Hren; rewrite render_unfold in Hren.
  - injection Hren as <-. cbn [format_str lt_ok] in *.
    apply (balanced_skeleton s); [symmetry; apply enc_keeps_braces|]. apply balanced_b_spec. exact Hn.
  - destruct (lookup n (t_symbols T)) as [v|] eqn:El; [|discriminate]. injection Hren as <-.
    apply lookup_In' in El as [k Hk].
    unfold latex_tables_ok in HT. apply andb_prop in HT as [Hs _].
    rewrite forallb_forall in Hs. apply balanced_b_spec. apply (Hs (k, v) Hk).
  - cbn [lt_ok] in Hn. eapply latex_parts_balanced; eauto.
  - cbn [lt_ok] in Hn.
    destruct (render_parts enc T BLatex ps) as [x| | |] eqn:Ex; try discriminate. cbn [bind] in Hren.
    injection Hren as <-. apply latex_tag_balanced. eapply latex_parts_balanced; eauto.
  - cbn [lt_ok] in Hn. apply andb_prop in Hn as [Hn1 Hn2].
    destruct (render_parts enc T BLatex ps) as [x| | |] eqn:Ex; try discriminate. cbn [bind] in Hren.
    injection Hren as <-. apply latex_href_balanced; [apply balanced_b_spec; exact Hn1|].
    eapply latex_parts_balanced; eauto.
  - cbn [lt_ok] in Hn.
    destruct (render_parts enc T BLatex ps) as [x| | |] eqn:Ex; try discriminate. cbn [bind] in Hren.
    injection Hren as <-. cbn [format_protected]. apply balanced_group.
    eapply latex_parts_balanced; eauto.
Qed.

End Latex.

(* for the modelled latexcodec encoder with any table that keeps braces *)
Lemma latex_balanced_tab tab T t out :
  enc_table_ok tab = true -> latex_tables_ok T = true -> lt_ok t = true ->
  render (enc_tab tab) T BLatex t = Ok out -> balanced out.
Proof.
  intros Htab HT Ht. apply latex_balanced_holds; auto. apply enc_tab_keeps_braces. exact Htab.
Qed.

(* ---- the braces emitted for a node enclose exactly the rendering of its children ---- *)
Lemma is_empty_nil (x : str) : is_empty x = true -> x = [].
Proof. destruct x; [reflexivity|discriminate]. Qed.
Lemma is_empty_cons (x : str) : is_empty x = false -> x <> [].
Proof. destruct x; [discriminate|congruence]. Qed.

Lemma latex_tag_shape enc T n ps out :
  render enc T BLatex (RTag n ps) = Ok out ->
  exists body, render_parts enc T BLatex ps = Ok body /\
    (body = [] /\ out = [] \/
     body <> [] /\ exists cmd, out = cmd ++ [c_lbrace] ++ body ++ [c_rbrace] /\
       (cmd = [] /\ (lookup n (t_tags T) = None \/ lookup n (t_tags T) = Some None) \/
        exists tag, lookup n (t_tags T) = Some (Some tag) /\ cmd = c_bslash :: tag)).
Proof.
  rewrite render_unfold. destruct (render_parts enc T BLatex ps) as [x| | |]; try discriminate.
  cbn [bind]. intros H. injection H as <-. exists x. split; [reflexivity|].
  cbn [format_tag]. destruct (is_empty x) eqn:E.
  - left. split; [apply is_empty_nil; exact E|]. destruct (lookup n (t_tags T)) as [[tag|]|]; reflexivity.
  - right. split; [apply is_empty_cons; exact E|].
    destruct (lookup n (t_tags T)) as [[tag|]|] eqn:El.
    + exists (c_bslash :: tag). split; [reflexivity|]. right. exists tag. split; reflexivity.
    + exists []. split; [reflexivity|]. left. split; [reflexivity|right; reflexivity].
    + exists []. split; [reflexivity|]. left. split; [reflexivity|left; reflexivity].
Qed.

Lemma latex_prot_shape enc T ps out :
  render enc T BLatex (RProt ps) = Ok out ->
  exists body, render_parts enc T BLatex ps = Ok body /\ out = [c_lbrace] ++ body ++ [c_rbrace].
Proof.
  rewrite render_unfold. destruct (render_parts enc T BLatex ps) as [x| | |]; try discriminate.
  cbn [bind]. intros H. injection H as <-. exists x. split; reflexivity.
Qed.

Lemma latex_href_shape enc T u e ps out :
  render enc T BLatex (RHRef u e ps) = Ok out ->
  exists body, render_parts enc T BLatex ps = Ok body /\
    (body = [] /\ out = [] \/
     body <> [] /\
       (body = enc u /\ out = (lit "\url") ++ [c_lbrace] ++ u ++ [c_rbrace] \/
        body <> enc u /\
        out = (lit "\href") ++ (if e then (lit "[pdfnewwindow]") else []) ++
              ([c_lbrace] ++ u ++ [c_rbrace]) ++ ([c_lbrace] ++ body ++ [c_rbrace]))).
Proof.
  rewrite render_unfold. destruct (render_parts enc T BLatex ps) as [x| | |]; try discriminate.
  cbn [bind]. intros H. injection H as <-. exists x. split; [reflexivity|].
  cbn [format_href]. destruct (is_empty x) eqn:E.
  - left. split; [apply is_empty_nil; exact E|reflexivity].
  - right. split; [apply is_empty_cons; exact E|].
    destruct (str_eqb_spec x (enc u)) as [Eq|Ne].
    + left. split; [exact Eq|reflexivity].
    + right. split; [exact Ne|]. rewrite <- !app_assoc. reflexivity.
Qed.

(* the emitted opening brace is closed by the emitted closing brace and not earlier: inside a
   balanced body the group stays open at every position *)
Lemma group_stays_open body : balanced body ->
  forall p q, body = p ++ q -> exists k, bal 0 ([c_lbrace] ++ p) = Some (S k).
Proof.
  intros Hb p q ->. unfold balanced in Hb. rewrite bal_app in Hb.
  destruct (bal 0 p) as [k|] eqn:Ep; [|discriminate].
  exists k. cbn [app bal]. change (c_lbrace =? c_lbrace) with true. cbv iota.
  apply (bal_shift p 0 k 1) in Ep. cbn [Nat.add] in Ep. rewrite Nat.add_1_r in Ep. exact Ep.
Qed.

Lemma group_closes body : balanced body -> bal 0 ([c_lbrace] ++ body ++ [c_rbrace]) = Some 0%nat.
Proof. apply balanced_group. Qed.

Lemma group_matches body : balanced body ->
  (forall p q, body = p ++ q -> exists k, bal 0 ([c_lbrace] ++ p) = Some (S k)) /\
  bal 0 ([c_lbrace] ++ body ++ [c_rbrace]) = Some 0%nat.
Proof. intros H. split; [exact (group_stays_open body H)|exact (group_closes body H)]. Qed.
