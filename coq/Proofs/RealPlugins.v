(* Proofs/RealPlugins.v -- entry-point agreement stated per shipped plug-in (dispatch of
   Model/RealPlugins.v; the bodies are arbitrary). *)
From Pybtex Require Import Base.Prelude Base.PyChar Base.PyStr Model.Plugins Model.IO Model.EntryPoints
  Model.RealPlugins Proofs.EntryPoints Proofs.Utf8.

(* ---- BibTeX reader ---- *)
Lemma bibtex_entry_points_agree db body cd s b d :
  enc cd s = Some b -> dec cd b = Some s -> fdec cd b = FText s ->
  bibtex_parse_bytes db body cd b d = bibtex_parse_string db body s d /\
  bibtex_parse_file db body cd (FStream (SText s)) d = bibtex_parse_string db body s d /\
  bibtex_parse_file db body cd (FOpened b) d = bibtex_parse_string db body (universal_newlines s) d.
Proof.
  intros E D F. unfold bibtex_parse_bytes, bibtex_parse_file, bibtex_parse_string, bibtex_parse_stream,
    bibtex_unicode_io, parse_bytes, parse_file. rewrite D, F. auto.
Qed.
(* with the default encoding: for every text that can be encoded at all *)
Lemma bibtex_utf8_entry_points_agree db body s b d :
  enc codec_utf8 s = Some b ->
  bibtex_parse_bytes db body codec_utf8 b d = bibtex_parse_string db body s d /\
  bibtex_parse_file db body codec_utf8 (FStream (SText s)) d = bibtex_parse_string db body s d /\
  bibtex_parse_file db body codec_utf8 (FOpened b) d = bibtex_parse_string db body (universal_newlines s) d.
Proof. intros E. destruct (utf8_roundtrip s b E). now apply bibtex_entry_points_agree. Qed.

(* ---- YAML reader: a bytes plug-in sees the same bytes whatever the entry point; the codec only
   has to be able to encode the text ---- *)
Lemma yaml_reader_entry_points_agree db body cd s b d :
  enc cd s = Some b ->
  yaml_parse_bytes db body cd b d = yaml_parse_string db body cd s d /\
  yaml_parse_file db body cd (FStream (SBytes b)) d = yaml_parse_string db body cd s d /\
  yaml_parse_file db body cd (FOpened b) d = yaml_parse_string db body cd s d.
Proof.
  intros E. unfold yaml_parse_bytes, yaml_parse_file, yaml_parse_string, yaml_unicode_io,
    parse_bytes, parse_file, parse_string. rewrite E. auto.
Qed.

(* ---- BibTeXML reader: the overrides agree provided ElementTree parses a binary stream as it
   parses its content ---- *)
Lemma bibtexml_entry_points_agree db tree et_fromstring et_parse parse_tree cd s b d :
  (forall x, et_parse (SBytes x) = et_fromstring x) ->
  enc cd s = Some b ->
  xml_parse_string db tree et_fromstring parse_tree cd s d = xml_parse_bytes db tree et_fromstring parse_tree b d /\
  xml_parse_file db tree et_parse parse_tree cd (FStream (SBytes b)) d = xml_parse_bytes db tree et_fromstring parse_tree b d /\
  xml_parse_file db tree et_parse parse_tree cd (FOpened b) d = xml_parse_bytes db tree et_fromstring parse_tree b d.
Proof.
  intros H E. unfold xml_parse_string, xml_parse_file, xml_parse_stream, xml_parse_bytes, parse_file.
  rewrite E, H. auto.
Qed.

(* ---- BibTeX writer (a text plug-in) ---- *)
Lemma bibtex_to_bytes_is_encoded_to_string wd chunks cd d t :
  bibtex_to_string wd chunks cd d = Ok t ->
  bibtex_to_bytes wd chunks cd d = match enc cd t with Some b => Ok b | None => Crash end.
Proof. apply to_bytes_is_encoded_to_string. discriminate. Qed.
Lemma bibtex_write_file_partial wd chunks cd d :
  (chunks true d = Ok [] -> enc cd [] = Some []) ->
  bibtex_write_file wd chunks cd d WOpened
  = (do b <- bibtex_to_bytes wd chunks cd d; Ok (None, Some (SBytes b))).
Proof. intros H. apply write_file_writes_to_bytes_partial. intros _. exact H. Qed.

(* ---- BibTeXML writer: to_bytes is the XML declaration followed by the document, encoded;
   to_string is the document (stripped); a named file receives the to_bytes bytes ---- *)
Lemma utf8_charref_id s x : enc codec_utf8 s = Some x -> charref_replace codec_utf8 s = s.
Proof.
  revert x. induction s as [|c s IH]; intros x; [reflexivity|].
  cbn [enc codec_utf8 utf8_enc]. destruct (utf8_enc_char c) as [a|] eqn:Ec; [|discriminate].
  destruct (utf8_enc s) as [y|] eqn:Es; [|discriminate]. intros _.
  unfold charref_replace. cbn [map concat]. cbn [enc codec_utf8 utf8_enc]. rewrite Ec. cbn [app].
  f_equal. exact (IH y Es).
Qed.

Lemma bibtexml_to_bytes wd body cd encname d t b x :
  body d = Ok t ->
  charref_replace cd (xml_decl encname ++ t) = xml_decl encname ++ t ->
  enc cd (xml_decl encname ++ t) = Some b ->
  enc codec_utf8 t = Some x ->
  xml_to_string wd body d = Ok (strip t) /\
  xml_to_bytes wd body cd encname d = Ok b /\
  xml_write_file wd body cd encname d WOpened = Ok (None, Some (SBytes b)).
Proof.
  intros B C E U. unfold xml_to_string, xml_to_bytes, xml_write_file, to_bytes, to_string_or_bytes,
    write_file, xml_write_stream, xenc. rewrite B. cbn [bind].
  rewrite (utf8_charref_id t x U), U. destruct (utf8_roundtrip t x U) as [D _]. rewrite D.
  rewrite C, E. cbn. rewrite app_nil_r. auto.
Qed.
