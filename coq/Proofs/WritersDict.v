(* Proofs/WritersDict.v -- the case-insensitive ordered dictionaries, add_entry, lower (C02). *)
From Pybtex Require Import Base.Prelude Base.PyChar Base.PyStr Model.BibtexStr Model.Names Model.Scanner Model.BibParser Model.Writers.
Local Open Scope N_scope.

(* ---- well-formed databases: what the API can build (keys / field names / roles unique up to
   case, every role has a person) *)
Definition keys {V} (l : list (str * V)) : list str := map fst l.
Definition lkeys {V} (l : list (str * V)) : list str := map (fun kv => lower (fst kv)) l.
Definition wf_entry (e : wentry) : Prop :=
  NoDup (lkeys (we_fields e)) /\ NoDup (lkeys (we_persons e)) /\ Forall (fun rp => snd rp <> []) (we_persons e).
Definition wf_db (d : wdb) : Prop :=
  NoDup (map (fun e => lower (we_key e)) (wd_entries d)) /\ Forall wf_entry (wd_entries d).

(* identifiers mapped through f: keys, entry types, field names, roles; nothing else *)
Definition map_ids_entry (f : str -> str) (e : wentry) : wentry :=
  mkWE (f (we_key e)) (f (we_otype e)) (map (fun kv => (f (fst kv), snd kv)) (we_fields e))
       (map (fun rp => (f (fst rp), snd rp)) (we_persons e)).
Definition map_ids (f : str -> str) (d : wdb) : wdb := mkWDb (map (map_ids_entry f) (wd_entries d)) (wd_preamble d).

Lemma lower_idem s : lower (lower s) = lower s.
Proof. unfold lower. rewrite map_map. apply map_ext. intros; apply to_lower_idem. Qed.

Lemma str_eqb_eq a b : str_eqb a b = true <-> a = b.
Proof. destruct (str_eqb_spec a b); split; congruence. Qed.
Lemma str_eqb_neq a b : str_eqb a b = false <-> a <> b.
Proof. destruct (str_eqb_spec a b); split; congruence. Qed.

(* ---- od_set / ci_set on fresh keys append *)
Lemma od_set_fresh {V} k (v : V) l : ~ In k (keys l) -> od_set k v l = l ++ [(k, v)].
Proof.
  induction l as [|[k' v'] l IH]; cbn; [reflexivity|]. intros H.
  destruct (str_eqb_spec k k') as [->|_]; [exfalso; apply H; now left|].
  rewrite IH; [reflexivity|]. intros Hin; apply H; now right.
Qed.

Lemma ci_set_fresh {V} k (v : V) l : ~ In (lower k) (lkeys l) -> ci_set k v l = l ++ [(k, v)].
Proof.
  induction l as [|[k' v'] l IH]; cbn; [reflexivity|]. intros H.
  destruct (str_eqb_spec (lower k) (lower k')) as [E|_]; [exfalso; apply H; left; now rewrite E|].
  rewrite IH; [reflexivity|]. intros Hin; apply H; now right.
Qed.

Lemma fold_od_set_nodup {V} (l acc : list (str * V)) :
  NoDup (keys acc ++ keys l) ->
  fold_left (fun a kv => od_set (fst kv) (snd kv) a) l acc = acc ++ l.
Proof.
  revert acc; induction l as [|[k v] l IH]; intros acc H; cbn; [now rewrite app_nil_r|].
  rewrite od_set_fresh.
  - rewrite IH; [now rewrite <- app_assoc|].
    unfold keys in *. rewrite map_app; cbn. rewrite <- app_assoc. exact H.
  - intros Hin. cbn in H. apply NoDup_remove_2 in H. apply H. apply in_or_app; now left.
Qed.

Lemma od_of_pairs_nodup {V} (l : list (str * V)) : NoDup (keys l) -> od_of_pairs l = l.
Proof. intros H. unfold od_of_pairs. now rewrite fold_od_set_nodup. Qed.

Lemma fold_ci_set_nodup {V} (l acc : list (str * V)) :
  NoDup (lkeys acc ++ lkeys l) ->
  fold_left (fun a kv => ci_set (fst kv) (snd kv) a) l acc = acc ++ l.
Proof.
  revert acc; induction l as [|[k v] l IH]; intros acc H; cbn; [now rewrite app_nil_r|].
  rewrite ci_set_fresh.
  - rewrite IH; [now rewrite <- app_assoc|].
    unfold lkeys in *. rewrite map_app; cbn. rewrite <- app_assoc. exact H.
  - intros Hin. cbn in H. apply NoDup_remove_2 in H. apply H. apply in_or_app; now left.
Qed.

Lemma NoDup_map_inv' {X Y} (f : X -> Y) l : NoDup (map f l) -> NoDup l.
Proof.
  induction l as [|x l IH]; cbn; intros H; [constructor|].
  inversion H as [|? ? Hn Hd]; subst. constructor; [|auto].
  intros Hin; apply Hn. now apply in_map.
Qed.

Lemma lkeys_nodup_keys {V} (l : list (str * V)) : NoDup (lkeys l) -> NoDup (keys l).
Proof.
  unfold lkeys, keys. intros H.
  replace (map (fun kv : str * V => lower (fst kv)) l) with (map lower (map fst l)) in H by (now rewrite map_map).
  now apply NoDup_map_inv' in H.
Qed.

Lemma ci_of_pairs_nodup {V} (l : list (str * V)) : NoDup (lkeys l) -> ci_of_pairs l = l.
Proof.
  intros H. unfold ci_of_pairs. rewrite od_of_pairs_nodup by now apply lkeys_nodup_keys.
  now rewrite fold_ci_set_nodup.
Qed.

Lemma lkeys_map_lower {V} (l : list (str * V)) : lkeys (map (fun kv => (lower (fst kv), snd kv)) l) = lkeys l.
Proof. unfold lkeys. rewrite map_map. apply map_ext. intros [k v]; cbn. apply lower_idem. Qed.

Lemma ci_lower_nodup {V} (l : list (str * V)) : NoDup (lkeys l) ->
  ci_lower l = map (fun kv => (lower (fst kv), snd kv)) l.
Proof. intros H. unfold ci_lower. apply ci_of_pairs_nodup. now rewrite lkeys_map_lower. Qed.

(* ---- add_entries_strict on keys that are new appends *)
Lemma has_key_false k es : ~ In (lower k) (map (fun e => lower (we_key e)) es) -> has_key k es = false.
Proof.
  unfold has_key. induction es as [|e es IH]; cbn; [reflexivity|]. intros H.
  destruct (str_eqb_spec (lower (we_key e)) (lower k)) as [E|_]; [exfalso; apply H; now left|].
  cbn. apply IH. intros Hin; apply H; now right.
Qed.

Definition rekey (e : wentry) : wentry := mkWE (we_key e) (we_otype e) (we_fields e) (we_persons e).
Lemma rekey_id e : rekey e = e. Proof. now destruct e. Qed.

Lemma add_entries_nodup l : forall es,
  NoDup (map (fun e => lower (we_key e)) es ++ map (fun e => lower (we_key e)) l) ->
  add_entries_strict l es = Ok (es ++ l).
Proof.
  induction l as [|e l IH]; intros es H; cbn; [now rewrite app_nil_r|].
  unfold add_entry_strict. rewrite has_key_false.
  - cbn. fold (rekey e). rewrite rekey_id. rewrite IH; [now rewrite <- app_assoc|].
    rewrite map_app; cbn. rewrite <- app_assoc. exact H.
  - intros Hin. cbn in H. apply NoDup_remove_2 in H. apply H. apply in_or_app; now left.
Qed.

(* ---- lower *)
Lemma lower_entry_wf e : wf_entry e -> lower_entry e = map_ids_entry lower e.
Proof.
  intros (Hf & Hp & _). unfold lower_entry, map_ids_entry.
  rewrite lower_idem.
  rewrite (ci_lower_nodup _ Hf), (ci_lower_nodup _ Hp).
  rewrite !ci_of_pairs_nodup by now rewrite lkeys_map_lower.
  reflexivity.
Qed.

Lemma lower_only_case_pf d : wf_db d -> lower_db d = Ok (map_ids lower d).
Proof.
  intros [Hk He]. unfold lower_db, map_ids.
  assert (E : map lower_entry (wd_entries d) = map (map_ids_entry lower) (wd_entries d)).
  { apply map_ext_in. intros e Hin. apply lower_entry_wf. rewrite Forall_forall in He. now apply He. }
  rewrite E. rewrite add_entries_nodup; [reflexivity|].
  cbn. rewrite map_map. cbn.
  erewrite map_ext; [exact Hk|]. intros e; cbn. apply lower_idem.
Qed.

Lemma map_ids_lower_wf d : wf_db d -> wf_db (map_ids lower d).
Proof.
  intros [Hk He]. split; cbn.
  - rewrite map_map; cbn. erewrite map_ext; [exact Hk|]. intros; apply lower_idem.
  - rewrite Forall_map. eapply Forall_impl; [|exact He]. intros e (Hf & Hp & Hn). repeat split; cbn.
    + change (NoDup (lkeys (map (fun kv : str * str => (lower (fst kv), snd kv)) (we_fields e)))). now rewrite lkeys_map_lower.
    + change (NoDup (lkeys (map (fun kv : str * list person => (lower (fst kv), snd kv)) (we_persons e)))). now rewrite lkeys_map_lower.
    + rewrite Forall_map. eapply Forall_impl; [|exact Hn]. auto.
Qed.

Lemma map_ids_lower_idem d : map_ids lower (map_ids lower d) = map_ids lower d.
Proof.
  unfold map_ids; cbn. f_equal. rewrite map_map. apply map_ext. intros e.
  unfold map_ids_entry; cbn. rewrite !lower_idem, !map_map; cbn. f_equal; apply map_ext; intros [k v]; cbn; now rewrite lower_idem.
Qed.

Lemma lower_idempotent_pf d : wf_db d ->
  exists d', lower_db d = Ok d' /\ lower_db d' = Ok d'.
Proof.
  intros H. exists (map_ids lower d). split; [now apply lower_only_case_pf|].
  rewrite lower_only_case_pf by now apply map_ids_lower_wf. now rewrite map_ids_lower_idem.
Qed.
