(* Proofs/StylesEmit.v -- bibliography-level corollaries: live leaves appear in every formatted entry;
   alpha labels of a bibliography (property C07). *)
From Pybtex Require Import Base.Prelude Base.PyChar Base.PyStr Model.RtTypes Model.Citations Model.Template Model.Styles
  Proofs.Template Proofs.TemplateEmit Proofs.Styles.
Require Import Coq.Sorting.Permutation.

Lemma Forall2_in_r {X Y} (R : X -> Y -> Prop) l l' y : Forall2 R l l' -> In y l' -> exists x, In x l /\ R x y.
Proof.
  induction 1 as [|a b l l' Hab HF IH]; [contradiction|]. intros [->|Hin].
  - exists a; split; [now left|exact Hab].
  - destruct (IH Hin) as (x & Hx & Hr). exists x; split; [now right|exact Hr].
Qed.

(* every formatted entry of a produced bibliography is the evaluation of its entry's template, and
   every live leaf of that template appears in its text up to case *)
Lemma bibliography_emits_leaves_lemma cf tbl tp db cites out x :
  format_bibliography cf tbl tp db cites = TOk out -> In x out ->
  exists e t,
    In e (entries_of db (fst (resolved db cites (cf_mincross cf)))) /\ fe_key x = e_key e /\
    template_of tp e = Some t /\
    eval_top (mkC e (Some db) tbl (cf_names cf) (cf_abbr cf)) t = TOk (fe_text x) /\
    forall f, live (mkC e (Some db) tbl (cf_names cf) (cf_abbr cf)) t f -> infix (chars f) (chars (fe_text x)).
Proof.
  intros H Hin. apply format_bibliography_ok in H as (_ & _ & labels & _ & _ & _ & HF).
  destruct (Forall2_in_r _ _ _ _ HF Hin) as (e & He & Hk & t & Ht & Hev).
  exists e, t. split; [|split; [exact Hk|split; [exact Ht|split; [exact Hev|]]]].
  - eapply Permutation_in; [apply Permutation_sym, sort_entries_perm|exact He].
  - intros f Hl. unfold eval_top in Hev. apply tbind_ok in Hev as (v & Hv & Hv'). inversion Hv' as [Hx].
    eapply eval_emits_leaves_lemma; eauto.
Qed.

(* label style alpha: the labels of a bibliography are the base labels of the entries in output order,
   disambiguated *)
Lemma alpha_labels_of_bibliography_lemma cf tbl tp db cites out :
  cf_label cf = LAlpha -> format_bibliography cf tbl tp db cites = TOk out ->
  exists sorted bases,
    map fe_key out = map e_key sorted /\ mapR format_label sorted = Ok bases /\
    map fe_label out = disambiguate bases.
Proof.
  intros Hl H. apply format_bibliography_ok in H as (_ & _ & labels & Hlab & Hkeys & Hlabels & _).
  rewrite Hl in Hlab. cbn in Hlab. unfold alpha_labels in Hlab.
  destruct (mapR format_label _) as [bases| | |] eqn:E; cbn in Hlab; try discriminate.
  inversion Hlab as [Hd]. eexists _, bases. split; [exact Hkeys|]. split; [exact E|]. now rewrite Hlabels.
Qed.
