(* Proofs/BibStable.v -- C10: character-level compositionality of the reader (capture mode).
   If the reading of a text p never touches the end of p (the scanner never stands at the end
   of p and no 'premature end of file' is reported), then for every y the reading of p ++ y
   starts exactly as the reading of p and continues on y from the state p left. *)
From Pybtex Require Import Base.Prelude Base.PyChar Base.PyStr Model.BibtexStr Model.Names
  Model.Scanner Model.BibParser Proofs.Scanner.
Local Open Scope N_scope.

Definition app_sc (c : sc) (y : str) : sc := mkSc (sc_rest c ++ y) (sc_line c) (sc_pos c).
Definition app (s : pst) (y : str) : pst :=
  mkP (app_sc (p_sc s) y) (p_macros s) (p_errs s) (p_key s) (p_fields s) (p_fname s) (p_value s) (p_cstart s).
Definition lift {A} (y : str) (r : out A) : out A :=
  match r with Ret a s => Ret a (app s y) | Exc e s => Exc e (app s y) | Fatal f => Fatal f end.

Definition has_eof (l : list err) : Prop := exists e, In e l /\ e_cls e = E_EOF.
(* the reading has touched the end of the text *)
Definition T (s : pst) : Prop := sc_rest (p_sc s) = [] \/ has_eof (p_errs s).
Definition TR {A} (r : out A) : Prop :=
  match r with Ret _ s => T s | Exc e s => T s \/ e_cls e = E_EOF | Fatal _ => True end.
(* f is stable under appending text, unless it touches the end *)
Definition P {A} (f : pst -> out A) : Prop :=
  forall s, (T s -> TR (f s)) /\ (forall y, f (app s y) = lift y (f s) \/ TR (f s)).

Lemma P_bind {A B} (g : pst -> out A) (k : A -> pst -> out B) :
  P g -> (forall a, P (k a)) -> P (fun s => g s >>= k).
Proof.
  intros Hg Hk s. destruct (Hg s) as [G1 G2]. split.
  - intros Ht. specialize (G1 Ht). destruct (g s) as [a s1|e s1|f]; cbn in *; auto. apply (proj1 (Hk a s1) G1).
  - intros y. destruct (G2 y) as [E|Tg].
    + rewrite E. destruct (g s) as [a s1|e s1|f]; cbn; auto. apply (proj2 (Hk a s1) y).
    + right. destruct (g s) as [a s1|e s1|f]; cbn in *; auto. apply (proj1 (Hk a s1) Tg).
Qed.

Lemma P_ret {A} (h : pst -> A) (u : pst -> pst) :
  (forall s y, u (app s y) = app (u s) y) -> (forall s y, h (app s y) = h s) -> (forall s, T s -> T (u s)) ->
  P (fun s => Ret (h s) (u s)).
Proof. intros H1 H2 H3 s. split; [cbn; auto|]. intros y. left. cbn. rewrite H1, H2. reflexivity. Qed.

(* state transformers that leave scanner and errors alone *)
Definition frame (u : pst -> pst) : Prop :=
  (forall s y, u (app s y) = app (u s) y) /\ (forall s, p_sc (u s) = p_sc s /\ p_errs (u s) = p_errs s).
Lemma frame_T u : frame u -> forall s, T s -> T (u s).
Proof. intros [_ H] s Ht. destruct (H s) as [H1 H2]. unfold T. rewrite H1, H2. exact Ht. Qed.

(* ---- primitives *)
Lemma span_app_stable p r y a b : span p r = (a, b) -> b <> [] -> span p (r ++ y) = (a, b ++ y).
Proof.
  revert a b. induction r as [|c t IH]; intros a b H Hb; cbn in H.
  - injection H as <- <-. congruence.
  - cbn. destruct (p c) eqn:E.
    + destruct (span p t) as [a' b'] eqn:Es. injection H as <- <-. rewrite (IH a' b' eq_refl Hb). reflexivity.
    + injection H as <- <-. reflexivity.
Qed.

Lemma nonempty_span_stable p r y : r <> [] ->
  match nonempty_span p r with
  | Some (v, r') => r' = [] \/ nonempty_span p (r ++ y) = Some (v, r' ++ y)
  | None => nonempty_span p (r ++ y) = None
  end.
Proof.
  intros Hr. unfold nonempty_span. destruct (span p r) as [a b] eqn:Es.
  destruct a as [|x a'].
  - destruct r as [|c t]; [congruence|]. cbn in Es. destruct (p c) eqn:E; [destruct (span p t); discriminate|].
    cbn. rewrite E. reflexivity.
  - destruct b as [|b0 b']; [left; reflexivity|]. right. rewrite (span_app_stable p r y _ _ Es ltac:(discriminate)). reflexivity.
Qed.

Lemma match_pat_stable p r y : r <> [] ->
  match match_pat p r with
  | Some (v, r') => r' = [] \/ match_pat p (r ++ y) = Some (v, r' ++ y)
  | None => match_pat p (r ++ y) = None
  end.
Proof.
  intros Hr. destruct p; cbn [match_pat]; try (apply nonempty_span_stable; exact Hr).
  - destruct r as [|c t]; [congruence|]. rewrite <- app_comm_cons. destruct (is_name_start c); [|reflexivity].
    destruct (span is_name_char t) as [a b] eqn:Es. destruct b as [|b0 b']; [left; reflexivity|].
    right. rewrite (span_app_stable _ t y _ _ Es ltac:(discriminate)). reflexivity.
  - destruct r as [|x t]; [congruence|]. rewrite <- app_comm_cons. destruct (x =? c); [|reflexivity].
    destruct t; [left; reflexivity|right; reflexivity].
Qed.

Lemma first_match_stable ps r y : r <> [] ->
  match first_match ps r with
  | Some (p, v, r') => r' = [] \/ first_match ps (r ++ y) = Some (p, v, r' ++ y)
  | None => first_match ps (r ++ y) = None
  end.
Proof.
  intros Hr. induction ps as [|p ps IH]; cbn [first_match]; [reflexivity|].
  pose proof (match_pat_stable p r y Hr) as Hm. destruct (match_pat p r) as [[v r']|].
  - destruct Hm as [->|Hm]; [left; reflexivity|right; rewrite Hm; reflexivity].
  - rewrite Hm. exact IH.
Qed.

Lemma get_token_stable ps c y : let (t, c') := get_token ps c in
  sc_rest c' = [] \/ get_token ps (app_sc c y) = (t, app_sc c' y).
Proof.
  unfold get_token, eat_whitespace. cbn [app_sc sc_rest sc_line sc_pos].
  destruct (span is_space (sc_rest c)) as [w r] eqn:Es.
  destruct r as [|x r'].
  - cbn. left. reflexivity.
  - rewrite (span_app_stable _ _ y _ _ Es ltac:(discriminate)). cbn [advance sc_rest app].
    pose proof (first_match_stable ps (x :: r') y ltac:(discriminate)) as Hf. cbn [app] in Hf.
    destruct (first_match ps (x :: r')) as [[[p v] r2]|].
    + destruct Hf as [->|Hf]; [left; reflexivity|]. right. rewrite Hf. reflexivity.
    + right. rewrite Hf. reflexivity.
Qed.

Lemma get_token_rest_nil ps c : sc_rest c = [] -> get_token ps c = (TokEOF, advance c [] []).
Proof. intros H. unfold get_token, eat_whitespace. rewrite H. reflexivity. Qed.

Lemma set_sc_app s c y : set_sc (app s y) (app_sc c y) = app (set_sc s c) y.
Proof. reflexivity. Qed.

Lemma P_required ps : P (required ps).
Proof.
  intros s. split.
  - intros [Hn|He]; unfold required.
    + rewrite (get_token_rest_nil ps _ Hn). cbn. right. reflexivity.
    + destruct (get_token ps (p_sc s)) as [[| |p v] c']; cbn [TR]; [left; right; exact He|left; right; exact He|right; exact He].
  - intros y. unfold required. pose proof (get_token_stable ps (p_sc s) y) as Hg.
    destruct (get_token ps (p_sc s)) as [t c'] eqn:Eg.
    destruct Hg as [Hn|Hg].
    + right. destruct t; cbn; [left; left; exact Hn|left; left; exact Hn|left; exact Hn].
    + left. cbn [app p_sc]. rewrite Hg. destruct t; reflexivity.
Qed.

Lemma P_optional ps : P (optional ps).
Proof.
  intros s. split.
  - intros [Hn|He]; unfold optional.
    + rewrite (get_token_rest_nil ps _ Hn). cbn. right. reflexivity.
    + destruct (get_token ps (p_sc s)) as [[| |p v] c']; cbn [TR]; [left; right; exact He|right; exact He|right; exact He].
  - intros y. unfold optional. pose proof (get_token_stable ps (p_sc s) y) as Hg.
    destruct (get_token ps (p_sc s)) as [t c'] eqn:Eg.
    destruct Hg as [Hn|Hg].
    + right. destruct t; cbn; [left; left; exact Hn|left; exact Hn|left; exact Hn].
    + left. cbn [app p_sc]. rewrite Hg. destruct t; reflexivity.
Qed.

From Pybtex Require Import Proofs.BibStrict.

Lemma P_ext {A} (f g : pst -> out A) : (forall s, f s = g s) -> P g -> P f.
Proof. intros H Hg s. destruct (Hg s) as [H1 H2]. rewrite H. split; [exact H1|]. intros y. rewrite H. apply H2. Qed.

Lemma find_first_app_stable p r y v d r' : find_first p r = Some (v, d, r') -> find_first p (r ++ y) = Some (v, d, r' ++ y).
Proof.
  revert v d r'. induction r as [|c t IH]; intros v d r' H; cbn in H; [discriminate|]. cbn.
  destruct (p c); [injection H as <- <- <-; reflexivity|].
  destruct (find_first p t) as [[[v0 d0] r0]|]; [|discriminate]. injection H as <- <- <-.
  rewrite (IH _ _ _ eq_refl). reflexivity.
Qed.

Lemma skip_to_stable p c y v d c' : skip_to p c = Some (v, d, c') -> skip_to p (app_sc c y) = Some (v, d, app_sc c' y).
Proof.
  unfold skip_to. cbn [app_sc sc_rest]. destruct (find_first p (sc_rest c)) as [[[v0 d0] r0]|] eqn:E; [|discriminate].
  intros H. injection H as <- <- <-. rewrite (find_first_app_stable _ _ y _ _ _ E). reflexivity.
Qed.

Lemma skip_to_nil p c : sc_rest c = [] -> skip_to p c = None.
Proof. unfold skip_to. intros ->. reflexivity. Qed.

Lemma T_set_sc_errs s s' : p_errs s' = p_errs s -> has_eof (p_errs s) -> T s'.
Proof. intros H He. right. rewrite H. exact He. Qed.

Lemma P_pstring fuel : forall q level acc, P (pstring fuel q level acc).
Proof.
  induction fuel as [|f IH]; intros q level acc s.
  - split; [intros; exact I|]. intros y. left. reflexivity.
  - split.
    + intros Ht. pose proof (pstring_agrees (S f) q level acc s) as Ha.
      destruct Ht as [Hn|He].
      * cbn [pstring]. rewrite (skip_to_nil _ _ Hn). cbn. right. reflexivity.
      * destruct (pstring (S f) q level acc s) as [a s'|e s'|x]; cbn in Ha |- *; auto; destruct Ha as [_ Ha].
        -- eapply T_set_sc_errs; eauto.
        -- left. eapply T_set_sc_errs; eauto.
    + intros y. cbn [pstring]. cbn [app p_sc].
      destruct (skip_to _ (p_sc s)) as [[[v c] c']|] eqn:Es.
      * rewrite (skip_to_stable _ _ y _ _ _ Es). rewrite set_sc_app.
        destruct (c =? c_quote); [left; reflexivity|].
        destruct (is_lbrace c).
        -- destruct (Nat.ltb nest_limit (S level)); [left; reflexivity|]. apply (proj2 (IH q (S level) (acc ++ v) (set_sc s c')) y).
        -- destruct level; [destruct q; left; reflexivity|]. apply (proj2 (IH q level (acc ++ v) (set_sc s c')) y).
      * right. cbn. right. reflexivity.
Qed.

Lemma pstring_fuel n : forall k q level acc s, pstring n q level acc s <> Fatal FFuel -> pstring (n + k)%nat q level acc s = pstring n q level acc s.
Proof.
  induction n as [|n IH]; intros k q level acc s H; [cbn in H; congruence|]. cbn [plus pstring] in *.
  destruct (skip_to _ (p_sc s)) as [[[v c] c']|]; [|reflexivity].
  destruct (c =? c_quote); [reflexivity|].
  destruct (is_lbrace c).
  - destruct (Nat.ltb nest_limit (S level)); [reflexivity|]. apply IH. exact H.
  - destruct level; [reflexivity|]. apply IH. exact H.
Qed.

Lemma len_app s y : length (sc_rest (p_sc (app s y))) = (length (sc_rest (p_sc s)) + length y)%nat.
Proof. cbn. apply app_length. Qed.

Lemma P_fuel {A} (F : nat -> pst -> out A) :
  (forall n, P (F n)) -> (forall n k s, F n s <> Fatal FFuel -> F (n + k)%nat s = F n s) ->
  P (fun s => F (S (length (sc_rest (p_sc s)))) s).
Proof.
  intros HP Hm s. split; [apply (proj1 (HP _ s))|]. intros y. rewrite len_app.
  set (n := S (length (sc_rest (p_sc s)))).
  change (S (length (sc_rest (p_sc s)) + length y)%nat) with (n + length y)%nat.
  destruct (F n s) as [a s'|e s'|[c l| |]] eqn:E.
  - rewrite <- E. rewrite <- (Hm n (length y) s) by congruence. apply (proj2 (HP _ s) y).
  - rewrite <- E. rewrite <- (Hm n (length y) s) by congruence. apply (proj2 (HP _ s) y).
  - rewrite <- E. rewrite <- (Hm n (length y) s) by congruence. apply (proj2 (HP _ s) y).
  - rewrite <- E. rewrite <- (Hm n (length y) s) by congruence. apply (proj2 (HP _ s) y).
  - right. exact I.
Qed.

Lemma add_err_app s e y : add_err (app s y) e = app (add_err s e) y.
Proof. reflexivity. Qed.
Lemma T_add_err s e : T s \/ e_cls e = E_EOF -> T (add_err s e).
Proof.
  intros [[Hn|(e0 & Hi & Hc)]|Hc].
  - left. exact Hn.
  - right. exists e0. split; [cbn; apply in_or_app; left; exact Hi|exact Hc].
  - right. exists e. split; [cbn; apply in_or_app; right; left; reflexivity|exact Hc].
Qed.

Lemma P_handle (mk : pst -> err) : (forall s y, mk (app s y) = mk s) -> P (fun s => handle_error Capture (mk s) s).
Proof.
  intros Hmk s. split.
  - intros Ht. cbn. apply T_add_err. left. exact Ht.
  - intros y. left. cbn. rewrite Hmk. reflexivity.
Qed.

Lemma mk_err_app cls s y : mk_err cls (app s y) = mk_err cls s.
Proof. reflexivity. Qed.

Lemma P_substitute name : P (substitute_macro Capture name).
Proof.
  intros s. unfold substitute_macro. cbn [app p_macros].
  destruct (assoc_get (lower name) (p_macros s)).
  - split; [cbn; auto|]. intros y. left. reflexivity.
  - split.
    + intros Ht. cbn. apply T_add_err. left. exact Ht.
    + intros y. left. reflexivity.
Qed.

Lemma P_value_part : P (parse_value_part Capture).
Proof.
  unfold parse_value_part. apply P_bind; [apply P_required|]. intros tk.
  destruct (fst tk); try apply P_substitute.
  - apply (P_ret (fun _ => snd tk) (fun s => s)); auto.
  - apply (P_bind (fun s1 => pstring (S (length (sc_rest (p_sc s1)))) (c =? c_quote) 0 [] s1)).
    + apply (P_fuel (fun n => pstring n (c =? c_quote) 0 [])); [intros; apply P_pstring|intros; apply pstring_fuel; assumption].
    + intros acc. apply (P_ret (fun _ => removelast acc) (fun s => s)); auto.
Qed.

Lemma P_value_loop fuel : forall parts, P (parse_value_loop fuel Capture parts).
Proof.
  induction fuel as [|f IH]; intros parts.
  - intros s. split; [intros; exact I|]. intros y. left. reflexivity.
  - cbn [parse_value_loop]. apply P_bind; [apply P_value_part|]. intros part.
    apply P_bind; [apply P_optional|]. intros h. destruct h; [apply IH|].
    apply (P_ret (fun _ => parts ++ [part]) (fun s => s)); auto.
Qed.

Lemma value_loop_fuel n : forall k parts s, parse_value_loop n Capture parts s <> Fatal FFuel ->
  parse_value_loop (n + k)%nat Capture parts s = parse_value_loop n Capture parts s.
Proof.
  induction n as [|n IH]; intros k parts s H; [cbn in H; congruence|]. cbn [plus parse_value_loop] in *.
  destruct (parse_value_part Capture s) as [part s1|e s1|x]; cbn [obind] in *; try reflexivity.
  destruct (optional [P_LIT c_hash] s1) as [h s2|e s2|x]; cbn [obind] in *; try reflexivity.
  destruct h; [|reflexivity]. apply IH. exact H.
Qed.

Lemma set_value_app s v y : set_value (app s y) v = app (set_value s v) y. Proof. reflexivity. Qed.

Lemma T_same s s' : p_sc s' = p_sc s -> p_errs s' = p_errs s -> T s -> T s'.
Proof. intros H1 H2. unfold T. rewrite H1, H2. auto. Qed.

Lemma P_value : P (parse_value Capture).
Proof.
  unfold parse_value.
  apply (P_bind (fun s => parse_value_loop (S (length (sc_rest (p_sc s)))) Capture [] s)).
  - apply (P_fuel (fun n => parse_value_loop n Capture [])); [intros; apply P_value_loop|intros; apply value_loop_fuel; assumption].
  - intros parts. apply (P_ret (fun _ => tt) (fun s => set_value s parts)); auto; intros s; apply T_same; reflexivity.
Qed.

Lemma P_pre {A} (u : pst -> pst) (g : pst -> out A) : frame u -> P g -> P (fun s => g (u s)).
Proof.
  intros Hu Hg s. destruct (Hg (u s)) as [G1 G2]. split.
  - intros Ht. apply G1. apply (frame_T u Hu s Ht).
  - intros y. rewrite (proj1 Hu s y). apply G2.
Qed.

Lemma frame_set_fname x : frame (fun s => set_fname s x). Proof. split; intros; [reflexivity|split; reflexivity]. Qed.
Lemma frame_set_key x : frame (fun s => set_key s x). Proof. split; intros; [reflexivity|split; reflexivity]. Qed.
Lemma frame_reset_field : frame (fun s => set_value (set_fname s None) []). Proof. split; intros; [reflexivity|split; reflexivity]. Qed.
Lemma frame_reset_cmd : frame (fun s => set_value (set_fname (set_fields (set_key s None) []) None) []).
Proof. split; intros; [reflexivity|split; reflexivity]. Qed.
Definition push_field (s1 : pst) : pst :=
  match p_fname s1, p_value s1 with
  | Some n, _ :: _ => set_fields s1 (p_fields s1 ++ [(n, p_value s1)])
  | _, _ => s1
  end.
Lemma frame_push_field : frame push_field.
Proof.
  split.
  - intros s y. unfold push_field. cbn [app p_fname p_value p_fields]. destruct (p_fname s); [destruct (p_value s)|]; reflexivity.
  - intros s. unfold push_field. destruct (p_fname s); [destruct (p_value s)|]; split; reflexivity.
Qed.

Lemma P_field : P (parse_field Capture).
Proof.
  unfold parse_field. apply P_bind; [apply P_optional|]. intros name.
  destruct name as [tk|]; [|apply (P_ret (fun _ => tt) (fun s => s)); auto].
  apply (P_pre (fun s => set_fname s (Some (snd tk))) (fun s2 => required [P_LIT 61] s2 >>= fun _ s3 => parse_value Capture s3)).
  - apply frame_set_fname.
  - apply P_bind; [apply P_required|]. intros _. apply P_value.
Qed.

Lemma entry_fields_unfold f s : parse_entry_fields (S f) Capture s =
  parse_field Capture (set_value (set_fname s None) []) >>= fun _ s1 =>
  optional [P_LIT c_comma] (push_field s1) >>= fun comma s3 =>
  match comma with None => Ret tt s3 | Some _ => parse_entry_fields f Capture s3 end.
Proof. reflexivity. Qed.

Lemma P_entry_fields fuel : P (parse_entry_fields fuel Capture).
Proof.
  induction fuel as [|f IH].
  - intros s. split; [intros; exact I|]. intros y. left. reflexivity.
  - eapply P_ext; [intros s; apply entry_fields_unfold|].
    apply (P_pre (fun s => set_value (set_fname s None) [])
                 (fun s0 => parse_field Capture s0 >>= fun _ s1 => optional [P_LIT c_comma] (push_field s1) >>= fun comma s3 =>
                            match comma with None => Ret tt s3 | Some _ => parse_entry_fields f Capture s3 end)).
    + apply frame_reset_field.
    + apply P_bind; [apply P_field|]. intros _.
      apply (P_pre push_field (fun s2 => optional [P_LIT c_comma] s2 >>= fun comma s3 =>
                                 match comma with None => Ret tt s3 | Some _ => parse_entry_fields f Capture s3 end)).
      * apply frame_push_field.
      * apply P_bind; [apply P_optional|]. intros comma. destruct comma; [exact IH|apply (P_ret (fun _ => tt) (fun s => s)); auto].
Qed.

Lemma entry_fields_fuel n : forall k s, parse_entry_fields n Capture s <> Fatal FFuel ->
  parse_entry_fields (n + k)%nat Capture s = parse_entry_fields n Capture s.
Proof.
  induction n as [|n IH]; intros k s H; [cbn in H; congruence|].
  change (S n + k)%nat with (S (n + k)). rewrite !entry_fields_unfold in *.
  destruct (parse_field Capture _) as [u s1|e s1|x]; cbn [obind] in *; try reflexivity.
  destruct (optional [P_LIT c_comma] (push_field s1)) as [h s2|e s2|x]; cbn [obind] in *; try reflexivity.
  destruct h; [|reflexivity]. apply IH. exact H.
Qed.

Lemma P_entry_body b : P (parse_entry_body Capture b).
Proof.
  unfold parse_entry_body. apply P_bind; [apply P_required|]. intros tk.
  apply (P_pre (fun s => set_key s (Some (snd tk))) (fun s => parse_entry_fields (S (length (sc_rest (p_sc s)))) Capture s)).
  - apply frame_set_key.
  - apply (P_fuel (fun n => parse_entry_fields n Capture)); [intros; apply P_entry_fields|intros; apply entry_fields_fuel; assumption].
Qed.

Lemma P_string_body : P (parse_string_body Capture).
Proof.
  unfold parse_string_body. apply P_bind; [apply P_required|]. intros tk.
  apply (P_pre (fun s => set_fname s (Some (snd tk)))
               (fun s2 => required [P_LIT 61] s2 >>= fun _ s3 => parse_value Capture s3 >>= fun _ s4 =>
                          Ret tt (set_macros s4 (assoc_set (lower (snd tk)) (concat (p_value s4)) (p_macros s4))))).
  - apply frame_set_fname.
  - apply P_bind; [apply P_required|]. intros _. apply P_bind; [apply P_value|]. intros _.
    apply (P_ret (fun _ => tt) (fun s4 => set_macros s4 (assoc_set (lower (snd tk)) (concat (p_value s4)) (p_macros s4)))); auto; intros s; apply T_same; reflexivity.
Qed.

From Pybtex Require Import Proofs.BibStrictFirst.

Lemma P_command_rest name bs : P (command_rest Capture name bs).
Proof.
  unfold command_rest. cbv zeta. destruct (str_eqb (lower (snd name)) kw_comment).
  { apply (P_ret (fun _ => None) (fun s => s)); auto. }
  set (brace := match fst bs with P_LIT c => c =? c_lbrace | _ => false end).
  set (k := if str_eqb (lower (snd name)) kw_string then KString else if str_eqb (lower (snd name)) kw_preamble then KPreamble else KEntry).
  set (R := fun s2 => match k with KString => parse_string_body Capture s2 | KPreamble => parse_preamble_body Capture s2 | KEntry => parse_entry_body Capture brace s2 end
                      >>= (fun _ s3 => required [P_LIT (if brace then c_rbrace else 41)] s3)).
  assert (PR : P R).
  { unfold R. destruct k; (apply P_bind; [|intros _; apply P_required]); [apply P_string_body|apply P_value|apply P_entry_body]. }
  intros s2. destruct (PR s2) as [R1 R2]. fold (R s2). split.
  - intros Ht. specialize (R1 Ht). destruct (R s2) as [u s4|e s4|f]; cbn in *; auto. apply T_add_err. exact R1.
  - intros y. fold (R (app s2 y)). destruct (R2 y) as [E|Tr].
    + left. rewrite E. destruct (R s2) as [u s4|e s4|f]; reflexivity.
    + right. destruct (R s2) as [u s4|e s4|f]; cbn in *; auto. apply T_add_err. exact Tr.
Qed.

Lemma P_command : P (parse_command Capture).
Proof.
  eapply P_ext; [intros s; apply parse_command_unfold|].
  apply (P_pre (fun s => set_value (set_fname (set_fields (set_key s None) []) None) [])
               (fun s0 => required [P_NAME] s0 >>= fun name s1 => required [P_LIT 40; P_LIT c_lbrace] s1 >>= fun bs s2 => command_rest Capture name bs s2)).
  - apply frame_reset_cmd.
  - apply P_bind; [apply P_required|]. intros name. apply P_bind; [apply P_required|]. intros bs. apply P_command_rest.
Qed.

(* ---- Parser.process_* never look at the scanner *)
Definition SF {A} (f : pst -> out A) : Prop :=
  (forall s y, f (app s y) = lift y (f s)) /\ (forall s, T s -> TR (f s)).
Lemma SF_P {A} (f : pst -> out A) : SF f -> P f.
Proof. intros [H1 H2] s. split; [apply H2|]. intros y. left. apply H1. Qed.

Lemma SF_bind {A B} (g : pst -> out A) (k : A -> pst -> out B) : SF g -> (forall a, SF (k a)) -> SF (fun s => g s >>= k).
Proof.
  intros [G1 G2] Hk. split.
  - intros s y. rewrite G1. destruct (g s) as [a s1|e s1|f]; cbn; auto. apply (proj1 (Hk a)).
  - intros s Ht. specialize (G2 s Ht). destruct (g s) as [a s1|e s1|f]; cbn in *; auto. apply (proj2 (Hk a)). exact G2.
Qed.
Lemma SF_ret {A} (a : A) : SF (fun s => Ret a s).
Proof. split; [reflexivity|cbn; auto]. Qed.
Lemma SF_handle e : SF (fun s => handle_error Capture e s).
Proof. split; [reflexivity|]. intros s Ht. cbn. apply T_add_err. left. exact Ht. Qed.
Lemma SF_fatal {A} f : SF (fun _ => @Fatal A f).
Proof. split; [reflexivity|intros; exact I]. Qed.

Lemma SF_persons : forall names acc, SF (persons_of Capture names acc).
Proof.
  induction names as [|n r IH]; intros acc; cbn [persons_of]; [apply SF_ret|].
  destruct (person_of_string n) as [[p rep]|? ?| |]; try apply SF_fatal.
  apply (SF_bind (fun s => if rep then handle_error Capture (data_err E_NAME) s else Ret tt s)).
  - destruct rep; [apply SF_handle|apply SF_ret].
  - intros _. apply IH.
Qed.

Lemma SF_process_fields : forall fields seen fs ps, SF (process_fields Capture fields seen fs ps).
Proof.
  induction fields as [|[fname parts] rest IH]; intros seen fs ps; cbn [process_fields]; [apply SF_ret|].
  destruct (existsb (str_eqb (lower fname)) seen).
  - apply (SF_bind (fun s => handle_error Capture (data_err E_DUPFIELD) s)); [apply SF_handle|]. intros _. apply IH.
  - destruct (is_person_field (lower fname)); [|apply IH].
    destruct (split_name_list (normalize_whitespace (concat parts))); try apply SF_fatal.
    apply (SF_bind (persons_of Capture a [])); [apply SF_persons|]. intros pl. apply IH.
Qed.

Lemma SF_add_entry key typ fs ps d : SF (add_entry Capture key typ fs ps d).
Proof.
  unfold add_entry. destruct (existsb _ (db_entries d)).
  - apply (SF_bind (fun s => handle_error Capture (data_err E_REPEATED) s)); [apply SF_handle|]. intros _.
    split; [reflexivity|cbn; auto].
  - split; [reflexivity|cbn; auto].
Qed.

Lemma SF_process c d : SF (process Capture c d).
Proof.
  destruct c as [n f v|n v|typ key fields]; cbn [process].
  - apply SF_ret.
  - unfold process_preamble. split; [reflexivity|cbn; auto].
  - unfold process_entry. destruct key as [k|];
      (apply (SF_bind (process_fields Capture fields [] [] [])); [apply SF_process_fields|]; intros r; apply SF_add_entry).
Qed.

(* ---- the loop: once the end has been touched it stays touched *)
Lemma loop_T : forall fuel d s d' s', T s -> bib_loop process fuel Capture d s = Ret d' s' -> T s'.
Proof.
  induction fuel as [|f IH]; intros d s d' s' Ht H; [discriminate|]. cbn [bib_loop] in H.
  destruct (skip_to _ (p_sc s)) as [[[v c] c']|] eqn:Es.
  2:{ injection H as <- <-. exact Ht. }
  assert (Ht1 : T (set_cstart (set_sc s c') (sc_pos c' - 1))).
  { destruct Ht as [Hn|He]; [rewrite (skip_to_nil _ _ Hn) in Es; discriminate|right; exact He]. }
  pose proof (proj1 (P_command _) Ht1) as Hc.
  destruct (parse_command Capture _) as [[c0|] s2|e s2|x]; cbn in Hc; try discriminate.
  - pose proof (proj2 (SF_process c0 d) s2 Hc) as Hp.
    destruct (process Capture c0 d s2) as [d1 s3|e3 s3|x3]; cbn [obind] in H; try discriminate. exact (IH _ _ _ _ Hp H).
  - exact (IH _ _ _ _ Hc H).
  - cbn [handle_error obind] in H. apply (IH _ _ _ _ (T_add_err s2 e Hc) H).
Qed.

(* COMPOSITIONALITY: if the reading of the text in front of the scanner ends without ever
   touching the end of that text, then with any y appended the reading proceeds identically up
   to the same point and goes on from there, with the database and state reached *)
Lemma loop_split : forall fuel d s d' s', bib_loop process fuel Capture d s = Ret d' s' -> ~ T s' ->
  forall y, exists n, (0 < n)%nat /\ bib_loop process fuel Capture d (app s y) = bib_loop process n Capture d' (app s' y).
Proof.
  induction fuel as [|f IH]; intros d s d' s' H Hnt y; [discriminate|].
  pose proof H as H0. cbn [bib_loop] in H.
  destruct (skip_to (fun c => c =? c_at) (p_sc s)) as [[[v c] c']|] eqn:Es.
  2:{ injection H as <- <-. exists (S f). split; [lia|reflexivity]. }
  cbn [bib_loop]. cbn [app p_sc]. rewrite (skip_to_stable _ _ y _ _ _ Es).
  set (s1 := set_cstart (set_sc s c') (sc_pos c' - 1)) in *.
  change (set_cstart (set_sc (app s y) (app_sc c' y)) (sc_pos (app_sc c' y) - 1)) with (app s1 y).
  destruct (proj2 (P_command s1) y) as [Ec|Tc].
  - rewrite Ec. destruct (parse_command Capture s1) as [[c0|] s2|e s2|x]; cbn [lift]; try discriminate.
    + rewrite (proj1 (SF_process c0 d) s2 y).
      destruct (process Capture c0 d s2) as [d1 s3|e3 s3|x3]; cbn [obind lift] in *; try discriminate.
      exact (IH _ _ _ _ H Hnt y).
    + exact (IH _ _ _ _ H Hnt y).
    + cbn [handle_error obind] in *. rewrite add_err_app. exact (IH _ _ _ _ H Hnt y).
  - exfalso. apply Hnt.
    destruct (parse_command Capture s1) as [[c0|] s2|e s2|x]; cbn in Tc; try discriminate.
    + pose proof (proj2 (SF_process c0 d) s2 Tc) as Hp.
      destruct (process Capture c0 d s2) as [d1 s3|e3 s3|x3]; cbn [obind] in H; try discriminate. exact (loop_T _ _ _ _ _ Hp H).
    + exact (loop_T _ _ _ _ _ Tc H).
    + cbn [handle_error obind] in H. exact (loop_T _ _ _ _ _ (T_add_err s2 e Tc) H).
Qed.

Lemma bib_loop_fuel n : forall k d s, bib_loop process n Capture d s <> Fatal FFuel ->
  bib_loop process (n + k)%nat Capture d s = bib_loop process n Capture d s.
Proof.
  induction n as [|n IH]; intros k d s H; [cbn in H; congruence|]. cbn [plus bib_loop] in *.
  destruct (skip_to _ (p_sc s)) as [[[v c] c']|]; [|reflexivity].
  destruct (parse_command Capture _) as [[c0|] s2|e s2|x]; try reflexivity.
  - destruct (process Capture c0 d s2) as [d1 s3|e3 s3|x3]; cbn [obind] in *; try reflexivity. apply IH. exact H.
  - apply IH. exact H.
  - cbn [handle_error obind] in *. apply IH. exact H.
Qed.
