(* Proofs/BstDocSound.v -- program-level doc_sound: every terminating run of a program accepted by the type checker
   (from a well-formed state) is derivable in the big-step semantics over the DOCUMENTED rules of Spec/BstDoc.v. *)
From Pybtex Require Import Base.Prelude Base.PyChar Base.PyStr Model.BibtexStr Model.Wrap Model.Bst
  Spec.BstSem Spec.BstDoc Spec.BstTyping Proofs.Bst Proofs.BstSem Proofs.BstTyping Proofs.BstDoc.
Local Open Scope Z_scope.

Section DocSoundProgram.
  Variable fmt_name : str -> str -> res str.
  Variable cw : char -> Z.
  Hypothesis fmt_no_crash : forall n f, fmt_name n f <> Crash.
  Variable G : list (str * obj).
  Variable ent : bool.
  Variable tys : list str.
  Hypothesis HG : ctx_ok G = true.

  Notation exec := (exec fmt_name cw).
  Notation while_loop := (while_loop fmt_name cw).
  Notation step := (step fmt_name cw).
  Notation exec_obj := (exec_obj fmt_name cw).
  Notation builtin_step := (builtin_step fmt_name cw).
  Notation check := (check G ent tys).
  Notation state_ok := (state_ok G ent tys).
  Notation doc := (builtin_doc fmt_name cw).
  Notation bigsteps := (bigsteps fmt_name cw doc).
  Notation bigstep := (bigstep fmt_name cw doc).
  Notation callv := (callv fmt_name cw doc).
  Notation whilerel := (whilerel fmt_name cw doc).
  Notation callc := (callc G ent tys).
  Notation cidc := (cidc G ent tys).
  Notation post := (post G ent tys).

  (* the typing facts of Proofs/BstTyping.v, for every checker fuel *)
  Lemma typed f : IHf fmt_name cw G ent tys f.
  Proof. apply check_sound; assumption. Qed.
  Lemma safe_ok r Q st' : safe r Q -> r = Ok st' -> Q st'.
  Proof. intros H ->. exact H. Qed.

  Definition IHd (f : nat) : Prop :=
    forall s p s', check f s p = Some s' ->
    forall n st st', state_ok st -> sabs (st_stack st) s -> exec n st p = Ok st' -> bigsteps st p st'.

  Lemma single_step st i st' : bigsteps st [i] st' -> bigstep st i st'.
  Proof. intros H. inversion H as [|? ? st1 ? ? H1 H2]; subst. inversion H2; subst. exact H1. Qed.

  Lemma call_doc f m s a s' v st st' : IHd f -> callc f s a = Some s' -> vabs v a ->
    state_ok st -> sabs (st_stack st) s -> exec_value (exec m) st v = Ok st' -> callv st v st'.
  Proof.
    intros IH C V Hok Hs H. destruct V; cbn in C; try discriminate; cbn in H.
    - constructor. eapply IH; eauto.
    - constructor. apply single_step. eapply IH; eauto.
  Qed.

  Lemma while_doc f pa fa c s1 s2 r' p fv : IHd f ->
    map weaken r' = r' ->
    callc f r' pa = Some (c :: s1) -> is_aint c = true -> stack_eqb s1 r' = true ->
    callc f r' fa = Some s2 -> stack_eqb s2 r' = true -> vabs p pa -> vabs fv fa ->
    forall m st st', state_ok st -> sabs (st_stack st) r' -> while_loop m st p fv = Ok st' -> whilerel st p fv st'.
  Proof.
    intros IH W Cp Ic E1 Cf E2 Vp Vf. induction m as [|m IHm]; intros st st' Hok Hs H; [discriminate H|].
    rewrite while_unfold in H.
    apply bind_ok in H as (st1 & H1 & H).
    destruct (safe_ok _ _ _ (call_sound fmt_name cw G ent tys f m r' pa (c :: s1) p st (typed f) Cp Vp Hok Hs) H1) as [Hok1 Hs1].
    destruct (sabs_cons_inv _ _ _ Hs1) as (v & l & Es & Hv & Hl).
    rewrite (pop_cons _ _ _ Es) in H. cbn [bind] in H.
    destruct (vabs_int _ _ Hv Ic) as [z ->].
    assert (Hl' : sabs l r') by (rewrite <- W; eapply sabs_eqb; eauto).
    assert (D1 : callv st p st1) by exact (call_doc f m r' pa (c :: s1) p st st1 IH Cp Vp Hok Hs H1).
    destruct (z <=? 0) eqn:Z.
    - inversion H; subst. eapply W_stop; eauto. apply Z.leb_le. exact Z.
    - apply bind_ok in H as (st3 & H3 & H4).
      assert (Hok2 : state_ok (set_stack st1 l)) by (apply ok_set_stack; exact Hok1).
      destruct (safe_ok _ _ _ (call_sound fmt_name cw G ent tys f m r' fa s2 fv _ (typed f) Cf Vf Hok2 Hl') H3) as [Hok3 Hs3].
      eapply W_loop; eauto.
      + apply Z.leb_gt in Z. lia.
      + exact (call_doc f m r' fa s2 fv _ _ IH Cf Vf Hok2 Hl' H3).
      + apply IHm; [exact Hok3| |exact H4]. rewrite <- W. eapply sabs_eqb; eauto.
  Qed.

  Ltac pop1 Hs v l E V Hs' := destruct (sabs_cons_inv _ _ _ Hs) as (v & l & E & V & Hs').

  Lemma builtin_doc_typed f m b s s1 st st' name : IHd f ->
    check_builtin G ent tys (callc f) (cidc f) b s = Some s1 ->
    vlookup name (st_vars st) = Some (OBuiltin b) ->
    state_ok st -> sabs (st_stack st) s ->
    builtin_step (exec m) (while_loop m) b st = Ok st' -> bigstep st (IId name) st'.
  Proof.
    intros IH C Hv Hok Hs H. destruct (control b) eqn:Ctl.
    - destruct b; try discriminate Ctl.
      + (* call.type$ *)
        cbn in C. destruct (ent && _)%bool eqn:B; [|discriminate C]. apply andb_prop in B as [Be Bf]. clear C.
        destruct (ok_ent G ent tys st Hok Be) as [(key & e & Ec & Ety) _].
        rewrite forallb_forall in Bf. specialize (Bf _ Ety).
        assert (Hs' : sabs (st_stack st) (map weaken s)) by (apply sabs_weaken; exact Hs).
        cbn [Bst.builtin_step] in H. rewrite Ec in H. unfold vlookup in Bf.
        pose proof (ok_vars G ent tys st Hok (lower (e_type e))) as V1.
        destruct (vlookup (e_type e) (st_vars st)) as [o'|] eqn:Et.
        * unfold vlookup in Et. destruct (alookup str_eqb (lower (e_type e)) G) as [o|] eqn:EG; [|rewrite V1 in Et; discriminate Et].
          unfold branch_ok, BstTyping.cidc in Bf.
          destruct (BstTyping.check G ent tys f (map weaken s) [IId (e_type e)]) as [s2|] eqn:Ck; [|discriminate Bf].
          eapply BS_call_type; eauto. { unfold vlookup. rewrite Et. discriminate. }
          apply single_step. eapply IH; eauto.
        * change (st_vars (add_warn st [WType])) with (st_vars st) in H. unfold vlookup in Et.
          destruct (alookup str_eqb (lower (e_type e)) G) as [o|] eqn:EG;
            [destruct V1 as (o' & Eo & _); rewrite Eo in Et; discriminate Et|].
          pose proof (ok_vars G ent tys st Hok (lower nm_default_type)) as V2.
          destruct (vlookup nm_default_type (st_vars st)) as [od|] eqn:Ed.
          -- unfold vlookup in Ed. destruct (alookup str_eqb (lower nm_default_type) G) as [o|] eqn:ED; [|rewrite V2 in Ed; discriminate Ed].
             unfold branch_ok, BstTyping.cidc in Bf.
             destruct (BstTyping.check G ent tys f (map weaken s) [IId nm_default_type]) as [s2|] eqn:Ck; [|discriminate Bf].
             eapply BS_call_type_default; eauto. { unfold vlookup. rewrite Ed. discriminate. }
             apply single_step. eapply (IH _ _ _ Ck m (add_warn st [WType])); eauto. apply ok_add_warn. exact Hok.
          -- inversion H; subst. eapply BS_call_type_none; eauto.
      + (* if$ *)
        destruct s as [|x [|y [|w r]]]; cbn in C; try discriminate C.
        pop1 Hs v1 l1 E1 V1 Hs1. pop1 Hs1 v2 l2 E2 V2 Hs2. subst l1. pop1 Hs2 v3 l3 E3 V3 Hs3. subst l2.
        revert H. cbn [Bst.builtin_step]. rewrite (pop_cons _ _ _ E1). cbn [bind]. rewrite pop_set_stack. cbn [bind].
        rewrite pop_set_stack. cbn [bind]. intros H.
        destruct (is_aint w) eqn:Iw; [|discriminate C]. destruct (vabs_int _ _ V3 Iw) as [z ->].
        destruct (BstTyping.callc G ent tys f r x) as [sa|] eqn:Ca; [|discriminate C].
        destruct (BstTyping.callc G ent tys f r y) as [sb|] eqn:Cb; [|discriminate C].
        assert (Hok3 : state_ok (set_stack st l3)) by (apply ok_set_stack; exact Hok).
        destruct (0 <? z) eqn:Z.
        * eapply BS_if_true; eauto. { apply Z.ltb_lt. exact Z. } exact (call_doc f m r y sb v2 _ _ IH Cb V2 Hok3 Hs3 H).
        * eapply BS_if_false; eauto. { apply Z.ltb_ge. exact Z. } exact (call_doc f m r x sa v1 _ _ IH Ca V1 Hok3 Hs3 H).
      + (* while$ *)
        destruct s as [|x [|y r]]; cbn in C; try discriminate C.
        pop1 Hs v1 l1 E1 V1 Hs1. pop1 Hs1 v2 l2 E2 V2 Hs2. subst l1.
        revert H. cbn [Bst.builtin_step]. rewrite (pop_cons _ _ _ E1). cbn [bind]. rewrite pop_set_stack. cbn [bind]. intros H.
        destruct (BstTyping.callc G ent tys f (map weaken r) y) as [[|c sa]|] eqn:Cp; try discriminate C.
        destruct (is_aint c && stack_eqb sa (map weaken r))%bool eqn:B1; [|discriminate C]. apply andb_prop in B1 as [B1 B1'].
        destruct (BstTyping.callc G ent tys f (map weaken r) x) as [sb|] eqn:Cf; [|discriminate C].
        destruct (stack_eqb sb (map weaken r)) eqn:B2; [|discriminate C].
        eapply BS_while; eauto.
        eapply (while_doc f y x c sa sb (map weaken r) v2 v1 IH); eauto.
        * rewrite map_map. apply map_ext. apply weaken_idem.
        * apply ok_set_stack. exact Hok.
        * cbn. apply sabs_weaken. exact Hs2.
    - eapply BS_builtin; eauto. eapply doc_sound_step; eauto.
  Qed.

  Lemma step_doc f m s i s1 st st1 : IHd f -> step_check G ent tys f s i = Some s1 ->
    state_ok st -> sabs (st_stack st) s ->
    step (exec m) (while_loop m) st i = Ok st1 -> bigstep st i st1.
  Proof.
    intros IH C Hok Hs H. destruct i as [z|t|name|name|body]; cbn [step_check] in C.
    - cbn in H. inversion H. constructor.
    - cbn in H. inversion H. constructor.
    - (* identifier *)
      cbn [Bst.step] in H.
      destruct (vlookup name (st_vars st)) as [o'|] eqn:Eo'; [|discriminate H].
      unfold vlookup in C, Eo'.
      destruct (alookup str_eqb (lower name) G) as [o|] eqn:EG; [|discriminate C].
      destruct (G_lookup G ent tys st _ o Hok EG) as (o2 & Eo & K). rewrite Eo in Eo'. inversion Eo'; subst o2. clear Eo'.
      assert (Ev : vlookup name (st_vars st) = Some o') by exact Eo.
      destruct o as [b|v|v|en|en|fn| |fb]; cbn in K.
      + subst o'. cbn [Bst.exec_obj] in H. eapply builtin_doc_typed; eauto.
      + destruct K as [z ->]. eapply BS_var; eauto; try discriminate.
      + destruct K as (v0 & -> & Sv). eapply BS_var; eauto; try discriminate.
      + subst o'. eapply BS_var; eauto; try discriminate.
      + subst o'. eapply BS_var; eauto; try discriminate.
      + subst o'. eapply BS_var; eauto; try discriminate.
      + subst o'. eapply BS_var; eauto; try discriminate.
      + subst o'. cbn [Bst.exec_obj] in H. eapply BS_call; eauto; eapply IH; eauto.
    - (* quoted *)
      cbn [Bst.step] in H.
      destruct (vlookup name (st_vars st)) as [o'|] eqn:Eo'; [|discriminate H].
      destruct o'; inversion H; subst; try (eapply BS_quote_var; [exact Eo'|discriminate]).
      eapply BS_quote_fun; eauto.
    - cbn in H. inversion H. constructor.
  Qed.

  Theorem doc_sound_all : forall cf, IHd cf.
  Proof.
    induction cf as [|f IH]; intros s p s' C n st st' Hok Hs H.
    - destruct p; cbn in C; [|discriminate C]. rewrite exec_nil in H. inversion H. constructor.
    - destruct p as [|i rest]; [rewrite exec_nil in H; inversion H; constructor|].
      destruct n as [|m]; [discriminate H|].
      change (exec (S m) st (i :: rest)) with (bind (step (exec m) (while_loop m) st i) (fun s0 => exec m s0 rest)) in H.
      apply bind_ok in H as (st1 & H1 & H2).
      rewrite check_S in C. destruct (step_check G ent tys f s i) as [s_mid|] eqn:Es; [|discriminate C].
      destruct (safe_ok _ _ _ (step_typed fmt_name cw fmt_no_crash G ent tys HG f m s i s_mid st (typed f) Es Hok Hs) H1) as [Hok1 Hs1].
      econstructor; [eapply step_doc; eauto|]. eapply IH; eauto.
  Qed.
End DocSoundProgram.

(* the theorem, closed *)
Theorem doc_sound fmt_name cw G ent tys cf s p s' :
  (forall n f, fmt_name n f <> Crash) -> ctx_ok G = true ->
  check G ent tys cf s p = Some s' ->
  forall n st st', state_ok G ent tys st -> sabs (st_stack st) s ->
  exec fmt_name cw n st p = Ok st' ->
  bigsteps fmt_name cw (builtin_doc fmt_name cw) st p st'.
Proof. intros Hf HG C n st st' Hok Hs H. eapply doc_sound_all; eauto. Qed.
