(* Proofs/WritersBool.v -- a BOOLEAN (computable) well-formedness predicate for the domain of the BibTeX file-level
   round trip with latexcodec's encoder, and its soundness: bibp_okb d = true -> bibp_ok latex_enc d (C02). *)
From Pybtex Require Import Base.Prelude Base.PyChar Base.PyStr Model.BibtexStr Model.Names Model.Scanner Model.BibParser Model.Writers
  Proofs.BibValues Proofs.BibEntry
  Proofs.WritersDict Proofs.WritersTree Proofs.WritersQuote Proofs.WritersName Proofs.WritersNameList Proofs.WritersName0
  Proofs.WritersBib Proofs.WritersBibP.
Local Open Scope N_scope.

Definition nilb {X} (l : list X) : bool := match l with [] => true | _ => false end.
Definition balancedb (v : str) : bool := match bal 0 v with Some O => true | _ => false end.
Definition fixedb (f : str -> str) (v : str) : bool := str_eqb (f v) v.
Definition nplainb (t : str) : bool := negb (nilb t) && forallb nplain t.
Definition isvonb (t : str) : bool := match is_von_name t with Ok true => true | _ => false end.
Definition nonvonb (t : str) : bool := match is_von_name t with Ok false => true | _ => false end.
Definition noandb (l : list str) : bool := forallb (fun t => negb (is_and t)) l.
Fixpoint nodupb (l : list str) : bool :=
  match l with [] => true | x :: r => negb (existsb (str_eqb x) r) && nodupb r end.

Definition expressibleb (p : person) : bool :=
  forallb nplainb (p_first p) && forallb nplainb (p_middle p) && forallb nplainb (p_prelast p) &&
  forallb nplainb (p_last p) && forallb nplainb (p_lineage p) &&
  match p_first p with [_] => true | _ => false end && negb (nilb (p_last p)) &&
  (nilb (p_prelast p) || isvonb (last (p_prelast p) [])) && forallb nonvonb (removelast (p_last p)).
Definition expressible0b (p : person) : bool :=
  nilb (p_first p) && nilb (p_middle p) && nilb (p_lineage p) && forallb nplainb (p_prelast p) && forallb nplainb (p_last p) &&
  ((nilb (p_prelast p) && match p_last p with [z] => match is_von_name z with Ok _ => true | _ => false end | _ => false end) ||
   (isvonb (hd [] (p_prelast p)) && isvonb (last (p_prelast p) []) && negb (nilb (p_prelast p)) && negb (nilb (p_last p)) &&
    forallb nonvonb (removelast (p_last p)))).
Definition name_okb (p : person) : bool :=
  (expressibleb p && noandb (p_first p ++ p_middle p ++ p_prelast p ++ p_last p ++ p_lineage p)) ||
  (expressible0b p && noandb (p_prelast p ++ p_last p)).

Definition fieldb (kv : str * str) : bool :=
  is_name (fst kv) && negb (is_person_field (lower (fst kv))) && balancedb (snd kv) &&
  fixedb normalize_whitespace (snd kv) && fixedb latex_enc (snd kv).
Definition roleb (rp : str * list person) : bool :=
  is_person_field (lower (fst rp)) && negb (nilb (snd rp)) && forallb name_okb (snd rp) &&
  fixedb normalize_whitespace (names_text (snd rp)) &&
  is_name (fst rp) && balancedb (names_text (snd rp)) && fixedb latex_enc (names_text (snd rp)).
Definition entryb (e : wentry) : bool :=
  is_entry_type (we_otype e) && is_key true (we_key e) &&
  nodupb (lkeys (we_fields e)) && nodupb (lkeys (we_persons e)) &&
  forallb fieldb (we_fields e) && forallb roleb (we_persons e).
Definition preambleb (pre : str) : bool :=
  nilb pre || (balancedb pre && fixedb normalize_whitespace pre && fixedb (encode_with_comments latex_enc) pre).
Definition bibp_okb (d : wdb) : bool :=
  nodupb (map (fun e => lower (we_key e)) (wd_entries d)) && forallb entryb (wd_entries d) && preambleb (concat (wd_preamble d)).

(* ---- soundness *)
Lemma balancedb_ok v : balancedb v = true -> balanced v.
Proof. unfold balancedb, balanced. destruct (bal 0 v) as [[|n]|]; intros H; [reflexivity|discriminate|discriminate]. Qed.
Lemma fixedb_ok f v : fixedb f v = true -> f v = v.
Proof. unfold fixedb. intros H. now apply str_eqb_eq. Qed.
Lemma nplainb_ok t : nplainb t = true -> nplain_tok t.
Proof. unfold nplainb. intros H. apply andb_prop in H as [H1 H2]. split; [|exact H2]. destruct t; [discriminate|discriminate]. Qed.
Lemma forallb_Forall {X} (f : X -> bool) (P : X -> Prop) l : (forall x, f x = true -> P x) -> forallb f l = true -> Forall P l.
Proof. intros HP. induction l as [|x l IH]; cbn; intros H; [constructor|]. apply andb_prop in H as [H1 H2]. constructor; auto. Qed.
Lemma isvonb_ok t : isvonb t = true -> isvon t.
Proof. unfold isvonb, isvon. destruct (is_von_name t) as [[|]| | |]; intros H; try discriminate; reflexivity. Qed.
Lemma nonvonb_ok t : nonvonb t = true -> nonvon t.
Proof. unfold nonvonb, nonvon. destruct (is_von_name t) as [[|]| | |]; intros H; try discriminate; reflexivity. Qed.
Lemma noandb_ok l : noandb l = true -> Forall noand_tok l.
Proof. apply forallb_Forall. intros t H. unfold noand_tok. now apply negb_true_iff in H. Qed.
Lemma nodupb_ok l : nodupb l = true -> NoDup l.
Proof.
  induction l as [|x r IH]; cbn; intros H; [constructor|]. apply andb_prop in H as [H1 H2]. constructor; [|auto].
  intros Hin. apply negb_true_iff in H1. assert (E : existsb (str_eqb x) r = true).
  { apply existsb_exists. exists x. split; [exact Hin|apply str_eqb_refl]. }
  congruence.
Qed.
Lemma nilb_false {X} (l : list X) : negb (nilb l) = true -> l <> [].
Proof. destruct l; [discriminate|discriminate]. Qed.

Lemma expressibleb_ok p : expressibleb p = true -> expressible p.
Proof.
  unfold expressibleb, expressible. intros H. repeat (apply andb_prop in H as [H ?]).
  repeat split; try (eapply forallb_Forall; [apply nplainb_ok|eassumption]).
  - destruct (p_first p) as [|f [|g r]]; try discriminate. eauto.
  - now apply nilb_false.
  - match goal with Hor : (nilb (p_prelast p) || _) = true |- _ => apply orb_prop in Hor as [Ho|Ho] end.
    + left. destruct (p_prelast p); [reflexivity|discriminate].
    + right. now apply isvonb_ok.
  - eapply forallb_Forall; [apply nonvonb_ok|eassumption].
Qed.

Lemma expressible0b_ok p : expressible0b p = true -> expressible0 p.
Proof.
  unfold expressible0b, expressible0. intros H. repeat (apply andb_prop in H as [H ?]).
  assert (N : forall X (l : list X), nilb l = true -> l = []) by (intros X l; destruct l; [reflexivity|discriminate]).
  repeat split; try (apply N; assumption); try (eapply forallb_Forall; [apply nplainb_ok|eassumption]).
  match goal with Hor : (_ || _) = true |- _ => apply orb_prop in Hor as [Ho|Ho] end.
  - left. apply andb_prop in Ho as [Hn1 Hn2]. split; [now apply N|].
    destruct (p_last p) as [|z [|y r]]; try discriminate. destruct (is_von_name z) as [b| | |] eqn:E; try discriminate. eauto.
  - right. repeat (apply andb_prop in Ho as [Ho ?]). repeat split; try (now apply isvonb_ok); try (now apply nilb_false).
    eapply forallb_Forall; [apply nonvonb_ok|eassumption].
Qed.

Lemma name_okb_ok p : name_okb p = true -> name_okx p.
Proof.
  unfold name_okb. intros H. apply orb_prop in H as [H|H]; apply andb_prop in H as [H1 H2].
  - apply name_ok_x. split; [now apply expressibleb_ok|now apply noandb_ok].
  - apply name_ok0_x; [now apply expressible0b_ok|now apply noandb_ok].
Qed.

Lemma fieldb_ok kv : fieldb kv = true -> bib_ok_field latex_enc kv.
Proof.
  unfold fieldb, bib_ok_field. intros H. repeat (apply andb_prop in H as [H ?]).
  repeat split; auto using balancedb_ok, fixedb_ok. now apply negb_true_iff.
Qed.

Lemma roleb_ok rp : roleb rp = true -> role_ok rp /\ wok_field latex_enc (fst rp, names_text (snd rp)).
Proof.
  unfold roleb, role_ok, wok_field. intros H. repeat (apply andb_prop in H as [H ?]). cbn [fst snd].
  repeat split; auto using balancedb_ok, fixedb_ok, nilb_false.
  eapply forallb_Forall; [apply name_okb_ok|eassumption].
Qed.

Lemma entryb_ok e : entryb e = true -> bibp_ok_entry latex_enc e.
Proof.
  unfold entryb, bibp_ok_entry, wf_entry. intros H.
  apply andb_prop in H as [H Hr]. apply andb_prop in H as [H Hf]. apply andb_prop in H as [H Hnp].
  apply andb_prop in H as [H Hnf]. apply andb_prop in H as [Ht Hk].
  assert (R : Forall (fun rp => role_ok rp /\ wok_field latex_enc (fst rp, names_text (snd rp))) (we_persons e))
    by (eapply forallb_Forall; [apply roleb_ok|exact Hr]).
  split; [exact Ht|]. split; [exact Hk|]. split; [split; [now apply nodupb_ok|split; [now apply nodupb_ok|]]|].
  - eapply Forall_impl; [|exact R]. intros rp [(_ & Hn & _) _]. exact Hn.
  - split; [eapply forallb_Forall; [apply fieldb_ok|exact Hf]|]. split.
    + eapply Forall_impl; [|exact R]. now intros rp [Hr' _].
    + unfold role_fields. rewrite Forall_map. eapply Forall_impl; [|exact R]. now intros rp [_ Hw].
Qed.

Lemma bibp_okb_ok d : bibp_okb d = true -> bibp_ok latex_enc d.
Proof.
  unfold bibp_okb, bibp_ok. intros H. repeat (apply andb_prop in H as [H ?]).
  split; [now apply nodupb_ok|]. split; [eapply forallb_Forall; [apply entryb_ok|eassumption]|].
  unfold preambleb in *. match goal with Hor : (nilb _ || _) = true |- _ => apply orb_prop in Hor as [Ho|Ho] end.
  - left. destruct (concat (wd_preamble d)); [reflexivity|discriminate].
  - right. repeat (apply andb_prop in Ho as [Ho ?]). repeat split; auto using balancedb_ok, fixedb_ok.
Qed.

Lemma bibtex_roundtrip_bool_pf d : bibp_okb d = true -> write_read latex_enc FBib d = Ok (norm_preamble d).
Proof. intros H. apply bibtex_roundtrip_persons_pf. now apply bibp_okb_ok. Qed.

(* ---- the same for the common domain of all three formats (chains) *)
From Pybtex Require Import Proofs.WritersChain.

Definition idsb (e : wentry) : bool :=
  forallb (fun kv => negb (str_eqb (lower (fst kv)) k_type)) (we_fields e).
Definition allp_okb (d : wdb) : bool := bibp_okb d && forallb idsb (wd_entries d).

Lemma role_fun_eq x : is_person_field x = is_role_lower x.
Proof. reflexivity. Qed.

Lemma name_okb_parts p : name_okb p = true -> parts_ok p.
Proof.
  unfold name_okb. intros H. apply orb_prop in H as [H|H]; apply andb_prop in H as [H1 _].
  - apply expressible_parts_ok. now apply expressibleb_ok.
  - apply expressible0_parts_ok. now apply expressible0b_ok.
Qed.

Lemma allp_okb_ok d : allp_okb d = true -> allp_ok latex_enc d.
Proof.
  unfold allp_okb. intros H. apply andb_prop in H as [HB HI].
  pose proof (bibp_okb_ok d HB) as B. split; [|exact B].
  unfold bibp_okb in HB. apply andb_prop in HB as [HB _]. apply andb_prop in HB as [Hk He].
  destruct B as (K & E & _).
  assert (Ent : Forall (fun e => entryb e = true /\ idsb e = true) (wd_entries d)).
  { clear -He HI. induction (wd_entries d) as [|e r IH]; [constructor|]. cbn in *.
    apply andb_prop in He as [A B]. apply andb_prop in HI as [C D]. constructor; auto. }
  split; [split|split].
  - exact K.
  - eapply Forall_impl; [|exact E]. intros e (_ & _ & W & _). exact W.
  - unfold yaml_ok. eapply Forall_impl; [|exact Ent]. intros e [He1 He2]. unfold yaml_ok_entry.
    unfold entryb in He1. apply andb_prop in He1 as [He1 Hr]. apply andb_prop in He1 as [He1 Hf].
    split.
    + unfold idsb in He2. clear -Hf He2. induction (we_fields e) as [|kv r IH]; [constructor|]. cbn in *.
      apply andb_prop in Hf as [A B]. apply andb_prop in He2 as [C D]. constructor; [|auto].
      unfold fieldb in A. repeat (apply andb_prop in A as [A ?]).
      split; [|now apply negb_true_iff]. rewrite <- role_fun_eq. now apply negb_true_iff.
    + clear -Hr. induction (we_persons e) as [|rp r IH]; [constructor|]. cbn in *. apply andb_prop in Hr as [A B]. constructor; [|auto].
      unfold roleb in A. repeat (apply andb_prop in A as [A ?]). split; [now rewrite <- role_fun_eq|].
      eapply forallb_Forall; [apply name_okb_parts|eassumption].
  - unfold xml_ok. eapply Forall_impl; [|exact Ent]. intros e [He1 _]. unfold xml_ok_entry.
    unfold entryb in He1. apply andb_prop in He1 as [He1 Hr]. apply andb_prop in He1 as [He1 Hf].
    split.
    + clear -Hf. induction (we_fields e) as [|kv r IH]; [constructor|]. cbn in *. apply andb_prop in Hf as [A B]. constructor; [|auto].
      unfold fieldb in A. repeat (apply andb_prop in A as [A ?]). rewrite <- role_fun_eq. now apply negb_true_iff.
    + clear -Hr. induction (we_persons e) as [|rp r IH]; [constructor|]. cbn in *. apply andb_prop in Hr as [A B]. constructor; [|auto].
      unfold roleb in A. repeat (apply andb_prop in A as [A ?]). split; [now rewrite <- role_fun_eq|].
      eapply forallb_Forall; [apply name_okb_parts|eassumption].
Qed.

Lemma chain_roundtrip_bool_pf fs pc d : allp_okb d = true -> chain latex_enc fs pc d = Ok (expect fs pc d).
Proof. intros H. apply chain_roundtrip_persons_pc_pf. now apply allp_okb_ok. Qed.
