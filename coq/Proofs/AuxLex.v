(* Proofs/AuxLex.v -- the command-line recogniser and the line splitter of Model/Aux.v
   characterised on their own; the flattening does not depend on spare nesting fuel. *)
From Pybtex Require Import Base.Prelude Base.PyChar Base.PyStr Model.Aux Spec.Aux Proofs.Aux.
Local Open Scope N_scope.

(* ---- startswith / skipn *)
Lemma startswith_app_self : forall p x, startswith (p ++ x) p = true.
Proof. induction p as [|a p IH]; intros x; cbn; [destruct x; reflexivity|]. now rewrite N.eqb_refl, IH. Qed.

Lemma skipn_app_self {X} : forall (p x : list X), skipn (length p) (p ++ x) = x.
Proof. induction p; intros; cbn; auto. Qed.

Lemma startswith_split : forall p s, startswith s p = true -> s = p ++ skipn (length p) s.
Proof.
  induction p as [|a p IH]; intros s H; [reflexivity|].
  destruct s as [|b s]; cbn in H; [discriminate|].
  apply andb_prop in H as [H1 H2]. apply N.eqb_eq in H1. subst b. cbn. f_equal. apply IH; exact H2.
Qed.

(* ---- before_last *)
Lemma before_last_none c : forall s, ~ In c s -> before_last c s = None.
Proof.
  induction s as [|x t IH]; intros H; [reflexivity|]. cbn.
  rewrite IH by (intros H'; apply H; now right).
  destruct (N.eqb_spec x c) as [->|_]; [exfalso; apply H; now left|reflexivity].
Qed.

Lemma before_last_hit c : forall p w, ~ In c w -> before_last c (p ++ c :: w) = Some p.
Proof.
  induction p as [|x p IH]; intros w H; cbn.
  - rewrite (before_last_none c w H), N.eqb_refl. reflexivity.
  - rewrite (IH w H). reflexivity.
Qed.

Lemma before_last_inv c : forall s p, before_last c s = Some p -> exists w, s = p ++ c :: w /\ ~ In c w.
Proof.
  induction s as [|x t IH]; intros p H; [discriminate|]. cbn in H.
  destruct (before_last c t) as [q|] eqn:E.
  - inversion H; subst. destruct (IH q eq_refl) as [w [-> Hw]]. exists w. auto.
  - destruct (N.eqb_spec x c) as [->|_]; [|discriminate]. inversion H; subst. exists t. split; [reflexivity|].
    intros Hin. clear -E Hin. induction t as [|y t IH]; [contradiction|]. cbn in E.
    destruct (before_last c t); [discriminate|].
    destruct (N.eqb_spec y c) as [->|Hn]; [discriminate|]. destruct Hin as [->|Hin]; [congruence|auto].
Qed.

(* ---- upto_nl *)
Lemma upto_nl_app : forall a b, ~ In c_nl a -> upto_nl (a ++ b) = a ++ upto_nl b.
Proof.
  induction a as [|x a IH]; intros b H; [reflexivity|]. cbn.
  destruct (N.eqb_spec x 10) as [->|_]; [exfalso; apply H; now left|].
  rewrite IH; [reflexivity|]. intros H'; apply H; now right.
Qed.

Lemma upto_nl_app_inv : forall a b u, upto_nl u = a ++ b ->
  exists r, u = a ++ r /\ upto_nl r = b /\ ~ In c_nl a.
Proof.
  induction a as [|x a IH]; intros b u H.
  - exists u. auto.
  - destruct u as [|y u]; [discriminate|]. cbn in H.
    destruct (N.eqb_spec y 10) as [->|Hy]; [discriminate|]. inversion H; subst.
    destruct (IH b u H2) as [r (-> & Hr & Hn)]. exists r. repeat split; auto.
    intros [E|E]; [apply Hy; exact E|auto].
Qed.

(* ---- the alternatives exclude each other *)
Lemma match_alt_hit c v rest :
  ~ In c_nl v -> ~ In c_rbrace (upto_nl rest) ->
  match_alt c (cmd_text c ++ c_lbrace :: v ++ c_rbrace :: rest) = Some v.
Proof.
  intros Hv Hr. unfold match_alt.
  replace (cmd_text c ++ c_lbrace :: v ++ c_rbrace :: rest)
    with ((cmd_text c ++ [c_lbrace]) ++ v ++ c_rbrace :: rest) by (rewrite <- app_assoc; reflexivity).
  rewrite startswith_app_self, skipn_app_self, (upto_nl_app v _ Hv).
  cbn [upto_nl]. change (c_rbrace =? 10) with false. cbn iota.
  apply before_last_hit; exact Hr.
Qed.

Lemma match_alt_miss c c' x : c <> c' -> match_alt c' (cmd_text c ++ c_lbrace :: x) = None.
Proof. intros H. destruct c, c'; try congruence; reflexivity. Qed.

Lemma match_alt_inv c t v : match_alt c t = Some v ->
  exists rest, t = cmd_text c ++ c_lbrace :: v ++ c_rbrace :: rest /\ ~ In c_nl v /\ ~ In c_rbrace (upto_nl rest).
Proof.
  unfold match_alt. intros H.
  destruct (startswith t (cmd_text c ++ [c_lbrace])) eqn:ES; [|discriminate].
  apply startswith_split in ES.
  destruct (before_last_inv _ _ _ H) as [w [Hw Hn]].
  destruct (upto_nl_app_inv v (c_rbrace :: w) _ Hw) as [r (Hr1 & Hr2 & Hr3)].
  destruct r as [|y r]; [discriminate|]. cbn in Hr2.
  destruct (N.eqb_spec y 10); [discriminate|]. inversion Hr2; subst y.
  exists r. repeat split; auto.
  - rewrite ES at 1. rewrite Hr1, <- app_assoc. reflexivity.
  - rewrite H2. exact Hn.
Qed.

(* command_re.match(line) succeeds exactly on a backslash, a command name, an opening brace,
   a value without line feed, a closing brace that is the last one before the end of the line *)
Theorem match_command_spec_l line c v :
  match_command line = Some (c, v) <->
  exists rest, line = c_bslash :: cmd_text c ++ c_lbrace :: v ++ c_rbrace :: rest /\
               ~ In c_nl v /\ ~ In c_rbrace (upto_nl rest).
Proof.
  split.
  - unfold match_command. destruct line as [|b t]; [discriminate|].
    destruct (N.eqb_spec b c_bslash) as [->|_]; [|discriminate].
    unfold cmd_alternatives. cbn [match_alts]. intros H.
    assert (HA : match_alt c t = Some v).
    { destruct (match_alt CCitation t) eqn:E1; [inversion H; subst; exact E1|].
      destruct (match_alt CBibdata t) eqn:E2; [inversion H; subst; exact E2|].
      destruct (match_alt CBibstyle t) eqn:E3; [inversion H; subst; exact E3|].
      destruct (match_alt CInput t) eqn:E4; [inversion H; subst; exact E4|discriminate]. }
    destruct (match_alt_inv c t v HA) as [rest (-> & Hv & Hr)]. exists rest. auto.
  - intros [rest (-> & Hv & Hr)]. unfold match_command. rewrite N.eqb_refl.
    unfold cmd_alternatives. cbn [match_alts].
    destruct c;
      rewrite ?(match_alt_miss _ CCitation) by congruence;
      rewrite ?(match_alt_miss _ CBibdata) by congruence;
      rewrite ?(match_alt_miss _ CBibstyle) by congruence;
      rewrite (match_alt_hit _ v rest Hv Hr); reflexivity.
Qed.

(* ---- spare nesting fuel changes nothing *)
Lemma expand_lines_mono (erec erec' : str -> list visit * status) name :
  (forall n vs s, erec n = (vs, s) -> s <> Deep -> erec' n = (vs, s)) ->
  forall lines k vs s, expand_lines erec name lines k = (vs, s) -> s <> Deep ->
                       expand_lines erec' name lines k = (vs, s).
Proof.
  intros HR. induction lines as [|l rest IH]; intros k vs s H Hs; cbn [expand_lines] in *; [exact H|].
  destruct (match_command l) as [[cmd v]|]; [|apply IH; assumption].
  destruct cmd.
  - destruct (expand_lines erec name rest (S k)) as [vs1 s1] eqn:E. inversion H; subst.
    rewrite (IH (S k) vs1 s E Hs). reflexivity.
  - destruct (expand_lines erec name rest (S k)) as [vs1 s1] eqn:E. inversion H; subst.
    rewrite (IH (S k) vs1 s E Hs). reflexivity.
  - destruct (expand_lines erec name rest (S k)) as [vs1 s1] eqn:E. inversion H; subst.
    rewrite (IH (S k) vs1 s E Hs). reflexivity.
  - destruct (erec v) as [vs0 s0] eqn:E0. destruct s0.
    + rewrite (HR v vs0 Complete E0) by discriminate.
      destruct (expand_lines erec name rest (S k)) as [vs1 s1] eqn:E. inversion H; subst.
      rewrite (IH (S k) vs1 s E Hs). reflexivity.
    + inversion H; subst. rewrite (HR v vs (Missing name0) E0) by discriminate. reflexivity.
    + inversion H; subst. congruence.
Qed.

Lemma expand_mono fs : forall f name vs s,
  expand f fs name = (vs, s) -> s <> Deep -> expand (S f) fs name = (vs, s).
Proof.
  induction f as [|f IH]; intros name vs s H Hs.
  - cbn in H. inversion H; subst. congruence.
  - cbn [expand] in H |- *. destruct (fs name) as [content|]; [|exact H].
    apply (expand_lines_mono (expand f fs) (expand (S f) fs) name IH _ _ _ _ H Hs).
Qed.

Lemma expand_mono_plus fs f name vs s :
  expand f fs name = (vs, s) -> s <> Deep -> forall k, expand (k + f) fs name = (vs, s).
Proof.
  intros H Hs. induction k as [|k IH]; [exact H|]. cbn [Nat.add]. apply expand_mono; assumption.
Qed.

Theorem fuel_irrelevant_l fuel fs m top :
  doc_status fuel fs top <> Deep ->
  forall k, doc_visits (k + fuel) fs top = doc_visits fuel fs top /\
            doc_status (k + fuel) fs top = doc_status fuel fs top /\
            same_reading (parse_aux (k + fuel) fs m top) (parse_aux fuel fs m top).
Proof.
  unfold doc_status, doc_visits. intros Hs k.
  destruct (expand fuel fs top) as [vs s] eqn:E. cbn [fst snd] in *.
  pose proof (expand_mono_plus fs fuel top vs s E Hs k) as E'.
  rewrite E'. repeat split; auto.
  apply same_reading_of_obs. rewrite !parse_aux_flat. unfold spec_aux. rewrite E, E'. reflexivity.
Qed.

(* ---- the line splitter: gluing the lines back gives the content with \r\n and \r turned
   into \n; every line but possibly the last ends in \n, and no line contains \r or an inner \n *)
Lemma lines_aux_concat : forall s acc cr,
  concat (lines_aux s acc cr) = rev acc ++ translate_nl s cr.
Proof.
  induction s as [|c t IH]; intros acc cr; cbn [lines_aux translate_nl].
  - destruct acc; cbn; [reflexivity|]. now rewrite !app_nil_r.
  - destruct ((c =? 10) && cr) eqn:E1; [apply IH|].
    destruct (c =? 13) eqn:E13.
    + rewrite orb_true_r. cbn [concat]. rewrite IH. cbn [rev]. rewrite <- !app_assoc. reflexivity.
    + rewrite orb_false_r. destruct (c =? 10) eqn:E10.
      * apply N.eqb_eq in E10. subst c. cbn [concat]. rewrite IH. cbn [rev]. rewrite <- !app_assoc. reflexivity.
      * rewrite IH. cbn [rev]. rewrite <- app_assoc. reflexivity.
Qed.

Theorem lines_of_concat_l s : concat (lines_of s) = translate_nl s false.
Proof. unfold lines_of. rewrite lines_aux_concat. reflexivity. Qed.

Definition line_ok (last : bool) (l : str) : Prop :=
  l <> [] /\ ~ In 13 l /\ ~ In 10 (removelast l) /\ (last = false -> exists b, l = b ++ [10]).

Lemma lines_aux_shape : forall s acc cr,
  ~ In 13 acc -> ~ In 10 acc ->
  forall pre l post, lines_aux s acc cr = pre ++ l :: post ->
  l <> [] /\ ~ In 13 l /\ ~ In 10 (removelast l) /\ (post <> [] -> exists b, l = b ++ [10]).
Proof.
  induction s as [|c t IH]; intros acc cr H13 H10 pre l post H; cbn [lines_aux] in H.
  - destruct acc as [|a acc]; [destruct pre; discriminate|].
    destruct pre as [|p pre]; [|destruct pre; discriminate]. inversion H; subst.
    repeat split.
    + intros E; apply app_eq_nil in E as [_ E]; discriminate.
    + intros Hin. apply in_app_or in Hin as [Hin|[E|[]]]; apply H13; [right; now apply in_rev|left; exact E].
    + rewrite removelast_last. intros Hin. apply H10. right. now apply in_rev.
    + intros Hp; exfalso; apply Hp; reflexivity.
  - destruct ((c =? 10) && cr) eqn:E1; [apply (IH acc false H13 H10 pre l post H)|].
    destruct ((c =? 10) || (c =? 13)) eqn:E2.
    + destruct pre as [|p pre].
      * inversion H; subst. cbn [rev]. repeat split.
        -- intros E; apply app_eq_nil in E as [_ E]; discriminate.
        -- intros Hin. apply in_app_or in Hin as [Hin|[Hin|[]]]; [apply H13; now rewrite in_rev|discriminate].
        -- rewrite removelast_last. rewrite <- in_rev. exact H10.
        -- intros _. eauto.
      * inversion H; subst. apply (IH [] (c =? 13) (fun x => x) (fun x => x) pre l post H2).
    + apply orb_false_elim in E2 as [Ea Eb]. apply N.eqb_neq in Ea, Eb.
      apply (IH (c :: acc) false) with (pre := pre) (post := post); auto; intros [E|E]; auto.
Qed.

Theorem lines_of_shape_l s pre l post :
  lines_of s = pre ++ l :: post ->
  l <> [] /\ ~ In 13 l /\ ~ In 10 (removelast l) /\ (post <> [] -> exists b, l = b ++ [10]).
Proof. apply lines_aux_shape; auto. Qed.

Local Close Scope N_scope.

(* ---- every report is located at a command line of the flattened document *)
Lemma mismatches_located v keys : forall hist e,
  In e (mismatches hist (map (fun k => (k, v)) keys)) -> e_ctx e = Some (ctx_of v).
Proof.
  induction keys as [|k r IH]; intros hist e H; cbn [map mismatches] in H; [contradiction|].
  apply in_app_or in H as [H|H]; [|apply (IH _ _ H)].
  destruct (find (same_key k) hist); [destruct (str_eqb k s)|]; cbn in H;
    try contradiction. destruct H as [<-|[]]. reflexivity.
Qed.

Lemma reports_located_l : forall vs hs hd hist e,
  In e (reports hs hd hist vs) -> exists v, In v vs /\ e_ctx e = Some (ctx_of v).
Proof.
  induction vs as [|v r IH]; intros hs hd hist e H; cbn [reports] in H; [contradiction|].
  destruct (v_cmd v).
  - apply in_app_or in H as [H|H].
    + exists v. split; [now left|]. apply (mismatches_located _ _ _ _ H).
    + destruct (IH _ _ _ _ H) as [w [Hw He]]. exists w. split; [now right|exact He].
  - apply in_app_or in H as [H|H].
    + destruct hd; [|contradiction]. destruct H as [<-|[]]. exists v. split; [now left|reflexivity].
    + destruct (IH _ _ _ _ H) as [w [Hw He]]. exists w. split; [now right|exact He].
  - apply in_app_or in H as [H|H].
    + destruct hs; [|contradiction]. destruct H as [<-|[]]. exists v. split; [now left|reflexivity].
    + destruct (IH _ _ _ _ H) as [w [Hw He]]. exists w. split; [now right|exact He].
  - destruct (IH _ _ _ _ H) as [w [Hw He]]. exists w. split; [now right|exact He].
Qed.

(* ---- every visit stands where the flattening says: in a file that exists, at a line of it
   that command_re recognises, with the stripped text of that line *)
Lemma expand_lines_stand (erec : str -> list visit * status) name (P : visit -> Prop) :
  (forall g w, In w (fst (erec g)) -> P w) ->
  forall lines k,
  (forall i l cmd val, nth_error lines i = Some l -> match_command l = Some (cmd, val) -> cmd <> CInput ->
                       P (mkvisit name (k + i) (strip l) cmd val)) ->
  forall w, In w (fst (expand_lines erec name lines k)) -> P w.
Proof.
  intros HR. induction lines as [|l rest IH]; intros k HL w Hw; cbn [expand_lines] in Hw; [contradiction|].
  assert (HL' : forall i l0 cmd val, nth_error rest i = Some l0 -> match_command l0 = Some (cmd, val) -> cmd <> CInput ->
                 P (mkvisit name (S k + i) (strip l0) cmd val)).
  { intros i l0 cmd val Hn Hm Hc. replace (S k + i) with (k + S i) by lia. apply (HL (S i) l0 cmd val Hn Hm Hc). }
  destruct (match_command l) as [[cmd v]|] eqn:EM; [|apply (IH (S k) HL' w Hw)].
  assert (H0 : cmd <> CInput -> P (mkvisit name k (strip l) cmd v)).
  { intros Hc. replace k with (k + 0) at 1 by lia. apply (HL 0 l cmd v eq_refl EM Hc). }
  destruct cmd.
  - destruct (expand_lines erec name rest (S k)) as [vs1 s1] eqn:E. cbn [fst] in *.
    destruct Hw as [<-|Hw]; [apply H0; discriminate|]. apply (IH (S k) HL'). rewrite E. exact Hw.
  - destruct (expand_lines erec name rest (S k)) as [vs1 s1] eqn:E. cbn [fst] in *.
    destruct Hw as [<-|Hw]; [apply H0; discriminate|]. apply (IH (S k) HL'). rewrite E. exact Hw.
  - destruct (expand_lines erec name rest (S k)) as [vs1 s1] eqn:E. cbn [fst] in *.
    destruct Hw as [<-|Hw]; [apply H0; discriminate|]. apply (IH (S k) HL'). rewrite E. exact Hw.
  - destruct (erec v) as [vs0 s0] eqn:E0. destruct s0.
    + destruct (expand_lines erec name rest (S k)) as [vs1 s1] eqn:E. cbn [fst] in *.
      apply in_app_or in Hw as [Hw|Hw].
      * apply (HR v). rewrite E0. exact Hw.
      * apply (IH (S k) HL'). rewrite E. exact Hw.
    + apply (HR v). rewrite E0. exact Hw.
    + apply (HR v). rewrite E0. exact Hw.
Qed.

Lemma visits_stand_l fs : forall fuel name w, In w (fst (expand fuel fs name)) -> stands_in fs w.
Proof.
  induction fuel as [|f IH]; intros name w Hw; cbn [expand] in Hw; [contradiction|].
  destruct (fs name) as [content|] eqn:EF; [|contradiction].
  apply (expand_lines_stand (expand f fs) name (stands_in fs) (fun g w => IH g w) (lines_of content) 1); [|exact Hw].
  intros i l cmd val Hn Hm Hc. exists content, l. cbn [v_file v_lineno v_cmd v_val v_line pred Nat.add].
  repeat split; auto. lia.
Qed.

(* ---- Engine.make_bibliography hands on what was read *)
Lemma make_bibliography_spec_l fuel fs top a style_arg suffix :
  parse_aux fuel fs Strict top = Ret a ->
  exists vd vs b,
    find (is_cmd CBibdata) (doc_visits fuel fs top) = Some vd /\
    find (is_cmd CBibstyle) (doc_visits fuel fs top) = Some vs /\
    make_bibliography_args style_arg suffix a = Ret b /\
    b_files b = map (fun f => f ++ suffix) (split_on [c_comma] (v_val vd)) /\
    b_style b = Some (match style_arg with Some s => s | None => v_val vs end) /\
    b_citations b = citation_keys (doc_visits fuel fs top).
Proof.
  intros H.
  destruct (data_is_first_split_l _ _ _ _ _ H) as [vd [Hd1 Hd2]].
  destruct (style_is_first_l _ _ _ _ _ H) as [vs [Hs1 Hs2]].
  pose proof (citations_spec_l _ _ _ _ _ H) as Hc.
  exists vd, vs. unfold make_bibliography_args. rewrite Hd2. eexists. repeat split; auto.
  cbn [b_style]. rewrite Hs2. destruct style_arg; reflexivity.
Qed.

Lemma reported_errors_located_l fuel fs m top :
  m <> Strict ->
  match parse_aux fuel fs m top with
  | Ret a | Raise _ a =>
    forall e, In e (a_errs a) ->
    exists v, In v (doc_visits fuel fs top) /\ e_ctx e = Some (ctx_of v) /\ stands_in fs v
  | _ => True
  end.
Proof.
  intros Hm. pose proof (errors_spec_l fuel fs m top Hm) as H.
  destruct (parse_aux fuel fs m top) as [a|e0 a| |]; auto; intros e He; rewrite H in He;
    destruct (reports_located_l _ _ _ _ _ He) as [v [Hv Hc]]; exists v; repeat split; auto;
    apply (visits_stand_l fs fuel top v Hv).
Qed.

Lemma visits_stand_top fuel fs top v : In v (doc_visits fuel fs top) -> stands_in fs v.
Proof. apply visits_stand_l. Qed.

(* ---- inputs are read in place, other lines are ignored: the flattening of a file is the
   flattening of the lines before, then of the input, then of the lines after *)
Lemma seq_doc_assoc a b c : seq_doc (seq_doc a b) c = seq_doc a (seq_doc b c).
Proof.
  destruct a as [va sa], b as [vb sb], c as [vc sc]. destruct sa; cbn; auto.
  destruct sb; cbn; auto. now rewrite app_assoc.
Qed.

Lemma seq_doc_nil e : seq_doc ([], Complete) e = e.
Proof. destruct e; reflexivity. Qed.

Lemma expand_lines_cons erec name l rest k :
  expand_lines erec name (l :: rest) k =
  seq_doc (match match_command l with
           | None => ([], Complete)
           | Some (CInput, g) => erec g
           | Some (c, v) => ([mkvisit name k (strip l) c v], Complete)
           end) (expand_lines erec name rest (S k)).
Proof.
  cbn [expand_lines]. destruct (match_command l) as [[c v]|].
  - destruct c; destruct (expand_lines erec name rest (S k)); reflexivity.
  - now rewrite seq_doc_nil.
Qed.

Lemma expand_lines_app erec name : forall l1 l2 k,
  expand_lines erec name (l1 ++ l2) k =
  seq_doc (expand_lines erec name l1 k) (expand_lines erec name l2 (length l1 + k)).
Proof.
  induction l1 as [|l r IH]; intros l2 k.
  - cbn [app expand_lines length Nat.add]. now rewrite seq_doc_nil.
  - cbn [app]. rewrite !expand_lines_cons, IH, seq_doc_assoc. cbn [length].
    replace (length r + S k) with (S (length r) + k) by lia. reflexivity.
Qed.

Theorem inputs_read_in_place_l f fs name content pre l post g :
  fs name = Some content -> lines_of content = pre ++ l :: post ->
  match_command l = Some (CInput, g) ->
  expand (S f) fs name =
  seq_doc (expand_lines (expand f fs) name pre 1)
    (seq_doc (expand f fs g) (expand_lines (expand f fs) name post (S (length pre + 1)))).
Proof.
  intros HF HL HM. cbn [expand]. rewrite HF, HL, expand_lines_app, expand_lines_cons, HM. reflexivity.
Qed.

Theorem other_lines_ignored_l f fs name content pre l post :
  fs name = Some content -> lines_of content = pre ++ l :: post ->
  match_command l = None ->
  expand (S f) fs name =
  seq_doc (expand_lines (expand f fs) name pre 1) (expand_lines (expand f fs) name post (S (length pre + 1))).
Proof.
  intros HF HL HM. cbn [expand]. rewrite HF, HL, expand_lines_app, expand_lines_cons, HM, seq_doc_nil. reflexivity.
Qed.

Theorem command_line_visited_l f fs name content pre l post c v :
  fs name = Some content -> lines_of content = pre ++ l :: post ->
  match_command l = Some (c, v) -> c <> CInput ->
  expand (S f) fs name =
  seq_doc (expand_lines (expand f fs) name pre 1)
    (seq_doc ([mkvisit name (length pre + 1) (strip l) c v], Complete)
             (expand_lines (expand f fs) name post (S (length pre + 1)))).
Proof.
  intros HF HL HM HC. cbn [expand]. rewrite HF, HL, expand_lines_app, expand_lines_cons, HM.
  destruct c; try congruence; reflexivity.
Qed.

(* ---- enough fuel: if the \@input relation is well-founded (a rank decreases along it), fuel
   above the rank of the top file is never exhausted *)
Lemma expand_lines_deep (erec : str -> list visit * status) name : forall lines k,
  snd (expand_lines erec name lines k) = Deep ->
  exists l g, In l lines /\ match_command l = Some (CInput, g) /\ snd (erec g) = Deep.
Proof.
  induction lines as [|l rest IH]; intros k H; cbn [expand_lines] in H; [discriminate|].
  destruct (match_command l) as [[c v]|] eqn:EM.
  - destruct c.
    + destruct (expand_lines erec name rest (S k)) as [vs1 s1] eqn:E. cbn [snd] in H. subst s1.
      destruct (IH (S k)) as [l' [g (H1 & H2 & H3)]]; [rewrite E; reflexivity|]. exists l', g. repeat split; auto. now right.
    + destruct (expand_lines erec name rest (S k)) as [vs1 s1] eqn:E. cbn [snd] in H. subst s1.
      destruct (IH (S k)) as [l' [g (H1 & H2 & H3)]]; [rewrite E; reflexivity|]. exists l', g. repeat split; auto. now right.
    + destruct (expand_lines erec name rest (S k)) as [vs1 s1] eqn:E. cbn [snd] in H. subst s1.
      destruct (IH (S k)) as [l' [g (H1 & H2 & H3)]]; [rewrite E; reflexivity|]. exists l', g. repeat split; auto. now right.
    + destruct (erec v) as [vs0 s0] eqn:E0. destruct s0.
      * destruct (expand_lines erec name rest (S k)) as [vs1 s1] eqn:E. cbn [snd] in H. subst s1.
        destruct (IH (S k)) as [l' [g (H1 & H2 & H3)]]; [rewrite E; reflexivity|]. exists l', g. repeat split; auto. now right.
      * discriminate.
      * exists l, v. repeat split; auto; [now left|rewrite E0; reflexivity].
  - destruct (IH (S k) H) as [l' [g (H1 & H2 & H3)]]. exists l', g. repeat split; auto. now right.
Qed.

Theorem enough_fuel_l fs (rank : str -> nat) :
  (forall name content l g, fs name = Some content -> In l (lines_of content) ->
                            match_command l = Some (CInput, g) -> rank g < rank name) ->
  forall fuel top, rank top < fuel -> doc_status fuel fs top <> Deep.
Proof.
  intros HA. unfold doc_status. induction fuel as [|f IH]; intros top Hr; [lia|].
  cbn [expand]. destruct (fs top) as [content|] eqn:EF; [|discriminate].
  intros HD. destruct (expand_lines_deep (expand f fs) top (lines_of content) 1 HD) as [l [g (H1 & H2 & H3)]].
  apply (IH g); [|exact H3]. pose proof (HA top content l g EF H1 H2). lia.
Qed.

(* ---- non-strict mode reads exactly like capture mode (the reports are printed instead of collected) *)
Lemma aux_error_lenient k st : aux_error Lenient k st = aux_error Capture k st.
Proof. unfold aux_error. destruct (a_ctx st); reflexivity. Qed.

Lemma cite_keys_lenient : forall keys st, cite_keys Lenient keys st = cite_keys Capture keys st.
Proof.
  induction keys as [|key rest IH]; intros st; cbn [cite_keys]; [reflexivity|].
  destruct (dict_get (lower key) (a_canon st)) as [ex|].
  - destruct (str_eqb key ex); cbn [obind]; [apply IH|].
    rewrite aux_error_lenient. destruct (aux_error Capture (EMismatch key ex) st); cbn [obind]; auto.
  - cbn [obind]. apply IH.
Qed.

Lemma parse_lines_lenient rec rec' :
  (forall n s, rec n s = rec' n s) ->
  forall lines k st, parse_lines rec Lenient lines k st = parse_lines rec' Capture lines k st.
Proof.
  intros HR. induction lines as [|l rest IH]; intros k st; cbn [parse_lines]; [reflexivity|].
  assert (HL : parse_line rec Lenient l k st = parse_line rec' Capture l k st).
  { unfold parse_line. destruct (a_ctx st); [|reflexivity].
    destruct (match_command l) as [[cm vv]|]; [|reflexivity].
    destruct cm; cbn [handle_command].
    - apply cite_keys_lenient.
    - unfold handle_bibdata. destruct (a_data _); [apply aux_error_lenient|reflexivity].
    - unfold handle_bibstyle. destruct (a_style _); [apply aux_error_lenient|reflexivity].
    - apply HR. }
  rewrite HL. destruct (parse_line rec' Capture l k st); cbn [obind]; auto.
Qed.

Lemma parse_file_lenient fs : forall fuel name top st,
  parse_file fuel fs Lenient name top st = parse_file fuel fs Capture name top st.
Proof.
  induction fuel as [|f IH]; intros name top st; cbn [parse_file]; [reflexivity|].
  destruct (fs name); [|reflexivity].
  rewrite (parse_lines_lenient (fun n s => parse_file f fs Lenient n false s)
                               (fun n s => parse_file f fs Capture n false s)); [reflexivity|].
  intros n s0. apply IH.
Qed.

Theorem lenient_is_capture_l fuel fs top : parse_aux fuel fs Lenient top = parse_aux fuel fs Capture top.
Proof. apply parse_file_lenient. Qed.
