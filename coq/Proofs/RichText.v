(* Proofs/RichText.v -- lemmas about the rich-text model (property C08). *)
From Pybtex Require Import Base.Prelude Base.PyChar Base.PyStr Model.RtTypes Model.RichText.

(* ---- induction over rich-text trees (the datatype is nested through `list`) ---- *)
Section RtInd.
  Variable P : rt -> Prop.
  Hypothesis HStr : forall s, P (RStr s).
  Hypothesis HSym : forall n, P (RSym n).
  Hypothesis HText : forall ps, Forall P ps -> P (RText ps).
  Hypothesis HTag : forall n ps, Forall P ps -> P (RTag n ps).
  Hypothesis HHRef : forall u e ps, Forall P ps -> P (RHRef u e ps).
  Hypothesis HProt : forall ps, Forall P ps -> P (RProt ps).
  Fixpoint rt_ind' (t : rt) : P t :=
    let fix go (l : list rt) : Forall P l :=
      match l with
      | [] => Forall_nil P
      | x :: r => Forall_cons x (rt_ind' x) (go r)
      end in
    match t with
    | RStr s => HStr s
    | RSym n => HSym n
    | RText ps => HText ps (go ps)
    | RTag n ps => HTag n ps (go ps)
    | RHRef u e ps => HHRef u e ps (go ps)
    | RProt ps => HProt ps (go ps)
    end.
End RtInd.

Lemma length_concat_map {X} (f : X -> nat) (g : X -> flat_text) (l : list X) :
  Forall (fun x => length (g x) = f x) l -> length (concat (map g l)) = list_sum (map f l).
Proof.
  induction 1 as [|x l Hx _ IH]; cbn; [reflexivity|].
  rewrite app_length, Hx, IH. reflexivity.
Qed.

(* len(text) is the number of (atom, markup) pairs *)
Lemma flat_length t : length (flat t) = rlen t.
Proof.
  induction t using rt_ind'; cbn [flat rlen].
  - apply map_length.
  - reflexivity.
  - now apply length_concat_map.
  - rewrite map_length. now apply length_concat_map.
  - rewrite map_length. now apply length_concat_map.
  - rewrite map_length. now apply length_concat_map.
Qed.

From Pybtex Require Import Spec.Flat Spec.FlatOps.

(* ------------------------------------------------------------------------------ *)
(* the rendering up to `erase` *)
Definition flat_e (t : rt) : flat_text := erase (flat t).


Lemma erase_app a b : erase (a ++ b) = erase a ++ erase b.
Proof. apply map_app. Qed.
Lemma erase_concat l : erase (concat l) = concat (map erase l).
Proof. unfold erase. apply concat_map. Qed.
Lemma erase_push m f : erase (push_m m f) = push_m (erase_m m) (erase f).
Proof. unfold erase, push_m. rewrite !map_map. reflexivity. Qed.
Lemma erase_m_idem m : erase_m (erase_m m) = erase_m m.
Proof.
  destruct m; cbn; try reflexivity. unfold canon_name.
  destruct (str_eqb name _) eqn:E; [reflexivity|]. now rewrite E.
Qed.
Lemma erase_idem f : erase (erase f) = erase f.
Proof.
  unfold erase. rewrite map_map. apply map_ext. intros [a ms]. unfold erase_p; cbn.
  rewrite map_map. f_equal. apply map_ext. apply erase_m_idem.
Qed.
Lemma check_name_canon n : check_name n = canon_name n.
Proof. reflexivity. Qed.

Lemma flat_e_parts ps : erase (concat (map flat ps)) = concat (map flat_e ps).
Proof. rewrite erase_concat, map_map. reflexivity. Qed.

Lemma flat_e_text ps : flat_e (RText ps) = concat (map flat_e ps).
Proof. apply flat_e_parts. Qed.
Lemma flat_e_tag n ps : flat_e (RTag n ps) = push_m (MTag (canon_name n)) (concat (map flat_e ps)).
Proof. unfold flat_e. cbn [flat]. change (map (push ?m) ?f) with (push_m m f). now rewrite erase_push, flat_e_parts. Qed.
Lemma flat_e_href u e ps : flat_e (RHRef u e ps) = push_m (MHRef u false) (concat (map flat_e ps)).
Proof. unfold flat_e. cbn [flat]. change (map (push ?m) ?f) with (push_m m f). now rewrite erase_push, flat_e_parts. Qed.
Lemma flat_e_prot ps : flat_e (RProt ps) = push_m MProt (concat (map flat_e ps)).
Proof. unfold flat_e. cbn [flat]. change (map (push ?m) ?f) with (push_m m f). now rewrite erase_push, flat_e_parts. Qed.

Lemma canon_name_idem n : canon_name (canon_name n) = canon_name n.
Proof. unfold canon_name. destruct (str_eqb n _) eqn:E; [reflexivity|]. now rewrite E. Qed.

Lemma flat_e_build k ps : flat_e (build k ps) = erase (pushk k (concat (map flat ps))).
Proof.
  destruct k; unfold pushk; cbn [km build].
  - reflexivity.
  - rewrite flat_e_tag, erase_push, flat_e_parts. cbn [erase_m].
    change (check_name n) with (canon_name n). now rewrite canon_name_idem.
  - now rewrite flat_e_href, erase_push, flat_e_parts.
  - now rewrite flat_e_prot, erase_push, flat_e_parts.
Qed.

(* the same, from the erased renderings of the parts *)
Definition pushk_e (k : kind) (f : flat_text) : flat_text :=
  match km k with None => f | Some m => push_m (erase_m m) f end.
Lemma erase_pushk k f : erase (pushk k f) = pushk_e k (erase f).
Proof. unfold pushk, pushk_e. destruct (km k); [apply erase_push|reflexivity]. Qed.
Lemma flat_e_build' k ps : flat_e (build k ps) = pushk_e k (concat (map flat_e ps)).
Proof. now rewrite flat_e_build, erase_pushk, flat_e_parts. Qed.

(* ---- dropping empty parts and unpacking do not change the rendering ---- *)
Lemma rlen0_flat t : rlen t = 0 -> flat t = [].
Proof. intro H. apply length_zero_iff_nil. now rewrite flat_length. Qed.

Lemma concat_filter_nonempty raw :
  concat (map flat_e (filter nonempty raw)) = concat (map flat_e raw).
Proof.
  induction raw as [|p r IH]; cbn; [reflexivity|].
  unfold nonempty at 1. destruct (Nat.eqb_spec (rlen p) 0) as [E|E]; cbn.
  - unfold flat_e at 2. rewrite (rlen0_flat _ E). cbn. exact IH.
  - now rewrite IH.
Qed.

Lemma concat_unpack l : concat (map flat_e (flat_map unpack l)) = concat (map flat_e l).
Proof.
  induction l as [|p r IH]; cbn; [reflexivity|].
  rewrite map_app, concat_app, IH. f_equal.
  destruct p; cbn; rewrite ?app_nil_r; try reflexivity.
  symmetry; apply flat_e_text.
Qed.

(* ---- groupby ---- *)
Lemma groupby_nonnil l : Forall (fun g => g <> []) (groupby l).
Proof.
  induction l as [|x r IH]; cbn; [constructor|].
  destruct (groupby r) as [|[|y g] gs] eqn:E.
  - repeat constructor; discriminate.
  - repeat constructor; discriminate.
  - inversion IH; subst. destruct (tinfo_eqb _ _); repeat constructor; try discriminate; assumption.
Qed.

Lemma groupby_concat l : concat (groupby l) = l.
Proof.
  induction l as [|x r IH]; cbn; [reflexivity|].
  pose proof (groupby_nonnil r) as NN.
  destruct (groupby r) as [|[|y g] gs] eqn:E; cbn in *.
  - now subst.
  - inversion NN; congruence.
  - destruct (tinfo_eqb (typeinfo x) (typeinfo y)); cbn; now rewrite <- IH.
Qed.

Lemma tinfo_eqb_eq a b : tinfo_eqb a b = true -> a = b.
Proof.
  destruct a, b; cbn; try congruence; intro H;
    destruct (str_eqb_spec n n0) as [->|] || destruct (str_eqb_spec u u0) as [->|]; congruence.
Qed.

Definition homog (g : list rt) : Prop :=
  match g with [] => True | x :: r => Forall (fun y => typeinfo y = typeinfo x) r end.

Lemma groupby_homog l : Forall homog (groupby l).
Proof.
  induction l as [|x r IH]; cbn; [constructor|].
  destruct (groupby r) as [|[|y g] gs] eqn:E.
  - repeat constructor.
  - repeat constructor.
  - inversion IH as [|? ? Hg Hgs]; subst.
    destruct (tinfo_eqb (typeinfo x) (typeinfo y)) eqn:T.
    + apply tinfo_eqb_eq in T. constructor; [|exact Hgs].
      cbn. constructor; [now symmetry|].
      cbn in Hg. eapply Forall_impl; [|exact Hg]. cbn. intros z Hz. congruence.
    + constructor; [constructor|]. constructor; assumption.
Qed.


(* ------------------------------------------------------------------------------ *)
(* the constructor: rendering *)

Definition rec_ok (rec : kind -> list rt -> option rt) : Prop :=
  forall k raw v, rec k raw = Some v -> flat_e v = pushk_e k (concat (map flat_e raw)).

Lemma homog_strs x g : typeinfo x = TIStr -> Forall (fun y => typeinfo y = typeinfo x) g ->
  concat (map flat_e g) = flat_e (RStr (flat_map str_val (flat_map parts_of g))).
Proof.
  intros Hx H. induction H as [|y g Hy _ IH]; [reflexivity|].
  rewrite Hx in Hy. destruct y; try discriminate. cbn [map concat flat_map parts_of app str_val].
  rewrite IH. unfold flat_e, erase. cbn [flat]. now rewrite !map_app.
Qed.

Lemma push_m_app m a b : push_m m (a ++ b) = push_m m a ++ push_m m b.
Proof. apply map_app. Qed.

Lemma merge_group_flat rec g a : rec_ok rec -> homog g -> merge_group rec g = Some a ->
  concat (map flat_e a) = concat (map flat_e g).
Proof.
  intros Hrec Hh Hm. destruct g as [|x [|y r]].
  - cbn in Hm. now inversion Hm.
  - cbn in Hm. now inversion Hm.
  - unfold merge_group in Hm. cbn [homog] in Hh.
    assert (Hall : Forall (fun z => typeinfo z = typeinfo x) (x :: y :: r)) by (constructor; [reflexivity|exact Hh]).
    remember (x :: y :: r) as g eqn:Eg. clear Hh.
    destruct (typeinfo x) eqn:Tx.
    + now inversion Hm.
    + inversion Hm; subst a. cbn [map concat]. rewrite app_nil_r. symmetry.
      rewrite <- Tx in Hall. now apply (homog_strs x g Tx).
    + destruct (rec KText (flat_map parts_of g)) as [t|] eqn:R; inversion Hm; subst a.
      cbn [map concat]. rewrite app_nil_r, (Hrec _ _ _ R). unfold pushk_e; cbn [km].
      clear - Hall. induction Hall as [|z g Hz _ IH]; [reflexivity|].
      destruct z; try discriminate. cbn [flat_map parts_of map concat].
      rewrite map_app, concat_app, IH. now rewrite flat_e_text.
    + destruct (rec (KTag n) (flat_map parts_of g)) as [t|] eqn:R; inversion Hm; subst a.
      cbn [map concat]. rewrite app_nil_r, (Hrec _ _ _ R). unfold pushk_e; cbn [km erase_m].
      clear - Hall. induction Hall as [|z g Hz _ IH]; [reflexivity|].
      destruct z; try discriminate. inversion Hz; subst. cbn [flat_map parts_of map concat].
      rewrite map_app, concat_app, push_m_app, IH. now rewrite flat_e_tag.
    + destruct (rec (KHRef u false) (flat_map parts_of g)) as [t|] eqn:R; inversion Hm; subst a.
      cbn [map concat]. rewrite app_nil_r, (Hrec _ _ _ R). unfold pushk_e; cbn [km erase_m].
      clear - Hall. induction Hall as [|z g Hz _ IH]; [reflexivity|].
      destruct z; try discriminate. inversion Hz; subst. cbn [flat_map parts_of map concat].
      rewrite map_app, concat_app, push_m_app, IH. now rewrite flat_e_href.
    + destruct (rec KProt (flat_map parts_of g)) as [t|] eqn:R; inversion Hm; subst a.
      cbn [map concat]. rewrite app_nil_r, (Hrec _ _ _ R). unfold pushk_e; cbn [km erase_m].
      clear - Hall. induction Hall as [|z g Hz _ IH]; [reflexivity|].
      destruct z; try discriminate. cbn [flat_map parts_of map concat].
      rewrite map_app, concat_app, push_m_app, IH. now rewrite flat_e_prot.
Qed.

Lemma merge_all_flat rec gs a : rec_ok rec -> Forall homog gs -> merge_all rec gs = Some a ->
  concat (map flat_e a) = concat (map flat_e (concat gs)).
Proof.
  intros Hrec Hh. revert a. induction Hh as [|g gs Hg _ IH]; cbn; intros a Hm.
  - now inversion Hm.
  - destruct (merge_group rec g) as [x|] eqn:G; [|discriminate].
    destruct (merge_all rec gs) as [y|] eqn:A; [|discriminate]. inversion Hm; subst a.
    rewrite !map_app, !concat_app, (merge_group_flat _ _ _ Hrec Hg G), (IH _ eq_refl). reflexivity.
Qed.

Lemma mk_flat_e fuel : rec_ok (mk fuel).
Proof.
  induction fuel as [|f IH]; intros k raw v H; cbn in H; [discriminate|].
  destruct (merge_all (mk f) _) as [ps|] eqn:M; [|discriminate]. inversion H; subst v.
  rewrite flat_e_build'. f_equal.
  rewrite (merge_all_flat _ _ _ IH (groupby_homog _) M), groupby_concat, concat_unpack.
  apply concat_filter_nonempty.
Qed.

(* ------------------------------------------------------------------------------ *)
(* the constructor: the fuel given by `mkc` is enough, and nesting does not grow *)

Definition dle (d : nat) (l : list rt) : Prop := Forall (fun y => depth y <= d) l.

Lemma list_max_dle d l : list_max (map depth l) <= d <-> dle d l.
Proof. unfold dle. rewrite list_max_le, Forall_map. reflexivity. Qed.

Lemma dle_parts y d : depth y <= S d -> dle d (parts_of y).
Proof.
  destruct y; cbn [depth parts_of]; intro H; try (apply list_max_dle; lia).
  - constructor; [cbn; lia|constructor].
  - constructor.
Qed.

Lemma dle_flat_map_parts g d : dle (S d) g -> dle d (flat_map parts_of g).
Proof.
  induction 1 as [|y g Hy _ IH]; cbn; [constructor|].
  apply Forall_app; split; [now apply dle_parts|exact IH].
Qed.

Lemma dle_unpack l d : dle d l -> dle d (flat_map unpack l).
Proof.
  induction 1 as [|y g Hy _ IH]; cbn; [constructor|].
  apply Forall_app; split; [|exact IH].
  destruct y; try (constructor; [exact Hy|constructor]).
  cbn [unpack]. cbn [depth] in Hy. destruct d; [lia|].
  eapply Forall_impl; [|apply (dle_parts (RText parts) d Hy)]. cbn. intros; lia.
Qed.

Lemma dle_filter f l d : dle d l -> dle d (filter f l).
Proof.
  unfold dle. rewrite !Forall_forall. intros H y Hy. apply filter_In in Hy. now apply H.
Qed.

Lemma depth_build k ps d : dle d ps -> depth (build k ps) <= S d.
Proof. intro H. apply list_max_dle in H. destruct k; cbn [build depth]; lia. Qed.

Definition rec_total (rec : kind -> list rt -> option rt) (d : nat) : Prop :=
  forall k raw d', S d' = d -> dle d' raw -> exists t, rec k raw = Some t /\ depth t <= d.

Lemma merge_group_total rec d g : dle d g -> rec_total rec d ->
  exists a, merge_group rec g = Some a /\ dle d a.
Proof.
  intros Hg Hrec. destruct g as [|x [|y r]].
  - exists []. split; [reflexivity|constructor].
  - exists [x]. split; [reflexivity|exact Hg].
  - unfold merge_group. remember (x :: y :: r) as g eqn:Eg.
    assert (Hx : depth x <= d) by (subst g; now inversion Hg).
    assert (Hrc : forall k, 1 <= depth x ->
              exists a, option_map (fun t => [t]) (rec k (flat_map parts_of g)) = Some a /\ dle d a).
    { intros k H1. destruct d as [|d']; [lia|].
      destruct (Hrec k (flat_map parts_of g) d' eq_refl (dle_flat_map_parts _ _ Hg)) as [t [Ht Hd]].
      exists [t]. rewrite Ht. split; [reflexivity|]. constructor; [exact Hd|constructor]. }
    destruct x; cbn [typeinfo]; try (apply Hrc; cbn [depth]; lia).
    + eexists. split; [reflexivity|]. constructor; [cbn; lia|constructor].
    + exists g. split; [reflexivity|exact Hg].
Qed.

Lemma merge_all_total rec d gs : Forall (dle d) gs -> rec_total rec d ->
  exists a, merge_all rec gs = Some a /\ dle d a.
Proof.
  intros Hgs Hrec. induction Hgs as [|g gs Hg _ IH]; cbn.
  - exists []. split; [reflexivity|constructor].
  - destruct (merge_group_total rec d g Hg Hrec) as [a [Ha Hda]].
    destruct IH as [b [Hb Hdb]]. rewrite Ha, Hb. exists (a ++ b). split; [reflexivity|].
    apply Forall_app; split; assumption.
Qed.

Lemma dle_groups d l : dle d l -> Forall (dle d) (groupby l).
Proof.
  intro H. rewrite <- (groupby_concat l) in H. revert H. generalize (groupby l) as gs.
  induction gs as [|g gs IH]; cbn; intro H; [constructor|].
  apply Forall_app in H as [H1 H2]. constructor; [exact H1|now apply IH].
Qed.

Lemma mk_S f k raw : mk (S f) k raw =
  option_map (build k) (merge_all (mk f) (groupby (flat_map unpack (filter nonempty raw)))).
Proof. reflexivity. Qed.

Lemma mk_total f : forall k raw d, d <= f -> dle d raw ->
  exists v, mk (S f) k raw = Some v /\ depth v <= S d.
Proof.
  induction f as [|f IH]; intros k raw d Hd Hraw.
  - assert (d = 0) by lia; subst d. rewrite mk_S.
    destruct (merge_all_total (mk 0) 0 _ (dle_groups 0 _ (dle_unpack _ _ (dle_filter nonempty _ _ Hraw)))) as [a [Ha Hda]].
    { intros k' raw' d' E; discriminate. }
    rewrite Ha. eexists. split; [reflexivity|]. now apply depth_build.
  - rewrite mk_S.
    destruct (merge_all_total (mk (S f)) d _ (dle_groups d _ (dle_unpack _ _ (dle_filter nonempty _ _ Hraw)))) as [a [Ha Hda]].
    { intros k' raw' d' E Hr. subst d. destruct (IH k' raw' d' ltac:(lia) Hr) as [t [Ht Hdt]]. exists t. split; [exact Ht|exact Hdt]. }
    rewrite Ha. eexists. split; [reflexivity|]. now apply depth_build.
Qed.

Lemma dle_ldepth raw : dle (ldepth raw) raw.
Proof. apply list_max_dle. unfold ldepth. lia. Qed.

Lemma mkc_total k raw : exists v, mkc k raw = Ok v /\ depth v <= S (ldepth raw).
Proof.
  unfold mkc. destruct (mk_total (S (ldepth raw)) k raw (ldepth raw) ltac:(lia) (dle_ldepth raw)) as [v [Hv Hd]].
  rewrite Hv. exists v. split; [reflexivity|exact Hd].
Qed.

Lemma mkc_flat_e k raw v : mkc k raw = Ok v -> flat_e v = pushk_e k (concat (map flat_e raw)).
Proof.
  unfold mkc. destruct (mk _ k raw) as [t|] eqn:E; cbn; [|discriminate].
  intro H; inversion H; subst. eapply mk_flat_e; eassumption.
Qed.

(* ctor_flat: construction from nested parts renders as the concatenation of the parts'
   renderings inside the constructor's markup (up to `erase`) *)
Theorem ctor_flat_e k raw : exists v, mkc k raw = Ok v /\
  erase (flat v) = erase (pushk k (concat (map flat raw))).
Proof.
  destruct (mkc_total k raw) as [v [Hv _]]. exists v. split; [exact Hv|].
  change (erase (flat v)) with (flat_e v). rewrite (mkc_flat_e _ _ _ Hv), erase_pushk, flat_e_parts. reflexivity.
Qed.

(* ------------------------------------------------------------------------------ *)
(* str() *)
Lemma flat_str_app a b : flat_str (a ++ b) = flat_str a ++ flat_str b.
Proof. unfold flat_str. now rewrite flat_map_app. Qed.
Lemma flat_str_push m f : flat_str (push_m m f) = flat_str f.
Proof. unfold flat_str, push_m. induction f as [|p f IH]; cbn; [reflexivity|]. now rewrite IH. Qed.
Lemma flat_str_concat (ps : list rt) : Forall (fun p => rstr p = flat_str (flat p)) ps ->
  concat (map rstr ps) = flat_str (concat (map flat ps)).
Proof.
  induction 1 as [|p ps Hp _ IH]; cbn; [reflexivity|]. now rewrite flat_str_app, Hp, IH.
Qed.
Lemma str_flat_lem t : rstr t = flat_str (flat t).
Proof.
  induction t using rt_ind'; cbn [rstr flat];
    try (change (map (push ?m) ?f) with (push_m m f); rewrite flat_str_push);
    try now apply flat_str_concat.
  - unfold flat_str. induction s as [|c s IH]; cbn; [reflexivity|]. now rewrite <- IH.
  - cbn. now rewrite app_nil_r.
Qed.

(* ------------------------------------------------------------------------------ *)
(* multipart values *)
Lemma flat_e_kind t : is_multipart t = true ->
  flat_e t = pushk_e (kind_of t) (concat (map flat_e (parts_of t))).
Proof.
  destruct t; cbn [is_multipart]; try discriminate; intros _; unfold pushk_e; cbn [kind_of km parts_of erase_m].
  - apply flat_e_text.
  - apply flat_e_tag.
  - apply flat_e_href.
  - apply flat_e_prot.
Qed.

Lemma create_similar_spec t ps : exists v, create_similar t ps = Ok v /\
  flat_e v = pushk_e (kind_of t) (concat (map flat_e ps)) /\ depth v <= S (ldepth ps).
Proof.
  unfold create_similar. destruct (mkc_total (kind_of t) ps) as [v [Hv Hd]].
  exists v. repeat split; [exact Hv| |exact Hd]. now apply mkc_flat_e.
Qed.

Lemma mapM_spec {X Y} (g : X -> res Y) (Q : X -> Y -> Prop) l :
  Forall (fun x => exists y, g x = Ok y /\ Q x y) l ->
  exists ys, mapM g l = Ok ys /\ Forall2 Q l ys.
Proof.
  induction 1 as [|x l [y [Hy Hq]] _ [ys [Hys Hf]]]; cbn.
  - exists []. split; [reflexivity|constructor].
  - rewrite Hy; cbn. rewrite Hys; cbn. exists (y :: ys). split; [reflexivity|now constructor].
Qed.

(* ------------------------------------------------------------------------------ *)
(* upper / lower *)
Lemma protected_erase p : protected (erase_p p) = protected p.
Proof.
  unfold protected, erase_p; cbn. induction (snd p) as [|m ms IH]; cbn; [reflexivity|].
  rewrite IH. now destruct m.
Qed.
Lemma conv_erase up f : erase (map (conv_pair up) f) = map (conv_pair up) (erase f).
Proof.
  unfold erase. rewrite !map_map. apply map_ext. intro p. unfold conv_pair.
  rewrite protected_erase. destruct (protected p); reflexivity.
Qed.
Lemma conv_push up m f : is_prot m = false ->
  map (conv_pair up) (push_m m f) = push_m m (map (conv_pair up) f).
Proof.
  intro H. unfold push_m. rewrite !map_map. apply map_ext. intros [a ms].
  unfold conv_pair, protected; cbn. rewrite H; cbn. now destruct (existsb is_prot ms).
Qed.
Lemma conv_push_prot up f : map (conv_pair up) (push_m MProt f) = push_m MProt f.
Proof.
  unfold push_m. rewrite map_map. apply map_ext. intros [a ms]. reflexivity.
Qed.
Lemma conv_concat up (l : list flat_text) :
  map (conv_pair up) (concat l) = concat (map (map (conv_pair up)) l).
Proof. apply concat_map. Qed.

Lemma dle_parts_lt t f : depth t <= S f -> Forall (fun p => depth p <= f) (parts_of t).
Proof. apply dle_parts. Qed.

Lemma case_conv_spec up f : forall t, depth t <= f ->
  exists v, case_conv (S f) up t = Ok v /\ flat_e v = map (conv_pair up) (flat_e t).
Proof.
  induction f as [|f IH]; intros t Hd.
  - destruct t; cbn [depth] in Hd; try lia.
    + eexists; split; [reflexivity|]. unfold flat_e, erase; cbn [flat]. rewrite !map_map.
      destruct up; unfold upper, lower; rewrite map_map; reflexivity.
    + eexists; split; [reflexivity|reflexivity].
  - assert (Hmulti : is_multipart t = true -> (forall ps, t <> RProt ps) ->
        exists v, (do ps <- mapM (case_conv (S f) up) (parts_of t); create_similar t ps) = Ok v /\
                  flat_e v = map (conv_pair up) (flat_e t)).
    { intros Hm Hnp.
      destruct (mapM_spec (case_conv (S f) up) (fun p v => flat_e v = map (conv_pair up) (flat_e p)) (parts_of t)) as [vs [Hvs HF]].
      { eapply Forall_impl; [|apply (dle_parts_lt t f Hd)]. cbn. intros p Hp. apply IH, Hp. }
      rewrite Hvs; cbn. destruct (create_similar_spec t vs) as [v [Hv [Hfl _]]].
      exists v. split; [exact Hv|]. rewrite Hfl, (flat_e_kind t Hm).
      assert (E : concat (map flat_e vs) = map (conv_pair up) (concat (map flat_e (parts_of t)))).
      { rewrite conv_concat, map_map. f_equal. clear - HF. induction HF; cbn; [reflexivity|]. now f_equal. }
      rewrite E. unfold pushk_e. destruct t; cbn [is_multipart] in Hm; try discriminate; cbn [kind_of km erase_m].
      - reflexivity.
      - now rewrite conv_push.
      - now rewrite conv_push.
      - exfalso. now apply (Hnp parts). }
    destruct t.
    + eexists; split; [reflexivity|]. unfold flat_e, erase; cbn [flat]. rewrite !map_map.
      destruct up; unfold upper, lower; rewrite map_map; reflexivity.
    + eexists; split; [reflexivity|reflexivity].
    + apply Hmulti; [reflexivity|discriminate].
    + apply Hmulti; [reflexivity|discriminate].
    + apply Hmulti; [reflexivity|discriminate].
    + eexists; split; [reflexivity|]. now rewrite flat_e_prot, conv_push_prot.
Qed.

Theorem case_flat_e up t : exists v, case_c up t = Ok v /\
  erase (flat v) = erase (map (conv_pair up) (flat t)).
Proof.
  destruct (case_conv_spec up (depth t) t (le_n _)) as [v [Hv Hf]].
  exists v. split; [exact Hv|]. rewrite conv_erase. exact Hf.
Qed.

(* ------------------------------------------------------------------------------ *)
(* + , append, join *)
Theorem add_flat_e a b : exists v, add a b = Ok v /\ erase (flat v) = erase (flat a ++ flat b).
Proof.
  unfold add. destruct (mkc_total KText [a; b]) as [v [Hv _]]. exists v. split; [exact Hv|].
  change (erase (flat v)) with (flat_e v). rewrite (mkc_flat_e _ _ _ Hv). unfold pushk_e; cbn.
  now rewrite app_nil_r, erase_app.
Qed.


Theorem append_flat_e t x : exists v, append t x = Ok v /\
  erase (flat v) = erase (flat t ++ push_top t (flat x)).
Proof.
  unfold append. destruct (is_multipart t) eqn:Hm.
  - destruct (create_similar_spec t (parts_of t ++ [x])) as [v [Hv [Hf _]]].
    exists v. split; [exact Hv|]. change (erase (flat v)) with (flat_e v).
    rewrite Hf, map_app, concat_app, erase_app. cbn [map concat]. rewrite app_nil_r.
    change (erase (flat t)) with (flat_e t). rewrite (flat_e_kind t Hm).
    unfold pushk_e, push_top. destruct t; cbn [is_multipart] in Hm; try discriminate; cbn [kind_of km top_markup erase_m];
      rewrite ?push_m_app, ?erase_push; reflexivity.
  - destruct (add_flat_e t x) as [v [Hv Hf]]. exists v. split; [exact Hv|]. rewrite Hf.
    unfold push_top. destruct t; cbn [is_multipart] in Hm; try discriminate; reflexivity.
Qed.

Lemma join_list_flat sep ps :
  concat (map flat_e (join_list sep ps)) = join_flat (flat_e sep) (map flat_e ps).
Proof.
  induction ps as [|p [|q r] IH]; cbn [join_list map concat join_flat]; [reflexivity|now rewrite app_nil_r|].
  cbn [join_list map concat join_flat] in IH. now rewrite IH.
Qed.

Lemma erase_join sep items : erase (join_flat sep items) = join_flat (erase sep) (map erase items).
Proof.
  induction items as [|x [|y r] IH]; cbn [join_flat map]; [reflexivity|reflexivity|].
  rewrite !erase_app. cbn [join_flat map] in IH. now rewrite IH.
Qed.

Theorem join_flat_e sep ps : exists v, rjoin sep ps = Ok v /\
  erase (flat v) = erase (join_flat (flat sep) (map flat ps)).
Proof.
  unfold rjoin. destruct (mkc_total KText (join_list sep ps)) as [v [Hv _]]. exists v. split; [exact Hv|].
  change (erase (flat v)) with (flat_e v). rewrite (mkc_flat_e _ _ _ Hv). unfold pushk_e; cbn [km].
  rewrite join_list_flat, erase_join, map_map. reflexivity.
Qed.

(* ------------------------------------------------------------------------------ *)
(* the exact statements fail on external hyperlinks (F10) *)
Lemma ctor_flat_exact_refuted : exists k raw v, mkc k raw = Ok v /\
  flat v <> pushk k (concat (map flat raw)).
Proof.
  exists KText, [RHRef [117%N] true [RStr [97%N]]; RHRef [117%N] true [RStr [98%N]]].
  eexists. split; [vm_compute; reflexivity|]. vm_compute. discriminate.
Qed.
Lemma case_flat_exact_refuted : exists up t v, case_c up t = Ok v /\
  flat v <> map (conv_pair up) (flat t).
Proof.
  exists true, (RHRef [117%N] true [RStr [120%N]]).
  eexists. split; [vm_compute; reflexivity|]. vm_compute. discriminate.
Qed.
