(* Proofs/RichText.v -- lemmas about the rich-text model (property C08). *)
From Pybtex Require Import Base.Prelude Base.PyChar Base.PyStr Model.RtTypes Model.RichText.

(* ---- induction over rich-text trees (the datatype is nested through `list`) ---- *)
Section RtInd.
  Variable P : rt -> Prop.
  Hypothesis HStr : forall s, P (RStr s).
  Hypothesis HSym : forall n, P (RSym n).
  Hypothesis HText : forall ps, Forall P ps -> P (RText ps).
  Hypothesis HTag : forall n ps, Forall P ps -> P (RTag n ps).
  Hypothesis HHRef : forall u e ps, Forall P ps -> P (RHRef u e ps).
  Hypothesis HProt : forall ps, Forall P ps -> P (RProt ps).
  Fixpoint rt_ind' (t : rt) : P t :=
    let fix go (l : list rt) : Forall P l :=
      match l with
      | [] => Forall_nil P
      | x :: r => Forall_cons x (rt_ind' x) (go r)
      end in
    match t with
    | RStr s => HStr s
    | RSym n => HSym n
    | RText ps => HText ps (go ps)
    | RTag n ps => HTag n ps (go ps)
    | RHRef u e ps => HHRef u e ps (go ps)
    | RProt ps => HProt ps (go ps)
    end.
End RtInd.

Lemma length_concat_map {X} (f : X -> nat) (g : X -> flat_text) (l : list X) :
  Forall (fun x => length (g x) = f x) l -> length (concat (map g l)) = list_sum (map f l).
Proof.
  induction 1 as [|x l Hx _ IH]; cbn; [reflexivity|].
  rewrite app_length, Hx, IH. reflexivity.
Qed.

(* len(text) is the number of (atom, markup) pairs *)
Lemma flat_length t : length (flat t) = rlen t.
Proof.
  induction t using rt_ind'; cbn [flat rlen].
  - apply map_length.
  - reflexivity.
  - now apply length_concat_map.
  - rewrite map_length. now apply length_concat_map.
  - rewrite map_length. now apply length_concat_map.
  - rewrite map_length. now apply length_concat_map.
Qed.
