(* Proofs/EnginesCli.v -- the command line (Model/Engines.v command_line / command_line_argv / cli_aux_name):
   the run is the explicit engine call with exactly the style / format / min_crossrefs the options spell
   (last occurrence wins, the style name handed on unchanged whatever characters it contains), on the file
   name with '.aux' appended exactly when posixpath.splitext does not already give that extension. *)
From Pybtex Require Import Base.Prelude Base.PyChar Base.PyStr Model.BibtexStr Model.Wrap Model.Bst Model.Engines.
From Pybtex Require Import Proofs.Wrap Proofs.Engines.

(* posixpath.splitext(f)[1] *)
Definition splitext_ext (f : str) : str := skipn (length (splitext_root f)) f.

Lemma firstn_prefix {X} (l : list X) n : exists t, l = firstn n l ++ t.
Proof. exists (skipn n l). now rewrite firstn_skipn. Qed.

Lemma splitext_root_prefix f : exists t, f = splitext_root f ++ t.
Proof.
  unfold splitext_root. destruct (last_index 46%N f 0 None) as [dot|]; [|exists []; now rewrite app_nil_r].
  destruct (Nat.ltb dot _); [exists []; now rewrite app_nil_r|].
  destruct (forallb _ _); [exists []; now rewrite app_nil_r|]. apply firstn_prefix.
Qed.
Lemma splitext_parts f : f = splitext_root f ++ splitext_ext f.
Proof.
  unfold splitext_ext. destruct (splitext_root_prefix f) as [t Ht].
  remember (splitext_root f) as r eqn:Er. clear Er. subst f. now rewrite skipn_app_exact.
Qed.

Lemma cli_aux_name_spec f :
  (splitext_ext f = s_aux -> cli_aux_name f = f) /\ (splitext_ext f <> s_aux -> cli_aux_name f = f ++ s_aux).
Proof.
  unfold cli_aux_name. fold (splitext_ext f).
  destruct (str_eqb_spec (splitext_ext f) s_aux); split; congruence.
Qed.

(* the last occurrence of an option counts; a style name is handed on as it is *)
Lemma cli_style_last opts s rest : cli_style rest = None -> cli_style (opts ++ OptStyle s :: rest) = Some s.
Proof.
  intros Hr. induction opts as [|o opts IH]; cbn; [now rewrite Hr|]. now rewrite IH.
Qed.
Lemma cli_style_none opts : (forall s, ~ In (OptStyle s) opts) -> cli_style opts = None.
Proof.
  induction opts as [|o opts IH]; intros H; [reflexivity|]. cbn.
  rewrite IH by (intros s Hs; apply (H s); now right).
  destruct o; try reflexivity. exfalso. apply (H s). now left.
Qed.
Lemma cli_format_last opts f rest : cli_format rest = None -> cli_format (opts ++ OptFormat f :: rest) = Some f.
Proof.
  intros Hr. induction opts as [|o opts IH]; cbn; [now rewrite Hr|]. now rewrite IH.
Qed.
Lemma cli_min_crossrefs_last opts m rest : cli_min_crossrefs rest = None ->
  cli_min_crossrefs (opts ++ OptMinCrossrefs m :: rest) = Some m.
Proof.
  intros Hr. induction opts as [|o opts IH]; cbn; [now rewrite Hr|]. now rewrite IH.
Qed.

Section Cli.
  Variable fmt_name : str -> str -> res str.
  Variable cw : char -> Z.
  Variable fuel : nat.

  (* the command line is make_bibliography with what the options spell *)
  Lemma command_line_argv_is fs opts filename :
    command_line_argv fmt_name cw fuel fs opts filename =
    make_bibliography fmt_name cw fuel fs (cli_aux_name filename) (cli_style opts) (cli_format opts)
                      (match cli_min_crossrefs opts with Some m => m | None => 2%Z end).
  Proof. reflexivity. Qed.

  (* ... hence the explicit engine call: what the .aux file says, the style as spelled *)
  Lemma command_line_explicit fs opts filename ad sty data :
    let aux := cli_aux_name filename in
    let m := match cli_min_crossrefs opts with Some m => m | None => 2%Z end in
    aux_parse_file aux_depth fs aux = Ok ad -> ax_data ad = Some data ->
    (match cli_style opts with Some s => Some s | None => ax_style ad end) = Some sty ->
    let fmt := match cli_format opts with Some f => f | None => 0 end in
    match format_from_files fmt_name cw fuel fs (map (fun n => BName (n ++ suffix_of fmt)) data) sty
                            (Some (ax_cites ad)) (cli_format opts) m None false with
    | Ok o => exists bbl, o = mkOut fs (Some bbl) (o_reports o) /\
              command_line_argv fmt_name cw fuel fs opts filename =
              Ok (mkOut (fs_write fs (splitext_root aux ++ s_bbl) bbl) None (ax_reports ad + o_reports o))
    | PyErr c l => command_line_argv fmt_name cw fuel fs opts filename = PyErr c l
    | Crash => command_line_argv fmt_name cw fuel fs opts filename = Crash
    | OutOfFuel => command_line_argv fmt_name cw fuel fs opts filename = OutOfFuel
    end.
  Proof.
    intros aux m Hp Hd Hs fmt. rewrite command_line_argv_is.
    exact (make_bibliography_explicit fmt_name cw fuel fs aux (cli_style opts) (cli_format opts) m ad sty data Hp Hd Hs).
  Qed.

  (* the clause C06n broke: with -s S as the last style option the style in force is S itself *)
  Lemma command_line_style_unchanged fs opts rest s filename ad data :
    cli_style rest = None ->
    let o := opts ++ OptStyle s :: rest in
    let aux := cli_aux_name filename in
    let m := match cli_min_crossrefs o with Some m => m | None => 2%Z end in
    aux_parse_file aux_depth fs aux = Ok ad -> ax_data ad = Some data ->
    let fmt := match cli_format o with Some f => f | None => 0 end in
    match format_from_files fmt_name cw fuel fs (map (fun n => BName (n ++ suffix_of fmt)) data) s
                            (Some (ax_cites ad)) (cli_format o) m None false with
    | Ok r => exists bbl, r = mkOut fs (Some bbl) (o_reports r) /\
              command_line_argv fmt_name cw fuel fs o filename =
              Ok (mkOut (fs_write fs (splitext_root aux ++ s_bbl) bbl) None (ax_reports ad + o_reports r))
    | PyErr c l => command_line_argv fmt_name cw fuel fs o filename = PyErr c l
    | Crash => command_line_argv fmt_name cw fuel fs o filename = Crash
    | OutOfFuel => command_line_argv fmt_name cw fuel fs o filename = OutOfFuel
    end.
  Proof.
    intros Hr o aux m Hp Hd fmt.
    apply (command_line_explicit fs o filename ad s data Hp Hd).
    unfold o. now rewrite (cli_style_last opts s rest Hr).
  Qed.
End Cli.

Lemma cli_aux_name_full_spec f :
  f = splitext_root f ++ splitext_ext f /\
  (splitext_ext f = s_aux -> cli_aux_name f = f) /\ (splitext_ext f <> s_aux -> cli_aux_name f = f ++ s_aux).
Proof. split; [apply splitext_parts|apply cli_aux_name_spec]. Qed.
Lemma cli_last_option_lemma opts rest :
  (forall s, cli_style rest = None -> cli_style (opts ++ OptStyle s :: rest) = Some s) /\
  (forall f, cli_format rest = None -> cli_format (opts ++ OptFormat f :: rest) = Some f) /\
  (forall m, cli_min_crossrefs rest = None -> cli_min_crossrefs (opts ++ OptMinCrossrefs m :: rest) = Some m) /\
  ((forall s, ~ In (OptStyle s) opts) -> cli_style opts = None).
Proof.
  repeat split; intros.
  - now apply cli_style_last. - now apply cli_format_last. - now apply cli_min_crossrefs_last. - now apply cli_style_none.
Qed.
