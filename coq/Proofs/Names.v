(* Proofs/Names.v -- lemmas about Model/Names.v (Person._parse_string): totality, token
   conservation, the von/last boundary.  The statements exported to Props/C04.v are at the end. *)
From Pybtex Require Import Base.Prelude Base.PyChar Base.PyStr Model.BibtexStr Model.Names Spec.Names Proofs.NamesSplit.

Lemma person_of_empty : person_of_string [] = Ok (empty_person, false).
Proof. reflexivity. Qed.

Definition isvon (t : str) : Prop := is_von_name t = Ok true.
Definition notvon (t : str) : Prop := is_von_name t = Ok false.

(* ------------------------------------------------------------------------------------ *)
(* totality of the pieces *)

Lemma scan_go_good : forall s level sp, good (scan_go s level sp).
Proof.
  induction s as [|c t IH]; intros level sp; cbn [scan_go].
  - destruct sp as [[d acc]|]; exact I.
  - destruct sp as [[d acc]|].
    + destruct (is_lbrace c).
      * destruct (Nat.ltb _ _); [exact I|apply IH].
      * destruct (is_rbrace c); [|apply IH].
        destruct d; [|apply IH]. apply good_bind; [apply IH|]. intros; exact I.
    + destruct (is_lbrace c).
      * destruct (_ && _). { apply good_bind; [apply IH|intros; exact I]. }
        destruct (Nat.ltb _ _); [exact I|]. apply good_bind; [apply IH|intros; exact I].
      * destruct (_ && _); (apply good_bind; [apply IH|intros; exact I]).
Qed.

Lemma is_von_name_good t : t <> [] -> good (is_von_name t).
Proof.
  destruct t as [|c t]; [congruence|]. intros _. unfold is_von_name.
  destruct (uni_is_upper c); [exact I|]. destruct (uni_is_lower c); [exact I|].
  apply good_bind; [apply scan_go_good|intros; exact I].
Qed.

Lemma find_pos_good l : Forall (fun t => t <> []) l -> good (find_pos l).
Proof.
  induction 1 as [|x l Hx Hl IH]; cbn [find_pos]; [exact I|].
  apply good_bind; [now apply is_von_name_good|]. intros b _. destruct b; [exact I|].
  apply good_bind; [exact IH|]. intros; exact I.
Qed.

(* ------------------------------------------------------------------------------------ *)
(* find_pos / split_at / rsplit_at *)

Lemma find_pos_spec l : forall n, find_pos l = Ok n ->
  exists a b, l = a ++ b /\ length a = n /\ Forall notvon a /\ (b = [] \/ exists x b', b = x :: b' /\ isvon x).
Proof.
  induction l as [|x l IH]; intros n H; cbn [find_pos] in H.
  - inversion H. exists [], []. repeat split; auto.
  - destruct (is_von_name x) as [b| | |] eqn:E; cbn [bind] in H; try discriminate.
    destruct b.
    + inversion H; subst. exists [], (x :: l). repeat split; auto. right. exists x, l. auto.
    + destruct (find_pos l) as [m| | |] eqn:F; cbn [bind] in H; try discriminate. inversion H; subst.
      destruct (IH m eq_refl) as (a & b & -> & Hl & Ha & Hb).
      exists (x :: a), b. repeat split; cbn; auto.
Qed.

Lemma split_at_spec l a b : split_at l = Ok (a, b) ->
  l = a ++ b /\ Forall notvon a /\ (b = [] \/ exists x b', b = x :: b' /\ isvon x).
Proof.
  unfold split_at. destruct (find_pos l) as [n| | |] eqn:F; cbn [bind]; try discriminate.
  intros [= <- <-]. destruct (find_pos_spec l n F) as (a & b & -> & <- & Ha & Hb).
  rewrite firstn_app, Nat.sub_diag, firstn_all, skipn_app, Nat.sub_diag, skipn_all. cbn. rewrite !app_nil_r. auto.
Qed.

Lemma rsplit_at_spec l a b : rsplit_at l = Ok (a, b) ->
  l = a ++ b /\ Forall notvon b /\ (a = [] \/ exists a' x, a = a' ++ [x] /\ isvon x).
Proof.
  unfold rsplit_at. destruct (find_pos (rev l)) as [n| | |] eqn:F; cbn [bind]; try discriminate.
  intros [= <- <-]. destruct (find_pos_spec _ n F) as (a & b & E & <- & Ha & Hb).
  assert (El : l = rev b ++ rev a) by (rewrite <- rev_app_distr, <- E, rev_involutive; reflexivity).
  assert (Ep : length l - length a = length (rev b)).
  { rewrite El, app_length, !rev_length. lia. }
  rewrite Ep. clear Ep F E. subst l.
  rewrite firstn_app, Nat.sub_diag, firstn_all, skipn_app, Nat.sub_diag, skipn_all. cbn. rewrite !app_nil_r.
  split; [reflexivity|]. split.
  - apply Forall_rev. exact Ha.
  - destruct Hb as [->|(x & b' & -> & Hx)]; [left; reflexivity|]. right. exists (rev b'), x. cbn. auto.
Qed.

Lemma rsplit_at_good l : Forall (fun t => t <> []) l -> good (rsplit_at l).
Proof.
  intros H. unfold rsplit_at. apply good_bind; [|intros; exact I].
  apply find_pos_good. apply Forall_rev. exact H.
Qed.

(* ------------------------------------------------------------------------------------ *)
(* list helpers *)
Lemma removelast_snoc {X} (l : list X) x : removelast (l ++ [x]) = l.
Proof. rewrite removelast_app by discriminate. cbn. apply app_nil_r. Qed.

Lemma snoc_cases {X} (l : list X) : l = [] \/ exists l' x, l = l' ++ [x].
Proof.
  destruct l as [|y l]; [left; reflexivity|]. right.
  destruct (@exists_last _ (y :: l)) as (l' & a & E); [discriminate|]. eauto.
Qed.

Lemma Forall_removelast {X} (P : X -> Prop) l : Forall P l -> Forall P (removelast l).
Proof.
  destruct (snoc_cases l) as [->|(l' & x & ->)]; [auto|]. rewrite removelast_snoc.
  intros H. apply Forall_app in H. tauto.
Qed.

(* ------------------------------------------------------------------------------------ *)
(* process_von_last: the von part ends at the last von token that is not the last token *)

Lemma process_von_last_spec p parts p' : process_von_last p parts = Ok p' ->
  exists von lst,
    parts = von ++ lst /\
    p' = mkPerson (p_first p) (p_middle p) (p_prelast p ++ von) (p_last p ++ lst) (p_lineage p) /\
    (parts <> [] -> lst <> []) /\
    Forall notvon (removelast lst) /\
    (von = [] \/ exists v' x, von = v' ++ [x] /\ isvon x).
Proof.
  unfold process_von_last.
  destruct (snoc_cases parts) as [->|(init & z & ->)].
  - cbn. intros [= <-]. exists [], []. repeat split; auto. constructor.
  - rewrite removelast_snoc, last_last.
    assert (Ed : match init ++ [z] with [] => [] | _ :: _ => [z] end = [z]) by (destruct init; reflexivity).
    rewrite Ed. clear Ed.
    destruct init as [|i0 init'].
    + cbn [bind fst snd app]. intros [= <-]. exists [], [z]. repeat split; auto. cbn. constructor.
    + destruct (rsplit_at (i0 :: init')) as [[a b]| | |] eqn:R; cbn [bind fst snd]; try discriminate.
      intros [= <-]. apply rsplit_at_spec in R as (E & Hb & Ha).
      exists a, (b ++ [z]). rewrite E. repeat split.
      * now rewrite app_assoc.
      * intros _ H. apply app_eq_nil in H as [_ H]. discriminate.
      * rewrite removelast_snoc. exact Hb.
      * exact Ha.
Qed.

Lemma process_von_last_good p parts : Forall (fun t => t <> []) parts -> good (process_von_last p parts).
Proof.
  intros H. unfold process_von_last. apply good_bind; [|intros; exact I].
  destruct (snoc_cases parts) as [->|(init & z & ->)]; [exact I|].
  rewrite removelast_snoc. apply Forall_app in H as [H _].
  destruct init; [exact I|]. now apply rsplit_at_good.
Qed.

Lemma process_first_middle_spec parts :
  process_first_middle empty_person parts = mkPerson (firstn 1 parts) (skipn 1 parts) [] [] [].
Proof. destruct parts; reflexivity. Qed.

(* ------------------------------------------------------------------------------------ *)
(* Person(string) = _parse_string(string.strip()) (the explicit part arguments are all "") *)

Lemma split_space_nil : split_tex_space [] = Ok [].
Proof. reflexivity. Qed.

Lemma person_of_string_eq s : person_of_string s =
  match strip s with [] => Ok (empty_person, false) | _ :: _ => parse_string empty_person (strip s) end.
Proof.
  unfold person_of_string, person_init. rewrite split_space_nil.
  destruct (strip s) as [|c t]; [reflexivity|].
  destruct (parse_string empty_person (c :: t)) as [[p rep]| | |]; cbn [bind]; try reflexivity.
  rewrite !app_nil_r. destruct p; reflexivity.
Qed.

Lemma split_space_ok s : exists ts, split_tex_space s = Ok ts /\ Forall (fun t => t <> []) ts.
Proof.
  destruct (split_gen_good sep_space s true true) as [ts H]. exists ts. split; [exact H|].
  now apply split_space_tokens_nonempty in H.
Qed.

(* the decomposition that all three forms share *)
Record von_last_ok (ta : list str) (p : person) : Prop := {
  vl_tokens : ta = p_prelast p ++ p_last p;
  vl_last_nonempty : ta <> [] -> p_last p <> [];
  vl_last_notvon : Forall notvon (removelast (p_last p));
  vl_von_ends_von : p_prelast p = [] \/ exists v' x, p_prelast p = v' ++ [x] /\ isvon x }.

Lemma isvon_notvon t : isvon t -> notvon t -> False.
Proof. unfold isvon, notvon. congruence. Qed.

Lemma finish_von_last fm' vl' p rep :
  (do p1 <- process_von_last (process_first_middle empty_person fm') vl'; Ok (p1, false)) = Ok (p, rep) ->
  rep = false /\ exists von lst, vl' = von ++ lst /\ p = mkPerson (firstn 1 fm') (skipn 1 fm') von lst [] /\
    (vl' <> [] -> lst <> []) /\ Forall notvon (removelast lst) /\ (von = [] \/ exists v' x, von = v' ++ [x] /\ isvon x).
Proof.
  destruct (process_von_last _ vl') as [p1| | |] eqn:PV; cbn [bind]; try discriminate.
  intros [= <- <-]. split; [reflexivity|].
  apply process_von_last_spec in PV as (von & lst & E & -> & H1 & H2 & H3).
  rewrite process_first_middle_spec. cbn. eauto 10.
Qed.

(* First von Last *)
Lemma parse_form0 name x p rep : split_tex_comma name = Ok [x] -> parse_string empty_person name = Ok (p, rep) ->
  exists ts fm, split_tex_space name = Ok ts /\ rep = false /\ p_lineage p = [] /\
    p_first p = firstn 1 fm /\ p_middle p = skipn 1 fm /\
    ts = fm ++ p_prelast p ++ p_last p /\
    Forall notvon fm /\
    (ts <> [] -> p_last p <> []) /\
    Forall notvon (removelast (p_last p)) /\
    (p_prelast p = [] \/ (exists x v', p_prelast p = x :: v' /\ isvon x) /\ (exists v' x, p_prelast p = v' ++ [x] /\ isvon x)) /\
    (p_prelast p = [] -> length (p_last p) <= 1).
Proof.
  intros Hc. unfold parse_string. rewrite Hc. cbn [bind length Nat.ltb Nat.leb].
  destruct (split_space_ok name) as (ts & -> & _). cbn [bind].
  destruct (split_at ts) as [[fm vl]| | |] eqn:SA; cbn [bind]; try discriminate.
  apply split_at_spec in SA as (E & Hfm & Hvl).
  destruct vl as [|v0 vl'].
  - (* no von token at all: the last token is the last name *)
    rewrite app_nil_r in E. subst fm.
    destruct (snoc_cases ts) as [->|(init & z & ->)].
    + intros H. apply finish_von_last in H as (-> & von & lst & E & -> & H1 & H2 & H3).
      symmetry in E. apply app_eq_nil in E as [-> ->]. exists [], []. cbn. repeat split; auto.
    + assert (Em : match init ++ [z] with [] => (init ++ [z], []) | _ :: _ => (removelast (init ++ [z]), [last (init ++ [z]) []]) end
                   = (init, [z])).
      { rewrite removelast_snoc, last_last. destruct init; reflexivity. }
      rewrite Em. clear Em.
      intros H. apply finish_von_last in H as (-> & von & lst & E & -> & H1 & H2 & H3).
      assert (von = [] /\ lst = [z]) as [-> ->].
      { destruct H3 as [->|(v' & y & -> & _)]; [cbn in E; auto|].
        exfalso. apply (f_equal (@length _)) in E. rewrite !app_length in E. cbn in E.
        destruct lst; [apply H1; [discriminate|reflexivity]|cbn in E; lia]. }
      exists (init ++ [z]), init. cbn. apply Forall_app in Hfm as [Hi _].
      repeat split; auto. discriminate.
  - destruct Hvl as [Hvl|(y & b' & [= <- <-] & Hy)]; [discriminate|].
    intros H. apply finish_von_last in H as (-> & von & lst & E' & -> & H1 & H2 & H3).
    exists ts, fm. cbn. subst ts. rewrite E'.
    repeat split; auto.
    + intros _. apply H1. discriminate.
    + destruct von as [|w von']; [left; reflexivity|right]. split.
      * cbn in E'. injection E' as <- _. eauto.
      * destruct H3 as [H3|H3]; [discriminate|exact H3].
    + intros ->. cbn in E'. subst lst.
      destruct vl' as [|v1 vl'']; [cbn; lia|]. exfalso.
      cbn in H2. inversion H2; subst. eapply isvon_notvon; eauto.
Qed.

(* von Last, First   /   von Last, Jr, First   /   more commas: reported, parts 3.. re-joined *)
Lemma process_first_middle_gen v l j parts :
  process_first_middle (mkPerson [] [] v l j) parts = mkPerson (firstn 1 parts) (skipn 1 parts) v l j.
Proof. destruct parts; reflexivity. Qed.

Lemma von_last_of_empty ta p1 : process_von_last empty_person ta = Ok p1 ->
  exists von lst, p1 = mkPerson [] [] von lst [] /\ ta = von ++ lst /\ (ta <> [] -> lst <> []) /\
    Forall notvon (removelast lst) /\ (von = [] \/ exists v' x, von = v' ++ [x] /\ isvon x).
Proof.
  intros H. apply process_von_last_spec in H as (von & lst & E & -> & H1 & H2 & H3).
  exists von, lst. cbn. auto.
Qed.

Lemma parse3 a jr f (rep0 : bool) p rep :
  (do ta <- split_tex_space a; do tb <- split_tex_space jr; do tc <- split_tex_space f;
   do p1 <- process_von_last empty_person ta;
   let p2 := mkPerson (p_first p1) (p_middle p1) (p_prelast p1) (p_last p1) (p_lineage p1 ++ tb) in
   Ok (process_first_middle p2 tc, rep0)) = Ok (p, rep) ->
  rep = rep0 /\ exists ta tj tf, split_tex_space a = Ok ta /\ split_tex_space jr = Ok tj /\ split_tex_space f = Ok tf /\
    von_last_ok ta p /\ p_lineage p = tj /\ p_first p = firstn 1 tf /\ p_middle p = skipn 1 tf.
Proof.
  destruct (split_space_ok a) as (ta & -> & _). destruct (split_space_ok jr) as (tj & -> & _).
  destruct (split_space_ok f) as (tf & -> & _). cbn [bind].
  destruct (process_von_last empty_person ta) as [p1| | |] eqn:PV; cbn [bind]; try discriminate.
  apply von_last_of_empty in PV as (von & lst & -> & E & H1 & H2 & H3). cbn [p_first p_middle p_prelast p_last p_lineage app].
  rewrite process_first_middle_gen. intros [= <- <-]. split; [reflexivity|].
  exists ta, tj, tf. repeat split; auto.
Qed.

Lemma parse2 a f (rep0 : bool) p rep :
  (do ta <- split_tex_space a; do tb <- split_tex_space f;
   do p1 <- process_von_last empty_person ta;
   Ok (process_first_middle p1 tb, rep0)) = Ok (p, rep) ->
  rep = rep0 /\ exists ta tf, split_tex_space a = Ok ta /\ split_tex_space f = Ok tf /\
    von_last_ok ta p /\ p_lineage p = [] /\ p_first p = firstn 1 tf /\ p_middle p = skipn 1 tf.
Proof.
  destruct (split_space_ok a) as (ta & -> & _). destruct (split_space_ok f) as (tf & -> & _). cbn [bind].
  destruct (process_von_last empty_person ta) as [p1| | |] eqn:PV; cbn [bind]; try discriminate.
  apply von_last_of_empty in PV as (von & lst & -> & E & H1 & H2 & H3).
  rewrite process_first_middle_gen. intros [= <- <-]. split; [reflexivity|].
  exists ta, tf. repeat split; auto.
Qed.

Lemma parse_form_comma name parts0 p rep : split_tex_comma name = Ok parts0 -> 2 <= length parts0 ->
  parse_string empty_person name = Ok (p, rep) ->
  rep = Nat.ltb 3 (length parts0) /\
  exists ta tj tf,
    split_tex_space (nth 0 parts0 []) = Ok ta /\ split_tex_space (jr_part parts0) = Ok tj /\
    split_tex_space (first_part parts0) = Ok tf /\
    von_last_ok ta p /\ p_lineage p = tj /\ p_first p = firstn 1 tf /\ p_middle p = skipn 1 tf.
Proof.
  intros Hc Hl. unfold parse_string. rewrite Hc. cbn [bind].
  destruct parts0 as [|a [|b [|c [|d rest]]]]; cbn [length] in Hl; try lia.
  - cbn [length Nat.ltb Nat.leb]. intros H. apply parse2 in H as (-> & ta & tf & Ha & Hf & Hv & Hj & H1 & H2).
    split; [reflexivity|]. exists ta, [], tf. unfold jr_part, first_part. cbn [length Nat.eqb nth]. rewrite split_space_nil. auto 10.
  - cbn [length Nat.ltb Nat.leb]. intros H. apply parse3 in H as (-> & ta & tj & tf & Ha & Hj & Hf & Hv & Hj' & H1 & H2).
    split; [reflexivity|]. exists ta, tj, tf. unfold jr_part, first_part. cbn [length Nat.eqb nth skipn join]. auto 10.
  - assert (Et : Nat.ltb 3 (length (a :: b :: c :: d :: rest)) = true) by reflexivity.
    rewrite Et. cbn [firstn app]. intros H. apply parse3 in H as (-> & ta & tj & tf & Ha & Hj & Hf & Hv & Hj' & H1 & H2).
    split; [reflexivity|]. exists ta, tj, tf. unfold jr_part, first_part.
    change (Nat.eqb (length (a :: b :: c :: d :: rest)) 2) with false. cbn [nth]. auto 10.
Qed.

(* ------------------------------------------------------------------------------------ *)
(* totality: Person(string, first, ...) never raises a foreign exception and never diverges *)

Lemma process_first_middle_total p parts : exists p', process_first_middle p parts = p'.
Proof. eauto. Qed.

Lemma parse_string_good name : name <> [] -> good (parse_string empty_person name).
Proof.
  intros Hn. unfold parse_string.
  destruct (split_gen_good sep_comma name true false) as [parts0 Hc]. fold (split_tex_comma name) in Hc.
  rewrite Hc. cbn [bind]. assert (Hp := split_comma_nonempty _ _ Hn Hc).
  assert (G3 : forall a jr f (rep0 : bool), good
    (do ta <- split_tex_space a; do tb <- split_tex_space jr; do tc <- split_tex_space f;
     do p1 <- process_von_last empty_person ta;
     let p2 := mkPerson (p_first p1) (p_middle p1) (p_prelast p1) (p_last p1) (p_lineage p1 ++ tb) in
     Ok (process_first_middle p2 tc, rep0))).
  { intros a jr f rep0. destruct (split_space_ok a) as (ta & -> & Ha). destruct (split_space_ok jr) as (tj & -> & _).
    destruct (split_space_ok f) as (tf & -> & _). cbn [bind].
    apply good_bind; [now apply process_von_last_good|]. intros; exact I. }
  destruct parts0 as [|a [|b [|c [|d rest]]]]; [congruence| | | |].
  - cbn [length Nat.ltb Nat.leb]. destruct (split_space_ok name) as (ts & -> & Hts). cbn [bind].
    destruct (split_at ts) as [[fm vl]| | |] eqn:SA.
    + cbn [bind]. assert (SA' := SA). apply split_at_spec in SA' as (E & _ & _).
      subst ts. apply Forall_app in Hts as [Hfm Hvl].
      match goal with |- context [let '(_, _) := ?e in _] => destruct e as [fm' vl''] eqn:Em end.
      apply good_bind; [|intros; exact I]. apply process_von_last_good.
      destruct vl as [|v0 vl0].
      * destruct (snoc_cases fm) as [->|(i & z & ->)]; [inversion Em; constructor|].
        assert (vl'' = [z]).
        { destruct (i ++ [z]) eqn:Ez; [destruct i; discriminate|]. rewrite <- Ez in Em. rewrite last_last in Em. congruence. }
        subst vl''. apply Forall_app in Hfm as [_ Hz]. exact Hz.
      * inversion Em; subst. exact Hvl.
    + unfold split_at in SA. pose proof (find_pos_good ts Hts) as G. destruct (find_pos ts); cbn in *; try discriminate; auto.
    + unfold split_at in SA. pose proof (find_pos_good ts Hts) as G. destruct (find_pos ts); cbn in *; try discriminate; auto.
    + unfold split_at in SA. pose proof (find_pos_good ts Hts) as G. destruct (find_pos ts); cbn in *; try discriminate; auto.
  - cbn [length Nat.ltb Nat.leb].
    destruct (split_space_ok a) as (ta & -> & Ha). destruct (split_space_ok b) as (tb & -> & _). cbn [bind].
    apply good_bind; [now apply process_von_last_good|]. intros; exact I.
  - cbn [length Nat.ltb Nat.leb]. apply G3.
  - assert (Et : Nat.ltb 3 (length (a :: b :: c :: d :: rest)) = true) by reflexivity.
    rewrite Et. cbn [firstn app]. apply G3.
Qed.

Lemma person_init_good s f m v l j : good (person_init s f m v l j).
Proof.
  unfold person_init.
  apply good_bind.
  - destruct (strip s) eqn:E; [exact I|]. apply parse_string_good. discriminate.
  - intros [p rep] _.
    destruct (split_space_ok f) as (? & -> & _). destruct (split_space_ok m) as (? & -> & _).
    destruct (split_space_ok v) as (? & -> & _). destruct (split_space_ok l) as (? & -> & _).
    destruct (split_space_ok j) as (? & -> & _). exact I.
Qed.

(* ------------------------------------------------------------------------------------ *)
(* the statements exported to Props/C04.v *)

Lemma good_no_crash {X} (r : res X) : good r -> r <> Crash /\ r <> OutOfFuel.
Proof. destruct r; cbn; intros H; try contradiction; split; discriminate. Qed.

Lemma parse_name_total_pf s f m v l j :
  person_init s f m v l j <> Crash /\ person_init s f m v l j <> OutOfFuel.
Proof. apply good_no_crash, person_init_good. Qed.

Lemma person_cases s p rep : person_of_string s = Ok (p, rep) ->
  (strip s = [] /\ p = empty_person /\ rep = false) \/
  (strip s <> [] /\ parse_string empty_person (strip s) = Ok (p, rep)).
Proof.
  rewrite person_of_string_eq. destruct (strip s) eqn:E.
  - intros [= <- <-]. auto.
  - intros H. right. split; [discriminate|exact H].
Qed.

Lemma split_comma_nil : split_tex_comma [] = Ok [].
Proof. reflexivity. Qed.

Lemma firstn1_skipn1 {X} (l : list X) : firstn 1 l ++ skipn 1 l = l.
Proof. apply firstn_skipn. Qed.

Lemma one_part (parts : list str) : parts <> [] -> length parts <= 1 -> exists x, parts = [x].
Proof. destruct parts as [|x [|y r]]; cbn; intros; try congruence; try lia. eauto. Qed.

Lemma tokens_preserved_pf s parts p rep :
  split_tex_comma (strip s) = Ok parts -> person_of_string s = Ok (p, rep) ->
  (length parts <= 1 ->
     exists ts, split_tex_space (strip s) = Ok ts /\
       ts = p_first p ++ p_middle p ++ p_prelast p ++ p_last p /\ p_lineage p = [] /\ rep = false) /\
  (2 <= length parts ->
     exists ta tj tf, split_tex_space (nth 0 parts []) = Ok ta /\ split_tex_space (jr_part parts) = Ok tj /\
       split_tex_space (first_part parts) = Ok tf /\
       ta = p_prelast p ++ p_last p /\ tj = p_lineage p /\ tf = p_first p ++ p_middle p /\
       rep = Nat.ltb 3 (length parts)).
Proof.
  intros Hc H. apply person_cases in H as [(E & -> & ->)|(E & H)].
  - rewrite E in *. rewrite split_comma_nil in Hc. injection Hc as <-. split.
    + intros _. exists []. rewrite split_space_nil. auto.
    + cbn. lia.
  - assert (Hp := split_comma_nonempty _ _ E Hc). split.
    + intros Hl. destruct (one_part parts Hp Hl) as [x ->].
      destruct (parse_form0 _ _ _ _ Hc H) as (ts & fm & Hts & -> & Hj & Hf & Hm & Et & _).
      exists ts. repeat split; auto. rewrite Hf, Hm, app_assoc, firstn1_skipn1. exact Et.
    + intros Hl. destruct (parse_form_comma _ _ _ _ Hc Hl H) as (-> & ta & tj & tf & Ha & Hj & Hf & Hv & Ej & E1 & E2).
      exists ta, tj, tf. repeat split; auto.
      * apply Hv.
      * rewrite E1, E2. symmetry. apply firstn1_skipn1.
Qed.

Lemma last_snoc_eq {X} (l : list X) x d : last (l ++ [x]) d = x.
Proof. apply last_last. Qed.

Lemma von_is_longest_run_pf s x p rep :
  split_tex_comma (strip s) = Ok [x] -> person_of_string s = Ok (p, rep) ->
  Forall (fun t => is_von_name t = Ok false) (p_first p ++ p_middle p) /\
  Forall (fun t => is_von_name t = Ok false) (removelast (p_last p)) /\
  (p_prelast p = [] \/
   (is_von_name (hd [] (p_prelast p)) = Ok true /\ is_von_name (last (p_prelast p) []) = Ok true)) /\
  (p_prelast p = [] -> length (p_last p) <= 1) /\
  p_first p = firstn 1 (p_first p ++ p_middle p).
Proof.
  intros Hc H. apply person_cases in H as [(E & -> & ->)|(E & H)].
  - rewrite E, split_comma_nil in Hc. discriminate.
  - destruct (parse_form0 _ _ _ _ Hc H) as (ts & fm & Hts & -> & Hj & Hf & Hm & Et & Hfm & Hl & Hn & Hv & H1).
    assert (Efm : p_first p ++ p_middle p = fm) by (rewrite Hf, Hm; apply firstn1_skipn1).
    rewrite Efm. repeat split; auto.
    destruct Hv as [Hv|[(y & v' & Ey & Hy) (v'' & z & Ez & Hz)]]; [left; exact Hv|right]. split.
    + rewrite Ey. exact Hy.
    + rewrite Ez, last_snoc_eq. exact Hz.
Qed.

Lemma von_is_longest_run_comma_pf s parts p rep :
  split_tex_comma (strip s) = Ok parts -> 2 <= length parts -> person_of_string s = Ok (p, rep) ->
  Forall (fun t => is_von_name t = Ok false) (removelast (p_last p)) /\
  (p_prelast p = [] \/ is_von_name (last (p_prelast p) []) = Ok true) /\
  p_first p = firstn 1 (p_first p ++ p_middle p).
Proof.
  intros Hc Hl H. apply person_cases in H as [(E & -> & ->)|(E & H)].
  - rewrite E, split_comma_nil in Hc. injection Hc as <-. cbn in Hl. lia.
  - destruct (parse_form_comma _ _ _ _ Hc Hl H) as (-> & ta & tj & tf & Ha & Hj & Hf & Hv & Ej & E1 & E2).
    split; [apply Hv|]. split.
    + destruct (vl_von_ends_von _ _ Hv) as [Hn|(v' & z & Ez & Hz)]; [left; exact Hn|right].
      rewrite Ez, last_snoc_eq. exact Hz.
    + rewrite E1, E2, firstn1_skipn1. destruct tf; reflexivity.
Qed.

Lemma last_nonempty_pf s parts p rep ts :
  split_tex_comma (strip s) = Ok parts -> person_of_string s = Ok (p, rep) ->
  split_tex_space (if Nat.leb (length parts) 1 then strip s else nth 0 parts []) = Ok ts ->
  ts <> [] -> p_last p <> [].
Proof.
  intros Hc H. apply person_cases in H as [(E & -> & ->)|(E & H)].
  - rewrite E, split_comma_nil in Hc. injection Hc as <-. cbn. rewrite E, split_space_nil. intros [= <-]. congruence.
  - assert (Hp := split_comma_nonempty _ _ E Hc).
    destruct (Nat.leb (length parts) 1) eqn:L.
    + apply Nat.leb_le in L. destruct (one_part parts Hp L) as [x ->].
      destruct (parse_form0 _ _ _ _ Hc H) as (ts' & fm & Hts & -> & Hj & Hf & Hm & Et & Hfm & Hl & _).
      rewrite Hts. intros [= <-]. exact Hl.
    + apply Nat.leb_gt in L.
      destruct (parse_form_comma _ _ _ _ Hc L H) as (-> & ta & tj & tf & Ha & Hj & Hf & Hv & _).
      rewrite Ha. intros [= <-]. apply Hv.
Qed.

(* the two totality facts other properties (C10) take as a premise about these models *)
Lemma person_of_string_total s : person_of_string s <> Crash /\ person_of_string s <> OutOfFuel.
Proof. apply parse_name_total_pf. Qed.

Lemma split_name_list_total s : split_name_list s <> Crash /\ split_name_list s <> OutOfFuel.
Proof.
  unfold split_name_list. destruct (split_gen_good sep_and s true false) as [r ->]. split; discriminate.
Qed.

(* ------------------------------------------------------------------------------------ *)
(* conservation at the level of characters: nothing but separators is dropped *)
Lemma content_keep s : content s = keep name_sep s.
Proof. reflexivity. Qed.

Lemma name_sep_space c : is_space c = true -> name_sep c = true.
Proof. unfold name_sep. intros ->. reflexivity. Qed.

Lemma content_space_tokens s ts : split_tex_space s = Ok ts -> content (concat ts) = content s.
Proof. rewrite !content_keep. apply split_space_keep; [exact name_sep_space|reflexivity|reflexivity]. Qed.

Lemma content_comma_parts s ts : split_tex_comma s = Ok ts -> content (concat ts) = content s.
Proof. rewrite !content_keep. apply split_comma_keep; [exact name_sep_space|reflexivity]. Qed.

Lemma content_app a b : content (a ++ b) = content a ++ content b.
Proof. apply filter_app. Qed.

Lemma content_strip s : content (strip s) = content s.
Proof. rewrite !content_keep. apply keep_strip. exact name_sep_space. Qed.

Lemma content_join_space l : content (join [c_space] l) = content (concat l).
Proof.
  induction l as [|x [|y r] IH]; [reflexivity|cbn; now rewrite app_nil_r|].
  change (join [c_space] (x :: y :: r)) with (x ++ [c_space] ++ join [c_space] (y :: r)).
  cbn [concat]. rewrite !content_app, IH. cbn [concat]. rewrite !content_app. reflexivity.
Qed.

Lemma concat_app_str (a b : list str) : concat (a ++ b) = concat a ++ concat b.
Proof. apply concat_app. Qed.

Lemma chars_preserved_pf s parts p rep :
  split_tex_comma (strip s) = Ok parts -> person_of_string s = Ok (p, rep) ->
  (length parts <= 1 -> content (concat (p_first p ++ p_middle p ++ p_prelast p ++ p_last p)) = content s) /\
  (2 <= length parts ->
     content (concat ((p_prelast p ++ p_last p) ++ p_lineage p ++ (p_first p ++ p_middle p))) = content s).
Proof.
  intros Hc H. destruct (tokens_preserved_pf _ _ _ _ Hc H) as [H0 H2]. split.
  - intros Hl. destruct (H0 Hl) as (ts & Hts & <- & _). rewrite (content_space_tokens _ _ Hts). apply content_strip.
  - intros Hl. destruct (H2 Hl) as (ta & tj & tf & Ha & Hj & Hf & <- & <- & <- & _).
    rewrite !concat_app_str, !content_app.
    rewrite (content_space_tokens _ _ Ha), (content_space_tokens _ _ Hj), (content_space_tokens _ _ Hf).
    rewrite <- (content_strip s), <- (content_comma_parts _ _ Hc).
    destruct parts as [|a [|b [|c rest]]]; cbn [length] in Hl; try lia.
    + unfold jr_part, first_part. cbn [length Nat.eqb nth concat]. now rewrite !content_app, app_nil_r.
    + unfold jr_part, first_part. change (Nat.eqb (length (a :: b :: c :: rest)) 2) with false. cbv iota.
      cbn [nth skipn]. rewrite content_join_space. cbn [concat]. now rewrite !content_app.
Qed.
