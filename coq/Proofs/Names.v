From Pybtex Require Import Base.Prelude Base.PyChar Base.PyStr Model.BibtexStr Model.Names.

Lemma person_of_empty : person_of_string [] = Ok (empty_person, false).
Proof. reflexivity. Qed.
