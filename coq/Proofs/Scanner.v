(* Proofs/Scanner.v -- lemmas about Model/Scanner.v: what the scanner consumes, the line
   counter, the token patterns *)
From Pybtex Require Import Base.Prelude Base.PyChar Base.PyStr Model.Scanner.
Local Open Scope N_scope.

(* ---- newlines is additive except across a CR LF pair *)
Definition ends_cr (a : str) : Prop := exists p, a = p ++ [13].
Definition starts_lf (b : str) : Prop := exists t, b = 10 :: t.

Lemma newlines_app a b : ~ (ends_cr a /\ starts_lf b) -> newlines (a ++ b) = (newlines a + newlines b)%Z.
Proof.
  induction a as [|c t IH]; intros H; cbn [app newlines]; [reflexivity|].
  destruct t as [|d t'].
  - cbn [app newlines]. unfold nl_at.
    destruct (c =? 10) eqn:E10; [lia|].
    destruct (c =? 13) eqn:E13; [|lia].
    apply N.eqb_eq in E13. subst c.
    destruct b as [|e b']; [cbn; lia|].
    destruct (e =? 10) eqn:Ee; [|cbn; lia].
    apply N.eqb_eq in Ee. subst e. exfalso. apply H. split.
    + exists []. reflexivity.
    + exists b'. reflexivity.
  - rewrite IH.
    + change ((d :: t') ++ b) with (d :: (t' ++ b)). unfold nl_at. lia.
    + intros [H1 H2]. apply H. split; [|exact H2].
      destruct H1 as [p Hp]. exists (c :: p). cbn. rewrite <- Hp. reflexivity.
Qed.

Definition no_nl (v : str) : Prop := forall c, In c v -> c <> 10 /\ c <> 13.

Lemma newlines_no_nl v : no_nl v -> newlines v = 0%Z.
Proof.
  induction v as [|c t IH]; intros H; [reflexivity|].
  cbn [newlines]. rewrite IH by (intros x Hx; apply H; right; exact Hx).
  destruct (H c (or_introl eq_refl)) as [H1 H2].
  unfold nl_at. apply N.eqb_neq in H1, H2. rewrite H1, H2. reflexivity.
Qed.

Lemma no_nl_not_ends_cr v : no_nl v -> ~ ends_cr v.
Proof.
  intros H [p Hp]. destruct (H 13) as [_ H2]; [|congruence].
  rewrite Hp. apply in_or_app. right. left. reflexivity.
Qed.

(* ---- span / find_first *)
Lemma span_spec p s a b : span p s = (a, b) ->
  s = a ++ b /\ (forall c, In c a -> p c = true) /\ (match b with [] => True | c :: _ => p c = false end).
Proof.
  revert a b. induction s as [|c t IH]; intros a b H; cbn in H.
  - injection H as <- <-. repeat split; intros; contradiction.
  - destruct (p c) eqn:E.
    + destruct (span p t) as [a' b'] eqn:Es. injection H as <- <-.
      destruct (IH a' b' eq_refl) as (H1 & H2 & H3). subst t. repeat split; auto.
      intros x [<-|Hx]; auto.
    + injection H as <- <-. repeat split; auto; intros x [].
Qed.

Lemma find_first_spec p s v d r : find_first p s = Some (v, d, r) ->
  s = v ++ r /\ p d = true /\ exists v0, v = v0 ++ [d].
Proof.
  revert v d r. induction s as [|c t IH]; intros v d r H; cbn in H; [discriminate|].
  destruct (p c) eqn:E.
  - injection H as <- <- <-. repeat split; auto. exists []. reflexivity.
  - destruct (find_first p t) as [[[v' d'] r']|] eqn:Ef; [|discriminate].
    injection H as <- <- <-. destruct (IH v' d' r' eq_refl) as (H1 & H2 & v0 & H3). subst t v'.
    repeat split; auto. exists (c :: v0). reflexivity.
Qed.

Lemma find_first_none p s : find_first p s = None -> forall c, In c s -> p c = false.
Proof.
  induction s as [|x t IH]; intros H c Hc; [contradiction|]. cbn in H.
  destruct (p x) eqn:E; [discriminate|].
  destruct (find_first p t) as [[[? ?] ?]|] eqn:Ef; [discriminate|].
  destruct Hc as [<-|Hc]; auto.
Qed.

(* ---- scanner steps: c' is reached from c by consuming a prefix v of the unread text *)
Definition sc_step (c c' : sc) : Prop :=
  exists v, sc_rest c = v ++ sc_rest c' /\ sc_pos c' = (sc_pos c + length v)%nat.
Definition sc_lt (c c' : sc) : Prop := (length (sc_rest c') < length (sc_rest c))%nat.

Lemma sc_step_refl c : sc_step c c.
Proof. exists []. split; [reflexivity|cbn; lia]. Qed.
Lemma sc_step_trans a b c : sc_step a b -> sc_step b c -> sc_step a c.
Proof.
  intros [v (H1 & H2)] [w (H3 & H4)]. exists (v ++ w). split.
  - rewrite H1, H3, app_assoc. reflexivity.
  - rewrite app_length. lia.
Qed.
Lemma sc_step_len a b : sc_step a b -> (length (sc_rest b) <= length (sc_rest a))%nat /\ (sc_pos a <= sc_pos b)%nat.
Proof. intros [v (H1 & H2)]. rewrite H1, app_length. lia. Qed.

(* the scanner stands at position pos of text, with the line counter of that position *)
Definition at_pos (text : str) (c : sc) : Prop :=
  exists pre, text = pre ++ sc_rest c /\ sc_pos c = length pre /\ sc_line c = (1 + newlines pre)%Z
              /\ ~ (ends_cr pre /\ starts_lf (sc_rest c)).

Lemma at_pos_init text : at_pos text (sc_init text).
Proof.
  exists []. cbn. repeat split; auto. intros [[p Hp] _]. destruct p; discriminate.
Qed.

Lemma at_pos_firstn text c : at_pos text c ->
  firstn (sc_pos c) text ++ sc_rest c = text /\ sc_line c = (1 + newlines (firstn (sc_pos c) text))%Z /\ (sc_pos c <= length text)%nat.
Proof.
  intros (pre & H1 & H2 & H3 & _). subst text. rewrite H2.
  rewrite firstn_app, Nat.sub_diag, firstn_all, firstn_O, app_nil_r, app_length. repeat split; auto. lia.
Qed.

Lemma ends_cr_app pre v : v <> [] -> ends_cr (pre ++ v) -> ends_cr v.
Proof.
  intros Hne [p Hp]. destruct (exists_last Hne) as (v0 & x & ->).
  rewrite app_assoc in Hp. apply app_inj_tail in Hp as [_ ->]. exists v0. reflexivity.
Qed.

Lemma advance_at_pos text c v r : at_pos text c -> sc_rest c = v ++ r ->
  ~ (ends_cr v /\ starts_lf r) -> at_pos text (advance c v r) /\ sc_step c (advance c v r).
Proof.
  intros (pre & H1 & H2 & H3 & H4) Hr Hns. split.
  - exists (pre ++ v). unfold advance. cbn [sc_rest sc_line sc_pos]. repeat split.
    + rewrite H1, Hr, app_assoc. reflexivity.
    + rewrite app_length. lia.
    + rewrite H3. destruct v as [|x v'].
      * rewrite app_nil_r. cbn [newlines]. lia.
      * rewrite newlines_app; [lia|]. intros [Ha [t Hb]]. apply H4. split; [exact Ha|].
        rewrite Hr. exists (v' ++ r). cbn. injection Hb as ->. reflexivity.
    + destruct v as [|x v'].
      * rewrite app_nil_r. cbn in Hr. rewrite <- Hr. exact H4.
      * intros [Ha Hb]. apply Hns. split; [|exact Hb]. eapply ends_cr_app; [|exact Ha]. discriminate.
  - exists v. cbn. auto.
Qed.

Lemma advance_token_at_pos text c v r : at_pos text c -> sc_rest c = v ++ r -> no_nl v ->
  at_pos text (advance_token c v r) /\ sc_step c (advance_token c v r).
Proof.
  intros Hat Hr Hnn.
  destruct (advance_at_pos text c v r Hat Hr) as [H1 H2].
  - intros [Ha _]. exact (no_nl_not_ends_cr v Hnn Ha).
  - unfold advance in *. rewrite (newlines_no_nl v Hnn), Z.add_0_r in H1.
    destruct c as [rest line pos]. cbn in *. split; assumption.
Qed.

Lemma skip_to_spec text p c v d c' : (forall x, p x = true -> x <> 13) ->
  at_pos text c -> skip_to p c = Some (v, d, c') ->
  at_pos text c' /\ sc_step c c' /\ sc_lt c c' /\ p d = true /\ sc_rest c = v ++ sc_rest c'.
Proof.
  intros Hp Hat H. unfold skip_to in H.
  destruct (find_first p (sc_rest c)) as [[[v' d'] r']|] eqn:Ef; [|discriminate].
  injection H as <- <- <-. destruct (find_first_spec _ _ _ _ _ Ef) as (H1 & H2 & v0 & H3).
  destruct (advance_at_pos text c v' r' Hat H1) as [Ha Hb].
  - intros [[q Hq] _]. rewrite H3 in Hq. apply app_inj_tail in Hq as [_ ->]. exact (Hp 13 H2 eq_refl).
  - repeat split; auto. unfold sc_lt. cbn. rewrite H1, H3, !app_length. cbn. lia.
Qed.

Lemma eat_whitespace_spec text c : at_pos text c ->
  at_pos text (eat_whitespace c) /\ sc_step c (eat_whitespace c).
Proof.
  intros Hat. unfold eat_whitespace. destruct (span is_space (sc_rest c)) as [w r] eqn:Es.
  destruct (span_spec _ _ _ _ Es) as (H1 & H2 & H3).
  apply advance_at_pos; auto. intros [_ [t ->]]. cbn in H3. discriminate.
Qed.

(* ---- patterns whose matches cannot contain a line break *)
Definition pat_ok (p : pat) : Prop := match p with P_LIT c => c <> 10 /\ c <> 13 | _ => True end.

Lemma span_no_nl p s a b : (forall c, p c = true -> c <> 10 /\ c <> 13) -> span p s = (a, b) -> no_nl a.
Proof. intros Hp H c Hc. apply Hp. destruct (span_spec _ _ _ _ H) as (_ & H2 & _). auto. Qed.

Lemma name_char_no_nl c : is_name_char c = true -> c <> 10 /\ c <> 13.
Proof. intros H; split; intros ->; vm_compute in H; discriminate. Qed.
Lemma digit_no_nl c : is_digit c = true -> c <> 10 /\ c <> 13.
Proof. intros H; split; intros ->; vm_compute in H; discriminate. Qed.
Lemma key_paren_no_nl c : negb (is_space c || (c =? c_comma)) = true -> c <> 10 /\ c <> 13.
Proof. intros H; split; intros ->; vm_compute in H; discriminate. Qed.
Lemma key_brace_no_nl c : negb (is_space c || (c =? c_comma) || (c =? c_rbrace)) = true -> c <> 10 /\ c <> 13.
Proof. intros H; split; intros ->; vm_compute in H; discriminate. Qed.

Lemma nonempty_span_spec p s v r : (forall c, p c = true -> c <> 10 /\ c <> 13) ->
  nonempty_span p s = Some (v, r) -> s = v ++ r /\ v <> [] /\ no_nl v.
Proof.
  intros Hp H. unfold nonempty_span in H. destruct (span p s) as [a b] eqn:Es.
  destruct a as [|x a']; [discriminate|]. injection H as <- <-.
  destruct (span_spec _ _ _ _ Es) as (H1 & _). split; [exact H1|]. split; [discriminate|].
  eapply span_no_nl; eauto.
Qed.

Lemma match_pat_spec p s v r : pat_ok p -> match_pat p s = Some (v, r) -> s = v ++ r /\ v <> [] /\ no_nl v.
Proof.
  intros Hok H. destruct p; cbn in H.
  - destruct s as [|c t]; [discriminate|]. destruct (is_name_start c) eqn:E; [|discriminate].
    destruct (span is_name_char t) as [a b] eqn:Es. injection H as <- <-.
    destruct (span_spec _ _ _ _ Es) as (H1 & H2 & _). subst t. split; [reflexivity|]. split; [discriminate|].
    intros x [<-|Hx].
    + apply name_char_no_nl. unfold is_name_char. rewrite E. reflexivity.
    + apply name_char_no_nl. auto.
  - eapply nonempty_span_spec; [|exact H]. exact key_paren_no_nl.
  - eapply nonempty_span_spec; [|exact H]. exact key_brace_no_nl.
  - eapply nonempty_span_spec; [|exact H]. exact digit_no_nl.
  - destruct s as [|x t]; [discriminate|]. destruct (x =? c) eqn:E; [|discriminate].
    injection H as <- <-. apply N.eqb_eq in E. subst x. split; [reflexivity|]. split; [discriminate|].
    intros y [<-|[]]. exact Hok.
Qed.

Lemma first_match_spec ps s p v r : Forall pat_ok ps -> first_match ps s = Some (p, v, r) ->
  s = v ++ r /\ v <> [] /\ no_nl v /\ In p ps.
Proof.
  induction ps as [|q qs IH]; intros Hok H; cbn in H; [discriminate|].
  inversion Hok as [|? ? Hq Hqs]; subst.
  destruct (match_pat q s) as [[v' r']|] eqn:Em.
  - injection H as <- <- <-. destruct (match_pat_spec _ _ _ _ Hq Em) as (H1 & H2 & H3).
    split; [exact H1|]. split; [exact H2|]. split; [exact H3|]. left; reflexivity.
  - destruct (IH Hqs H) as (H1 & H2 & H3 & H4).
    split; [exact H1|]. split; [exact H2|]. split; [exact H3|]. right; exact H4.
Qed.

Lemma get_token_spec text ps c t c' : Forall pat_ok ps -> at_pos text c -> get_token ps c = (t, c') ->
  at_pos text c' /\ sc_step c c' /\ (forall p v, t = Tok p v -> sc_lt c c' /\ In p ps /\ v <> []).
Proof.
  intros Hok Hat H. unfold get_token in H.
  destruct (eat_whitespace_spec text c Hat) as [Ha Hs].
  destruct (sc_rest (eat_whitespace c)) as [|x rest] eqn:Er.
  - injection H as <- <-. split; [exact Ha|]. split; [exact Hs|]. intros p v Hp; discriminate.
  - destruct (first_match ps (x :: rest)) as [[[p v] r]|] eqn:Ef.
    + injection H as <- <-. destruct (first_match_spec _ _ _ _ _ Hok Ef) as (H1 & H2 & H3 & H4).
      rewrite <- Er in H1.
      destruct (advance_token_at_pos text _ v r Ha H1 H3) as [Hb Hc].
      split; [exact Hb|]. split; [eapply sc_step_trans; eauto|].
      intros p0 v0 Hp. injection Hp as <- <-. split; [|split; [exact H4|exact H2]].
      unfold sc_lt. cbn [advance_token sc_rest].
      destruct (sc_step_len _ _ Hs) as [Hl _]. rewrite H1, app_length in Hl.
      destruct v; [congruence|]. cbn [length] in Hl. lia.
    + injection H as <- <-. split; [exact Ha|]. split; [exact Hs|]. intros p v Hp; discriminate.
Qed.

Lemma skip_to_last text p c v d c' : at_pos text c -> skip_to p c = Some (v, d, c') ->
  (0 < sc_pos c')%nat /\ nth_error text (sc_pos c' - 1) = Some d.
Proof.
  intros (pre & H1 & H2 & _) H. unfold skip_to in H.
  destruct (find_first p (sc_rest c)) as [[[v' d'] r']|] eqn:Ef; [|discriminate].
  injection H as <- <- <-. destruct (find_first_spec _ _ _ _ _ Ef) as (H3 & H4 & v0 & H5).
  cbn [advance sc_pos]. rewrite H5, app_length. cbn [length]. split; [lia|].
  rewrite H1, H3, H5, H2. replace (length pre + (length v0 + 1) - 1)%nat with (length (pre ++ v0)) by (rewrite app_length; lia).
  replace (pre ++ (v0 ++ [d']) ++ r') with ((pre ++ v0) ++ d' :: r') by (rewrite <- !app_assoc; reflexivity).
  rewrite nth_error_app2 by lia. rewrite Nat.sub_diag. reflexivity.
Qed.
