(* Proofs/Utf16.v -- the 'utf-16' codec of Model/EntryPoints.v decodes (as bytes and as a text
   file: it always writes the byte-order mark the file reader insists on) what it encoded. *)
From Pybtex Require Import Base.Prelude Base.PyChar Base.PyStr Model.Plugins Model.IO Model.EntryPoints Proofs.Utf8.
Open Scope N_scope.

Lemma recompose u : (u / 256) * 256 + u mod 256 = u.
Proof. divmod u 256. lia. Qed.

Lemma u16_char_roundtrip c us b' us' t :
  u16_units c = Some us ->
  u16_pairs false b' = Some us' -> u16_dec_units us' = Some t ->
  exists us2, u16_pairs false (concat (map (fun u => [u mod 256; u / 256]) us) ++ b') = Some us2
           /\ u16_dec_units us2 = Some (c :: t).
Proof.
  unfold u16_units. intros E P D.
  destruct (N.ltb_spec c 65536) as [L1|L1].
  - destruct (is_surrogate c) eqn:SG; [discriminate|]. apply some_inj in E. subst us.
    cbn [map concat app u16_pairs]. rewrite P. cbn [option_map]. rewrite recompose.
    eexists; split; [reflexivity|]. cbn [u16_dec_units]. rewrite SG.
    replace (N.leb 55296 c && N.leb c 56319) with false; [now rewrite D|].
    symmetry. apply not_true_is_false. intros HH. unfold is_surrogate in SG.
    apply andb_prop in HH as [H1 H2]. rewrite H1 in SG. cbn in SG.
    apply N.leb_le in H2. apply N.leb_gt in SG. lia.
  - destruct (N.ltb_spec c 1114112) as [L2|L2]; [|discriminate]. apply some_inj in E. subst us.
    cbn [map concat app u16_pairs]. rewrite P. cbn [option_map]. rewrite !recompose.
    eexists; split; [reflexivity|]. cbn [u16_dec_units].
    set (x := c - 65536). assert (X : x < 1048576 /\ c = x + 65536) by (unfold x; lia). clearbody x.
    destruct X as [X ->]. divmod x 1024.
    repeat settle. rewrite D. cbn [option_map]. do 2 f_equal. lia.
Qed.

Lemma u16_body_roundtrip s : forall b,
  u16_enc_body s = Some b -> exists us, u16_pairs false b = Some us /\ u16_dec_units us = Some s.
Proof.
  induction s as [|c s IH]; intros b E.
  - cbn in E. apply some_inj in E. subst b. exists []. split; reflexivity.
  - cbn [u16_enc_body] in E. destruct (u16_units c) as [us|] eqn:Ec; [|discriminate].
    destruct (u16_enc_body s) as [b'|] eqn:Es; [|discriminate]. apply some_inj in E. subst b.
    destruct (IH b' eq_refl) as (us' & P & D).
    exact (u16_char_roundtrip c us b' us' s Ec P D).
Qed.

Close Scope N_scope.

Lemma utf16_roundtrip s b :
  enc codec_utf16 s = Some b -> dec codec_utf16 b = Some s /\ fdec codec_utf16 b = FText s.
Proof.
  cbn. unfold utf16_enc. destruct (u16_enc_body s) as [b'|] eqn:E; cbn; [|discriminate].
  intros H. apply some_inj in H. subst b.
  destruct (u16_body_roundtrip s b' E) as (us & P & D).
  assert (DD : utf16_dec (255%N :: 254%N :: b') = Some s).
  { unfold utf16_dec. rewrite P. exact D. }
  split; [exact DD|]. unfold utf16_fdec, fdec_of_dec. now rewrite DD.
Qed.

(* all four modelled codecs (codec_of: utf-8, latin-1, utf-16, ascii) round-trip *)
From Pybtex Require Import Proofs.EntryPoints.
Lemma modelled_codecs_roundtrip n s b :
  enc (codec_of n) s = Some b -> dec (codec_of n) b = Some s /\ fdec (codec_of n) b = FText s.
Proof.
  unfold codec_of. destruct n as [|[[[]|[]|]|[[]|[]|]|]]; intros E;
    first [ now apply utf8_roundtrip | now apply utf16_roundtrip
          | split; [now apply latin1_roundtrip|now apply latin1_fdec]
          | split; [now apply ascii_roundtrip|now apply ascii_fdec] ].
Qed.

Lemma modelled_entry_points_agree n db ps u s b data :
  enc (codec_of n) s = Some b ->
  parse_bytes db ps (codec_of n) u b data = parse_string db ps (codec_of n) u s data /\
  parse_file db ps (codec_of n) u (FStream (own_stream u s b)) data = parse_string db ps (codec_of n) u s data /\
  parse_file db ps (codec_of n) u (FOpened b) data
    = parse_string db ps (codec_of n) u (if u then universal_newlines s else s) data.
Proof.
  intros E. destruct (modelled_codecs_roundtrip n s b E) as [D F]. now apply entry_points_agree.
Qed.
