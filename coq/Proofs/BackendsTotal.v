(* Proofs/BackendsTotal.v -- Text.from_latex succeeds on every brace-balanced value: the model's
   fuel (length+1 for the scanner, length+1 for the re-construction depth) always suffices *)
From Pybtex Require Import Base.Prelude Base.PyChar Base.PyStr Model.RtTypes Model.Backends
  Proofs.Backends Proofs.BackendsLatex Proofs.BackendsDepth.
Local Open Scope N_scope.

(* bnd t m: Protected groups nest at most m deep in t *)
Fixpoint bnd (t : rt) (m : nat) : bool :=
  match t with
  | RStr _ | RSym _ => true
  | RText ps | RTag _ ps | RHRef _ _ ps => forallb (fun p => bnd p m) ps
  | RProt ps => match m with O => false | S m' => forallb (fun p => bnd p m') ps end
  end.
Definition bnds (m : nat) (ps : list rt) : bool := forallb (fun p => bnd p m) ps.

Lemma bnd_mono t : forall m m', (m <= m')%nat -> bnd t m = true -> bnd t m' = true.
Proof.
  assert (Hl : forall ps, Forall (fun t => forall m m', (m <= m')%nat -> bnd t m = true -> bnd t m' = true) ps ->
               forall m m', (m <= m')%nat -> bnds m ps = true -> bnds m' ps = true).
  { induction 1 as [|p r Hp Hr IH]; intros m m' Hle H0; [reflexivity|].
    unfold bnds in *. cbn [forallb] in *. apply andb_prop in H0 as [H1 H2].
    rewrite (Hp m m' Hle H1), (IH m m' Hle H2). reflexivity. }
  induction t using rt_ind'; intros m m' Hle Hb; cbn [bnd] in *; try reflexivity.
  - apply (Hl ps H m m' Hle Hb).
  - apply (Hl ps H m m' Hle Hb).
  - apply (Hl ps H m m' Hle Hb).
  - destruct m as [|m0]; [discriminate|]. destruct m' as [|m1]; [lia|].
    apply (Hl ps H m0 m1); [lia|exact Hb].
Qed.

Lemma bnds_mono ps m m' : (m <= m')%nat -> bnds m ps = true -> bnds m' ps = true.
Proof.
  intros Hle. unfold bnds. rewrite !forallb_forall. intros H x Hx. eapply bnd_mono; eauto.
Qed.

Lemma bnds_app m a b : bnds m (a ++ b) = bnds m a && bnds m b.
Proof. apply forallb_app. Qed.

Lemma bnds_filter m f ps : bnds m ps = true -> bnds m (filter f ps) = true.
Proof.
  unfold bnds. rewrite !forallb_forall. intros H x Hx. apply filter_In in Hx as [Hx _]. auto.
Qed.

Lemma span_str_bnd m r : forall v k rest, span_str r = (v, k, rest) -> bnds m r = true -> bnds m rest = true.
Proof.
  induction r as [|p r IH]; intros v k rest E Hb.
  - cbn in E. injection E as <- <- <-. reflexivity.
  - destruct p; cbn [span_str] in E; try (injection E as <- <- <-; exact Hb).
    destruct (span_str r) as [[v' k'] rest'] eqn:Er. injection E as <- <- <-.
    unfold bnds in Hb. cbn [forallb] in Hb. apply andb_prop in Hb as [_ Hb]. eapply IH; eauto.
Qed.

Lemma span_prot_bnd m r : forall v k rest, span_prot r = (v, k, rest) -> bnds (S m) r = true ->
  bnds m v = true /\ bnds (S m) rest = true.
Proof.
  induction r as [|p r IH]; intros v k rest E Hb.
  - cbn in E. injection E as <- <- <-. split; reflexivity.
  - destruct p; cbn [span_prot] in E; try (injection E as <- <- <-; split; [reflexivity|exact Hb]).
    destruct (span_prot r) as [[v' k'] rest'] eqn:Er. injection E as <- <- <-.
    unfold bnds in Hb. cbn [forallb] in Hb. apply andb_prop in Hb as [Hb1 Hb2].
    destruct (IH v' k' rest' eq_refl Hb2) as [Hv Hr]. split; [|exact Hr].
    rewrite bnds_app. cbn [bnd] in Hb1. unfold bnds at 1. rewrite Hb1, Hv. reflexivity.
Qed.

Lemma merge_similar_S f n ps :
  merge_similar (S f) (S n) ps =
  match ps with
  | [] => Ok []
  | RStr s :: r =>
    let '(v, k, rest) := span_str r in
    do tl <- merge_similar (S f) n rest; Ok (RStr (s ++ v) :: tl)
  | RProt q :: r =>
    let '(v, k, rest) := span_prot r in
    do tl <- merge_similar (S f) n rest;
    match k with
    | O => Ok (RProt q :: tl)
    | _ =>
      let args := filter rt_nonempty (q ++ v) in
      do inner <- merge_similar f (length args) args;
      Ok (RProt inner :: tl)
    end
  | p :: r => do tl <- merge_similar (S f) n r; Ok (p :: tl)
  end.
Proof. destruct ps as [|[] r]; reflexivity. Qed.

(* enough fuel for the nesting depth: the re-construction terminates and keeps the bound *)
Lemma merge_similar_total fuel : forall m, (m < fuel)%nat -> forall n ps, bnds m ps = true ->
  exists qs, merge_similar fuel n ps = Ok qs /\ bnds m qs = true.
Proof.
  induction fuel as [|f IHf]; intros m Hm n; [lia|].
  induction n as [|n IHn]; intros ps Hb.
  - exists ps. split; [reflexivity|exact Hb].
  - rewrite merge_similar_S.
    destruct ps as [|p r]; [exists []; split; reflexivity|].
    pose proof Hb as Hb0. unfold bnds in Hb. cbn [forallb] in Hb. apply andb_prop in Hb as [Hb1 Hb2].
    fold (bnds m r) in Hb2.
    destruct p as [s0|nm|tps|nm tps|u ex tps|q].
    + destruct (span_str r) as [[v k] rest] eqn:Er.
      destruct (IHn rest (span_str_bnd m r v k rest Er Hb2)) as [tl [Et Htl]].
      rewrite Et. cbn [bind]. eexists. split; [reflexivity|].
      unfold bnds. cbn [forallb bnd]. exact Htl.
    + destruct (IHn r Hb2) as [tl [Et Htl]]. rewrite Et. cbn [bind]. eexists. split; [reflexivity|].
      unfold bnds. cbn [forallb]. rewrite Hb1. exact Htl.
    + destruct (IHn r Hb2) as [tl [Et Htl]]. rewrite Et. cbn [bind]. eexists. split; [reflexivity|].
      unfold bnds. cbn [forallb]. rewrite Hb1. exact Htl.
    + destruct (IHn r Hb2) as [tl [Et Htl]]. rewrite Et. cbn [bind]. eexists. split; [reflexivity|].
      unfold bnds. cbn [forallb]. rewrite Hb1. exact Htl.
    + destruct (IHn r Hb2) as [tl [Et Htl]]. rewrite Et. cbn [bind]. eexists. split; [reflexivity|].
      unfold bnds. cbn [forallb]. rewrite Hb1. exact Htl.
    + destruct m as [|m0]; [cbn [bnd] in Hb1; discriminate|].
      destruct (span_prot r) as [[v k] rest] eqn:Er.
      destruct (span_prot_bnd m0 r v k rest Er Hb2) as [Hv Hrest].
      destruct (IHn rest Hrest) as [tl [Et Htl]]. rewrite Et. cbn [bind].
      destruct k as [|k'].
      * eexists. split; [reflexivity|]. unfold bnds. cbn [forallb]. rewrite Hb1. exact Htl.
      * cbn [bnd] in Hb1.
        assert (Ha : bnds m0 (filter rt_nonempty (q ++ v)) = true).
        { apply bnds_filter. rewrite bnds_app. unfold bnds at 1. rewrite Hb1, Hv. reflexivity. }
        destruct (IHf m0 ltac:(lia) (length (filter rt_nonempty (q ++ v))) _ Ha) as [inner [Ei Hi]].
        rewrite Ei. cbn [bind]. eexists. split; [reflexivity|].
        unfold bnds. cbn [forallb bnd]. fold (bnds m0 inner). rewrite Hi. exact Htl.
Qed.

Lemma mk_parts_total fuel m ps : (m < fuel)%nat -> bnds m ps = true ->
  exists qs, mk_parts fuel ps = Ok qs /\ bnds m qs = true.
Proof.
  intros Hm Hb. unfold mk_parts. apply merge_similar_total; [exact Hm|]. apply bnds_filter. exact Hb.
Qed.

(* results of the scanner: the rest is not longer, the parts nest at most |s| deep *)
Lemma iter_string_parts_bounds fuel : forall level s ps rest,
  iter_string_parts fuel level s = Ok (ps, rest) ->
  (length rest <= length s)%nat /\ bnds (length s) ps = true.
Proof.
  induction fuel as [|f IH]; intros level s ps rest E; [discriminate|].
  cbn [iter_string_parts] in E.
  destruct (skip_to_brace s) as [[[pre k] rest0]|] eqn:Es.
  - destruct (skip_to_brace_some s pre k rest0 Es) as [Hpre ->]. destruct k.
    + destruct (iter_string_parts f (S level) rest0) as [[inner rest']| | |] eqn:Ei; try discriminate.
      cbn [bind] in E.
      match type of E with (do ip <- ?X; _) = _ => destruct X as [ip| | |] eqn:Em; try discriminate end.
      cbn [bind] in E.
      destruct (iter_string_parts f level rest') as [[more rest'']| | |] eqn:Eo; try discriminate.
      cbn [bind] in E. injection E as <- <-.
      destruct (IH _ _ _ _ Ei) as [Hl1 Hb1]. destruct (IH _ _ _ _ Eo) as [Hl2 Hb2].
      rewrite app_length. cbn [length]. split; [lia|].
      destruct (mk_parts_total (S (length (pre ++ c_lbrace :: rest0))) (length rest0) inner) as [qs [Eq Hq]].
      { rewrite app_length. cbn [length]. lia. }
      { exact Hb1. }
      rewrite Eq in Em. injection Em as <-.
      unfold bnds. cbn [forallb bnd].
      replace (length pre + S (length rest0))%nat with (S (length pre + length rest0)) by lia.
      fold (bnds (length pre + length rest0) qs).
      rewrite (bnds_mono qs (length rest0) (length pre + length rest0) ltac:(lia) Hq). cbn [andb].
      apply (bnds_mono more (length rest')); [lia|exact Hb2].
    + destruct level; [discriminate|]. injection E as <- <-.
      rewrite app_length. cbn [length]. split; [lia|reflexivity].
  - destruct level; [|discriminate]. injection E as <- <-. split; [cbn; lia|].
    destruct (is_empty s); reflexivity.
Qed.

(* a value whose braces are balanced from depth `level` on is accepted *)
Lemma iter_string_parts_total fuel : forall level s, (length s < fuel)%nat ->
  bal level s = Some 0%nat ->
  exists ps rest, iter_string_parts fuel level s = Ok (ps, rest) /\
    match level with O => True | S l => bal l rest = Some 0%nat end.
Proof.
  induction fuel as [|f IH]; intros level s Hf Hb; [lia|].
  cbn [iter_string_parts].
  destruct (skip_to_brace s) as [[[pre k] rest0]|] eqn:Es.
  - destruct (skip_to_brace_some s pre k rest0 Es) as [Hpre ->].
    rewrite bal_app, (bal_nobrace pre level Hpre) in Hb. cbn [bal] in Hb.
    rewrite app_length in Hf. cbn [length] in Hf. destruct k.
    + change (c_lbrace =? c_lbrace) with true in Hb. cbv iota in Hb.
      destruct (IH (S level) rest0 ltac:(lia) Hb) as [inner [rest' [Ei Hr']]]. rewrite Ei. cbn [bind].
      destruct (iter_string_parts_bounds _ _ _ _ _ Ei) as [Hl1 Hb1].
      destruct (mk_parts_total (S (length (pre ++ c_lbrace :: rest0))) (length rest0) inner) as [qs [Eq Hq]].
      { rewrite app_length. cbn [length]. lia. }
      { exact Hb1. }
      rewrite Eq. cbn [bind].
      destruct (IH level rest' ltac:(lia) Hr') as [more [rest'' [Eo Hr'']]]. rewrite Eo. cbn [bind].
      eexists. eexists. split; [reflexivity|exact Hr''].
    + change (c_rbrace =? c_lbrace) with false in Hb. change (c_rbrace =? c_rbrace) with true in Hb. cbv iota in Hb.
      destruct level as [|l]; [discriminate|].
      eexists. eexists. split; [reflexivity|exact Hb].
  - pose proof (skip_to_brace_none s Es) as Hn. rewrite (bal_nobrace s level Hn) in Hb.
    injection Hb as ->. eexists. eexists. split; [reflexivity|exact I].
Qed.

Lemma parse_latex_total s : balanced s -> exists t, parse_latex s = Ok t.
Proof.
  intros Hb. unfold parse_latex.
  destruct (iter_string_parts_total (S (length s)) 0 s ltac:(lia) Hb) as [ps [rest [E _]]].
  rewrite E. cbn [bind].
  destruct (iter_string_parts_bounds _ _ _ _ _ E) as [_ Hbd].
  destruct (mk_parts_total (S (length s)) (length s) ps ltac:(lia) Hbd) as [qs [Eq _]].
  rewrite Eq. cbn [bind]. eexists. reflexivity.
Qed.

(* and rejected with the parser's own error otherwise: never a foreign exception, never out of fuel
   is NOT claimed here (only the balanced half is needed by the property) *)

Lemma latex_depth_roundtrip_full T v : balanced v ->
  exists t out, parse_latex v = Ok t /\ render (fun s => s) T BLatex t = Ok out /\
                depth_profile out = depth_profile v.
Proof.
  intros Hb. destruct (parse_latex_total v Hb) as [t Et].
  destruct (latex_depth_roundtrip_holds T v t Et) as [out [Er Hd]].
  exists t, out. auto.
Qed.
