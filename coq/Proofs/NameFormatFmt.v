(* Proofs/NameFormatFmt.v -- the formatting half of Model/NameFormat.v: join / tie_or_space
   against BibTeX's separator rule, NamePart.format, absence of foreign exceptions. *)
From Pybtex Require Import Base.Prelude Base.PyChar Base.PyStr Model.BibtexStr Model.Names Model.NameFormat
  Spec.NameFormat Proofs.NameFormatParse.

(* ---- join ---- *)
Lemma sep_rule_later n b tie sp i : 1 <= i -> sep_rule n b tie sp i = if Nat.eqb (S (S i)) n then tie else sp.
Proof. intros H. unfold sep_rule. destruct i; [lia|]. cbn [Nat.eqb andb]. rewrite orb_false_r. reflexivity. Qed.

Lemma interleave_tail b tie sp : forall R k, 1 <= k -> R <> [] ->
  interleave R (map (sep_rule (k + length R) b tie sp) (seq k (pred (length R)))) =
  match R with [x] => x | _ => join sp (removelast R) ++ tie ++ last R [] end.
Proof.
  induction R as [|x R IH]; intros k K NE; [contradiction|].
  destruct R as [|y R']; [reflexivity|].
  cbn [length pred seq map]. rewrite sep_rule_later by exact K.
  specialize (IH (S k) ltac:(lia) ltac:(discriminate)).
  cbn [length pred] in IH. replace (S k + S (length R')) with (k + S (S (length R'))) in IH by lia.
  change (interleave (x :: y :: R') ?l) with (match l with s :: l' => x ++ s ++ interleave (y :: R') l' | [] => x ++ interleave (y :: R') [] end).
  cbv beta iota. rewrite IH. clear IH.
  destruct R' as [|z R''].
  - cbn [length]. replace (S (S k) =? k + 2) with true by (symmetry; apply Nat.eqb_eq; lia). reflexivity.
  - cbn [length]. replace (S (S k) =? k + S (S (S (length R'')))) with false by (symmetry; apply Nat.eqb_neq; lia).
    change (removelast (x :: y :: z :: R'')) with (x :: removelast (y :: z :: R'')).
    change (last (x :: y :: z :: R'') []) with (last (y :: z :: R'') []).
    change (removelast (y :: z :: R'')) with (y :: removelast (z :: R'')).
    cbn [join]. rewrite <- !app_assoc. reflexivity.
Qed.

Theorem join_ties_eq ws tie sp :
  join_words ws tie sp =
  if Nat.leb 3 (length ws)
  then do n <- bibtex_len (hd [] ws); Ok (interleave ws (seps_rule (length ws) (Nat.ltb n 3) tie sp))
  else Ok (interleave ws (repeat tie (pred (length ws)))).
Proof.
  destruct ws as [|w0 [|w1 [|w2 rest]]]; try reflexivity.
  set (R := w1 :: w2 :: rest).
  change (join_words (w0 :: R) tie sp) with
    (do sep <- tie_or_space w0 tie sp; Ok (w0 ++ sep ++ join sp (removelast R) ++ tie ++ last R [])).
  change (Nat.leb 3 (length (w0 :: R))) with true. cbv iota. cbn [hd].
  unfold tie_or_space. destruct (bibtex_len w0) as [n| | |]; try reflexivity. cbn [bind].
  f_equal. unfold seps_rule. cbn [length pred].
  change (seq 0 (length R)) with (0 :: seq 1 (pred (length R))). cbn [map].
  change (interleave (w0 :: R) ?l) with (match l with s :: l' => w0 ++ s ++ interleave R l' | [] => w0 ++ interleave R [] end).
  cbv beta iota.
  pose proof (interleave_tail (Nat.ltb n 3) tie sp R 1 (le_n 1) ltac:(discriminate)) as T.
  cbn [Nat.add] in T. rewrite T. subst R. cbv iota.
  unfold sep_rule, enough_chars. cbn [Nat.eqb length orb andb]. destruct (Nat.ltb n 3); reflexivity.
Qed.

Corollary join_short (ws : list str) tie sp : length ws <= 2 ->
  join_words ws tie sp = Ok (interleave ws (repeat tie (pred (length ws)))).
Proof.
  intros L. rewrite join_ties_eq. replace (Nat.leb 3 (length ws)) with false; [reflexivity|].
  symmetry. apply Nat.leb_gt. lia.
Qed.

Corollary join_long (ws : list str) tie sp n : 3 <= length ws -> bibtex_len (hd [] ws) = Ok n ->
  join_words ws tie sp = Ok (interleave ws (seps_rule (length ws) (Nat.ltb n 3) tie sp)).
Proof.
  intros L B. rewrite join_ties_eq. apply Nat.leb_le in L. rewrite L, B. reflexivity.
Qed.

(* ---- no foreign exception, no fuel exhaustion, in the string primitives used ---- *)
Lemma scan_go_okerr s : forall level sp, okerr (scan_go s level sp).
Proof.
  induction s as [|c s IH]; intros level sp; cbn [scan_go].
  - destruct sp as [[d acc]|]; exact I.
  - destruct sp as [[d acc]|].
    + destruct (is_lbrace c); [destruct (Nat.ltb _ _); [exact I|apply IH]|].
      destruct (is_rbrace c); [|apply IH].
      destruct d; [|apply IH]. apply okerr_bind; [apply IH|intros; exact I].
    + destruct (is_lbrace c).
      * destruct (_ && _); [apply okerr_bind; [apply IH|intros; exact I]|].
        destruct (Nat.ltb _ _); [exact I|]. apply okerr_bind; [apply IH|intros; exact I].
      * destruct (_ && _); apply okerr_bind; try apply IH; intros; exact I.
Qed.

Lemma bibtex_len_okerr s : okerr (bibtex_len s).
Proof. unfold bibtex_len, scan. apply okerr_bind; [apply scan_go_okerr|intros; exact I]. Qed.

Lemma iter_go_okerr s : forall level sp, okerr (iter_go s level sp).
Proof.
  induction s as [|c s IH]; intros level sp; cbn [iter_go].
  - destruct sp as [[d acc]|]; exact I.
  - destruct sp as [[d acc]|].
    + destruct (is_lbrace c); [destruct (Nat.ltb _ _); [exact I|apply IH]|].
      destruct (is_rbrace c); [|apply IH].
      destruct d; [|apply IH]. apply okerr_bind; [apply IH|intros; exact I].
    + destruct (is_lbrace c).
      * destruct (_ && _); [apply IH|]. destruct (Nat.ltb _ _); [exact I|apply IH].
      * destruct (_ && _); [apply IH|]. apply okerr_bind; [apply IH|intros; exact I].
Qed.

Lemma first_letter_okerr s : okerr (bibtex_first_letter s).
Proof. unfold bibtex_first_letter. apply okerr_bind; [apply iter_go_okerr|intros; exact I]. Qed.

Lemma map_res_okerr {X Y} (f : X -> res Y) l : (forall x, okerr (f x)) -> okerr (map_res f l).
Proof.
  intros F. induction l as [|x l IH]; cbn [map_res]; [exact I|].
  apply okerr_bind; [apply F|]. intros y _. apply okerr_bind; [exact IH|intros; exact I].
Qed.

Lemma partition_brace_len s : forall h r, partition_brace s = (h, true, r) -> length r < length s.
Proof.
  induction s as [|c s IH]; intros h r H; cbn [partition_brace] in H; [discriminate|].
  destruct (is_lbrace c).
  - inversion H; subst. cbn. lia.
  - destruct (partition_brace s) as [[h' b'] r'] eqn:E. inversion H; subst.
    specialize (IH _ _ eq_refl). cbn. lia.
Qed.

Lemma fcb_len s : length (snd (find_closing_brace s)) <= length s.
Proof.
  unfold find_closing_brace. destruct (Nat.eqb _ 0); cbn [snd length]; [lia|]. rewrite skipn_length. lia.
Qed.

Lemma split_loop_fuel m fuel : forall s result wp, length s < fuel -> split_loop fuel m s result wp <> None.
Proof.
  induction fuel as [|f IH]; intros s result wp L; [lia|].
  cbn [split_loop]. destruct (partition_brace s) as [[head brace] rest] eqn:P.
  destruct (match head with [] => _ | _ => _ end) as [result1 wp1].
  destruct brace; [|discriminate].
  apply partition_brace_len in P.
  pose proof (fcb_len rest) as F. destruct (find_closing_brace rest) as [upto rest']. cbn [snd] in F.
  apply IH. lia.
Qed.

Lemma split_gen_okerr m s a b : okerr (split_tex_string_gen m s a b).
Proof.
  unfold split_tex_string_gen. destruct (split_loop _ m s [] []) eqn:E; [exact I|].
  exfalso. eapply split_loop_fuel; [|exact E]. lia.
Qed.

Lemma abbreviate_okerr s d : okerr (bibtex_abbreviate s d).
Proof.
  unfold bibtex_abbreviate. apply okerr_bind; [apply split_gen_okerr|]. intros toks _.
  apply okerr_bind; [apply map_res_okerr; apply first_letter_okerr|intros; exact I].
Qed.

Lemma tie_or_space_okerr w t s : okerr (tie_or_space w t s).
Proof. unfold tie_or_space. apply okerr_bind; [apply bibtex_len_okerr|intros; exact I]. Qed.

Lemma join_words_okerr ws t s : okerr (join_words ws t s).
Proof.
  destruct ws as [|w0 [|w1 [|w2 rest]]]; try exact I.
  change (okerr (do sep <- tie_or_space w0 t s; Ok (w0 ++ sep ++ join s (removelast (w1 :: w2 :: rest)) ++ t ++ last (w1 :: w2 :: rest) []))).
  apply okerr_bind; [apply tie_or_space_okerr|intros; exact I].
Qed.

(* ---- NamePart.format ---- *)
Definition np_ok (np : name_part) : Prop :=
  match np_char np with None => True | Some c => flvj c = true end.
Definition part_ok (pt : part) : Prop := match pt with PText _ => True | PName np => np_ok np end.

Lemma get_names_okerr c p : flvj c = true -> okerr (get_names c p).
Proof.
  intros H. apply flvj_cases in H as [ -> | [ -> | [ -> | -> ] ] ]; exact I.
Qed.

Lemma format_name_part_okerr np p : np_ok np -> okerr (format_name_part np p).
Proof.
  unfold np_ok, format_name_part. intros H.
  apply okerr_bind.
  { destruct (np_char np); [apply get_names_okerr; exact H|exact I]. }
  intros names _. destruct (_ && _); [exact I|].
  apply okerr_bind.
  { destruct (np_abbr np); [apply map_res_okerr; intros; apply abbreviate_okerr|exact I]. }
  intros names1 _. apply okerr_bind.
  { destruct (np_delim np); [exact I|]. destruct (np_abbr np); apply join_words_okerr. }
  intros joined _. apply okerr_bind; [|intros; exact I].
  destruct (np_tie np) as [|[|[|k]]]; try exact I. apply tie_or_space_okerr.
Qed.

Lemma format_parts_okerr ps p : Forall part_ok ps -> okerr (format_parts ps p).
Proof.
  induction 1 as [|pt ps H F IH]; cbn [format_parts]; [exact I|].
  apply okerr_bind.
  { destruct pt; [exact I|apply format_name_part_okerr; exact H]. }
  intros a _. apply okerr_bind; [exact IH|intros; exact I].
Qed.

Lemma mk_name_part_ok pre fc dl post np : fc_wf fc -> mk_name_part (pre, fc, dl, post) = Ok np -> np_ok np.
Proof.
  unfold mk_name_part, fc_wf, np_ok. destruct fc as [v|]; [|intros _ H; inversion H; exact I].
  destruct v as [|a [|b [|x v]]]; cbn [format_chars_ok negb andb]; try discriminate.
  - intros F H. inversion H; subst. exact F.
  - intros F. apply andb_prop in F as [E F]. rewrite E. intros H. inversion H; subst. exact F.
Qed.

Lemma parse_go_parts_ok fuel : forall s ps, parse_go fuel s = Ok ps -> Forall part_ok ps.
Proof.
  induction fuel as [|f IH]; intros s ps H; [discriminate|].
  cbn [parse_go] in H. destruct s as [|c t]; [inversion H; constructor|].
  destruct (m_text (c :: t)) as [|k] eqn:T.
  - destruct (is_lbrace c); [|discriminate].
    destruct (parse_name_part t) as [[[[[pre fc] dl] post] r]| | |] eqn:P; cbn [bind fst snd] in H; try discriminate.
    apply parse_name_part_spec in P as (body & _ & _ & F).
    destruct (mk_name_part _) as [np| | |] eqn:M; cbn [bind] in H; try discriminate.
    destruct (parse_go f r) eqn:R; cbn [bind] in H; try discriminate.
    inversion H; subst. constructor; [eapply mk_name_part_ok; eauto|eapply IH; exact R].
  - destruct (parse_go f (skipn (S k) (c :: t))) eqn:R; cbn [bind] in H; try discriminate.
    inversion H; subst. constructor; [exact I|eapply IH; exact R].
Qed.

(* formatting a person (any token lists) with any format string: a result or a pybtex error *)
Theorem format_person_okerr f p : okerr (format_person f p).
Proof.
  unfold format_person. apply okerr_bind; [apply parse_format_okerr|].
  intros ps H. apply format_parts_okerr. eapply parse_go_parts_ok; exact H.
Qed.

Theorem format_name_okerr name f : okerr (person_of_string name) -> okerr (format_name name f).
Proof.
  intros P. unfold format_name. apply okerr_bind; [apply parse_format_okerr|]. intros ps H.
  apply okerr_bind; [exact P|]. intros pr _.
  apply okerr_bind; [apply format_parts_okerr; eapply parse_go_parts_ok; exact H|intros; exact I].
Qed.

Lemma split_name_list_okerr s : okerr (split_name_list s).
Proof. apply split_gen_okerr. Qed.

Theorem format_name_n_okerr names n f :
  (forall nm, okerr (person_of_string nm)) -> okerr (format_name_n names n f).
Proof.
  intros P. unfold format_name_n. apply okerr_bind; [apply split_name_list_okerr|]. intros l _.
  destruct (_ && _)%Z; [apply format_name_okerr; apply P|exact I].
Qed.

(* the index check of the built-in (after fix 703bfb1) *)
Theorem format_name_n_range names n f l : split_name_list names = Ok l ->
  ((n < 1)%Z \/ (Z.of_nat (length l) < n)%Z -> format_name_n names n f = PyErr E_NONAME (-1)) /\
  ((1 <= n <= Z.of_nat (length l))%Z -> format_name_n names n f = format_name (nth (Z.to_nat (n - 1)) l []) f).
Proof.
  intros S. unfold format_name_n. rewrite S. cbn [bind]. split; intros H.
  - replace ((1 <=? n)%Z && (n <=? Z.of_nat (length l))%Z) with false; [reflexivity|].
    symmetry. apply andb_false_iff. destruct H; [left; apply Z.leb_gt; lia|right; apply Z.leb_gt; lia].
  - replace ((1 <=? n)%Z && (n <=? Z.of_nat (length l))%Z) with true; [reflexivity|].
    symmetry. apply andb_true_iff. split; apply Z.leb_le; lia.
Qed.

(* ---- the rule for one {...} part ---- *)
Definition dots (abbr : bool) : str := if abbr then [c_dot] else [].

Definition disc_rule (tie : nat) (formatted disc : str) : Prop :=
  match tie with
  | 1 => exists n, bibtex_len formatted = Ok n /\ disc = if Nat.ltb n 3 then [c_tilde] else [c_space]
  | 2 => disc = [c_tilde]
  | _ => disc = []
  end.

Lemma map_res_length {X Y} (f : X -> res Y) l : forall r, map_res f l = Ok r -> length r = length l.
Proof.
  induction l as [|x l IH]; intros r H; cbn [map_res] in H; [inversion H; reflexivity|].
  destruct (f x); cbn [bind] in H; try discriminate.
  destruct (map_res f l); cbn [bind] in H; try discriminate. inversion H; subst. cbn. f_equal. apply IH. reflexivity.
Qed.

Theorem part_rule np p c names : np_char np = Some c -> get_names c p = Ok names ->
  (names = [] -> format_name_part np p = Ok []) /\
  (names <> [] -> forall out, format_name_part np p = Ok out ->
     exists toks joined disc,
       (if np_abbr np then map_res (fun n => bibtex_abbreviate n (np_delim np)) names = Ok toks else toks = names) /\
       length toks = length names /\
       match np_delim np with
       | Some d => joined = join d toks
       | None => join_words toks (dots (np_abbr np) ++ [c_tilde]) (dots (np_abbr np) ++ [c_space]) = Ok joined
       end /\
       disc_rule (np_tie np) (np_pre np ++ joined ++ np_post np) disc /\
       out = np_pre np ++ joined ++ np_post np ++ disc).
Proof.
  intros C G. unfold format_name_part. rewrite C, G. cbn [bind andb]. split.
  - intros ->. reflexivity.
  - intros NE out H. destruct names as [|n0 names']; [contradiction|]. cbn [is_nil] in H.
    destruct (if np_abbr np then _ else _) as [toks| | |] eqn:T; cbn [bind] in H; try discriminate.
    destruct (match np_delim np with Some d => _ | None => _ end) as [joined| | |] eqn:J; cbn [bind] in H; try discriminate.
    destruct (match np_tie np with 1 => _ | 2 => _ | _ => _ end) as [disc| | |] eqn:D; cbn [bind] in H; try discriminate.
    inversion H; subst out. exists toks, joined, disc.
    split; [destruct (np_abbr np); [exact T|inversion T; reflexivity]|].
    split; [destruct (np_abbr np); [eapply map_res_length; exact T|inversion T; reflexivity]|].
    split.
    { destruct (np_delim np); [inversion J; reflexivity|]. destruct (np_abbr np); exact J. }
    split; [|rewrite <- !app_assoc; reflexivity].
    unfold disc_rule. destruct (np_tie np) as [|[|[|k]]]; try (inversion D; reflexivity).
    unfold tie_or_space in D. destruct (bibtex_len _) as [n| | |]; cbn [bind] in D; try discriminate.
    exists n. split; [reflexivity|]. inversion D. reflexivity.
Qed.

(* a part without letters ({, ~} ...) prints its text whatever the person *)
Theorem letterless_part np p : np_char np = None -> np_abbr np = false -> np_delim np = None ->
  forall out, format_name_part np p = Ok out ->
  exists disc, disc_rule (np_tie np) (np_pre np ++ np_post np) disc /\ out = np_pre np ++ np_post np ++ disc.
Proof.
  intros C A Dl out H. unfold format_name_part in H. rewrite C, A, Dl in H. cbn [bind andb join_words join] in H.
  cbn [app] in H.
  destruct (match np_tie np with 1 => _ | 2 => _ | _ => _ end) as [disc| | |] eqn:D; cbn [bind] in H; try discriminate.
  inversion H; subst out. exists disc. split; [|rewrite <- app_assoc; reflexivity].
  unfold disc_rule. destruct (np_tie np) as [|[|[|k]]]; try (inversion D; reflexivity).
  unfold tie_or_space in D. destruct (bibtex_len _) as [n| | |]; cbn [bind] in D; try discriminate.
  exists n. split; [reflexivity|]. inversion D. reflexivity.
Qed.

(* ---- explicit forms for the property file ---- *)
Lemma okerr_cases {X} (r : res X) : okerr r -> (exists v, r = Ok v) \/ (exists c l, r = PyErr c l).
Proof. destruct r; cbn; intros H; try contradiction; eauto. Qed.

Theorem parse_total f : (exists ps, parse_format f = Ok ps) \/ (exists c l, parse_format f = PyErr c l).
Proof. apply okerr_cases, parse_format_okerr. Qed.

Theorem malformed_rejected f :
  ~ balanced f \/ forallb legal_group (level1_letter_runs f) = false -> exists c l, parse_format f = PyErr c l.
Proof. intros [H|H]; [apply unbalanced_rejected|apply bad_letters_rejected]; exact H. Qed.

Theorem format_person_no_crash f p :
  (exists out, format_person f p = Ok out) \/ (exists c l, format_person f p = PyErr c l).
Proof. apply okerr_cases, format_person_okerr. Qed.

Theorem format_name_no_crash (f : str) :
  (forall nm, person_of_string nm <> Crash /\ person_of_string nm <> OutOfFuel) ->
  forall names n,
  (exists out, format_name_n names n f = Ok out) \/ (exists c l, format_name_n names n f = PyErr c l).
Proof.
  intros P names n. apply okerr_cases, format_name_n_okerr. intros nm. destruct (P nm) as [A B].
  destruct (person_of_string nm); try exact I; congruence.
Qed.
