(* Proofs/BibSuffix.v -- C10: character-level suffix confinement *)
From Pybtex Require Import Base.Prelude Base.PyChar Base.PyStr Model.BibtexStr Model.Names
  Model.Scanner Model.BibParser Proofs.Scanner Proofs.BibStable Proofs.BibValues Proofs.BibEntry Proofs.BibFile.
From Pybtex Require Proofs.BibParser.
Local Open Scope N_scope.

(* the reading of p did not touch the end of p *)
Definition untouched (s : pst) : Prop :=
  sc_rest (p_sc s) <> [] /\ (forall e, In e (p_errs s) -> e_cls e <> E_EOF).

Lemma untouched_not_T s : untouched s -> ~ T s.
Proof. intros [H1 H2] [Hn|(e & Hi & Hc)]; [congruence|exact (H2 e Hi Hc)]. Qed.

Lemma compositionality p y d s : parse_bib Capture p = Ret d s -> untouched s ->
  exists n, (0 < n)%nat /\ parse_bib Capture (p ++ y) = bib_loop process n Capture d (app s y).
Proof.
  intros H Hu. unfold parse_bib in *.
  assert (H' : bib_loop process (S (length p) + length y) Capture db_init (pst_init p month_macros) = Ret d s).
  { rewrite bib_loop_fuel; [exact H|]. rewrite H. discriminate. }
  destruct (loop_split _ _ _ _ _ H' (untouched_not_T s Hu) y) as (n & Hn & E).
  exists n. split; [exact Hn|]. rewrite app_length.
  change (pst_init (p ++ y) month_macros) with (app (pst_init p month_macros) y). exact E.
Qed.

Lemma loop_end_no_at : forall fuel d s d' s', bib_loop process fuel Capture d s = Ret d' s' ->
  skip_to (fun c => c =? c_at) (p_sc s') = None.
Proof.
  induction fuel as [|f IH]; intros d s d' s' H; [discriminate|]. cbn [bib_loop] in H.
  destruct (skip_to _ (p_sc s)) as [[[v c] c']|] eqn:Es.
  2:{ injection H as <- <-. exact Es. }
  destruct (parse_command Capture _) as [[c0|] s2|e s2|x]; try discriminate.
  - destruct (process Capture c0 d s2) as [d1 s3|e3 s3|x3]; cbn [obind] in H; try discriminate. exact (IH _ _ _ _ H).
  - exact (IH _ _ _ _ H).
  - cbn [handle_error obind] in H. exact (IH _ _ _ _ H).
Qed.

Lemma skip_none_no_at c : skip_to (fun x => x =? c_at) c = None -> no_at (sc_rest c).
Proof.
  unfold skip_to. destruct (find_first _ (sc_rest c)) as [[[? ?] ?]|] eqn:E; [discriminate|]. intros _.
  exact (find_first_none _ _ E).
Qed.

Definition with_junk (j : str) (items : list (str * sitem)) (tail : str) : list (str * sitem) * str :=
  match items with
  | [] => ([], j ++ tail)
  | (j0, i) :: r => ((j ++ j0, i) :: r, tail)
  end.

Lemma with_junk_text j items tail : let (it, tl) := with_junk j items tail in file_text2 it tl = j ++ file_text2 items tail.
Proof. destruct items as [|[j0 i] r]; cbn; [reflexivity|rewrite <- app_assoc; reflexivity]. Qed.

Lemma no_at_app a b : no_at a -> no_at b -> no_at (a ++ b).
Proof. intros Ha Hb x Hx. apply in_app_or in Hx as [Hx|Hx]; auto. Qed.

(* SUFFIX CONFINEMENT, character level *)
Lemma suffix_confinement_lemma p d s items tail v' e :
  parse_bib Capture p = Ret d s -> untouched s ->
  wf_file (p_macros s) items -> no_at tail ->
  denote_items2 (p_macros s) items (view d) = Some (v', e) ->
  exists d' s', parse_bib Capture (p ++ file_text2 items tail) = Ret d' s'
                /\ view d' = v' /\ p_errs s' = p_errs s ++ map data_err e.
Proof.
  intros H Hu Hwf Htail Hd.
  destruct (compositionality p (file_text2 items tail) d s H Hu) as (n & Hn & E).
  pose proof (skip_none_no_at _ (loop_end_no_at _ _ _ _ _ H)) as Hj.
  set (j := sc_rest (p_sc s)) in *.
  pose proof (with_junk_text j items tail) as Ht. destruct (with_junk j items tail) as [it tl] eqn:Ew.
  assert (Hwf2 : wf_file (p_macros (app s (file_text2 items tail))) it /\ no_at tl /\
                 denote_items2 (p_macros (app s (file_text2 items tail))) it (view d) = Some (v', e)).
  { cbn [app p_macros]. destruct items as [|[j0 i] r]; cbn in Ew; injection Ew as <- <-.
    - split; [exact I|]. split; [apply no_at_app; assumption|exact Hd].
    - destruct Hwf as (Hj0 & Hi & Hr). split; [split; [apply no_at_app; assumption|split; assumption]|]. split; [exact Htail|exact Hd]. }
  destruct Hwf2 as (W & Tl & D).
  destruct (file_loop3 it (n + S (length it)) d (app s (file_text2 items tail)) tl v' e ltac:(lia) W Tl) as (d' & s' & E' & V & Er).
  - cbn [app p_sc app_sc sc_rest]. fold j. rewrite Ht. reflexivity.
  - exact D.
  - exists d', s'. split; [|split; [exact V|exact Er]].
    rewrite E. rewrite <- E'. symmetry. apply bib_loop_fuel.
    rewrite <- E. destruct (Proofs.BibParser.parse_bib_total_all Capture (p ++ file_text2 items tail)) as (_ & Hf & _). exact Hf.
Qed.

Definition untouchedb (s : pst) : bool :=
  negb (match sc_rest (p_sc s) with [] => true | _ => false end) && forallb (fun e => negb (e_cls e =? E_EOF)) (p_errs s).
Lemma untouchedb_ok s : untouchedb s = true -> untouched s.
Proof.
  unfold untouchedb, untouched. intros H. apply andb_prop in H as [H1 H2]. split.
  - destruct (sc_rest (p_sc s)); [discriminate|discriminate].
  - intros e He. rewrite forallb_forall in H2. specialize (H2 e He). apply negb_true_iff, N.eqb_neq in H2. exact H2.
Qed.
