(* Proofs/BibSuffix.v -- C10: character-level suffix confinement *)
From Pybtex Require Import Base.Prelude Base.PyChar Base.PyStr Model.BibtexStr Model.Names
  Model.Scanner Model.BibParser Proofs.Scanner Proofs.CharFacts Proofs.BibStable Proofs.BibValues Proofs.BibEntry Proofs.BibFile.
From Pybtex Require Proofs.BibParser.
Local Open Scope N_scope.

(* the reading of p did not touch the end of p *)
Definition untouched (s : pst) : Prop :=
  sc_rest (p_sc s) <> [] /\ (forall e, In e (p_errs s) -> e_cls e <> E_EOF).

Lemma untouched_not_T s : untouched s -> ~ T s.
Proof. intros [H1 H2] [Hn|(e & Hi & Hc)]; [congruence|exact (H2 e Hi Hc)]. Qed.

Lemma compositionality p y d s : parse_bib Capture p = Ret d s -> untouched s ->
  exists n, (0 < n)%nat /\ parse_bib Capture (p ++ y) = bib_loop process n Capture d (app s y).
Proof.
  intros H Hu. unfold parse_bib in *.
  assert (H' : bib_loop process (S (length p) + length y) Capture db_init (pst_init p month_macros) = Ret d s).
  { rewrite bib_loop_fuel; [exact H|]. rewrite H. discriminate. }
  destruct (loop_split _ _ _ _ _ H' (untouched_not_T s Hu) y) as (n & Hn & E).
  exists n. split; [exact Hn|]. rewrite app_length.
  change (pst_init (p ++ y) month_macros) with (app (pst_init p month_macros) y). exact E.
Qed.

Lemma loop_end_no_at : forall fuel d s d' s', bib_loop process fuel Capture d s = Ret d' s' ->
  skip_to (fun c => c =? c_at) (p_sc s') = None.
Proof.
  induction fuel as [|f IH]; intros d s d' s' H; [discriminate|]. cbn [bib_loop] in H.
  destruct (skip_to _ (p_sc s)) as [[[v c] c']|] eqn:Es.
  2:{ injection H as <- <-. exact Es. }
  destruct (parse_command Capture _) as [[c0|] s2|e s2|x]; try discriminate.
  - destruct (process Capture c0 d s2) as [d1 s3|e3 s3|x3]; cbn [obind] in H; try discriminate. exact (IH _ _ _ _ H).
  - exact (IH _ _ _ _ H).
  - cbn [handle_error obind] in H. exact (IH _ _ _ _ H).
Qed.

Lemma skip_none_no_at c : skip_to (fun x => x =? c_at) c = None -> no_at (sc_rest c).
Proof.
  unfold skip_to. destruct (find_first _ (sc_rest c)) as [[[? ?] ?]|] eqn:E; [discriminate|]. intros _.
  exact (find_first_none _ _ E).
Qed.

Definition with_junk (j : str) (items : list (str * sitem)) (tail : str) : list (str * sitem) * str :=
  match items with
  | [] => ([], j ++ tail)
  | (j0, i) :: r => ((j ++ j0, i) :: r, tail)
  end.

Lemma with_junk_text j items tail : let (it, tl) := with_junk j items tail in file_text2 it tl = j ++ file_text2 items tail.
Proof. destruct items as [|[j0 i] r]; cbn; [reflexivity|rewrite <- app_assoc; reflexivity]. Qed.

Lemma no_at_app a b : no_at a -> no_at b -> no_at (a ++ b).
Proof. intros Ha Hb x Hx. apply in_app_or in Hx as [Hx|Hx]; auto. Qed.

(* SUFFIX CONFINEMENT, character level *)
Lemma suffix_confinement_lemma p d s items tail v' e :
  parse_bib Capture p = Ret d s -> untouched s ->
  wf_file (p_macros s) items -> no_at tail ->
  denote_items2 (p_macros s) items (view d) = Some (v', e) ->
  exists d' s', parse_bib Capture (p ++ file_text2 items tail) = Ret d' s'
                /\ view d' = v' /\ p_errs s' = p_errs s ++ map data_err e.
Proof.
  intros H Hu Hwf Htail Hd.
  destruct (compositionality p (file_text2 items tail) d s H Hu) as (n & Hn & E).
  pose proof (skip_none_no_at _ (loop_end_no_at _ _ _ _ _ H)) as Hj.
  set (j := sc_rest (p_sc s)) in *.
  pose proof (with_junk_text j items tail) as Ht. destruct (with_junk j items tail) as [it tl] eqn:Ew.
  assert (Hwf2 : wf_file (p_macros (app s (file_text2 items tail))) it /\ no_at tl /\
                 denote_items2 (p_macros (app s (file_text2 items tail))) it (view d) = Some (v', e)).
  { cbn [app p_macros]. destruct items as [|[j0 i] r]; cbn in Ew; injection Ew as <- <-.
    - split; [exact I|]. split; [apply no_at_app; assumption|exact Hd].
    - destruct Hwf as (Hj0 & Hi & Hr). split; [split; [apply no_at_app; assumption|split; assumption]|]. split; [exact Htail|exact Hd]. }
  destruct Hwf2 as (W & Tl & D).
  destruct (file_loop3 it (n + S (length it)) d (app s (file_text2 items tail)) tl v' e ltac:(lia) W Tl) as (d' & s' & E' & V & Er).
  - cbn [app p_sc app_sc sc_rest]. fold j. rewrite Ht. reflexivity.
  - exact D.
  - exists d', s'. split; [|split; [exact V|exact Er]].
    rewrite E. rewrite <- E'. symmetry. apply bib_loop_fuel.
    rewrite <- E. destruct (Proofs.BibParser.parse_bib_total_all Capture (p ++ file_text2 items tail)) as (_ & Hf & _). exact Hf.
Qed.

Definition untouchedb (s : pst) : bool :=
  negb (match sc_rest (p_sc s) with [] => true | _ => false end) && forallb (fun e => negb (e_cls e =? E_EOF)) (p_errs s).
Lemma untouchedb_ok s : untouchedb s = true -> untouched s.
Proof.
  unfold untouchedb, untouched. intros H. apply andb_prop in H as [H1 H2]. split.
  - destruct (sc_rest (p_sc s)); [discriminate|discriminate].
  - intros e He. rewrite forallb_forall in H2. specialize (H2 e He). apply negb_true_iff, N.eqb_neq in H2. exact H2.
Qed.

(* ==== syntactic criteria ==== *)
(* (1) a well-formed file followed by non-empty junk is never read past its end *)
Lemma file_loop_rest : forall items fuel d st tail d' st',
  wf_file (p_macros st) items -> no_at tail -> sc_rest (p_sc st) = file_text2 items tail ->
  bib_loop process fuel Capture d st = Ret d' st' -> sc_rest (p_sc st') = tail.
Proof.
  induction items as [|[junk i] r IH]; intros fuel d st tail d' st' Hwf Htail Hr H; (destruct fuel as [|fu]; [discriminate|]); cbn [bib_loop] in H.
  - cbn [file_text2] in Hr. unfold skip_to in H. rewrite Hr, (find_first_all_false _ tail Htail) in H. injection H as <- <-. exact Hr.
  - destruct Hwf as (Hj & Hi & Hwr).
    cbn [file_text2] in Hr. unfold skip_to in H. rewrite Hr, (find_first_app _ junk c_at _ Hj eq_refl) in H.
    match type of H with context [parse_command Capture ?s1] =>
      destruct (item_reads Capture s1 i (file_text2 r tail) Hi eq_refl) as (st2 & E & Hr2 & Her & Hma)
    end.
    rewrite E in H. cbn [p_macros set_cstart set_sc] in Hma.
    destruct (item_cmd _ i) as [c|].
    + destruct (process Capture c d st2) as [d2 s3|e3 s3|x3] eqn:Ep; cbn [obind] in H; try discriminate.
      pose proof (proj2 (SF_process c d) st2) as _.
      assert (Hk : p_sc s3 = p_sc st2 /\ p_macros s3 = p_macros st2).
      { clear -Ep. revert Ep. destruct c as [n f v|n v|typ key fields]; cbn [process].
        - intros H; injection H as <- <-; auto.
        - unfold process_preamble. intros H; injection H as <- <-; auto.
        - unfold process_entry. destruct key as [k|];
            (destruct (process_fields Capture fields [] [] [] st2) as [rr s1|? ?|?] eqn:Ef; cbn [obind]; try discriminate;
             assert (Hf : p_sc s1 = p_sc st2 /\ p_macros s1 = p_macros st2) by
               (clear -Ef; revert Ef; generalize (@nil str) at 1; generalize (@nil (str * str)); generalize (@nil (str * list person));
                revert st2; induction fields as [|[fn pa] rest IHf]; intros st2 ps fs seen Ef; cbn [process_fields] in Ef;
                [injection Ef as _ <-; auto|];
                destruct (existsb (str_eqb (lower fn)) seen);
                [cbn [handle_error obind] in Ef; destruct (IHf _ _ _ _ Ef); auto|];
                destruct (is_person_field (lower fn)); [|exact (IHf _ _ _ _ Ef)];
                destruct (split_name_list _) as [names|? ?| |]; try discriminate;
                destruct (persons_of Capture names [] st2) as [pl sp|? ?|?] eqn:Epp; cbn [obind] in Ef; try discriminate;
                assert (Hp : p_sc sp = p_sc st2 /\ p_macros sp = p_macros st2) by
                  (clear -Epp; revert Epp; generalize (@nil person); revert st2; induction names as [|nm nr IHn]; intros st2 acc Epp; cbn [persons_of] in Epp;
                   [injection Epp as _ <-; auto|];
                   destruct (person_of_string nm) as [[pp rep]|? ?| |]; try discriminate;
                   destruct rep; cbn [handle_error obind] in Epp; [destruct (IHn _ _ Epp); auto|exact (IHn _ _ Epp)]);
                destruct Hp as [Hp1 Hp2]; destruct (IHf _ _ _ _ Ef) as [Hq1 Hq2]; split; congruence);
             unfold add_entry; destruct (existsb _ _); cbn [handle_error obind]; intros H; injection H as <- <-; destruct Hf; auto). }
      destruct Hk as [Hk1 Hk2].
      apply (IH fu d2 s3 tail d' st'); auto; [rewrite Hk2, Hma; exact Hwr|rewrite Hk1; exact Hr2].
    + apply (IH fu d st2 tail d' st'); auto. rewrite Hma. exact Hwr.
Qed.

Lemma data_errs_no_eof e : forall x, In x (map data_err e) -> In (e_cls x) e.
Proof. intros x Hx. apply in_map_iff in Hx as (c & <- & Hc). exact Hc. Qed.

Lemma denote_errs_data : forall items macros v v' e, denote_items2 macros items v = Some (v', e) -> forall c, In c e -> c <> E_EOF.
Proof.
  induction items as [|[j i] r IH]; intros macros v v' e H c Hc; cbn [denote_items2] in H.
  - injection H as <- <-. contradiction.
  - destruct (match item_cmd macros i with Some c0 => denote_cmd2 c0 v | None => Some (v, []) end) as [[v1 e1]|] eqn:E1; [|discriminate].
    destruct (denote_items2 (item_macros macros i) r v1) as [[v2 e2]|] eqn:E2; [|discriminate]. injection H as <- <-.
    apply in_app_or in Hc as [Hc|Hc]; [|exact (IH _ _ _ _ E2 c Hc)].
    destruct (item_cmd macros i) as [c0|]; [|injection E1 as <- <-; contradiction].
    destruct c0 as [n f vv|n vv|typ [key|] fields]; cbn [denote_cmd2] in E1; try discriminate; try (injection E1 as <- <-; contradiction).
    destruct (denote_fields fields [] [] []) as [[[fs ps] ef]|] eqn:Ef; [|discriminate].
    assert (Hf : forall c, In c ef -> c <> E_EOF).
    { clear -Ef. revert Ef. generalize (@nil str). generalize (@nil (str * str)) at 1. generalize (@nil (str * list person)) at 1. revert fs ps ef.
      induction fields as [|[fn pa] rest IHf]; intros fs ps ef ps0 fs0 seen Ef c Hc; cbn [denote_fields] in Ef.
      - injection Ef as <- <- <-. contradiction.
      - destruct (existsb (str_eqb (lower fn)) seen).
        + destruct (denote_fields rest seen fs0 ps0) as [[[f2 p2] e2]|] eqn:E; [|discriminate]. injection Ef as <- <- <-.
          destruct Hc as [<-|Hc]; [discriminate|exact (IHf _ _ _ _ _ _ E c Hc)].
        + destruct (is_person_field (lower fn)); [|exact (IHf _ _ _ _ _ _ Ef c Hc)].
          destruct (split_name_list _) as [names|? ?| |]; try discriminate.
          destruct (denote_persons names []) as [[pl e1]|] eqn:Ep; [|discriminate].
          destruct (denote_fields rest _ fs0 _) as [[[f2 p2] e2]|] eqn:E; [|discriminate]. injection Ef as <- <- <-.
          apply in_app_or in Hc as [Hc|Hc]; [|exact (IHf _ _ _ _ _ _ E c Hc)].
          clear -Ep Hc. revert Ep Hc. generalize (@nil person). revert pl e1.
          induction names as [|nm nr IHn]; intros pl e1 acc Ep Hc; cbn [denote_persons] in Ep.
          * injection Ep as <- <-. contradiction.
          * destruct (person_of_string nm) as [[pp rep]|? ?| |]; try discriminate.
            destruct (denote_persons nr (acc ++ [pp])) as [[pl' e']|] eqn:E; [|discriminate]. injection Ep as <- <-.
            apply in_app_or in Hc as [Hc|Hc]; [destruct rep; [destruct Hc as [<-|[]]; discriminate|contradiction]|exact (IHn _ _ _ E Hc)]. }
    destruct (existsb _ (fst v)); injection E1 as <- <-.
    + apply in_app_or in Hc as [Hc|[<-|[]]]; [exact (Hf c Hc)|discriminate].
    + exact (Hf c Hc).
Qed.

Lemma wellformed_untouched items tail v e :
  wf_file month_macros items -> no_at tail -> tail <> [] -> denote_items2 month_macros items ([], []) = Some (v, e) ->
  exists d s, parse_bib Capture (file_text2 items tail) = Ret d s /\ untouched s /\ view d = v /\ p_errs s = map data_err e.
Proof.
  intros Hwf Htail Hne Hd.
  destruct (file_roundtrip_full items tail v e Hwf Htail Hd) as (d & s & E & V & R).
  exists d, s. split; [exact E|]. split; [|auto]. split.
  - unfold parse_bib in E. rewrite (file_loop_rest items _ db_init (pst_init (file_text2 items tail) month_macros) tail d s Hwf Htail eq_refl E). exact Hne.
  - intros x Hx. rewrite R in Hx. pose proof (data_errs_no_eof e x Hx) as Hc. exact (denote_errs_data _ _ _ _ _ Hd _ Hc).
Qed.

From Pybtex Require Proofs.BibStrictFirst.
(* PREFIX CONFINEMENT, character level: whatever text y follows a well-formed file (ending in
   at least one character of junk, e.g. a line end), the entries, the preamble and the reported
   problems read from that file are exactly what it denotes and stay a prefix of the result *)
Lemma prefix_confinement_lemma items tail v e y d2 s2 :
  wf_file month_macros items -> no_at tail -> tail <> [] -> denote_items2 month_macros items ([], []) = Some (v, e) ->
  parse_bib Capture (file_text2 items tail ++ y) = Ret d2 s2 ->
  (exists l, map entry_view (db_entries d2) = fst v ++ l) /\ (exists l, map snd (db_preamble d2) = snd v ++ l) /\
  (exists l, p_errs s2 = map data_err e ++ l).
Proof.
  intros Hwf Htail Hne Hd H2.
  destruct (wellformed_untouched items tail v e Hwf Htail Hne Hd) as (d & s & E & Hu & V & R).
  destruct (compositionality _ y d s E Hu) as (n & _ & Ec). rewrite Ec in H2.
  destruct (Proofs.BibParser.bib_loop_append Capture _ _ _ _ _ H2) as [[l1 H1] [l2 H3]].
  pose proof (Proofs.BibStrictFirst.mono_bib_loop n d (app s y)) as Hm. rewrite H2 in Hm. cbn in Hm. destruct Hm as [l3 H4].
  unfold view in V. subst v. cbn [fst snd]. repeat split.
  - exists (map entry_view l1). rewrite H1, map_app. reflexivity.
  - exists (map snd l2). rewrite H3, map_app. reflexivity.
  - exists l3. rewrite H4, R. reflexivity.
Qed.

(* ---- (2) a syntactic class of damaged commands: the command head is damaged ---- *)
Fixpoint final_macros (macros : list (str * str)) (items : list (str * sitem)) : list (str * str) :=
  match items with [] => macros | (_, i) :: r => final_macros (item_macros macros i) r end.

(* reading well-formed items in front of arbitrary text b *)
Lemma file_prefix3 : forall items fuel d st b v' e,
  wf_file (p_macros st) items -> sc_rest (p_sc st) = file_text2 items b ->
  denote_items2 (p_macros st) items (view d) = Some (v', e) ->
  exists d' st', bib_loop process (length items + fuel) Capture d st = bib_loop process fuel Capture d' st'
    /\ view d' = v' /\ sc_rest (p_sc st') = b /\ p_errs st' = p_errs st ++ map data_err e
    /\ p_macros st' = final_macros (p_macros st) items.
Proof.
  induction items as [|[junk i] r IH]; intros fuel d st b v' e Hwf Hr Hd.
  - cbn in Hd. injection Hd as <- <-. exists d, st. cbn. rewrite app_nil_r. auto.
  - cbn [length plus bib_loop]. destruct Hwf as (Hj & Hi & Hwr).
    cbn [file_text2] in Hr. unfold skip_to. rewrite Hr, (find_first_app _ junk c_at _ Hj eq_refl).
    match goal with |- context [parse_command Capture ?s1] =>
      destruct (item_reads Capture s1 i (file_text2 r b) Hi eq_refl) as (st2 & E & Hr2 & Her & Hma)
    end.
    rewrite E. cbn [p_macros p_errs set_cstart set_sc] in *. cbn [denote_items2] in Hd. cbn [final_macros].
    destruct (item_cmd (p_macros st) i) as [c|] eqn:Ec.
    + destruct (denote_cmd2 c (view d)) as [[v1 e1]|] eqn:Ed; [|discriminate].
      destruct (denote_items2 (item_macros (p_macros st) i) r v1) as [[v2 e2]|] eqn:Ed2; [|discriminate]. injection Hd as <- <-.
      destruct (process_denotes2 c d st2 v1 e1 Ed) as (d2 & Ep & Hv).
      rewrite Ep. cbn [obind].
      destruct (add_errs_core st2 (map data_err e1)) as [Hc1 Hc2].
      destruct (IH fuel d2 (add_errs st2 (map data_err e1)) b v2 e2) as (d' & st' & E' & Hv' & Hb & He' & Hm').
      * rewrite Hc2, Hma. exact Hwr.
      * rewrite Hc1. exact Hr2.
      * rewrite Hc2, Hma, Hv. exact Ed2.
      * exists d', st'. split; [exact E'|]. split; [exact Hv'|]. split; [exact Hb|]. split.
        -- rewrite He', add_errs_errs, Her, map_app, app_assoc. reflexivity.
        -- rewrite Hm', Hc2, Hma. reflexivity.
    + destruct (denote_items2 (item_macros (p_macros st) i) r (view d)) as [[v2 e2]|] eqn:Ed2; [|discriminate]. injection Hd as <- <-.
      destruct (IH fuel d st2 b v2 e2) as (d' & st' & E' & Hv' & Hb & He' & Hm').
      * rewrite Hma. exact Hwr.
      * exact Hr2.
      * rewrite Hma. exact Ed2.
      * exists d', st'. split; [exact E'|]. split; [exact Hv'|]. split; [exact Hb|]. split; [rewrite He', Her; reflexivity|rewrite Hm', Hma; reflexivity].
Qed.

Lemma required_none_after_ws ps st ws x t : forallb is_space ws = true -> is_space x = false ->
  sc_rest (p_sc st) = ws ++ x :: t -> first_match ps (x :: t) = None ->
  exists sc', required ps st = Exc (mk_err E_TOKEN (set_sc st sc')) (set_sc st sc') /\ sc_rest sc' = x :: t.
Proof.
  intros Hws Hx Hr Hf. destruct (get_token_none_after_ws ps _ ws x t Hws Hx Hr Hf) as (c' & Hg & Hc).
  unfold required. rewrite Hg. exists c'. split; [reflexivity|exact Hc].
Qed.

(* a command whose name is missing / replaced by something that cannot start a name:
   '@' ws X ..., X neither whitespace nor a name-start character, no '@' in what follows *)
Lemma damaged_head_untouched items junk ws X r v e :
  wf_file month_macros items -> no_at junk -> no_at r -> forallb is_space ws = true ->
  is_space X = false -> is_name_start X = false -> (X =? c_at) = false ->
  denote_items2 month_macros items ([], []) = Some (v, e) ->
  exists d s, parse_bib Capture (file_text2 items (junk ++ c_at :: ws ++ X :: r)) = Ret d s /\ untouched s /\ view d = v
              /\ p_macros s = final_macros month_macros items
              /\ exists te, p_errs s = map data_err e ++ [te] /\ e_cls te = E_TOKEN.
Proof.
  intros Hwf Hj Hr Hws HX1 HX2 HX3 Hd. unfold parse_bib.
  set (text := file_text2 items (junk ++ c_at :: ws ++ X :: r)).
  pose proof (file_text2_len items (junk ++ c_at :: ws ++ X :: r)) as Hlen. fold text in Hlen.
  assert (Hl2 : (length items + 3 <= S (length text))%nat).
  { assert (Hb : forall its b, (length its + length b <= length (file_text2 its b))%nat).
    { induction its as [|[j0 i0] r0 IHi]; intros b; cbn [file_text2 length]; [lia|]. rewrite app_length. cbn [length].
      assert (Hit : forall rest, (length rest <= length (item_text i0 rest))%nat).
      { intros rest. destruct i0; cbn [item_text]; unfold entry_text_gen, after_key; repeat (rewrite ?app_length; cbn [length]); try lia.
        destruct comma; cbn [length]; [|lia].
        assert (Hft : forall fs tr wse cl rs, (length rs <= length (fields_text fs tr wse cl rs))%nat).
        { induction fs0 as [|f fr IHf]; intros; cbn [fields_text]; rewrite app_length; cbn [length]; [lia|].
          destruct fr; [destruct tr; cbn [length]; rewrite ?app_length; cbn [length]; lia|]. specialize (IHf tr wse cl rs). cbn [length]. lia. }
        specialize (Hft fs trailing wsend (cl_char brace) rest). lia. }
      specialize (Hit (file_text2 r0 b)). specialize (IHi b). lia. }
    specialize (Hb items (junk ++ c_at :: ws ++ X :: r)). fold text in Hb. rewrite app_length in Hb. cbn [length] in Hb. rewrite app_length in Hb. cbn [length] in Hb. lia. }
  replace (S (length text)) with (length items + (S (length text) - length items))%nat by lia.
  destruct (file_prefix3 items (S (length text) - length items) db_init (pst_init text month_macros) _ v e Hwf eq_refl Hd)
    as (d1 & st1 & E1 & V1 & R1 & Er1 & M1).
  rewrite E1.
  destruct (S (length text) - length items)%nat as [|[|fu]] eqn:Ef; [lia|lia|].
  cbn [bib_loop]. unfold skip_to at 1. rewrite R1, (find_first_app _ junk c_at _ Hj eq_refl).
  match goal with |- context [parse_command Capture ?s1x] => set (s1 := s1x) end.
  assert (Hp : exists sc', parse_command Capture s1 = Exc (mk_err E_TOKEN (set_sc (set_value (set_fname (set_fields (set_key s1 None) []) None) []) sc'))
                                                   (set_sc (set_value (set_fname (set_fields (set_key s1 None) []) None) []) sc') /\ sc_rest sc' = X :: r).
  { unfold parse_command.
    match goal with |- context [required [P_NAME] ?s0] =>
      destruct (required_none_after_ws [P_NAME] s0 ws X r Hws HX1 eq_refl) as (sc' & E & Hsc) end.
    - cbn [first_match match_pat]. rewrite HX2. reflexivity.
    - exists sc'. rewrite E. split; [reflexivity|exact Hsc]. }
  destruct Hp as (sc' & Ep & Hsc). rewrite Ep. cbn [handle_error obind bib_loop].
  unfold skip_to. cbn [add_err set_sc p_sc]. rewrite Hsc.
  rewrite (find_first_all_false _ (X :: r)).
  2:{ intros x [<-|Hx]; [exact HX3|exact (Hr x Hx)]. }
  eexists. eexists. split; [reflexivity|]. split; [|split; [exact V1|split; [exact M1|]]].
  - split; [cbn; rewrite Hsc; discriminate|]. cbn [p_errs add_err set_sc set_value set_fname set_fields set_key set_cstart].
    intros x Hx. apply in_app_or in Hx as [Hx|[<-|[]]]; [|cbn; discriminate].
    unfold s1 in Hx. cbn [p_errs set_cstart set_sc] in Hx. rewrite Er1 in Hx. cbn in Hx. pose proof (data_errs_no_eof e x Hx) as Hc. exact (denote_errs_data _ _ _ _ _ Hd _ Hc).
  - eexists. split; [unfold s1; cbn; rewrite Er1; reflexivity|reflexivity].
Qed.

(* SUFFIX CONFINEMENT for the damaged-head class, purely syntactic hypotheses *)
Lemma suffix_confinement_damaged_head_lemma items junk ws X r v e items2 tail2 v2 e2 :
  wf_file month_macros items -> no_at junk -> no_at r -> forallb is_space ws = true ->
  is_space X = false -> is_name_start X = false -> (X =? c_at) = false ->
  denote_items2 month_macros items ([], []) = Some (v, e) ->
  wf_file (final_macros month_macros items) items2 -> no_at tail2 ->
  denote_items2 (final_macros month_macros items) items2 v = Some (v2, e2) ->
  exists d' s' te, parse_bib Capture (file_text2 items (junk ++ c_at :: ws ++ X :: r) ++ file_text2 items2 tail2) = Ret d' s'
    /\ view d' = v2 /\ p_errs s' = map data_err e ++ [te] ++ map data_err e2 /\ e_cls te = E_TOKEN.
Proof.
  intros Hwf Hj Hr Hws HX1 HX2 HX3 Hd Hwf2 Ht2 Hd2.
  destruct (damaged_head_untouched items junk ws X r v e Hwf Hj Hr Hws HX1 HX2 HX3 Hd) as (d & s & E & Hu & V & M & te & Er & Hc).
  destruct (suffix_confinement_lemma _ d s items2 tail2 v2 e2 E Hu) as (d' & s' & E' & V' & Er').
  - rewrite M. exact Hwf2.
  - exact Ht2.
  - rewrite M, V. exact Hd2.
  - exists d', s', te. split; [exact E'|]. split; [exact V'|]. split; [|exact Hc]. rewrite Er', Er, <- app_assoc. reflexivity.
Qed.

(* ---- (3) an entry whose closing delimiter is missing / replaced: after the (possibly empty)
   field list, where ',' or the closing delimiter is expected, comes another character cx *)
Definition entry_text_x (brace : bool) (cx : char) (ws0 typ ws1 ws2 key wsk : str) (fs : list sfield)
           (trailing : bool) (wsend rest : str) : str :=
  ws0 ++ typ ++ ws1 ++ op_char brace :: ws2 ++ key ++ wsk ++ c_comma :: fields_text fs trailing wsend cx rest.

Lemma entry_reads_x st brace (cx : char) ws0 typ ws1 ws2 key wsk fs trailing wsend rest :
  forallb is_space ws0 = true -> forallb is_space ws1 = true -> forallb is_space ws2 = true ->
  forallb is_space wsk = true -> forallb is_space wsend = true ->
  is_entry_type typ = true -> is_key brace key = true -> Forall (wf_sfield (p_macros st)) fs ->
  closer_char cx -> cx <> cl_char brace ->
  sc_rest (p_sc st) = entry_text_x brace cx ws0 typ ws1 ws2 key wsk fs trailing wsend rest ->
  exists st' te, parse_command Capture st = Ret (Some (CEntry typ (Some key) (map (field_result (p_macros st)) fs))) st'
    /\ sc_rest (p_sc st') = cx :: rest /\ p_errs st' = p_errs st ++ [te] /\ e_cls te = E_TOKEN /\ p_macros st' = p_macros st.
Proof.
  intros H0 H1 H2 Hk Hend Htyp Hkey Hwf Hcx Hne Hr. unfold entry_text_x in Hr.
  set (AK := c_comma :: fields_text fs trailing wsend cx rest) in *.
  unfold is_entry_type in Htyp. apply andb_prop in Htyp as [Htyp Hp]. apply andb_prop in Htyp as [Htyp Hs].
  apply andb_prop in Htyp as [Hname Hc]. apply negb_true_iff in Hp, Hs, Hc.
  destruct (name_head typ Hname) as (t0 & t' & Ht0 & Hts & Htc).
  unfold parse_command.
  (* type *)
  assert (Hf1 : first_match [P_NAME] (typ ++ ws1 ++ op_char brace :: ws2 ++ key ++ wsk ++ AK)
                = Some (P_NAME, typ, ws1 ++ op_char brace :: ws2 ++ key ++ wsk ++ AK)).
  { cbn [first_match]. rewrite (match_name typ _ Hname (head_ok_ws_then ws1 (op_char brace) _ H1 ltac:(destruct brace; reflexivity))). reflexivity. }
  rewrite Ht0 in Hr, Hf1. cbn [app] in Hr, Hf1.
  match goal with |- context [required [P_NAME] ?s0] =>
    destruct (required_after_ws [P_NAME] s0 ws0 t0 _ _ _ _ H0 (name_char_not_space t0 Htc) Hr Hf1) as (sc1 & E1 & Hr1) end.
  rewrite E1. cbn [obind]. cbv zeta. cbn [snd fst].
  (* opening delimiter *)
  assert (Hf2 : first_match [P_LIT 40; P_LIT c_lbrace] (op_char brace :: ws2 ++ key ++ wsk ++ AK)
                = Some (P_LIT (op_char brace), [op_char brace], ws2 ++ key ++ wsk ++ AK))
    by (destruct brace; reflexivity).
  match goal with |- context [required [P_LIT 40; P_LIT c_lbrace] ?s1] =>
    destruct (required_after_ws _ s1 ws1 (op_char brace) _ _ _ _ H1 ltac:(destruct brace; reflexivity) Hr1 Hf2) as (sc2 & E2 & Hr2) end.
  rewrite E2. cbn [obind fst snd]. rewrite <- Ht0. rewrite Hc, Hs, Hp.
  assert (Hb : (op_char brace =? c_lbrace) = brace) by (destruct brace; reflexivity). rewrite Hb.
  (* key *)
  unfold parse_entry_body.
  destruct key as [|k0 k']; [discriminate|].
  assert (Hk0 : is_space k0 = false).
  { cbn [is_key forallb] in Hkey. apply andb_prop in Hkey as [Hx _]. unfold keyp in Hx.
    destruct brace; apply negb_true_iff in Hx.
    - apply orb_false_iff in Hx as [Hx _]. apply orb_false_iff in Hx as [Hx _]. exact Hx.
    - apply orb_false_iff in Hx as [Hx _]. exact Hx. }
  assert (Hhead : head_ok (keyp brace) (wsk ++ AK)).
  { destruct wsk as [|w wsk']; cbn; [destruct brace; reflexivity|].
    cbn in Hk. apply andb_prop in Hk as [Hw _]. destruct brace; cbn; rewrite Hw; reflexivity. }
  assert (Hf3 : first_match [if brace then P_KEY_BRACE else P_KEY_PAREN] ((k0 :: k') ++ wsk ++ AK)
                = Some (if brace then P_KEY_BRACE else P_KEY_PAREN, k0 :: k', wsk ++ AK)).
  { cbn [first_match]. rewrite (match_key brace (k0 :: k') _ Hkey Hhead). reflexivity. }
  cbn [app] in Hf3, Hr2.
  match goal with |- context [required [if brace then P_KEY_BRACE else P_KEY_PAREN] ?s2] =>
    destruct (required_after_ws _ s2 ws2 k0 _ _ _ _ H2 Hk0 Hr2 Hf3) as (sc3 & E3 & Hr3) end.
  rewrite E3. cbn [obind snd].
  match goal with |- context [parse_entry_fields (S ?n) Capture ?s3] => remember s3 as s3v eqn:Es3; remember n as fuel0 eqn:Efu end.
  assert (Hr3' : sc_rest (p_sc s3v) = wsk ++ c_comma :: fields_text fs trailing wsend cx rest) by (subst s3v; exact Hr3).
  cbn [parse_entry_fields]. unfold parse_field.
  match goal with |- context [optional [P_NAME] ?s] =>
    destruct (optional_none_after_ws [P_NAME] s wsk c_comma _ Hk eq_refl Hr3' eq_refl) as (sc4 & E4 & Hr4) end.
  rewrite E4. cbn [obind p_fname set_sc set_value set_fname].
  match goal with |- context [optional [P_LIT c_comma] ?s] =>
    destruct (optional_after_ws [P_LIT c_comma] s [] c_comma _ (P_LIT c_comma) [c_comma] _ eq_refl eq_refl Hr4 eq_refl) as (sc5 & E5 & Hr5);
    rewrite E5; cbn [obind];
    destruct (fields_loop Capture fs fuel0 (set_sc s sc5) trailing wsend cx rest) as (st6 & E6 & Hr6 & Hfs & Hky & Her & Hma & Hcs)
  end.
  { subst fuel0. cbn [p_sc set_key set_sc]. rewrite Hr3. unfold AK. rewrite !app_length. cbn [length].
    assert (Hl : forall fs' tr, (length fs' <= length (fields_text fs' tr wsend cx rest))%nat).
    { induction fs' as [|f r IHf]; intros tr; cbn [fields_text length]; [lia|].
      rewrite app_length. destruct f as [[[wsn nm] wse] pts]. cbn [render_sfield]. rewrite !app_length. cbn [length].
      destruct r as [|f2 r']; [cbn [length]; destruct tr; cbn [length]; lia|]. specialize (IHf tr). cbn [length] in *. lia. }
    specialize (Hl fs trailing). lia. }
  { subst s3v. cbn. exact Hwf. }
  { exact Hend. }
  { exact Hcx. }
  { exact Hr5. }
  rewrite E6. cbn [obind].
  destruct Hcx as ((Hc1 & _ & _) & _ & _).
  destruct (required_none_after_ws [P_LIT (if brace then c_rbrace else 41)] st6 [] cx rest eq_refl Hc1 Hr6) as (sc7 & E7 & Hr7).
  { destruct brace; cbn [first_match match_pat cl_char] in *; apply N.eqb_neq in Hne; rewrite Hne; reflexivity. }
  rewrite E7. cbn [handle_error obind]. eexists. eexists. split; [|split; [|split; [|split]]].
  - unfold make_result. cbn [p_key p_fields set_sc add_err]. rewrite Hky, Hfs. subst s3v. cbn. reflexivity.
  - cbn. exact Hr7.
  - cbn [p_errs add_err set_sc]. rewrite Her. subst s3v. cbn. reflexivity.
  - reflexivity.
  - cbn [p_macros add_err set_sc]. rewrite Hma. subst s3v. cbn. reflexivity.
Qed.

Lemma file_text2_lower its b : (length its + length b <= length (file_text2 its b))%nat.
Proof.
  induction its as [|[j0 i0] r0 IHi]; cbn [file_text2 length]; [lia|]. rewrite app_length. cbn [length].
  assert (Hit : forall rest, (length rest <= length (item_text i0 rest))%nat).
  { intros rest. destruct i0; cbn [item_text]; unfold entry_text_gen, after_key; repeat (rewrite ?app_length; cbn [length]); try lia.
    destruct comma; cbn [length]; [|lia].
    assert (Hft : forall fs tr wse cl rs, (length rs <= length (fields_text fs tr wse cl rs))%nat).
    { induction fs0 as [|f fr IHf]; intros; cbn [fields_text]; rewrite app_length; cbn [length]; [lia|].
      destruct fr; [destruct tr; cbn [length]; rewrite ?app_length; cbn [length]; lia|]. specialize (IHf tr wse cl rs). cbn [length]. lia. }
    specialize (Hft fs trailing wsend (cl_char brace) rest). lia. }
  specialize (Hit (file_text2 r0 b)). lia.
Qed.

Lemma damaged_close_untouched items junk brace cx ws0 typ ws1 ws2 key wsk fs trailing wsend r v e v1 e1 :
  wf_file month_macros items -> no_at junk -> no_at r -> (cx =? c_at) = false ->
  forallb is_space ws0 = true -> forallb is_space ws1 = true -> forallb is_space ws2 = true ->
  forallb is_space wsk = true -> forallb is_space wsend = true ->
  is_entry_type typ = true -> is_key brace key = true -> Forall (wf_sfield (final_macros month_macros items)) fs ->
  closer_char cx -> cx <> cl_char brace ->
  denote_items2 month_macros items ([], []) = Some (v, e) ->
  denote_cmd2 (CEntry typ (Some key) (map (field_result (final_macros month_macros items)) fs)) v = Some (v1, e1) ->
  exists d s te, parse_bib Capture (file_text2 items (junk ++ c_at :: entry_text_x brace cx ws0 typ ws1 ws2 key wsk fs trailing wsend r)) = Ret d s
    /\ untouched s /\ view d = v1 /\ p_macros s = final_macros month_macros items
    /\ p_errs s = map data_err e ++ [te] ++ map data_err e1 /\ e_cls te = E_TOKEN.
Proof.
  intros Hwf Hj Hr HX3 H0 H1 H2 Hk Hend Htyp Hkey Hfs Hcx Hne Hd Hd1. unfold parse_bib.
  set (b := junk ++ c_at :: entry_text_x brace cx ws0 typ ws1 ws2 key wsk fs trailing wsend r).
  set (text := file_text2 items b).
  pose proof (file_text2_lower items b) as Hlen. fold text in Hlen.
  assert (Hb2 : (3 <= length b)%nat).
  { unfold b, entry_text_x. repeat (rewrite ?app_length; cbn [length]). lia. }
  replace (S (length text)) with (length items + (S (length text) - length items))%nat by lia.
  destruct (file_prefix3 items (S (length text) - length items) db_init (pst_init text month_macros) b v e Hwf eq_refl Hd)
    as (d1 & st1 & E1 & V1 & R1 & Er1 & M1).
  rewrite E1.
  destruct (S (length text) - length items)%nat as [|[|fu]] eqn:Ef; [lia|lia|].
  cbn [bib_loop]. unfold skip_to at 1. rewrite R1. unfold b. rewrite (find_first_app _ junk c_at _ Hj eq_refl).
  match goal with |- context [parse_command Capture ?s1x] => set (s1 := s1x) end.
  destruct (entry_reads_x s1 brace cx ws0 typ ws1 ws2 key wsk fs trailing wsend r H0 H1 H2 Hk Hend Htyp Hkey) as (st2 & te & Ep & Hr2 & Her2 & Hte & Hma2).
  { unfold s1. cbn [p_macros set_cstart set_sc]. rewrite M1. exact Hfs. }
  { exact Hcx. } { exact Hne. } { reflexivity. }
  rewrite Ep.
  assert (Hm1 : p_macros s1 = final_macros month_macros items) by (unfold s1; cbn; exact M1).
  rewrite Hm1 in *.
  destruct (process_denotes2 _ d1 st2 v1 e1 ltac:(rewrite V1; exact Hd1)) as (d2 & Epr & Hv2).
  rewrite Epr. cbn [obind bib_loop].
  destruct (add_errs_core st2 (map data_err e1)) as [Hc1 Hc2].
  unfold skip_to. rewrite Hc1, Hr2.
  rewrite (find_first_all_false _ (cx :: r)).
  2:{ intros x [<-|Hx]; [exact HX3|exact (Hr x Hx)]. }
  exists d2, (add_errs st2 (map data_err e1)), te. split; [reflexivity|].
  assert (Herr : p_errs (add_errs st2 (map data_err e1)) = map data_err e ++ [te] ++ map data_err e1).
  { rewrite add_errs_errs, Her2. unfold s1. cbn [p_errs set_cstart set_sc]. rewrite Er1. cbn. rewrite <- !app_assoc. reflexivity. }
  split; [|split; [exact Hv2|split; [rewrite Hc2; exact Hma2|split; [exact Herr|exact Hte]]]].
  split; [rewrite Hc1, Hr2; discriminate|].
  intros x Hx. rewrite Herr in Hx. apply in_app_or in Hx as [Hx|Hx].
  - pose proof (data_errs_no_eof e x Hx) as Hc. exact (denote_errs_data _ _ _ _ _ Hd _ Hc).
  - apply in_app_or in Hx as [[<-|[]]|Hx]; [rewrite Hte; discriminate|].
    pose proof (data_errs_no_eof e1 x Hx) as Hc.
    assert (Hi : denote_items2 (final_macros month_macros items) [([], IEntry brace ws0 typ ws1 ws2 key wsk true fs trailing wsend)] v = Some (v1, e1 ++ [])).
    { cbn [denote_items2 item_cmd]. rewrite Hd1. reflexivity. }
    apply (denote_errs_data _ _ _ _ _ Hi). apply in_or_app. left. exact Hc.
Qed.

Lemma suffix_confinement_damaged_close_lemma items junk brace cx ws0 typ ws1 ws2 key wsk fs trailing wsend r v e v1 e1 items2 tail2 v2 e2 :
  wf_file month_macros items -> no_at junk -> no_at r -> (cx =? c_at) = false ->
  forallb is_space ws0 = true -> forallb is_space ws1 = true -> forallb is_space ws2 = true ->
  forallb is_space wsk = true -> forallb is_space wsend = true ->
  is_entry_type typ = true -> is_key brace key = true -> Forall (wf_sfield (final_macros month_macros items)) fs ->
  closer_char cx -> cx <> cl_char brace ->
  denote_items2 month_macros items ([], []) = Some (v, e) ->
  denote_cmd2 (CEntry typ (Some key) (map (field_result (final_macros month_macros items)) fs)) v = Some (v1, e1) ->
  wf_file (final_macros month_macros items) items2 -> no_at tail2 ->
  denote_items2 (final_macros month_macros items) items2 v1 = Some (v2, e2) ->
  exists d' s' te,
    parse_bib Capture (file_text2 items (junk ++ c_at :: entry_text_x brace cx ws0 typ ws1 ws2 key wsk fs trailing wsend r)
                       ++ file_text2 items2 tail2) = Ret d' s'
    /\ view d' = v2 /\ p_errs s' = map data_err e ++ [te] ++ map data_err e1 ++ map data_err e2 /\ e_cls te = E_TOKEN.
Proof.
  intros Hwf Hj Hr HX3 H0 H1 H2 Hk Hend Htyp Hkey Hfs Hcx Hne Hd Hd1 Hwf2 Ht2 Hd2.
  destruct (damaged_close_untouched items junk brace cx ws0 typ ws1 ws2 key wsk fs trailing wsend r v e v1 e1
              Hwf Hj Hr HX3 H0 H1 H2 Hk Hend Htyp Hkey Hfs Hcx Hne Hd Hd1) as (d & s & te & E & Hu & V & M & Er & Hc).
  destruct (suffix_confinement_lemma _ d s items2 tail2 v2 e2 E Hu) as (d' & s' & E' & V' & Er').
  - rewrite M. exact Hwf2.
  - exact Ht2.
  - rewrite M, V. exact Hd2.
  - exists d', s', te. split; [exact E'|]. split; [exact V'|]. split; [|exact Hc]. rewrite Er', Er, <- !app_assoc. reflexivity.
Qed.

Lemma denote_cmd_errs_data c v v1 e1 : denote_cmd2 c v = Some (v1, e1) -> forall x, In x e1 -> x <> E_EOF.
Proof.
  intros H x Hx. destruct c as [n f vv|n vv|typ [key|] fields]; cbn [denote_cmd2] in H; try discriminate; try (injection H as <- <-; contradiction).
  assert (Hi : denote_items2 [] [([], IEntry true [] typ [] [] key [] true [] false [])] v = Some (v, [] ++ [])
               \/ True) by (right; exact I).
  destruct (denote_fields fields [] [] []) as [[[fs ps] ef]|] eqn:Ef; [|discriminate].
  assert (Hf : forall c, In c ef -> c <> E_EOF).
  { clear -Ef. revert Ef. generalize (@nil str). generalize (@nil (str * str)) at 1. generalize (@nil (str * list person)) at 1. revert fs ps ef.
    induction fields as [|[fn pa] rest IHf]; intros fs ps ef ps0 fs0 seen Ef c Hc; cbn [denote_fields] in Ef.
    - injection Ef as <- <- <-. contradiction.
    - destruct (existsb (str_eqb (lower fn)) seen).
      + destruct (denote_fields rest seen fs0 ps0) as [[[f2 p2] e2]|] eqn:E; [|discriminate]. injection Ef as <- <- <-.
        destruct Hc as [<-|Hc]; [discriminate|exact (IHf _ _ _ _ _ _ E c Hc)].
      + destruct (is_person_field (lower fn)); [|exact (IHf _ _ _ _ _ _ Ef c Hc)].
        destruct (split_name_list _) as [names|? ?| |]; try discriminate.
        destruct (denote_persons names []) as [[pl e1']|] eqn:Ep; [|discriminate].
        destruct (denote_fields rest _ fs0 _) as [[[f2 p2] e2]|] eqn:E; [|discriminate]. injection Ef as <- <- <-.
        apply in_app_or in Hc as [Hc|Hc]; [|exact (IHf _ _ _ _ _ _ E c Hc)].
        clear -Ep Hc. revert Ep Hc. generalize (@nil person). revert pl e1'.
        induction names as [|nm nr IHn]; intros pl e1' acc Ep Hc; cbn [denote_persons] in Ep.
        * injection Ep as <- <-. contradiction.
        * destruct (person_of_string nm) as [[pp rep]|? ?| |]; try discriminate.
          destruct (denote_persons nr (acc ++ [pp])) as [[pl' e']|] eqn:E; [|discriminate]. injection Ep as <- <-.
          apply in_app_or in Hc as [Hc|Hc]; [destruct rep; [destruct Hc as [<-|[]]; discriminate|contradiction]|exact (IHn _ _ _ E Hc)]. }
  destruct (existsb _ (fst v)); injection H as <- <-.
  - apply in_app_or in Hx as [Hx|[<-|[]]]; [exact (Hf x Hx)|discriminate].
  - exact (Hf x Hx).
Qed.

(* generic: a damaged command B after a well-formed file, on which parse_command returns a
   (partial) entry after reporting one 'token required' problem, standing at cx :: r *)
Lemma class_ret_untouched items junk (B : str) cx r typ key (fields : list (str * list str)) v e v1 e1 :
  wf_file month_macros items -> no_at junk -> no_at r -> (cx =? c_at) = false -> (2 <= length B)%nat ->
  (forall s1, sc_rest (p_sc s1) = B -> p_macros s1 = final_macros month_macros items ->
     exists st2 te, parse_command Capture s1 = Ret (Some (CEntry typ (Some key) fields)) st2 /\ sc_rest (p_sc st2) = cx :: r
                    /\ p_errs st2 = p_errs s1 ++ [te] /\ e_cls te = E_TOKEN /\ p_macros st2 = p_macros s1) ->
  denote_items2 month_macros items ([], []) = Some (v, e) ->
  denote_cmd2 (CEntry typ (Some key) fields) v = Some (v1, e1) ->
  exists d s te, parse_bib Capture (file_text2 items (junk ++ c_at :: B)) = Ret d s
    /\ untouched s /\ view d = v1 /\ p_macros s = final_macros month_macros items
    /\ p_errs s = map data_err e ++ [te] ++ map data_err e1 /\ e_cls te = E_TOKEN.
Proof.
  intros Hwf Hj Hr HX3 HB Hcmd Hd Hd1. unfold parse_bib.
  set (b := junk ++ c_at :: B).
  set (text := file_text2 items b).
  pose proof (file_text2_lower items b) as Hlen. fold text in Hlen.
  assert (Hb2 : (3 <= length b)%nat).
  { unfold b. rewrite app_length. cbn [length]. lia. }
  replace (S (length text)) with (length items + (S (length text) - length items))%nat by lia.
  destruct (file_prefix3 items (S (length text) - length items) db_init (pst_init text month_macros) b v e Hwf eq_refl Hd)
    as (d1 & st1 & E1 & V1 & R1 & Er1 & M1).
  rewrite E1.
  destruct (S (length text) - length items)%nat as [|[|fu]] eqn:Ef; [lia|lia|].
  cbn [bib_loop]. unfold skip_to at 1. rewrite R1. unfold b. rewrite (find_first_app _ junk c_at _ Hj eq_refl).
  match goal with |- context [parse_command Capture ?s1x] => set (s1 := s1x) end.
  assert (Hm1 : p_macros s1 = final_macros month_macros items) by (unfold s1; cbn; exact M1).
  destruct (Hcmd s1 eq_refl Hm1) as (st2 & te & Ep & Hr2 & Her2 & Hte & Hma2).
  rewrite Ep. rewrite Hm1 in *.
  destruct (process_denotes2 _ d1 st2 v1 e1 ltac:(rewrite V1; exact Hd1)) as (d2 & Epr & Hv2).
  rewrite Epr. cbn [obind bib_loop].
  destruct (add_errs_core st2 (map data_err e1)) as [Hc1 Hc2].
  unfold skip_to. rewrite Hc1, Hr2.
  rewrite (find_first_all_false _ (cx :: r)).
  2:{ intros x [<-|Hx]; [exact HX3|exact (Hr x Hx)]. }
  exists d2, (add_errs st2 (map data_err e1)), te. split; [reflexivity|].
  assert (Herr : p_errs (add_errs st2 (map data_err e1)) = map data_err e ++ [te] ++ map data_err e1).
  { rewrite add_errs_errs, Her2. unfold s1. cbn [p_errs set_cstart set_sc]. rewrite Er1. cbn. rewrite <- !app_assoc. reflexivity. }
  split; [|split; [exact Hv2|split; [rewrite Hc2; exact Hma2|split; [exact Herr|exact Hte]]]].
  split; [rewrite Hc1, Hr2; discriminate|].
  intros x Hx. rewrite Herr in Hx. apply in_app_or in Hx as [Hx|Hx].
  - pose proof (data_errs_no_eof e x Hx) as Hc. exact (denote_errs_data _ _ _ _ _ Hd _ Hc).
  - apply in_app_or in Hx as [[<-|[]]|Hx]; [rewrite Hte; discriminate|].
    pose proof (data_errs_no_eof e1 x Hx) as Hc.
    exact (denote_cmd_errs_data _ _ _ _ Hd1 _ Hc).
Qed.

(* ---- (4) a broken field: a field name not followed by '=', or '=' not followed by a value *)
Inductive broken := BNoEq (wsn name wse : str) (X : char) | BNoVal (wsn name wse wsv : str) (X : char).
Definition broken_text (b : broken) (r : str) : str :=
  match b with
  | BNoEq wsn name wse X => wsn ++ name ++ wse ++ X :: r
  | BNoVal wsn name wse wsv X => wsn ++ name ++ wse ++ 61 :: wsv ++ X :: r
  end.
Definition broken_char (b : broken) : char := match b with BNoEq _ _ _ X => X | BNoVal _ _ _ _ X => X end.
Definition wf_broken (b : broken) : Prop :=
  match b with
  | BNoEq wsn name wse X =>
    forallb is_space wsn = true /\ forallb is_space wse = true /\ is_name name = true /\
    is_space X = false /\ X <> 61 /\ is_name_char X = false
  | BNoVal wsn name wse wsv X =>
    forallb is_space wsn = true /\ forallb is_space wse = true /\ forallb is_space wsv = true /\ is_name name = true /\
    is_space X = false /\ X <> c_quote /\ X <> c_lbrace /\ is_name_char X = false
  end.

Lemma parse_field_broken m st b r : wf_broken b -> sc_rest (p_sc st) = broken_text b r ->
  exists st' te, parse_field m st = Exc te st' /\ sc_rest (p_sc st') = broken_char b :: r /\ e_cls te = E_TOKEN /\
    p_errs st' = p_errs st /\ p_fields st' = p_fields st /\ p_key st' = p_key st /\ p_macros st' = p_macros st /\ p_cstart st' = p_cstart st.
Proof.
  intros Hwf Hr. unfold parse_field. destruct b as [wsn name wse X|wsn name wse wsv X]; cbn [broken_text broken_char wf_broken] in *.
  - destruct Hwf as (Hwsn & Hwse & Hname & HX1 & HX2 & HX3).
    destruct (name_head name Hname) as (c0 & t0 & Hn0 & Hs0 & Hc0).
    assert (Hf : first_match [P_NAME] (name ++ wse ++ X :: r) = Some (P_NAME, name, wse ++ X :: r)).
    { cbn [first_match]. rewrite (match_name name _ Hname (head_ok_ws_then wse X r Hwse HX3)). reflexivity. }
    rewrite Hn0 in Hr, Hf. cbn [app] in Hr, Hf.
    destruct (optional_after_ws [P_NAME] st wsn c0 _ _ _ _ Hwsn (name_char_not_space c0 Hc0) Hr Hf) as (sc1 & H1 & Hr1).
    rewrite H1. cbn [obind]. cbv zeta. cbn [snd].
    match goal with |- context [required [P_LIT 61] ?s2 >>= _] =>
      destruct (required_none_after_ws [P_LIT 61] s2 wse X r Hwse HX1 Hr1) as (sc2 & E2 & Hr2) end.
    { cbn [first_match match_pat]. apply N.eqb_neq in HX2. rewrite HX2. reflexivity. }
    rewrite E2. cbn [obind]. eexists. eexists. split; [reflexivity|]. cbn. repeat split; auto.
  - destruct Hwf as (Hwsn & Hwse & Hwsv & Hname & HX1 & HX2 & HX3 & HX4).
    destruct (name_head name Hname) as (c0 & t0 & Hn0 & Hs0 & Hc0).
    assert (Hf : first_match [P_NAME] (name ++ wse ++ 61 :: wsv ++ X :: r) = Some (P_NAME, name, wse ++ 61 :: wsv ++ X :: r)).
    { cbn [first_match]. rewrite (match_name name _ Hname (head_ok_ws_then wse 61 _ Hwse eq_refl)). reflexivity. }
    rewrite Hn0 in Hr, Hf. cbn [app] in Hr, Hf.
    destruct (optional_after_ws [P_NAME] st wsn c0 _ _ _ _ Hwsn (name_char_not_space c0 Hc0) Hr Hf) as (sc1 & H1 & Hr1).
    rewrite H1. cbn [obind]. cbv zeta. cbn [snd].
    match goal with |- context [required [P_LIT 61] ?s2 >>= _] =>
      destruct (required_after_ws [P_LIT 61] s2 wse 61 _ (P_LIT 61) [61] (wsv ++ X :: r) Hwse eq_refl Hr1 eq_refl) as (sc2 & E2 & Hr2) end.
    rewrite E2. cbn [obind]. unfold parse_value.
    match goal with |- context [parse_value_loop (S ?n) m [] ?s3] => remember s3 as s3v eqn:Es3; remember n as fu0 end.
    cbn [parse_value_loop]. unfold parse_value_part.
    assert (Hr3 : sc_rest (p_sc s3v) = wsv ++ X :: r) by (subst s3v; exact Hr2).
    destruct (required_none_after_ws [P_LIT c_quote; P_LIT c_lbrace; P_NUMBER; P_NAME] s3v wsv X r Hwsv HX1 Hr3) as (sc3 & E3 & Hr3').
    { cbn [first_match match_pat]. apply N.eqb_neq in HX2, HX3. rewrite HX2, HX3.
      unfold nonempty_span. cbn [span]. rewrite (not_name_char_not_digit X HX4), (name_start_char_false X HX4). reflexivity. }
    rewrite E3. cbn [obind]. eexists. eexists. split; [reflexivity|]. subst s3v. cbn. repeat split; auto.
Qed.

Fixpoint fields_pre (fs : list sfield) (tl : str) : str :=
  match fs with [] => tl | f :: r => render_sfield f ++ c_comma :: fields_pre r tl end.

Lemma fields_loop_broken m : forall fs fuel st b r,
  (length fs < fuel)%nat -> Forall (wf_sfield (p_macros st)) fs -> wf_broken b ->
  sc_rest (p_sc st) = fields_pre fs (broken_text b r) ->
  exists st' te, parse_entry_fields fuel m st = Exc te st' /\ sc_rest (p_sc st') = broken_char b :: r /\ e_cls te = E_TOKEN /\
    p_fields st' = p_fields st ++ map (field_result (p_macros st)) fs /\
    p_key st' = p_key st /\ p_errs st' = p_errs st /\ p_macros st' = p_macros st /\ p_cstart st' = p_cstart st.
Proof.
  induction fs as [|f r0 IH]; intros fuel st b r Hf Hwf Hb Hr; (destruct fuel as [|fu]; [cbn in Hf; lia|]); cbn [parse_entry_fields].
  - cbn [fields_pre] in Hr.
    match goal with |- context [parse_field m ?s0] =>
      destruct (parse_field_broken m s0 b r Hb Hr) as (st' & te & E & Hr' & Hte & He & Hfs & Hk & Hm & Hc) end.
    rewrite E. cbn [obind]. exists st', te. cbn in *. rewrite app_nil_r. repeat split; auto.
  - inversion Hwf as [|? ? Hwf1 Hwfr]; subst. cbn [fields_pre] in Hr.
    match goal with |- context [parse_field m ?s0] =>
      destruct (parse_field_reads m s0 f c_comma (fields_pre r0 (broken_text b r)) Hwf1 comma_stop Hr) as (sc1 & H1 & Hr1) end.
    rewrite H1. cbn [obind p_fname p_value p_fields p_macros set_value set_fname].
    destruct f as [[[wsn name] wse] parts]. destruct Hwf1 as (_ & _ & _ & Hne & _).
    destruct parts as [|p0 ps]; [congruence|]. cbn [field_result fst snd map].
    match goal with |- context [optional [P_LIT c_comma] ?s2] =>
      destruct (optional_after_ws [P_LIT c_comma] s2 [] c_comma _ (P_LIT c_comma) [c_comma] _ eq_refl eq_refl Hr1 eq_refl) as (sc2 & H2 & Hr2);
      rewrite H2; cbn [obind];
      destruct (IH fu (set_sc s2 sc2) b r ltac:(cbn [length] in *; lia) Hwfr Hb Hr2)
        as (st' & te & H3 & Hr3 & Hte & Hfs & Hk & He & Hm & Hcs)
    end.
    rewrite H3. exists st', te. split; [reflexivity|]. split; [exact Hr3|]. split; [exact Hte|]. cbn in Hfs, Hk, He, Hm, Hcs |- *.
    rewrite Hfs, <- app_assoc. repeat split; auto.
Qed.

Lemma entry_reads_broken st brace ws0 typ ws1 ws2 key wsk fs (bk : broken) rest :
  forallb is_space ws0 = true -> forallb is_space ws1 = true -> forallb is_space ws2 = true ->
  forallb is_space wsk = true ->
  is_entry_type typ = true -> is_key brace key = true -> Forall (wf_sfield (p_macros st)) fs ->
  wf_broken bk ->
  sc_rest (p_sc st) = ws0 ++ typ ++ ws1 ++ op_char brace :: ws2 ++ key ++ wsk ++ c_comma :: fields_pre fs (broken_text bk rest) ->
  exists st' te, parse_command Capture st = Ret (Some (CEntry typ (Some key) (map (field_result (p_macros st)) fs))) st'
    /\ sc_rest (p_sc st') = broken_char bk :: rest /\ p_errs st' = p_errs st ++ [te] /\ e_cls te = E_TOKEN /\ p_macros st' = p_macros st.
Proof.
  intros H0 H1 H2 Hk Htyp Hkey Hwf Hbk Hr.
  set (AK := c_comma :: fields_pre fs (broken_text bk rest)) in *.
  unfold is_entry_type in Htyp. apply andb_prop in Htyp as [Htyp Hp]. apply andb_prop in Htyp as [Htyp Hs].
  apply andb_prop in Htyp as [Hname Hc]. apply negb_true_iff in Hp, Hs, Hc.
  destruct (name_head typ Hname) as (t0 & t' & Ht0 & Hts & Htc).
  unfold parse_command.
  (* type *)
  assert (Hf1 : first_match [P_NAME] (typ ++ ws1 ++ op_char brace :: ws2 ++ key ++ wsk ++ AK)
                = Some (P_NAME, typ, ws1 ++ op_char brace :: ws2 ++ key ++ wsk ++ AK)).
  { cbn [first_match]. rewrite (match_name typ _ Hname (head_ok_ws_then ws1 (op_char brace) _ H1 ltac:(destruct brace; reflexivity))). reflexivity. }
  rewrite Ht0 in Hr, Hf1. cbn [app] in Hr, Hf1.
  match goal with |- context [required [P_NAME] ?s0] =>
    destruct (required_after_ws [P_NAME] s0 ws0 t0 _ _ _ _ H0 (name_char_not_space t0 Htc) Hr Hf1) as (sc1 & E1 & Hr1) end.
  rewrite E1. cbn [obind]. cbv zeta. cbn [snd fst].
  (* opening delimiter *)
  assert (Hf2 : first_match [P_LIT 40; P_LIT c_lbrace] (op_char brace :: ws2 ++ key ++ wsk ++ AK)
                = Some (P_LIT (op_char brace), [op_char brace], ws2 ++ key ++ wsk ++ AK))
    by (destruct brace; reflexivity).
  match goal with |- context [required [P_LIT 40; P_LIT c_lbrace] ?s1] =>
    destruct (required_after_ws _ s1 ws1 (op_char brace) _ _ _ _ H1 ltac:(destruct brace; reflexivity) Hr1 Hf2) as (sc2 & E2 & Hr2) end.
  rewrite E2. cbn [obind fst snd]. rewrite <- Ht0. rewrite Hc, Hs, Hp.
  assert (Hb : (op_char brace =? c_lbrace) = brace) by (destruct brace; reflexivity). rewrite Hb.
  (* key *)
  unfold parse_entry_body.
  destruct key as [|k0 k']; [discriminate|].
  assert (Hk0 : is_space k0 = false).
  { cbn [is_key forallb] in Hkey. apply andb_prop in Hkey as [Hx _]. unfold keyp in Hx.
    destruct brace; apply negb_true_iff in Hx.
    - apply orb_false_iff in Hx as [Hx _]. apply orb_false_iff in Hx as [Hx _]. exact Hx.
    - apply orb_false_iff in Hx as [Hx _]. exact Hx. }
  assert (Hhead : head_ok (keyp brace) (wsk ++ AK)).
  { destruct wsk as [|w wsk']; cbn; [destruct brace; reflexivity|].
    cbn in Hk. apply andb_prop in Hk as [Hw _]. destruct brace; cbn; rewrite Hw; reflexivity. }
  assert (Hf3 : first_match [if brace then P_KEY_BRACE else P_KEY_PAREN] ((k0 :: k') ++ wsk ++ AK)
                = Some (if brace then P_KEY_BRACE else P_KEY_PAREN, k0 :: k', wsk ++ AK)).
  { cbn [first_match]. rewrite (match_key brace (k0 :: k') _ Hkey Hhead). reflexivity. }
  cbn [app] in Hf3, Hr2.
  match goal with |- context [required [if brace then P_KEY_BRACE else P_KEY_PAREN] ?s2] =>
    destruct (required_after_ws _ s2 ws2 k0 _ _ _ _ H2 Hk0 Hr2 Hf3) as (sc3 & E3 & Hr3) end.
  rewrite E3. cbn [obind snd].
  match goal with |- context [parse_entry_fields (S ?n) Capture ?s3] => remember s3 as s3v eqn:Es3; remember n as fuel0 eqn:Efu end.
  assert (Hr3' : sc_rest (p_sc s3v) = wsk ++ c_comma :: fields_pre fs (broken_text bk rest)) by (subst s3v; exact Hr3).
  cbn [parse_entry_fields]. unfold parse_field.
  match goal with |- context [optional [P_NAME] ?s] =>
    destruct (optional_none_after_ws [P_NAME] s wsk c_comma _ Hk eq_refl Hr3' eq_refl) as (sc4 & E4 & Hr4) end.
  rewrite E4. cbn [obind p_fname set_sc set_value set_fname].
  match goal with |- context [optional [P_LIT c_comma] ?s] =>
    destruct (optional_after_ws [P_LIT c_comma] s [] c_comma _ (P_LIT c_comma) [c_comma] _ eq_refl eq_refl Hr4 eq_refl) as (sc5 & E5 & Hr5);
    rewrite E5; cbn [obind];
    destruct (fields_loop_broken Capture fs fuel0 (set_sc s sc5) bk rest) as (st6 & te & E6 & Hr6 & Hte & Hfs & Hky & Her & Hma & Hcs)
  end.
  { subst fuel0. cbn [p_sc set_key set_sc]. rewrite Hr3. unfold AK. rewrite !app_length. cbn [length].
    assert (Hl : forall fs' tl, (length fs' <= length (fields_pre fs' tl))%nat).
    { induction fs' as [|f r IHf]; intros tl; cbn [fields_pre length]; [lia|].
      rewrite app_length. cbn [length]. specialize (IHf tl). lia. }
    specialize (Hl fs (broken_text bk rest)). lia. }
  { subst s3v. cbn. exact Hwf. }
  { exact Hbk. }
  { exact Hr5. }
  rewrite E6. cbn [obind handle_error]. eexists. exists te. split; [|split; [|split; [|split]]].
  - unfold make_result. cbn [p_key p_fields set_sc add_err]. rewrite Hky, Hfs. subst s3v. cbn. reflexivity.
  - cbn. exact Hr6.
  - cbn [p_errs add_err set_sc]. rewrite Her. subst s3v. cbn. reflexivity.
  - exact Hte.
  - cbn [p_macros add_err set_sc]. rewrite Hma. subst s3v. cbn. reflexivity.
Qed.

Lemma broken_text_len b r : (1 <= length (broken_text b r))%nat.
Proof.
  destruct b as [wsn name wse X|wsn name wse wsv X]; cbn [broken_text]; repeat (rewrite ?app_length; cbn [length]); lia.
Qed.

Lemma suffix_confinement_broken_field_lemma items junk brace ws0 typ ws1 ws2 key wsk fs bk r v e v1 e1 items2 tail2 v2 e2 :
  wf_file month_macros items -> no_at junk -> no_at r -> (broken_char bk =? c_at) = false ->
  forallb is_space ws0 = true -> forallb is_space ws1 = true -> forallb is_space ws2 = true -> forallb is_space wsk = true ->
  is_entry_type typ = true -> is_key brace key = true -> Forall (wf_sfield (final_macros month_macros items)) fs ->
  wf_broken bk ->
  denote_items2 month_macros items ([], []) = Some (v, e) ->
  denote_cmd2 (CEntry typ (Some key) (map (field_result (final_macros month_macros items)) fs)) v = Some (v1, e1) ->
  wf_file (final_macros month_macros items) items2 -> no_at tail2 ->
  denote_items2 (final_macros month_macros items) items2 v1 = Some (v2, e2) ->
  exists d' s' te,
    parse_bib Capture (file_text2 items (junk ++ c_at :: ws0 ++ typ ++ ws1 ++ op_char brace :: ws2 ++ key ++ wsk ++ c_comma :: fields_pre fs (broken_text bk r))
                       ++ file_text2 items2 tail2) = Ret d' s'
    /\ view d' = v2 /\ p_errs s' = map data_err e ++ [te] ++ map data_err e1 ++ map data_err e2 /\ e_cls te = E_TOKEN.
Proof.
  intros Hwf Hj Hr HX3 H0 H1 H2 Hk Htyp Hkey Hfs Hbk Hd Hd1 Hwf2 Ht2 Hd2.
  destruct (class_ret_untouched items junk
              (ws0 ++ typ ++ ws1 ++ op_char brace :: ws2 ++ key ++ wsk ++ c_comma :: fields_pre fs (broken_text bk r))
              (broken_char bk) r typ key (map (field_result (final_macros month_macros items)) fs) v e v1 e1 Hwf Hj Hr HX3)
    as (d & s & te & E & Hu & V & M & Er & Hc).
  - pose proof (broken_text_len bk r). assert (Hl : forall fs' tl, (length tl <= length (fields_pre fs' tl))%nat).
    { induction fs' as [|f r0 IHf]; intros tl; cbn [fields_pre]; [lia|]. rewrite app_length. cbn [length]. specialize (IHf tl). lia. }
    specialize (Hl fs (broken_text bk r)). repeat (rewrite ?app_length; cbn [length]). lia.
  - intros s1 Hs1 Hm1.
    destruct (entry_reads_broken s1 brace ws0 typ ws1 ws2 key wsk fs bk r H0 H1 H2 Hk Htyp Hkey) as (st2 & te & Ep & Hr2 & Her2 & Hte & Hma2).
    + rewrite Hm1. exact Hfs.
    + exact Hbk.
    + exact Hs1.
    + exists st2, te. rewrite Hm1 in Ep. auto.
  - exact Hd.
  - exact Hd1.
  - destruct (suffix_confinement_lemma _ d s items2 tail2 v2 e2 E Hu) as (d' & s' & E' & V' & Er').
    + rewrite M. exact Hwf2.
    + exact Ht2.
    + rewrite M, V. exact Hd2.
    + exists d', s', te. split; [exact E'|]. split; [exact V'|]. split; [|exact Hc]. rewrite Er', Er, <- !app_assoc. reflexivity.
Qed.

(* generic: a damaged command B on which parse_command raises 'token required' (before its
   body), standing at X :: r *)
Lemma class_exc_untouched items junk (B : str) X r v e :
  wf_file month_macros items -> no_at junk -> no_at r -> (X =? c_at) = false -> (2 <= length B)%nat ->
  (forall s1, sc_rest (p_sc s1) = B ->
     exists st2 te, parse_command Capture s1 = Exc te st2 /\ sc_rest (p_sc st2) = X :: r /\ e_cls te = E_TOKEN
                    /\ p_errs st2 = p_errs s1 /\ p_macros st2 = p_macros s1) ->
  denote_items2 month_macros items ([], []) = Some (v, e) ->
  exists d s, parse_bib Capture (file_text2 items (junk ++ c_at :: B)) = Ret d s /\ untouched s /\ view d = v
              /\ p_macros s = final_macros month_macros items
              /\ exists te, p_errs s = map data_err e ++ [te] /\ e_cls te = E_TOKEN.
Proof.
  intros Hwf Hj Hr HX3 HB Hcmd Hd. unfold parse_bib.
  set (text := file_text2 items (junk ++ c_at :: B)).
  pose proof (file_text2_lower items (junk ++ c_at :: B)) as Hlen. fold text in Hlen.
  assert (Hl2 : (length items + 3 <= S (length text))%nat) by (rewrite app_length in Hlen; cbn [length] in Hlen; lia).
  replace (S (length text)) with (length items + (S (length text) - length items))%nat by lia.
  destruct (file_prefix3 items (S (length text) - length items) db_init (pst_init text month_macros) _ v e Hwf eq_refl Hd)
    as (d1 & st1 & E1 & V1 & R1 & Er1 & M1).
  rewrite E1.
  destruct (S (length text) - length items)%nat as [|[|fu]] eqn:Ef; [lia|lia|].
  cbn [bib_loop]. unfold skip_to at 1. rewrite R1, (find_first_app _ junk c_at _ Hj eq_refl).
  match goal with |- context [parse_command Capture ?s1x] => set (s1 := s1x) end.
  destruct (Hcmd s1 eq_refl) as (st2 & te & Ep & Hsc & Hte & Her2 & Hma2).
  rewrite Ep. cbn [handle_error obind bib_loop].
  unfold skip_to. cbn [add_err p_sc]. rewrite Hsc.
  rewrite (find_first_all_false _ (X :: r)).
  2:{ intros x [<-|Hx]; [exact HX3|exact (Hr x Hx)]. }
  eexists. eexists. split; [reflexivity|]. split; [|split; [exact V1|split; [cbn [p_macros add_err]; rewrite Hma2; unfold s1; cbn; exact M1|]]].
  - split; [cbn; rewrite Hsc; discriminate|]. cbn [p_errs add_err].
    intros x Hx. apply in_app_or in Hx as [Hx|[<-|[]]]; [|rewrite Hte; discriminate].
    rewrite Her2 in Hx. unfold s1 in Hx. cbn [p_errs set_cstart set_sc] in Hx. rewrite Er1 in Hx. cbn in Hx.
    pose proof (data_errs_no_eof e x Hx) as Hc. exact (denote_errs_data _ _ _ _ _ Hd _ Hc).
  - exists te. split; [cbn [p_errs add_err]; rewrite Her2; unfold s1; cbn; rewrite Er1; reflexivity|exact Hte].
Qed.

(* ---- (5) the opening delimiter is missing / replaced: '@' ws type ws X ... *)
Lemma head_ok_ws_or ws1 X r : forallb is_space ws1 = true -> (ws1 <> [] \/ is_name_char X = false) -> head_ok is_name_char (ws1 ++ X :: r).
Proof.
  intros Hws [Hne|Hx]; [|apply head_ok_ws_then; assumption].
  destruct ws1 as [|w ws']; [congruence|]. cbn in Hws |- *. apply andb_prop in Hws as [Hw _]. apply space_not_name_char. exact Hw.
Qed.

Lemma no_opener_reads s1 ws0 typ ws1 X r :
  forallb is_space ws0 = true -> forallb is_space ws1 = true -> is_name typ = true ->
  is_space X = false -> X <> 40 -> X <> c_lbrace -> (ws1 <> [] \/ is_name_char X = false) ->
  sc_rest (p_sc s1) = ws0 ++ typ ++ ws1 ++ X :: r ->
  exists st2 te, parse_command Capture s1 = Exc te st2 /\ sc_rest (p_sc st2) = X :: r /\ e_cls te = E_TOKEN
                 /\ p_errs st2 = p_errs s1 /\ p_macros st2 = p_macros s1.
Proof.
  intros H0 H1 Hname HX1 HX2 HX3 HX4 Hr. unfold parse_command.
  destruct (name_head typ Hname) as (t0 & t' & Ht0 & Hts & Htc).
  assert (Hf1 : first_match [P_NAME] (typ ++ ws1 ++ X :: r) = Some (P_NAME, typ, ws1 ++ X :: r)).
  { cbn [first_match]. rewrite (match_name typ _ Hname (head_ok_ws_or ws1 X r H1 HX4)). reflexivity. }
  rewrite Ht0 in Hr, Hf1. cbn [app] in Hr, Hf1.
  match goal with |- context [required [P_NAME] ?s0] =>
    destruct (required_after_ws [P_NAME] s0 ws0 t0 _ _ _ _ H0 (name_char_not_space t0 Htc) Hr Hf1) as (sc1 & E1 & Hr1) end.
  rewrite E1. cbn [obind]. cbv zeta.
  match goal with |- context [required [P_LIT 40; P_LIT c_lbrace] ?s] =>
    destruct (required_none_after_ws [P_LIT 40; P_LIT c_lbrace] s ws1 X r H1 HX1 Hr1) as (sc2 & E2 & Hr2) end.
  { cbn [first_match match_pat]. apply N.eqb_neq in HX2, HX3. rewrite HX2, HX3. reflexivity. }
  rewrite E2. cbn [obind]. eexists. eexists. split; [reflexivity|]. cbn. auto.
Qed.

Lemma suffix_confinement_no_opener_lemma items junk ws0 typ ws1 X r v e items2 tail2 v2 e2 :
  wf_file month_macros items -> no_at junk -> no_at r -> (X =? c_at) = false ->
  forallb is_space ws0 = true -> forallb is_space ws1 = true -> is_name typ = true ->
  is_space X = false -> X <> 40 -> X <> c_lbrace -> (ws1 <> [] \/ is_name_char X = false) ->
  denote_items2 month_macros items ([], []) = Some (v, e) ->
  wf_file (final_macros month_macros items) items2 -> no_at tail2 ->
  denote_items2 (final_macros month_macros items) items2 v = Some (v2, e2) ->
  exists d' s' te, parse_bib Capture (file_text2 items (junk ++ c_at :: ws0 ++ typ ++ ws1 ++ X :: r) ++ file_text2 items2 tail2) = Ret d' s'
    /\ view d' = v2 /\ p_errs s' = map data_err e ++ [te] ++ map data_err e2 /\ e_cls te = E_TOKEN.
Proof.
  intros Hwf Hj Hr HX0 H0 H1 Hname HX1 HX2 HX3 HX4 Hd Hwf2 Ht2 Hd2.
  destruct (class_exc_untouched items junk (ws0 ++ typ ++ ws1 ++ X :: r) X r v e Hwf Hj Hr HX0) as (d & s & E & Hu & V & M & te & Er & Hc).
  - destruct (name_head typ Hname) as (t0 & t' & -> & _ & _). repeat (rewrite ?app_length; cbn [length]). lia.
  - intros s1 Hs1. exact (no_opener_reads s1 ws0 typ ws1 X r H0 H1 Hname HX1 HX2 HX3 HX4 Hs1).
  - exact Hd.
  - destruct (suffix_confinement_lemma _ d s items2 tail2 v2 e2 E Hu) as (d' & s' & E' & V' & Er').
    + rewrite M. exact Hwf2.
    + exact Ht2.
    + rewrite M, V. exact Hd2.
    + exists d', s', te. split; [exact E'|]. split; [exact V'|]. split; [|exact Hc]. rewrite Er', Er, <- app_assoc. reflexivity.
Qed.
