(* Proofs/Styles.v -- lemmas about label styles, sorting and BaseStyle (property C07). *)
From Pybtex Require Import Base.Prelude Base.PyChar Base.PyStr Model.RtTypes Model.Citations Model.Template Model.Styles
  Proofs.Template.
Require Import Coq.Sorting.Permutation Coq.Sorting.Sorted Coq.Logic.FinFun Coq.Numbers.DecimalNat.

(* ------------------------------------------------------------------------------ *)
(* number labels *)
Lemma number_labels_length {X} (es : list X) : length (number_labels es) = length es.
Proof. unfold number_labels. now rewrite map_length, seq_length. Qed.

Lemma uint_str_inj u v : uint_str u = uint_str v -> u = v.
Proof.
  revert v; induction u; intros v; destruct v; cbn; intros H; try discriminate; try reflexivity;
    inversion H; f_equal; auto.
Qed.

Lemma nat_str_inj : Injective nat_str.
Proof. intros a b H. unfold nat_str in H. apply uint_str_inj in H. now apply Unsigned.to_uint_inj. Qed.

Lemma number_labels_nodup {X} (es : list X) : NoDup (number_labels es).
Proof. unfold number_labels. apply Injective_map_NoDup; [exact nat_str_inj|apply seq_NoDup]. Qed.

Lemma number_labels_nth {X} (es : list X) i : i < length es -> nth_error (number_labels es) i = Some (nat_str (S i)).
Proof.
  intros H. unfold number_labels. rewrite nth_error_map.
  rewrite (nth_error_nth' _ 0) by now rewrite seq_length. rewrite seq_nth by exact H. reflexivity.
Qed.

(* the digits are the decimal representation: reading them back gives the number *)
Lemma nat_str_decimal n : Nat.of_uint (Nat.to_uint n) = n.
Proof. apply Unsigned.of_to. Qed.

(* ------------------------------------------------------------------------------ *)
(* Python's order on strings *)
Lemma str_leb_refl a : str_leb a a = true.
Proof. induction a as [|x a IH]; [reflexivity|]. cbn. now rewrite N.ltb_irrefl. Qed.

Lemma str_leb_total a b : str_leb a b = false -> str_leb b a = true.
Proof.
  revert b; induction a as [|x a IH]; intros [|y b]; cbn; try discriminate; try reflexivity.
  destruct (N.ltb x y) eqn:E1; [discriminate|]. destruct (N.ltb y x) eqn:E2; [reflexivity|]. apply IH.
Qed.

Lemma str_leb_antisym a b : str_leb a b = true -> str_leb b a = true -> a = b.
Proof.
  revert b; induction a as [|x a IH]; intros [|y b]; cbn; try discriminate; try reflexivity.
  destruct (N.ltb x y) eqn:E1; destruct (N.ltb y x) eqn:E2; try discriminate.
  - apply N.ltb_lt in E1, E2. lia.
  - intros H1 H2. apply N.ltb_ge in E1, E2. assert (x = y) by lia. subst. f_equal. now apply IH.
Qed.

Lemma str_leb_trans a b c : str_leb a b = true -> str_leb b c = true -> str_leb a c = true.
Proof.
  revert b c; induction a as [|x a IH]; intros [|y b] [|z c]; cbn; try discriminate; try reflexivity.
  destruct (N.ltb x y) eqn:E1; destruct (N.ltb y z) eqn:E2; destruct (N.ltb x z) eqn:E3; try reflexivity;
    destruct (N.ltb y x) eqn:E4; destruct (N.ltb z y) eqn:E5; destruct (N.ltb z x) eqn:E6; try discriminate; try reflexivity;
    rewrite ?N.ltb_lt, ?N.ltb_ge in *; try lia.
  intros H1 H2. eapply IH; eauto.
Qed.

(* tuples of three strings *)
Definition kle (a b : sortkey) : Prop := key_leb a b = true.

Lemma key_leb_refl a : key_leb a a = true.
Proof. destruct a as [[a1 a2] a3]. cbn. rewrite !str_eqb_refl. apply str_leb_refl. Qed.

Lemma key_leb_total a b : key_leb a b = false -> key_leb b a = true.
Proof.
  destruct a as [[a1 a2] a3], b as [[b1 b2] b3]. cbn.
  destruct (str_eqb_spec a1 b1) as [->|N1].
  - rewrite str_eqb_refl. destruct (str_eqb_spec a2 b2) as [->|N2].
    + rewrite str_eqb_refl. apply str_leb_total.
    + destruct (str_eqb_spec b2 a2) as [E|_]; [congruence|]. apply str_leb_total.
  - destruct (str_eqb_spec b1 a1) as [E|_]; [congruence|]. apply str_leb_total.
Qed.

Lemma key_leb_antisym a b : key_leb a b = true -> key_leb b a = true -> a = b.
Proof.
  destruct a as [[a1 a2] a3], b as [[b1 b2] b3]. cbn.
  destruct (str_eqb_spec a1 b1) as [->|N1].
  - rewrite str_eqb_refl. destruct (str_eqb_spec a2 b2) as [->|N2].
    + rewrite str_eqb_refl. intros H1 H2. f_equal. now apply str_leb_antisym.
    + destruct (str_eqb_spec b2 a2) as [E|_]; [congruence|]. intros H1 H2. exfalso. apply N2. now apply str_leb_antisym.
  - destruct (str_eqb_spec b1 a1) as [E|_]; [congruence|]. intros H1 H2. exfalso. apply N1. now apply str_leb_antisym.
Qed.

Lemma key_leb_trans a b c : key_leb a b = true -> key_leb b c = true -> key_leb a c = true.
Proof.
  destruct a as [[a1 a2] a3], b as [[b1 b2] b3], c as [[c1 c2] c3]. cbn.
  destruct (str_eqb_spec a1 b1) as [->|N1]; destruct (str_eqb_spec b1 c1) as [->|N2].
  - destruct (str_eqb_spec a2 b2) as [->|M1]; destruct (str_eqb_spec b2 c2) as [->|M2].
    + apply str_leb_trans.
    + auto.
    + destruct (str_eqb_spec a2 c2) as [E|_]; [congruence|]. auto.
    + intros H1 H2. destruct (str_eqb_spec a2 c2) as [->|_].
      * exfalso. apply M1. now apply str_leb_antisym.
      * eapply str_leb_trans; eauto.
  - auto.
  - destruct (str_eqb_spec a1 c1) as [E|_]; [congruence|]. auto.
  - intros H1 H2. destruct (str_eqb_spec a1 c1) as [->|_].
    + exfalso. apply N1. now apply str_leb_antisym.
    + eapply str_leb_trans; eauto.
Qed.

(* ------------------------------------------------------------------------------ *)
(* the stable insertion sort *)
Section sorting.
  Variable X : Type.
  Variable le : X -> X -> bool.
  Hypothesis le_total : forall a b, le a b = false -> le b a = true.
  Hypothesis le_trans : forall a b c, le a b = true -> le b c = true -> le a c = true.

  Let ins := insert_by (fun a b => negb (le b a)).

  Lemma insert_perm x l : Permutation (x :: l) (ins x l).
  Proof.
    induction l as [|y r IH]; [apply Permutation_refl|]. unfold ins in *. cbn [insert_by].
    destruct (negb (le x y)); [|apply Permutation_refl].
    eapply perm_trans; [apply perm_swap|]. now apply perm_skip.
  Qed.

  Lemma sort_perm l : Permutation l (sort_by le l).
  Proof.
    induction l as [|x r IH]; [constructor|]. cbn [sort_by].
    eapply perm_trans; [apply perm_skip, IH|]. apply insert_perm.
  Qed.

  Lemma insert_sorted x l :
    StronglySorted (fun a b => le a b = true) l -> StronglySorted (fun a b => le a b = true) (ins x l).
  Proof.
    induction 1 as [|y r Hs IH Hy]; unfold ins in *; cbn [insert_by]; [repeat constructor|].
    destruct (le x y) eqn:E; cbn [negb].
    - constructor; [constructor; assumption|]. constructor; [exact E|].
      rewrite Forall_forall in *. intros z Hz. eapply le_trans; eauto.
    - constructor; [exact IH|]. rewrite Forall_forall in *. intros z Hz.
      apply (Permutation_in _ (Permutation_sym (insert_perm x r))) in Hz. destruct Hz as [<-|Hz]; auto.
  Qed.

  Lemma sort_sorted l : StronglySorted (fun a b => le a b = true) (sort_by le l).
  Proof. induction l as [|x r IH]; [constructor|]. cbn [sort_by]. now apply insert_sorted. Qed.

  (* stability: the elements of each equivalence class keep their order *)
  Definition eqv (a b : X) : bool := le a b && le b a.

  Lemma insert_stable a x l :
    filter (eqv a) (ins x l) = filter (eqv a) (x :: l).
  Proof.
    induction l as [|y r IH]; [reflexivity|]. unfold ins in *. cbn [insert_by].
    destruct (le x y) eqn:E; cbn [negb]; [reflexivity|].
    cbn [filter] in *. rewrite IH.
    destruct (eqv a x) eqn:Ex; [|reflexivity]. destruct (eqv a y) eqn:Ey; [|reflexivity].
    exfalso. unfold eqv in *. apply andb_prop in Ex as [_ Ex]. apply andb_prop in Ey as [Ey _].
    rewrite (le_trans _ _ _ Ex Ey) in E. discriminate.
  Qed.

  Lemma sort_stable a l : filter (eqv a) (sort_by le l) = filter (eqv a) l.
  Proof.
    induction l as [|x r IH]; [reflexivity|]. cbn [sort_by]. rewrite insert_stable. cbn [filter]. now rewrite IH.
  Qed.
End sorting.

Definition entry_leb (a b : entry) : bool := key_leb (sorting_key a) (sorting_key b).

Lemma entry_leb_total a b : entry_leb a b = false -> entry_leb b a = true.
Proof. apply key_leb_total. Qed.
Lemma entry_leb_trans a b c : entry_leb a b = true -> entry_leb b c = true -> entry_leb a c = true.
Proof. apply key_leb_trans. Qed.

Lemma sort_entries_perm s es : Permutation es (sort_entries s es).
Proof. destruct s; cbn; [apply Permutation_refl|apply sort_perm]. Qed.

Lemma sort_entries_sorted es :
  StronglySorted (fun a b => key_leb (sorting_key a) (sorting_key b) = true) (sort_entries SAuthorYearTitle es).
Proof. cbn. apply (sort_sorted entry entry_leb entry_leb_total entry_leb_trans). Qed.

(* entries with the same sorting key keep the order they had *)
Definition key_eqb (a b : sortkey) : bool :=
  let '(a1, a2, a3) := a in let '(b1, b2, b3) := b in str_eqb a1 b1 && str_eqb a2 b2 && str_eqb a3 b3.

Lemma key_eqb_spec a b : reflect (a = b) (key_eqb a b).
Proof.
  destruct a as [[a1 a2] a3], b as [[b1 b2] b3]. cbn.
  destruct (str_eqb_spec a1 b1) as [->|N1]; cbn; [|constructor; congruence].
  destruct (str_eqb_spec a2 b2) as [->|N2]; cbn; [|constructor; congruence].
  destruct (str_eqb_spec a3 b3) as [->|N3]; cbn; constructor; congruence.
Qed.

Lemma eqv_key_eqb a e : eqv entry entry_leb a e = key_eqb (sorting_key e) (sorting_key a).
Proof.
  unfold eqv, entry_leb. destruct (key_eqb_spec (sorting_key e) (sorting_key a)) as [->|N].
  - now rewrite key_leb_refl.
  - destruct (key_leb (sorting_key a) (sorting_key e)) eqn:E1; [|reflexivity].
    destruct (key_leb (sorting_key e) (sorting_key a)) eqn:E2; [|reflexivity].
    exfalso. apply N. now apply key_leb_antisym.
Qed.

Lemma sort_entries_stable a es :
  filter (fun e => key_eqb (sorting_key e) (sorting_key a)) (sort_entries SAuthorYearTitle es)
  = filter (fun e => key_eqb (sorting_key e) (sorting_key a)) es.
Proof.
  cbn [sort_entries].
  rewrite <- (filter_ext _ _ (eqv_key_eqb a)). rewrite <- (filter_ext _ _ (eqv_key_eqb a)).
  apply sort_stable. exact entry_leb_trans.
Qed.

(* ------------------------------------------------------------------------------ *)
(* BaseStyle: one formatted entry per resolved citation, in the sorting style's order *)
Definition fe_key (x : fentry) : str := fst (fst x).
Definition fe_label (x : fentry) : str := snd (fst x).
Definition fe_text (x : fentry) : ftext := snd x.

Lemma keyb_same a b : Citations.keyb a b = Template.keyb a b.
Proof. reflexivity. Qed.
Lemma tkeyb_refl a : Template.keyb a a = true.
Proof. unfold Template.keyb. apply str_eqb_refl. Qed.
Lemma tkeyb_eq a b : Template.keyb a b = true -> lower a = lower b.
Proof. unfold Template.keyb. now destruct (str_eqb_spec (lower a) (lower b)). Qed.
Lemma tkeyb_congr a b x : Template.keyb a b = true -> Template.keyb a x = Template.keyb b x.
Proof. intros H. apply tkeyb_eq in H. unfold Template.keyb. now rewrite H. Qed.

Lemma find_map_key {X Y} (g : X -> Y) (p : Y -> bool) (l : list X) :
  find p (map g l) = option_map g (find (fun x => p (g x)) l).
Proof. induction l as [|x r IH]; [reflexivity|]. cbn. destruct (p (g x)); [reflexivity|exact IH]. Qed.

Lemma ed_get_edict_of c db :
  ed_get c (edict_of db) = option_map (fun e => (e_key e, ci_get s_crossref (e_fields e))) (db_get c db).
Proof. unfold ed_get, edict_of, db_get. now rewrite find_map_key. Qed.

Lemma ed_mem_edict_of c db : ed_mem c (edict_of db) = true -> exists e, db_get c db = Some e.
Proof.
  unfold ed_mem, edict_of, db_get. rewrite existsb_exists. intros (p & Hin & Hp).
  apply in_map_iff in Hin as (e & <- & Hin). cbn in Hp.
  destruct (find (fun e0 => Template.keyb c (e_key e0)) db) eqn:E; [eauto|].
  exfalso. eapply find_none in E; eauto. rewrite <- keyb_same in E. congruence.
Qed.

Lemma find_ext' {X} (p q : X -> bool) l : (forall x, p x = q x) -> find p l = find q l.
Proof. intros H. induction l as [|x r IH]; [reflexivity|]. cbn. rewrite H. now rewrite IH. Qed.

Lemma db_get_stored c db e : db_get c db = Some e -> db_get (e_key e) db = Some e.
Proof.
  unfold db_get. intros H. rewrite <- H. apply find_ext'. intros x.
  apply find_some in H as [_ H]. symmetry. now apply tkeyb_congr.
Qed.

Lemma yields_remove_missing E cs c : In c (yields (remove_missing E cs)) -> ed_mem c E = true.
Proof.
  induction cs as [|x r IH]; [contradiction|]. cbn [remove_missing]. unfold yields in *. cbn [flat_map].
  destruct (ed_mem x E) eqn:Ex; cbn; [intros [<-|H]; auto | auto].
Qed.

Lemma entries_of_keys db ys :
  Forall (fun c => ed_mem c (edict_of db) = true) ys ->
  map e_key (entries_of db (map (stored_key (edict_of db)) ys)) = map (stored_key (edict_of db)) ys.
Proof.
  induction 1 as [|c r Hc Hr IH]; [reflexivity|]. cbn [map entries_of flat_map].
  destruct (ed_mem_edict_of _ _ Hc) as (e & He).
  assert (Hs : stored_key (edict_of db) c = e_key e).
  { unfold stored_key. rewrite ed_get_edict_of, He. reflexivity. }
  rewrite Hs. rewrite (db_get_stored _ _ _ He). cbn [app map]. f_equal.
  unfold entries_of in IH. exact IH.
Qed.

Lemma resolved_entries db cites m :
  map e_key (entries_of db (fst (resolved db cites m))) = fst (resolved db cites m).
Proof.
  unfold resolved, format_bibliography_raw.
  destruct (add_extra (edict_of db) _ m) as [cs rs]. cbn [fst].
  apply entries_of_keys. rewrite Forall_forall. intros c Hc. eapply yields_remove_missing; eauto.
Qed.

(* label lists have one label per entry *)
Lemma mapR_length {X Y} (f : X -> res Y) l ys : mapR f l = Ok ys -> length ys = length l.
Proof.
  revert ys; induction l as [|x r IH]; cbn; intros ys H; [inversion H; reflexivity|].
  destruct (f x); cbn in H; try discriminate. destruct (mapR f r); cbn in H; try discriminate.
  inversion H; subst. cbn. f_equal. now apply IH.
Qed.
Lemma suffix_loop_length all todo seen : length (suffix_loop all todo seen) = length todo.
Proof. revert seen; induction todo as [|l r IH]; intros seen; cbn; [reflexivity|]. now rewrite IH. Qed.

Lemma format_labels_length ls es labels : format_labels ls es = Ok labels -> length labels = length es.
Proof.
  destruct ls; cbn.
  - intros H; inversion H. apply number_labels_length.
  - unfold alpha_labels. destruct (mapR format_label es) eqn:E; cbn; try discriminate.
    intros H; inversion H. unfold disambiguate. rewrite suffix_loop_length. eapply mapR_length; eauto.
Qed.

Lemma lift_ok {X} (r : res X) v : lift r = TOk v -> r = Ok v.
Proof. destruct r; cbn; intros H; inversion H; reflexivity. Qed.

Lemma format_entry_ok cf tbl tp db l e x :
  format_entry cf tbl tp db l e = TOk x ->
  fe_key x = e_key e /\ fe_label x = l /\
  exists t, template_of tp e = Some t /\ eval_top (mkC e db tbl (cf_names cf) (cf_abbr cf)) t = TOk (fe_text x).
Proof.
  unfold format_entry. destruct (template_of tp e) as [t|]; [|discriminate].
  intros H. apply tbind_ok in H as (f & Hf & H). inversion H; subst. cbn. repeat split; eauto.
Qed.

Lemma combine_snd {X Y} (a : list X) (b : list Y) : length a = length b -> map snd (combine a b) = b.
Proof. revert b; induction a as [|x a IH]; intros [|y b]; cbn; try discriminate; auto. intros H. f_equal. apply IH. lia. Qed.
Lemma combine_fst {X Y} (a : list X) (b : list Y) : length a = length b -> map fst (combine a b) = a.
Proof. revert b; induction a as [|x a IH]; intros [|y b]; cbn; try discriminate; auto. intros H. f_equal. apply IH. lia. Qed.

Lemma Forall2_map_eq {X Y Z} (R : X -> Y -> Prop) (f : Y -> Z) (g : X -> Z) l out :
  Forall2 R l out -> (forall a b, R a b -> f b = g a) -> map f out = map g l.
Proof. induction 1; intros HR; cbn; [reflexivity|]. f_equal; auto. Qed.

Lemma format_entries_ok cf tbl tp db es out :
  format_entries cf tbl tp db es = TOk out ->
  exists labels,
    format_labels (cf_label cf) (sort_entries (cf_sort cf) es) = Ok labels /\
    map fe_key out = map e_key (sort_entries (cf_sort cf) es) /\
    map fe_label out = labels /\
    Forall2 (fun e x => fe_key x = e_key e /\ exists t, template_of tp e = Some t /\
                                  eval_top (mkC e db tbl (cf_names cf) (cf_abbr cf)) t = TOk (fe_text x))
            (sort_entries (cf_sort cf) es) out.
Proof.
  unfold format_entries. intros H. apply tbind_ok in H as (labels & Hl & H). apply lift_ok in Hl.
  exists labels. split; [exact Hl|]. pose proof (format_labels_length _ _ _ Hl) as Hlen.
  apply tmapM_ok in H.
  set (sorted := sort_entries (cf_sort cf) es) in *.
  assert (K : map fe_key out = map (fun le => e_key (snd le)) (combine labels sorted)).
  { eapply Forall2_map_eq; [exact H|]. intros a b Hab. now apply format_entry_ok in Hab as (? & _). }
  assert (Lb : map fe_label out = map fst (combine labels sorted)).
  { eapply Forall2_map_eq; [exact H|]. intros a b Hab. now apply format_entry_ok in Hab as (_ & ? & _). }
  split; [|split].
  - rewrite K. rewrite <- (combine_snd labels sorted Hlen) at 2. now rewrite map_map.
  - rewrite Lb. now apply combine_fst.
  - rewrite <- (combine_snd labels sorted Hlen). clear K Lb.
    induction H as [|a b l l' Hab HF IH]; cbn; constructor; auto.
    apply format_entry_ok in Hab as (Hk & _ & t & Ht & He). eauto.
Qed.

Lemma format_bibliography_ok cf tbl tp db cites out :
  format_bibliography cf tbl tp db cites = TOk out ->
  let keys := fst (resolved db cites (cf_mincross cf)) in
  let es := entries_of db keys in
  map e_key es = keys /\
  (cf_strict cf = true -> snd (resolved db cites (cf_mincross cf)) = []) /\
  exists labels,
    format_labels (cf_label cf) (sort_entries (cf_sort cf) es) = Ok labels /\
    map fe_key out = map e_key (sort_entries (cf_sort cf) es) /\
    map fe_label out = labels /\
    Forall2 (fun e x => fe_key x = e_key e /\ exists t, template_of tp e = Some t /\
                                  eval_top (mkC e (Some db) tbl (cf_names cf) (cf_abbr cf)) t = TOk (fe_text x))
            (sort_entries (cf_sort cf) es) out.
Proof.
  intros H. cbv zeta. unfold format_bibliography in H.
  destruct (resolved db cites (cf_mincross cf)) as [keys reports] eqn:R. cbn [fst snd].
  split; [|split].
  - pose proof (resolved_entries db cites (cf_mincross cf)) as E. now rewrite R in E.
  - intros Hs. rewrite Hs in H. destruct reports; [reflexivity|discriminate].
  - destruct (cf_strict cf && negb (is_nil reports)); [discriminate|]. now apply format_entries_ok.
Qed.

(* the four statements of the property about the list of formatted entries *)
Lemma one_entry_per_citation_lemma cf tbl tp db cites out :
  format_bibliography cf tbl tp db cites = TOk out ->
  length out = length (fst (resolved db cites (cf_mincross cf))) /\
  Permutation (map fe_key out) (fst (resolved db cites (cf_mincross cf))).
Proof.
  intros H. apply format_bibliography_ok in H as (Hk & _ & labels & _ & Hkeys & _ & _).
  assert (P : Permutation (map fe_key out) (fst (resolved db cites (cf_mincross cf)))).
  { rewrite Hkeys. rewrite <- Hk at 2. apply Permutation_map, Permutation_sym, sort_entries_perm. }
  split; [|exact P]. apply Permutation_length in P. now rewrite map_length in P.
Qed.

Lemma order_none_lemma cf tbl tp db cites out :
  cf_sort cf = SNone -> format_bibliography cf tbl tp db cites = TOk out ->
  map fe_key out = fst (resolved db cites (cf_mincross cf)).
Proof.
  intros Hs H. apply format_bibliography_ok in H as (Hk & _ & labels & _ & Hkeys & _ & _).
  rewrite Hs in Hkeys. cbn [sort_entries] in Hkeys. congruence.
Qed.

Lemma order_ayt_lemma cf tbl tp db cites out :
  cf_sort cf = SAuthorYearTitle -> format_bibliography cf tbl tp db cites = TOk out ->
  exists es sorted,
    map e_key es = fst (resolved db cites (cf_mincross cf)) /\ map fe_key out = map e_key sorted /\
    Permutation es sorted /\
    StronglySorted (fun a b => key_leb (sorting_key a) (sorting_key b) = true) sorted /\
    forall a, filter (fun e => key_eqb (sorting_key e) (sorting_key a)) sorted
              = filter (fun e => key_eqb (sorting_key e) (sorting_key a)) es.
Proof.
  intros Hs H. apply format_bibliography_ok in H as (Hk & _ & labels & _ & Hkeys & _ & _).
  rewrite Hs in Hkeys.
  eexists _, _. split; [exact Hk|]. split; [exact Hkeys|]. split; [apply sort_entries_perm|].
  split; [apply sort_entries_sorted|]. intros a. apply sort_entries_stable.
Qed.

Lemma number_labels_lemma cf tbl tp db cites out :
  cf_label cf = LNumber -> format_bibliography cf tbl tp db cites = TOk out ->
  map fe_label out = map nat_str (seq 1 (length out)) /\ NoDup (map fe_label out).
Proof.
  intros Hl H. pose proof (one_entry_per_citation_lemma _ _ _ _ _ _ H) as [Hlen _].
  apply format_bibliography_ok in H as (Hk & _ & labels & Hlab & Hkeys & Hlabels & _).
  rewrite Hl in Hlab. cbn in Hlab. inversion Hlab as [Hnl]. rewrite Hlabels, <- Hnl.
  split; [|apply number_labels_nodup]. unfold number_labels. do 2 f_equal.
  rewrite Hlen. rewrite <- Hk. rewrite map_length.
  symmetry. apply Permutation_length. apply sort_entries_perm.
Qed.

(* every entry of a produced bibliography was evaluated successfully: a required field that is
   undefined makes format_bibliography fail as a whole *)
Lemma missing_required_fails cf tbl tp db cites e t n :
  In e (entries_of db (fst (resolved db cites (cf_mincross cf)))) ->
  template_of tp e = Some t -> required t n ->
  undefined (mkC e (Some db) tbl (cf_names cf) (cf_abbr cf)) n ->
  forall out, format_bibliography cf tbl tp db cites <> TOk out.
Proof.
  intros Hin Ht Hr Hu out H. apply format_bibliography_ok in H as (_ & _ & labels & _ & _ & _ & HF).
  assert (Hin' : In e (sort_entries (cf_sort cf) (entries_of db (fst (resolved db cites (cf_mincross cf)))))).
  { eapply Permutation_in; [apply sort_entries_perm|exact Hin]. }
  clear Hin. induction HF as [|a x l l' Hax HF IH]; [contradiction|].
  destruct Hin' as [->|Hin']; [|auto].
  destruct Hax as (_ & t' & Ht' & He). rewrite Ht in Ht'. inversion Ht'; subst t'.
  unfold eval_top in He. apply tbind_ok in He as (v & Hv & _).
  eapply required_missing_lemma; eauto.
Qed.

(* ------------------------------------------------------------------------------ *)
(* alpha labels: the suffix letters *)
Lemma cnt_app a b x : count_occ_str (a ++ b) x = count_occ_str a x + count_occ_str b x.
Proof. unfold count_occ_str. now rewrite filter_app, app_length. Qed.
Lemma cnt_cons y a x : count_occ_str (y :: a) x = (if str_eqb x y then 1 else 0) + count_occ_str a x.
Proof. unfold count_occ_str. cbn [filter]. destruct (str_eqb x y); reflexivity. Qed.

Definition suffixed (all pre : list str) (l : str) : str :=
  if Nat.eqb (count_occ_str all l) 1 then l else l ++ [(97 + N.of_nat (count_occ_str pre l))%N].

Lemma suffix_loop_nth all : forall todo pre seen i l,
  (forall x, Nat.eqb (count_occ_str all x) 1 = false -> count_occ_str seen x = count_occ_str pre x) ->
  nth_error todo i = Some l ->
  nth_error (suffix_loop all todo seen) i = Some (suffixed all (pre ++ firstn i todo) l).
Proof.
  induction todo as [|l0 r IH]; intros pre seen i l Hinv Hn; [destruct i; discriminate|].
  destruct i as [|i]; cbn [nth_error suffix_loop firstn] in *.
  - inversion Hn; subst l0. rewrite app_nil_r. unfold suffixed.
    destruct (Nat.eqb (count_occ_str all l) 1) eqn:E; [reflexivity|]. now rewrite (Hinv _ E).
  - replace (pre ++ l0 :: firstn i r) with ((pre ++ [l0]) ++ firstn i r) by now rewrite <- app_assoc.
    apply IH; [|exact Hn]. intros x Hx. rewrite cnt_app, cnt_cons. change (count_occ_str [] x) with 0.
    rewrite Nat.add_0_r.
    destruct (Nat.eqb (count_occ_str all l0) 1) eqn:E.
    + rewrite (Hinv _ Hx). destruct (str_eqb_spec x l0) as [->|_]; [congruence|lia].
    + rewrite cnt_cons, (Hinv _ Hx). lia.
Qed.

(* alpha_suffix_spec: the label at position i is the base label itself when it occurs once, and
   otherwise the base label followed by the letter number (occurrences before position i) *)
Lemma disambiguate_nth ls i l :
  nth_error ls i = Some l -> nth_error (disambiguate ls) i = Some (suffixed ls (firstn i ls) l).
Proof. intros H. unfold disambiguate. now apply (suffix_loop_nth ls ls [] [] i l). Qed.

Lemma nth_split_firstn {X} (l : list X) i x : nth_error l i = Some x -> exists r, l = firstn i l ++ x :: r.
Proof.
  revert i; induction l as [|y l IH]; intros [|i] H; try discriminate.
  - inversion H; subst. now exists l.
  - cbn in H. destruct (IH _ H) as (r & Hr). exists r. cbn. now rewrite <- Hr.
Qed.

Lemma cnt_self x : count_occ_str [x] x = 1.
Proof. unfold count_occ_str. cbn. now rewrite str_eqb_refl. Qed.

Lemma cnt_before_lt ls i j l :
  i < j -> nth_error ls i = Some l -> count_occ_str (firstn i ls) l < count_occ_str (firstn j ls) l.
Proof.
  intros Hij Hn. destruct (nth_split_firstn _ _ _ Hn) as (r & Hr).
  assert (Hlen : length (firstn i ls) = i).
  { apply firstn_length_le. apply Nat.lt_le_incl. apply nth_error_Some. congruence. }
  rewrite Hr at 2. replace j with (i + S (j - S i)) by lia.
  rewrite <- Hlen at 2. rewrite firstn_app_2. cbn [firstn]. rewrite cnt_app.
  change (l :: firstn (j - S i) r) with ([l] ++ firstn (j - S i) r). rewrite cnt_app, cnt_self. lia.
Qed.

Lemma cnt_before_total ls j l : nth_error ls j = Some l -> count_occ_str (firstn j ls) l < count_occ_str ls l.
Proof.
  intros Hn. destruct (nth_split_firstn _ _ _ Hn) as (r & Hr). rewrite Hr at 2.
  rewrite cnt_app. change (l :: r) with ([l] ++ r). rewrite cnt_app, cnt_self. lia.
Qed.

Lemma suffixed_distinct ls i j li lj :
  (forall l l' c, In l ls -> In l' ls -> l <> l' ++ [c]) ->
  i < j -> nth_error ls i = Some li -> nth_error ls j = Some lj ->
  suffixed ls (firstn i ls) li <> suffixed ls (firstn j ls) lj.
Proof.
  intros H Hij Hi Hj. unfold suffixed.
  pose proof (nth_error_In _ _ Hi) as Ini. pose proof (nth_error_In _ _ Hj) as Inj.
  destruct (Nat.eqb (count_occ_str ls li) 1) eqn:Ei; destruct (Nat.eqb (count_occ_str ls lj) 1) eqn:Ej.
  - intros ->. apply Nat.eqb_eq in Ei.
    pose proof (cnt_before_lt _ _ _ _ Hij Hi). pose proof (cnt_before_total _ _ _ Hj). lia.
  - apply H; assumption.
  - intros E. symmetry in E. revert E. apply H; assumption.
  - intros E. apply app_inj_tail in E as [-> E].
    pose proof (cnt_before_lt _ _ _ _ Hij Hi) as Hlt.
    apply N.add_cancel_l in E. apply Nat2N.inj in E.
    unfold str, char in *. rewrite E in Hlt. exact (Nat.lt_irrefl _ Hlt).
Qed.

Lemma alpha_distinct_partial_lemma ls :
  (forall l l' c, In l ls -> In l' ls -> l <> l' ++ [c]) -> NoDup (disambiguate ls).
Proof.
  intros H. apply NoDup_nth_error. intros i j Hi E.
  assert (Hlen : length (disambiguate ls) = length ls) by (unfold disambiguate; apply suffix_loop_length).
  rewrite Hlen in Hi.
  destruct (nth_error ls i) as [li|] eqn:Ei; [|apply nth_error_None in Ei; lia].
  assert (Hj : j < length ls).
  { rewrite <- Hlen. apply nth_error_Some. rewrite <- E. rewrite (disambiguate_nth _ _ _ Ei). discriminate. }
  destruct (nth_error ls j) as [lj|] eqn:Ej; [|apply nth_error_None in Ej; lia].
  rewrite (disambiguate_nth _ _ _ Ei), (disambiguate_nth _ _ _ Ej) in E. inversion E as [E'].
  destruct (Nat.lt_trichotomy i j) as [Hlt|[Heq|Hgt]]; [|exact Heq|].
  - exfalso. eapply (suffixed_distinct ls i j); eauto.
  - exfalso. symmetry in E'. eapply (suffixed_distinct ls j i); eauto.
Qed.

(* F12: the witness -- base labels AB, AB, ABa *)
Definition f12_person (l : str) : person := mkP [] [] [] [l] [].
Definition f12_entries : list entry :=
  [mkE [101; 49]%N [109; 105; 115; 99]%N [] [(s_author, [f12_person [65; 97]%N; f12_person [66; 98]%N])];
   mkE [101; 50]%N [109; 105; 115; 99]%N [] [(s_author, [f12_person [65; 120]%N; f12_person [66; 121]%N])];
   mkE [101; 51]%N [109; 105; 115; 99]%N [] [(s_author, [f12_person [65; 98]%N; f12_person [66; 99]%N; f12_person [97; 98]%N])]].

Lemma alpha_distinct_refuted_lemma : exists es ls, alpha_labels es = Ok ls /\ ~ NoDup ls.
Proof.
  exists f12_entries. eexists. split; [vm_compute; reflexivity|].
  intros H. inversion H as [|x l Hnin _]. apply Hnin. right. left. reflexivity.
Qed.

Lemma key_leb_order (a b c : sortkey) :
  key_leb a a = true /\ (key_leb a b = false -> key_leb b a = true) /\
  (key_leb a b = true -> key_leb b c = true -> key_leb a c = true) /\
  (key_leb a b = true -> key_leb b a = true -> a = b).
Proof. exact (conj (key_leb_refl a) (conj (key_leb_total a b) (conj (key_leb_trans a b c) (key_leb_antisym a b)))). Qed.

Lemma nat_str_is_decimal n : nat_str n = uint_str (Nat.to_uint n) /\ Nat.of_uint (Nat.to_uint n) = n.
Proof. exact (conj eq_refl (nat_str_decimal n)). Qed.

Lemma alpha_labels_partial_lemma es bases ls :
  mapR format_label es = Ok bases -> alpha_labels es = Ok ls ->
  (forall l l' c, In l bases -> In l' bases -> l <> l' ++ [c]) ->
  NoDup ls.
Proof.
  intros Hb Ha H. unfold alpha_labels in Ha. rewrite Hb in Ha. cbn in Ha. inversion Ha; subst.
  now apply alpha_distinct_partial_lemma.
Qed.

(* F24: a template of the shape of unsrt's `misc` on an entry without any of its fields *)
Definition misc_like : tnode :=
  TToplevel [TOptional [TSentence false false true (plain [c_comma; c_space]) [TNames s_author [] None None]];
             TSentence false false true (plain [c_comma; c_space]) [TOptionalField s_title ACapitalize false]].
Lemma entry_terminated_refuted_lemma : exists c, eval_top c misc_like = TOk [] /\ ends_term [] = false.
Proof. exists (mkC (mkE [107%N] [] [] []) None [] NSPlain false). vm_compute. auto. Qed.
