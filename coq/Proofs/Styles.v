(* Proofs/Styles.v -- lemmas about label styles, sorting and BaseStyle (property C07). *)
From Pybtex Require Import Base.Prelude Base.PyChar Base.PyStr Model.RtTypes Model.Citations Model.Template Model.Styles.

Lemma number_labels_length {X} (es : list X) : length (number_labels es) = length es.
Proof. unfold number_labels. now rewrite map_length, seq_length. Qed.
