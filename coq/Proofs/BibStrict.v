(* Proofs/BibStrict.v -- C10: when strict mode returns at all, no error handler was ever
   called, so capture mode computes exactly the same and reports nothing *)
From Pybtex Require Import Base.Prelude Base.PyChar Base.PyStr Model.BibtexStr Model.Names
  Model.Scanner Model.BibParser.
Local Open Scope N_scope.

Definition agrees {A} (s : pst) (rs rc : out A) : Prop :=
  match rs with
  | Ret _ s' => rc = rs /\ p_errs s' = p_errs s
  | Exc _ s' => rc = rs /\ p_errs s' = p_errs s
  | Fatal _ => True
  end.

Lemma agrees_bind {A B} s (gs gc : out A) (ks kc : A -> pst -> out B) :
  agrees s gs gc -> (forall a s1, p_errs s1 = p_errs s -> agrees s1 (ks a s1) (kc a s1)) ->
  agrees s (gs >>= ks) (gc >>= kc).
Proof.
  intros Hg Hk. destruct gs as [a s1|e s1|f]; cbn in Hg |- *.
  - destruct Hg as [-> He]. cbn. specialize (Hk a s1 He).
    destruct (ks a s1) as [b s2|e2 s2|f2]; cbn in Hk |- *; auto; destruct Hk as [-> H2]; split; congruence.
  - destruct Hg as [-> He]. cbn. auto.
  - exact I.
Qed.

Lemma agrees_same {A} s (r : out A) :
  (forall a s', r = Ret a s' -> p_errs s' = p_errs s) -> (forall e s', r = Exc e s' -> p_errs s' = p_errs s) -> agrees s r r.
Proof. intros H1 H2. destruct r as [a s'|e s'|f]; cbn; [split; [reflexivity|eapply H1; reflexivity]|split; [reflexivity|eapply H2; reflexivity]|exact I]. Qed.

Lemma required_agrees ps s : agrees s (required ps s) (required ps s).
Proof.
  apply agrees_same; unfold required; destruct (get_token ps (p_sc s)) as [[| |p v] c]; intros ? ? H; inversion H; reflexivity.
Qed.
Lemma optional_agrees ps s : agrees s (optional ps s) (optional ps s).
Proof.
  apply agrees_same; unfold optional; destruct (get_token ps (p_sc s)) as [[| |p v] c]; intros ? ? H; inversion H; reflexivity.
Qed.

Lemma pstring_agrees fuel : forall q level acc s, agrees s (pstring fuel q level acc s) (pstring fuel q level acc s).
Proof.
  induction fuel as [|f IH]; intros q level acc s; cbn [pstring]; [exact I|].
  destruct (skip_to _ (p_sc s)) as [[[v c] c']|]; [|cbn; auto].
  assert (Hx : forall r : out str, agrees (set_sc s c') r r -> agrees s r r).
  { intros r H. destruct r; cbn in *; auto. }
  destruct (c =? c_quote); [cbn; auto|].
  destruct (is_lbrace c).
  - destruct (Nat.ltb nest_limit (S level)); [cbn; auto|]. apply Hx, IH.
  - destruct level; [destruct q; cbn; auto|]. apply Hx, IH.
Qed.

Lemma handle_strict_agrees {A} s e (rc : out A) k : agrees s (handle_error Strict e s >>= k) rc.
Proof. exact I. Qed.

Lemma substitute_macro_agrees name s : agrees s (substitute_macro Strict name s) (substitute_macro Capture name s).
Proof. unfold substitute_macro. destruct (assoc_get (lower name) (p_macros s)); cbn; auto. Qed.

Lemma parse_value_part_agrees s : agrees s (parse_value_part Strict s) (parse_value_part Capture s).
Proof.
  unfold parse_value_part. apply agrees_bind; [apply required_agrees|]. intros tk s1 _.
  destruct (fst tk); try apply substitute_macro_agrees.
  - cbn. auto.
  - apply agrees_bind; [apply pstring_agrees|]. intros a s2 _. cbn. auto.
Qed.

Lemma parse_value_loop_agrees fuel : forall parts s, agrees s (parse_value_loop fuel Strict parts s) (parse_value_loop fuel Capture parts s).
Proof.
  induction fuel as [|f IH]; intros parts s; cbn [parse_value_loop]; [exact I|].
  apply agrees_bind; [apply parse_value_part_agrees|]. intros part s1 _.
  apply agrees_bind; [apply optional_agrees|]. intros h s2 _. destruct h; [apply IH|cbn; auto].
Qed.

Lemma parse_value_agrees s : agrees s (parse_value Strict s) (parse_value Capture s).
Proof. unfold parse_value. apply agrees_bind; [apply parse_value_loop_agrees|]. intros parts s1 _. cbn. auto. Qed.

Lemma agrees_core {A} s s0 (rs rc : out A) : p_errs s0 = p_errs s -> agrees s0 rs rc -> agrees s rs rc.
Proof. intros He H. destruct rs; cbn in *; auto; destruct H; split; congruence. Qed.

Lemma parse_field_agrees s : agrees s (parse_field Strict s) (parse_field Capture s).
Proof.
  unfold parse_field. apply agrees_bind; [apply optional_agrees|]. intros name s1 _.
  destruct name as [tk|]; [|cbn; auto].
  apply (agrees_core _ (set_fname s1 (Some (snd tk)))); [reflexivity|].
  apply agrees_bind; [apply required_agrees|]. intros x s3 _. apply parse_value_agrees.
Qed.

Lemma parse_entry_fields_agrees fuel : forall s, agrees s (parse_entry_fields fuel Strict s) (parse_entry_fields fuel Capture s).
Proof.
  induction fuel as [|f IH]; intros s; cbn [parse_entry_fields]; [exact I|].
  apply (agrees_core _ (set_value (set_fname s None) [])); [reflexivity|].
  apply agrees_bind; [apply parse_field_agrees|]. intros u s1 _.
  set (s2 := match p_fname s1, p_value s1 with
             | Some n, _ :: _ => set_fields s1 (p_fields s1 ++ [(n, p_value s1)])
             | _, _ => s1 end).
  assert (He : p_errs s2 = p_errs s1) by (unfold s2; destruct (p_fname s1); [destruct (p_value s1)|]; reflexivity).
  apply (agrees_core _ s2); [exact He|].
  apply agrees_bind; [apply optional_agrees|]. intros comma s3 _. destruct comma; [apply IH|cbn; auto].
Qed.

Lemma parse_entry_body_agrees b s : agrees s (parse_entry_body Strict b s) (parse_entry_body Capture b s).
Proof.
  unfold parse_entry_body. apply agrees_bind; [apply required_agrees|]. intros tk s1 _.
  apply (agrees_core _ (set_key s1 (Some (snd tk)))); [reflexivity|]. apply parse_entry_fields_agrees.
Qed.

Lemma parse_string_body_agrees s : agrees s (parse_string_body Strict s) (parse_string_body Capture s).
Proof.
  unfold parse_string_body. apply agrees_bind; [apply required_agrees|]. intros tk s1 _.
  apply (agrees_core _ (set_fname s1 (Some (snd tk)))); [reflexivity|].
  apply agrees_bind; [apply required_agrees|]. intros x s3 _.
  apply agrees_bind; [apply parse_value_agrees|]. intros y s4 _. cbn. auto.
Qed.

Lemma parse_command_agrees s : agrees s (parse_command Strict s) (parse_command Capture s).
Proof.
  unfold parse_command.
  apply (agrees_core _ (set_value (set_fname (set_fields (set_key s None) []) None) [])); [reflexivity|].
  apply agrees_bind; [apply required_agrees|]. intros name s1 _.
  apply agrees_bind; [apply required_agrees|]. intros bs s2 _.
  destruct (str_eqb (lower (snd name)) kw_comment); [cbn; auto|].
  set (brace := match fst bs with P_LIT c => c =? c_lbrace | _ => false end).
  set (k := if str_eqb (lower (snd name)) kw_string then KString
            else if str_eqb (lower (snd name)) kw_preamble then KPreamble else KEntry).
  assert (Hb : agrees s2
     (match k with KString => parse_string_body Strict s2 | KPreamble => parse_preamble_body Strict s2 | KEntry => parse_entry_body Strict brace s2 end
        >>= (fun _ s3 => required [P_LIT (if brace then c_rbrace else 41)] s3))
     (match k with KString => parse_string_body Capture s2 | KPreamble => parse_preamble_body Capture s2 | KEntry => parse_entry_body Capture brace s2 end
        >>= (fun _ s3 => required [P_LIT (if brace then c_rbrace else 41)] s3))).
  { apply agrees_bind.
    - destruct k; [apply parse_string_body_agrees|apply parse_value_agrees|apply parse_entry_body_agrees].
    - intros u s3 _. apply required_agrees. }
  destruct (_ >>= _) as [u s4|e s4|f] in Hb |- *; cbn in Hb.
  - destruct Hb as [-> He]. cbn. auto.
  - exact I.
  - exact I.
Qed.

Definition proc_agrees {D} (proc : mode -> cmd -> D -> pst -> out D) : Prop :=
  forall c d s, agrees s (proc Strict c d s) (proc Capture c d s).

Lemma bib_loop_agrees {D} (proc : mode -> cmd -> D -> pst -> out D) : proc_agrees proc ->
  forall fuel d s, agrees s (bib_loop proc fuel Strict d s) (bib_loop proc fuel Capture d s).
Proof.
  intros Hp. induction fuel as [|f IH]; intros d s; cbn [bib_loop]; [exact I|].
  destruct (skip_to _ (p_sc s)) as [[[v c] c']|]; [|cbn; auto].
  set (s1 := set_cstart (set_sc s c') (sc_pos c' - 1)).
  apply (agrees_core _ s1); [reflexivity|].
  pose proof (parse_command_agrees s1) as Hc.
  destruct (parse_command Strict s1) as [[c0|] s2|e s2|x]; cbn in Hc.
  - destruct Hc as [-> He]. apply (agrees_core _ s2); [exact He|].
    apply agrees_bind; [apply Hp|]. intros d' s3 _. apply IH.
  - destruct Hc as [-> He]. apply (agrees_core _ s2); [exact He|]. apply IH.
  - exact I.
  - exact I.
Qed.

Lemma persons_of_agrees : forall names acc s, agrees s (persons_of Strict names acc s) (persons_of Capture names acc s).
Proof.
  induction names as [|n r IH]; intros acc s; cbn [persons_of]; [cbn; auto|].
  destruct (person_of_string n) as [[p rep]|? ?| |]; try exact I.
  destruct rep; [exact I|]. cbn [obind]. apply IH.
Qed.

Lemma process_fields_agrees : forall fields seen fs ps s,
  agrees s (process_fields Strict fields seen fs ps s) (process_fields Capture fields seen fs ps s).
Proof.
  induction fields as [|[fname parts] rest IH]; intros seen fs ps s; cbn [process_fields]; [cbn; auto|].
  destruct (existsb (str_eqb (lower fname)) seen); [exact I|].
  destruct (is_person_field (lower fname)); [|apply IH].
  destruct (split_name_list (normalize_whitespace (concat parts))); try exact I.
  apply agrees_bind; [apply persons_of_agrees|]. intros pl s1 _. apply IH.
Qed.

Lemma process_agrees : proc_agrees process.
Proof.
  intros c d s. destruct c as [n f v|n v|typ key fields]; cbn [process]; try (cbn; auto; fail).
  unfold process_entry.
    destruct (match key with Some k => (k, d) | None => _ end) as [k d1].
    apply agrees_bind; [apply process_fields_agrees|]. intros r s1 _.
    unfold add_entry. destruct (existsb _ (db_entries d1)); [exact I|cbn; auto].
Qed.

(* if strict mode returns a database, capture mode returns the same database and final state,
   and nothing at all has been reported *)
Lemma strict_success text d s : parse_bib Strict text = Ret d s -> parse_bib Capture text = Ret d s /\ p_errs s = [].
Proof.
  intros H. unfold parse_bib in *.
  pose proof (bib_loop_agrees process process_agrees (S (length text)) db_init (pst_init text month_macros)) as Ha.
  rewrite H in Ha. cbn in Ha. exact Ha.
Qed.

From Pybtex Require Proofs.BibParser.
(* consequently: whenever capture mode reports at least one problem, strict mode does not
   return: it raises a pybtex error (never a foreign exception: totality) *)
Lemma strict_raises text d s : parse_bib Capture text = Ret d s -> p_errs s <> [] ->
  exists c l, parse_bib Strict text = Fatal (FErr c l).
Proof.
  intros Hc Hne. destruct (Proofs.BibParser.parse_bib_total_all Strict text) as (H1 & H2 & H3).
  destruct (parse_bib Strict text) as [d' s'|e s'|[c l| |]] eqn:E.
  - destruct (strict_success text d' s' E) as [Hc' He]. rewrite Hc in Hc'. injection Hc' as <- <-. congruence.
  - exfalso. eapply H3; reflexivity.
  - eauto.
  - congruence.
  - congruence.
Qed.
