(* Proofs/Template.v -- lemmas about the template engine (property C07). *)
From Pybtex Require Import Base.Prelude Base.PyChar Base.PyStr Model.RtTypes Model.Template.

(* ------------------------------------------------------------------------------ *)
(* an induction principle that goes through the child lists *)
Section tnode_induction.
  Variable P : tnode -> Prop.
  Hypothesis HLit : forall b f, P (TLit b f).
  Hypothesis HNone : P TNone.
  Hypothesis HJoin : forall s s2 ls cs, Forall P cs -> P (TJoin s s2 ls cs).
  Hypothesis HWords : forall s cs, Forall P cs -> P (TWords s cs).
  Hypothesis HTogether : forall lt cs, Forall P cs -> P (TTogether lt cs).
  Hypothesis HSentence : forall a b c s cs, Forall P cs -> P (TSentence a b c s cs).
  Hypothesis HField : forall n a r, P (TField n a r).
  Hypothesis HNames : forall r s s2 ls, P (TNames r s s2 ls).
  Hypothesis HOptional : forall cs, Forall P cs -> P (TOptional cs).
  Hypothesis HOptionalField : forall n a r, P (TOptionalField n a r).
  Hypothesis HTag : forall n cs, Forall P cs -> P (TTag n cs).
  Hypothesis HHRefS : forall u e cs, P u -> Forall P cs -> P (THRef (Some u) e cs).
  Hypothesis HHRefN : forall e cs, Forall P cs -> P (THRef None e cs).
  Hypothesis HFirstOf : forall cs, Forall P cs -> P (TFirstOf cs).
  Hypothesis HToplevel : forall cs, Forall P cs -> P (TToplevel cs).
  Hypothesis HNamePart : forall b t a cs, Forall P cs -> P (TNamePart b t a cs).
  Hypothesis HUnknown : P TUnknown.

  Fixpoint tnode_ind2 (t : tnode) : P t :=
    let all := fix all (l : list tnode) : Forall P l :=
      match l with [] => Forall_nil P | x :: r => Forall_cons x (tnode_ind2 x) (all r) end in
    match t with
    | TLit b f => HLit b f
    | TNone => HNone
    | TJoin s s2 ls cs => HJoin s s2 ls cs (all cs)
    | TWords s cs => HWords s cs (all cs)
    | TTogether lt cs => HTogether lt cs (all cs)
    | TSentence a b c s cs => HSentence a b c s cs (all cs)
    | TField n a r => HField n a r
    | TNames r s s2 ls => HNames r s s2 ls
    | TOptional cs => HOptional cs (all cs)
    | TOptionalField n a r => HOptionalField n a r
    | TTag n cs => HTag n cs (all cs)
    | THRef (Some u) e cs => HHRefS u e cs (tnode_ind2 u) (all cs)
    | THRef None e cs => HHRefN e cs (all cs)
    | TFirstOf cs => HFirstOf cs (all cs)
    | TToplevel cs => HToplevel cs (all cs)
    | TNamePart b t a cs => HNamePart b t a cs (all cs)
    | TUnknown => HUnknown
    end.
End tnode_induction.

(* ------------------------------------------------------------------------------ *)
(* the local loops of `eval`, named *)
Definition evals (c : ctx) (l : list tnode) : tres (list tval) := tmapM (eval c) l.
Fixpoint first_eval (c : ctx) (l : list tnode) : tres tval :=
  match l with
  | [] => TOk (VT [])
  | x :: r => dot v <- eval c x; if truthy v then TOk v else first_eval c r
  end.
Definition text_of (c : ctx) (l : list tnode) : tres ftext :=
  dot vs <- evals c l; dot fs <- tmapM ensure_text vs; TOk (concat fs).
Fixpoint abbr_children (before : ftext) (tie : bool) (l : list tnode) (acc : list tval) : tres tval :=
  match l with
  | [] => TOk (VT (name_part_vals before tie (rev acc)))
  | TLit false f :: r => abbr_children before tie r (VT (f_abbreviate f) :: acc)
  | _ => TCrash
  end.

Lemma evs_fix c l :
  (fix evs (l : list tnode) : tres (list tval) :=
     match l with
     | [] => TOk []
     | x :: r => dot v <- eval c x; dot vs <- evs r; TOk (v :: vs)
     end) l = evals c l.
Proof. induction l as [|x r IH]; [reflexivity|]. unfold evals; cbn [tmapM]. fold (evals c r). now rewrite <- IH. Qed.

Lemma first_fix c l :
  (fix first (l : list tnode) : tres tval :=
     match l with
     | [] => TOk (VT [])
     | x :: r => dot v <- eval c x; if truthy v then TOk v else first r
     end) l = first_eval c l.
Proof. induction l as [|x r IH]; [reflexivity|]. cbn [first_eval]. now rewrite <- IH. Qed.

Lemma abbr_fix before tie l acc :
  (fix ab (l : list tnode) (acc : list tval) : tres tval :=
     match l with
     | [] => TOk (VT (name_part_vals before tie (rev acc)))
     | TLit false f :: r => ab r (VT (f_abbreviate f) :: acc)
     | _ => TCrash
     end) l acc = abbr_children before tie l acc.
Proof.
  revert acc; induction l as [|x r IH]; intros acc; [reflexivity|].
  destruct x; try reflexivity. destruct is_str; [reflexivity|]. cbn [abbr_children]. now rewrite <- IH.
Qed.

(* the defining equations of eval, one per node kind *)
Lemma eval_join c s s2 ls cs : eval c (TJoin s s2 ls cs) = dot vs <- evals c cs; TOk (VT (join_vals s s2 ls vs)).
Proof. cbn [eval]. now rewrite evs_fix. Qed.
Lemma eval_words c s cs : eval c (TWords s cs) = dot vs <- evals c cs; TOk (VT (join_vals s None None vs)).
Proof. cbn [eval]. now rewrite evs_fix. Qed.
Lemma eval_together c lt cs : eval c (TTogether lt cs) = dot vs <- evals c cs; TOk (VT (together_vals lt vs)).
Proof. cbn [eval]. now rewrite evs_fix. Qed.
Lemma eval_sentence c a b p s cs : eval c (TSentence a b p s cs) = dot vs <- evals c cs; TOk (VT (sentence_vals a b p s vs)).
Proof. cbn [eval]. now rewrite evs_fix. Qed.
Lemma eval_toplevel c cs :
  eval c (TToplevel cs) = dot vs <- evals c cs; TOk (VT (join_vals (sym [110; 101; 119; 98; 108; 111; 99; 107]%N) None None vs)).
Proof. cbn [eval]. now rewrite evs_fix. Qed.
Lemma eval_optional c cs : eval c (TOptional cs) = catch_missing (dot f <- text_of c cs; TOk (VT f)).
Proof. cbn [eval]. unfold text_of. now rewrite evs_fix. Qed.
Lemma eval_tag c n cs : eval c (TTag n cs) = dot f <- text_of c cs; TOk (VT (push_m (MTag n) f)).
Proof. cbn [eval]. unfold text_of. now rewrite evs_fix. Qed.
Lemma eval_firstof c cs : eval c (TFirstOf cs) = first_eval c cs.
Proof. cbn [eval]. now rewrite first_fix. Qed.
Lemma eval_href_some c u e cs :
  eval c (THRef (Some u) e cs) =
  dot uv <- eval c u;
  match uv with
  | VNone => TCrash
  | VT uf => dot f <- text_of c cs; TOk (VT (push_m (MHRef (fstr uf) e) f))
  end.
Proof. cbn [eval]. unfold text_of. now rewrite evs_fix. Qed.
Lemma eval_href_none c e cs :
  eval c (THRef None e cs) =
  dot vs <- evals c cs;
  match vs with
  | [] => TCrash
  | VNone :: _ => TCrash
  | VT uf :: rest => dot fs <- tmapM ensure_text rest; TOk (VT (push_m (MHRef (fstr uf) e) (concat fs)))
  end.
Proof. cbn [eval]. now rewrite evs_fix. Qed.
Lemma eval_namepart c b t a cs :
  eval c (TNamePart b t a cs) =
  if a then abbr_children b t cs [] else dot vs <- evals c cs; TOk (VT (name_part_vals b t vs)).
Proof. cbn [eval]. destruct a; [now rewrite abbr_fix | now rewrite evs_fix]. Qed.

(* ------------------------------------------------------------------------------ *)
(* generic facts *)
Lemma tbind_ok {A B} (r : tres A) (f : A -> tres B) b :
  tbind r f = TOk b -> exists a, r = TOk a /\ f a = TOk b.
Proof. destruct r; cbn; try discriminate. eauto. Qed.

Lemma tmapM_ok {X Y} (f : X -> tres Y) l ys :
  tmapM f l = TOk ys -> Forall2 (fun x y => f x = TOk y) l ys.
Proof.
  revert ys; induction l as [|x r IH]; cbn; intros ys H.
  - inversion H; constructor.
  - apply tbind_ok in H as (y & Hy & H). apply tbind_ok in H as (ys' & Hys & H). inversion H; subst.
    constructor; auto.
Qed.

Lemma rev_nonempty_last {X} (l : list X) : l <> [] -> exists x r, rev l = x :: r.
Proof. intros H. destruct (rev l) eqn:E; [|eauto]. apply (f_equal (@rev X)) in E. rewrite rev_involutive in E. now subst. Qed.

(* ------------------------------------------------------------------------------ *)
(* sentences end with a terminator *)
Definition terminated (f : ftext) : Prop := ends_term f = true.

Lemma ends_term_app_dot f : ends_term (f ++ [dot_pair]) = true.
Proof. unfold ends_term. rewrite rev_app_distr. reflexivity. Qed.

Lemma add_period_terminated f : f <> [] -> terminated (f_add_period f).
Proof.
  intros H. unfold f_add_period, terminated. destruct f as [|p r]; [congruence|]. cbn [is_nil negb andb].
  destruct (ends_term (p :: r)) eqn:E; cbn [negb]; [exact E | apply ends_term_app_dot].
Qed.

Lemma add_period_nil f : f_add_period f = [] -> f = [].
Proof.
  unfold f_add_period. destruct f as [|p r]; [reflexivity|]. cbn [is_nil negb andb].
  destruct (negb (ends_term (p :: r))); [|discriminate]. destruct r; discriminate.
Qed.

Lemma sentence_vals_terminated cf cp sep vs :
  sentence_vals cf cp true sep vs <> [] -> terminated (sentence_vals cf cp true sep vs).
Proof.
  unfold sentence_vals. intros H. apply add_period_terminated. intros E. apply H. now rewrite E.
Qed.

Lemma sentence_terminated_lemma c cf cp sep cs v :
  eval c (TSentence cf cp true sep cs) = TOk v -> vflat v <> [] -> terminated (vflat v).
Proof.
  rewrite eval_sentence. intros H. apply tbind_ok in H as (vs & _ & H). inversion H; subst. cbn [vflat].
  apply sentence_vals_terminated.
Qed.

(* the only characters an added period can follow: the text did not already end with one *)
Lemma add_period_spec f :
  f_add_period f = f \/ (f_add_period f = f ++ [dot_pair] /\ ends_term f = false /\ f <> []).
Proof.
  unfold f_add_period. destruct f as [|p r]; [now left|]. cbn [is_nil negb andb].
  destruct (ends_term (p :: r)) eqn:E; cbn [negb]; [now left|]. right. repeat split; congruence.
Qed.

(* ------------------------------------------------------------------------------ *)
(* brace-protected text keeps its case *)
Definition prot_sub (f : ftext) : ftext := filter protected f.

Lemma conv_pair_protected up p : protected p = true -> conv_pair up p = p.
Proof. unfold conv_pair. now intros ->. Qed.
Lemma conv_pair_keeps_prot up p : protected (conv_pair up p) = protected p.
Proof.
  unfold conv_pair. destruct (protected p) eqn:E; [exact E|]. destruct p as [[ch|n] ms]; cbn in *; exact E.
Qed.

Lemma map_conv_prot up f : prot_sub (map (conv_pair up) f) = prot_sub f.
Proof.
  unfold prot_sub. induction f as [|p r IH]; [reflexivity|]. cbn [map filter].
  rewrite conv_pair_keeps_prot. destruct (protected p) eqn:E; [|exact IH].
  rewrite conv_pair_protected by exact E. now rewrite IH.
Qed.
Lemma capfirst_prot f : prot_sub (f_capfirst f) = prot_sub f.
Proof.
  destruct f as [|p r]; [reflexivity|]. unfold f_capfirst, prot_sub. cbn [filter].
  rewrite conv_pair_keeps_prot. destruct (protected p) eqn:E; [|reflexivity]. now rewrite conv_pair_protected.
Qed.
Lemma capitalize_prot f : prot_sub (f_capitalize f) = prot_sub f.
Proof.
  destruct f as [|p r]; [reflexivity|]. unfold f_capitalize, prot_sub. cbn [filter].
  rewrite conv_pair_keeps_prot. fold (prot_sub (f_lower r)). unfold f_lower. rewrite map_conv_prot.
  destruct (protected p) eqn:E; [|reflexivity]. now rewrite conv_pair_protected.
Qed.
Lemma dashify_prot f b : prot_sub (dashify_go f b) = prot_sub f.
Proof.
  revert b; induction f as [|p r IH]; intros b; [reflexivity|]. cbn [dashify_go].
  destruct (is_dash p) eqn:D.
  - assert (Hp : protected p = false).
    { unfold is_dash in D. destruct (fst p); [|discriminate]. apply andb_prop in D as [_ D]. now destruct (protected p). }
    unfold prot_sub in *. cbn [filter]. rewrite Hp. destruct b; cbn [filter]; rewrite ?IH; reflexivity.
  - unfold prot_sub in *. cbn [filter]. rewrite IH. reflexivity.
Qed.

(* every case / dash transformation the styles apply leaves the protected characters alone *)
Lemma apply_afunc_protected a f g : apply_afunc a f = TOk g -> prot_sub g = prot_sub f.
Proof.
  destruct a; cbn; intros H; inversion H; subst; clear H.
  - reflexivity.
  - apply map_conv_prot.
  - apply map_conv_prot.
  - apply capitalize_prot.
  - apply capfirst_prot.
  - apply dashify_prot.
Qed.

Lemma prot_sub_app a b : prot_sub (a ++ b) = prot_sub a ++ prot_sub b.
Proof. apply filter_app. Qed.

Lemma add_period_prot f : prot_sub (f_add_period f) = prot_sub f.
Proof.
  destruct (add_period_spec f) as [-> | (-> & _ & _)]; [reflexivity|].
  rewrite prot_sub_app. cbn. now rewrite app_nil_r.
Qed.

Lemma sentence_vals_protected cf cp ap sep vs :
  prot_sub (sentence_vals cf cp ap sep vs) = prot_sub (join_vals sep None None vs).
Proof.
  unfold sentence_vals.
  set (t0 := join_vals sep None None vs).
  assert (H1 : prot_sub (if cf then f_capfirst t0 else t0) = prot_sub t0) by (destruct cf; [apply capfirst_prot|reflexivity]).
  set (t1 := if cf then f_capfirst t0 else t0) in *.
  assert (H2 : prot_sub (if cp then f_capitalize t1 else t1) = prot_sub t0) by (destruct cp; [now rewrite capitalize_prot|exact H1]).
  set (t2 := if cp then f_capitalize t1 else t1) in *.
  destruct ap; [now rewrite add_period_prot|exact H2].
Qed.

(* what the LaTeX parser marks as protected is exactly what stands inside braces *)
Lemma parse_latex_protected s level f :
  parse_latex s level = TOk f -> level <> 0 -> Forall (fun p => protected p = true) f \/ exists s1 s2, s = s1 ++ c_rbrace :: s2.
Proof.
  revert level f; induction s as [|ch t IH]; intros level f H Hl; cbn [parse_latex] in H.
  - destruct level; [congruence|discriminate].
  - destruct (N.eqb ch c_lbrace) eqn:E1.
    + destruct (IH _ _ H ltac:(discriminate)) as [HF | (s1 & s2 & ->)]; [now left|].
      right. exists (ch :: s1), s2. reflexivity.
    + destruct (N.eqb ch c_rbrace) eqn:E2.
      * right. exists [], t. apply N.eqb_eq in E2. now subst.
      * apply tbind_ok in H as (r & Hr & H). inversion H; subst; clear H.
        destruct (IH _ _ Hr Hl) as [HF | (s1 & s2 & ->)].
        -- left. constructor; [|exact HF]. destruct level; [congruence|]. reflexivity.
        -- right. exists (ch :: s1), s2. reflexivity.
Qed.

(* ------------------------------------------------------------------------------ *)
(* a FieldIsMissing error names the entry being formatted and a field / role that is not defined *)
Definition field_undefined (c : ctx) (name : str) : Prop :=
  find_field (ff_fuel (c_db c)) (c_db c) (c_entry c) name [] = Some None.
Definition role_undefined (c : ctx) (role : str) : Prop := ci_get role (e_persons (c_entry c)) = None.

Lemma tmapM_missing {X Y} (f : X -> tres Y) l fl k :
  tmapM f l = TMissing fl k -> exists x, In x l /\ f x = TMissing fl k.
Proof.
  induction l as [|x r IH]; cbn; [discriminate|]. destruct (f x) eqn:E; cbn; try discriminate.
  - destruct (tmapM f r) eqn:E2; cbn; try discriminate. intros H; inversion H; subst.
    destruct (IH eq_refl) as (y & Hy & Hf). exists y; split; [now right|exact Hf].
  - intros H; inversion H; subst. exists x; split; [now left|exact E].
Qed.

Lemma from_latex_not_missing tbl s fl k : from_latex tbl s <> TMissing fl k.
Proof.
  unfold from_latex, decode. destruct (find _ tbl) as [[? [d|]]|]; cbn; try discriminate.
  - generalize 0 at 1. induction d as [|ch t IH]; intros lv; cbn [parse_latex]; [destruct lv; discriminate|].
    destruct (N.eqb ch c_lbrace); [apply IH|]. destruct (N.eqb ch c_rbrace); [destruct lv; [discriminate|apply IH]|].
    specialize (IH lv). destruct (parse_latex t lv); cbn; congruence.
  - generalize 0 at 1. induction s as [|ch t IH]; intros lv; cbn [parse_latex]; [destruct lv; discriminate|].
    destruct (N.eqb ch c_lbrace); [apply IH|]. destruct (N.eqb ch c_rbrace); [destruct lv; [discriminate|apply IH]|].
    specialize (IH lv). destruct (parse_latex t lv); cbn; congruence.
Qed.

Lemma eval_field_missing c name a raw fl k :
  eval_field c name a raw = TMissing fl k -> fl = name /\ k = e_key (c_entry c) /\ field_undefined c name.
Proof.
  unfold eval_field, field_undefined. destruct (find_field _ _ _ _ _) as [[v|]|]; try discriminate.
  - intros H. exfalso. destruct raw.
    + cbn in H. destruct a; discriminate.
    + destruct (from_latex (c_dec c) v) eqn:E; cbn in H; try discriminate.
      * destruct a; cbn in H; discriminate.
      * eapply from_latex_not_missing; eauto.
  - intros H; inversion H; subst. auto.
Qed.

Lemma tbind_missing {A B} (r : tres A) (f : A -> tres B) fl k :
  tbind r f = TMissing fl k -> r = TMissing fl k \/ exists a, r = TOk a /\ f a = TMissing fl k.
Proof. destruct r; cbn; try discriminate; [right; eauto | intros H; left; now inversion H]. Qed.

Lemma format_name_not_missing tbl ns ab p fl k : format_name tbl ns ab p <> TMissing fl k.
Proof.
  assert (R : forall l, rich_names tbl l <> TMissing fl k).
  { intros l H. apply tmapM_missing in H as (x & _ & H). eapply from_latex_not_missing; eauto. }
  unfold format_name. intros H. destruct ns;
  repeat (apply tbind_missing in H as [H | (? & _ & H)]; [now apply R in H|]); discriminate.
Qed.

Lemma eval_names_missing c role s s2 ls fl k :
  eval_names c role s s2 ls = TMissing fl k -> fl = role /\ k = e_key (c_entry c) /\ role_undefined c role.
Proof.
  unfold eval_names, role_undefined. destruct (ci_get role _) as [ps|]; [|intros H; inversion H; auto].
  destruct (tmapM _ ps) eqn:E; cbn; try discriminate.
  intros H; inversion H; subst. apply tmapM_missing in E as (x & _ & E). now apply format_name_not_missing in E.
Qed.

Definition missing_ok (c : ctx) (fl k : str) : Prop :=
  k = e_key (c_entry c) /\ (field_undefined c fl \/ role_undefined c fl).

Lemma ensure_text_not_missing l fl k : tmapM ensure_text l <> TMissing fl k.
Proof. intros H. apply tmapM_missing in H as (x & _ & H). destruct x; discriminate. Qed.

Lemma evals_missing c cs fl k :
  Forall (fun t => forall fl k, eval c t = TMissing fl k -> missing_ok c fl k) cs ->
  evals c cs = TMissing fl k -> missing_ok c fl k.
Proof.
  intros HF H. apply tmapM_missing in H as (x & Hx & H). rewrite Forall_forall in HF. eauto.
Qed.

Lemma text_of_missing c cs fl k :
  Forall (fun t => forall fl k, eval c t = TMissing fl k -> missing_ok c fl k) cs ->
  text_of c cs = TMissing fl k -> missing_ok c fl k.
Proof.
  intros HF. unfold text_of. destruct (evals c cs) eqn:E; cbn; try discriminate.
  - destruct (tmapM ensure_text a) eqn:E2; cbn; try discriminate. intros H; inversion H; subst.
    now apply ensure_text_not_missing in E2.
  - intros H; inversion H; subst. eapply evals_missing; eauto.
Qed.

Lemma abbr_children_not_missing b t l acc fl k : abbr_children b t l acc <> TMissing fl k.
Proof.
  revert acc; induction l as [|x r IH]; intros acc; cbn; [discriminate|].
  destruct x; try discriminate. destruct is_str; [discriminate|apply IH].
Qed.

Lemma eval_missing_sound_lemma c t : forall fl k, eval c t = TMissing fl k -> missing_ok c fl k.
Proof.
  induction t using tnode_ind2; intros fl k.
  - discriminate.
  - discriminate.
  - rewrite eval_join. destruct (evals c cs) eqn:E; cbn; try discriminate. intros H'; inversion H'; subst. eapply evals_missing; eauto.
  - rewrite eval_words. destruct (evals c cs) eqn:E; cbn; try discriminate. intros H'; inversion H'; subst. eapply evals_missing; eauto.
  - rewrite eval_together. destruct (evals c cs) eqn:E; cbn; try discriminate. intros H'; inversion H'; subst. eapply evals_missing; eauto.
  - rewrite eval_sentence. destruct (evals c cs) eqn:E; cbn; try discriminate. intros H'; inversion H'; subst. eapply evals_missing; eauto.
  - cbn [eval]. intros H. apply eval_field_missing in H as (-> & -> & H). split; auto.
  - cbn [eval]. intros H. apply eval_names_missing in H as (-> & -> & H). split; auto.
  - rewrite eval_optional. destruct (text_of c cs); cbn; discriminate.
  - cbn [eval]. destruct (eval_field c n a r) as [[f|]| | | |]; cbn; discriminate.
  - rewrite eval_tag. destruct (text_of c cs) eqn:E; cbn; try discriminate. intros H'; inversion H'; subst. eapply text_of_missing; eauto.
  - rewrite eval_href_some. destruct (eval c t) eqn:E; cbn; try discriminate.
    + destruct a; [|discriminate]. destruct (text_of c cs) eqn:E2; cbn; try discriminate.
      intros H'; inversion H'; subst. eapply text_of_missing; eauto.
    + intros H'; inversion H'; subst. eauto.
  - rewrite eval_href_none. destruct (evals c cs) eqn:E; cbn; try discriminate.
    + destruct a as [|[uf|] rest]; try discriminate. destruct (tmapM ensure_text rest) eqn:E2; cbn; try discriminate.
      intros H'; inversion H'; subst. now apply ensure_text_not_missing in E2.
    + intros H'; inversion H'; subst. eapply evals_missing; eauto.
  - rewrite eval_firstof. induction H as [|x r Hx Hr IH]; cbn [first_eval]; [discriminate|].
    destruct (eval c x) eqn:E; cbn; try discriminate.
    + destruct (truthy a); [discriminate|exact IH].
    + intros H'; inversion H'; subst. eauto.
  - rewrite eval_toplevel. destruct (evals c cs) eqn:E; cbn; try discriminate. intros H'; inversion H'; subst. eapply evals_missing; eauto.
  - rewrite eval_namepart. destruct a.
    + intros H'. now apply abbr_children_not_missing in H'.
    + destruct (evals c cs) eqn:E; cbn; try discriminate. intros H'; inversion H'; subst. eapply evals_missing; eauto.
  - discriminate.
Qed.

(* ------------------------------------------------------------------------------ *)
(* a required leaf (not under `optional`, not in a later alternative of first_of) whose field is
   undefined makes the evaluation fail *)
Inductive required : tnode -> str -> Prop :=
| RqField n a r : required (TField n a r) n
| RqNames role s s2 ls : required (TNames role s s2 ls) role
| RqJoin s s2 ls cs t n : In t cs -> required t n -> required (TJoin s s2 ls cs) n
| RqWords s cs t n : In t cs -> required t n -> required (TWords s cs) n
| RqTogether lt cs t n : In t cs -> required t n -> required (TTogether lt cs) n
| RqSentence a b p s cs t n : In t cs -> required t n -> required (TSentence a b p s cs) n
| RqTag nm cs t n : In t cs -> required t n -> required (TTag nm cs) n
| RqHRefUrl u e cs n : required u n -> required (THRef (Some u) e cs) n
| RqHRef u e cs t n : In t cs -> required t n -> required (THRef u e cs) n
| RqFirstOf t cs n : required t n -> required (TFirstOf (t :: cs)) n
| RqToplevel cs t n : In t cs -> required t n -> required (TToplevel cs) n
| RqNamePart b ti cs t n : In t cs -> required t n -> required (TNamePart b ti false cs) n.

Definition undefined (c : ctx) (n : str) : Prop := field_undefined c n /\ role_undefined c n.

Lemma evals_ok_each c cs vs t : evals c cs = TOk vs -> In t cs -> exists v, eval c t = TOk v.
Proof.
  intros H Hin. apply tmapM_ok in H. induction H as [|x y l l' Hxy HF IH]; [contradiction|].
  destruct Hin as [->|Hin]; eauto.
Qed.

Lemma text_of_ok_each c cs f t : text_of c cs = TOk f -> In t cs -> exists v, eval c t = TOk v.
Proof.
  unfold text_of. intros H Hin. apply tbind_ok in H as (vs & Hvs & _). eapply evals_ok_each; eauto.
Qed.

Lemma required_missing_lemma c t n : required t n -> undefined c n -> forall v, eval c t <> TOk v.
Proof.
  intros R [Hf Hr]. induction R; intros v Hv.
  - cbn [eval] in Hv. unfold eval_field in Hv. red in Hf. rewrite Hf in Hv. discriminate.
  - cbn [eval] in Hv. unfold eval_names in Hv. red in Hr. rewrite Hr in Hv. discriminate.
  - rewrite eval_join in Hv. apply tbind_ok in Hv as (vs & Hvs & _). destruct (evals_ok_each _ _ _ _ Hvs H) as (w & Hw). eapply IHR; eauto.
  - rewrite eval_words in Hv. apply tbind_ok in Hv as (vs & Hvs & _). destruct (evals_ok_each _ _ _ _ Hvs H) as (w & Hw). eapply IHR; eauto.
  - rewrite eval_together in Hv. apply tbind_ok in Hv as (vs & Hvs & _). destruct (evals_ok_each _ _ _ _ Hvs H) as (w & Hw). eapply IHR; eauto.
  - rewrite eval_sentence in Hv. apply tbind_ok in Hv as (vs & Hvs & _). destruct (evals_ok_each _ _ _ _ Hvs H) as (w & Hw). eapply IHR; eauto.
  - rewrite eval_tag in Hv. apply tbind_ok in Hv as (ft & Hft & _). destruct (text_of_ok_each _ _ _ _ Hft H) as (w & Hw). eapply IHR; eauto.
  - rewrite eval_href_some in Hv. apply tbind_ok in Hv as (uv & Huv & _). eapply IHR; eauto.
  - destruct u as [u|].
    + rewrite eval_href_some in Hv. apply tbind_ok in Hv as (uv & Huv & Hv). destruct uv; [|discriminate].
      apply tbind_ok in Hv as (ft & Hft & _). destruct (text_of_ok_each _ _ _ _ Hft H) as (w & Hw). eapply IHR; eauto.
    + rewrite eval_href_none in Hv. apply tbind_ok in Hv as (vs & Hvs & _). destruct (evals_ok_each _ _ _ _ Hvs H) as (w & Hw). eapply IHR; eauto.
  - rewrite eval_firstof in Hv. cbn [first_eval] in Hv. apply tbind_ok in Hv as (w & Hw & _). eapply IHR; eauto.
  - rewrite eval_toplevel in Hv. apply tbind_ok in Hv as (vs & Hvs & _). destruct (evals_ok_each _ _ _ _ Hvs H) as (w & Hw). eapply IHR; eauto.
  - rewrite eval_namepart in Hv. apply tbind_ok in Hv as (vs & Hvs & _). destruct (evals_ok_each _ _ _ _ Hvs H) as (w & Hw). eapply IHR; eauto.
Qed.
