(* Proofs/WritersChain.v -- conversion chains through the two tree formats (C02). *)
From Pybtex Require Import Base.Prelude Base.PyChar Base.PyStr Model.BibtexStr Model.Names Model.Scanner Model.BibParser Model.Writers
  Proofs.WritersDict Proofs.WritersTree.
Local Open Scope N_scope.

(* the common domain of the YAML and BibTeXML glue theorems *)
Definition tree_ok (d : wdb) : Prop := wf_db d /\ yaml_ok d /\ xml_ok d.

(* what one write/read does to a database of the domain: nothing, except that the preamble becomes one text
   (YAML) or is not carried (BibTeXML) *)
Definition step (f : fmt) (d : wdb) : wdb := match f with FXml => drop_preamble d | _ => norm_preamble d end.
Fixpoint expect_rest (fs : list fmt) (pc : bool) (d : wdb) : wdb :=
  match fs with
  | [] => d
  | f :: r => expect_rest r pc (step f (if pc then d else map_ids lower d))
  end.
Definition expect (fs : list fmt) (pc : bool) (d : wdb) : wdb :=
  match fs with [] => d | f :: r => expect_rest r pc (step f d) end.

Lemma write_read_tree enc f d : f <> FBib -> tree_ok d -> write_read enc f d = Ok (step f d).
Proof.
  intros Hf (W & Y & X). destruct f; [congruence| |]; cbn [write_read step].
  - now apply xml_glue_roundtrip_pf.
  - now apply yaml_glue_roundtrip_pf.
Qed.

Lemma tree_ok_step f d : tree_ok d -> tree_ok (step f d).
Proof. intros (W & Y & X). destruct f; (split; [|split]); assumption. Qed.

Lemma tree_ok_lower d : tree_ok d -> tree_ok (map_ids lower d).
Proof.
  intros (W & Y & X). split; [now apply map_ids_lower_wf|]. split.
  - unfold yaml_ok in *. cbn [map_ids wd_entries]. rewrite Forall_map. eapply Forall_impl; [|exact Y].
    intros e (Yf & Yp). split; cbn [map_ids_entry we_fields we_persons]; rewrite Forall_map.
    + eapply Forall_impl; [|exact Yf]. intros [k v]; cbn [fst snd]. now rewrite lower_idem.
    + eapply Forall_impl; [|exact Yp]. intros [k v]; cbn [fst snd]. now rewrite lower_idem.
  - unfold xml_ok, yaml_ok in *. cbn [map_ids wd_entries]. rewrite Forall_map. eapply Forall_impl; [|exact Y].
    intros e (Yf & Yp). split; cbn [map_ids_entry we_fields we_persons]; rewrite Forall_map.
    + eapply Forall_impl; [|exact Yf]. intros [k v]; cbn [fst snd]. tauto.
    + eapply Forall_impl; [|exact Yp]. intros [k v]; cbn [fst snd]. tauto.
Qed.

Lemma chain_rest_trees enc pc : forall fs d, Forall (fun f => f <> FBib) fs -> tree_ok d ->
  chain_rest enc fs pc d = Ok (expect_rest fs pc d).
Proof.
  induction fs as [|f r IH]; intros d Hfs Hd; [reflexivity|].
  inversion Hfs; subst. cbn [chain_rest expect_rest].
  destruct pc.
  - cbn [bind]. rewrite write_read_tree by assumption. cbn [bind]. apply IH; [assumption|now apply tree_ok_step].
  - destruct Hd as (W & Y & X). rewrite lower_only_case_pf by exact W. cbn [bind].
    assert (T : tree_ok (map_ids lower d)) by (apply tree_ok_lower; split; [exact W|split; [exact Y|exact X]]).
    rewrite write_read_tree by assumption. cbn [bind]. apply IH; [assumption|now apply tree_ok_step].
Qed.

Lemma chain_roundtrip_trees_pf enc fs pc d : Forall (fun f => f <> FBib) fs -> tree_ok d ->
  chain enc fs pc d = Ok (expect fs pc d).
Proof.
  intros Hfs Hd. destruct fs as [|f r]; [reflexivity|]. inversion Hfs; subst. cbn [chain expect].
  rewrite write_read_tree by assumption. cbn [bind]. apply chain_rest_trees; [assumption|now apply tree_ok_step].
Qed.

(* ... and what [expect] is: the entries are untouched (preserve_case) / lower-cased in their identifiers *)
Lemma step_entries f d : wd_entries (step f d) = wd_entries d.
Proof. now destruct f. Qed.

Lemma expect_entries_preserve fs d : wd_entries (expect fs true d) = wd_entries d.
Proof.
  destruct fs as [|f r]; [reflexivity|]. cbn [expect].
  rewrite <- (step_entries f d). generalize (step f d). clear.
  induction r as [|g r IH]; intros d; [reflexivity|]. cbn [expect_rest]. rewrite IH. apply step_entries.
Qed.

Lemma expect_rest_entries_lower : forall r d, r <> [] ->
  wd_entries (expect_rest r false d) = wd_entries (map_ids lower d).
Proof.
  induction r as [|f r IH]; intros d Hne; [congruence|]. cbn [expect_rest].
  destruct r as [|g r'].
  - cbn [expect_rest]. apply step_entries.
  - rewrite IH by discriminate. cbn [map_ids wd_entries]. rewrite step_entries.
    change (map (map_ids_entry lower) (wd_entries (map_ids lower d))) with (wd_entries (map_ids lower (map_ids lower d))).
    now rewrite map_ids_lower_idem.
Qed.

Lemma expect_entries_lower f g r d : wd_entries (expect (f :: g :: r) false d) = wd_entries (map_ids lower d).
Proof.
  cbn [expect]. rewrite expect_rest_entries_lower by discriminate.
  cbn [map_ids wd_entries]. now rewrite step_entries.
Qed.
