(* Proofs/WritersChain.v -- conversion chains through the two tree formats (C02). *)
From Pybtex Require Import Base.Prelude Base.PyChar Base.PyStr Model.BibtexStr Model.Names Model.Scanner Model.BibParser Model.Writers
  Proofs.Writers Proofs.WritersDict Proofs.WritersTree.
Local Open Scope N_scope.

(* the common domain of the YAML and BibTeXML glue theorems *)
Definition tree_ok (d : wdb) : Prop := wf_db d /\ yaml_ok d /\ xml_ok d.

(* what one write/read does to a database of the domain: nothing, except that the preamble becomes one text
   (YAML) or is not carried (BibTeXML) *)
Definition step (f : fmt) (d : wdb) : wdb := match f with FXml => drop_preamble d | _ => norm_preamble d end.
Fixpoint expect_rest (fs : list fmt) (pc : bool) (d : wdb) : wdb :=
  match fs with
  | [] => d
  | f :: r => expect_rest r pc (step f (if pc then d else map_ids lower d))
  end.
Definition expect (fs : list fmt) (pc : bool) (d : wdb) : wdb :=
  match fs with [] => d | f :: r => expect_rest r pc (step f d) end.

Lemma write_read_tree enc f d : f <> FBib -> tree_ok d -> write_read enc f d = Ok (step f d).
Proof.
  intros Hf (W & Y & X). destruct f; [congruence| |]; cbn [write_read step].
  - now apply xml_glue_roundtrip_pf.
  - now apply yaml_glue_roundtrip_pf.
Qed.

Lemma tree_ok_step f d : tree_ok d -> tree_ok (step f d).
Proof. intros (W & Y & X). destruct f; (split; [|split]); assumption. Qed.

Lemma tree_ok_lower d : tree_ok d -> tree_ok (map_ids lower d).
Proof.
  intros (W & Y & X). split; [now apply map_ids_lower_wf|]. split.
  - unfold yaml_ok in *. cbn [map_ids wd_entries]. rewrite Forall_map. eapply Forall_impl; [|exact Y].
    intros e (Yf & Yp). split; cbn [map_ids_entry we_fields we_persons]; rewrite Forall_map.
    + eapply Forall_impl; [|exact Yf]. intros [k v]; cbn [fst snd]. now rewrite lower_idem.
    + eapply Forall_impl; [|exact Yp]. intros [k v]; cbn [fst snd]. now rewrite lower_idem.
  - unfold xml_ok, yaml_ok in *. cbn [map_ids wd_entries]. rewrite Forall_map. eapply Forall_impl; [|exact Y].
    intros e (Yf & Yp). split; cbn [map_ids_entry we_fields we_persons]; rewrite Forall_map.
    + eapply Forall_impl; [|exact Yf]. intros [k v]; cbn [fst snd]. rewrite lower_idem. tauto.
    + eapply Forall_impl; [|exact Yp]. intros [k v]; cbn [fst snd]. rewrite lower_idem. tauto.
Qed.

Lemma chain_rest_trees enc pc : forall fs d, Forall (fun f => f <> FBib) fs -> tree_ok d ->
  chain_rest enc fs pc d = Ok (expect_rest fs pc d).
Proof.
  induction fs as [|f r IH]; intros d Hfs Hd; [reflexivity|].
  inversion Hfs; subst. cbn [chain_rest expect_rest].
  destruct pc.
  - cbn [bind]. rewrite write_read_tree by assumption. cbn [bind]. apply IH; [assumption|now apply tree_ok_step].
  - destruct Hd as (W & Y & X). rewrite lower_only_case_pf by exact W. cbn [bind].
    assert (T : tree_ok (map_ids lower d)) by (apply tree_ok_lower; split; [exact W|split; [exact Y|exact X]]).
    rewrite write_read_tree by assumption. cbn [bind]. apply IH; [assumption|now apply tree_ok_step].
Qed.

Lemma chain_roundtrip_trees_pf enc fs pc d : Forall (fun f => f <> FBib) fs -> tree_ok d ->
  chain enc fs pc d = Ok (expect fs pc d).
Proof.
  intros Hfs Hd. destruct fs as [|f r]; [reflexivity|]. inversion Hfs; subst. cbn [chain expect].
  rewrite write_read_tree by assumption. cbn [bind]. apply chain_rest_trees; [assumption|now apply tree_ok_step].
Qed.

(* ... and what [expect] is: the entries are untouched (preserve_case) / lower-cased in their identifiers *)
Lemma step_entries f d : wd_entries (step f d) = wd_entries d.
Proof. now destruct f. Qed.

Lemma expect_entries_preserve fs d : wd_entries (expect fs true d) = wd_entries d.
Proof.
  destruct fs as [|f r]; [reflexivity|]. cbn [expect].
  rewrite <- (step_entries f d). generalize (step f d). clear.
  induction r as [|g r IH]; intros d; [reflexivity|]. cbn [expect_rest]. rewrite IH. apply step_entries.
Qed.

Lemma expect_rest_entries_lower : forall r d, r <> [] ->
  wd_entries (expect_rest r false d) = wd_entries (map_ids lower d).
Proof.
  induction r as [|f r IH]; intros d Hne; [congruence|]. cbn [expect_rest].
  destruct r as [|g r'].
  - cbn [expect_rest]. apply step_entries.
  - rewrite IH by discriminate. cbn [map_ids wd_entries]. rewrite step_entries.
    change (map (map_ids_entry lower) (wd_entries (map_ids lower d))) with (wd_entries (map_ids lower (map_ids lower d))).
    now rewrite map_ids_lower_idem.
Qed.

Lemma expect_entries_lower f g r d : wd_entries (expect (f :: g :: r) false d) = wd_entries (map_ids lower d).
Proof.
  cbn [expect]. rewrite expect_rest_entries_lower by discriminate.
  cbn [map_ids wd_entries]. now rewrite step_entries.
Qed.

(* ---- the same round trips with the serialisation library in between: [dump] / [load] are PyYAML's
   yaml.dump (with the writer's options) and yaml.load (with the reader's loader), resp. XMLGenerator and
   ElementTree.  The only thing assumed of them is stated as a hypothesis about the one tree at hand. *)
Section Library.
  Variable text : Type.
  Variable ydump : tree -> text.
  Variable yload : text -> res tree.
  Variable xdump : xml -> text.
  Variable xload : text -> res xml.

  Definition write_yaml (d : wdb) : text := ydump (to_tree_yaml d).
  Definition read_yaml (t : text) : res wdb := do tr <- yload t; from_tree_yaml tr.
  Definition write_xml (d : wdb) : text := xdump (to_tree_xml d).
  Definition read_xml (t : text) : res wdb := do tr <- xload t; from_tree_xml tr.

  Lemma yaml_roundtrip_pf d : wf_db d -> yaml_ok d ->
    yload (ydump (to_tree_yaml d)) = Ok (to_tree_yaml d) ->
    read_yaml (write_yaml d) = Ok (norm_preamble d).
  Proof. intros W Y L. unfold read_yaml, write_yaml. rewrite L. cbn [bind]. now apply yaml_glue_roundtrip_pf. Qed.

  Lemma xml_roundtrip_pf d : wf_db d -> xml_ok d ->
    xload (xdump (to_tree_xml d)) = Ok (to_tree_xml d) ->
    read_xml (write_xml d) = Ok (drop_preamble d).
  Proof. intros W X L. unfold read_xml, write_xml. rewrite L. cbn [bind]. now apply xml_glue_roundtrip_pf. Qed.

  (* if the library re-types a scalar (the leaf 007 dumped unquoted, loaded as a number and str()-ed to 7: the tree
     that comes back is the tree of another database) the hypothesis fails and the round trip with it:
     the glue returns that other database *)
  Lemma yaml_scalar_retyped_pf name v v' :
    yaml_ok (field_db name v') ->
    yload (ydump (to_tree_yaml (field_db name v))) = Ok (to_tree_yaml (field_db name v')) -> v <> v' ->
    read_yaml (write_yaml (field_db name v)) = Ok (field_db name v') /\ field_db name v' <> field_db name v.
  Proof.
    intros Y L Hne. split.
    - unfold read_yaml, write_yaml. rewrite L. cbn [bind].
      rewrite yaml_glue_roundtrip_pf; [reflexivity| |exact Y].
      split; cbn; [repeat constructor; auto|]. repeat constructor; cbn; auto.
    - intros E. apply Hne. unfold field_db in E. congruence.
  Qed.
End Library.
