(* Proofs/BstSound.v -- soundness of acceptance: whatever BstParser accepts IS a layout of the
   program it returns -- the tokens of that program, in order, each spelt in an allowed way,
   separated by whitespace only.  Contrapositive: every text that is not of this form (unbalanced
   braces, stray or broken tokens, unknown commands ...) is not accepted. *)
From Pybtex Require Import Base.Prelude Base.PyChar Base.PyStr Model.BstParser Spec.BstPrint
  Proofs.BstLex Proofs.BstRoundtrip Proofs.BstErrors Proofs.BstArity Proofs.BstTotal Proofs.BstLast.
Local Open Scope N_scope.

(* the spellings of a lexical token (an integer may have leading zeros or be written -0) *)
Definition is_int_text (v : str) : Prop :=
  exists sign ds, v = c_hash :: sign ++ ds /\ (sign = [] \/ sign = [c_hyphen]) /\ ds <> [] /\ forallb is_digit ds = true.
Inductive spells : str -> ltok -> Prop :=
| sp_name s : wf_name s -> spells s (LName s)
| sp_str s : forallb not_quote s = true -> spells (c_quote :: s ++ [c_quote]) (LStr s)
| sp_int v z : is_int_text v -> py_int (strip_hash v) = Ok z -> spells v (LInt z)
| sp_l : spells [c_lbrace] LL
| sp_r : spells [c_rbrace] LR.

(* layout_of ts s s': s is whitespace, a spelling of the first token of ts, whitespace, ... , a
   spelling of the last token of ts, followed by s' *)
Inductive layout_of : list ltok -> str -> str -> Prop :=
| lo_nil s : layout_of [] s s
| lo_cons g v t ts s s' : all_space g -> spells v t -> layout_of ts s s' -> layout_of (t :: ts) (g ++ v ++ s) s'.

Lemma lo_app a b s s1 s2 : layout_of a s s1 -> layout_of b s1 s2 -> layout_of (a ++ b) s s2.
Proof. induction 1; intros Hb; cbn [app]; [exact Hb|]. constructor; auto. Qed.

Lemma all_space_app a b : all_space a -> all_space b -> all_space (a ++ b).
Proof. unfold all_space. rewrite forallb_app. intros -> ->. reflexivity. Qed.

Lemma lo_prepend g1 ts s sf : all_space g1 -> layout_of ts s sf -> all_space sf ->
  exists sf', layout_of ts (g1 ++ s) sf' /\ all_space sf'.
Proof.
  intros Hg H Hsf. destruct H as [s|g v t ts s s' Hg2 Hv Hrest].
  - exists (g1 ++ s). split; [constructor|now apply all_space_app].
  - exists s'. split; [|exact Hsf]. rewrite app_assoc. constructor; [now apply all_space_app|exact Hv|exact Hrest].
Qed.

(* ---- what a token returned by the scanner looks like *)
Lemma get_token_shape ps ae s ln p v s' ln' : get_token ps ae s ln = Ok (Some (p, v), (s', ln')) ->
  exists g, s = g ++ v ++ s' /\ all_space g /\ match_pat p (v ++ s') = Some (v, s').
Proof.
  unfold get_token, eat_whitespace.
  destruct (span is_space s) as [g r] eqn:E. destruct (span_decomp _ _ _ _ E) as (-> & Hg & _).
  destruct r as [|x r']; [destruct ae; discriminate|].
  destruct (first_match ps (x :: r')) as [[[p0 v0] r'']|] eqn:Ef; [|discriminate].
  intros H. injection H as <- <- <- _.
  apply first_match_inv in Ef. destruct (match_pat_inv _ _ _ _ Ef) as (Heq & _ & _).
  exists g. rewrite <- Heq. auto.
Qed.
Lemma get_token_none ps ae s ln s' ln' : get_token ps ae s ln = Ok (None, (s', ln')) ->
  exists g, s = g ++ s' /\ all_space g.
Proof.
  unfold get_token, eat_whitespace.
  destruct (span is_space s) as [g r] eqn:E. destruct (span_decomp _ _ _ _ E) as (-> & Hg & _).
  destruct r as [|x r']; [destruct ae; discriminate|].
  destruct (first_match ps (x :: r')) as [[[p0 v0] r'']|] eqn:Ef; [discriminate|].
  intros H. injection H as <- _. exists g. auto.
Qed.
Lemma get_token_eof ps s ln l : get_token ps true s ln = PyErr cls_eof l -> all_space s.
Proof.
  unfold get_token, eat_whitespace.
  destruct (span is_space s) as [g r] eqn:E. destruct (span_decomp _ _ _ _ E) as (-> & Hg & _).
  destruct r as [|x r']; [intros _; now rewrite app_nil_r|].
  destruct (first_match ps (x :: r')) as [[[p0 v0] r'']|]; discriminate.
Qed.

Lemma required_shape ps ae s ln p v s' ln' : required ps ae s ln = Ok ((p, v), (s', ln')) ->
  exists g, s = g ++ v ++ s' /\ all_space g /\ match_pat p (v ++ s') = Some (v, s').
Proof.
  unfold required. destruct (get_token ps ae s ln) as [[o [s1 ln1]]|c l| |] eqn:E; cbn [bind fst snd]; try discriminate.
  destruct o as [[p0 v0]|]; [|discriminate]. intros H. injection H as <- <- <- <-.
  eapply get_token_shape; exact E.
Qed.

Lemma match_string_shape s v s' : match_pat P_STRING s = Some (v, s') ->
  exists body, v = c_quote :: body ++ [c_quote] /\ forallb not_quote body = true.
Proof.
  cbn [match_pat]. destruct s as [|c t]; [discriminate|]. destruct (c =? c_quote) eqn:Ec; [|discriminate].
  apply N.eqb_eq in Ec. subst c.
  destruct (span not_quote t) as [body r] eqn:E. destruct r as [|q r']; [discriminate|].
  intros H. injection H as <- <-. destruct (span_decomp _ _ _ _ E) as (_ & Hb & Hq).
  cbn [stops] in Hq. unfold not_quote in Hq. apply negb_false_iff, N.eqb_eq in Hq. subst q.
  exists body. auto.
Qed.
Lemma match_int_shape s v s' : match_pat P_INTEGER s = Some (v, s') -> is_int_text v.
Proof.
  cbn [match_pat]. destruct s as [|c t]; [discriminate|]. destruct (c =? c_hash) eqn:Ec; [|discriminate].
  apply N.eqb_eq in Ec. subst c.
  set (st := match t with m :: u => if m =? c_hyphen then ([m], u) else ([], t) | [] => ([], t) end).
  assert (Hst : fst st = [] \/ fst st = [c_hyphen]).
  { unfold st. destruct t as [|m u]; [left; reflexivity|]. destruct (m =? c_hyphen) eqn:Em; [|left; reflexivity].
    apply N.eqb_eq in Em. subst m. right; reflexivity. }
  destruct st as [sign t']. cbn [fst] in Hst.
  destruct (span is_digit t') as [ds r] eqn:E. destruct ds as [|d ds]; [discriminate|].
  intros H. injection H as <- <-. destruct (span_decomp _ _ _ _ E) as (_ & Hd & _).
  exists sign, (d :: ds). split; [reflexivity|]. split; [exact Hst|]. split; [discriminate|exact Hd].
Qed.

(* a literal token and the literal built from it *)
Lemma literal_spells p v s' t : match_pat p (v ++ s') = Some (v, s') -> literal p v = Ok t ->
  exists lt, flat_tok t = [lt] /\ spells v lt.
Proof.
  intros Hm Hl. destruct p; cbn [literal] in Hl; try discriminate.
  - destruct (match_name_inv _ _ Hm) as [Hname _]. unfold process_identifier in Hl.
    destruct v as [|c tl]; [discriminate|]. destruct (c =? 39) eqn:Ec; injection Hl as <-.
    + apply N.eqb_eq in Ec. subst c. exists (LName (39 :: tl)). split; [reflexivity|now constructor].
    + exists (LName (c :: tl)). split; [reflexivity|now constructor].
  - destruct (match_string_shape _ _ _ Hm) as (body & -> & Hb).
    unfold process_string_literal in Hl. rewrite N.eqb_refl in Hl.
    change (c_quote :: body ++ [c_quote]) with ((c_quote :: body) ++ [c_quote]) in Hl.
    rewrite last_last, N.eqb_refl in Hl. cbn [andb] in Hl. rewrite removelast_last in Hl. injection Hl as <-.
    exists (LStr body). split; [reflexivity|now constructor].
  - pose proof (match_int_shape _ _ _ Hm) as Hi. unfold process_int_literal in Hl.
    destruct (py_int (strip_hash v)) as [z|? ?| |] eqn:Ez; cbn [bind] in Hl; try discriminate.
    injection Hl as <-. exists (LInt z). split; [reflexivity|now constructor].
Qed.

Lemma match_brace_shape s v s' :
  (match_pat P_LBRACE s = Some (v, s') -> v = [c_lbrace]) /\ (match_pat P_RBRACE s = Some (v, s') -> v = [c_rbrace]).
Proof.
  split; cbn [match_pat]; destruct s as [|c t]; try discriminate.
  - destruct (c =? c_lbrace) eqn:E; [|discriminate]. apply N.eqb_eq in E. subst. intros H. now injection H as <- _.
  - destruct (c =? c_rbrace) eqn:E; [|discriminate]. apply N.eqb_eq in E. subst. intros H. now injection H as <- _.
Qed.

(* ---- groups *)
Lemma parse_group_sound : forall fuel s ln items s' ln',
  parse_group fuel s ln = Ok (items, (s', ln')) -> layout_of (flat_items items ++ [LR]) s s'.
Proof.
  induction fuel as [|f IH]; intros s ln items s' ln'; cbn [parse_group]; [discriminate|].
  destruct (required group_pats false s ln) as [[[p v] [s1 ln1]]|c l| |] eqn:E; cbn [bind]; try discriminate.
  destruct (required_shape _ _ _ _ _ _ _ _ E) as (g & -> & Hg & Hm).
  assert (Hlit : forall t, literal p v = Ok t ->
     (do r <- parse_group f s1 ln1; Ok (t :: fst r, snd r)) = Ok (items, (s', ln')) ->
     layout_of (flat_items items ++ [LR]) (g ++ v ++ s1) s').
  { intros t Hl. destruct (parse_group f s1 ln1) as [[items' [s2 ln2]]|c l| |] eqn:E1; cbn [bind fst snd]; try discriminate.
    intros H. injection H as <- <- <-.
    destruct (literal_spells _ _ _ _ Hm Hl) as (lt & Hflat & Hsp).
    rewrite (flat_items_atom t lt items' [LR] Hflat). constructor; [exact Hg|exact Hsp|]. eapply IH; exact E1. }
  destruct p.
  - destruct (literal P_NAME v) as [t|c l| |] eqn:El; cbn [bind]; try discriminate. now apply Hlit.
  - destruct (literal P_STRING v) as [t|c l| |] eqn:El; cbn [bind]; try discriminate. now apply Hlit.
  - destruct (literal P_INTEGER v) as [t|c l| |] eqn:El; cbn [bind]; try discriminate. now apply Hlit.
  - destruct (parse_group f s1 ln1) as [[body [s2 ln2]]|c l| |] eqn:E1; cbn [bind]; try discriminate.
    destruct (parse_group f s2 ln2) as [[items' [s3 ln3]]|c l| |] eqn:E2; cbn [bind fst snd]; try discriminate.
    intros H. injection H as <- <- <-.
    rewrite flat_items_fun. apply (proj1 (match_brace_shape _ _ _)) in Hm. subst v.
    constructor; [exact Hg|constructor|].
    change (flat_items body ++ LR :: flat_items items' ++ [LR]) with (flat_items body ++ [LR] ++ flat_items items' ++ [LR]).
    rewrite app_assoc. eapply lo_app; [eapply IH; exact E1|eapply IH; exact E2].
  - intros H. injection H as <- <- <-. cbn [flat_items flat_map app].
    apply (proj2 (match_brace_shape _ _ _)) in Hm. subst v.
    constructor; [exact Hg|constructor|constructor].
Qed.

Lemma parse_args_sound fuel : forall n s ln gs s' ln', parse_args fuel n s ln = Ok (gs, (s', ln')) ->
  exists g, layout_of (flat_map flat_group gs) s (g ++ s') /\ all_space g.
Proof.
  induction n as [|k IH]; intros s ln gs s' ln'; cbn [parse_args].
  - intros H. injection H as <- <- <-. exists []. split; [constructor|reflexivity].
  - unfold optional.
    destruct (get_token [P_LBRACE] false s ln) as [[o [s1 ln1]]|c l| |] eqn:E; cbn [bind]; try discriminate.
    destruct o as [[p v]|].
    2:{ intros H. injection H as <- <- <-. destruct (get_token_none _ _ _ _ _ _ E) as (g & -> & Hg).
        exists g. split; [constructor|exact Hg]. }
    destruct (get_token_shape _ _ _ _ _ _ _ _ E) as (g & -> & Hg & Hm).
    assert (p = P_LBRACE).
    { unfold get_token in E. destruct (eat_whitespace (g ++ v ++ s1) ln) as [r l0]. destruct r; [discriminate|].
      cbn [first_match] in E. destruct (match_pat P_LBRACE (c :: r)) as [[? ?]|]; [|discriminate]. now injection E as <- _ _ _. }
    subst p. apply (proj1 (match_brace_shape _ _ _)) in Hm. subst v.
    destruct (parse_group fuel s1 ln1) as [[grp [s2 ln2]]|c l| |] eqn:E1; cbn [bind]; try discriminate.
    destruct (parse_args fuel k s2 ln2) as [[gs2 [s3 ln3]]|c l| |] eqn:E2; cbn [bind fst snd]; try discriminate.
    intros H. injection H as <- <- <-.
    destruct (IH _ _ _ _ _ E2) as (g2 & Hlo & Hg2). exists g2. split; [|exact Hg2].
    cbn [flat_map]. unfold flat_group at 1. cbn [app].
    apply (lo_cons g [c_lbrace] LL); [exact Hg|constructor|].
    eapply lo_app; [apply (parse_group_sound _ _ _ _ _ _ E1)|exact Hlo].
Qed.

Lemma parse_command_sound fuel s ln c s' ln' : parse_command fuel s ln = Ok (c, (s', ln')) ->
  exists g, layout_of (flat_command c) s (g ++ s') /\ all_space g.
Proof.
  unfold parse_command.
  destruct (required [P_NAME] true s ln) as [[[p name] [s1 ln1]]|c0 l| |] eqn:E; cbn [bind]; try discriminate.
  destruct (required_shape _ _ _ _ _ _ _ _ E) as (g & -> & Hg & Hm).
  assert (p = P_NAME).
  { unfold required, get_token in E. destruct (eat_whitespace (g ++ name ++ s1) ln) as [r l0]. destruct r; [discriminate|].
    cbn [first_match] in E. destruct (match_pat P_NAME (c0 :: r)) as [[? ?]|]; cbn [bind fst snd] in E; [|discriminate].
    now injection E as <- _ _ _. }
  subst p. destruct (match_name_inv _ _ Hm) as [Hname _].
  destruct (arity name) as [n|]; [|discriminate].
  destruct (parse_args fuel n s1 ln1) as [[gs [s2 ln2]]|c0 l| |] eqn:Ea; cbn [bind fst snd]; try discriminate.
  intros H. injection H as <- <- <-.
  destruct (parse_args_sound _ _ _ _ _ _ _ Ea) as (g2 & Hlo & Hg2). exists g2. split; [|exact Hg2].
  unfold flat_command. cbn [fst snd]. constructor; [exact Hg|now constructor|exact Hlo].
Qed.

Lemma parse_command_eof fuel s ln l : parse_command fuel s ln = PyErr cls_eof l -> all_space s.
Proof.
  unfold parse_command, required.
  destruct (get_token [P_NAME] true s ln) as [[o [s1 ln1]]|c1 l1| |] eqn:Eg; cbn [bind fst snd]; try discriminate.
  - destruct o as [[p name]|]; cbn [bind]; [|intros H; inversion H].
    destruct (arity name) as [n|]; [|intros H; inversion H].
    destruct (parse_args fuel n s1 ln1) as [[? ?]|c2 l2| |] eqn:Ea; cbn [bind]; try discriminate.
    intros H. injection H as -> _. apply parse_args_cls in Ea. congruence.
  - intros H. injection H as -> _. eapply get_token_eof; exact Eg.
Qed.

Lemma parse_loop_sound : forall fuel s ln p, parse_loop fuel s ln = Ok p ->
  exists g, layout_of (flat_program p) s g /\ all_space g.
Proof.
  induction fuel as [|f IH]; intros s ln p; cbn [parse_loop]; [discriminate|].
  destruct (parse_command (S (length s)) s ln) as [[c [s1 ln1]]|c0 l| |] eqn:E; try discriminate.
  - destruct (parse_loop f s1 ln1) as [rest|c0 l| |] eqn:E2; cbn [bind]; try discriminate.
    intros H. injection H as <-.
    destruct (parse_command_sound _ _ _ _ _ _ E) as (g1 & Hlo & Hg1).
    destruct (IH _ _ _ E2) as (gf & Hlo2 & Hgf).
    destruct (lo_prepend g1 _ _ _ Hg1 Hlo2 Hgf) as (sf & Hlo3 & Hsf).
    exists sf. split; [|exact Hsf]. unfold flat_program. cbn [flat_map]. eapply lo_app; eassumption.
  - destruct (c0 =? cls_eof) eqn:Ec; [|discriminate]. apply N.eqb_eq in Ec. subst c0.
    intros H. injection H as <-. exists s. split; [constructor|]. eapply parse_command_eof; exact E.
Qed.

(* the statement about list(parse_string(src)) *)
Theorem accepted_is_printed : forall src p, parse_string src = Ok p ->
  exists g, layout_of (flat_program p) (text_of_string src) g /\ all_space g.
Proof. intros src p H. unfold parse_string, parse_text in H. eapply parse_loop_sound; exact H. Qed.
