(* Proofs/NameFormatAbbrevBraced.v -- C11 round 2: hyphen-aware abbreviation of words with braces
   and special characters, through C12's theorems about split_tex_string and bibtex_first_letter. *)
From Pybtex Require Import Base.Prelude Base.PyChar Base.PyStr Model.BibtexStr Model.Names Model.NameFormat.
From Pybtex Require Import Spec.BibtexStrSpec Proofs.BibtexStr Proofs.BibtexStrSplit Proofs.BibtexStrAlg.
From Pybtex Require Spec.NameFormat.


(* the letter an abbreviation takes from one hyphen-separated piece: the first letter or special
   character among the "text characters" of the stripped piece (the non-brace tokens of its scan,
   i.e. exactly what text.length$ counts -- C12 first_letter_spec) *)
Definition letter_of (piece l : str) : Prop :=
  forall ts, scan (strip piece) = Ok ts ->
  l = first_letter_of (map fst (filter (fun t => negb (tok_is_brace (fst t))) ts)).

Lemma all_space_depth a : all_space a -> forall d, depth_from d a = Some d.
Proof.
  induction 1 as [|c a Hc _ IH]; intros d; cbn [depth_from]; [reflexivity|].
  destruct (N.eqb c c_lbrace) eqn:E1; [apply N.eqb_eq in E1; subst c; vm_compute in Hc; discriminate|].
  destruct (N.eqb c c_rbrace) eqn:E2; [apply N.eqb_eq in E2; subst c; vm_compute in Hc; discriminate|].
  apply IH.
Qed.

Lemma balanced_strip s : balanced s -> balanced (strip s).
Proof.
  unfold balanced. intros B. destruct (strip_spec s) as (a & b & E & A1 & A2).
  rewrite E in B. rewrite depth_from_app, (all_space_depth a A1), depth_from_app in B.
  destruct (depth_from 0 (strip s)) as [d|]; [|discriminate]. rewrite (all_space_depth b A2) in B. exact B.
Qed.

Lemma map_res_Forall2 {X Y} (f : X -> res Y) l : forall r, map_res f l = Ok r -> Forall2 (fun x y => f x = Ok y) l r.
Proof.
  induction l as [|x l IH]; intros r H; cbn [map_res] in H; [inversion H; constructor|].
  destruct (f x) eqn:F; cbn [bind] in H; try discriminate.
  destruct (map_res f l) eqn:M; cbn [bind] in H; try discriminate. inversion H; subst.
  constructor; [exact F|apply IH; reflexivity].
Qed.

Lemma flat_hyphens_join pairs lastp : Forall (fun sp => sp = [c_hyphen]) (map snd pairs) ->
  flat_map (fun ps => fst ps ++ snd ps) pairs ++ lastp = join [c_hyphen] (map fst pairs ++ [lastp]).
Proof.
  induction pairs as [|[a sp] pairs IH]; intros F; [reflexivity|].
  cbn [map snd] in F. inversion F as [|? ? E F']; subst.
  cbn [flat_map map fst snd app]. rewrite <- !app_assoc, IH by exact F'.
  destruct (map fst pairs ++ [lastp]) eqn:K; [destruct (map fst pairs); discriminate|]. reflexivity.
Qed.

Theorem abbrev_hyphen_braced_thm w d out : balanced w -> bibtex_abbreviate w d = Ok out ->
  (w = [] /\ out = []) \/
  exists pieces letters,
    w = join [c_hyphen] pieces /\ Forall balanced pieces /\
    Forall2 letter_of pieces letters /\
    out = join (Spec.NameFormat.delim_or_default d) (filter Spec.NameFormat.nonempty letters).
Proof.
  intros B H. unfold bibtex_abbreviate in H.
  destruct (split_tex_hyphen w) as [toks| | |] eqn:S; cbn [bind] in H; try discriminate.
  destruct (map_res bibtex_first_letter toks) as [letters| | |] eqn:M; cbn [bind] in H; try discriminate.
  inversion H as [Hout]. clear H.
  unfold split_tex_hyphen in S. apply split_strip_filter_lemma in S as (raw & R & ->). cbv beta iota in M.
  destruct (split_top_level_all_lemma _ _ _ R) as [[-> ->]|(pairs & lastp & E1 & E2 & _ & _ & MT)].
  { left. cbn in M. inversion M; subst. split; reflexivity. }
  right. exists raw, letters.
  assert (BR : Forall balanced raw).
  { destruct (split_top_level_lemma _ _ _ B R) as [[-> ->]|(p2 & l2 & _ & _ & BB & _)]; [constructor|exact BB]. }
  split; [|split; [exact BR|split; [|reflexivity]]].
  - rewrite E2, E1. apply flat_hyphens_join.
    rewrite Forall_forall in *. intros sp I. apply matched_hyphen. apply MT. exact I.
  - apply map_res_Forall2 in M. clear - M BR.
    remember (map strip raw) as toks eqn:ET. revert raw ET BR.
    induction M as [|t l toks letters F _ IH]; intros raw ET BR.
    + destruct raw; [constructor|discriminate].
    + destruct raw as [|p raw]; [discriminate|]. cbn [map] in ET. injection ET as -> ->.
      inversion BR as [|? ? Bp BR']; subst.
      constructor; [|apply IH; [reflexivity|exact BR']].
      intros ts SC. rewrite (first_letter_spec_lemma _ _ (balanced_strip _ Bp) SC) in F. inversion F. reflexivity.
Qed.
