(* Proofs/RichChain.v -- split() is exactly str.split() on one-String texts under any nesting of
   Tag / HRef (and a Text on top): no part boundary, hence no F17s. *)
From Pybtex Require Import Base.Prelude Base.PyChar Base.PyStr Model.RtTypes Model.RichText
  Spec.Flat Spec.FlatOps Proofs.RichText Proofs.RichOps Proofs.RichRender.

Lemma split_items_true l : split_items true l [] = (map (fun x => [x]) l, []).
Proof. induction l as [|x l IH]; [reflexivity|]. cbn [split_items map]. rewrite IH. now rewrite orb_true_r. Qed.

Lemma split_items_false l : split_items false l [] = (map (fun x => [x]) (filter nonempty l), []).
Proof.
  induction l as [|x l IH]; [reflexivity|]. cbn [split_items filter]. rewrite IH, orb_false_r.
  unfold nonempty. destruct (negb (rlen x =? 0)); reflexivity.
Qed.

Lemma mkc_single k x : not_text x = true -> mkc k [x] = Ok (build k (filter nonempty [x])).
Proof.
  intro H. unfold mkc. cbn [mk]. cbn [filter]. destruct (nonempty x) eqn:N.
  - assert (U : unpack x = [x]) by (destruct x; try reflexivity; discriminate).
    cbn [flat_map]. rewrite U. cbn [app groupby merge_all merge_group option_map of_opt]. reflexivity.
  - reflexivity.
Qed.
Lemma mkc_single' k x : not_text x = true -> mkc k [RStr []; x] = Ok (build k (filter nonempty [x])).
Proof.
  intro H. unfold mkc. cbn [mk]. cbn [filter rlen length nonempty Nat.eqb negb]. fold (nonempty x). destruct (nonempty x) eqn:N.
  - assert (U : unpack x = [x]) by (destruct x; try reflexivity; discriminate).
    cbn [flat_map]. rewrite U. cbn [app groupby merge_all merge_group option_map of_opt]. reflexivity.
  - reflexivity.
Qed.

Definition wrapk (k : kind) (x : rt) : rt := build k (filter nonempty [x]).

Lemma mapM_wrap t l : Forall (fun x => not_text x = true) l ->
  mapM (create_similar t) (map (fun x => [x]) l) = Ok (map (wrapk (kind_of t)) l).
Proof.
  induction 1 as [|x l Hx _ IH]; [reflexivity|]. cbn [map mapM]. unfold create_similar at 1.
  rewrite (mkc_single _ x Hx). cbn [bind]. now rewrite IH.
Qed.

Lemma Forall_removelast' {X} (P : X -> Prop) (l : list X) : Forall P l -> Forall P (removelast l).
Proof. induction 1 as [|x l Hx Hl IH]; cbn; [constructor|]. destruct l; [constructor|]. constructor; assumption. Qed.
Lemma Forall_last' {X} (P : X -> Prop) (l : list X) d : l <> [] -> Forall P l -> P (last l d).
Proof. intros Hne H. induction H as [|x l Hx Hl IH]; [congruence|]. cbn. destruct l; [exact Hx|]. apply IH. discriminate. Qed.

Lemma rlen_build k ps : rlen (build k ps) = list_sum (map rlen ps).
Proof. destruct k; reflexivity. Qed.

Lemma removelast_cons {X} (x : X) l : l <> [] -> removelast (x :: l) = x :: removelast l.
Proof. destruct l; [congruence|reflexivity]. Qed.

Lemma loop_true t sp : sp <> [] -> Forall (fun x => not_text x = true) sp ->
  (let '(ys, tl) := split_loop true [sp] [RStr []] in
   do out <- mapM (create_similar t) ys;
   match tl with
   | [] => Ok out
   | _ => do tlt <- create_similar t tl; if negb (rlen tlt =? 0) || true then Ok (out ++ [tlt]) else Ok out
   end) = Ok (map (wrapk (kind_of t)) sp).
Proof.
  intros Hne Hnt. destruct sp as [|x1 sp']; [congruence|]. destruct sp' as [|x2 r].
  - cbn [split_loop removelast split_items last app mapM bind]. unfold create_similar.
    inversion Hnt; subst. rewrite (mkc_single' _ x1 H1). cbn [bind]. now rewrite orb_true_r.
  - remember (x2 :: r) as l eqn:El. assert (Hl : l <> []) by (subst; discriminate).
    cbn [split_loop]. rewrite (removelast_cons x1 l Hl).
    { cbn [split_items]. rewrite split_items_true. cbn [app split_loop].
      assert (E1 : last (x1 :: l) (RStr []) = last l (RStr [])) by (subst l; reflexivity). rewrite E1.
      inversion Hnt as [|? ? H1 Hl']; subst x l0.
      cbn [mapM map]. unfold create_similar at 1. rewrite (mkc_single' _ x1 H1). cbn [bind].
      rewrite app_nil_r, (mapM_wrap t _ (Forall_removelast' _ _ Hl')). cbn [bind].
      unfold create_similar. rewrite (mkc_single _ _ (Forall_last' _ l (RStr []) Hl Hl')). cbn [bind].
      rewrite orb_true_r. f_equal. fold (wrapk (kind_of t) x1). fold (wrapk (kind_of t) (last l (RStr []))).
      cbn [map app]. f_equal. change [wrapk (kind_of t) (last l (RStr []))] with (map (wrapk (kind_of t)) [last l (RStr [])]).
      rewrite <- map_app, <- app_removelast_last by exact Hl. reflexivity. }
Qed.

Lemma split_loop_one keep sp tail : sp <> [] ->
  split_loop keep [sp] tail =
  (fst (split_items keep (removelast sp) tail) ++ [], snd (split_items keep (removelast sp) tail) ++ [last sp (RStr [])]).
Proof.
  intro H. destruct sp as [|x sp']; [congruence|]. cbn [split_loop].
  destruct (split_items keep (removelast (x :: sp')) tail) as [ys tl]. reflexivity.
Qed.

Lemma loop_false t sp : sp <> [] -> Forall (fun x => not_text x = true) sp ->
  (let '(ys, tl) := split_loop false [sp] [] in
   do out <- mapM (create_similar t) ys;
   match tl with
   | [] => Ok out
   | _ => do tlt <- create_similar t tl; if negb (rlen tlt =? 0) || false then Ok (out ++ [tlt]) else Ok out
   end) = Ok (map (wrapk (kind_of t)) (filter nonempty sp)).
Proof.
  intros Hne Hnt. set (l := sp) in *. rewrite (split_loop_one false l [] Hne), split_items_false. cbn [fst snd app]. rewrite app_nil_r.
  assert (Hnf : Forall (fun x => not_text x = true) (filter nonempty (removelast l))).
  { apply Forall_forall. intros x Hx. apply filter_In in Hx as [Hx _].
    pose proof (Forall_removelast' _ _ Hnt) as H. rewrite Forall_forall in H. now apply H. }
  rewrite (mapM_wrap t _ Hnf). cbn [bind]. unfold create_similar.
  rewrite (mkc_single _ _ (Forall_last' _ l (RStr []) Hne Hnt)). cbn [bind].
  assert (EL : filter nonempty l = filter nonempty (removelast l) ++ filter nonempty [last l (RStr [])]).
  { rewrite <- filter_app. f_equal. now apply app_removelast_last. }
  rewrite EL, map_app, orb_false_r. cbn [filter]. rewrite rlen_build.
  destruct (nonempty (last l (RStr []))) eqn:N.
  - cbn [map list_sum fold_right]. unfold nonempty in N. rewrite Nat.add_0_r, N.
    replace (wrapk (kind_of t) (last l (RStr []))) with (build (kind_of t) [last l (RStr [])])
      by (unfold wrapk; cbn [filter]; unfold nonempty; now rewrite N). reflexivity.
  - cbn. now rewrite app_nil_r.
Qed.

(* ---- the nest ---- *)
Lemma rechain_not_text q s w : chain_in q s -> not_text (rechain q w) = true.
Proof. induction 1; reflexivity. Qed.

Lemma rechain_rlen q s w : chain_in q s -> rlen (rechain q w) = length w.
Proof.
  induction 1 as [s|n q s Hq IH|u e q s Hq IH]; [reflexivity| |];
    cbn [rechain map filter kind_of]; rewrite rlen_build; unfold nonempty; rewrite IH;
    (destruct w; [reflexivity|]); cbn [length Nat.eqb negb map list_sum fold_right]; rewrite IH; cbn; lia.
Qed.

Lemma depth_one q : depth q < S (list_max (map depth [q])).
Proof. cbn. lia. Qed.

Lemma split_multi f t q : is_multipart t = true -> (forall ps, t <> RProt ps) -> parts_of t = [q] ->
  forall sep keep, split (S f) t sep keep =
    (let keepb := match keep with Some b => b | None => match sep with SepNone => false | _ => true end end in
     do sps <- mapM (fun p => split f p sep (Some true)) [q];
     let '(ys, tl) := split_loop keepb sps (if keepb then [RStr []] else []) in
     do out <- mapM (create_similar t) ys;
     match tl with
     | [] => Ok out
     | _ => do tlt <- create_similar t tl; if negb (rlen tlt =? 0) || keepb then Ok (out ++ [tlt]) else Ok out
     end).
Proof.
  intros Hm Hnp Hp sep keep. destruct t; cbn [is_multipart] in Hm; try discriminate; cbn [parts_of] in Hp; subst;
    try reflexivity. exfalso. now apply (Hnp [q]).
Qed.

(* inside a nest (keep_empty_parts=True, as the parent calls it): one piece per regex piece *)
Lemma chain_split_keep t s : chain_in t s -> forall f, depth t < f ->
  split f t SepNone (Some true) = Ok (map (rechain t) (re_split_ws s [] false)).
Proof.
  induction 1 as [s|n q s Hq IH|u e q s Hq IH]; intros f Hf.
  - destruct f; [lia|]. cbn [split]. unfold str_split. cbn [bind]. f_equal.
    set (L := re_split_ws s [] false). clear. induction L as [|p L IHL]; [reflexivity|]. cbn [filter map]. rewrite orb_true_r. cbn [map]. now rewrite IHL.
  - destruct f as [|f]; [lia|]. rewrite (split_multi f (RTag n [q]) q eq_refl ltac:(discriminate) eq_refl). cbv zeta.
    cbn [mapM]. rewrite (IH f ltac:(cbn [depth map list_max fold_right] in Hf; lia)). cbn [bind].
    rewrite (loop_true (RTag n [q]) (map (rechain q) (re_split_ws s [] false))).
    + rewrite map_map. reflexivity.
    + pose proof (re_split_ws_nonnil s [] false). destruct (re_split_ws s [] false); [congruence|discriminate].
    + apply Forall_forall. intros x Hx. apply in_map_iff in Hx as [w [<- _]]. eapply rechain_not_text; eauto.
  - destruct f as [|f]; [lia|]. rewrite (split_multi f (RHRef u e [q]) q eq_refl ltac:(discriminate) eq_refl). cbv zeta.
    cbn [mapM]. rewrite (IH f ltac:(cbn [depth map list_max fold_right] in Hf; lia)). cbn [bind].
    rewrite (loop_true (RHRef u e [q]) (map (rechain q) (re_split_ws s [] false))).
    + rewrite map_map. reflexivity.
    + pose proof (re_split_ws_nonnil s [] false). destruct (re_split_ws s [] false); [congruence|discriminate].
    + apply Forall_forall. intros x Hx. apply in_map_iff in Hx as [w [<- _]]. eapply rechain_not_text; eauto.
Qed.

Lemma filter_rechain q s L : chain_in q s ->
  filter nonempty (map (rechain q) L) = map (rechain q) (filter (fun p : str => negb (length p =? 0)) L).
Proof.
  intro C. induction L as [|w L IH]; [reflexivity|]. cbn [map filter]. unfold nonempty at 1.
  rewrite (rechain_rlen q s w C), IH. destruct (negb (length w =? 0)); reflexivity.
Qed.

Lemma split_ws_is_filter s : split_ws s = filter (fun p : str => negb (length p =? 0)) (re_split_ws s [] false).
Proof.
  unfold split_ws. symmetry. rewrite <- (re_split_ws_filter s [] false ltac:(discriminate)).
  apply filter_ext. intro a. now rewrite orb_false_r.
Qed.

Lemma top_split t q s : is_multipart t = true -> (forall ps, t <> RProt ps) -> parts_of t = [q] -> chain_in q s ->
  split_c t SepNone None = Ok (map (fun w => wrapk (kind_of t) (rechain q w)) (split_ws s)).
Proof.
  intros Hm Hnp Hp C. unfold split_c. rewrite (split_multi (depth t) t q Hm Hnp Hp). cbv zeta. cbn [mapM].
  assert (Hd : depth q < depth t) by (destruct t; cbn in Hm; try discriminate; cbn [parts_of] in Hp; subst; cbn; lia).
  rewrite (chain_split_keep q s C (depth t) Hd). cbn [bind].
  rewrite (loop_false t (map (rechain q) (re_split_ws s [] false))).
  - rewrite (filter_rechain q s _ C), map_map, split_ws_is_filter. reflexivity.
  - pose proof (re_split_ws_nonnil s [] false). destruct (re_split_ws s [] false); [congruence|discriminate].
  - apply Forall_forall. intros x Hx. apply in_map_iff in Hx as [w [<- _]]. eapply rechain_not_text; eauto.
Qed.

(* split_ws_spec on one-String texts under any nesting of Tag / HRef (and a Text on top): exactly
   Python's s.split(), every word inside the same nest of markup *)
Theorem chain_split_ws_lem t s : chain_s t s -> split_c t SepNone None = Ok (map (rechain t) (split_ws s)).
Proof.
  intros [t0 s0 C|q s0 C].
  - destruct C as [s1|n q s1 Hq|u e q s1 Hq].
    + apply string_split_ws_lem.
    + rewrite (top_split (RTag n [q]) q s1 eq_refl ltac:(discriminate) eq_refl Hq). reflexivity.
    + rewrite (top_split (RHRef u e [q]) q s1 eq_refl ltac:(discriminate) eq_refl Hq). reflexivity.
  - rewrite (top_split (RText [q]) q s0 eq_refl ltac:(discriminate) eq_refl C). reflexivity.
Qed.

(* ---- the same for split(delimiter_re) (what abbreviate uses; delimiters are pieces, empties kept) ---- *)
Lemma re_split_delim_nonnil s : forall acc, re_split_delim s acc <> [].
Proof. induction s as [|c s IH]; intro acc; cbn; [discriminate|]. destruct (_ || _); [discriminate|apply IH]. Qed.

Lemma filter_keep_all (L : list str) : filter (fun p : str => negb (length p =? 0) || true) L = L.
Proof. induction L as [|p L IH]; [reflexivity|]. cbn. rewrite orb_true_r. now rewrite IH. Qed.

Lemma chain_split_delim_keep t s : chain_in t s -> forall f keep, depth t < f -> (keep = None \/ keep = Some true) ->
  split f t SepDelim keep = Ok (map (rechain t) (re_split_delim s [])).
Proof.
  induction 1 as [s|n q s Hq IH|u e q s Hq IH]; intros f keep Hf Hk.
  - destruct f; [lia|]. cbn [split]. unfold str_split. cbn [bind].
    destruct Hk as [-> | ->]; (f_equal; f_equal; apply (filter_keep_all (re_split_delim s []))).
  - destruct f as [|f]; [lia|]. rewrite (split_multi f (RTag n [q]) q eq_refl ltac:(discriminate) eq_refl).
    assert (Ek : match keep with Some b => b | None => true end = true) by (destruct Hk as [-> | ->]; reflexivity).
    cbv zeta. rewrite Ek. cbn [mapM]. rewrite (IH f (Some true) ltac:(cbn [depth map list_max fold_right] in Hf; lia) (or_intror eq_refl)). cbn [bind].
    rewrite (loop_true (RTag n [q]) (map (rechain q) (re_split_delim s []))).
    + rewrite map_map. reflexivity.
    + pose proof (re_split_delim_nonnil s []). destruct (re_split_delim s []); [congruence|discriminate].
    + apply Forall_forall. intros x Hx. apply in_map_iff in Hx as [w [<- _]]. eapply rechain_not_text; eauto.
  - destruct f as [|f]; [lia|]. rewrite (split_multi f (RHRef u e [q]) q eq_refl ltac:(discriminate) eq_refl).
    assert (Ek : match keep with Some b => b | None => true end = true) by (destruct Hk as [-> | ->]; reflexivity).
    cbv zeta. rewrite Ek. cbn [mapM]. rewrite (IH f (Some true) ltac:(cbn [depth map list_max fold_right] in Hf; lia) (or_intror eq_refl)). cbn [bind].
    rewrite (loop_true (RHRef u e [q]) (map (rechain q) (re_split_delim s []))).
    + rewrite map_map. reflexivity.
    + pose proof (re_split_delim_nonnil s []). destruct (re_split_delim s []); [congruence|discriminate].
    + apply Forall_forall. intros x Hx. apply in_map_iff in Hx as [w [<- _]]. eapply rechain_not_text; eauto.
Qed.

Theorem chain_split_delim_lem t s : chain_s t s ->
  split_c t SepDelim None = Ok (map (rechain t) (re_split_delim s [])).
Proof.
  intros [t0 s0 C|q s0 C].
  - apply (chain_split_delim_keep t0 s0 C (S (depth t0)) None); [lia|now left].
  - unfold split_c. rewrite (split_multi (depth (RText [q])) (RText [q]) q eq_refl ltac:(discriminate) eq_refl). cbv zeta. cbn [mapM].
    rewrite (chain_split_delim_keep q s0 C (depth (RText [q])) (Some true) ltac:(cbn; lia) (or_intror eq_refl)). cbn [bind].
    rewrite (loop_true (RText [q]) (map (rechain q) (re_split_delim s0 []))).
    + rewrite map_map. reflexivity.
    + pose proof (re_split_delim_nonnil s0 []). destruct (re_split_delim s0 []); [congruence|discriminate].
    + apply Forall_forall. intros x Hx. apply in_map_iff in Hx as [w [<- _]]. eapply rechain_not_text; eauto.
Qed.
