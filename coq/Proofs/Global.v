(* Proofs/Global.v -- lemmas about Model/Global.v (C18) *)
From Pybtex Require Import Base.Prelude Base.PyChar Base.PyStr Model.BibtexStr Model.Names Model.Global.

(* leaving errors.capture() always restores normal reporting *)
Lemma capture_exit_none : forall e, e_captured (capture_exit e) = None.
Proof. reflexivity. Qed.

Lemma NoDup_app_one {X} (l : list X) x : NoDup l -> ~ In x l -> NoDup (l ++ [x]).
Proof.
  induction l as [|y r IH]; cbn [app]; intros Hnd Hin.
  - constructor; [intros []|constructor].
  - inversion Hnd as [|? ? Hy Hr]. constructor.
    + intro Hi. apply in_app_or in Hi. destruct Hi as [Hi|[Hi|[]]]; [contradiction|]. subst. apply Hin. left; reflexivity.
    + apply IH; auto. intro Hi. apply Hin. right; auto.
Qed.

(* ------------------------------------------------------------------------------------- *)
(* memoize *)
Section MemoProofs.
  Context {K V S : Type}.
  Variable keqb : K -> K -> bool.
  Hypothesis keqb_eq : forall a b, keqb a b = true <-> a = b.

  Definition memo_ok (cap : nat) (m : memo K V) : Prop :=
    map fst (memory m) = history m /\ NoDup (history m) /\ length (history m) <= cap.

  Lemma keqb_refl k : keqb k k = true.
  Proof. apply keqb_eq; reflexivity. Qed.

  Lemma keqb_neq a b : a <> b -> keqb a b = false.
  Proof. intro H. destruct (keqb a b) eqn:E; auto. apply keqb_eq in E. contradiction. Qed.

  Lemma m_lookup_none_notin k (m : list (K * V)) : m_lookup keqb k m = None <-> ~ In k (map fst m).
  Proof.
    induction m as [|[k' v] r IH]; cbn [m_lookup map fst In].
    - split; auto.
    - destruct (keqb k k') eqn:E.
      + apply keqb_eq in E. subst. split; [discriminate | intro H; exfalso; apply H; auto].
      + rewrite IH. split.
        * intros H [H1|H1]; [subst; rewrite keqb_refl in E; discriminate | auto].
        * intros H H1. apply H. auto.
  Qed.

  Lemma m_lookup_in k v (m : list (K * V)) : m_lookup keqb k m = Some v -> In (k, v) m.
  Proof.
    induction m as [|[k' v'] r IH]; cbn [m_lookup]; [discriminate|].
    destruct (keqb k k') eqn:E.
    - apply keqb_eq in E. subst. intro H. inversion H. left; reflexivity.
    - intro H. right. auto.
  Qed.

  (* deleting the first key of a duplicate-free dict whose key list is h :: hs always succeeds
     (no KeyError) and leaves the dict whose key list is hs *)
  Lemma m_del_head h hs (m : list (K * V)) :
    map fst m = h :: hs -> exists v r, m = (h, v) :: r /\ m_del keqb h m = Some r /\ map fst r = hs.
  Proof.
    destruct m as [|[k v] r]; cbn [map fst]; [discriminate|].
    intro H. inversion H. subst. exists v, r. cbn [m_del]. rewrite keqb_refl. auto.
  Qed.

  Lemma m_lookup_app_notin k (m1 m2 : list (K * V)) :
    m_lookup keqb k (m1 ++ m2) = match m_lookup keqb k m1 with Some v => Some v | None => m_lookup keqb k m2 end.
  Proof.
    induction m1 as [|[k' v'] r IH]; cbn [app m_lookup]; auto.
    destruct (keqb k k'); auto.
  Qed.

  (* what eviction does under the invariant: never raises; drops the oldest key iff the cache is full *)
  Lemma evict_ok cap m : 0 < cap -> memo_ok cap m ->
    exists m1, evict keqb cap m = (m1, Ok tt) /\
      map fst (memory m1) = history m1 /\ NoDup (history m1) /\ length (history m1) < cap /\
      (forall k v, m_lookup keqb k (memory m1) = Some v -> m_lookup keqb k (memory m) = Some v) /\
      (forall k, In k (history m1) -> In k (history m)).
  Proof.
    intros Hcap (Hk & Hnd & Hlen). unfold evict.
    destruct (Nat.leb cap (length (history m))) eqn:E.
    - apply Nat.leb_le in E.
      destruct (history m) as [|h hs] eqn:Eh; [cbn in E; lia|].
      destruct (m_del_head h hs (memory m) Hk) as (v & r & Em & Ed & Er).
      rewrite Ed. eexists; split; [reflexivity|]. cbn [memory history].
      inversion Hnd as [|? ? Hnotin Hnd']. cbn [length] in *. repeat split; auto; try lia.
      + intros k v0 Hl. rewrite Em. cbn [m_lookup]. destruct (keqb k h) eqn:Ekh; auto.
        apply keqb_eq in Ekh. subst k. exfalso.
        apply m_lookup_in in Hl. apply (in_map fst) in Hl. cbn [fst] in Hl. rewrite Er in Hl. contradiction.
      + intros k Hin. right; auto.
    - apply Nat.leb_gt in E. exists m. repeat split; auto.
  Qed.

  Variable g : K -> res V.
  Definition valid (m : memo K V) : Prop := forall k v, m_lookup keqb k (memory m) = Some v -> g k = Ok v.

  (* the specification of one memoised call, for a function whose result depends on the key only
     (it may read and write the state S, provided it keeps the invariant I of S) *)
  Lemma memo_call_spec (I : S -> Prop) cap (f : K -> S -> S * res V) :
    0 < cap ->
    (forall k s, I s -> I (fst (f k s)) /\ snd (f k s) = g k) ->
    forall k m s, memo_ok cap m -> valid m -> I s ->
    let r := memo_call keqb cap f k (m, s) in
    snd r = g k /\ memo_ok cap (fst (fst r)) /\ valid (fst (fst r)) /\ I (snd (fst r)).
  Proof.
    intros Hcap Hf k m s Hok Hv HI. cbv zeta. unfold memo_call.
    destruct (m_lookup keqb k (memory m)) eqn:El.
    - cbn [fst snd]. repeat split; auto; try apply Hok. symmetry; apply Hv; auto.
    - destruct (evict_ok cap m Hcap Hok) as (m1 & Eev & H1 & H2 & H3 & H4 & H5). rewrite Eev.
      destruct (Hf k s HI) as (HI' & Hg). destruct (f k s) as [s' r] eqn:Ef. cbn [fst snd] in *.
      assert (Hv1 : valid m1) by (intros k0 v0 Hl; apply Hv; auto).
      assert (Hok1 : memo_ok cap m1) by (repeat split; auto; lia).
      destruct r; cbn [fst snd]; auto.
      split; [auto|]. split; [|split; auto].
      + unfold memo_ok. cbn [memory history]. rewrite map_app, H1. cbn [map fst]. split; [reflexivity|]. split.
        * apply NoDup_app_one. auto. intro Hin. apply H5 in Hin.
          apply m_lookup_none_notin in El. apply El. destruct Hok as (Hk & _). rewrite Hk. auto.
        * rewrite app_length. cbn [length]. lia.
      + intros k0 v0. cbn [memory]. rewrite m_lookup_app_notin.
        destruct (m_lookup keqb k0 (memory m1)) eqn:E1.
        * intro H; inversion H; subst. apply Hv1; auto.
        * cbn [m_lookup]. destruct (keqb k0 k) eqn:E2; [|discriminate].
          apply keqb_eq in E2. subst. intro H; inversion H; subst. auto.
  Qed.

  Lemma memo0_ok cap : memo_ok cap (@memo0 K V).
  Proof. repeat split; cbn; try constructor; lia. Qed.
  Lemma memo0_valid : valid memo0.
  Proof. intros k v H. discriminate. Qed.

  Lemma memo_run_spec (I : S -> Prop) cap (f : K -> S -> S * res V) :
    0 < cap ->
    (forall k s, I s -> I (fst (f k s)) /\ snd (f k s) = g k) ->
    forall ks m s, memo_ok cap m -> valid m -> I s ->
    let r := memo_run keqb cap f ks (m, s) in
    snd r = map g ks /\ memo_ok cap (fst (fst r)) /\ valid (fst (fst r)) /\ I (snd (fst r)).
  Proof.
    intros Hcap Hf. induction ks as [|k r IH]; intros m s Hok Hv HI; cbv zeta; cbn [memo_run map].
    - cbn [fst snd]. auto.
    - pose proof (memo_call_spec I cap f Hcap Hf k m s Hok Hv HI) as Hc. cbv zeta in Hc.
      destruct (memo_call keqb cap f k (m, s)) as [[m1 s1] v1]. cbn [fst snd] in Hc.
      destruct Hc as (H1 & H2 & H3 & H4).
      specialize (IH m1 s1 H2 H3 H4). cbv zeta in IH.
      destruct (memo_run keqb cap f r (m1, s1)) as [[m2 s2] vs]. cbn [fst snd] in *.
      destruct IH as (I1 & I2 & I3 & I4). subst. auto.
  Qed.

  (* for ANY wrapped function (impure, raising): the cache keeps its shape, and the wrapper adds no
     exception of its own -- in particular `del memory[history.popleft()]` never raises *)
  Lemma memo_call_inv cap (f : K -> S -> S * res V) k m s :
    0 < cap -> memo_ok cap m ->
    let r := memo_call keqb cap f k (m, s) in
    memo_ok cap (fst (fst r)) /\
    ((exists v, m_lookup keqb k (memory m) = Some v /\ r = ((m, s), Ok v)) \/
     (m_lookup keqb k (memory m) = None /\ snd r = snd (f k s) /\ snd (fst r) = fst (f k s))).
  Proof.
    intros Hcap Hok. cbv zeta. unfold memo_call.
    destruct (m_lookup keqb k (memory m)) eqn:El.
    - cbn [fst snd]. split; auto. left. eauto.
    - destruct (evict_ok cap m Hcap Hok) as (m1 & Eev & H1 & H2 & H3 & H4 & H5). rewrite Eev.
      assert (Hok1 : memo_ok cap m1) by (repeat split; auto; lia).
      destruct (f k s) as [s' r] eqn:Ef. cbn [fst snd].
      destruct r; cbn [fst snd]; (split; [|right; auto]); auto.
      unfold memo_ok. cbn [memory history]. rewrite map_app, H1. cbn [map fst]. split; [reflexivity|]. split.
      * apply NoDup_app_one. auto. intro Hin. apply H5 in Hin.
        apply m_lookup_none_notin in El. apply El. destruct Hok as (Hk & _). rewrite Hk. auto.
      * rewrite app_length. cbn [length]. lia.
  Qed.
  (* weaker premise: the wrapped function may also raise for reasons outside g (a report raised in
     strict mode); whatever it RETURNS is g's value.  Then the cache still holds only g's values. *)
  Lemma memo_call_weak (I : S -> Prop) cap (f : K -> S -> S * res V) :
    0 < cap ->
    (forall k s, I s -> I (fst (f k s)) /\ (forall v, snd (f k s) = Ok v -> g k = Ok v)) ->
    forall k m s, memo_ok cap m -> valid m -> I s ->
    let r := memo_call keqb cap f k (m, s) in
    memo_ok cap (fst (fst r)) /\ valid (fst (fst r)) /\ I (snd (fst r)) /\ (forall v, snd r = Ok v -> g k = Ok v).
  Proof.
    intros Hcap Hf k m s Hok Hv HI. cbv zeta.
    pose proof (memo_call_inv cap f k m s Hcap Hok) as Hinv. cbv zeta in Hinv.
    destruct Hinv as (Hok' & [(v & Hl & Hr) | (Hl & Hr & Hs)]).
    - rewrite Hr. cbn [fst snd]. repeat split; auto; try apply Hok.
      intros v0 H0. inversion H0; subst. apply Hv; auto.
    - destruct (Hf k s HI) as (HI' & Hg). split; auto. split; [|split].
      + (* validity: unfold once more *)
        unfold memo_call. rewrite Hl.
        destruct (evict_ok cap m Hcap Hok) as (m1 & Eev & H1 & H2 & H3 & H4 & H5). rewrite Eev.
        assert (Hv1 : valid m1) by (intros k0 v0 Hl0; apply Hv; auto).
        destruct (f k s) as [s' r] eqn:Ef. cbn [fst snd] in *.
        destruct r; cbn [fst snd]; auto.
        intros k0 v0. cbn [memory]. rewrite m_lookup_app_notin.
        destruct (m_lookup keqb k0 (memory m1)) eqn:E1.
        * intro H; inversion H; subst. apply Hv1; auto.
        * cbn [m_lookup]. destruct (keqb k0 k) eqn:E2; [|discriminate].
          apply keqb_eq in E2. subst. intro H; inversion H; subst. apply Hg; reflexivity.
      + rewrite Hs. auto.
      + rewrite Hr. auto.
  Qed.
End MemoProofs.

(* ------------------------------------------------------------------------------------- *)
(* the heap: cell 0 (month_names) is written by no reader *)
Lemma h_get_set_other h i c : i <> 0 -> h_get (h_set h i c) 0 = h_get h 0.
Proof. destruct h as [|x r]; destruct i as [|j]; cbn; auto; intro H; contradiction H; reflexivity. Qed.

Lemma h_get_app0 h c : 1 <= length h -> h_get (h ++ [c]) 0 = h_get h 0.
Proof. destruct h; cbn; auto; lia. Qed.

Lemma h_set_length h i c : length (h_set h i c) = length h.
Proof. revert i; induction h as [|x r IH]; destruct i; cbn; auto. Qed.

Definition wfG (g : G) : Prop :=
  1 <= length (g_heap g) /\ Forall (fun rd => 1 <= r_cell rd) (g_readers g).

Lemma lift_res_fst {A B C} (st : A) (r : res B) (k : B -> A * res C) (P : A -> Prop) :
  P st -> (forall v, r = Ok v -> P (fst (k v))) -> P (fst (lift_res st r k)).
Proof. intros H1 H2. destruct r; cbn [lift_res fst]; auto. Qed.

Lemma process_item_cell rd it e : r_cell (fst (fst (process_item rd it e))) = r_cell rd.
Proof.
  destruct it as [n p|p|t k f]; cbn [process_item fst]; auto.
  set (kr := match k with Some k0 => (k0, rd) | None => (s_unnamed ++ nat_dec (r_counter rd), with_counter rd (S (r_counter rd))) end).
  assert (Hk : r_cell (snd kr) = r_cell rd) by (unfold kr; destruct k; reflexivity).
  destruct kr as [key rd0]. cbn [snd] in Hk.
  destruct (process_fields (r_pf rd0) key f [] (mkEntry (lower t) [] []) e) as [e1 ren].
  apply (lift_res_fst (rd0, e1) ren _ (fun x => r_cell (fst x) = r_cell rd)); auto.
  intros en _. destruct (has_key_ci key (r_entries rd0)); auto.
  destruct (report_error (E_REPEATED, key) e1) as [e2 u].
  apply (lift_res_fst (rd0, e2) u _ (fun x => r_cell (fst x) = r_cell rd)); auto.
Qed.

Lemma feed_go_cell_rd file : forall cell rd e, r_cell (snd (fst (fst (feed_go cell rd file e)))) = r_cell rd.
Proof.
  induction file as [|c r IH]; intros cell rd e; cbn [feed_go fst snd]; auto.
  destruct (ll_command true (r_keyless rd) cell c e) as [[cell1 e1] ri].
  apply (lift_res_fst (cell1, rd, e1) ri _ (fun x => r_cell (snd (fst x)) = r_cell rd)); auto.
  intros oi _. destruct oi as [it|]; [|apply IH].
  pose proof (process_item_cell rd it e1) as Hp.
  destruct (process_item rd it e1) as [[rd1 e2] u]. cbn [fst] in Hp.
  apply (lift_res_fst (cell1, rd1, e2) u _ (fun x => r_cell (snd (fst x)) = r_cell rd)); auto.
  intros _ _. rewrite IH. auto.
Qed.

Lemma feed_cell_rd file cell rd e : r_cell (snd (fst (fst (feed cell rd file e)))) = r_cell rd.
Proof. unfold feed. rewrite feed_go_cell_rd. reflexivity. Qed.

Lemma Forall_set_nth {X} (P : X -> Prop) l i x : Forall P l -> P x -> Forall P (set_nth l i x).
Proof.
  revert i; induction l as [|y r IH]; intros i Hl Hx; destruct i; cbn [set_nth]; auto;
    inversion Hl; subst; constructor; auto.
Qed.

Lemma exec_cell0 cap fmt g o : wfG g ->
  let g1 := fst (exec cap fmt g o) in wfG g1 /\ h_get (g_heap g1) 0 = h_get (g_heap g) 0.
Proof.
  intros [Hlen Hrd]. cbv zeta. destruct o as [m|r file|m files|src file|names n format|calls|b|id]; cbn [exec].
  - (* ONewReader *)
    unfold new_reader. unfold wfG; cbn [fst g_heap g_readers]. split; [split|].
    + rewrite app_length. lia.
    + apply Forall_app. split; auto.
    + apply h_get_app0; auto.
  - (* OFeed *)
    destruct (nth_error (g_readers g) r) as [rd|] eqn:En; [|cbn [fst]; split; [split|]; auto].
    assert (Hc : 1 <= r_cell rd) by (eapply Forall_forall in Hrd; [apply Hrd | eapply nth_error_In; eauto]).
    pose proof (feed_cell_rd file (h_get (g_heap g) (r_cell rd)) rd (g_err g)) as Hf.
    destruct (feed (h_get (g_heap g) (r_cell rd)) rd file (g_err g)) as [[[c1 rd1] e1] u].
    unfold wfG; cbn [fst snd g_heap g_readers] in *. split; [split|].
    + rewrite h_set_length; auto.
    + apply Forall_set_nth; auto. lia.
    + apply h_get_set_other. lia.
  - (* OParse *)
    destruct (feed_files (new_macros (g_heap g) (o_macros m)) (fresh_reader 0 m) files (g_err g)) as [[[c2 rd2] e2] u].
    unfold wfG; cbn [fst g_heap g_readers]. split; [split|]; auto.
  - (* OLowLevel *)
    destruct src as [r|].
    2: { destruct (lowlevel false _ file (g_err g)) as [[cell1 e1] rr].
         unfold wfG; cbn [fst g_heap g_readers]. split; [split|]; auto. }
    destruct (nth_error (g_readers g) r) as [rd|] eqn:En; [|cbn [fst]; split; [split|]; auto].
    assert (Hc : 1 <= r_cell rd) by (eapply Forall_forall in Hrd; [apply Hrd | eapply nth_error_In; eauto]).
    destruct (lowlevel false (h_get (g_heap g) (r_cell rd)) file (g_err g)) as [[cell1 e1] rr].
    unfold wfG; cbn [fst g_heap g_readers]. split; [split|]; auto.
    + rewrite h_set_length; auto.
    + apply h_get_set_other. lia.
  - destruct (memo_call nkey_eqb cap (format_name_f cap fmt) (names, n, format) (g_mf g, (g_ms g, g_err g))) as [[mf1 [ms1 e1]] v].
    unfold wfG; cbn [fst g_heap g_readers]. split; [split|]; auto.
  - destruct (bst_calls cap fmt calls (g_mf g, (g_ms g, g_err g))) as [[mf1 [ms1 e1]] v].
    unfold wfG; cbn [fst g_heap g_readers]. split; [split|]; auto.
  - unfold wfG; cbn [fst g_heap g_readers]. split; [split|]; auto.
  - cbn [fst]. split; [split|]; auto.
Qed.

Lemma step_cell0 cap fmt g co : wfG g ->
  let g1 := fst (step cap fmt g co) in wfG g1 /\ h_get (g_heap g1) 0 = h_get (g_heap g) 0.
Proof.
  intros Hwf. destruct co as [cpt o]. cbv zeta. unfold step.
  destruct cpt.
  - pose proof (exec_cell0 cap fmt (with_err (with_err g (clear_stderr (g_err g))) (capture_enter (g_err (with_err g (clear_stderr (g_err g)))))) o Hwf) as H.
    cbv zeta in H. destruct (exec cap fmt _ o) as [g1 v]. cbn [fst] in *. exact H.
  - pose proof (exec_cell0 cap fmt (with_err g (clear_stderr (g_err g))) o Hwf) as H.
    cbv zeta in H. destruct (exec cap fmt _ o) as [g1 v]. cbn [fst] in *. exact H.
Qed.

Lemma run_cell0 cap fmt cos : forall g, wfG g ->
  wfG (final cap fmt g cos) /\ h_get (g_heap (final cap fmt g cos)) 0 = h_get (g_heap g) 0.
Proof.
  unfold final. induction cos as [|co r IH]; intros g Hwf; cbn [run fst]; auto.
  pose proof (step_cell0 cap fmt g co Hwf) as Hst. cbv zeta in Hst.
  destruct (step cap fmt g co) as [g1 out]. cbn [fst] in Hst. destruct Hst as [Hw1 Hc1].
  specialize (IH g1 Hw1). destruct (run cap fmt g1 r) as [g2 outs]. cbn [fst] in *.
  destruct IH as [Hw2 Hc2]. split; auto. congruence.
Qed.

Lemma wfG0 : wfG G0.
Proof. split; cbn; auto. Qed.

Lemma month_names_invariant_lemma cap fmt cos :
  h_get (g_heap (final cap fmt G0 cos)) 0 = mkCell false month_names.
Proof. destruct (run_cell0 cap fmt cos G0 wfG0) as [_ Hc]. rewrite Hc. reflexivity. Qed.

(* ------------------------------------------------------------------------------------- *)
(* a fresh reader's result depends on the process state only through month_names and the
   reporting cells: not on other readers, their macro tables, or the name caches *)
Lemma parse_isolated_lemma cap fmt g g' c macros files :
  h_get (g_heap g) 0 = h_get (g_heap g') 0 -> g_err g = g_err g' ->
  snd (step cap fmt g (c, OParse macros files)) = snd (step cap fmt g' (c, OParse macros files)).
Proof.
  intros Hh He. unfold step, exec, new_macros. destruct c; cbn [with_err g_err g_heap g_readers g_ms g_mf];
    rewrite Hh, He;
    destruct (feed_files _ _ files _) as [[[c2 rd2] e2] u]; reflexivity.
Qed.

Lemma parse_history_independent_lemma cap fmt cos c macros files :
  let g := final cap fmt G0 cos in
  snd (step cap fmt g (c, OParse macros files)) = snd (step cap fmt (with_err G0 (g_err g)) (c, OParse macros files)).
Proof.
  cbv zeta. apply parse_isolated_lemma; [|reflexivity].
  destruct (run_cell0 cap fmt cos G0 wfG0) as [_ Hc]. rewrite Hc. reflexivity.
Qed.

(* files of one reader accumulate: parsing fs1 ++ fs2 is parsing fs2 in the state fs1 left *)
Lemma feed_files_app fs1 : forall fs2 cell rd e,
  feed_files cell rd (fs1 ++ fs2) e =
  let '((c1, rd1, e1), u) := feed_files cell rd fs1 e in
  match u with Ok _ => feed_files c1 rd1 fs2 e1 | PyErr c l => ((c1, rd1, e1), PyErr c l) | Crash => ((c1, rd1, e1), Crash) | OutOfFuel => ((c1, rd1, e1), OutOfFuel) end.
Proof.
  induction fs1 as [|f r IH]; intros fs2 cell rd e; cbn [app feed_files].
  - destruct (feed_files cell rd fs2 e) as [[[? ?] ?] ?]; reflexivity.
  - destruct (feed cell rd f e) as [[[c1 rd1] e1] u]. destruct u as [[]| | |]; cbn [lift_res]; auto.
Qed.

(* ------------------------------------------------------------------------------------- *)
(* the memoised format.name$ path *)
Lemma str_eqb_eq a b : str_eqb a b = true <-> a = b.
Proof. destruct (str_eqb_spec a b); split; auto; discriminate. Qed.

Lemma nkey_eqb_eq a b : nkey_eqb a b = true <-> a = b.
Proof.
  destruct a as [[a1 a2] a3], b as [[b1 b2] b3]. unfold nkey_eqb.
  rewrite !andb_true_iff, !str_eqb_eq, Z.eqb_eq. split.
  - intros [[? ?] ?]; subst; reflexivity.
  - intro H; inversion H; auto.
Qed.

(* what _format_name computes when nothing is cached *)
Definition pure_fmt (fmt : fmt_fun) (k : nkey) : res str :=
  let '(names, n, format) := k in
  match split_name_list names with
  | Ok split => if (Z.leb 1 n && Z.leb n (Z.of_nat (length split)))%bool
                then snd (fmt (nth (Z.to_nat (n - 1)) split []) format) else PyErr E_BIBTEXERR (-1)%Z
  | PyErr c l => PyErr c l
  | Crash => Crash
  | OutOfFuel => OutOfFuel
  end.

(* a name formatter that reports nothing through report_error *)
Definition quiet (fmt : fmt_fun) : Prop := forall n f, fst (fmt n f) = [].

Definition split_inv (cap : nat) (e0 : errs) (s : memo str (list str) * errs) : Prop :=
  memo_ok cap (fst s) /\ valid str_eqb split_name_list (fst s) /\ snd s = e0.

Lemma format_name_f_spec cap fmt e0 : 0 < cap -> quiet fmt ->
  forall k s, split_inv cap e0 s ->
    split_inv cap e0 (fst (format_name_f cap fmt k s)) /\ snd (format_name_f cap fmt k s) = pure_fmt fmt k.
Proof.
  intros Hcap Hq [[names n] format] [ms e] (Hok & Hv & He). cbn [fst snd] in *. subst e.
  unfold format_name_f, pure_fmt.
  pose proof (memo_call_spec str_eqb str_eqb_eq split_name_list (fun e => e = e0) cap split_names_f Hcap) as Hs.
  specialize (Hs (fun k s H => conj H eq_refl) names ms e0 Hok Hv eq_refl). cbv zeta in Hs.
  destruct (memo_call str_eqb cap split_names_f names (ms, e0)) as [[ms1 e1] r]. cbn [fst snd] in Hs.
  destruct Hs as (Hr & Hok1 & Hv1 & He1). subst e1 r.
  destruct (split_name_list names) as [split| | |]; cbn [lift_res fst snd]; try (unfold split_inv; cbn [fst snd]; repeat split; auto; try apply Hok1; fail).
  destruct (Z.leb 1 n && Z.leb n (Z.of_nat (length split)))%bool; [|unfold split_inv; cbn [fst snd]; repeat split; auto; try apply Hok1].
  pose proof (Hq (nth (Z.to_nat (n - 1)) split []) format) as Hq1.
  destruct (fmt (nth (Z.to_nat (n - 1)) split []) format) as [reps v]. cbn [fst snd] in *. subst reps.
  cbn [report_all lift_res fst snd]. unfold split_inv; cbn [fst snd]; repeat split; auto; try apply Hok1.
Qed.

Ltac msplit := unfold split_inv; cbn [fst snd g_ms g_mf]; repeat match goal with |- _ /\ _ => split end; auto.

Definition memos_ok (cap : nat) (fmt : fmt_fun) (g : G) : Prop :=
  memo_ok cap (g_ms g) /\ valid str_eqb split_name_list (g_ms g) /\
  memo_ok cap (g_mf g) /\ valid nkey_eqb (pure_fmt fmt) (g_mf g).

Lemma format_call_spec cap fmt k mf ms e : 0 < cap -> quiet fmt ->
  memo_ok cap ms -> valid str_eqb split_name_list ms -> memo_ok cap mf -> valid nkey_eqb (pure_fmt fmt) mf ->
  let r := memo_call nkey_eqb cap (format_name_f cap fmt) k (mf, (ms, e)) in
  snd r = pure_fmt fmt k /\ memo_ok cap (fst (fst r)) /\ valid nkey_eqb (pure_fmt fmt) (fst (fst r)) /\
  split_inv cap e (snd (fst r)).
Proof.
  intros Hcap Hq H1 H2 H3 H4.
  apply (memo_call_spec nkey_eqb nkey_eqb_eq (pure_fmt fmt) (split_inv cap e) cap (format_name_f cap fmt) Hcap); auto.
  - intros k0 s Hs. apply format_name_f_spec; auto.
  - unfold split_inv; cbn [fst snd]; auto.
Qed.

Lemma bst_calls_spec cap fmt : 0 < cap -> quiet fmt -> forall ks mf ms e,
  memo_ok cap ms -> valid str_eqb split_name_list ms -> memo_ok cap mf -> valid nkey_eqb (pure_fmt fmt) mf ->
  let r := bst_calls cap fmt ks (mf, (ms, e)) in
  memo_ok cap (fst (fst r)) /\ valid nkey_eqb (pure_fmt fmt) (fst (fst r)) /\ split_inv cap e (snd (fst r)).
Proof.
  intros Hcap Hq. induction ks as [|k r IH]; intros mf ms e H1 H2 H3 H4; cbv zeta; cbn [bst_calls fst snd].
  - msplit.
  - pose proof (format_call_spec cap fmt k mf ms e Hcap Hq H1 H2 H3 H4) as Hc. cbv zeta in Hc.
    destruct (memo_call nkey_eqb cap (format_name_f cap fmt) k (mf, (ms, e))) as [[mf1 [ms1 e1]] v].
    cbn [fst snd] in Hc. destruct Hc as (_ & Hc1 & Hc2 & (Hc3 & Hc4 & Hc5)). cbn [fst snd] in *. subst e1.
    destruct v as [s| | |]; cbn [lift_res fst snd]; try (msplit; fail).
    specialize (IH mf1 ms1 e Hc3 Hc4 Hc1 Hc2). cbv zeta in IH.
    destruct (bst_calls cap fmt r (mf1, (ms1, e))) as [[mf2 [ms2 e2]] rr]. cbn [fst snd] in *.
    destruct rr; cbn [lift_res fst snd]; auto.
Qed.

Lemma exec_memos_ok cap fmt g o : 0 < cap -> quiet fmt -> memos_ok cap fmt g -> memos_ok cap fmt (fst (exec cap fmt g o)).
Proof.
  intros Hcap Hq (H1 & H2 & H3 & H4). unfold memos_ok.
  destruct o as [m|r file|m files|src file|names n format|calls|b|id]; cbn [exec].
  - unfold new_reader. cbn [fst]. msplit.
  - destruct (nth_error (g_readers g) r) as [rd|]; [|msplit].
    destruct (feed _ rd file (g_err g)) as [[[c1 rd1] e1] u]. msplit.
  - destruct (feed_files _ _ files (g_err g)) as [[[c2 rd2] e2] u]. msplit.
  - destruct src as [r|].
    + destruct (nth_error (g_readers g) r) as [rd|]; [|msplit].
      destruct (lowlevel false _ file (g_err g)) as [[cell1 e1] rr]. msplit.
    + destruct (lowlevel false _ file (g_err g)) as [[cell1 e1] rr]. msplit.
  - pose proof (format_call_spec cap fmt (names, n, format) (g_mf g) (g_ms g) (g_err g) Hcap Hq H1 H2 H3 H4) as Hc.
    cbv zeta in Hc. destruct (memo_call nkey_eqb cap (format_name_f cap fmt) (names, n, format) _) as [[mf1 [ms1 e1]] v].
    cbn [fst snd] in *. destruct Hc as (_ & Hc1 & Hc2 & (Hc3 & Hc4 & _)). msplit.
  - pose proof (bst_calls_spec cap fmt Hcap Hq calls (g_mf g) (g_ms g) (g_err g) H1 H2 H3 H4) as Hc.
    cbv zeta in Hc. destruct (bst_calls cap fmt calls _) as [[mf1 [ms1 e1]] v].
    cbn [fst snd] in *. destruct Hc as (Hc1 & Hc2 & (Hc3 & Hc4 & _)). msplit.
  - msplit.
  - msplit.
Qed.

Lemma step_memos_ok cap fmt g co : 0 < cap -> quiet fmt -> memos_ok cap fmt g -> memos_ok cap fmt (fst (step cap fmt g co)).
Proof.
  intros Hcap Hq Hm. destruct co as [cpt o]. unfold step. destruct cpt.
  - pose proof (exec_memos_ok cap fmt (with_err (with_err g (clear_stderr (g_err g))) (capture_enter (g_err (with_err g (clear_stderr (g_err g)))))) o Hcap Hq Hm) as H.
    destruct (exec cap fmt _ o) as [g1 v]. cbn [fst] in *. exact H.
  - pose proof (exec_memos_ok cap fmt (with_err g (clear_stderr (g_err g))) o Hcap Hq Hm) as H.
    destruct (exec cap fmt _ o) as [g1 v]. cbn [fst] in *. exact H.
Qed.

Lemma run_memos_ok cap fmt cos : 0 < cap -> quiet fmt -> forall g, memos_ok cap fmt g -> memos_ok cap fmt (final cap fmt g cos).
Proof.
  intros Hcap Hq. unfold final. induction cos as [|co r IH]; intros g Hm; cbn [run fst]; auto.
  pose proof (step_memos_ok cap fmt g co Hcap Hq Hm) as Hs.
  destruct (step cap fmt g co) as [g1 out]. cbn [fst] in Hs. specialize (IH g1 Hs).
  destruct (run cap fmt g1 r) as [g2 outs]. exact IH.
Qed.

Lemma memos_ok_G0 cap fmt e : memos_ok cap fmt (with_err G0 e).
Proof. repeat split; cbn; try constructor; try lia; intros k v H; discriminate. Qed.

(* the complete outcome of a format.name$ call in any state whose caches are well formed *)
Lemma step_format_name_out cap fmt g c names n format : 0 < cap -> quiet fmt -> memos_ok cap fmt g ->
  snd (step cap fmt g (c, OFormatName names n format)) =
  let e := clear_stderr (g_err g) in
  mkOut (map_res_val VStr (pure_fmt fmt (names, n, format))) [] (if c then Some [] else None).
Proof.
  intros Hcap Hq (H1 & H2 & H3 & H4). unfold step. destruct c; cbn [exec with_err g_mf g_ms g_err g_heap g_readers].
  - pose proof (format_call_spec cap fmt (names, n, format) (g_mf g) (g_ms g) (capture_enter (clear_stderr (g_err g))) Hcap Hq H1 H2 H3 H4) as Hc.
    cbv zeta in Hc. destruct (memo_call nkey_eqb cap (format_name_f cap fmt) (names, n, format) _) as [[mf1 [ms1 e1]] v].
    cbn [fst snd] in *. destruct Hc as (Hv & _ & _ & (_ & _ & He)). cbn [snd] in He. subst. reflexivity.
  - pose proof (format_call_spec cap fmt (names, n, format) (g_mf g) (g_ms g) (clear_stderr (g_err g)) Hcap Hq H1 H2 H3 H4) as Hc.
    cbv zeta in Hc. destruct (memo_call nkey_eqb cap (format_name_f cap fmt) (names, n, format) _) as [[mf1 [ms1 e1]] v].
    cbn [fst snd] in *. destruct Hc as (Hv & _ & _ & (_ & _ & He)). cbn [snd] in He. subst. reflexivity.
Qed.

Lemma format_name_history_independent_lemma cap fmt cos c names n format : 0 < cap -> quiet fmt ->
  snd (step cap fmt (final cap fmt G0 cos) (c, OFormatName names n format)) =
  snd (step cap fmt G0 (c, OFormatName names n format)).
Proof.
  intros Hcap Hq. rewrite !step_format_name_out; auto.
  - apply (memos_ok_G0 cap fmt errs0).
  - apply run_memos_ok; auto. apply (memos_ok_G0 cap fmt errs0).
Qed.

(* ------------------------------------------------------------------------------------- *)
(* packaged statements and refutation witnesses *)
Lemma memo_transparent_lemma {K V S} (keqb : K -> K -> bool) (Hk : forall a b, keqb a b = true <-> a = b)
  (g : K -> res V) cap (f : K -> S -> S * res V) ks s0 :
  0 < cap -> (forall k s, snd (f k s) = g k) ->
  snd (memo_run keqb cap f ks (memo0, s0)) = map g ks /\
  memo_ok cap (fst (fst (memo_run keqb cap f ks (memo0, s0)))).
Proof.
  intros Hcap Hf.
  pose proof (memo_run_spec keqb Hk g (fun _ => True) cap f Hcap (fun k s _ => conj I (Hf k s)) ks memo0 s0
                (memo0_ok cap) (memo0_valid keqb g) I) as H.
  cbv zeta in H. tauto.
Qed.

Definition no_fmt : fmt_fun := fun _ _ => ([], Ok []).

(* a formatter that reports 'Too many commas' for every name (as Person(name) does for 'a, b, c, d') *)
Definition noisy_fmt : fmt_fun := fun n _ => ([(E_NAME, n)], Ok n).
Definition probe_name : op := OFormatName [97%N] 1%Z [].

(* F19: inside errors.capture() the repeated call reports nothing *)
Lemma reports_refuted_lemma :
  exists cap fmt cos c o, 0 < cap /\
    o_captured (snd (step cap fmt (final cap fmt G0 cos) (c, o))) <> o_captured (snd (step cap fmt G0 (c, o))).
Proof. exists 1024, noisy_fmt, [(true, probe_name)], true, probe_name. split; [lia|]. vm_compute. discriminate. Qed.

(* F19, strict mode: the call that raises in a fresh process returns normally after a captured run *)
Lemma value_refuted_lemma :
  exists cap fmt cos c o, 0 < cap /\
    o_val (snd (step cap fmt (final cap fmt G0 cos) (c, o))) <> o_val (snd (step cap fmt G0 (c, o))).
Proof. exists 1024, noisy_fmt, [(true, probe_name)], false, probe_name. split; [lia|]. vm_compute. discriminate. Qed.

(* ------------------------------------------------------------------------------------- *)
(* the same without any assumption on the name formatter: the caches only ever hold correct values,
   and inside errors.capture() the VALUE of format.name$ is history independent (F19 is about the
   reports, and about strict mode, only) *)
Definition split_ok (cap : nat) (s : memo str (list str) * errs) : Prop :=
  memo_ok cap (fst s) /\ valid str_eqb split_name_list (fst s).

Lemma split_call_any cap names ms e : 0 < cap -> memo_ok cap ms -> valid str_eqb split_name_list ms ->
  let r := memo_call str_eqb cap split_names_f names (ms, e) in
  snd r = split_name_list names /\ memo_ok cap (fst (fst r)) /\ valid str_eqb split_name_list (fst (fst r)) /\ snd (fst r) = e.
Proof.
  intros Hcap Hok Hv.
  exact (memo_call_spec str_eqb str_eqb_eq split_name_list (fun e' => e' = e) cap split_names_f Hcap
           (fun k s H => conj H eq_refl) names ms e Hok Hv eq_refl).
Qed.

Lemma format_name_f_any cap fmt : 0 < cap -> forall k s, split_ok cap s ->
  split_ok cap (fst (format_name_f cap fmt k s)) /\
  (forall v, snd (format_name_f cap fmt k s) = Ok v -> pure_fmt fmt k = Ok v).
Proof.
  intros Hcap [[names n] format] [ms e] (Hok & Hv). cbn [fst snd] in *.
  unfold format_name_f, pure_fmt.
  pose proof (split_call_any cap names ms e Hcap Hok Hv) as Hs. cbv zeta in Hs.
  destruct (memo_call str_eqb cap split_names_f names (ms, e)) as [[ms1 e1] r]. cbn [fst snd] in Hs.
  destruct Hs as (Hr & Hok1 & Hv1 & He1). subst e1 r. unfold split_ok.
  destruct (split_name_list names) as [sp|c l| |]; cbn [lift_res fst snd].
  2: { split; [split; assumption|]. intros v H; exact H. }
  2: { split; [split; assumption|]. intros v H; exact H. }
  2: { split; [split; assumption|]. intros v H; exact H. }
  destruct (Z.leb 1 n && Z.leb n (Z.of_nat (length sp)))%bool; [|split; [split; assumption|intros v H; discriminate H]].
  destruct (fmt (nth (Z.to_nat (n - 1)) sp []) format) as [reps v]. cbn [fst snd].
  destruct (report_all reps e) as [e1 u]. destruct u as [[]| | |]; cbn [lift_res fst snd];
    (split; [split; assumption|]); auto; intros v0 H; discriminate H.
Qed.

(* inside capture() every report is stored and none raises *)
Lemma report_all_captured xs : forall e, (exists l, e_captured e = Some l) ->
  snd (report_all xs e) = Ok tt /\ exists l', e_captured (fst (report_all xs e)) = Some l'.
Proof.
  induction xs as [|x r IH]; intros e [l Hl]; cbn [report_all fst snd]; [eauto|].
  unfold report_error. rewrite Hl. cbn [fst snd]. apply IH. cbn [e_captured]. eauto.
Qed.

Lemma format_name_f_captured cap fmt : 0 < cap -> forall k ms e, split_ok cap (ms, e) ->
  (exists l, e_captured e = Some l) -> snd (format_name_f cap fmt k (ms, e)) = pure_fmt fmt k.
Proof.
  intros Hcap [[names n] format] ms e (Hok & Hv) Hc. cbn [fst snd] in *.
  unfold format_name_f, pure_fmt.
  pose proof (split_call_any cap names ms e Hcap Hok Hv) as Hs. cbv zeta in Hs.
  destruct (memo_call str_eqb cap split_names_f names (ms, e)) as [[ms1 e1] r]. cbn [fst snd] in Hs.
  destruct Hs as (Hr & Hok1 & Hv1 & He1). subst e1 r.
  destruct (split_name_list names) as [split| | |]; cbn [lift_res fst snd]; auto.
  destruct (Z.leb 1 n && Z.leb n (Z.of_nat (length split)))%bool; auto.
  destruct (fmt (nth (Z.to_nat (n - 1)) split []) format) as [reps v]. cbn [fst snd].
  destruct (report_all_captured reps e Hc) as (Hu & _).
  destruct (report_all reps e) as [e1 u]. cbn [snd] in Hu. subst u. reflexivity.
Qed.

Definition caches_ok (cap : nat) (fmt : fmt_fun) (g : G) : Prop :=
  memo_ok cap (g_ms g) /\ valid str_eqb split_name_list (g_ms g) /\
  memo_ok cap (g_mf g) /\ valid nkey_eqb (pure_fmt fmt) (g_mf g).

Lemma format_call_any cap fmt k mf ms e : 0 < cap ->
  memo_ok cap ms -> valid str_eqb split_name_list ms -> memo_ok cap mf -> valid nkey_eqb (pure_fmt fmt) mf ->
  let r := memo_call nkey_eqb cap (format_name_f cap fmt) k (mf, (ms, e)) in
  memo_ok cap (fst (fst r)) /\ valid nkey_eqb (pure_fmt fmt) (fst (fst r)) /\ split_ok cap (snd (fst r)) /\
  (forall v, snd r = Ok v -> pure_fmt fmt k = Ok v).
Proof.
  intros Hcap H1 H2 H3 H4.
  apply (memo_call_weak nkey_eqb nkey_eqb_eq (pure_fmt fmt) (split_ok cap) cap (format_name_f cap fmt) Hcap); auto.
  - intros k0 s Hs. apply format_name_f_any; auto.
  - split; auto.
Qed.

Lemma bst_calls_any cap fmt : 0 < cap -> forall ks mf ms e,
  memo_ok cap ms -> valid str_eqb split_name_list ms -> memo_ok cap mf -> valid nkey_eqb (pure_fmt fmt) mf ->
  let r := bst_calls cap fmt ks (mf, (ms, e)) in
  memo_ok cap (fst (fst r)) /\ valid nkey_eqb (pure_fmt fmt) (fst (fst r)) /\ split_ok cap (snd (fst r)).
Proof.
  intros Hcap. induction ks as [|k r IH]; intros mf ms e H1 H2 H3 H4; cbv zeta; cbn [bst_calls fst snd].
  - unfold split_ok; cbn [fst snd]; auto.
  - pose proof (format_call_any cap fmt k mf ms e Hcap H1 H2 H3 H4) as Hc. cbv zeta in Hc.
    destruct (memo_call nkey_eqb cap (format_name_f cap fmt) k (mf, (ms, e))) as [[mf1 [ms1 e1]] v].
    cbn [fst snd] in Hc. destruct Hc as (Hc1 & Hc2 & (Hc3 & Hc4) & _). cbn [fst snd] in *.
    destruct v as [s| | |]; cbn [lift_res fst snd]; try (unfold split_ok; cbn [fst snd]; auto; fail).
    specialize (IH mf1 ms1 e1 Hc3 Hc4 Hc1 Hc2). cbv zeta in IH.
    destruct (bst_calls cap fmt r (mf1, (ms1, e1))) as [[mf2 [ms2 e2]] rr]. cbn [fst snd] in *.
    destruct rr; cbn [lift_res fst snd]; auto.
Qed.

Lemma exec_caches_ok cap fmt g o : 0 < cap -> caches_ok cap fmt g -> caches_ok cap fmt (fst (exec cap fmt g o)).
Proof.
  intros Hcap (H1 & H2 & H3 & H4). unfold caches_ok.
  destruct o as [m|r file|m files|src file|names n format|calls|b|id]; cbn [exec].
  - unfold new_reader. cbn [fst]. msplit.
  - destruct (nth_error (g_readers g) r) as [rd|]; [|msplit].
    destruct (feed _ rd file (g_err g)) as [[[c1 rd1] e1] u]. msplit.
  - destruct (feed_files _ _ files (g_err g)) as [[[c2 rd2] e2] u]. msplit.
  - destruct src as [r|].
    + destruct (nth_error (g_readers g) r) as [rd|]; [|msplit].
      destruct (lowlevel false _ file (g_err g)) as [[cell1 e1] rr]. msplit.
    + destruct (lowlevel false _ file (g_err g)) as [[cell1 e1] rr]. msplit.
  - pose proof (format_call_any cap fmt (names, n, format) (g_mf g) (g_ms g) (g_err g) Hcap H1 H2 H3 H4) as Hc.
    cbv zeta in Hc. destruct (memo_call nkey_eqb cap (format_name_f cap fmt) (names, n, format) _) as [[mf1 [ms1 e1]] v].
    cbn [fst snd] in *. destruct Hc as (Hc1 & Hc2 & (Hc3 & Hc4) & _). msplit.
  - pose proof (bst_calls_any cap fmt Hcap calls (g_mf g) (g_ms g) (g_err g) H1 H2 H3 H4) as Hc.
    cbv zeta in Hc. destruct (bst_calls cap fmt calls _) as [[mf1 [ms1 e1]] v].
    cbn [fst snd] in *. destruct Hc as (Hc1 & Hc2 & (Hc3 & Hc4)). msplit.
  - msplit.
  - msplit.
Qed.

Lemma step_caches_ok cap fmt g co : 0 < cap -> caches_ok cap fmt g -> caches_ok cap fmt (fst (step cap fmt g co)).
Proof.
  intros Hcap Hm. destruct co as [cpt o]. unfold step. destruct cpt.
  - pose proof (exec_caches_ok cap fmt (with_err (with_err g (clear_stderr (g_err g))) (capture_enter (g_err (with_err g (clear_stderr (g_err g)))))) o Hcap Hm) as H.
    destruct (exec cap fmt _ o) as [g1 v]. cbn [fst] in *. exact H.
  - pose proof (exec_caches_ok cap fmt (with_err g (clear_stderr (g_err g))) o Hcap Hm) as H.
    destruct (exec cap fmt _ o) as [g1 v]. cbn [fst] in *. exact H.
Qed.

Lemma run_caches_ok cap fmt cos : 0 < cap -> forall g, caches_ok cap fmt g -> caches_ok cap fmt (final cap fmt g cos).
Proof.
  intros Hcap. unfold final. induction cos as [|co r IH]; intros g Hm; cbn [run fst]; auto.
  pose proof (step_caches_ok cap fmt g co Hcap Hm) as Hs.
  destruct (step cap fmt g co) as [g1 out]. cbn [fst] in Hs. specialize (IH g1 Hs).
  destruct (run cap fmt g1 r) as [g2 outs]. exact IH.
Qed.

Lemma caches_ok_G0 cap fmt : caches_ok cap fmt G0.
Proof. repeat split; cbn; try constructor; try lia; intros k v H; discriminate. Qed.

(* inside capture(): the value of a format.name$ call in any state with well-formed caches *)
Lemma step_format_name_captured cap fmt g names n format : 0 < cap -> caches_ok cap fmt g ->
  o_val (snd (step cap fmt g (true, OFormatName names n format))) = map_res_val VStr (pure_fmt fmt (names, n, format)).
Proof.
  intros Hcap (H1 & H2 & H3 & H4). unfold step. cbn [exec with_err g_mf g_ms g_err g_heap g_readers].
  set (e := capture_enter (clear_stderr (g_err g))).
  pose proof (memo_call_inv nkey_eqb nkey_eqb_eq cap (format_name_f cap fmt) (names, n, format) (g_mf g) (g_ms g, e) Hcap H3) as Hinv.
  cbv zeta in Hinv. destruct Hinv as (_ & [(v & Hl & Hr) | (Hl & Hr & _)]).
  - rewrite Hr. cbn [o_val snd]. rewrite (H4 _ _ Hl). reflexivity.
  - assert (Hp : snd (format_name_f cap fmt (names, n, format) (g_ms g, e)) = pure_fmt fmt (names, n, format)).
    { apply format_name_f_captured; auto. split; auto. unfold e. cbn. eauto. }
    destruct (memo_call nkey_eqb cap (format_name_f cap fmt) (names, n, format) (g_mf g, (g_ms g, e))) as [[mf1 [ms1 e1]] v].
    cbn [snd] in Hr. cbn [o_val snd]. rewrite Hr, Hp. reflexivity.
Qed.

Lemma format_name_value_in_capture_lemma cap fmt cos names n format : 0 < cap ->
  o_val (snd (step cap fmt (final cap fmt G0 cos) (true, OFormatName names n format))) =
  o_val (snd (step cap fmt G0 (true, OFormatName names n format))).
Proof.
  intros Hcap. rewrite !step_format_name_captured; auto.
  - apply caches_ok_G0.
  - apply run_caches_ok; auto. apply caches_ok_G0.
Qed.

(* ------------------------------------------------------------------------------------- *)
(* a whole BST run's format.name$ calls, quiet formatter: history independent *)
Fixpoint bst_pure (fmt : fmt_fun) (ks : list nkey) : res (list str) :=
  match ks with
  | [] => Ok []
  | k :: r =>
    match pure_fmt fmt k with
    | Ok s => match bst_pure fmt r with Ok l => Ok (s :: l) | PyErr c l => PyErr c l | Crash => Crash | OutOfFuel => OutOfFuel end
    | PyErr c l => PyErr c l
    | Crash => Crash
    | OutOfFuel => OutOfFuel
    end
  end.

Lemma bst_calls_value cap fmt : 0 < cap -> quiet fmt -> forall ks mf ms e,
  memo_ok cap ms -> valid str_eqb split_name_list ms -> memo_ok cap mf -> valid nkey_eqb (pure_fmt fmt) mf ->
  let r := bst_calls cap fmt ks (mf, (ms, e)) in
  snd r = bst_pure fmt ks /\ snd (snd (fst r)) = e.
Proof.
  intros Hcap Hq. induction ks as [|k r IH]; intros mf ms e H1 H2 H3 H4; cbv zeta; cbn [bst_calls bst_pure fst snd]; auto.
  pose proof (format_call_spec cap fmt k mf ms e Hcap Hq H1 H2 H3 H4) as Hc. cbv zeta in Hc.
  destruct (memo_call nkey_eqb cap (format_name_f cap fmt) k (mf, (ms, e))) as [[mf1 [ms1 e1]] v].
  cbn [fst snd] in Hc. destruct Hc as (Hv & Hc1 & Hc2 & (Hc3 & Hc4 & Hc5)). cbn [fst snd] in *. subst e1 v.
  destruct (pure_fmt fmt k) as [s| | |]; cbn [lift_res fst snd]; auto.
  specialize (IH mf1 ms1 e Hc3 Hc4 Hc1 Hc2). cbv zeta in IH.
  destruct (bst_calls cap fmt r (mf1, (ms1, e))) as [[mf2 [ms2 e2]] rr]. cbn [fst snd] in *.
  destruct IH as (IH1 & IH2). subst rr e2.
  destruct (bst_pure fmt r); cbn [lift_res fst snd]; auto.
Qed.

Lemma step_bst_out cap fmt g c calls : 0 < cap -> quiet fmt -> memos_ok cap fmt g ->
  snd (step cap fmt g (c, OBstRun calls)) =
  mkOut (map_res_val VStrs (bst_pure fmt calls)) [] (if c then Some [] else None).
Proof.
  intros Hcap Hq (H1 & H2 & H3 & H4). unfold step. destruct c; cbn [exec with_err g_mf g_ms g_err g_heap g_readers].
  - pose proof (bst_calls_value cap fmt Hcap Hq calls (g_mf g) (g_ms g) (capture_enter (clear_stderr (g_err g))) H1 H2 H3 H4) as Hc.
    cbv zeta in Hc. destruct (bst_calls cap fmt calls _) as [[mf1 [ms1 e1]] v].
    cbn [fst snd] in *. destruct Hc as (Hv & He). subst. reflexivity.
  - pose proof (bst_calls_value cap fmt Hcap Hq calls (g_mf g) (g_ms g) (clear_stderr (g_err g)) H1 H2 H3 H4) as Hc.
    cbv zeta in Hc. destruct (bst_calls cap fmt calls _) as [[mf1 [ms1 e1]] v].
    cbn [fst snd] in *. destruct Hc as (Hv & He). subst. reflexivity.
Qed.

Lemma bst_run_history_independent_lemma cap fmt cos c calls : 0 < cap -> quiet fmt ->
  snd (step cap fmt (final cap fmt G0 cos) (c, OBstRun calls)) = snd (step cap fmt G0 (c, OBstRun calls)).
Proof.
  intros Hcap Hq. rewrite !step_bst_out; auto.
  - apply (memos_ok_G0 cap fmt errs0).
  - apply run_memos_ok; auto. apply (memos_ok_G0 cap fmt errs0).
Qed.

(* ------------------------------------------------------------------------------------- *)
(* any property of the reporting cells that report_error preserves is preserved by every call *)
Lemma memo_call_state {K V S} (keqb : K -> K -> bool) cap (f : K -> S -> S * res V) k m s :
  snd (fst (memo_call keqb cap f k (m, s))) = s \/ snd (fst (memo_call keqb cap f k (m, s))) = fst (f k s).
Proof.
  unfold memo_call. destruct (m_lookup keqb k (memory m)); [left; reflexivity|].
  destruct (evict keqb cap m) as [m1 ev]. destruct ev as [u| | |]; try (left; reflexivity).
  destruct (f k s) as [s' r]. destruct r; right; reflexivity.
Qed.

Section ErrInv.
  Variable P : errs -> Prop.
  Hypothesis P_report : forall x e, P e -> P (fst (report_error x e)).

  Lemma ll_report_P via x e : P e -> P (fst (ll_report via x e)).
  Proof. destruct via; cbn [ll_report fst]; auto. Qed.

  Lemma report_all_P xs : forall e, P e -> P (fst (report_all xs e)).
  Proof.
    induction xs as [|x r IH]; intros e He; cbn [report_all fst]; auto.
    pose proof (P_report x e He) as H1. destruct (report_error x e) as [e1 u]. cbn [fst] in H1.
    destruct u; cbn [fst]; auto.
  Qed.

  Lemma ll_value_P via cell v : forall e, P e -> P (fst (ll_value via cell v e)).
  Proof.
    induction v as [|p r IH]; intros e He; cbn [ll_value fst]; auto.
    destruct p as [s|m].
    - specialize (IH e He). destruct (ll_value via cell r e) as [e1 rr]. cbn [fst] in IH.
      apply (lift_res_fst e1 rr _ P); auto.
    - destruct (cell_get cell m).
      + specialize (IH e He). destruct (ll_value via cell r e) as [e1 rr]. cbn [fst] in IH.
        apply (lift_res_fst e1 rr _ P); auto.
      + pose proof (ll_report_P via (E_UNDEF, m) e He) as H0.
        destruct (ll_report via (E_UNDEF, m) e) as [e0 u]. cbn [fst] in H0.
        apply (lift_res_fst e0 u _ P); auto. intros _ _.
        specialize (IH e0 H0). destruct (ll_value via cell r e0) as [e1 rr]. cbn [fst] in IH.
        apply (lift_res_fst e1 rr _ P); auto.
  Qed.

  Lemma ll_fields_P via cell fs : forall e, P e -> P (fst (ll_fields via cell fs e)).
  Proof.
    induction fs as [|[n v] r IH]; intros e He; cbn [ll_fields fst]; auto.
    pose proof (ll_value_P via cell v e He) as H1. destruct (ll_value via cell v e) as [e1 pv]. cbn [fst] in H1.
    apply (lift_res_fst e1 pv _ P); auto. intros parts _.
    specialize (IH e1 H1). destruct (ll_fields via cell r e1) as [e2 rr]. cbn [fst] in IH.
    apply (lift_res_fst e2 rr _ P); auto.
  Qed.

  Lemma ll_command_P via kl cell c e : P e -> P (snd (fst (ll_command via kl cell c e))).
  Proof.
    intro He. destruct c as [name v|v|typ key fs| |]; cbn [ll_command fst snd]; auto.
    - pose proof (ll_value_P via cell v e He) as H1. destruct (ll_value via cell v e) as [e1 pv]. cbn [fst] in H1.
      apply (lift_res_fst (cell, e1) pv _ (fun x => P (snd x))); auto.
    - pose proof (ll_value_P via cell v e He) as H1. destruct (ll_value via cell v e) as [e1 pv]. cbn [fst] in H1.
      apply (lift_res_fst (cell, e1) pv _ (fun x => P (snd x))); auto.
    - pose proof (ll_fields_P via cell fs e He) as H1. destruct (ll_fields via cell fs e) as [e1 pf]. cbn [fst] in H1.
      apply (lift_res_fst (cell, e1) pf _ (fun x => P (snd x))); auto.
    - pose proof (ll_report_P via (E_SYNTAX, []) e He) as H1. destruct (ll_report via (E_SYNTAX, []) e) as [e1 u]. cbn [fst] in H1.
      apply (lift_res_fst (cell, e1) u _ (fun x => P (snd x))); auto.
  Qed.

  Lemma add_persons_P role names : forall en e, P e -> P (fst (add_persons role names en e)).
  Proof.
    induction names as [|nm r IH]; intros en e He; cbn [add_persons fst]; auto.
    apply (lift_res_fst e (person_of_string nm) _ P); auto. intros pr _.
    assert (H1 : P (fst (if (snd pr : bool) then report_error (E_NAME, nm) e else (e, Ok tt)))) by (destruct (snd pr); cbn [fst]; auto).
    destruct (if (snd pr : bool) then report_error (E_NAME, nm) e else (e, Ok tt)) as [e1 u]. cbn [fst] in H1.
    apply (lift_res_fst e1 u _ P); auto.
  Qed.

  Lemma process_fields_P pf key fs : forall seen en e, P e -> P (fst (process_fields pf key fs seen en e)).
  Proof.
    induction fs as [|[n parts] r IH]; intros seen en e He; cbn [process_fields fst]; auto.
    destruct (existsb (str_eqb (lower n)) seen).
    - pose proof (P_report (E_DUPFIELD, n) e He) as H1. destruct (report_error (E_DUPFIELD, n) e) as [e1 u]. cbn [fst] in H1.
      apply (lift_res_fst e1 u _ P); auto.
    - destruct (is_person_field pf n); auto.
      apply (lift_res_fst e (split_name_list (normalize_whitespace (concat parts))) _ P); auto. intros names _.
      pose proof (add_persons_P n names en e He) as H1. destruct (add_persons n names en e) as [e1 ren]. cbn [fst] in H1.
      apply (lift_res_fst e1 ren _ P); auto.
  Qed.

  Lemma process_item_P rd it e : P e -> P (snd (fst (process_item rd it e))).
  Proof.
    intro He. destruct it as [n p|p|t k f]; cbn [process_item fst snd]; auto.
    destruct (match k with Some k0 => (k0, rd) | None => (s_unnamed ++ nat_dec (r_counter rd), with_counter rd (S (r_counter rd))) end) as [key rd0].
    pose proof (process_fields_P (r_pf rd0) key f [] (mkEntry (lower t) [] []) e He) as H1.
    destruct (process_fields (r_pf rd0) key f [] (mkEntry (lower t) [] []) e) as [e1 ren]. cbn [fst] in H1.
    apply (lift_res_fst (rd0, e1) ren _ (fun x => P (snd x))); auto. intros en _.
    destruct (has_key_ci key (r_entries rd0)); auto.
    pose proof (P_report (E_REPEATED, key) e1 H1) as H2. destruct (report_error (E_REPEATED, key) e1) as [e2 u]. cbn [fst] in H2.
    apply (lift_res_fst (rd0, e2) u _ (fun x => P (snd x))); auto.
  Qed.

  Lemma feed_go_P file : forall cell rd e, P e -> P (snd (fst (feed_go cell rd file e))).
  Proof.
    induction file as [|c r IH]; intros cell rd e He; cbn [feed_go fst snd]; auto.
    pose proof (ll_command_P true (r_keyless rd) cell c e He) as H1.
    destruct (ll_command true (r_keyless rd) cell c e) as [[cell1 e1] ri]. cbn [fst snd] in H1.
    apply (lift_res_fst (cell1, rd, e1) ri _ (fun x => P (snd x))); auto.
    intros oi _. destruct oi as [it|]; [|apply IH; auto].
    pose proof (process_item_P rd it e1 H1) as H2.
    destruct (process_item rd it e1) as [[rd1 e2] u]. cbn [fst snd] in H2.
    apply (lift_res_fst (cell1, rd1, e2) u _ (fun x => P (snd x))); auto.
  Qed.

  Lemma feed_P file cell rd e : P e -> P (snd (fst (feed cell rd file e))).
  Proof. unfold feed. apply feed_go_P. Qed.

  Lemma feed_files_P files : forall cell rd e, P e -> P (snd (fst (feed_files cell rd files e))).
  Proof.
    induction files as [|f r IH]; intros cell rd e He; cbn [feed_files fst snd]; auto.
    pose proof (feed_P f cell rd e He) as H1.
    destruct (feed cell rd f e) as [[[c1 rd1] e1] u]. cbn [fst snd] in H1.
    apply (lift_res_fst (c1, rd1, e1) u _ (fun x => P (snd x))); auto.
  Qed.

  Lemma lowlevel_P via file : forall cell e, P e -> P (snd (fst (lowlevel via cell file e))).
  Proof.
    induction file as [|c r IH]; intros cell e He; cbn [lowlevel fst snd]; auto.
    pose proof (ll_command_P via false cell c e He) as H1.
    destruct (ll_command via false cell c e) as [[cell1 e1] ri]. cbn [fst snd] in H1.
    apply (lift_res_fst (cell1, e1) ri _ (fun x => P (snd x))); auto. intros oi _.
    specialize (IH cell1 e1 H1). destruct (lowlevel via cell1 r e1) as [ce2 rr]. cbn [fst] in IH.
    apply (lift_res_fst ce2 rr _ (fun x => P (snd x))); auto.
  Qed.

  Lemma format_name_f_P cap fmt k ms e : P e -> P (snd (fst (format_name_f cap fmt k (ms, e)))).
  Proof.
    intro He. destruct k as [[names n] format]. unfold format_name_f.
    pose proof (memo_call_state str_eqb cap split_names_f names ms e) as Hs.
    destruct (memo_call str_eqb cap split_names_f names (ms, e)) as [[ms1 e1] r]. cbn [fst snd] in Hs.
    assert (H1 : P e1) by (destruct Hs as [Hs|Hs]; rewrite Hs; auto).
    apply (lift_res_fst (ms1, e1) r _ (fun x => P (snd x))); auto. intros sp _. cbn [snd].
    destruct (Z.leb 1 n && Z.leb n (Z.of_nat (length sp)))%bool; auto.
    destruct (fmt (nth (Z.to_nat (n - 1)) sp []) format) as [reps v].
    pose proof (report_all_P reps e1 H1) as H2. destruct (report_all reps e1) as [e2 u]. cbn [fst] in H2.
    apply (lift_res_fst (ms1, e2) u _ (fun x => P (snd x))); auto.
  Qed.

  Lemma format_call_P cap fmt k mf ms e : P e ->
    P (snd (snd (fst (memo_call nkey_eqb cap (format_name_f cap fmt) k (mf, (ms, e)))))).
  Proof.
    intro He. destruct (memo_call_state nkey_eqb cap (format_name_f cap fmt) k mf (ms, e)) as [Hs|Hs]; rewrite Hs; auto.
    apply format_name_f_P; auto.
  Qed.

  Lemma bst_calls_P cap fmt ks : forall mf ms e, P e -> P (snd (snd (fst (bst_calls cap fmt ks (mf, (ms, e)))))).
  Proof.
    induction ks as [|k r IH]; intros mf ms e He; cbn [bst_calls fst snd]; auto.
    pose proof (format_call_P cap fmt k mf ms e He) as H1.
    destruct (memo_call nkey_eqb cap (format_name_f cap fmt) k (mf, (ms, e))) as [[mf1 [ms1 e1]] v]. cbn [fst snd] in H1.
    apply (lift_res_fst (mf1, (ms1, e1)) v _ (fun x => P (snd (snd x)))); auto. intros s _.
    specialize (IH mf1 ms1 e1 H1). destruct (bst_calls cap fmt r (mf1, (ms1, e1))) as [st2 rr]. cbn [fst] in IH.
    apply (lift_res_fst st2 rr _ (fun x => P (snd (snd x)))); auto.
  Qed.

  Lemma exec_P cap fmt g o : (forall b, o = OSetStrict b -> P (set_strict b (g_err g))) ->
    P (g_err g) -> P (g_err (fst (exec cap fmt g o))).
  Proof.
    intros P_strict He. destruct o as [m|r file|m files|src file|names n format|calls|b|id]; cbn [exec].
    - unfold new_reader. cbn [fst g_err]. auto.
    - destruct (nth_error (g_readers g) r) as [rd|]; [|auto].
      pose proof (feed_P file (h_get (g_heap g) (r_cell rd)) rd (g_err g) He) as H1.
      destruct (feed _ rd file (g_err g)) as [[[c1 rd1] e1] u]. cbn [fst snd g_err] in *. auto.
    - pose proof (feed_files_P files (new_macros (g_heap g) (o_macros m)) (fresh_reader 0 m) (g_err g) He) as H1.
      destruct (feed_files _ _ files (g_err g)) as [[[c2 rd2] e2] u]. cbn [fst snd g_err] in *. auto.
    - destruct src as [r|].
      + destruct (nth_error (g_readers g) r) as [rd|]; [|auto].
        pose proof (lowlevel_P false file (h_get (g_heap g) (r_cell rd)) (g_err g) He) as H1.
        destruct (lowlevel false _ file (g_err g)) as [[cell1 e1] rr]. cbn [fst snd g_err] in *. auto.
      + pose proof (lowlevel_P false file (mkCell false (c_items (h_get (g_heap g) 0))) (g_err g) He) as H1.
        destruct (lowlevel false _ file (g_err g)) as [[cell1 e1] rr]. cbn [fst snd g_err] in *. auto.
    - pose proof (format_call_P cap fmt (names, n, format) (g_mf g) (g_ms g) (g_err g) He) as H1.
      destruct (memo_call nkey_eqb cap (format_name_f cap fmt) (names, n, format) _) as [[mf1 [ms1 e1]] v].
      cbn [fst snd g_err] in *. auto.
    - pose proof (bst_calls_P cap fmt calls (g_mf g) (g_ms g) (g_err g) He) as H1.
      destruct (bst_calls cap fmt calls _) as [[mf1 [ms1 e1]] v]. cbn [fst snd g_err] in *. auto.
    - cbn [fst g_err]. apply P_strict. reflexivity.
    - cbn [fst]. auto.
  Qed.
End ErrInv.

(* after any history -- failed runs inside capture() blocks included -- normal reporting is in
   force: errors.captured_errors is None *)
Lemma captured_none_report x e : e_captured e = None -> e_captured (fst (report_error x e)) = None.
Proof. intro H. unfold report_error. rewrite H. destruct (e_strict e); cbn [fst e_captured]; auto. Qed.

Lemma step_captured_none cap fmt g co : e_captured (g_err g) = None -> e_captured (g_err (fst (step cap fmt g co))) = None.
Proof.
  intro H. destruct co as [cpt o]. unfold step. destruct cpt.
  - destruct (exec cap fmt _ o) as [g1 v]. cbn [fst with_err g_err]. reflexivity.
  - pose proof (exec_P (fun e => e_captured e = None) captured_none_report cap fmt
                  (with_err g (clear_stderr (g_err g))) o (fun b _ => H) H) as H1.
    destruct (exec cap fmt _ o) as [g1 v]. cbn [fst] in *. exact H1.
Qed.

Lemma run_captured_none cap fmt cos : forall g, e_captured (g_err g) = None -> e_captured (g_err (final cap fmt g cos)) = None.
Proof.
  unfold final. induction cos as [|co r IH]; intros g H; cbn [run fst]; auto.
  pose proof (step_captured_none cap fmt g co H) as H1.
  destruct (step cap fmt g co) as [g1 out]. cbn [fst] in H1. specialize (IH g1 H1).
  destruct (run cap fmt g1 r) as [g2 outs]. exact IH.
Qed.

(* the strict flag changes only through set_strict_mode: a history without OSetStrict leaves it on *)
Lemma strict_report x e : e_strict (fst (report_error x e)) = e_strict e.
Proof. unfold report_error. destruct (e_captured e); [reflexivity|]. destruct (e_strict e) eqn:E; cbn [fst e_strict]; auto. Qed.

(* ------------------------------------------------------------------------------------- *)
(* in the default (strict) reporting mode the reporting cells never change at all *)
Definition quiet_cells (e : errs) : Prop := e_strict e = true /\ e_code e = 0%Z /\ e_stderr e = [].

Lemma quiet_cells_report x e : quiet_cells e -> quiet_cells (fst (report_error x e)).
Proof.
  intros (H1 & H2 & H3). unfold report_error. destruct (e_captured e); cbn [fst]; [repeat split; auto|].
  rewrite H1. cbn [fst]. repeat split; auto.
Qed.

Definition keeps_strict (o : op) : Prop := match o with OSetStrict false => False | _ => True end.

Lemma step_quiet_cells cap fmt g co : keeps_strict (snd co) -> quiet_cells (g_err g) -> quiet_cells (g_err (fst (step cap fmt g co))).
Proof.
  intros Hk (H1 & H2 & H3). destruct co as [cpt o]. cbn [snd] in Hk. unfold step.
  assert (Hs : forall e, quiet_cells e -> forall b, o = OSetStrict b -> quiet_cells (set_strict b e)).
  { intros e (A1 & A2 & A3) b Hb. subst o. destruct b; [|contradiction]. repeat split; auto. }
  destruct cpt.
  - pose proof (exec_P quiet_cells quiet_cells_report cap fmt
                  (with_err (with_err g (clear_stderr (g_err g))) (capture_enter (g_err (with_err g (clear_stderr (g_err g)))))) o) as H.
    cbn [with_err g_err] in H.
    assert (Hq : quiet_cells (capture_enter (clear_stderr (g_err g)))) by (repeat split; auto).
    specialize (H (Hs _ Hq) Hq).
    destruct (exec cap fmt _ o) as [g1 v]. cbn [fst with_err g_err] in *.
    destruct H as (A1 & A2 & A3). repeat split; auto.
  - pose proof (exec_P quiet_cells quiet_cells_report cap fmt (with_err g (clear_stderr (g_err g))) o) as H.
    cbn [with_err g_err] in H.
    assert (Hq : quiet_cells (clear_stderr (g_err g))) by (repeat split; auto).
    specialize (H (Hs _ Hq) Hq).
    destruct (exec cap fmt _ o) as [g1 v]. cbn [fst] in *. exact H.
Qed.

Lemma run_errs0 cap fmt cos : Forall (fun co => keeps_strict (snd co)) cos -> g_err (final cap fmt G0 cos) = errs0.
Proof.
  intro Hk.
  assert (Hgen : forall g, quiet_cells (g_err g) -> quiet_cells (g_err (final cap fmt g cos))).
  { unfold final. induction cos as [|co r IH]; intros g Hq; cbn [run fst]; auto.
    inversion Hk as [|? ? K1 K2]; subst.
    pose proof (step_quiet_cells cap fmt g co K1 Hq) as H1.
    destruct (step cap fmt g co) as [g1 out]. cbn [fst] in H1. specialize (IH K2 g1 H1).
    destruct (run cap fmt g1 r) as [g2 outs]. exact IH. }
  pose proof (Hgen G0 (conj eq_refl (conj eq_refl eq_refl))) as (A1 & A2 & A3).
  pose proof (run_captured_none cap fmt cos G0 eq_refl) as A4.
  destruct (g_err (final cap fmt G0 cos)) as [s c cp se]. cbn in *. subst. reflexivity.
Qed.

(* history independence of parsing, in the default reporting mode, with nothing left over *)
Lemma parse_history_independent_strict_lemma cap fmt cos c macros files :
  Forall (fun co => keeps_strict (snd co)) cos ->
  snd (step cap fmt (final cap fmt G0 cos) (c, OParse macros files)) = snd (step cap fmt G0 (c, OParse macros files)).
Proof.
  intro H2.
  pose proof (parse_history_independent_lemma cap fmt cos c macros files) as Hp. cbv zeta in Hp.
  rewrite Hp, (run_errs0 cap fmt cos H2). reflexivity.
Qed.

(* a LowLevelParser built without a macros argument works on a private copy of month_names: its
   outcome depends on the process state through month_names and the reporting cells only *)
Lemma lowlevel_default_isolated_lemma cap fmt g g' c file :
  h_get (g_heap g) 0 = h_get (g_heap g') 0 -> g_err g = g_err g' ->
  snd (step cap fmt g (c, OLowLevel None file)) = snd (step cap fmt g' (c, OLowLevel None file)).
Proof.
  intros Hh He. unfold step, exec. destruct c; cbn [with_err g_err g_heap g_readers g_ms g_mf];
    rewrite Hh, He; destruct (lowlevel false _ file _) as [[c2 e2] u]; reflexivity.
Qed.

Lemma lowlevel_history_independent_strict_lemma cap fmt cos c file :
  Forall (fun co => keeps_strict (snd co)) cos ->
  snd (step cap fmt (final cap fmt G0 cos) (c, OLowLevel None file)) = snd (step cap fmt G0 (c, OLowLevel None file)).
Proof.
  intro H2. apply lowlevel_default_isolated_lemma.
  - destruct (run_cell0 cap fmt cos G0 wfG0) as [_ Hc]. exact Hc.
  - rewrite (run_errs0 cap fmt cos H2). reflexivity.
Qed.

(* the keyless-entry counter an earlier parse left behind is invisible to the next parse of the same
   reader (reset per parse), and a fresh reader starts from its own *)
Lemma unnamed_counter_reset_lemma cell rd n file e : feed cell (with_counter rd n) file e = feed cell rd file e.
Proof. reflexivity. Qed.

(* an opaque call (writer, Python engine, other readers) returns and leaves every cell of G as it was *)
Lemma opaque_touches_nothing_lemma cap fmt g id : exec cap fmt g (OOpaque id) = (g, Ok VUnit).
Proof. reflexivity. Qed.
