(* Proofs/Global.v -- lemmas about Model/Global.v (C18) *)
From Pybtex Require Import Base.Prelude Base.PyChar Base.PyStr Model.BibtexStr Model.Names Model.Global.

(* leaving errors.capture() always restores normal reporting *)
Lemma capture_exit_none : forall e, e_captured (capture_exit e) = None.
Proof. reflexivity. Qed.
