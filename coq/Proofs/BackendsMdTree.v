(* Proofs/BackendsMdTree.v -- Markdown output of a whole tree: a Markdown reader sees exactly
   the characters of the text; no character of the text acts as markup (property C09) *)
From Pybtex Require Import Base.Prelude Base.PyChar Base.PyStr Model.RtTypes Model.Backends
  Proofs.Backends Proofs.BackendsMd Proofs.BackendsHtml.
Local Open Scope N_scope.

Definition ME := markdown_escapable.

Inductive mstate := MText | MEsc | MTag | MBr | MUrl | MEnt (acc : str).

Definition cons_atom' (a : hatom) (r : option (list hatom * mstate)) : option (list hatom * mstate) :=
  match r with Some (xs, st) => Some (a :: xs, st) | None => None end.

(* a Markdown reader: backslash + escapable character = that character; &amp; &lt; &gt; decoded,
   other entities kept; <...> (inline HTML), ](url) and unescaped escapable characters (emphasis,
   code and link delimiters) are markup.  None: a backslash before a non-escapable character, a
   bare > or ] , a malformed entity *)
Fixpoint mscan (st : mstate) (s : str) : option (list hatom * mstate) :=
  match s with
  | [] => Some ([], st)
  | c :: r =>
    match st with
    | MText =>
      if c =? c_bslash then mscan MEsc r
      else if c =? c_lt then mscan MTag r
      else if c =? c_amp then mscan (MEnt []) r
      else if c =? 93 then mscan MBr r
      else if c =? c_gt then None
      else if mem c ME then mscan MText r
      else cons_atom' (HC c) (mscan MText r)
    | MEsc => if mem c ME then cons_atom' (HC c) (mscan MText r) else None
    | MTag => if c =? c_gt then mscan MText r else if c =? c_lt then None else mscan MTag r
    | MBr => if c =? 40 then mscan MUrl r else None
    | MUrl => if c =? 41 then mscan MText r else mscan MUrl r
    | MEnt acc =>
      if c =? c_semi then cons_atom' (ent_atom (rev acc)) (mscan MText r)
      else if is_alnum c || (c =? c_hash) then mscan (MEnt (c :: acc)) r
      else None
    end
  end.

Definition memits (s : str) (xs : list hatom) : Prop := mscan MText s = Some (xs, MText).
Definition md_chardata (s : str) : option (list hatom) :=
  match mscan MText s with Some (xs, MText) => Some xs | _ => None end.

Lemma mscan_app a : forall st b,
  mscan st (a ++ b) =
  match mscan st a with
  | Some (xs, st') => match mscan st' b with Some (ys, st'') => Some (xs ++ ys, st'') | None => None end
  | None => None
  end.
Proof.
  assert (Hc : forall x (r : option (list hatom * mstate)) b,
     match cons_atom' x r with
     | Some (xs, st') => match mscan st' b with Some (ys, st'') => Some (xs ++ ys, st'') | None => None end
     | None => None end =
     cons_atom' x (match r with
     | Some (xs, st') => match mscan st' b with Some (ys, st'') => Some (xs ++ ys, st'') | None => None end
     | None => None end)).
  { intros x [[xs st']|] b; [|reflexivity]. cbn [cons_atom']. destruct (mscan st' b) as [[ys st'']|]; reflexivity. }
  induction a as [|c a IH]; intros st b.
  - cbn [app mscan]. destruct (mscan st b) as [[ys st'']|]; reflexivity.
  - cbn [app mscan]. destruct st.
    + destruct (c =? c_bslash); [apply IH|]. destruct (c =? c_lt); [apply IH|].
      destruct (c =? c_amp); [apply IH|]. destruct (c =? 93); [apply IH|].
      destruct (c =? c_gt); [reflexivity|]. destruct (mem c ME); [apply IH|].
      rewrite IH, Hc. reflexivity.
    + destruct (mem c ME); [|reflexivity]. rewrite IH, Hc. reflexivity.
    + destruct (c =? c_gt); [apply IH|]. destruct (c =? c_lt); [reflexivity|apply IH].
    + destruct (c =? 40); [apply IH|reflexivity].
    + destruct (c =? 41); apply IH.
    + destruct (c =? c_semi); [rewrite IH, Hc; reflexivity|].
      destruct (is_alnum c || (c =? c_hash)); [apply IH|reflexivity].
Qed.

Lemma memits_nil : memits [] [].
Proof. reflexivity. Qed.
Lemma memits_nil_inv xs : memits [] xs -> xs = [].
Proof. unfold memits. cbn. congruence. Qed.
Lemma memits_app a b xs ys : memits a xs -> memits b ys -> memits (a ++ b) (xs ++ ys).
Proof. unfold memits. intros Ha Hb. rewrite mscan_app, Ha, Hb. reflexivity. Qed.

(* ---- escaped text reads back as exactly its characters ---- *)
Definition mesc (c : char) : str := if mem c ME then [c_bslash; c] else [c].

Lemma mem_ME_false c k : mem c ME = false -> In k ME -> (c =? k) = false.
Proof.
  intros H Hk. destruct (N.eqb_spec c k) as [->|]; [|reflexivity].
  apply mem_In in Hk. congruence.
Qed.

Lemma memits_char c : memits (flat_map mesc (xesc c)) [HC c].
Proof.
  unfold xesc, memits.
  destruct (c =? c_amp) eqn:E1; [apply N.eqb_eq in E1; subst; reflexivity|].
  destruct (c =? c_gt) eqn:E2; [apply N.eqb_eq in E2; subst; reflexivity|].
  destruct (c =? c_lt) eqn:E3; [apply N.eqb_eq in E3; subst; reflexivity|].
  cbn [flat_map app]. unfold mesc. destruct (mem c ME) eqn:Em.
  - cbn [app mscan]. change (c_bslash =? c_bslash) with true. cbv iota. rewrite Em. reflexivity.
  - cbn [app mscan].
    rewrite (mem_ME_false c c_bslash Em) by (vm_compute; tauto).
    rewrite E3, E1.
    rewrite (mem_ME_false c 93 Em) by (vm_compute; tauto).
    rewrite E2, Em. reflexivity.
Qed.

Lemma memits_escaped s : memits (md_escape ME (xml_escape s)) (map HC s).
Proof.
  rewrite xml_escape_flat. unfold md_escape, esc_by. rewrite flat_map_flat_map.
  induction s as [|c s IH]; [reflexivity|].
  cbn [flat_map map]. change (HC c :: map HC s) with ([HC c] ++ map HC s).
  apply memits_app; [apply memits_char|exact IH].
Qed.

(* ---- markup pieces ---- *)
(* a delimiter: escapable characters other than the backslash and ] *)
Definition delim_ok (tag : str) : bool :=
  forallb (fun c => mem c ME && negb (c =? c_bslash) && negb (c =? 93)) tag.

Lemma memits_delim tag : delim_ok tag = true -> memits tag [].
Proof.
  unfold memits. induction tag as [|c tag IH]; intros H; [reflexivity|].
  cbn [delim_ok forallb] in H. apply andb_prop in H as [H1 H2].
  apply andb_prop in H1 as [H1 Hbr]. apply andb_prop in H1 as [Hm Hbs].
  apply negb_true_iff in Hbs, Hbr.
  cbn [mscan]. rewrite Hbs.
  assert (E3 : (c =? c_lt) = false).
  { destruct (N.eqb_spec c c_lt) as [->|]; [vm_compute in Hm; discriminate|reflexivity]. }
  assert (E1 : (c =? c_amp) = false).
  { destruct (N.eqb_spec c c_amp) as [->|]; [vm_compute in Hm; discriminate|reflexivity]. }
  assert (E2 : (c =? c_gt) = false).
  { destruct (N.eqb_spec c c_gt) as [->|]; [vm_compute in Hm; discriminate|reflexivity]. }
  rewrite E3, E1, Hbr, E2, Hm. apply IH. exact H2.
Qed.

Lemma mscan_tag_body n : forall r, no_angle n = true -> mscan MTag (n ++ c_gt :: r) = mscan MText r.
Proof.
  induction n as [|c n IH]; intros r H; [reflexivity|].
  cbn [no_angle forallb] in H. apply andb_prop in H as [H1 H2]. apply andb_prop in H1 as [Hlt Hgt].
  cbn [app mscan]. destruct (c =? c_gt); [discriminate|]. destruct (c =? c_lt); [discriminate|].
  apply IH. exact H2.
Qed.

Lemma memits_markup body : no_angle body = true -> memits (c_lt :: body ++ [c_gt]) [].
Proof.
  intros H. unfold memits. cbn [mscan]. change (c_lt =? c_bslash) with false. change (c_lt =? c_lt) with true.
  cbv iota. rewrite mscan_tag_body by assumption. reflexivity.
Qed.

Definition no_rparen (s : str) : bool := forallb (fun c => negb (c =? 41)) s.

Lemma mscan_url u : forall r, no_rparen u = true -> mscan MUrl (u ++ 41 :: r) = mscan MText r.
Proof.
  induction u as [|c u IH]; intros r H; [reflexivity|].
  cbn [no_rparen forallb] in H. apply andb_prop in H as [H1 H2]. apply negb_true_iff in H1.
  cbn [app mscan]. rewrite H1. apply IH. exact H2.
Qed.

Lemma memits_html_tag n x xs : no_angle n = true -> memits x xs -> memits (html_tag n x) xs.
Proof.
  intros Hn Hx. unfold html_tag. destruct x as [|c x'].
  - cbn [is_empty]. apply memits_nil_inv in Hx. subst. apply memits_nil.
  - cbn [is_empty].
    replace ([c_lt] ++ n ++ [c_gt] ++ (c :: x') ++ [c_lt; 47] ++ n ++ [c_gt])
      with ((c_lt :: n ++ [c_gt]) ++ (c :: x') ++ (c_lt :: (47 :: n) ++ [c_gt]))
      by (cbn [app]; rewrite <- !app_assoc; reflexivity).
    replace xs with ([] ++ xs ++ []) by (rewrite app_nil_r; reflexivity).
    apply memits_app; [apply memits_markup; exact Hn|].
    apply memits_app; [exact Hx|]. apply memits_markup. cbn [no_angle forallb]. exact Hn.
Qed.

Lemma memits_html_href u e x xs : no_angle u = true -> memits x xs -> memits (html_href u x e) xs.
Proof.
  intros Hu Hx. unfold html_href. destruct x as [|c x'].
  - cbn [is_empty]. apply memits_nil_inv in Hx. subst. apply memits_nil.
  - cbn [is_empty].
    set (target := if e then _ else _).
    assert (Ht : no_angle target = true) by (destruct e; reflexivity).
    replace ((lit "<a href=""") ++ u ++ [c_quote] ++ target ++ [c_gt] ++ (c :: x') ++ (lit "</a>"))
      with ((c_lt :: ((lit "a href=""") ++ u ++ [c_quote] ++ target) ++ [c_gt]) ++ (c :: x') ++ (lit "</a>"))
      by (cbn [app]; rewrite <- !app_assoc; reflexivity).
    replace xs with ([] ++ xs ++ []) by (rewrite app_nil_r; reflexivity).
    apply memits_app.
    + apply memits_markup. rewrite !no_angle_app, Hu, Ht. reflexivity.
    + apply memits_app; [exact Hx|reflexivity].
Qed.

Lemma memits_link u x xs : no_rparen u = true -> memits x xs -> memits ([91] ++ x ++ [93; 40] ++ u ++ [41]) xs.
Proof.
  intros Hu Hx.
  replace xs with ([] ++ xs ++ []) by (rewrite app_nil_r; reflexivity).
  apply memits_app; [reflexivity|]. apply memits_app; [exact Hx|].
  unfold memits. cbn [app mscan]. change (93 =? c_bslash) with false. change (93 =? c_lt) with false.
  change (93 =? c_amp) with false. change (93 =? 93) with true. cbv iota. change (40 =? 40) with true. cbv iota.
  rewrite mscan_url by exact Hu. reflexivity.
Qed.

(* ---- the tree ---- *)
Definition msym_atoms (v : str) : list hatom :=
  match mscan MText v with Some (xs, _) => xs | None => [] end.
Definition msym_ok (v : str) : bool := match mscan MText v with Some (_, MText) => true | _ => false end.

Fixpoint mplain (T : tables) (t : rt) : list hatom :=
  match t with
  | RStr s => map HC s
  | RSym n => match lookup n (t_symbols T) with Some v => msym_atoms v | None => [] end
  | RText ps | RTag _ ps | RHRef _ _ ps | RProt ps => flat_map (mplain T) ps
  end.

(* tag names without angle brackets (they fall back on HTML), URLs without angle bracket or ")" *)
Fixpoint md_names_ok (t : rt) : bool :=
  match t with
  | RStr _ | RSym _ => true
  | RText ps | RProt ps => forallb md_names_ok ps
  | RTag n ps => no_angle n && forallb md_names_ok ps
  | RHRef u _ ps => no_angle u && no_rparen u && forallb md_names_ok ps
  end.

(* the back end's tables: symbols are entities or text, tags are delimiters; SPECIAL_CHARS is the
   Markdown set with the backslash first *)
Definition md_tables_ok (T : tables) : bool :=
  forallb (fun p => msym_ok (snd p)) (t_symbols T) &&
  forallb (fun p => match snd p with Some tag => delim_ok tag | None => true end) (t_tags T) &&
  md_table_shape (t_special T) && same_set (t_special T) markdown_escapable.

Section MdTree.
Variable enc : str -> str.
Variable T : tables.
Hypothesis HT : md_tables_ok T = true.

Lemma md_parts_emits ps :
  Forall (fun t => forall out, md_names_ok t = true -> render enc T BMarkdown t = Ok out -> memits out (mplain T t)) ps ->
  forall out, forallb md_names_ok ps = true -> render_parts enc T BMarkdown ps = Ok out -> memits out (flat_map (mplain T) ps).
Proof.
  induction 1 as [|p r Hp Hr IH]; intros out Hn Hren.
  - cbn in Hren. injection Hren as <-. apply memits_nil.
  - cbn [forallb] in Hn. apply andb_prop in Hn as [Hn1 Hn2].
    cbn [render_parts] in Hren.
    destruct (render enc T BMarkdown p) as [x| | |] eqn:Ex; try discriminate. cbn [bind] in Hren.
    destruct (render_parts enc T BMarkdown r) as [y| | |] eqn:Ey; try discriminate. cbn [bind] in Hren.
    injection Hren as <-. cbn [flat_map]. apply memits_app; [apply Hp; auto|apply IH; auto].
Qed.

Lemma md_chardata_holds t : forall out,
  md_names_ok t = true -> render enc T BMarkdown t = Ok out -> md_chardata out = Some (mplain T t).
Proof.
  unfold md_tables_ok in HT. apply andb_prop in HT as [HT1 Hsame]. apply andb_prop in HT1 as [HT1 Hshape].
  apply andb_prop in HT1 as [Hsym Htags].
  assert (H : forall out, md_names_ok t = true -> render enc T BMarkdown t = Ok out -> memits out (mplain T t)).
  { induction t using rt_ind'; intros out Hn Hren; rewrite render_unfold in Hren; cbn [mplain].
    - injection Hren as <-. change (format_str_md T s) with (format_str enc T BMarkdown s).
      rewrite (format_str_md_exact enc T s Hshape Hsame). apply memits_escaped.
    - destruct (lookup n (t_symbols T)) as [v|] eqn:El; [|discriminate]. injection Hren as <-.
      apply lookup_In in El as [k Hk]. rewrite forallb_forall in Hsym. specialize (Hsym (k, v) Hk).
      cbn [snd] in Hsym. unfold msym_ok in Hsym. unfold memits, msym_atoms.
      destruct (mscan MText v) as [[xs st]|]; [|discriminate]. destruct st; try discriminate. reflexivity.
    - cbn [md_names_ok] in Hn. eapply md_parts_emits; eauto.
    - cbn [md_names_ok] in Hn. apply andb_prop in Hn as [Hn1 Hn2].
      destruct (render_parts enc T BMarkdown ps) as [x| | |] eqn:Ex; try discriminate. cbn [bind] in Hren.
      injection Hren as <-.
      assert (Hx : memits x (flat_map (mplain T) ps)) by (eapply md_parts_emits; eauto).
      cbn [format_tag]. destruct (lookup n (t_tags T)) as [[tag|]|] eqn:El;
        try (apply memits_html_tag; assumption).
      apply lookup_In in El as [k Hk]. rewrite forallb_forall in Htags. specialize (Htags _ Hk). cbn [snd] in Htags.
      destruct x as [|c x'].
      + cbn [is_empty]. apply memits_nil_inv in Hx. rewrite Hx. apply memits_nil.
      + cbn [is_empty]. replace (flat_map (mplain T) ps) with ([] ++ flat_map (mplain T) ps ++ []) by (rewrite app_nil_r; reflexivity).
        apply memits_app; [apply memits_delim; exact Htags|].
        apply memits_app; [exact Hx|apply memits_delim; exact Htags].
    - cbn [md_names_ok] in Hn. apply andb_prop in Hn as [Hn1 Hn2]. apply andb_prop in Hn1 as [Hna Hnp].
      destruct (render_parts enc T BMarkdown ps) as [x| | |] eqn:Ex; try discriminate. cbn [bind] in Hren.
      injection Hren as <-.
      assert (Hx : memits x (flat_map (mplain T) ps)) by (eapply md_parts_emits; eauto).
      cbn [format_href]. destruct x as [|c x'].
      + cbn [is_empty]. apply memits_nil_inv in Hx. rewrite Hx. apply memits_nil.
      + cbn [is_empty]. destruct e.
        * apply memits_html_href; assumption.
        * apply memits_link; assumption.
    - cbn [md_names_ok] in Hn.
      destruct (render_parts enc T BMarkdown ps) as [x| | |] eqn:Ex; try discriminate. cbn [bind] in Hren.
      injection Hren as <-. cbn [format_protected]. eapply md_parts_emits; eauto. }
  intros out Hn Hren. unfold md_chardata. rewrite (H out Hn Hren). reflexivity.
Qed.

End MdTree.
