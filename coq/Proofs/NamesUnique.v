(* Proofs/NamesUnique.v -- the declarative description of the First-von-Last split determines the
   split: there is exactly one way to cut a token list into first/middle ++ von ++ last such that
   no token before the von part is von, the von part (if any) starts and ends with a von token, no
   token of last except possibly its final one is von, last is non-empty, and last is a single
   token when there is no von part.  Hence what Person() computes is THE longest such run. *)
From Pybtex Require Import Base.Prelude Base.PyChar Base.PyStr Model.BibtexStr Model.Names Spec.Names
  Proofs.NamesSplit Proofs.Names.

Section Unique.
Variable X : Type.
Variables P N : X -> Prop.
Hypothesis excl : forall x, P x -> N x -> False.

Record vsplit (ts fm von lst : list X) : Prop := {
  v_eq : ts = fm ++ von ++ lst;
  v_fm : Forall N fm;
  v_von : von = [] \/ ((exists x v', von = x :: v' /\ P x) /\ (exists v' x, von = v' ++ [x] /\ P x));
  v_lst : Forall N (removelast lst);
  v_ne : ts <> [] -> lst <> [];
  v_single : von = [] -> length lst <= 1 }.

Lemma first_P_unique : forall a a' x x' r r', a ++ x :: r = a' ++ x' :: r' ->
  Forall N a -> Forall N a' -> P x -> P x' -> a = a' /\ x = x' /\ r = r'.
Proof.
  induction a as [|y a IH]; intros a' x x' r r' E Ha Ha' Hx Hx'.
  - destruct a' as [|y' a'']; cbn in E.
    + injection E as -> ->. auto.
    + injection E as -> _. inversion Ha'; subst. exfalso. eauto.
  - destruct a' as [|y' a'']; cbn in E.
    + injection E as <- _. inversion Ha; subst. exfalso. eauto.
    + injection E as <- E. inversion Ha; inversion Ha'; subst.
      destruct (IH a'' x x' r r' E) as (-> & -> & ->); auto.
Qed.

Lemma single_of_le1 (l : list X) : l <> [] -> length l <= 1 -> exists e, l = [e].
Proof. destruct l as [|e [|? ?]]; cbn; intros; try congruence; try lia. eauto. Qed.

Lemma vsplit_unique ts fm von lst fm' von' lst' :
  vsplit ts fm von lst -> vsplit ts fm' von' lst' -> fm = fm' /\ von = von' /\ lst = lst'.
Proof.
  intros [E F V L Ne S] [E' F' V' L' Ne' S'].
  destruct V as [->|[(x & v & Ev & Hx) (w & z & Ew & Hz)]];
  destruct V' as [->|[(x' & v' & Ev' & Hx') (w' & z' & Ew' & Hz')]].
  - (* no von part on either side *)
    cbn [app] in *. destruct ts as [|t0 ts'].
    + symmetry in E, E'. apply app_eq_nil in E as [-> ->]. apply app_eq_nil in E' as [-> ->]. auto.
    + destruct (single_of_le1 lst (Ne ltac:(discriminate)) (S eq_refl)) as [e ->].
      destruct (single_of_le1 lst' (Ne' ltac:(discriminate)) (S' eq_refl)) as [e' ->].
      rewrite E in E'. apply app_inj_tail in E' as [-> ->]. auto.
  - (* von part only on the right: its first token would be a non-von token of the left first/middle *)
    exfalso. cbn [app] in E.
    assert (Hts : ts <> []) by (rewrite E', Ev'; destruct fm'; discriminate).
    destruct (single_of_le1 lst (Ne Hts) (S eq_refl)) as [e ->].
    destruct (snoc_cases lst') as [->|(l0 & e' & ->)]; [now apply Ne'|].
    rewrite E', Ev' in E. cbn [app] in E.
    replace (fm' ++ x' :: v' ++ l0 ++ [e']) with ((fm' ++ x' :: v' ++ l0) ++ [e']) in E
      by (rewrite <- !app_assoc; cbn; now rewrite <- !app_assoc).
    apply app_inj_tail in E as [E _]. rewrite <- E in F. apply Forall_app in F as [_ F]. inversion F; subst. eauto.
  - exfalso. cbn [app] in E'.
    assert (Hts : ts <> []) by (rewrite E, Ev; destruct fm; discriminate).
    destruct (single_of_le1 lst' (Ne' Hts) (S' eq_refl)) as [e' ->].
    destruct (snoc_cases lst) as [->|(l0 & e & ->)]; [now apply Ne|].
    rewrite E, Ev in E'. cbn [app] in E'.
    replace (fm ++ x :: v ++ l0 ++ [e]) with ((fm ++ x :: v ++ l0) ++ [e]) in E'
      by (rewrite <- !app_assoc; cbn; now rewrite <- !app_assoc).
    apply app_inj_tail in E' as [E' _]. rewrite <- E' in F'. apply Forall_app in F' as [_ F']. inversion F'; subst. eauto.
  - (* von parts on both sides: same start (first von token), same end (last von token before the final token) *)
    assert (Hts : ts <> []) by (rewrite E, Ev; destruct fm; discriminate).
    assert (E2 := E'). rewrite E in E2. rewrite Ev in E2 at 1. rewrite Ev' in E2 at 1. cbn [app] in E2.
    destruct (first_P_unique _ _ _ _ _ _ E2 F F' Hx Hx') as (-> & -> & E3).
    split; [reflexivity|].
    assert (E4 : von ++ lst = von' ++ lst') by (rewrite Ev, Ev'; cbn [app]; now rewrite E3).
    destruct (snoc_cases lst) as [->|(l0 & e & ->)]; [exfalso; now apply Ne|].
    destruct (snoc_cases lst') as [->|(l0' & e' & ->)]; [exfalso; now apply Ne'|].
    rewrite removelast_snoc in L, L'.
    rewrite Ew, Ew' in E4. apply (f_equal (@rev X)) in E4.
    rewrite !rev_app_distr in E4. cbn [rev app] in E4. injection E4 as -> E4.
    destruct (first_P_unique _ _ _ _ _ _ E4 (Forall_rev L) (Forall_rev L') Hz Hz') as (R1 & -> & R2).
    apply (f_equal (@rev X)) in R1, R2. rewrite !rev_involutive in R1, R2. subst l0' w'.
    rewrite Ew, Ew'. auto.
Qed.
End Unique.

(* instantiated: any cut of the token list that meets the description is the one Person() computes *)
Lemma von_split_unique_pf s x p rep ts fm von lst :
  split_tex_comma (strip s) = Ok [x] -> person_of_string s = Ok (p, rep) -> split_tex_space (strip s) = Ok ts ->
  ts = fm ++ von ++ lst ->
  Forall (fun t => is_von_name t = Ok false) fm ->
  (von = [] \/ ((exists y v', von = y :: v' /\ is_von_name y = Ok true) /\ (exists v' y, von = v' ++ [y] /\ is_von_name y = Ok true))) ->
  Forall (fun t => is_von_name t = Ok false) (removelast lst) ->
  (ts <> [] -> lst <> []) -> (von = [] -> length lst <= 1) ->
  fm = p_first p ++ p_middle p /\ von = p_prelast p /\ lst = p_last p.
Proof.
  intros Hc H Hts E F V L Ne S.
  apply person_cases in H as [(E0 & -> & ->)|(E0 & H)]; [rewrite E0, split_comma_nil in Hc; discriminate|].
  destruct (parse_form0 _ _ _ _ Hc H) as (ts' & fm0 & Hts' & -> & Hj & Hf & Hm & Et & Hfm & Hl & Hn & Hv & H1).
  rewrite Hts in Hts'. injection Hts' as <-.
  assert (Efm : p_first p ++ p_middle p = fm0) by (rewrite Hf, Hm; apply firstn1_skipn1).
  rewrite Efm.
  apply (vsplit_unique str isvon notvon isvon_notvon ts); constructor; auto.
Qed.
