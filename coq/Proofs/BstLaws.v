(* Proofs/BstLaws.v -- one law per remaining built-in, for operands of the documented kinds:
   which operand is which (the pop order), and which string primitive computes the result. *)
From Pybtex Require Import Base.Prelude Base.PyChar Base.PyStr Model.BibtexStr Model.Wrap Model.Bst Proofs.Bst.

Section Laws2.
  Variable fmt_name : str -> str -> res str.
  Variable cw : char -> Z.
  Variable rec : state -> list instr -> res state.
  Variable wh : state -> value -> value -> res state.
  Notation bs := (builtin_step fmt_name cw rec wh).

  Ltac start H := cbn; rewrite (pop_cons _ _ _ H); cbn.

  (* substring$: pops length, then start, then the string *)
  Lemma substring_law st len start s r : st_stack st = VInt len :: VInt start :: VStr s :: r ->
    bs B_substring st = Ok (set_stack st (VStr (bibtex_substring s start len) :: r)).
  Proof.
    intros H. start H. destruct start; try reflexivity.
  Qed.

  (* text.prefix$: pops the count, then the string *)
  Lemma text_prefix_law st n s r : st_stack st = VInt n :: VStr s :: r ->
    bs B_text_prefix st = bind (bibtex_prefix s n) (fun p => Ok (set_stack st (VStr p :: r))).
  Proof.
    intros H. start H. unfold bibtex_prefix. destruct (0 <? n)%Z; reflexivity.
  Qed.

  Lemma text_length_law st s r : st_stack st = VStr s :: r ->
    bs B_text_length st = bind (bibtex_len s) (fun n => Ok (set_stack st (VInt (Z.of_nat n) :: r))).
  Proof. intros H. start H. reflexivity. Qed.

  Lemma purify_law st s r : st_stack st = VStr s :: r ->
    bs B_purify st = bind (bibtex_purify s) (fun p => Ok (set_stack st (VStr p :: r))).
  Proof. intros H. start H. reflexivity. Qed.

  Lemma width_law st s r : st_stack st = VStr s :: r ->
    bs B_width st = bind (bibtex_width cw s) (fun w => Ok (set_stack st (VInt w :: r))).
  Proof. intros H. start H. reflexivity. Qed.

  Lemma num_names_law st s r : st_stack st = VStr s :: r ->
    bs B_num_names st = bind (split_name_list s) (fun ps => Ok (set_stack st (VInt (Z.of_nat (length ps)) :: r))).
  Proof. intros H. start H. reflexivity. Qed.

  (* change.case$: pops the mode string, then the text; only the first letter of the mode counts,
     in either case; anything but l/u/t (or an empty mode) is a BibTeX error *)
  Definition mode_of (c : char) : option nat :=
    let l := to_lower c in
    if N.eqb l 108 then Some 0 else if N.eqb l 117 then Some 1 else if N.eqb l 116 then Some 2 else None.
  Lemma change_case_law st c m s r : st_stack st = VStr (c :: m) :: VStr s :: r ->
    bs B_change_case st =
    match mode_of c with
    | Some k => bind (change_case s k) (fun t => Ok (set_stack st (VStr t :: r)))
    | None => PyErr E_BST (-1)
    end.
  Proof.
    intros H. start H. unfold mode_of.
    destruct (N.eqb (to_lower c) 108); [reflexivity|].
    destruct (N.eqb (to_lower c) 117); [reflexivity|].
    destruct (N.eqb (to_lower c) 116); reflexivity.
  Qed.
  Lemma change_case_empty_mode st s r : st_stack st = VStr [] :: VStr s :: r ->
    bs B_change_case st = PyErr E_BST (-1).
  Proof. intros H. start H. reflexivity. Qed.

  (* format.name$: pops the format, then the index, then the name list; the index is 1-based and
     checked against the number of names (BibTeX error outside) *)
  Lemma format_name_law st f k names r parts : st_stack st = VStr f :: VInt k :: VStr names :: r ->
    split_name_list names = Ok parts ->
    bs B_format_name st =
    if ((1 <=? k) && (k <=? Z.of_nat (length parts)))%Z
    then bind (fmt_name (nth (Z.to_nat (k - 1)) parts []) f) (fun t => Ok (set_stack st (VStr t :: r)))
    else PyErr E_BST (-1).
  Proof.
    intros H Hs. start H. unfold format_name_call. cbn. rewrite Hs. cbn.
    destruct ((1 <=? k) && (k <=? Z.of_nat (length parts)))%Z; [|reflexivity].
    destruct (fmt_name _ f); reflexivity.
  Qed.

  (* add.period$ *)
  Lemma add_period_law st s r : st_stack st = VStr s :: r ->
    bs B_add_period st =
    Ok (set_stack st (VStr (match s with [] => [] | _ => if ends_with_terminator s then s else s ++ [46%N] end) :: r)).
  Proof.
    intros H. start H. destruct s; [reflexivity|]. destruct (ends_with_terminator (c :: s)); reflexivity.
  Qed.

  (* empty$ / missing$ *)
  Lemma empty_law st s r : st_stack st = VStr s :: r ->
    bs B_empty st = Ok (set_stack st (VInt (if forallb is_space s then 1 else 0) :: r)).
  Proof. intros H. start H. reflexivity. Qed.
  Lemma empty_missing_law st n r : st_stack st = VMissing n :: r ->
    bs B_empty st = Ok (set_stack st (VInt 1 :: r)).
  Proof. intros H. start H. reflexivity. Qed.
  Lemma missing_law st v r : st_stack st = v :: r ->
    bs B_missing st = Ok (set_stack st (VInt (match v with VMissing _ => 1 | _ => 0 end) :: r)).
  Proof. intros H. start H. destruct v; reflexivity. Qed.

  (* conversions *)
  Lemma chr_to_int_law st c r : st_stack st = VStr [c] :: r ->
    bs B_chr_to_int st = Ok (set_stack st (VInt (Z.of_N c) :: r)).
  Proof. intros H. start H. reflexivity. Qed.
  Lemma chr_to_int_error st s r : st_stack st = VStr s :: r -> length s <> 1 ->
    bs B_chr_to_int st = PyErr E_BST (-1).
  Proof.
    intros H L. start H. destruct s as [|a [|b s]]; try reflexivity. exfalso. apply L. reflexivity.
  Qed.
  Lemma int_to_chr_law st z r : st_stack st = VInt z :: r -> (0 <= z <= 1114111)%Z ->
    bs B_int_to_chr st = Ok (set_stack st (VStr [Z.to_N z] :: r)).
  Proof.
    intros H [L1 L2]. start H.
    assert (E3 : (z <? 0)%Z = false) by (apply Z.ltb_ge; lia).
    assert (E4 : (1114111 <? z)%Z = false) by (apply Z.ltb_ge; lia).
    rewrite E3, E4. reflexivity.
  Qed.
  (* every other integer is a BibTeX error (never a foreign exception) *)
  Lemma int_to_chr_error st z r : st_stack st = VInt z :: r -> (z < 0 \/ 1114111 < z)%Z ->
    bs B_int_to_chr st = PyErr E_BST (-1).
  Proof.
    intros H Hz. start H. destruct Hz as [Hz|Hz]; apply Z.ltb_lt in Hz; rewrite Hz; [reflexivity|].
    rewrite orb_true_r. reflexivity.
  Qed.
  Lemma int_to_str_law st z r : st_stack st = VInt z :: r ->
    bs B_int_to_str st = Ok (set_stack st (VStr (Z_to_str z) :: r)).
  Proof. intros H. start H. reflexivity. Qed.
  Lemma quote_law st : bs B_quote st = Ok (push (VStr [c_quote]) st).
  Proof. reflexivity. Qed.
  Lemma skip_law st : bs B_skip st = Ok st.
  Proof. reflexivity. Qed.

  (* the entry built-ins *)
  Lemma cite_law st key e : st_cur st = Some (key, e) -> bs B_cite st = Ok (push (VStr key) st).
  Proof. intros H. cbn. rewrite H. reflexivity. Qed.
  Lemma type_law st key e : st_cur st = Some (key, e) -> bs B_type st = Ok (push (VStr (e_type e)) st).
  Proof. intros H. cbn. rewrite H. reflexivity. Qed.
  Lemma no_entry_crash st b : st_cur st = None -> In b [B_cite; B_type; B_call_type] -> bs b st = Crash.
  Proof.
    intros H Hin. cbn in Hin. repeat (destruct Hin as [<-|Hin]; [cbn; rewrite H; reflexivity|]). contradiction.
  Qed.

  (* top$ / warning$ *)
  Lemma top_law st v r s : st_stack st = v :: r -> py_str v = Ok s ->
    bs B_top st = Ok (add_print (set_stack st r) (s ++ [c_nl])).
  Proof. intros H Hs. start H. rewrite Hs. reflexivity. Qed.
  Lemma warning_law st v r : st_stack st = v :: r ->
    bs B_warning st = Ok (add_warn (set_stack st r) [WUser v]).
  Proof. intros H. start H. reflexivity. Qed.
End Laws2.

(* str(int): the decimal digits, checked against Z on a range by computation and characterised
   for non-negative numbers by the usual recurrence *)
Lemma Z_to_str_neg p : Z_to_str (Zneg p) = 45%N :: Z_to_str (Zpos p).
Proof. reflexivity. Qed.
