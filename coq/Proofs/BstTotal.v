(* Proofs/BstTotal.v -- the fuel the model gives itself (|text| + 1) always suffices: no parse
   function returns OutOfFuel, for any text whatsoever. *)
From Pybtex Require Import Base.Prelude Base.PyChar Base.PyStr Model.BstParser Spec.BstPrint
  Proofs.BstLex Proofs.BstErrors.
Local Open Scope N_scope.

Lemma get_token_len ps ae s ln o s' ln' : get_token ps ae s ln = Ok (o, (s', ln')) ->
  (length s' <= length s)%nat /\ (o <> None -> (length s' < length s)%nat) /\
  (o = None -> s' <> [] /\ stops is_space s').
Proof.
  unfold get_token, eat_whitespace.
  destruct (span is_space s) as [g r] eqn:E. destruct (span_decomp _ _ _ _ E) as (-> & _ & Hr).
  destruct r as [|x r']; [destruct ae; discriminate|].
  destruct (first_match ps (x :: r')) as [[[p v] r'']|] eqn:Ef; intros H; injection H as <- <- <-.
  - apply first_match_inv in Ef. destruct (match_pat_inv _ _ _ _ Ef) as (Heq & Hv & _).
    rewrite Heq, !app_length. destruct v; [congruence|]. cbn [length].
    split; [lia|]. split; [intros _; lia|discriminate].
  - rewrite app_length. split; [lia|]. split; [congruence|]. intros _. split; [discriminate|exact Hr].
Qed.

Lemma required_len ps ae s ln t s' ln' : required ps ae s ln = Ok (t, (s', ln')) -> (length s' < length s)%nat.
Proof.
  unfold required. destruct (get_token ps ae s ln) as [[o [s1 ln1]]|c l| |] eqn:E; cbn [bind fst snd]; try discriminate.
  destruct o as [t0|]; [|discriminate]. intros H. injection H as _ <- _.
  apply get_token_len in E as (_ & H & _). apply H. discriminate.
Qed.

Definition fuel_ok {X} (s : str) (r : res (X * state)) : Prop :=
  match r with
  | OutOfFuel => False
  | Ok (_, (s', _)) => (length s' < length s)%nat
  | _ => True
  end.

Lemma parse_group_fuel : forall fuel s ln, (length s < fuel)%nat -> fuel_ok s (parse_group fuel s ln).
Proof.
  induction fuel as [|f IH]; intros s ln Hf; [lia|].
  cbn [parse_group].
  destruct (required group_pats false s ln) as [[[p v] [s1 ln1]]|c l| |] eqn:E; cbn [bind fuel_ok]; auto.
  2:{ unfold required in E. destruct (get_token group_pats false s ln) as [[o st]|? ?| |] eqn:E2; cbn [bind] in E; try discriminate.
      - destruct (fst (o, st)); discriminate.
      - unfold get_token in E2. destruct (eat_whitespace s ln) as [r l0]. destruct r; [discriminate|].
        destruct (first_match group_pats (c :: r)) as [[[? ?] ?]|]; discriminate. }
  apply required_len in E.
  assert (Hrest : forall hd : tok, fuel_ok s (do r <- parse_group f s1 ln1; Ok (hd :: fst r, snd r))).
  { intros hd. pose proof (IH s1 ln1 ltac:(lia)) as H1.
    destruct (parse_group f s1 ln1) as [[items [s2 ln2]]|c l| |]; cbn [bind fuel_ok fst snd] in *; auto. lia. }
  destruct p.
  - destruct (literal P_NAME v) as [t|c l| |] eqn:El; cbn [bind fuel_ok]; auto.
    exfalso. unfold literal, process_identifier in El. destruct v as [|x t]; [discriminate|]. destruct (x =? 39); discriminate.
  - destruct (literal P_STRING v) as [t|c l| |] eqn:El; cbn [bind fuel_ok]; auto.
    exfalso. unfold literal, process_string_literal in El. destruct v as [|x t]; [discriminate|].
    destruct ((x =? c_quote) && (last (x :: t) 0 =? c_quote)); discriminate.
  - destruct (literal P_INTEGER v) as [t|c l| |] eqn:El; cbn [bind fuel_ok]; auto.
    exfalso. unfold literal, process_int_literal, py_int in El.
    destruct (match strip_hash v with
              | [] => (false, strip_hash v)
              | m :: u => if m =? c_hyphen then (true, u) else (false, strip_hash v)
              end) as [neg ds].
    destruct ds as [|d ds]; [discriminate|].
    destruct (negb (forallb is_digit (d :: ds))); [discriminate|].
    destruct (max_str_digits <? Z.of_nat (length (d :: ds)))%Z; discriminate.
  - pose proof (IH s1 ln1 ltac:(lia)) as H1.
    destruct (parse_group f s1 ln1) as [[body [s2 ln2]]|c l| |]; cbn [bind fuel_ok] in *; auto.
    pose proof (IH s2 ln2 ltac:(lia)) as H2.
    destruct (parse_group f s2 ln2) as [[items [s3 ln3]]|c l| |]; cbn [bind fuel_ok fst snd] in *; auto. lia.
  - exact E.
Qed.

Definition fuel_ok0 {X} (s : str) (r : res (X * state)) : Prop :=
  match r with
  | OutOfFuel => False
  | Ok (_, (s', _)) => (length s' <= length s)%nat
  | _ => True
  end.

Lemma parse_args_fuel fuel : forall n s ln, (length s < fuel)%nat -> fuel_ok0 s (parse_args fuel n s ln).
Proof.
  induction n as [|k IH]; intros s ln Hf; [cbn; lia|].
  cbn [parse_args]. unfold optional.
  destruct (get_token [P_LBRACE] false s ln) as [[o [s1 ln1]]|c l| |] eqn:E; cbn [bind fuel_ok0]; auto.
  2:{ unfold get_token in E. destruct (eat_whitespace s ln) as [r l0]. destruct r; [discriminate|].
      destruct (first_match [P_LBRACE] (c :: r)) as [[[? ?] ?]|]; discriminate. }
  apply get_token_len in E as (Hle & Hlt & _).
  destruct o as [t|]; [|cbn; lia].
  specialize (Hlt ltac:(discriminate)).
  pose proof (parse_group_fuel fuel s1 ln1 ltac:(lia)) as Hg.
  destruct (parse_group fuel s1 ln1) as [[grp [s2 ln2]]|c l| |]; cbn [bind fuel_ok fuel_ok0] in *; auto.
  pose proof (IH s2 ln2 ltac:(lia)) as Ha.
  destruct (parse_args fuel k s2 ln2) as [[gs [s3 ln3]]|c l| |]; cbn [bind fuel_ok0 fst snd] in *; auto. lia.
Qed.

Lemma parse_command_fuel fuel s ln : (length s < fuel)%nat -> fuel_ok s (parse_command fuel s ln).
Proof.
  intros Hf. unfold parse_command.
  destruct (required [P_NAME] true s ln) as [[[p name] [s1 ln1]]|c l| |] eqn:E; cbn [bind fuel_ok]; auto.
  2:{ unfold required in E. destruct (get_token [P_NAME] true s ln) as [[o st]|? ?| |] eqn:E2; cbn [bind] in E; try discriminate.
      - destruct (fst (o, st)); discriminate.
      - unfold get_token in E2. destruct (eat_whitespace s ln) as [r l0]. destruct r; [discriminate|].
        destruct (first_match [P_NAME] (c :: r)) as [[[? ?] ?]|]; discriminate. }
  apply required_len in E.
  destruct (arity name) as [n|]; cbn [fuel_ok]; auto.
  pose proof (parse_args_fuel fuel n s1 ln1 ltac:(lia)) as Ha.
  destruct (parse_args fuel n s1 ln1) as [[gs [s2 ln2]]|c l| |]; cbn [bind fuel_ok fuel_ok0 fst snd] in *; auto. lia.
Qed.

Lemma parse_loop_fuel : forall fuel s ln, (length s < fuel)%nat -> parse_loop fuel s ln <> OutOfFuel.
Proof.
  induction fuel as [|f IH]; intros s ln Hf; [lia|].
  cbn [parse_loop].
  pose proof (parse_command_fuel (S (length s)) s ln ltac:(lia)) as Hc.
  destruct (parse_command (S (length s)) s ln) as [[c [s1 ln1]]|c l| |]; cbn [fuel_ok] in Hc; try discriminate; [|destruct (c =? cls_eof); discriminate|contradiction].
  pose proof (IH s1 ln1 ltac:(lia)) as Hl.
  destruct (parse_loop f s1 ln1); cbn [bind]; try discriminate. contradiction.
Qed.

(* the model never runs out of fuel: every result is Ok, a pybtex syntax error, or Crash *)
Theorem parse_string_fuel : forall src, parse_string src <> OutOfFuel.
Proof. intros src. unfold parse_string, parse_text. apply parse_loop_fuel. lia. Qed.
Theorem parse_stream_fuel : forall lines, parse_stream lines <> OutOfFuel.
Proof. intros l. unfold parse_stream, parse_text. apply parse_loop_fuel. lia. Qed.
