(* Proofs/CIDictFindings.v -- concrete witnesses (by computation on the extracted instance) of the
   places where the faithful model deviates from the reference map of property C13. *)
From Pybtex Require Import Base.Prelude Base.PyChar Base.PyStr Model.CIDict Model.CIDictStr.

(* C13-F1: CaseInsensitiveDefaultDict.lower() -- type(self)(self.items_lower()) passes the generator as
   default_factory: the lowered copy is empty although the original is not, and a later lookup of an
   absent key raises TypeError instead of yielding the default. *)
Lemma default_lower_loses_entries :
  exists (c : scid) ops, c = s_init ClsDefault 0 [] /\
    ops = [OSet (s2l "A") 1%Z; OLower] /\
    let c' := run_state str Z str_eqb lower c ops in
    ci_len str Z c' = 0 /\ ci_len str Z (run_state str Z str_eqb lower c [OSet (s2l "A") 1%Z]) = 1 /\
    ci_getitem str Z str_eqb lower c' (s2l "b") = EExn TypeError.
Proof. eexists. eexists. split; [reflexivity|]. split; [reflexivity|]. vm_compute. auto. Qed.
