(* Proofs/CIDictFindings.v -- the extracted instance (keys = str with the ASCII case mapping, values = Z)
   meets the hypotheses of the generic theorems, and the inputs of the repaired findings as regression facts (by computation). *)
From Pybtex Require Import Base.Prelude Base.PyChar Base.PyStr Model.CIDict Model.CIDictStr Spec.CIMap Spec.CIRel.

Lemma str_lower_idem : forall s : str, lower (lower s) = lower s.
Proof.
  intros s. unfold lower. rewrite map_map. apply map_ext. intros c. apply to_lower_idem.
Qed.
Lemma str_keqb_spec : forall a b : str, reflect (a = b) (str_eqb a b).
Proof. exact str_eqb_spec. Qed.

(* the inputs of the repaired findings C13-F1 .. C13-F4, as regression examples *)
Lemma f1_regression :
  let c := run_state str Z str_eqb lower (s_init ClsDefault 0 []) [OSet (s2l "A") 1%Z; OLower] in
  ci_items str Z str_eqb lower c = EOk [(s2l "a", 1%Z)] /\ ci_getitem str Z str_eqb lower c (s2l "b") = EOk 0%Z.
Proof. vm_compute. auto. Qed.
Lemma f2_regression :
  s_step (s_init ClsDefault 0 []) (OPop (s2l "x") (Some 9%Z)) = (s_init ClsDefault 0 [], EOk (RVal 9%Z)).
Proof. vm_compute. auto. Qed.
Lemma f3_regression :
  abs str Z (ci_init str Z str_eqb lower ClsPlain [(s2l "a", 1%Z); (s2l "A", 2%Z); (s2l "a", 3%Z)]) = [(s2l "a", (s2l "a", 3%Z))].
Proof. vm_compute. auto. Qed.
Lemma f4_regression :
  let c := s_init ClsDefault 0 [] in
  s_step c (OSetdefault (s2l "k") 5%Z) = (ci_setitem str Z str_eqb lower c (s2l "k") 5%Z, EOk (RVal 5%Z)) /\
  spec_step str Z str_eqb lower (Some 0%Z) (abs str Z c) (OSetdefault (s2l "k") 5%Z) =
    ([(s2l "k", (s2l "k", 5%Z))], EOk (RVal 5%Z)).
Proof. vm_compute. auto. Qed.
