(* Proofs/CIDictFindings.v -- the extracted instance (keys = str with the ASCII case mapping, values = Z)
   meets the hypotheses of the generic theorems, and concrete witnesses (by computation) of the places
   where the faithful model deviates from the reference map of property C13. *)
From Pybtex Require Import Base.Prelude Base.PyChar Base.PyStr Model.CIDict Model.CIDictStr Spec.CIMap Spec.CIRel.

Lemma str_lower_idem : forall s : str, lower (lower s) = lower s.
Proof.
  intros s. unfold lower. rewrite map_map. apply map_ext. intros c. apply to_lower_idem.
Qed.
Lemma str_keqb_spec : forall a b : str, reflect (a = b) (str_eqb a b).
Proof. exact str_eqb_spec. Qed.

(* C13-F1: CaseInsensitiveDefaultDict.lower() -- type(self)(self.items_lower()) passes the generator as
   default_factory: the lowered copy is empty although the original is not, and a later lookup of an
   absent key raises TypeError instead of yielding the default. *)
Lemma default_lower_loses_entries :
  exists (c : scid) ops, c = s_init ClsDefault 0 [] /\
    ops = [OSet (s2l "A") 1%Z; OLower] /\
    let c' := run_state str Z str_eqb lower c ops in
    ci_len str Z c' = 0 /\ ci_len str Z (run_state str Z str_eqb lower c [OSet (s2l "A") 1%Z]) = 1 /\
    ci_getitem str Z str_eqb lower c' (s2l "b") = EExn TypeError.
Proof. eexists. eexists. split; [reflexivity|]. split; [reflexivity|]. vm_compute. auto. Qed.

(* C13-F2: CaseInsensitiveDefaultDict.pop(absent, default) raises KeyError; the reference map returns the default *)
Lemma default_pop_default_raises :
  let c := s_init ClsDefault 0 [] in
  snd (s_step c (OPop (s2l "x") (Some 9%Z))) = EExn KeyError /\
  snd (spec_step str Z str_eqb lower (Some 0%Z) (abs str Z c) (OPop (s2l "x") (Some 9%Z))) = EOk (RVal 9%Z).
Proof. vm_compute. auto. Qed.

(* C13-F3: the constructor on k, k', k is not the sequence of insertions *)
Lemma init_not_sequential :
  let pairs := [(s2l "a", 1%Z); (s2l "A", 2%Z); (s2l "a", 3%Z)] in
  abs str Z (ci_init str Z str_eqb lower ClsPlain pairs) = [(s2l "a", (s2l "A", 2%Z))] /\
  sm_update str Z str_eqb lower [] pairs = [(s2l "a", (s2l "a", 3%Z))].
Proof. vm_compute. auto. Qed.
