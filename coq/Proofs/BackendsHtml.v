(* Proofs/BackendsHtml.v -- HTML output: character data equals the text (property C09) *)
From Pybtex Require Import Base.Prelude Base.PyChar Base.PyStr Model.RtTypes Model.Backends
  Proofs.Backends Proofs.BackendsMd.
Local Open Scope N_scope.

(* ---- xml escape is one simultaneous per-character pass ---- *)
Definition xesc (c : char) : str :=
  if c =? c_amp then (lit "&amp;") else if c =? c_gt then (lit "&gt;") else if c =? c_lt then (lit "&lt;") else [c].

Lemma xml_escape_flat s : xml_escape s = flat_map xesc s.
Proof.
  unfold xml_escape. unfold replace_char at 3.
  rewrite !replace_char_flat_map. apply flat_map_ext. intros x. unfold xesc.
  destruct (x =? c_amp) eqn:E1; [reflexivity|].
  unfold replace_char. cbn [flat_map app].
  destruct (x =? c_gt) eqn:E2; [reflexivity|].
  cbn [flat_map app]. destruct (x =? c_lt) eqn:E3; reflexivity.
Qed.

(* ---- an HTML reader: strips tags, decodes entities ---- *)
Inductive hatom := HC (c : char) | HEnt (name : str).
Inductive hstate := HText | HTag | HEntity (acc : str).

Definition ent_atom (name : str) : hatom :=
  if str_eqb name (lit "amp") then HC c_amp
  else if str_eqb name (lit "lt") then HC c_lt
  else if str_eqb name (lit "gt") then HC c_gt
  else HEnt name.

Definition cons_atom (a : hatom) (r : option (list hatom * hstate)) :=
  match r with Some (xs, st) => Some (a :: xs, st) | None => None end.

(* None: a bare > in character data, a < inside a tag, a malformed entity *)
Fixpoint hscan (st : hstate) (s : str) : option (list hatom * hstate) :=
  match s with
  | [] => Some ([], st)
  | c :: r =>
    match st with
    | HText =>
      if c =? c_lt then hscan HTag r
      else if c =? c_amp then hscan (HEntity []) r
      else if c =? c_gt then None
      else cons_atom (HC c) (hscan HText r)
    | HTag =>
      if c =? c_gt then hscan HText r else if c =? c_lt then None else hscan HTag r
    | HEntity acc =>
      if c =? c_semi then cons_atom (ent_atom (rev acc)) (hscan HText r)
      else if is_alnum c || (c =? c_hash) then hscan (HEntity (c :: acc)) r
      else None
    end
  end.

(* the character data of a fragment: all of it read, ending outside tags and entities *)
Definition chardata (s : str) : option (list hatom) :=
  match hscan HText s with Some (xs, HText) => Some xs | _ => None end.

Definition emits (s : str) (xs : list hatom) : Prop := hscan HText s = Some (xs, HText).

Lemma hscan_app a : forall st b,
  hscan st (a ++ b) =
  match hscan st a with
  | Some (xs, st') => match hscan st' b with Some (ys, st'') => Some (xs ++ ys, st'') | None => None end
  | None => None
  end.
Proof.
  induction a as [|c a IH]; intros st b.
  - cbn [app hscan]. destruct (hscan st b) as [[ys st'']|]; reflexivity.
  - cbn [app hscan]. destruct st.
    + destruct (c =? c_lt); [apply IH|]. destruct (c =? c_amp); [apply IH|].
      destruct (c =? c_gt); [reflexivity|]. rewrite IH.
      destruct (hscan HText a) as [[xs st']|]; [|reflexivity]. cbn [cons_atom].
      destruct (hscan st' b) as [[ys st'']|]; reflexivity.
    + destruct (c =? c_gt); [apply IH|]. destruct (c =? c_lt); [reflexivity|]. apply IH.
    + destruct (c =? c_semi).
      * rewrite IH. destruct (hscan HText a) as [[xs st']|]; [|reflexivity]. cbn [cons_atom].
        destruct (hscan st' b) as [[ys st'']|]; reflexivity.
      * destruct (is_alnum c || (c =? c_hash)); [apply IH|reflexivity].
Qed.

Lemma emits_nil : emits [] [].
Proof. reflexivity. Qed.

Lemma emits_nil_inv xs : emits [] xs -> xs = [].
Proof. unfold emits. cbn. congruence. Qed.

Lemma emits_app a b xs ys : emits a xs -> emits b ys -> emits (a ++ b) (xs ++ ys).
Proof. unfold emits. intros Ha Hb. rewrite hscan_app, Ha, Hb. reflexivity. Qed.

Lemma emits_xesc c : emits (xesc c) [HC c].
Proof.
  unfold xesc, emits.
  destruct (c =? c_amp) eqn:E1; [apply N.eqb_eq in E1; subst; reflexivity|].
  destruct (c =? c_gt) eqn:E2; [apply N.eqb_eq in E2; subst; reflexivity|].
  destruct (c =? c_lt) eqn:E3; [apply N.eqb_eq in E3; subst; reflexivity|].
  cbn [hscan]. rewrite E1, E2, E3. reflexivity.
Qed.

(* escaped text reads back as exactly its characters *)
Lemma emits_xml_escape s : emits (xml_escape s) (map HC s).
Proof.
  rewrite xml_escape_flat. induction s as [|c s IH]; [reflexivity|].
  cbn [flat_map map]. change (HC c :: map HC s) with ([HC c] ++ map HC s).
  apply emits_app; [apply emits_xesc|exact IH].
Qed.

(* ---- tags ---- *)
Definition no_angle (s : str) : bool := forallb (fun c => negb (c =? c_lt) && negb (c =? c_gt)) s.

Lemma hscan_tag_body n : forall r, no_angle n = true -> hscan HTag (n ++ c_gt :: r) = hscan HText r.
Proof.
  induction n as [|c n IH]; intros r H.
  - reflexivity.
  - cbn [no_angle forallb] in H. apply andb_prop in H as [H1 H2].
    apply andb_prop in H1 as [Hlt Hgt].
    cbn [app hscan]. destruct (c =? c_gt); [discriminate|]. destruct (c =? c_lt); [discriminate|].
    apply IH. exact H2.
Qed.

(* "<" body ">" is pure markup when the body has no angle bracket *)
Lemma emits_markup body : no_angle body = true -> emits (c_lt :: body ++ [c_gt]) [].
Proof. intros H. unfold emits. cbn [hscan]. rewrite N.eqb_refl. rewrite hscan_tag_body by assumption. reflexivity. Qed.

Lemma no_angle_app a b : no_angle (a ++ b) = no_angle a && no_angle b.
Proof. apply forallb_app. Qed.

(* ---- what the reader must see: the characters of the text, symbols as their entities ---- *)
Definition sym_atoms (v : str) : list hatom :=
  match hscan HText v with Some (xs, _) => xs | None => [] end.

Fixpoint hplain (T : tables) (t : rt) : list hatom :=
  match t with
  | RStr s => map HC s
  | RSym n => match lookup n (t_symbols T) with Some v => sym_atoms v | None => [] end
  | RText ps | RTag _ ps | RHRef _ _ ps | RProt ps => flat_map (hplain T) ps
  end.

(* tag names and URLs contain no angle bracket (tag names are names, URLs are ordinary) *)
Fixpoint names_ok (t : rt) : bool :=
  match t with
  | RStr _ | RSym _ => true
  | RText ps | RProt ps => forallb names_ok ps
  | RTag n ps => no_angle n && forallb names_ok ps
  | RHRef u _ ps => no_angle u && forallb names_ok ps
  end.

(* every symbol of the back end is an entity or text *)
Definition sym_ok (v : str) : bool := match hscan HText v with Some (_, HText) => true | _ => false end.
Definition html_symbols_ok (T : tables) : bool := forallb (fun p => sym_ok (snd p)) (t_symbols T).

Lemma lookup_In {V} n (tab : list (str * V)) v : lookup n tab = Some v -> exists k, In (k, v) tab.
Proof.
  induction tab as [|[k w] r IH]; cbn [lookup]; [discriminate|].
  destruct (str_eqb n k).
  - intros E. injection E as ->. exists k. left. reflexivity.
  - intros E. destruct (IH E) as [k' Hk]. exists k'. right. exact Hk.
Qed.

Lemma sym_ok_emits v : sym_ok v = true -> emits v (sym_atoms v).
Proof.
  unfold sym_ok, sym_atoms, emits. destruct (hscan HText v) as [[xs st]|]; [|discriminate].
  destruct st; try discriminate. reflexivity.
Qed.

Section Html.
Variable enc : str -> str.
Variable T : tables.
Hypothesis Hsym : html_symbols_ok T = true.

Lemma html_tag_emits n x xs : no_angle n = true -> emits x xs -> emits (html_tag n x) xs.
Proof.
  intros Hn Hx. unfold html_tag. destruct x as [|c x'].
  - cbn [is_empty]. apply emits_nil_inv in Hx. subst. apply emits_nil.
  - cbn [is_empty].
    replace ([c_lt] ++ n ++ [c_gt] ++ (c :: x') ++ [c_lt; 47] ++ n ++ [c_gt])
      with ((c_lt :: n ++ [c_gt]) ++ (c :: x') ++ (c_lt :: (47 :: n) ++ [c_gt]))
      by (cbn [app]; rewrite <- !app_assoc; reflexivity).
    replace xs with ([] ++ xs ++ []) by (rewrite app_nil_r; reflexivity).
    apply emits_app; [apply emits_markup; exact Hn|].
    apply emits_app; [exact Hx|].
    apply emits_markup. cbn [no_angle forallb]. exact Hn.
Qed.

Lemma html_href_emits u e x xs : no_angle u = true -> emits x xs -> emits (html_href u x e) xs.
Proof.
  intros Hu Hx. unfold html_href. destruct x as [|c x'].
  - cbn [is_empty]. apply emits_nil_inv in Hx. subst. apply emits_nil.
  - cbn [is_empty].
    set (target := if e then _ else _).
    assert (Ht : no_angle target = true) by (destruct e; reflexivity).
    replace ((lit "<a href=""") ++ u ++ [c_quote] ++ target ++ [c_gt] ++ (c :: x') ++ (lit "</a>"))
      with ((c_lt :: ((lit "a href=""") ++ u ++ [c_quote] ++ target) ++ [c_gt]) ++ (c :: x') ++ (lit "</a>"))
      by (cbn [app]; rewrite <- !app_assoc; reflexivity).
    replace xs with ([] ++ xs ++ []) by (rewrite app_nil_r; reflexivity).
    apply emits_app.
    + apply emits_markup. rewrite !no_angle_app, Hu, Ht. reflexivity.
    + apply emits_app; [exact Hx|reflexivity].
Qed.

Lemma html_protected_emits x xs : emits x xs -> emits (format_protected BHtml x) xs.
Proof.
  intros Hx. cbn [format_protected].
  replace xs with ([] ++ xs ++ []) by (rewrite app_nil_r; reflexivity).
  apply emits_app; [reflexivity|]. apply emits_app; [exact Hx|reflexivity].
Qed.

Lemma html_parts_emits ps :
  Forall (fun t => forall out, names_ok t = true -> render enc T BHtml t = Ok out -> emits out (hplain T t)) ps ->
  forall out, forallb names_ok ps = true -> render_parts enc T BHtml ps = Ok out -> emits out (flat_map (hplain T) ps).
Proof.
  induction 1 as [|p r Hp Hr IH]; intros out Hn Hren.
  - cbn in Hren. injection Hren as <-. apply emits_nil.
  - cbn [forallb] in Hn. apply andb_prop in Hn as [Hn1 Hn2].
    cbn [render_parts] in Hren.
    destruct (render enc T BHtml p) as [x| | |] eqn:Ex; try discriminate. cbn [bind] in Hren.
    destruct (render_parts enc T BHtml r) as [y| | |] eqn:Ey; try discriminate. cbn [bind] in Hren.
    injection Hren as <-. cbn [flat_map]. apply emits_app; [apply Hp; auto|apply IH; auto].
Qed.

Lemma html_chardata_holds t : forall out,
  names_ok t = true -> render enc T BHtml t = Ok out -> chardata out = Some (hplain T t).
Proof.
  assert (H : forall out, names_ok t = true -> render enc T BHtml t = Ok out -> emits out (hplain T t)).
  { induction t using rt_ind'; intros out Hn Hren; rewrite render_unfold in Hren; cbn [hplain].
    - injection Hren as <-. cbn [format_str]. apply emits_xml_escape.
    - destruct (lookup n (t_symbols T)) as [v|] eqn:El; [|discriminate]. injection Hren as <-.
      apply sym_ok_emits. apply lookup_In in El as [k Hk].
      unfold html_symbols_ok in Hsym. rewrite forallb_forall in Hsym. apply (Hsym (k, v) Hk).
    - cbn [names_ok] in Hn. eapply html_parts_emits; eauto.
    - cbn [names_ok] in Hn. apply andb_prop in Hn as [Hn1 Hn2].
      destruct (render_parts enc T BHtml ps) as [x| | |] eqn:Ex; try discriminate. cbn [bind] in Hren.
      injection Hren as <-. cbn [format_tag]. apply html_tag_emits; [exact Hn1|].
      eapply html_parts_emits; eauto.
    - cbn [names_ok] in Hn. apply andb_prop in Hn as [Hn1 Hn2].
      destruct (render_parts enc T BHtml ps) as [x| | |] eqn:Ex; try discriminate. cbn [bind] in Hren.
      injection Hren as <-. cbn [format_href]. apply html_href_emits; [exact Hn1|].
      eapply html_parts_emits; eauto.
    - cbn [names_ok] in Hn.
      destruct (render_parts enc T BHtml ps) as [x| | |] eqn:Ex; try discriminate. cbn [bind] in Hren.
      injection Hren as <-. apply html_protected_emits.
      eapply html_parts_emits; eauto. }
  intros out Hn Hren. unfold chardata. rewrite (H out Hn Hren). reflexivity.
Qed.

End Html.
