(* Proofs/TemplateFuel.v -- the fuel of find_field always suffices: evaluating a template never
   runs out of fuel (property C07). *)
From Pybtex Require Import Base.Prelude Base.PyChar Base.PyStr Model.RtTypes Model.Template Proofs.Template.

Lemma filter_len_le {X} (p : X -> bool) l : length (filter p l) <= length l.
Proof. induction l as [|x r IH]; cbn; [lia|]. destruct (p x); cbn; lia. Qed.

Lemma filter_len_strict {X} (p q : X -> bool) l e :
  (forall x, p x = true -> q x = true) -> In e l -> p e = false -> q e = true ->
  length (filter p l) < length (filter q l).
Proof.
  intros Hpq. assert (Hmono : forall l', length (filter p l') <= length (filter q l')).
  { induction l' as [|x r IH]; cbn; [lia|]. destruct (p x) eqn:Px; [rewrite (Hpq _ Px); cbn; lia|].
    destruct (q x); cbn; lia. }
  induction l as [|x r IH]; [contradiction|]. intros [->|Hin] Pe Qe; cbn.
  - rewrite Pe, Qe. cbn. specialize (Hmono r). lia.
  - specialize (IH Hin Pe Qe). destruct (p x) eqn:Px; [rewrite (Hpq _ Px); cbn; lia|]. destruct (q x); cbn; lia.
Qed.

Section fuel.
  Variable db : list entry.
  (* database entries whose key is among the visited keys *)
  Definition vc (visited : list str) : nat := length (filter (fun x => existsb (keyb (e_key x)) visited) db).

  Lemma vc_le visited : vc visited <= length db.
  Proof. apply filter_len_le. Qed.

  Lemma vc_cons e visited :
    In e db -> existsb (keyb (e_key e)) visited = false -> S (vc visited) <= vc (e_key e :: visited).
  Proof.
    intros Hin Hv. unfold vc. apply (filter_len_strict _ _ db e); auto.
    - intros x Hx. cbn [existsb]. rewrite Hx. apply orb_true_r.
    - cbn [existsb]. unfold keyb at 1. now rewrite str_eqb_refl.
  Qed.

  Lemma find_field_fuel_in name : forall fuel e visited,
    In e db -> S (length db) <= fuel + vc visited -> find_field fuel (Some db) e name visited <> None.
  Proof.
    induction fuel as [|f IH]; intros e visited Hin Hf.
    - pose proof (vc_le visited). lia.
    - cbn [find_field]. destruct (ci_get name (e_fields e)); [discriminate|].
      destruct (ci_get name (e_persons e)); [discriminate|].
      destruct (ci_get s_crossref (e_fields e)) as [target|]; [|discriminate].
      destruct (existsb (keyb (e_key e)) visited) eqn:V; [discriminate|].
      destruct (db_get target db) as [e'|] eqn:G; [|discriminate].
      apply IH.
      + unfold db_get in G. now apply find_some in G as [G _].
      + pose proof (vc_cons e visited Hin V). lia.
  Qed.
End fuel.

Lemma find_field_fuel db e name : find_field (ff_fuel db) db e name [] <> None.
Proof.
  unfold ff_fuel. destruct db as [d|]; [remember (S (length d)) as n eqn:En|]; cbn [find_field].
  - destruct (ci_get name (e_fields e)); [discriminate|].
    destruct (ci_get name (e_persons e)); [discriminate|].
    destruct (ci_get s_crossref (e_fields e)) as [target|]; [|discriminate].
    cbn [existsb]. destruct (db_get target d) as [e'|] eqn:G; [|discriminate].
    apply find_field_fuel_in.
    + unfold db_get in G. now apply find_some in G as [G _].
    + lia.
  - destruct (ci_get name (e_fields e)); [discriminate|].
    destruct (ci_get name (e_persons e)); discriminate.
Qed.

(* ------------------------------------------------------------------------------ *)
Lemma tmapM_fuel {X Y} (f : X -> tres Y) l : tmapM f l = TFuel -> exists x, In x l /\ f x = TFuel.
Proof.
  induction l as [|x r IH]; cbn; [discriminate|]. destruct (f x) eqn:E; cbn; try discriminate.
  - destruct (tmapM f r) eqn:E2; cbn; try discriminate. intros _.
    destruct (IH eq_refl) as (y & Hy & Hf). exists y; split; [now right|exact Hf].
  - intros _. exists x; split; [now left|exact E].
Qed.

Lemma tbind_fuel {A B} (r : tres A) (f : A -> tres B) :
  tbind r f = TFuel -> r = TFuel \/ exists a, r = TOk a /\ f a = TFuel.
Proof. destruct r; cbn; try discriminate; [right; eauto | now left]. Qed.

Lemma parse_latex_no_fuel s lv : parse_latex s lv <> TFuel.
Proof.
  revert lv; induction s as [|ch t IH]; intros lv; cbn [parse_latex]; [destruct lv; discriminate|].
  destruct (N.eqb ch c_lbrace); [apply IH|]. destruct (N.eqb ch c_rbrace); [destruct lv; [discriminate|apply IH]|].
  specialize (IH lv). destruct (parse_latex t lv); cbn; congruence.
Qed.

Lemma from_latex_no_fuel tbl s : from_latex tbl s <> TFuel.
Proof.
  unfold from_latex, decode. destruct (find _ tbl) as [[? [d|]]|]; cbn; try discriminate; apply parse_latex_no_fuel.
Qed.

Lemma format_name_no_fuel tbl ns ab p : format_name tbl ns ab p <> TFuel.
Proof.
  assert (R : forall l, rich_names tbl l <> TFuel).
  { intros l H. apply tmapM_fuel in H as (x & _ & H). eapply from_latex_no_fuel; eauto. }
  unfold format_name. intros H. destruct ns;
  repeat (apply tbind_fuel in H as [H | (? & _ & H)]; [now apply R in H|]); discriminate.
Qed.

Lemma eval_field_no_fuel c name a raw : eval_field c name a raw <> TFuel.
Proof.
  unfold eval_field. pose proof (find_field_fuel (c_db c) (c_entry c) name) as Hf.
  destruct (find_field _ _ _ _ _) as [[v|]|]; [|discriminate|congruence].
  destruct raw.
  - cbn. destruct a; discriminate.
  - destruct (from_latex (c_dec c) v) eqn:E; cbn; try discriminate.
    + destruct a; cbn; discriminate.
    + now apply from_latex_no_fuel in E.
Qed.

Lemma eval_names_no_fuel c role s s2 ls : eval_names c role s s2 ls <> TFuel.
Proof.
  unfold eval_names. destruct (ci_get role _) as [ps|]; [|discriminate].
  destruct (tmapM _ ps) eqn:E; cbn; try discriminate.
  apply tmapM_fuel in E as (x & _ & E). now apply format_name_no_fuel in E.
Qed.

Lemma ensure_text_no_fuel l : tmapM ensure_text l <> TFuel.
Proof. intros H. apply tmapM_fuel in H as (x & _ & H). destruct x; discriminate. Qed.

Lemma evals_no_fuel c cs : Forall (fun t => eval c t <> TFuel) cs -> evals c cs <> TFuel.
Proof. intros HF H. apply tmapM_fuel in H as (x & Hx & H). rewrite Forall_forall in HF. now apply (HF x Hx). Qed.

Lemma text_of_no_fuel c cs : Forall (fun t => eval c t <> TFuel) cs -> text_of c cs <> TFuel.
Proof.
  intros HF. unfold text_of. destruct (evals c cs) eqn:E; cbn; try discriminate.
  - destruct (tmapM ensure_text a) eqn:E2; cbn; try discriminate. now apply ensure_text_no_fuel in E2.
  - now apply evals_no_fuel in E.
Qed.

Lemma abbr_children_no_fuel b t l acc : abbr_children b t l acc <> TFuel.
Proof.
  revert acc; induction l as [|x r IH]; intros acc; cbn; [discriminate|].
  destruct x; try discriminate. destruct is_str; [discriminate|apply IH].
Qed.

Lemma eval_no_fuel_lemma c t : eval c t <> TFuel.
Proof.
  induction t using tnode_ind2.
  - discriminate.
  - discriminate.
  - rewrite eval_join. destruct (evals c cs) eqn:E; cbn; try discriminate. now apply evals_no_fuel in E.
  - rewrite eval_words. destruct (evals c cs) eqn:E; cbn; try discriminate. now apply evals_no_fuel in E.
  - rewrite eval_together. destruct (evals c cs) eqn:E; cbn; try discriminate. now apply evals_no_fuel in E.
  - rewrite eval_sentence. destruct (evals c cs) eqn:E; cbn; try discriminate. now apply evals_no_fuel in E.
  - cbn [eval]. apply eval_field_no_fuel.
  - cbn [eval]. apply eval_names_no_fuel.
  - rewrite eval_optional. destruct (text_of c cs) eqn:E; cbn; try discriminate. now apply text_of_no_fuel in E.
  - cbn [eval]. destruct (eval_field c n a r) as [[f|]| | | |] eqn:E; cbn; try discriminate. now apply eval_field_no_fuel in E.
  - rewrite eval_tag. destruct (text_of c cs) eqn:E; cbn; try discriminate. now apply text_of_no_fuel in E.
  - rewrite eval_href_some. destruct (eval c t) eqn:E; cbn; try discriminate; [|congruence].
    destruct a; [|discriminate]. destruct (text_of c cs) eqn:E2; cbn; try discriminate. now apply text_of_no_fuel in E2.
  - rewrite eval_href_none. destruct (evals c cs) eqn:E; cbn; try discriminate.
    + destruct a as [|[uf|] rest]; try discriminate. destruct (tmapM ensure_text rest) eqn:E2; cbn; try discriminate.
      now apply ensure_text_no_fuel in E2.
    + now apply evals_no_fuel in E.
  - rewrite eval_firstof. induction H as [|x r Hx Hr IH]; cbn [first_eval]; [discriminate|].
    destruct (eval c x) eqn:E; cbn; try discriminate; [|congruence]. destruct (truthy a); [discriminate|exact IH].
  - rewrite eval_toplevel. destruct (evals c cs) eqn:E; cbn; try discriminate. now apply evals_no_fuel in E.
  - rewrite eval_namepart. destruct a; [apply abbr_children_no_fuel|].
    destruct (evals c cs) eqn:E; cbn; try discriminate. now apply evals_no_fuel in E.
  - discriminate.
Qed.
