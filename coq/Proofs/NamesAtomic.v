(* Proofs/NamesAtomic.v -- braced groups are never split: if every opened brace of a string is closed
   again (Spec/Names.v closed; a '}' at level 0 is an ordinary character), then the same holds of every
   token split_tex_string produces from it, whatever the separator. *)
From Pybtex Require Import Base.Prelude Base.PyChar Base.PyStr Model.BibtexStr Spec.Names Proofs.NamesSplit.

Definition lvl (s : str) (d : nat) : nat := fold_left bl_step s d.

Lemma lvl_cons c t d : lvl (c :: t) d = lvl t (bl_step d c).
Proof. reflexivity. Qed.

Lemma lvl_app a b d : lvl (a ++ b) d = lvl b (lvl a d).
Proof. apply fold_left_app. Qed.

Lemma closed_lvl s : closed s <-> lvl s 0 = 0.
Proof. reflexivity. Qed.

Lemma closed_app a b : closed a -> closed b -> closed (a ++ b).
Proof. unfold closed, brace_level_after. intros Ha Hb. fold (lvl (a ++ b) 0). rewrite lvl_app. unfold lvl. now rewrite Ha. Qed.

Lemma closed_concat (l : list str) : Forall closed l -> closed (concat l).
Proof. induction 1; [reflexivity|]. cbn [concat]. now apply closed_app. Qed.

Definition nolb (c : char) : bool := negb (is_lbrace c).

(* without an opening brace the level stays 0 *)
Lemma nolb_closed s : forallb nolb s = true -> closed s.
Proof.
  unfold closed, brace_level_after. induction s as [|c s IH]; [reflexivity|].
  cbn [forallb fold_left]. intros H. apply andb_prop in H as [Hc Hs].
  unfold nolb, is_lbrace in Hc. unfold bl_step at 2. apply negb_true_iff in Hc. rewrite Hc.
  destruct (N.eqb c c_rbrace); cbn [pred]; auto.
Qed.

(* the level only depends on the braces *)
Lemma lvl_filter (P : char -> bool) (HP : forall c, P c = false -> N.eqb c c_lbrace = false /\ N.eqb c c_rbrace = false) :
  forall s d, lvl (filter P s) d = lvl s d.
Proof.
  induction s as [|c s IH]; intros d; [reflexivity|]. cbn [filter].
  destruct (P c) eqn:E.
  - unfold lvl. cbn [fold_left]. apply IH.
  - unfold lvl at 2. cbn [fold_left]. destruct (HP c E) as [H1 H2]. unfold bl_step at 2. rewrite H1, H2. apply IH.
Qed.

Lemma space_not_brace c : is_space c = true -> N.eqb c c_lbrace = false /\ N.eqb c c_rbrace = false.
Proof.
  intros H. split; apply N.eqb_neq; intros ->; vm_compute in H; discriminate.
Qed.

Lemma closed_strip s : closed s -> closed (strip s).
Proof.
  intros H. change (lvl (strip s) 0 = 0). change (lvl s 0 = 0) in H.
  set (dr := fun c => is_space c).
  assert (HP : forall c, negb (dr c) = false -> N.eqb c c_lbrace = false /\ N.eqb c c_rbrace = false).
  { intros c Hc. apply negb_false_iff in Hc. now apply space_not_brace. }
  rewrite <- (lvl_filter _ HP) in H. rewrite <- (lvl_filter _ HP).
  change (filter (fun c => negb (dr c)) (strip s)) with (keep dr (strip s)).
  rewrite keep_strip; [exact H|]. intros c Hc. exact Hc.
Qed.

(* _find_closing_brace stops at the first position where the level (from 1) reaches 0 *)
Lemma fcb_first_zero : forall s l i lst, lvl s (S l) = 0 ->
  exists k, fcb_pos s (S l) i lst = i + S k /\ lvl (firstn (S k) s) (S l) = 0 /\ lvl (skipn (S k) s) 0 = 0.
Proof.
  induction s as [|c t IH]; intros l i lst H; [discriminate|].
  rewrite lvl_cons in H. cbn [fcb_pos]. unfold is_lbrace, is_rbrace. unfold bl_step in H.
  destruct (N.eqb c c_lbrace) eqn:El.
  - destruct (IH (S l) (S i) (S i) H) as (k & Hp & H1 & H2).
    exists (S k). split; [rewrite Hp; lia|]. split; [|exact H2].
    cbn [firstn]. rewrite lvl_cons. unfold bl_step. rewrite El. exact H1.
  - destruct (N.eqb c c_rbrace) eqn:Er.
    + destruct l as [|l'].
      * exists 0. split; [lia|]. split; [|exact H].
        cbn [firstn]. rewrite lvl_cons. unfold bl_step. now rewrite El, Er.
      * cbn [pred] in H. destruct (IH l' (S i) (S i) H) as (k & Hp & H1 & H2).
        exists (S k). split; [rewrite Hp; lia|]. split; [|exact H2].
        cbn [firstn]. rewrite lvl_cons. unfold bl_step. rewrite El, Er. exact H1.
    + destruct (IH l (S i) lst H) as (k & Hp & H1 & H2).
      exists (S k). split; [rewrite Hp; lia|]. split; [|exact H2].
      cbn [firstn]. rewrite lvl_cons. unfold bl_step. rewrite El, Er. exact H1.
Qed.

Lemma find_closing_brace_closed rest u r' : closed (c_lbrace :: rest) -> find_closing_brace rest = (u, r') ->
  closed (c_lbrace :: u) /\ closed r'.
Proof.
  intros H. change (lvl (c_lbrace :: rest) 0 = 0) in H. rewrite lvl_cons in H. change (bl_step 0 c_lbrace) with 1 in H.
  destruct (fcb_first_zero rest 0 0 0 H) as (k & Hp & H1 & H2).
  unfold find_closing_brace. rewrite Hp. cbn [Nat.add Nat.eqb]. intros [= <- <-]. split.
  - change (lvl (c_lbrace :: firstn (S k) rest) 0 = 0). rewrite lvl_cons. exact H1.
  - exact H2.
Qed.

(* the pieces of a head contain only characters of the head *)
Lemma forallb_skipn {X} (P : X -> bool) n (l : list X) : forallb P l = true -> forallb P (skipn n l) = true.
Proof.
  revert l; induction n as [|n IH]; intros l H; [exact H|]. destruct l as [|x l]; [reflexivity|].
  cbn in H. apply andb_prop in H as [_ H]. cbn [skipn]. now apply IH.
Qed.

Lemma re_split_go_forall (P : char -> bool) m : forall fuel prev s acc,
  forallb P (rev acc) = true -> forallb P s = true ->
  Forall (fun p => forallb P p = true) (re_split_go fuel m prev s acc).
Proof.
  induction fuel as [|f IH]; intros prev s acc Ha Hs; cbn [re_split_go].
  - constructor; [|constructor]. rewrite forallb_app, Ha, Hs. reflexivity.
  - destruct s as [|c t]; [constructor; [exact Ha|constructor]|].
    destruct (m prev (c :: t)) as [|k].
    + cbn [forallb] in Hs. apply andb_prop in Hs as [Hc Ht]. apply IH; [|exact Ht].
      cbn [rev]. rewrite forallb_app, Ha. cbn. now rewrite Hc.
    + constructor; [exact Ha|]. apply IH; [reflexivity|]. now apply forallb_skipn.
Qed.

Lemma re_split_closed m h : forallb nolb h = true -> Forall closed (re_split m h).
Proof.
  intros H. unfold re_split.
  eapply Forall_impl; [|apply (re_split_go_forall nolb m _ None h []); [reflexivity|exact H]].
  intros p Hp. now apply nolb_closed.
Qed.

Lemma split_loop_closed m : forall fuel s result wp r,
  split_loop fuel m s result wp = Some r ->
  closed s -> Forall closed result -> closed (concat wp) -> Forall closed r.
Proof.
  induction fuel as [|f IH]; intros s result wp r; cbn [split_loop]; [discriminate|].
  destruct (partition_brace s) as [[h b] rest] eqn:P.
  intros H Hs Hr Hw.
  assert (Hh : forallb nolb h = true).
  { destruct b; [apply partition_brace_true in P|apply partition_brace_false in P]; apply P. }
  assert (Hhead : forall result1 wp1,
    match h with
    | [] => (result, wp)
    | _ :: _ => match removelast (re_split m h) with
                | [] => (result, wp ++ [last (re_split m h) []])
                | w :: ws => (result ++ [concat (wp ++ [w])] ++ ws, [last (re_split m h) []])
                end
    end = (result1, wp1) -> Forall closed result1 /\ closed (concat wp1)).
  { intros result1 wp1. destruct h as [|c h'].
    - intros [= <- <-]. auto.
    - assert (Hne : re_split m (c :: h') <> []) by apply re_split_go_nonempty.
      assert (Hc := re_split_closed m (c :: h') Hh).
      destruct (exists_last Hne) as (firsts & lastp & Ehp). rewrite Ehp in *. clear Ehp.
      rewrite removelast_app by discriminate. cbn [removelast]. rewrite app_nil_r, last_last.
      apply Forall_app in Hc as [Hf Hl]. inversion Hl as [|? ? Hlp _]; subst.
      destruct firsts as [|w ws].
      + intros [= <- <-]. split; [exact Hr|]. rewrite concat_snoc_str. now apply closed_app.
      + intros [= <- <-]. inversion Hf as [|? ? Hw0 Hws]; subst. split.
        * apply Forall_app. split; [exact Hr|]. constructor; [|exact Hws].
          rewrite concat_snoc_str. now apply closed_app.
        * cbn [concat]. now rewrite app_nil_r. }
  match type of H with context [let '(_, _) := ?e in _] => destruct e as [result1 wp1] eqn:Eh end.
  destruct (Hhead result1 wp1 eq_refl) as [Hr1 Hw1].
  destruct b.
  - apply partition_brace_true in P as [-> _].
    destruct (find_closing_brace rest) as [u r'] eqn:F.
    assert (Hg : closed (c_lbrace :: rest)).
    { change (lvl (h ++ c_lbrace :: rest) 0 = 0) in Hs. rewrite lvl_app in Hs. apply nolb_closed in Hh.
      change (lvl h 0 = 0) in Hh. rewrite Hh in Hs. exact Hs. }
    destruct (find_closing_brace_closed _ _ _ Hg F) as [Hu Hr'].
    eapply IH; [exact H|exact Hr'|exact Hr1|].
    rewrite concat_app. cbn [concat]. rewrite app_nil_r. apply closed_app; [exact Hw1|exact Hu].
  - destruct wp1 as [|x wp1']; injection H as <-; [exact Hr1|].
    apply Forall_app. split; [exact Hr1|]. constructor; [exact Hw1|constructor].
Qed.

Lemma split_gen_closed m s st fe r : closed s -> split_tex_string_gen m s st fe = Ok r -> Forall closed r.
Proof.
  intros Hs. unfold split_tex_string_gen. destruct (split_loop _ _ _ _ _) as [r0|] eqn:E; [|discriminate].
  apply split_loop_closed in E; [|exact Hs|constructor|reflexivity].
  intros [= <-].
  assert (H1 : Forall closed (if st then map strip r0 else r0)).
  { destruct st; [|exact E]. apply Forall_forall. intros x Hx. apply in_map_iff in Hx as (y & <- & Hy).
    apply closed_strip. rewrite Forall_forall in E. now apply E. }
  destruct fe; [|exact H1]. apply Forall_forall. intros x Hx. apply filter_In in Hx as [Hx _].
  rewrite Forall_forall in H1. now apply H1.
Qed.

Lemma braced_groups_atomic_pf s : closed s ->
  (forall ts, split_tex_space s = Ok ts -> Forall closed ts) /\
  (forall parts, split_tex_comma s = Ok parts -> Forall closed parts).
Proof. intros H. split; intros r; now apply split_gen_closed. Qed.

(* ---- at the level of Person(string) ---- *)
From Pybtex Require Import Model.Names Proofs.Names.

Lemma closed_join_space (l : list str) : Forall closed l -> closed (join [c_space] l).
Proof.
  induction 1 as [|x l Hx Hl IH]; [reflexivity|].
  destruct l as [|y r]; [exact Hx|].
  change (join [c_space] (x :: y :: r)) with (x ++ [c_space] ++ join [c_space] (y :: r)).
  apply closed_app; [exact Hx|]. apply closed_app; [reflexivity|exact IH].
Qed.

Lemma Forall_nth_closed (l : list str) n : Forall closed l -> closed (nth n l []).
Proof.
  intros H. destruct (nth_in_or_default n l []) as [Hi| ->]; [|reflexivity].
  rewrite Forall_forall in H. now apply H.
Qed.

Lemma Forall_skipn {X} (P : X -> Prop) n (l : list X) : Forall P l -> Forall P (skipn n l).
Proof.
  intros H. rewrite <- (firstn_skipn n l) in H. apply Forall_app in H. tauto.
Qed.

Lemma person_tokens_closed_pf s p rep : closed s -> person_of_string s = Ok (p, rep) ->
  Forall closed (p_first p ++ p_middle p ++ p_prelast p ++ p_last p ++ p_lineage p).
Proof.
  intros Hs H. apply closed_strip in Hs.
  destruct (split_gen_good sep_comma (strip s) true false) as [parts Hc]. fold (split_tex_comma (strip s)) in Hc.
  assert (Hp : Forall closed parts) by (eapply split_gen_closed; eauto).
  destruct (tokens_preserved_pf _ _ _ _ Hc H) as [H0 H2].
  destruct (Nat.le_gt_cases (length parts) 1) as [Hl|Hl].
  - destruct (H0 Hl) as (ts & Hts & E & Hj & _). rewrite Hj, app_nil_r.
    rewrite !app_assoc in *. rewrite <- E. eapply split_gen_closed; eauto.
  - destruct (H2 Hl) as (ta & tj & tf & Ha & Hj & Hf & Ea & Ej & Ef & _).
    assert (Ca : Forall closed ta) by (eapply split_gen_closed; [|exact Ha]; now apply Forall_nth_closed).
    assert (Cj : Forall closed tj).
    { eapply split_gen_closed; [|exact Hj]. unfold jr_part. destruct (Nat.eqb _ 2); [reflexivity|now apply Forall_nth_closed]. }
    assert (Cf : Forall closed tf).
    { eapply split_gen_closed; [|exact Hf]. unfold first_part. destruct (Nat.eqb _ 2); [now apply Forall_nth_closed|].
      apply closed_join_space. now apply Forall_skipn. }
    subst ta tj tf. rewrite !app_assoc. apply Forall_app. split; [|exact Cj].
    rewrite <- app_assoc. apply Forall_app. split; [exact Cf|exact Ca].
Qed.
