(* Proofs/BibtexStrBst.v -- round 3: the BST builtin wrappers of Model/BibtexStr.v (the functions
   the C12 correspondence runs through the real builtins) are exactly what C03's interpreter model
   executes for the same builtins: same operands in the same pop order, same errors. *)
From Pybtex Require Import Base.Prelude Base.PyChar Base.PyStr Model.BibtexStr Model.Bst Proofs.BstLaws
  Proofs.BibtexStrNames.

Lemma step_substring fmt cw rec wh st len start s r : st_stack st = VInt len :: VInt start :: VStr s :: r ->
  builtin_step fmt cw rec wh B_substring st =
  bind (bst_substring s start len) (fun v => Ok (set_stack st (VStr v :: r))).
Proof. intros H. rewrite (substring_law fmt cw rec wh st len start s r H). reflexivity. Qed.

Lemma step_text_prefix fmt cw rec wh st n s r : st_stack st = VInt n :: VStr s :: r ->
  builtin_step fmt cw rec wh B_text_prefix st =
  bind (bst_text_prefix s n) (fun v => Ok (set_stack st (VStr v :: r))).
Proof. intros H. rewrite (text_prefix_law fmt cw rec wh st n s r H). reflexivity. Qed.

Lemma step_text_length fmt cw rec wh st s r : st_stack st = VStr s :: r ->
  builtin_step fmt cw rec wh B_text_length st =
  bind (bst_text_length s) (fun n => Ok (set_stack st (VInt (Z.of_nat n) :: r))).
Proof. intros H. rewrite (text_length_law fmt cw rec wh st s r H). reflexivity. Qed.

Lemma step_purify fmt cw rec wh st s r : st_stack st = VStr s :: r ->
  builtin_step fmt cw rec wh B_purify st =
  bind (bst_purify s) (fun v => Ok (set_stack st (VStr v :: r))).
Proof. intros H. rewrite (purify_law fmt cw rec wh st s r H). reflexivity. Qed.

Lemma step_width fmt cw rec wh st s r : st_stack st = VStr s :: r ->
  builtin_step fmt cw rec wh B_width st =
  bind (bst_width cw s) (fun w => Ok (set_stack st (VInt w :: r))).
Proof. intros H. rewrite (width_law fmt cw rec wh st s r H). reflexivity. Qed.

Lemma step_num_names fmt cw rec wh st s r : st_stack st = VStr s :: r ->
  builtin_step fmt cw rec wh B_num_names st =
  bind (bst_num_names s) (fun n => Ok (set_stack st (VInt (Z.of_nat n) :: r))).
Proof.
  intros H. rewrite (num_names_law fmt cw rec wh st s r H). unfold bst_num_names.
  destruct (split_name_list s); reflexivity.
Qed.

Lemma step_change_case fmt cw rec wh st c m s r : st_stack st = VStr (c :: m) :: VStr s :: r ->
  builtin_step fmt cw rec wh B_change_case st =
  bind (bst_change_case s (c :: m)) (fun v => Ok (set_stack st (VStr v :: r))).
Proof.
  intros H. rewrite (change_case_law fmt cw rec wh st c m s r H). unfold mode_of. cbn [bst_change_case].
  destruct (N.eqb (to_lower c) 108); [reflexivity|].
  destruct (N.eqb (to_lower c) 117); [reflexivity|].
  destruct (N.eqb (to_lower c) 116); reflexivity.
Qed.
