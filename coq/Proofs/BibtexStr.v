From Pybtex Require Import Base.Prelude Base.PyChar Base.PyStr Model.BibtexStr.

Lemma substring_start_zero s l : bibtex_substring s 0 l = [].
Proof. reflexivity. Qed.
